(* The server model against the spec-level reading of a request, part 3 (C08): one additional
   record, the additional-section scan, and the whole pre-scan, each decided exactly as the
   spec-level classifier [first_problem] (Spec/MsgWalkS.v) says. *)
From QV Require Import Base.ListX Model.NameWire Model.Reader Model.RdataLite Model.Server
  Spec.NameWireS Spec.NameRepr Spec.ReaderS Spec.MsgWalkS
  Proofs.NameWireP Proofs.NameWireSP Proofs.ReaderP Proofs.RdataLiteP Proofs.ServerP Proofs.MsgWalkP Proofs.MsgWalkRecP.
Local Open Scope nat_scope.

(* ---------- what the responses look like ---------- *)
Definition upper0 (w : resp) : Prop := match w_edns w with Some (_, up) => up = 0%N | None => True end.
(* FORMERR: RCODE 1, no extended bits, no TSIG *)
Definition formerr_resp (w : resp) : Prop := w_rcode w = RC_FORMERR /\ w_tsig w = None /\ upper0 w.
(* BADVERS: extended RCODE 16 = upper bits 1, RCODE 0, in an EDNS response *)
Definition badvers_resp (w : resp) : Prop := w_rcode w = 0%N /\ w_tsig w = None /\ exists sz, w_edns w = Some (sz, 1%N).
(* a response decided by TSIG processing: it carries a TSIG record, or TC because the TSIG did not fit *)
Definition tsig_resp (w : resp) : Prop := w_tsig w <> None \/ w_tc w = true.

Lemma formerr_set_rcode w : w_tsig w = None -> formerr_resp (set_rcode w RC_FORMERR).
Proof.
  intros H. split; [reflexivity|]. split; [exact H|]. unfold upper0, set_rcode; simpl.
  destruct (w_edns w) as [[sz up]|]; auto.
Qed.

Lemma tsig_or_truncate_resp w t : tsig_resp (fst (set_tsig_or_truncate w t)).
Proof.
  unfold set_tsig_or_truncate, tsig_resp. destruct (set_tsig w t) as [w'|e|] eqn:E; cbn [fst]; [|right; reflexivity|right; reflexivity].
  left. unfold set_tsig in E. destruct (w_tsig w); [discriminate|]. destruct (_ <? _); [discriminate|].
  destruct (_ <=? _)%N; [discriminate|]. inv E. simpl. discriminate.
Qed.

Lemma tsig_or_truncate_ok w t : snd (set_tsig_or_truncate w t) = true ->
  w_tsig (fst (set_tsig_or_truncate w t)) <> None /\ w_rcode (fst (set_tsig_or_truncate w t)) = w_rcode w.
Proof.
  unfold set_tsig_or_truncate. destruct (set_tsig w t) as [w'|e|] eqn:E; cbn [fst snd]; try discriminate. intros _.
  unfold set_tsig in E. destruct (w_tsig w); [discriminate|]. destruct (_ <? _); [discriminate|].
  destruct (_ <=? _)%N; [discriminate|]. inv E. simpl. split; [discriminate|reflexivity].
Qed.

Lemma set_limit_fields w l w' : set_limit w l = Ok w' ->
  w_rcode w' = w_rcode w /\ w_edns w' = w_edns w /\ w_tsig w' = w_tsig w.
Proof.
  unfold set_limit. destruct (_ <=? _).
  - destruct (_ <? _); [discriminate|]. intros H; inv H. auto.
  - destruct (_ <? _); [discriminate|]. destruct (_ <? _); [discriminate|]. destruct (_ <? _); [discriminate|].
    intros H; inv H. auto.
Qed.

Lemma offs_of_length ls : forall base, length (offs_of base ls) = S (length ls).
Proof. induction ls as [|l r IH]; intros base; simpl; [reflexivity|]. rewrite IH. reflexivity. Qed.

Lemma shiftr16 raw : N.shiftr raw 16 = (raw / 65536)%N.
Proof. rewrite N.shiftr_div_pow2. reflexivity. Qed.

(* ---------- one additional record ---------- *)
Definition pa_rel (w : resp) (seen : bool) (cls : rec_class) (r' : reader) (s : step_result) (seen' : bool) : Prop :=
  match cls with
  | RUndelim | RSecondOpt | RTsigNotLast | RTsigMalformed | ROptMalformed => exists w', s = Return w' /\ formerr_resp w'
  | RBadVers => exists w', s = Return w' /\ badvers_resp w'
  | ROptOk e => exists w', s = Continue w' /\ r_cursor r' = e /\ seen' = true /\ w_rcode w' = 0%N /\ w_tsig w' = None
  | RTsig e => (exists w', s = Return w' /\ tsig_resp w') \/
               (exists w', s = Continue w' /\ r_cursor r' = e /\ w_rcode w' = 0%N /\ w_tsig w' <> None)
  | ROrdinary e => s = Continue w /\ r_cursor r' = e /\ seen' = seen
  end.

Lemma pa_spec verify cfg r w seen last r' s seen' : wf_cfg cfg -> rinv r -> srv_inv cfg seen w -> w_rcode w = 0%N ->
  process_additional verify cfg r w seen last = Ok (r', s, seen') ->
  pa_rel w seen (s_classify (r_octets r) (r_cursor r) seen last) r' s seen'.
Proof.
  intros Hcfg Hinv I Hrc H. pose proof I as (_ & _ & Hts & _).
  unfold process_additional, peek_rr in H. pose proof (peek_core_spec r Hinv) as HS.
  destruct (peek_core r) as [p|e|] eqn:P; [| |contradiction].
  2:{ inv H. unfold s_classify. rewrite HS. cbn [pa_rel]. eexists. split; [reflexivity|apply formerr_set_rcode; exact Hts]. }
  destruct (delimited_fields r p Hinv P) as (_ & B1 & B2 & B3 & ty & cl & raw & rdlen & T1 & T2 & C1 & C2 & R1 & R2 & L1 & L2 & He).
  unfold s_classify. rewrite HS, T2, C2, R2.
  unfold peek_type in H. rewrite T1 in H. cbn [bind] in H. change TYPE_OPT with 41%N in H. change TYPE_TSIG with 250%N in H.
  pose proof (peek_parse_lite r p ty cl raw rdlen Hinv P T1 C1 R1 L1) as PP.
  destruct (ty =? 41)%N eqn:Topt.
  - (* OPT *)
    apply N.eqb_eq in Topt. subst ty.
    destruct seen.
    { inv H. cbn [pa_rel]. eexists. split; [reflexivity|apply formerr_set_rcode; exact Hts]. }
    destruct (set_edns_ok cfg w I) as (w1 & E1 & _ & I1 & Rc1 & _). rewrite E1 in H.
    pose proof I1 as (_ & _ & Hts1 & _).
    unfold peek_raw_ttl in H. rewrite R1 in H. cbn [bind] in H.
    rewrite (rd_lite_opt cl (r_octets r) (p_owner_end p + 10) rdlen) in PP by lia.
    replace (p_owner_end p + 10 + N.to_nat rdlen) with (p_rr_end p) in PP by lia.
    unfold s_owner_is_root.
    destruct (spec_decode_name (r_octets r) (r_cursor r)) as [[ls l]|] eqn:SD.
    2:{ destruct PP as [ee PP]. rewrite PP in H. inv H. cbn [andb negb pa_rel].
        eexists. split; [reflexivity|apply formerr_set_rcode; exact Hts1]. }
    destruct (s_opt_rdata_ok (slice (r_octets r) (p_owner_end p + 10) (p_rr_end p))) eqn:RD.
    2:{ destruct (rd_lite cl 41%N (r_octets r) (p_owner_end p + 10) rdlen); destruct PP as [ee PP]; rewrite PP in H; inv H;
          rewrite andb_false_r; cbn [negb pa_rel]; eexists; (split; [reflexivity|apply formerr_set_rcode; exact Hts1]). }
    rewrite PP in H. cbn [rr_class rr_owner] in H.
    (* limit negotiation *)
    assert (L : forall X (k : resp -> res reader_err X) y,
              (let* w2 := match c_transport cfg with
                          | Udp => if (c_edns_size cfg <? 512)%N then Panic
                                   else match set_limit w1 (N.to_nat (N.max 512 (N.min cl (c_edns_size cfg)))) with
                                        | Ok w2 => Ok w2 | Err _ => Panic | Panic => Panic end
                          | Tcp => Ok w1 end in k w2) = Ok y ->
              exists w2, k w2 = Ok y /\ w_rcode w2 = w_rcode w1 /\ w_edns w2 = w_edns w1 /\ w_tsig w2 = w_tsig w1).
    { intros X k y HL. destruct (c_transport cfg).
      - exists w1. cbn [bind] in HL. auto.
      - destruct (c_edns_size cfg <? 512)%N; [discriminate|].
        destruct (set_limit w1 _) as [w2|e|] eqn:SL; cbn [bind] in HL; try discriminate.
        exists w2. split; [exact HL|]. eapply set_limit_fields; eauto. }
    apply L in H. destruct H as (w2 & H & Rc2 & Ed2 & Ts2).
    assert (Ed : exists sz up, w_edns w2 = Some (sz, up)).
    { rewrite Ed2. pose proof I1 as (_ & Bs & _). destruct (w_edns w1) as [[sz up]|]; eauto.
      exfalso. apply (proj1 Bs eq_refl). reflexivity. }
    destruct Ed as (sz & up & Ed).
    unfold validate_opt in H. cbn [n_offsets name_of] in H. rewrite offs_of_length in H.
    destruct ls as [|l0 ls'].
    + cbn [length Nat.eqb negb andb] in *. rewrite shiftr16 in H.
      destruct ((raw / 65536) mod 256 =? 0)%N eqn:V; cbn [negb] in *.
      * inv H. cbn [pa_rel]. eexists. split; [reflexivity|]. split; [reflexivity|]. split; [reflexivity|].
        split; [congruence|exact (eq_trans Ts2 Hts1)].
      * unfold set_extended_rcode in H. rewrite Ed in H. change (4095 <? XRC_BADVERSBADSIG)%N with false in H. cbv iota in H.
        inv H. cbn [pa_rel]. eexists. split; [reflexivity|]. split; [reflexivity|]. split; [exact (eq_trans Ts2 Hts1)|].
        exists sz. reflexivity.
    + cbn [length Nat.eqb negb andb] in *.
      unfold set_extended_rcode in H. rewrite Ed in H. change (4095 <? RC_FORMERR)%N with false in H. cbv iota in H.
      inv H. cbn [pa_rel]. eexists. split; [reflexivity|]. split; [reflexivity|]. split; [exact (eq_trans Ts2 Hts1)|].
      unfold upper0; simpl. reflexivity.
  - destruct (ty =? 250)%N eqn:Ttsig.
    + (* TSIG *)
      apply N.eqb_eq in Ttsig. subst ty.
      destruct last; cbn [negb] in *.
      2:{ inv H. cbn [pa_rel]. eexists. split; [reflexivity|apply formerr_set_rcode; exact Hts]. }
      destruct (message_to_cursor_ok r Hinv) as [m Em]. rewrite Em in H. cbn [bind] in H.
      rewrite (rd_lite_tsig cl (r_octets r) (p_owner_end p + 10) rdlen) in PP by lia.
      replace (p_owner_end p + 10 + N.to_nat rdlen) with (p_rr_end p) in PP by lia.
      unfold s_owner_decodes.
      destruct (spec_decode_name (r_octets r) (r_cursor r)) as [[ls l]|] eqn:SD.
      2:{ destruct PP as [ee PP]. rewrite PP in H. inv H. cbn [andb negb pa_rel].
          eexists. split; [reflexivity|apply formerr_set_rcode; exact Hts]. }
      destruct (s_tsig_rdata_ok (slice (r_octets r) (p_owner_end p + 10) (p_rr_end p))) eqn:RD.
      2:{ destruct (rd_lite cl 250%N (r_octets r) (p_owner_end p + 10) rdlen); destruct PP as [ee PP]; rewrite PP in H; inv H;
            cbn [andb negb pa_rel]; eexists; (split; [reflexivity|apply formerr_set_rcode; exact Hts]). }
      rewrite PP in H. cbn [rr_class rr_ttl rr_rdata rr_owner] in H. rewrite ttl_from_spec in H.
      change CLASS_ANY with 255%N in H. cbn [andb].
      destruct (cl =? 255)%N; cbn [negb orb andb] in *.
      2:{ inv H. cbn [pa_rel]. eexists. split; [reflexivity|apply formerr_set_rcode; exact Hts]. }
      destruct (spec_ttl raw =? 0)%N; cbn [negb orb andb] in *.
      2:{ inv H. cbn [pa_rel]. eexists. split; [reflexivity|apply formerr_set_rcode; exact Hts]. }
      cbn [pa_rel].
      repeat (first [bm_hyp H | bb_hyp H]; try discriminate); inv H;
        try (left; eexists; split; [reflexivity|apply tsig_or_truncate_resp]).
      right. match goal with E : snd (set_tsig_or_truncate ?a ?b) = true |- _ => destruct (tsig_or_truncate_ok a b E) as [K1 K2] end.
      eexists. split; [reflexivity|]. split; [reflexivity|]. split; [etransitivity; [exact K2|reflexivity]|exact K1].
    + (* ordinary *)
      inv H. cbn [pa_rel]. repeat split.
Qed.

(* ---------- the additional-section scan ---------- *)
Definition ar_rel (res : ar_result) (r' : reader) (s : step_result) : Prop :=
  match res with
  | ArFormerr _ => exists w', s = Return w' /\ formerr_resp w'
  | ArBadVers _ => exists w', s = Return w' /\ badvers_resp w'
  | ArTsig _ e => (exists w', s = Return w' /\ tsig_resp w') \/
                  (exists w', s = Continue w' /\ r_cursor r' = e /\ w_rcode w' = 0%N /\ w_tsig w' <> None)
  | ArEnd e => exists w', s = Continue w' /\ r_cursor r' = e /\ w_rcode w' = 0%N /\ w_tsig w' = None
  end.

Lemma classify_tsig_last b c seen last e : s_classify b c seen last = RTsig e -> last = true.
Proof.
  unfold s_classify. destruct (s_delimit b c) as [[oe e0]|]; [|discriminate].
  destruct (sbe16 b oe); [|discriminate]. destruct (sbe16 b (oe + 2)); [|discriminate].
  destruct (sbe32 b (oe + 4)); [|discriminate].
  destruct (_ =? 41)%N.
  - destruct seen; [discriminate|]. destruct (negb _); [discriminate|]. destruct (negb _); discriminate.
  - destruct (_ =? 250)%N; [|discriminate]. destruct last; [reflexivity|discriminate].
Qed.

Lemma last_flag n : (n =? 0) = match n with O => true | S _ => false end.
Proof. destruct n; reflexivity. Qed.

Lemma scan_additional_spec verify cfg : wf_cfg cfg -> forall n r w seen idx r' s,
  rinv r -> srv_inv cfg seen w -> w_rcode w = 0%N ->
  scan_additional verify cfg n r w seen = Ok (r', s) ->
  ar_rel (s_walk_ar n (r_octets r) (r_cursor r) idx seen) r' s.
Proof.
  intros Hcfg. induction n as [|n IH]; intros r w seen idx r' s Hinv I Hrc H; cbn [scan_additional s_walk_ar] in *.
  - inv H. cbn [ar_rel]. exists w. pose proof I as (_ & _ & Hts & _). auto.
  - destruct (process_additional_facts verify cfg r w seen (n =? 0) Hcfg Hinv I) as (r1 & s1 & seen1 & E & Hinv1 & RO).
    rewrite E in H. cbn [bind] in H.
    pose proof (pa_spec verify cfg r w seen (n =? 0) r1 s1 seen1 Hcfg Hinv I Hrc E) as PA.
    pose proof (process_additional_same _ _ _ _ _ _ _ _ _ E) as [So _].
    rewrite <- last_flag.
    destruct (s_classify (r_octets r) (r_cursor r) seen (n =? 0)) as [| | | |e| | |e|e] eqn:CL; cbn [pa_rel] in PA.
    + destruct PA as (w' & -> & F). inv H. cbn [ar_rel]. eauto.
    + destruct PA as (w' & -> & F). inv H. cbn [ar_rel]. eauto.
    + destruct PA as (w' & -> & F). inv H. cbn [ar_rel]. eauto.
    + destruct PA as (w' & -> & F). inv H. cbn [ar_rel]. eauto.
    + destruct PA as (w' & -> & Hc & -> & Rc' & Ts'). cbn [result_ok] in RO. destruct RO as (_ & [I1|L1] & _).
      * rewrite <- So, <- Hc. eapply IH; eauto.
      * apply Nat.eqb_eq in L1. subst n. cbn [scan_additional s_walk_ar] in *. inv H. cbn [ar_rel].
        exists w'. split; [reflexivity|]. split; [reflexivity|]. split; [exact Rc'|exact Ts'].
    + destruct PA as (w' & -> & F). inv H. cbn [ar_rel]. eauto.
    + destruct PA as (w' & -> & F). inv H. cbn [ar_rel]. eauto.
    + pose proof (classify_tsig_last _ _ _ _ _ CL) as Ln. apply Nat.eqb_eq in Ln. subst n.
      cbn [ar_rel]. destruct PA as [(w' & -> & F)|(w' & -> & Hc & Rc' & Ts')].
      * inv H. left. eauto.
      * cbn [scan_additional] in H. inv H. right. eauto.
    + destruct PA as (-> & Hc & ->). rewrite <- So, <- Hc. eapply IH; eauto.
Qed.

(* ---------- header bits ---------- *)
Lemma opcode_spec r o : rinv r -> rd_opcode r = Ok o -> s_opcode (r_octets r) = Some o.
Proof.
  intros (Hwf & H12 & _). unfold rd_opcode, s_opcode, idx. change (N.to_nat OPCODE_BYTE) with 2.
  destruct (nth_error (r_octets r) 2) as [x|] eqn:X; [|discriminate]. cbn [bind].
  pose proof (nth_error_Forall _ _ _ _ Hwf X) as Hx. unfold is_octet in Hx.
  assert (A : forallb (fun x => (N.shiftr (N.land x OPCODE_MASK) OPCODE_SHIFT =? (x / 8) mod 16)%N) (upto 256) = true)
    by (vm_compute; reflexivity).
  rewrite forallb_forall in A. pose proof (A x (upto_In 256 x Hx)) as Ax. apply N.eqb_eq in Ax. rewrite Ax.
  destruct (_ <? 16)%N; [|discriminate]. intros H; inv H. reflexivity.
Qed.

Lemma qr_spec r v : rinv r -> rd_qr r = Ok v -> s_qr (r_octets r) = Some v.
Proof.
  intros (Hwf & H12 & _). unfold rd_qr, flag_at, s_qr, idx. change (N.to_nat QR_BYTE) with 2.
  destruct (nth_error (r_octets r) 2) as [x|] eqn:X; [|discriminate]. cbn [bind].
  pose proof (nth_error_Forall _ _ _ _ Hwf X) as Hx. unfold is_octet in Hx.
  assert (A : forallb (fun x => Bool.eqb (negb (N.land x QR_MASK =? 0)%N) (128 <=? x)%N) (upto 256) = true)
    by (vm_compute; reflexivity).
  rewrite forallb_forall in A. pose proof (A x (upto_In 256 x Hx)) as Ax. apply Bool.eqb_prop in Ax.
  intros H; inv H. rewrite Ax. reflexivity.
Qed.

(* ---------- everything after the question ---------- *)
(* [hq]: a question was read (QDCOUNT = 1) *)
Definition rest_rel (hq : bool) (v : verdict) (p : prescan_result) : Prop :=
  match v with
  | VSilent => False
  | VFormerr QueryWithoutQuestion => exists w, p = PClean OPCODE_QUERY w /\ hq = false /\ w_rcode w = 0%N /\ w_tsig w = None
  | VFormerr _ => exists w, p = PEarly w /\ formerr_resp w
  | VBadVers _ => exists w, p = PEarly w /\ badvers_resp w
  | VTsig _ t =>
    (exists w, p = PEarly w /\ tsig_resp w) \/
    match t with
    | Some TrailingOctets => False
    | Some _ => exists w, p = PClean OPCODE_QUERY w /\ hq = false /\ w_tsig w <> None
    | None => exists o w, p = PClean o w /\ w_tsig w <> None /\ w_rcode w = 0%N /\ (o = OPCODE_QUERY -> hq = true)
    end
  | VClean => exists o w, p = PClean o w /\ w_rcode w = 0%N /\ w_tsig w = None /\ (o = OPCODE_QUERY -> hq = true)
  end.

Lemma after_records_spec hq r3 m w3 p : rinv r3 -> r_mark r3 = Some m ->
  (if negb (at_eom r3) then Ok (PEarly (set_rcode w3 RC_FORMERR))
   else match rd_rewind r3 with
        | (_, Panic) => Panic
        | (_, Err _) => Panic
        | (r4, Ok _) => let* opc := rd_opcode r4 in Ok (PClean opc w3)
        end : res reader_err prescan_result) = Ok p ->
  match s_after_records (r_octets r3) (r_cursor r3) hq with
  | Some TrailingOctets => p = PEarly (set_rcode w3 RC_FORMERR)
  | Some _ => p = PClean OPCODE_QUERY w3 /\ hq = false
  | None => exists o, p = PClean o w3 /\ (o = OPCODE_QUERY -> hq = true)
  end.
Proof.
  intros Hinv Hm H. unfold s_after_records, at_eom in *.
  destruct (length (r_octets r3) <=? r_cursor r3) eqn:E; cbn [negb] in H.
  - apply Nat.leb_le in E. destruct (r_cursor r3 <? length (r_octets r3)) eqn:X; [apply Nat.ltb_lt in X; lia|].
    unfold rd_rewind in H. rewrite Hm in H.
    match type of H with context [rd_opcode ?x] => set (r4 := x) in H end.
    assert (Hinv4 : rinv r4).
    { destruct Hinv as (A & B & C & D). unfold rinv, r4; simpl. repeat split; auto. discriminate. }
    destruct (rd_opcode_ok r4 Hinv4) as (o & Eo & _). rewrite Eo in H. cbn [bind] in H. inv H.
    pose proof (opcode_spec r4 o Hinv4 Eo) as So. cbn [r_octets r4] in So. rewrite So.
    destruct o as [|po]; [destruct hq|].
    + exists 0%N. auto.
    + split; reflexivity.
    + exists (N.pos po). split; [reflexivity|]. intros X0. discriminate.
  - apply Nat.leb_gt in E. destruct (r_cursor r3 <? length (r_octets r3)) eqn:X; [|apply Nat.ltb_ge in X; lia].
    inv H. reflexivity.
Qed.

Definition record_problem (pr : problem) : Prop :=
  match pr with QueryWithoutQuestion | TrailingOctets | QuestionUnparseable => False | _ => True end.

Lemma walk_an_ns_problem b : forall n c i pr, s_walk_an_ns n b c i = inl pr -> record_problem pr.
Proof.
  induction n as [|n IH]; intros c i pr W; cbn [s_walk_an_ns] in W; [discriminate|].
  destruct (s_delimit b c) as [[oe e]|]; [|inv W; exact I].
  destruct (sbe16 b oe); [|inv W; exact I]. destruct (_ || _); [inv W; exact I|]. eapply IH; eauto.
Qed.

Lemma walk_ar_problem b : forall n c i seen pr, s_walk_ar n b c i seen = ArFormerr pr -> record_problem pr.
Proof.
  induction n as [|n IH]; intros c i seen pr W; cbn [s_walk_ar] in W; [discriminate|].
  destruct (s_classify b c seen _); try (inv W; exact I); try discriminate; eapply IH; eauto.
Qed.

Lemma after_records_cases b c hq pr : s_after_records b c hq = Some pr -> pr = TrailingOctets \/ pr = QueryWithoutQuestion.
Proof.
  unfold s_after_records. destruct (c <? length b); [intros X; inv X; auto|].
  destruct (s_opcode b) as [[|?]|]; try discriminate. destruct hq; [discriminate|intros X; inv X; auto].
Qed.

Lemma prescan_rest_spec verify cfg r1 w1 hq p : wf_cfg cfg -> rinv r1 -> srv_inv cfg false w1 -> w_rcode w1 = 0%N ->
  prescan_rest verify cfg r1 w1 = Ok p ->
  rest_rel hq (s_walk_sections (r_octets r1) (r_cursor r1) hq) p.
Proof.
  intros Hcfg Hinv1 I1 Hrc H. unfold prescan_rest in H. unfold s_walk_sections.
  pose proof (rd_mark_inv r1 Hinv1) as Hinvm.
  destruct (hdr_counts r1 Hinv1) as (qd & an & ns & ar & _ & _ & A1 & A2 & N1 & N2 & R1 & R2).
  rewrite A2, N2, R2.
  assert (A1' : rd_ancount (rd_mark r1) = Ok an) by exact A1. assert (N1' : rd_nscount (rd_mark r1) = Ok ns) by exact N1.
  cbv zeta in H. rewrite A1', N1' in H. cbn [bind] in H.
  destruct (scan_an_ns_facts (N.to_nat an + N.to_nat ns) (rd_mark r1) w1 Hinvm) as (r2 & s2 & E2 & Hinv2 & S2 & _).
  rewrite E2 in H. cbn [bind] in H.
  pose proof (scan_an_ns_reader _ _ _ _ _ E2) as AR.
  pose proof (an_ns_reader_spec (N.to_nat an + N.to_nat ns) (rd_mark r1) 0 Hinvm) as W. cbn [rd_mark r_octets r_cursor] in W.
  pose proof I1 as (_ & _ & Hts1 & _).
  destruct AR as [[-> AR]|[-> AR]]; rewrite AR in W.
  2:{ destruct W as [pr W]. rewrite W. inv H. pose proof (walk_an_ns_problem _ _ _ _ _ W) as RP.
      assert (F : exists w, PEarly (set_rcode w1 RC_FORMERR) = PEarly w /\ formerr_resp w)
        by (eexists; split; [reflexivity|apply formerr_set_rcode; exact Hts1]).
      destruct pr; cbn [rest_rel record_problem] in *; try exact F; contradiction. }
  destruct W as (W1 & _ & _). rewrite W1. destruct S2 as [So Sm].
  assert (R1' : rd_arcount r2 = Ok ar) by (unfold rd_arcount in *; rewrite So; exact R1).
  rewrite R1' in H. cbn [bind] in H.
  destruct (scan_additional_facts verify cfg Hcfg (N.to_nat ar) r2 w1 false Hinv2 I1) as (r3 & s3 & E3 & Hinv3 & _).
  rewrite E3 in H. cbn [bind] in H.
  pose proof (scan_additional_spec verify cfg Hcfg (N.to_nat ar) r2 w1 false (N.to_nat an + N.to_nat ns) r3 s3 Hinv2 I1 Hrc E3) as AS.
  cbn [rd_mark r_octets] in So. rewrite So in AS.
  pose proof (scan_additional_same _ _ _ _ _ _ _ _ E3) as [S3o S3m].
  assert (Hm3 : r_mark r3 = Some (r_cursor r1)) by (rewrite S3m, Sm; reflexivity).
  assert (Ho3 : r_octets r3 = r_octets r1) by (rewrite S3o, So; reflexivity).
  destruct (s_walk_ar (N.to_nat ar) (r_octets r1) (r_cursor r2) (N.to_nat an + N.to_nat ns) false) as [pr|i|i e|e] eqn:WA;
    cbn [ar_rel s_finish] in *.
  - destruct AS as (w' & -> & F). inv H. pose proof (walk_ar_problem _ _ _ _ _ _ WA) as RP.
    assert (G : exists w, PEarly w' = PEarly w /\ formerr_resp w) by eauto.
    destruct pr; cbn [rest_rel record_problem] in *; try exact G; contradiction.
  - destruct AS as (w' & -> & F). inv H. cbn [rest_rel]. eauto.
  - destruct AS as [(w' & -> & F)|(w' & -> & Hc & Rc' & Ts')].
    + inv H. cbn [rest_rel]. left. eauto.
    + pose proof (after_records_spec hq r3 _ w' p Hinv3 Hm3 H) as AF. rewrite Ho3, Hc in AF.
      cbn [rest_rel]. destruct (s_after_records (r_octets r1) e hq) as [pr|] eqn:SA.
      * destruct (after_records_cases _ _ _ _ SA) as [-> | ->].
        -- subst p. left. eexists. split; [reflexivity|]. left. unfold set_rcode; simpl. exact Ts'.
        -- destruct AF as [-> Hq]. right. eexists. split; [reflexivity|]. split; [exact Hq|exact Ts'].
      * destruct AF as (o & -> & Hq). right. exists o, w'. auto.
  - destruct AS as (w' & -> & Hc & Rc' & Ts').
    pose proof (after_records_spec hq r3 _ w' p Hinv3 Hm3 H) as AF. rewrite Ho3, Hc in AF.
    destruct (s_after_records (r_octets r1) e hq) as [pr|] eqn:SA; cbn [rest_rel].
    + destruct (after_records_cases _ _ _ _ SA) as [-> | ->]; cbn [rest_rel].
      * subst p. eexists. split; [reflexivity|apply formerr_set_rcode; exact Ts'].
      * destruct AF as [-> Hq]. eexists. split; [reflexivity|]. auto.
    + destruct AF as (o & -> & Hq). exists o, w'. auto.
Qed.

(* ---------- the whole pre-scan ---------- *)
Definition top_rel (v : verdict) (p : prescan_result) : Prop :=
  match v with
  | VSilent => p = PNone
  | VFormerr QueryWithoutQuestion =>
    exists w, p = PClean OPCODE_QUERY w /\ w_question w = None /\ w_rcode w = 0%N /\ w_tsig w = None
  | VFormerr _ => exists w, p = PEarly w /\ formerr_resp w
  | VBadVers _ => exists w, p = PEarly w /\ badvers_resp w
  | VTsig _ t =>
    (exists w, p = PEarly w /\ tsig_resp w) \/
    match t with
    | Some TrailingOctets => False
    | Some _ => exists w, p = PClean OPCODE_QUERY w /\ w_question w = None /\ w_tsig w <> None
    | None => exists o w, p = PClean o w /\ w_tsig w <> None /\ w_rcode w = 0%N /\ (o = OPCODE_QUERY -> w_question w <> None)
    end
  | VClean => exists o w, p = PClean o w /\ w_rcode w = 0%N /\ w_tsig w = None /\ (o = OPCODE_QUERY -> w_question w <> None)
  end.

Lemma rest_top hq v p : (forall o w, p = PClean o w -> (hq = true <-> w_question w <> None)) -> v <> VSilent ->
  rest_rel hq v p -> top_rel v p.
Proof.
  intros Q NS R. destruct v as [|pr|i|i t|]; cbn [rest_rel top_rel] in *; try contradiction; auto.
  - destruct pr; auto. destruct R as (w & -> & Hq & A & B). exists w. split; [reflexivity|]. split; [|auto].
    destruct (w_question w) eqn:X; [|reflexivity]. exfalso.
    assert (Y : hq = true) by (apply (Q _ _ eq_refl); rewrite X; discriminate). congruence.
  - destruct R as [R|R]; [left; exact R|right]. destruct t as [pr|].
    + destruct pr; auto; destruct R as (w & -> & Hq & A); exists w; (split; [reflexivity|]); (split; [|exact A]);
        (destruct (w_question w) eqn:X; [|reflexivity]); exfalso;
        assert (Y : hq = true) by (apply (Q _ _ eq_refl); rewrite X; discriminate); congruence.
    + destruct R as (o & w & -> & A & B & C). exists o, w. split; [reflexivity|]. split; [exact A|]. split; [exact B|].
      intros Ho. apply (Q _ _ eq_refl). apply C. exact Ho.
  - destruct R as (o & w & -> & A & B & C). exists o, w. split; [reflexivity|]. split; [exact A|]. split; [exact B|].
    intros Ho. apply (Q _ _ eq_refl). apply C. exact Ho.
Qed.

Lemma walk_sections_not_silent b c hq : 12 <= length b -> s_walk_sections b c hq <> VSilent.
Proof.
  intros H. unfold s_walk_sections.
  destruct (@be16_at_sbe16 reader_err b 6 ltac:(lia)) as (an & _ & A). destruct (@be16_at_sbe16 reader_err b 8 ltac:(lia)) as (ns & _ & B).
  destruct (@be16_at_sbe16 reader_err b 10 ltac:(lia)) as (ar & _ & C). rewrite A, B, C.
  destruct (s_walk_an_ns _ _ _ _); [discriminate|]. unfold s_finish.
  destruct (s_walk_ar _ _ _ _ _); try discriminate. destruct (s_after_records _ _ _); discriminate.
Qed.

Theorem prescan_first_problem verify cfg req p : wf_cfg cfg -> wf_bytes req ->
  prescan verify cfg req = Ok p -> top_rel (first_problem req) p.
Proof.
  intros Hcfg Hwf H. pose proof Hcfg as (H512 & H64k & Hbuf). unfold first_problem.
  destruct (length req <? 12) eqn:L.
  { apply Nat.ltb_lt in L. rewrite (prescan_silent verify cfg req Hcfg Hwf (or_introl L)) in H. inv H. reflexivity. }
  apply Nat.ltb_ge in L. pose proof (r0_inv req Hwf L) as Hinv0. set (r0 := r0_of req) in *.
  destruct (@flag_at_ok reader_err (r_octets r0) QR_BYTE QR_MASK) as [qr Eqr]; [change (N.to_nat QR_BYTE) with 2; simpl; lia|].
  assert (Eqr' : rd_qr r0 = Ok qr) by exact Eqr.
  pose proof (qr_spec r0 qr Hinv0 Eqr') as Sqr. cbn [r_octets r0 r0_of] in Sqr. rewrite Sqr.
  destruct (hdr_counts r0 Hinv0) as (qd & an & ns & ar & Q1 & Q2 & _). cbn [r_octets r0 r0_of] in Q2. rewrite Q2.
  destruct qr.
  { rewrite (prescan_silent verify cfg req Hcfg Hwf (or_intror (or_introl Eqr'))) in H. inv H. reflexivity. }
  unfold prescan in H.
  destruct (c_buflen cfg <? _) eqn:Eb; [apply Nat.ltb_lt in Eb; lia|]. clear Eb.
  rewrite (reader_new_r0 req L) in H. fold r0 in H. rewrite Eqr' in H. cbn [bind] in H.
  destruct (@be16_at_ok reader_err (r_octets r0) (N.to_nat ID_START)) as [id Eid]; [simpl; lia|].
  assert (Eid' : rd_id r0 = Ok id) by exact Eid. rewrite Eid' in H. cbn [bind] in H.
  destruct (rd_opcode_ok r0 Hinv0) as (opc & Eopc & Hopc). rewrite Eopc in H. cbn [bind] in H.
  destruct (@flag_at_ok reader_err (r_octets r0) RD_BYTE RD_MASK) as [rdf Erd]; [change (N.to_nat RD_BYTE) with 2; simpl; lia|].
  assert (Erd' : rd_rd r0 = Ok rdf) by exact Erd. rewrite Erd' in H. cbn [bind] in H.
  unfold initial_resp in H. change header_size with 12 in H.
  set (limit := Nat.min (match c_transport cfg with Tcp => tcp_limit | Udp => udp_limit end) (c_buflen cfg)) in H.
  assert (Hlim : 512 <= limit /\ limit <= c_buflen cfg).
  { unfold limit, tcp_limit, udp_limit in *. destruct (c_transport cfg); lia. }
  destruct (limit <? 12) eqn:El; [apply Nat.ltb_lt in El; lia|]. cbn [bind] in H.
  set (w0 := mkResp id opc (if (opc =? OPCODE_QUERY)%N then rdf else false) 0 false false None None None
                    empty_body 12 limit limit (c_buflen cfg) 0) in H.
  assert (I0 : srv_inv cfg false w0).
  { unfold srv_inv, edns_ok, reserved, w0; simpl. repeat split; auto; try lia; try discriminate.
    all: try (intros X; exfalso; apply X; reflexivity). }
  rewrite Q1 in H. cbn [bind] in H.
  destruct (qd =? 0)%N eqn:Q0.
  - (* no question *)
    pose proof (prescan_rest_spec verify cfg r0 w0 false p Hcfg Hinv0 I0 eq_refl H) as R.
    cbn [r_octets r_cursor r0 r0_of] in R. apply (rest_top false); [|apply walk_sections_not_silent; exact L|exact R].
    intros o w ->. destruct (prescan_rest_facts verify cfg r0 w0 Hcfg Hinv0 I0) as (p' & Ep & Fp). rewrite H in Ep. inv Ep.
    destruct Fp as ((_ & _ & _ & C4 & _) & _). rewrite C4. cbn [w_question w0]. split; [discriminate|intros X; exfalso; apply X; reflexivity].
  - destruct (qd =? 1)%N eqn:Q1'; [|inv H; reflexivity].
    pose proof (read_question_spec req Hwf L) as RS. fold r0 in RS.
    pose proof (read_question_facts r0 Hinv0) as (_ & _ & _ & F).
    destruct (read_question r0) as [r1 x] eqn:RQ. cbn [fst snd] in F.
    destruct x as [q|e|]; [| |contradiction].
    + rewrite RS. destruct (read_question_wire_bound r0 r1 q Hinv0 RQ) as [Hwire Hinv1].
      unfold add_question in H. cbn [w_avail w_cursor w0] in H.
      destruct (limit <? 12) eqn:X1; [apply Nat.ltb_lt in X1; lia|].
      destruct (limit - 12 <? length (n_wire (q_name q))) eqn:X2; [apply Nat.ltb_lt in X2; lia|].
      destruct (limit - (12 + length (n_wire (q_name q))) <? 4) eqn:X3; [apply Nat.ltb_lt in X3; lia|].
      match type of H with prescan_rest verify cfg r1 ?w = _ => set (w1 := w) in H end.
      assert (I1 : srv_inv cfg false w1).
      { unfold srv_inv, edns_ok, reserved, w1, w0; simpl. repeat split; auto; try lia; try discriminate.
        all: try (intros X; exfalso; apply X; reflexivity). }
      pose proof (prescan_rest_spec verify cfg r1 w1 true p Hcfg Hinv1 I1 eq_refl H) as R.
      destruct (F q eq_refl) as (ls & _ & _ & Ho & _). cbn [r_octets r0 r0_of] in Ho. rewrite Ho in R.
      apply (rest_top true); [|apply walk_sections_not_silent; exact L|exact R].
      intros o w ->. destruct (prescan_rest_facts verify cfg r1 w1 Hcfg Hinv1 I1) as (p' & Ep & Fp). rewrite H in Ep. inv Ep.
      destruct Fp as ((_ & _ & _ & C4 & _) & _). rewrite C4. cbn [w_question w1]. split; [discriminate|reflexivity].
    + rewrite RS. inv H. cbn [top_rel]. eexists. split; [reflexivity|]. apply formerr_set_rcode. reflexivity.
Qed.

(* ---------- corollaries ---------- *)
(* "the pre-processing ends in FORMERR": an early FORMERR response, or a QUERY that reaches
   handle_query without a question (FORMERR there, see handle_query_table) *)
Definition prescan_formerr (p : prescan_result) : Prop :=
  (exists w, p = PEarly w /\ formerr_resp w) \/ (exists w, p = PClean OPCODE_QUERY w /\ w_question w = None).

Theorem formerr_iff_first_problem verify cfg req p : wf_cfg cfg -> wf_bytes req ->
  prescan verify cfg req = Ok p -> (forall i t, first_problem req <> VTsig i t) ->
  (prescan_formerr p <-> exists pr, first_problem req = VFormerr pr).
Proof.
  intros Hcfg Hwf H NT. pose proof (prescan_first_problem verify cfg req p Hcfg Hwf H) as T.
  unfold prescan_formerr. destruct (first_problem req) as [|pr|i|i t|]; cbn [top_rel] in T.
  - subst p. split; [intros [(w & X & _)|(w & X & _)]; discriminate|intros (pr & X); discriminate].
  - split; [eauto|]. intros _. destruct pr; try (left; exact T). destruct T as (w & -> & Q & _). right. eauto.
  - destruct T as (w & -> & R & _). split; [|intros (pr & X); discriminate].
    intros [(w' & X & F & _)|(w' & X & _)]; [|discriminate]. inv X. rewrite R in F. discriminate.
  - exfalso. exact (NT i t eq_refl).
  - destruct T as (o & w & -> & _ & _ & Q). split; [|intros (pr & X); discriminate].
    intros [(w' & X & _)|(w' & X & Qn)]; [discriminate|]. inv X. exfalso. apply (Q eq_refl). exact Qn.
Qed.

(* the response to a request whose first problem is a FORMERR-class one *)
Theorem formerr_response answer verify cfg req pr w : wf_cfg cfg -> wf_bytes req ->
  first_problem req = VFormerr pr -> handle_message answer verify cfg req = Ok (Some w) ->
  w_rcode w = RC_FORMERR /\ no_data w /\ w_tsig w = None /\ upper0 w.
Proof.
  intros Hcfg Hwf FP HM. destruct (prescan_facts verify cfg req Hcfg Hwf) as (p & E & _).
  pose proof (prescan_first_problem verify cfg req p Hcfg Hwf E) as T. rewrite FP in T. cbn [top_rel] in T.
  assert (Early : (exists w0, p = PEarly w0 /\ formerr_resp w0) -> w_rcode w = RC_FORMERR /\ no_data w /\ w_tsig w = None /\ upper0 w).
  { intros (w0 & -> & F1 & F2 & F3). destruct (early_is_final answer verify cfg req w0 Hcfg Hwf E) as [HM' ND].
    rewrite HM in HM'. inv HM'. auto. }
  destruct pr; try (apply Early; exact T).
  destruct T as (w0 & -> & Q & Rc & Ts).
  destruct (clean_dispatch answer verify cfg req _ w0 Hcfg Hwf E) as (_ & ND & HM').
  rewrite HM in HM'. change (OPCODE_QUERY =? OPCODE_QUERY)%N with true in HM'. cbv iota in HM'. inv HM'.
  unfold handle_query. rewrite Q. destruct (set_rcode_no_data w0 RC_FORMERR ND) as [A B].
  split; [exact B|]. split; [exact A|]. split; [exact Ts|]. unfold upper0, set_rcode; simpl. destruct (w_edns w0) as [[sz up]|]; auto.
Qed.

(* ... and to one whose OPT carries a version other than 0 before any problem: BADVERS, no data *)
Theorem badvers_response answer verify cfg req i w : wf_cfg cfg -> wf_bytes req ->
  first_problem req = VBadVers i -> handle_message answer verify cfg req = Ok (Some w) ->
  badvers_resp w /\ no_data w.
Proof.
  intros Hcfg Hwf FP HM. destruct (prescan_facts verify cfg req Hcfg Hwf) as (p & E & _).
  pose proof (prescan_first_problem verify cfg req p Hcfg Hwf E) as T. rewrite FP in T. cbn [top_rel] in T.
  destruct T as (w0 & -> & F). destruct (early_is_final answer verify cfg req w0 Hcfg Hwf E) as [HM' ND].
  rewrite HM in HM'. inv HM'. auto.
Qed.

(* a request with no problem reaches the opcode dispatch untouched: RCODE 0, no TSIG, and a QUERY has its question *)
Theorem clean_reaches_dispatch verify cfg req : wf_cfg cfg -> wf_bytes req -> first_problem req = VClean ->
  exists o w, prescan verify cfg req = Ok (PClean o w) /\ w_rcode w = 0%N /\ w_tsig w = None /\
              (o = OPCODE_QUERY -> w_question w <> None).
Proof.
  intros Hcfg Hwf FP. destruct (prescan_facts verify cfg req Hcfg Hwf) as (p & E & _).
  pose proof (prescan_first_problem verify cfg req p Hcfg Hwf E) as T. rewrite FP in T. cbn [top_rel] in T.
  destruct T as (o & w & -> & A). exists o, w. split; [exact E|exact A].
Qed.

(* no response at all exactly when the spec says so *)
Theorem silent_iff_first_problem answer verify cfg req : wf_cfg cfg -> wf_bytes req ->
  (handle_message answer verify cfg req = Ok None <-> first_problem req = VSilent).
Proof.
  intros Hcfg Hwf. destruct (prescan_facts verify cfg req Hcfg Hwf) as (p & E & _).
  pose proof (prescan_first_problem verify cfg req p Hcfg Hwf E) as T. unfold handle_message. rewrite E. cbn [bind].
  split.
  - intros H. destruct p as [|w|o w]; [|discriminate|destruct (o =? OPCODE_QUERY)%N; discriminate].
    destruct (first_problem req) as [|pr|i|i t|]; cbn [top_rel] in T; auto.
    + destruct pr; destruct T as (w & X & _); discriminate.
    + destruct T as (w & X & _); discriminate.
    + destruct T as [(w & X & _)|T]; [discriminate|]. destruct t as [[]|]; try contradiction;
        try (destruct T as (w & X & _); discriminate). destruct T as (o & w & X & _); discriminate.
    + destruct T as (o & w & X & _); discriminate.
  - intros FP. rewrite FP in T. cbn [top_rel] in T. subst p. reflexivity.
Qed.

(* C09: the EDNS iff against the spec-level predicate *)
Theorem opt_iff_spec answer verify cfg req w : wf_cfg cfg -> wf_bytes req ->
  handle_message answer verify cfg req = Ok (Some w) ->
  (w_edns w <> None <-> s_opt_reached req = true).
Proof.
  intros Hcfg Hwf H. destruct (handle_message_response answer verify cfg req w Hcfg Hwf H) as (_ & _ & _ & B).
  rewrite <- (opt_reached_spec req Hwf). exact B.
Qed.
