(* C03 at the byte level for ANSWERED responses: the fourth header octet.
   Every response [QueryW.respond_w] produces has RA = 0 and Z = 0 — the upper four bits of the octet that
   holds the RCODE are never set: the octet starts at 0, only set_rcode touches it, and the answering logic
   only ever passes RCODEs that fit in 4 bits (lifting of Proofs/QueryInv16P.v). *)
From QV Require Import Base.ListX Gen.Consts Model.MsgWriter Proofs.NameWireP Proofs.MsgWriterP Proofs.MsgWriterNameP
  Proofs.MsgWriterInvP Model.ZoneTree Model.Query Model.QueryW Proofs.QueryInv16P Proofs.QueryWP Proofs.ServerEchoWP.
Local Open Scope nat_scope.

Definition HK3 (w : writer) : Prop := Inv_n w /\ exists y, nth_error (w_buf w) 3 = Some y /\ (y < 16)%N.

Lemma HK3_agree w b' c : HK3 w -> agree c (w_buf w) b' -> 4 <= c -> exists y, nth_error b' 3 = Some y /\ (y < 16)%N.
Proof. intros (_ & y & Hy & Ho) A Hc. exists y. split; [|exact Ho]. rewrite (agree_nth _ _ _ _ A); [exact Hy|lia]. Qed.

Lemma HK3_obs w w' : HK3 w -> obs_eq w w' -> HK3 w'.
Proof.
  intros H X. pose proof H as (Hi & _). split; [eapply obs_eq_inv; eauto|].
  apply (HK3_agree w (w_buf w') (w_cursor w) H (o_buf _ _ X)). pose proof (inv_cursor_12 w Hi). lia.
Qed.

Lemma HK3_ext_counts w w2 s c : HK3 w -> ext (w_cursor w) w w2 -> Inv_n (set_sec_count s w2 c) ->
  HK3 (set_sec_count s w2 c).
Proof.
  intros H X Hi'. pose proof H as (Hi & _). split; [exact Hi'|].
  assert (G : exists y, nth_error (w_buf w2) 3 = Some y /\ (y < 16)%N).
  { apply (HK3_agree w (w_buf w2) (w_cursor w) H (x_agree _ _ _ X)). pose proof (inv_cursor_12 w Hi). lia. }
  destruct s; exact G.
Qed.

Lemma HK3_modify2 w f w' : HK3 w -> w_modify w 2 f = Ok w' -> HK3 w'.
Proof.
  intros (Hi & y & Hy & Ho) E. pose proof (inv_w_modify _ _ _ _ Hi E) as Hi'.
  destruct (w_modify_nth _ _ _ _ E) as (x & _ & _ & Hoth & b' & -> & _). change (N.to_nat 2) with 2 in *.
  split; [exact Hi'|]. cbn [w_buf set_buf]. exists y. split; [|exact Ho]. rewrite Hoth by lia. exact Hy.
Qed.

Lemma rcode_nibble y rc : (y < 16)%N -> (rc < 16)%N -> (N.lor (N.land y (255 - RCODE_MASK)) rc < 16)%N.
Proof.
  intros Hy Hr.
  assert (A : forallb (fun y => forallb (fun rc => (N.lor (N.land y (255 - RCODE_MASK)) rc <? 16)%N) (upto 16)) (upto 16) = true)
    by (vm_compute; reflexivity).
  rewrite forallb_forall in A. specialize (A y (upto_In 16 y Hy)).
  rewrite forallb_forall in A. specialize (A rc (upto_In 16 rc Hr)). apply N.ltb_lt. exact A.
Qed.

Lemma HK3_set_rcode rc w w' : (rc < 16)%N -> HK3 w -> set_rcode rc w = Ok w' -> HK3 w'.
Proof.
  intros Hr (Hi & y & Hy & Ho) E. unfold set_rcode in E.
  destruct (w_modify w RCODE_BYTE _) as [w1|e|] eqn:E1; cbn [bind] in E; try discriminate.
  inversion E; subst. pose proof (inv_w_modify _ _ _ _ Hi E1) as Hi1.
  destruct (w_modify_nth _ _ _ _ E1) as (x & Hx & Hx' & _ & b' & -> & _). change (N.to_nat RCODE_BYTE) with 3 in *.
  rewrite Hy in Hx. inversion Hx; subst x.
  split; [apply inv_clear_upper; exact Hi1|].
  assert (G : exists y', nth_error b' 3 = Some y' /\ (y' < 16)%N) by (eexists; split; [exact Hx'|apply rcode_nibble; assumption]).
  unfold clear_upper. cbn [w_edns set_buf]. destruct (w_edns w); exact G.
Qed.

Lemma HK3_clear w : HK3 w -> HK3 (clear_rrs w).
Proof.
  intros (Hi & Hy). split; [|exact Hy]. destruct Hi as [h1 h2 h3 h4 h5]. constructor; cbn; auto; try lia.
Qed.

Lemma wi_rr_HK3 s h o ty c ttl rdata w : HK3 w -> RP HK3 (wi_add_rr w_iface s h o ty c ttl rdata w).
Proof.
  intros Hp. pose proof Hp as (Hi & _). cbn [wi_add_rr w_iface].
  pose proof (section_rr_ok (sec_of s) (hint_of h) o ty c (ttl_from ttl) rdata None w Hi) as H.
  destruct (add_section_rr (sec_of s) (hint_of h) o ty c (ttl_from ttl) rdata None w) as [[v w']|[e w']|]; cbn [RP]; auto.
  - destruct H as (Hi' & w2 & cc & X & ->). eapply HK3_ext_counts; eauto.
  - eapply HK3_obs; eauto.
Qed.
Lemma wi_rrset_HK3 s h o ty c ttl rds b w : HK3 w ->
  match wi_add_rrset w_iface s h o ty c ttl rds b w with
  | Ok (_, w') => HK3 w' | Err (_, w') => HK3 w' | Panic => True end.
Proof.
  intros Hp. pose proof Hp as (Hi & _). cbn [wi_add_rrset w_iface].
  pose proof (section_rrset_ok (sec_of s) (hint_of h) o ty c (ttl_from ttl) rds (if b then Some [] else None) w Hi) as H.
  destruct (add_section_rrset (sec_of s) (hint_of h) o ty c (ttl_from ttl) rds (if b then Some [] else None) w)
    as [[v w']|[e w']|]; auto.
  - destruct H as (Hi' & w2 & cc & X & ->). eapply HK3_ext_counts; eauto.
  - eapply HK3_obs; eauto.
Qed.
Lemma wi_aa_HK3 b w w' : HK3 w -> wi_set_aa w_iface b w = Some w' -> HK3 w'.
Proof.
  cbn [wi_set_aa w_iface]. intros H E. destruct (set_aa b w) as [w1|e|] eqn:E1; try discriminate.
  inversion E; subst. unfold set_aa, w_set_flag in E1. eapply HK3_modify2; eauto.
Qed.
Lemma wi_rc_HK3 c w w' : (c < 16)%N -> HK3 w -> wi_set_rcode w_iface c w = Some w' -> HK3 w'.
Proof.
  cbn [wi_set_rcode w_iface]. intros Hc H E. destruct (set_rcode c w) as [w1|e|] eqn:E1; try discriminate.
  inversion E; subst. eapply HK3_set_rcode; eauto.
Qed.

Lemma servfail_lt : (RCODE_SERVFAIL < 16)%N.
Proof. reflexivity. Qed.

Lemma finish_w_HK3 tcp q w' : QP HK3 q -> finish_w tcp q = Some w' -> HK3 w'.
Proof.
  destruct q as [[u w1]|[[|] w1]|]; cbn [QP finish_w]; intros HQ; try discriminate.
  - intros E; inversion E; subst. exact HQ.
  - destruct (wi_set_aa w_iface false w1) as [w2|] eqn:E2; [|discriminate].
    destruct (wi_set_rcode w_iface RCODE_SERVFAIL w2) as [w3|] eqn:E3; [|discriminate].
    intros E; inversion E; subst. cbn [wi_clear_rrs w_iface]. apply HK3_clear.
    exact (wi_rc_HK3 _ _ _ servfail_lt (wi_aa_HK3 _ _ _ HQ E2) E3).
  - cbn [wi_clear_rrs w_iface]. pose proof (HK3_clear w1 HQ) as Hc.
    destruct tcp.
    + destruct (wi_set_aa w_iface false (clear_rrs w1)) as [w2|] eqn:E2; [|discriminate].
      intros E3. exact (wi_rc_HK3 _ _ _ servfail_lt (wi_aa_HK3 _ _ _ Hc E2) E3).
    + cbn [wi_set_tc w_iface]. destruct (set_tc true (clear_rrs w1)) as [w2|e|] eqn:E2; try discriminate.
      intros E; inversion E; subst. unfold set_tc, w_set_flag in E2. eapply HK3_modify2; eauto.
Qed.

Theorem handle_HK3 negttl z qname qtype tcp w w' : HK3 w ->
  handle_non_axfr_query w_iface negttl z qname qtype tcp w = Some w' -> HK3 w'.
Proof.
  intros Hp. rewrite handle_w_finish. apply finish_w_HK3.
  destruct (qtype =? QTYPE_ANY)%N.
  - apply answer_any_P; first [exact Hp | intros; first [apply wi_rr_HK3; assumption | apply wi_rrset_HK3; assumption | eapply wi_aa_HK3; eassumption | eapply wi_rc_HK3; eassumption]].
  - apply answer_P; first [exact Hp | intros; first [apply wi_rr_HK3; assumption | apply wi_rrset_HK3; assumption | eapply wi_aa_HK3; eassumption | eapply wi_rc_HK3; eassumption]].
Qed.

Lemma finish_HK3 w len b : HK3 w -> finish w = Ok (len, b) -> exists y, nth_error b 3 = Some y /\ (y < 16)%N.
Proof.
  intros H0. unfold finish, finish_gen.
  destruct (w_write w (N.to_nat QDCOUNT_START) _) as [w1|e|] eqn:E1; cbn [bind]; try discriminate.
  destruct (w_write w1 (N.to_nat ANCOUNT_START) _) as [w2|e|] eqn:E2; cbn [bind]; try discriminate.
  destruct (w_write w2 (N.to_nat NSCOUNT_START) _) as [w3|e|] eqn:E3; cbn [bind]; try discriminate.
  destruct (w_write w3 (N.to_nat ARCOUNT_START) _) as [w4|e|] eqn:E4; cbn [bind]; try discriminate.
  assert (Wr : forall wa pos d wb, HK3 wa -> w_write wa pos d = Ok wb -> 4 <= pos -> HK3 wb).
  { intros wa pos d wb Ha E Hp. pose proof Ha as (Hi & _). pose proof (inv_w_write _ _ _ _ Hi E) as Hi'.
    apply w_write_inv in E. destruct E as (b' & Hb & ->). split; [exact Hi'|]. cbn [w_buf set_buf].
    apply (HK3_agree wa b' 4 Ha); [eapply buf_write_agree; eauto|lia]. }
  assert (H4 : HK3 w4).
  { eapply Wr; [eapply Wr; [eapply Wr; [eapply Wr; [exact H0|exact E1|cbn; lia]|exact E2|cbn; lia]|exact E3|cbn; lia]|exact E4|cbn; lia]. }
  clear E1 E2 E3 E4 H0.
  set (K := fun w5 : writer => (exists y, nth_error (w_buf w5) 3 = Some y /\ (y < 16)%N) /\ 12 <= w_cursor w5 /\ w_cursor w5 <= w_avail w5).
  assert (K4 : K w4).
  { destruct H4 as (Hi & Hy). pose proof (inv_cursor_12 w4 Hi). destruct Hi. unfold K. repeat split; auto; lia. }
  assert (Kadd : forall w5 h owner ty cl ttl rdata a w6, K w5 -> w_cursor w5 <= a ->
            unwrap_w (add_rr h owner ty cl ttl rdata None (set_avail w5 a)) = Ok w6 -> K w6).
  { intros w5 h owner ty cl ttl rdata a w6 ((y & Ay & Ao) & B & C) Ha U.
    assert (Hp : pre (w_cursor w5) (set_avail w5 a)) by (split; cbn [w_avail w_cursor set_avail set_limit_avail]; lia).
    pose proof (unwrap_frame (w_cursor w5) _ _ _ U (frame_add_rr (w_cursor w5) _ _ _ _ _ _ _ _ Hp)) as X.
    pose proof (x_cur _ _ _ X) as Xc. pose proof (x_cav _ _ _ X) as Xa. pose proof (x_agree _ _ _ X) as Xg.
    cbn [w_cursor w_buf set_avail set_limit_avail] in *. unfold K. split; [|split; [lia|exact Xa]].
    exists y. split; [|exact Ao]. rewrite (agree_nth _ _ _ _ Xg); [exact Ay|lia]. }
  destruct H4 as (Hi & _). destruct Hi as [h1 h2 h3 h4 h5].
  assert (K5 : forall w5, match w_edns w4 with
                          | Some e => unwrap_w (add_rr HNone [] TYPE_OPT (e_udp e) (e_upper e * 16777216)%N [] None
                                                       (set_avail w4 (w_avail w4 + opt_record_size)))
                          | None => Ok w4 end = Ok w5 -> K w5).
  { intros w5. destruct (w_edns w4) as [e|].
    - intros U. eapply Kadd; [exact K4| |exact U]. lia.
    - intros U; inversion U; subst. exact K4. }
  destruct (match w_edns w4 with Some e => _ | None => Ok w4 end) as [w5|e|] eqn:E5; cbn [bind]; try discriminate.
  specialize (K5 w5 eq_refl).
  destruct (w_tsig w5) as [t|] eqn:Et.
  - destruct (unwrap_w _) as [w6|e|] eqn:E6; cbn [bind]; try discriminate.
    intros H; inversion H; subst.
    assert (K6 : K w6).
    { refine (Kadd (set_tsig_f w5 None) _ _ _ _ _ _ _ w6 _ _ E6).
      - destruct K5 as (A & B & C). unfold K. cbn [w_buf w_cursor w_avail set_tsig_f]. auto.
      - destruct K5 as (A & B & C). cbn [w_cursor w_avail set_tsig_f]. lia. }
    exact (proj1 K6).
  - intros H; inversion H; subst. exact (proj1 K5).
Qed.

Theorem prepare_HK3 buf tcp id rd qname qtype qclass edns limit w :
  prepare_w buf tcp id rd qname qtype qclass edns limit = Some w -> HK3 w.
Proof.
  intros E. destruct (prepare_PW _ _ _ _ _ _ _ _ _ _ E) as (L & (Hi & _ & _) & _). split; [exact Hi|].
  revert E. unfold prepare_w.
  destruct (writer_new buf (if tcp then tcp_limit_w else udp_limit_w)) as [w0|e|] eqn:E0; try discriminate.
  pose proof (writer_new_inv _ _ _ E0) as I0.
  unfold writer_new in E0. destruct (_ <? header_size); [discriminate|]. destruct (length buf <? header_size); [discriminate|].
  inversion E0; subst w0. clear E0.
  match goal with |- context [set_id id ?x] => set (w0 := x) in * end.
  destruct (set_id id w0) as [w1|e|] eqn:E1; cbn [bind]; try discriminate.
  destruct (set_qr true w1) as [w2|e|] eqn:E2; cbn [bind]; try discriminate.
  destruct (set_opcode 0 w2) as [w3|e|] eqn:E3; cbn [bind]; try discriminate.
  destruct (set_rd rd w3) as [w4|e|] eqn:E4; try discriminate.
  assert (H4 : HK3 w4).
  { unfold set_id in E1. pose proof (inv_w_write _ _ _ _ I0 E1) as I1.
    apply w_write_inv in E1. destruct E1 as (b1 & B1 & ->). change (N.to_nat ID_START) with 0 in B1.
    assert (N1 : nth_error b1 3 = Some 0%N).
    { rewrite (buf_write_nth_out _ _ _ _ 3 B1) by (cbn; lia). reflexivity. }
    assert (H1 : HK3 (set_buf w0 b1)) by (split; [exact I1|exists 0%N; split; [exact N1|reflexivity]]).
    unfold set_qr, w_set_flag in E2. pose proof (HK3_modify2 _ _ _ H1 E2) as H2.
    unfold set_opcode in E3. pose proof (HK3_modify2 _ _ _ H2 E3) as H3.
    unfold set_rd, w_set_flag in E4. exact (HK3_modify2 _ _ _ H3 E4). }
  destruct (add_question qname qtype qclass w4) as [[u w5]|e|] eqn:E5; try discriminate.
  assert (H5 : exists y, nth_error (w_buf w5) 3 = Some y /\ (y < 16)%N).
  { pose proof H4 as (I4 & _). pose proof (inv_pre _ I4) as Hp.
    unfold add_question in E5. destruct (w_section w4); try discriminate.
    destruct (checked_add16 (w_qd w4) 1) as [nq|]; [|discriminate].
    match type of E5 with context [with_rollback ?f _] =>
      pose proof (rollback_spec f w4 I4 (question_body_frame _ qname qtype qclass w4 Hp)) as R;
      destruct (with_rollback f w4) as [[[] wq]|[e wq]|] end; cbn [bind] in E5; try discriminate.
    injection E5 as _ Hw. subst w5. cbn [w_buf set_rr_start set_counts].
    apply (HK3_agree w4 (w_buf wq) (w_cursor w4) H4 (x_agree _ _ _ R)). pose proof (inv_cursor_12 w4 I4). lia. }
  destruct edns as [size|].
  - unfold set_edns. destruct (w_edns w5); [discriminate|].
    destruct (w_avail w5 <? w_cursor w5 + opt_record_size); [discriminate|].
    destruct (checked_add16 (w_ar w5) 1) as [ar|]; [|discriminate].
    destruct tcp.
    + intros H; inversion H; subst. exact H5.
    + match goal with |- context [MsgWriter.set_limit limit ?x] => set (w6 := x) end.
      destruct (MsgWriter.set_limit limit w6) as [w7|e|] eqn:E7; try discriminate.
      intros H; injection H as Hw; subst w7.
      destruct (set_limit_facts _ _ _ E7) as (Hb & _). rewrite Hb. exact H5.
  - intros H; inversion H; subst. exact H5.
Qed.

(* RA = 0, Z = 0: the fourth octet of every answered response is below 16 *)
Theorem respond_w_ra_z negttl buf tcp id rd qname qtype qclass edns limit z len b :
  respond_w negttl buf tcp id rd qname qtype qclass edns limit z = Some (len, b) ->
  exists y, nth_error b 3 = Some y /\ (y < 16)%N.
Proof.
  unfold respond_w.
  destruct (prepare_w buf tcp id rd qname qtype qclass edns limit) as [w|] eqn:Ep; [|discriminate].
  pose proof (prepare_HK3 _ _ _ _ _ _ _ _ _ _ Ep) as Hp.
  destruct (handle_non_axfr_query w_iface negttl z qname qtype tcp w) as [w'|] eqn:Eh; [|discriminate].
  pose proof (handle_HK3 _ _ _ _ _ _ _ Hp Eh) as Hq.
  destruct (finish w') as [[len' b']|e|] eqn:Ef; try discriminate.
  intros E; injection E as E1 E2; subst len' b'. exact (finish_HK3 _ _ _ Hq Ef).
Qed.
