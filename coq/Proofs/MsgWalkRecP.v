(* The server model against the spec-level reading of a request, part 2: OPT and TSIG records.
   The RDATA validators of the Reader model agree with the spec's layouts (options tile the OPT
   RDATA; RFC 8945 TSIG RDATA), and parsing a delimited record through PeekRr::parse succeeds
   exactly when the spec decodes the owner and accepts the RDATA. *)
From QV Require Import Base.ListX Model.NameWire Model.Reader Model.RdataLite Model.Server
  Spec.NameWireS Spec.NameRepr Spec.ReaderS Spec.MsgWalkS
  Proofs.NameWireP Proofs.NameWireSP Proofs.ReaderP Proofs.RdataLiteP Proofs.ServerP Proofs.MsgWalkP.
Local Open Scope nat_scope.

(* ---------- OPT RDATA ---------- *)
Lemma validate_opt_loop_spec o : forall f offset f', length o - offset < f -> length o - offset < f' -> offset <= length o ->
  match validate_opt_loop f o offset with
  | Ok _ => s_options_tile f' (skipn offset o) = true
  | Err _ => s_options_tile f' (skipn offset o) = false
  | Panic => False
  end.
Proof.
  induction f as [|f IH]; intros offset f' Hf Hf' Hle; [lia|]. destruct f' as [|f']; [lia|].
  cbn [validate_opt_loop s_options_tile].
  destruct (offset <? length o) eqn:E.
  - apply Nat.ltb_lt in E.
    assert (Hlen : length (skipn offset o) = length o - offset) by apply skipn_length.
    destruct (skipn offset o) as [|x rest] eqn:Sk; [simpl in Hlen; lia|]. rewrite <- Sk in *. clear x rest Sk.
    unfold validate_option, sbe16. change (2 + 1) with 3.
    destruct (nth_error (skipn offset o) 2) as [hi|]; [|reflexivity].
    destruct (nth_error (skipn offset o) 3) as [lo|]; [|reflexivity].
    set (len := N.to_nat (hi * 256 + lo)).
    destruct (len + 4 <=? length (skipn offset o)) eqn:G.
    + apply Nat.leb_le in G. cbn [bind].
      destruct (4 + len <=? length (skipn offset o)) eqn:G'; [|apply Nat.leb_gt in G'; lia]. cbn [andb].
      rewrite skipn_plus. replace (offset + (4 + len)) with (offset + (len + 4)) by lia.
      apply IH; lia.
    + apply Nat.leb_gt in G. cbn [bind].
      destruct (4 + len <=? length (skipn offset o)) eqn:G'; [apply Nat.leb_le in G'; lia|]. reflexivity.
  - apply Nat.ltb_ge in E. rewrite skipn_all2 by lia. reflexivity.
Qed.

Lemma validate_as_opt_spec o :
  match validate_as_opt o with
  | Ok _ => s_opt_rdata_ok o = true
  | Err _ => s_opt_rdata_ok o = false
  | Panic => False
  end.
Proof.
  unfold validate_as_opt, s_opt_rdata_ok.
  pose proof (validate_opt_loop_spec o (S (length o)) 0 (S (length o)) ltac:(lia) ltac:(lia) ltac:(lia)) as H.
  exact H.
Qed.

(* ---------- an uncompressed name at the start of a buffer ---------- *)
Lemma val_loop_spec b : forall fuel o fuel', 256 - o < fuel -> length b - o < fuel' ->
  match val_loop fuel b o with
  | Ok l => s_name_end fuel' b o o = Some (l, false)
  | Err _ => forall e, s_name_end fuel' b o o <> Some (e, false)
  | Panic => False
  end.
Proof.
  destruct consts_vals as (C63 & C255 & _).
  induction fuel as [|f IH]; intros o fuel' Hf Hf'; [lia|]. destruct fuel' as [|f']; [lia|].
  cbn [val_loop s_name_end]. destruct (nth_error b o) as [l|] eqn:Hn; [|intros e; discriminate].
  pose proof (nth_error_Some_lt _ _ _ Hn) as Hlt. rewrite C63, C255.
  destruct (63 <? l)%N eqn:L.
  - apply N.ltb_lt in L. intros e. destruct (l =? 0)%N eqn:Z; [apply N.eqb_eq in Z; lia|].
    destruct (l <=? 63)%N eqn:L'; [apply N.leb_le in L'; lia|].
    destruct (192 <=? l)%N; [destruct (o + 1 <=? 255); discriminate|discriminate].
  - apply N.ltb_ge in L. destruct (255 <? o + N.to_nat l + 1) eqn:X.
    + apply Nat.ltb_lt in X. intros e. destruct (l =? 0)%N eqn:Z.
      * apply N.eqb_eq in Z. subst l. destruct (o + 1 <=? 255) eqn:Y; [apply Nat.leb_le in Y; simpl in X; lia|discriminate].
      * destruct (l <=? 63)%N eqn:L'; [|apply N.leb_gt in L'; lia].
        rewrite s_name_end_over by lia. discriminate.
    + apply Nat.ltb_ge in X. destruct (l =? 0)%N eqn:Z.
      * apply N.eqb_eq in Z. subst l. destruct (o + 1 <=? 255) eqn:Y; [|apply Nat.leb_gt in Y; simpl in X; lia].
        f_equal. f_equal. simpl. lia.
      * apply N.eqb_neq in Z. destruct (l <=? 63)%N eqn:L'; [|apply N.leb_gt in L'; lia].
        replace (o + N.to_nat l + 1) with (o + 1 + N.to_nat l) by lia.
        apply IH; lia.
Qed.

Lemma validate_uncompressed_spec o :
  match validate_uncompressed_name o false with
  | Ok l => s_first_name o 0 = Some (l, false)
  | Err _ => forall e, s_first_name o 0 <> Some (e, false)
  | Panic => False
  end.
Proof.
  unfold validate_uncompressed_name, s_first_name, unc_fuel. destruct consts_vals as (_ & C255 & _). rewrite C255.
  pose proof (val_loop_spec o (S (S 255)) 0 (S (length o)) ltac:(lia) ltac:(lia)) as H.
  destruct (val_loop (S (S 255)) o 0) as [l|e|]; cbn [bind andb]; exact H.
Qed.

(* ---------- TSIG RDATA ---------- *)
Lemma get16_sbe16 o a : get16 o a = sbe16 o a.
Proof. reflexivity. Qed.

Lemma validate_as_tsig_spec o :
  match validate_as_tsig o with
  | Ok _ => s_tsig_rdata_ok o = true
  | Err _ => s_tsig_rdata_ok o = false
  | Panic => False
  end.
Proof.
  unfold validate_as_tsig, s_tsig_rdata_ok. pose proof (validate_uncompressed_spec o) as V.
  destruct (validate_uncompressed_name o false) as [al|e|]; cbv beta iota in V; [| |contradiction].
  - rewrite V, !get16_sbe16. destruct (sbe16 o (al + 8)) as [mac|]; [|cbv beta iota; reflexivity]. cbv zeta. rewrite ?get16_sbe16.
    replace (al + 10 + N.to_nat mac + 4) with (al + N.to_nat mac + 14) by lia.
    destruct (sbe16 o (al + N.to_nat mac + 14)) as [other|]; [|cbv beta iota; reflexivity].
    replace (al + 10 + N.to_nat mac + 6 + N.to_nat other) with (al + N.to_nat mac + N.to_nat other + 16) by lia.
    destruct (_ =? _); cbv beta iota; reflexivity.
  - destruct (s_first_name o 0) as [[al [|]]|] eqn:F; try reflexivity. exfalso. exact (V al eq_refl).
Qed.

(* ---------- rd_lite on OPT and TSIG records ---------- *)
Lemma rd_lite_opt cl b cur rdlen : cur + N.to_nat rdlen <= length b ->
  rd_lite cl 41%N b cur rdlen =
    if s_opt_rdata_ok (slice b cur (cur + N.to_nat rdlen)) then Ok (slice b cur (cur + N.to_nat rdlen))
    else match rd_lite cl 41%N b cur rdlen with Err e => Err e | _ => Err RdOther end.
Proof.
  intros H. unfold rd_lite, prepare_rdata.
  destruct (length b <? cur + N.to_nat rdlen) eqn:E; [apply Nat.ltb_lt in E; lia|]. cbn [bind].
  change (lite_unsupported cl 41%N) with false. cbv iota.
  change ((41 =? TYPE_A)%N && (cl =? CLASS_IN)%N) with false. change ((41 =? TYPE_AAAA)%N && (cl =? CLASS_IN)%N) with false.
  change (41 =? TYPE_OPT)%N with true. cbv iota.
  pose proof (validate_as_opt_spec (slice b cur (cur + N.to_nat rdlen))) as V.
  destruct (validate_as_opt (slice b cur (cur + N.to_nat rdlen))) as [u|e|]; cbn [bind]; [| |contradiction]; rewrite V; reflexivity.
Qed.

Lemma rd_lite_tsig cl b cur rdlen : cur + N.to_nat rdlen <= length b ->
  rd_lite cl 250%N b cur rdlen =
    if s_tsig_rdata_ok (slice b cur (cur + N.to_nat rdlen)) then Ok (slice b cur (cur + N.to_nat rdlen))
    else match rd_lite cl 250%N b cur rdlen with Err e => Err e | _ => Err RdOther end.
Proof.
  intros H. unfold rd_lite, prepare_rdata.
  destruct (length b <? cur + N.to_nat rdlen) eqn:E; [apply Nat.ltb_lt in E; lia|]. cbn [bind].
  change (lite_unsupported cl 250%N) with false. cbv iota.
  change ((250 =? TYPE_A)%N && (cl =? CLASS_IN)%N) with false. change ((250 =? TYPE_AAAA)%N && (cl =? CLASS_IN)%N) with false.
  change (250 =? TYPE_OPT)%N with false. change (250 =? TYPE_TSIG)%N with true. cbv iota.
  pose proof (validate_as_tsig_spec (slice b cur (cur + N.to_nat rdlen))) as V.
  destruct (validate_as_tsig (slice b cur (cur + N.to_nat rdlen))) as [u|e|]; cbn [bind]; [| |contradiction]; rewrite V; reflexivity.
Qed.

(* ---------- PeekRr::parse on a delimited record ---------- *)
Lemma ttl_from_spec raw : ttl_from raw = spec_ttl raw.
Proof.
  unfold ttl_from, spec_ttl. destruct (2147483647 <? raw)%N eqn:X.
  - apply N.ltb_lt in X. destruct (raw <? 2147483648)%N eqn:Y; [apply N.ltb_lt in Y; lia|reflexivity].
  - apply N.ltb_ge in X. destruct (raw <? 2147483648)%N eqn:Y; [reflexivity|apply N.ltb_ge in Y; lia].
Qed.

Lemma owner_decodes_spec b c : wf_bytes b ->
  match parse_compressed_name b c with
  | Ok (nm, _) => exists ls l, spec_decode_name b c = Some (ls, l) /\ nm = name_of ls
  | Err _ => spec_decode_name b c = None
  | Panic => False
  end.
Proof.
  intros Hw. destruct (parse_compressed_total b c) as [NP _].
  destruct (parse_compressed_name b c) as [[nm l]|e|] eqn:P; [| |congruence].
  - apply (parse_compressed_iff _ _ _ _ Hw) in P. destruct P as (ls & D & ->).
    exists ls, l. split; [apply spec_decode_name_iff; exact D|reflexivity].
  - destruct (spec_decode_name b c) as [[ls l]|] eqn:SD; [|reflexivity]. exfalso.
    apply spec_decode_name_iff in SD.
    assert (P' : parse_compressed_name b c = Ok (name_of ls, l)) by (apply (parse_compressed_iff _ _ _ _ Hw); eauto).
    congruence.
Qed.

(* the outcome of peek_parse rd_lite, given what the spec sees *)
Lemma peek_parse_lite r p ty cl raw rdlen : rinv r -> peek_core r = Ok p ->
  @be16_at reader_err (r_octets r) (p_owner_end p) = Ok ty ->
  @be16_at reader_err (r_octets r) (p_owner_end p + 2) = Ok cl ->
  @be32_at reader_err (r_octets r) (p_owner_end p + 4) = Ok raw ->
  @be16_at reader_err (r_octets r) (p_owner_end p + 8) = Ok rdlen ->
  match spec_decode_name (r_octets r) (r_cursor r), rd_lite cl ty (r_octets r) (p_owner_end p + 10) rdlen with
  | Some (ls, _), Ok rdata =>
    peek_parse rd_lite r p = (with_cursor r (p_rr_end p), Ok (mkReadRr (name_of ls) ty cl (ttl_from raw) rdata))
  | _, _ => exists e, peek_parse rd_lite r p = (r, Err e)
  end.
Proof.
  intros (Hw & _) P T C R L. unfold peek_parse, peek_owner, peek_class, peek_type, peek_rdlength, peek_ttl, peek_raw_ttl.
  rewrite T, C, R, L. pose proof (owner_decodes_spec (r_octets r) (r_cursor r) Hw) as O.
  destruct (parse_compressed_name (r_octets r) (r_cursor r)) as [[nm l]|e|]; cbn [lift_name map_err map_ok bind fst];
    [| |contradiction].
  - destruct O as (ls & l' & SD & ->). rewrite SD.
    pose proof (rd_lite_total cl ty (r_octets r) (p_owner_end p + 10) rdlen) as NP.
    destruct (rd_lite cl ty (r_octets r) (p_owner_end p + 10) rdlen) as [rdata|e|]; cbn [map_err bind map_ok]; [| |congruence].
    + reflexivity.
    + eauto.
  - rewrite O. eauto.
Qed.
