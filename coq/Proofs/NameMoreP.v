(* superdomain, make_ascii_lowercase / LowercaseName, is_wildcard against the list-level specification. *)
From QV Require Import Base.ListX Model.NameWire Model.DecU16 Model.NameText Spec.NameWireS Spec.NameRepr Spec.NameTextS
  Proofs.NameWireP Proofs.NameLabelsP Proofs.NameTextP.

Local Ltac norm := unfold label, bytes in *.

(* ---- superdomain ------------------------------------------------------------------------------------------ *)

Definition rebase (o0 : N) (o : N) : res name_err N := if (o <? o0)%N then Panic else Ok (o - o0)%N.

Lemma rebase_offs B (y : list (list N)) : forall base, B + base + length (lwire y) <= 256 ->
  mapM (rebase (N.of_nat B)) (offs_all (B + base) y) = Ok (offs_all base y).
Proof.
  induction y as [|l r IH]; intros base H; [reflexivity|].
  rewrite lwire_length_cons in H. cbn [offs_all mapM].
  rewrite !N.mod_small by lia. unfold rebase at 1.
  assert (E : (N.of_nat (B + base) <? N.of_nat B)%N = false) by (apply N.ltb_ge; lia). rewrite E. cbn [bind].
  replace (B + base + 1 + length l) with (B + (base + 1 + length l)) by lia.
  rewrite IH by lia. cbn [bind]. do 3 f_equal. lia.
Qed.

Lemma all_labels_app (pre post : list (list N)) : all_labels (pre ++ post) = pre ++ all_labels post.
Proof. unfold all_labels. rewrite <- app_assoc. reflexivity. Qed.

Lemma nth_error_app_exact {A} (a : list A) x r n : n = length a -> nth_error (a ++ x :: r) n = Some x.
Proof. intros ->. rewrite nth_error_app2 by lia. rewrite Nat.sub_diag. reflexivity. Qed.

Lemma skipn_app_exact' {A} (a b : list A) n : n = length a -> skipn n (a ++ b) = b.
Proof. intros ->. rewrite skipn_app, skipn_all, Nat.sub_diag. reflexivity. Qed.

Theorem superdomain_spec (ls : list (list N)) skip :
  Forall (fun l : list N => 1 <= length l <= 63) ls -> wire_len ls <= 255 ->
  superdomain (name_of ls) skip = Ok (option_map name_of (spec_superdomain ls skip)).
Proof.
  intros Hf Hlen. unfold superdomain, spec_superdomain. rewrite name_len_name_of. norm.
  change (skip <? S (length ls)) with (skip <=? length ls).
  destruct (skip <=? length ls) eqn:E; [|reflexivity]. apply Nat.leb_le in E. cbn [option_map].
  assert (Hsplit : exists pre post, ls = pre ++ post /\ length pre = skip).
  { exists (firstn skip ls), (skipn skip ls). split; [symmetry; apply firstn_skipn|apply firstn_length_le; exact E]. }
  destruct Hsplit as (pre & post & -> & Hpre). clear E.
  rewrite (skipn_app_exact' pre post skip) by (symmetry; exact Hpre).
  unfold name_of. cbn [n_offsets n_wire].
  rewrite !offs_of_all, !wire_of_all, all_labels_app, offs_all_app, lwire_app. cbn [Nat.add].
  set (B := length (lwire pre)).
  assert (HB : B + length (lwire (all_labels post)) <= 255).
  { rewrite wire_len_lwire, lwire_app, app_length in Hlen. unfold all_labels. rewrite lwire_app, app_length. cbn. fold B in Hlen. rewrite Nat.add_assoc. exact Hlen. }
  assert (Hfp : Forall (fun l : list N => 1 <= length l <= 63) post).
  { apply Forall_app in Hf. apply Hf. }
  assert (Hcnt : length (all_labels post) <= 128).
  { unfold all_labels in *. rewrite app_length. cbn [length].
    pose proof (lwire_labels_len post Hfp) as H2. rewrite lwire_app, app_length in HB.
    change (length (lwire [[]])) with 1 in HB. unfold B in *. norm. lia. }
  destruct (all_labels post) as [|p0 rest] eqn:Epost.
  { unfold all_labels in Epost. destruct post; discriminate. }
  cbn [offs_all].
  rewrite (nth_error_app_exact _ _ _ skip) by (rewrite offs_all_length; symmetry; exact Hpre).
  rewrite lwire_length_cons in HB.
  rewrite N.mod_small by lia. rewrite Nat2N.id.
  assert (E1 : (length (lwire pre ++ lwire (p0 :: rest)) <? B) = false).
  { apply Nat.ltb_ge. rewrite app_length. fold B. lia. }
  rewrite E1.
  rewrite (skipn_app_exact' _ _ skip) by (rewrite offs_all_length; symmetry; exact Hpre).
  pose proof (rebase_offs B (p0 :: rest) 0) as Hr. rewrite Nat.add_0_r in Hr. cbn [offs_all] in Hr.
  rewrite N.mod_small in Hr by lia. unfold rebase in Hr. cbn [Nat.add] in Hr.
  rewrite Hr by (rewrite lwire_length_cons; lia). cbn [bind]. cbn [length]. rewrite offs_all_length.
  change max_n_labels with 128.
  assert (E2 : (128 <? S (length rest)) = false) by (apply Nat.ltb_ge; cbn [length] in Hcnt; lia).
  rewrite E2.
  rewrite (skipn_app_exact' _ _ B) by reflexivity. reflexivity.
Qed.

(* ---- make_ascii_lowercase ----------------------------------------------------------------------------------- *)

Lemma lwire_lower_length (ls : list (list N)) : length (lwire (lower_name ls)) = length (lwire ls).
Proof.
  induction ls as [|l r IH]; [reflexivity|]. unfold lower_name in *. cbn [map].
  rewrite !lwire_length_cons, IH, map_length. reflexivity.
Qed.

Lemma offs_all_lower (ls : list (list N)) : forall base, offs_all base (map (map lower) ls) = offs_all base ls.
Proof.
  induction ls as [|l r IH]; intros base; [reflexivity|]. cbn [map offs_all]. rewrite map_length, IH. reflexivity.
Qed.

Lemma lowercase_loop_spec (post : list (list N)) : forall (pre : list (list N)),
  length (lwire pre) + length (lwire post) <= 255 ->
  lowercase_loop (offs_all (length (lwire pre)) post) (lwire pre ++ lwire post) =
  Ok (lwire pre ++ lwire (map (map lower) post)).
Proof.
  induction post as [|l r IH]; intros pre H; [reflexivity|].
  rewrite lwire_length_cons in H. cbn [offs_all lowercase_loop].
  rewrite N.mod_small by lia. rewrite Nat2N.id.
  rewrite lwire_cons. rewrite nth_error_app2 by lia. rewrite Nat.sub_diag. cbn [nth_error]. rewrite Nat2N.id.
  set (A := lwire pre). set (x := N.of_nat (length l)).
  assert (Hlen : length (A ++ x :: l ++ lwire r) = length A + 1 + length l + length (lwire r)).
  { rewrite app_length. cbn. rewrite app_length. lia. }
  assert (E : (length (A ++ x :: l ++ lwire r) <? length A + 1 + length l) = false) by (apply Nat.ltb_ge; lia).
  rewrite E.
  replace (A ++ x :: l ++ lwire r) with ((A ++ [x]) ++ l ++ lwire r) by (rewrite <- app_assoc; reflexivity).
  assert (HA : length (A ++ [x]) = length A + 1) by (rewrite app_length; cbn; lia).
  rewrite <- HA.
  rewrite firstn_app, Nat.sub_diag, firstn_all. cbn [firstn]. rewrite app_nil_r.
  unfold slice. rewrite skipn_app, skipn_all, Nat.sub_diag. cbn [skipn app].
  replace (length (A ++ [x]) + length l - length (A ++ [x])) with (length l + 0) by lia.
  rewrite firstn_app_2. cbn [firstn]. rewrite app_nil_r.
  replace (length (A ++ [x]) + length l) with (length ((A ++ [x]) ++ l)) by (rewrite app_length; reflexivity).
  rewrite (app_assoc (A ++ [x]) l (lwire r)). rewrite skipn_app, skipn_all, Nat.sub_diag. cbn [skipn app].
  (* the rewritten buffer is lwire (pre ++ [lower l]) ++ lwire r *)
  assert (Hx : x = N.of_nat (length (map lower l))) by (unfold x; rewrite map_length; reflexivity).
  replace ((A ++ [x]) ++ map lower l ++ lwire r) with (lwire (pre ++ [map lower l]) ++ lwire r).
  2:{ rewrite lwire_snoc, <- Hx. unfold A. rewrite <- !app_assoc. reflexivity. }
  replace (length ((A ++ [x]) ++ l)) with (length (lwire (pre ++ [map lower l]))).
  2:{ rewrite lwire_snoc, !app_length. cbn. rewrite map_length. unfold A. lia. }
  rewrite IH.
  - rewrite lwire_snoc, <- Hx. unfold A. cbn [map]. rewrite lwire_cons, map_length. fold x. rewrite <- !app_assoc. reflexivity.
  - rewrite lwire_snoc, app_length. cbn. rewrite map_length. unfold A in *. lia.
Qed.

Theorem make_ascii_lowercase_spec (ls : list (list N)) : wire_len ls <= 255 ->
  make_ascii_lowercase (name_of ls) = Ok (name_of (spec_lowercase ls)).
Proof.
  intros Hlen. unfold make_ascii_lowercase, name_of. cbn [n_offsets n_wire].
  rewrite !offs_of_all, !wire_of_all.
  pose proof (lowercase_loop_spec (all_labels ls) []) as H. cbn [lwire flat_map length app] in H.
  change (length (@nil N)) with 0 in H.
  rewrite H by (rewrite <- wire_of_all; exact Hlen). cbn [bind].
  unfold spec_lowercase. f_equal. f_equal.
  - unfold all_labels, lower_name. rewrite <- (offs_all_lower (ls ++ [[]])), map_app. reflexivity.
  - unfold all_labels, lower_name. rewrite map_app. reflexivity.
Qed.

(* lower-casing changes no length and is idempotent; the result equals the original under name equality *)
Theorem lowercase_idempotent (ls : list (list N)) : spec_lowercase (spec_lowercase ls) = spec_lowercase ls.
Proof.
  unfold spec_lowercase, lower_name. rewrite map_map. apply map_ext. intros l. rewrite map_map.
  apply map_ext. intros b. apply lower_idem.
Qed.

Theorem lowercase_wire_len (ls : list (list N)) : wire_len (spec_lowercase ls) = wire_len ls.
Proof. rewrite !wire_len_lwire. unfold spec_lowercase. rewrite lwire_lower_length. reflexivity. Qed.

(* ---- is_wildcard --------------------------------------------------------------------------------------------- *)

Theorem is_wildcard_spec (ls : list (list N)) : wire_len ls <= 255 ->
  is_wildcard (name_of ls) = Ok (match ls with l :: _ => eq_nocase l [42%N] | [] => false end).
Proof.
  intros Hlen. unfold is_wildcard.
  pose proof (label_at_all ls [] (match ls with l :: _ => l | [] => [] end)
                (match ls with _ :: r => all_labels r | [] => [] end)) as H.
  cbn [length app] in H. rewrite H; [|destruct ls; reflexivity|exact Hlen].
  cbn [bind]. destruct ls; reflexivity.
Qed.

(* ---- try_push_slice ------------------------------------------------------------------------------------------ *)

Theorem try_push_slice_spec b st (o : list N) : brepr b st -> ast_ok st ->
  (63 < length (snd st) + length o -> try_push_slice b o = Err LabelTooLong) /\
  (length (snd st) + length o <= 63 -> 255 < awire st + length o -> try_push_slice b o = Err NameTooLong) /\
  (length (snd st) + length o <= 63 -> awire st + length o <= 255 ->
   exists b', try_push_slice b o = Ok b' /\ brepr b' (fst st, snd st ++ o) /\ ast_ok (fst st, snd st ++ o)).
Proof.
  intros Hb (Hds & Hcur & Hw). pose proof (brepr_wire_len b st Hb) as Hlen.
  destruct Hb as (Ewire & Eoffs & Estart & Elen). destruct st as [ds cur]. cbn [fst snd] in *.
  unfold try_push_slice, try_extend. change (N.to_nat max_label_len) with 63. change max_wire_len with 255.
  rewrite Elen, Nat2N.id, Hlen.
  split; [|split].
  - intros H. assert (E : (63 <? length cur + length o) = true) by (apply Nat.ltb_lt; exact H). rewrite E. reflexivity.
  - intros H1 H2. assert (E : (63 <? length cur + length o) = false) by (apply Nat.ltb_ge; exact H1). rewrite E.
    assert (E2 : (255 <? awire (ds, cur) + length o) = true) by (apply Nat.ltb_lt; exact H2). rewrite E2. reflexivity.
  - intros H1 H2. assert (E : (63 <? length cur + length o) = false) by (apply Nat.ltb_ge; exact H1). rewrite E.
    assert (E2 : (255 <? awire (ds, cur) + length o) = false) by (apply Nat.ltb_ge; exact H2). rewrite E2.
    unfold u8_add. rewrite N.mod_small by lia.
    assert (E3 : (255 <? N.of_nat (length cur) + N.of_nat (length o))%N = false) by (apply N.ltb_ge; lia). rewrite E3.
    eexists. split; [reflexivity|]. split.
    + unfold brepr. cbn [b_wire b_offsets b_label_start b_label_len fst snd].
      rewrite Ewire, <- app_assoc. cbn [app]. repeat split; try assumption.
      rewrite app_length. lia.
    + unfold ast_ok, awire in *. cbn [fst snd] in *. rewrite app_length. repeat split; try assumption; lia.
Qed.
