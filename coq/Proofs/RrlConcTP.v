(* C28 on the whole table: what stream k sees of the table-level system IS the single-bucket
   system of Model/RrlConc.v, provided no other stream's thread shares k's bucket. *)
From QV Require Import Base.Res Base.Octets Model.Rrl Model.RrlConc Model.RrlConcT
  Proofs.RrlP Proofs.RrlConcP.
Local Open Scope N_scope.

Lemma map_set_nth {A B} (f : A -> B) (l : list A) i x :
  map f (set_nth l i x) = set_nth (map f l) i (f x).
Proof.
  revert i. induction l as [|y l IH]; intros [|i]; simpl; try reflexivity. rewrite IH. reflexivity.
Qed.

Lemma set_nth_same {A} (l : list A) i x : nth_error l i = Some x -> set_nth l i x = l.
Proof.
  revert i. induction l as [|y l IH]; intros [|i] H; simpl in *; try discriminate.
  - inversion H. reflexivity.
  - rewrite (IH i H). reflexivity.
Qed.

Section WithHash.
  Variable hkey : key -> N.

  (* threads of other streams work on other buckets *)
  Definition separated (k : key) (s : tstate) : Prop :=
    forall th, In th (ts_threads s) -> tt_key th <> k ->
               slot hkey (ts_table s) (tt_key th) <> slot hkey (ts_table s) k.

  Lemma slot_set t i e k : slot hkey (t_set t i e) k = slot hkey t k.
  Proof. reflexivity. Qed.

  Lemma in_set_nth {A} (l : list A) i x y : In y (set_nth l i x) -> y = x \/ In y l.
  Proof.
    revert i. induction l as [|z l IH]; intros [|i] H; simpl in *; try contradiction.
    - destruct H as [H|H]; [left; symmetry; exact H|right; right; exact H].
    - destruct H as [H|H]; [right; left; exact H|]. destruct (IH i H) as [E|E]; [left; exact E|right; right; exact E].
  Qed.

  Lemma tstep_proj p k s l : separated k s ->
    let s1 := match tstep hkey p s l with Some s' => s' | None => s end in
    proj hkey k s1 = match cstep p k (proj hkey k s) l with Some c => c | None => proj hkey k s end
    /\ separated k s1.
  Proof.
    intros SEP. destruct l as [[tid now] rnd]. unfold tstep, cstep.
    cbn [proj c_threads c_lock c_cell c_sent c_limited].
    rewrite nth_error_map.
    destruct (nth_error (ts_threads s) tid) as [th|] eqn:ET; cbn [option_map]; [|split; [reflexivity|exact SEP]].
    assert (SEPset : forall q m tbl lk sn lm, ts_table s = tbl \/ (exists i e, tbl = t_set (ts_table s) i e) ->
              separated k (mkT tbl lk (set_nth (ts_threads s) tid (mkTT (tt_key th) q m)) sn lm)).
    { intros q m tbl lk sn lm Ht th' Hin Hk. cbn [ts_threads ts_table] in *.
      assert (Hs : forall k0, slot hkey tbl k0 = slot hkey (ts_table s) k0)
        by (intros k0; destruct Ht as [<-|(i & e & ->)]; reflexivity).
      rewrite !Hs. destruct (in_set_nth _ _ _ _ Hin) as [->|Hin'].
      - cbn [tt_key] in *. apply SEP; [eapply nth_error_In; exact ET|exact Hk].
      - apply SEP; assumption. }
    destruct (key_eqb (tt_key th) k) eqn:EK.
    - (* a thread of stream k: the projection takes the same step *)
      assert (PTH : proj_thread k th = mkThread (tt_pc th) (tt_todo th))
        by (unfold proj_thread; rewrite EK; reflexivity).
      rewrite PTH. apply key_eqb_eq in EK. subst k. cbn [th_pc th_todo].
      destruct (tt_pc th) as [| |e|] eqn:EP.
      + destruct (tt_todo th) as [|m] eqn:ETD; [split; [reflexivity|exact SEP]|].
        destruct (ts_locks s (slot hkey (ts_table s) (tt_key th))) eqn:ELK; [split; [reflexivity|exact SEP]|].
        split; [|apply SEPset; left; reflexivity].
        unfold proj. cbn [ts_table ts_locks ts_threads ts_sent ts_limited]. f_equal.
        * unfold set_lock. rewrite N.eqb_refl. reflexivity.
        * rewrite map_set_nth. unfold proj_thread at 2. cbn [tt_key tt_pc tt_todo]. rewrite key_eqb_refl. reflexivity.
      + split; [|apply SEPset; left; reflexivity].
        unfold proj. cbn [ts_table ts_locks ts_threads ts_sent ts_limited]. f_equal.
        rewrite map_set_nth. unfold proj_thread at 2. cbn [tt_key tt_pc tt_todo]. rewrite key_eqb_refl. reflexivity.
      + destruct (cell_step p (tt_key th) e now rnd) as [[e' act]| |]; try (split; [reflexivity|exact SEP]).
        split; [|apply SEPset; right; eexists; eexists; reflexivity].
        unfold proj. cbn [ts_table ts_locks ts_threads ts_sent ts_limited].
        rewrite slot_set, t_get_set_same. f_equal.
        * rewrite map_set_nth. unfold proj_thread at 2. cbn [tt_key tt_pc tt_todo]. rewrite key_eqb_refl. reflexivity.
        * destruct act; unfold bump; rewrite ?key_eqb_refl; reflexivity.
        * destruct act; unfold bump; rewrite ?key_eqb_refl; reflexivity.
      + split; [|apply SEPset; left; reflexivity].
        unfold proj. cbn [ts_table ts_locks ts_threads ts_sent ts_limited]. f_equal.
        * unfold set_lock. rewrite N.eqb_refl. reflexivity.
        * rewrite map_set_nth. unfold proj_thread at 2. cbn [tt_key tt_pc tt_todo]. rewrite key_eqb_refl. reflexivity.
    - (* a thread of another stream: the projection does not move *)
      assert (PTH : proj_thread k th = mkThread Idle 0)
        by (unfold proj_thread; rewrite EK; reflexivity).
      rewrite PTH. cbn [th_pc th_todo].
      assert (NK : tt_key th <> k) by (apply key_eqb_neq; exact EK).
      pose proof (SEP th (nth_error_In _ _ ET) NK) as NS.
      assert (PT : forall q m, map (proj_thread k) (set_nth (ts_threads s) tid (mkTT (tt_key th) q m))
                               = map (proj_thread k) (ts_threads s)).
      { intros q m. rewrite map_set_nth. apply set_nth_same. rewrite nth_error_map, ET. cbn.
        unfold proj_thread. cbn [tt_key]. rewrite EK. reflexivity. }
      destruct (tt_pc th) as [| |e|] eqn:EP.
      + destruct (tt_todo th) as [|m]; [split; [reflexivity|exact SEP]|].
        destruct (ts_locks s (slot hkey (ts_table s) (tt_key th))); [split; [reflexivity|exact SEP]|].
        split; [|apply SEPset; left; reflexivity].
        unfold proj. cbn [ts_table ts_locks ts_threads ts_sent ts_limited]. rewrite PT. f_equal.
        unfold set_lock. apply N.eqb_neq in NS. rewrite N.eqb_sym in NS. rewrite NS. reflexivity.
      + split; [|apply SEPset; left; reflexivity].
        unfold proj. cbn [ts_table ts_locks ts_threads ts_sent ts_limited]. rewrite PT. reflexivity.
      + destruct (cell_step p (tt_key th) e now rnd) as [[e' act]| |]; try (split; [reflexivity|exact SEP]).
        split; [|apply SEPset; right; eexists; eexists; reflexivity].
        unfold proj. cbn [ts_table ts_locks ts_threads ts_sent ts_limited].
        rewrite slot_set, PT.
        rewrite t_get_set_other by (intros E; apply NS; symmetry; exact E).
        assert (BK : forall f, bump f (tt_key th) k = f k).
        { intros f. unfold bump. assert (E : key_eqb k (tt_key th) = false)
            by (apply key_eqb_neq; intros E; apply NK; symmetry; exact E). rewrite E. reflexivity. }
        f_equal; destruct act; rewrite ?BK; reflexivity.
      + split; [|apply SEPset; left; reflexivity].
        unfold proj. cbn [ts_table ts_locks ts_threads ts_sent ts_limited]. rewrite PT. f_equal.
        unfold set_lock. apply N.eqb_neq in NS. rewrite N.eqb_sym in NS. rewrite NS. reflexivity.
  Qed.

  Lemma trun_proj p k sched : forall s, separated k s ->
    proj hkey k (trun hkey p s sched) = crun p k (proj hkey k s) sched.
  Proof.
    induction sched as [|l r IH]; intros s SEP; [reflexivity|].
    cbn [trun crun]. destruct (tstep_proj p k s l SEP) as [HP SEP'].
    cbv zeta in HP, SEP'. rewrite (IH _ SEP'). rewrite HP. reflexivity.
  Qed.

  (* work of stream k in a workload *)
  Definition bursts_of (k : key) (work : list (key * nat)) : list nat :=
    map (fun w => if key_eqb (fst w) k then snd w else 0%nat) work.

  Lemma proj_tinit k t work :
    proj hkey k (tinit t work) = cinit (t_get t (slot hkey t k)) (bursts_of k work).
  Proof.
    unfold proj, tinit, cinit, bursts_of. cbn [ts_table ts_locks ts_threads ts_sent ts_limited].
    f_equal. rewrite !map_map. apply map_ext. intros [k' b]. unfold proj_thread. cbn [tt_key tt_pc tt_todo fst snd].
    destruct (key_eqb k' k); reflexivity.
  Qed.

  (* MAIN (table level): one lock per bucket, threads of many streams, any schedule: if no
     other stream's thread shares stream k's bucket, then once k's threads are done exactly
     min(n_k, tokens) of k's responses were sent. *)
  Lemma table_exact p k lo hi t work sched :
    wf_params p -> cell_ok p k hi (t_get t (slot hkey t k)) -> hi - lo < nanos_per_sec ->
    Forall (fun l => lo <= label_now l <= hi) sched ->
    (forall w, In w work -> fst w <> k -> slot hkey t (fst w) <> slot hkey t k) ->
    let s' := trun hkey p (tinit t work) sched in
    all_done (proj hkey k s') = true ->
    let n := N.of_nat (list_sum (bursts_of k work)) in
    let tokens := avail p k (t_get t (slot hkey t k)) in
    N.of_nat (ts_sent s' k) = N.min n tokens /\ N.of_nat (ts_limited s' k) = n - N.min n tokens.
  Proof.
    intros W CO TW HF SEPW s' HD n tokens.
    assert (SEP : separated k (tinit t work)).
    { intros th Hin Hk. unfold tinit in Hin. cbn [ts_threads ts_table] in *.
      apply in_map_iff in Hin. destruct Hin as (w & <- & Hw). cbn [tt_key] in *. apply SEPW; assumption. }
    pose proof (trun_proj p k sched _ SEP) as HP. fold s' in HP. rewrite proj_tinit in HP.
    rewrite HP in HD.
    pose proof (conc_exact p k lo hi _ (bursts_of k work) sched W CO TW HF HD) as H.
    rewrite <- HP in H. exact H.
  Qed.
End WithHash.
