(* Composition, part 1: contract-obeying traces of the Writer's operation language.
   [Reach d g ops outs d' g'] : from the driver state d (ghost g) the operations ops — each with
   well-formed arguments (op_wf, op_wf2, op_wf3) and obeying the hint contract in the state it is
   issued in — run without stopping and lead to d' (ghost g') with the outcomes outs.  It is the
   inductive form of [run] + [run_contract], which C12's theorems are stated with.
   [St] : the states reachable that way from a fixed start, together with the full invariant AInv.
   Then: what each operation of the octet-level Writer interface [w_iface] (Model/QueryW.v) is in
   terms of one [step] of the operation language. *)
From QV Require Import Base.ListX Model.MsgWriter Model.ZoneTree Model.Query Model.QueryW
  Proofs.MsgWriterP Proofs.MsgWriterScanP Proofs.MsgWriterNameP Proofs.MsgWriterInvP Proofs.MsgWriterOpP
  Proofs.MsgWriterStepP Proofs.MsgWriterHdrP Proofs.MsgWriterRtP.
Local Open Scope nat_scope.

(* ---------------------------------------------------------------- argument sizes *)

Definition good_name (n : wname) : Prop := wf_name n /\ length (nm_wire n) <= 255.
Definition good_rd (rd : bytes) : Prop := wf_bytes rd /\ (N.of_nat (length rd) < 65536)%N.

Lemma good_rds_split rds : Forall good_rd rds ->
  Forall wf_bytes rds /\ Forall (fun rd => (N.of_nat (length rd) < 65536)%N) rds.
Proof. intros H. split; eapply Forall_impl; try exact H; intros a [A B]; auto. Qed.

Section WithPop.
(* an extra predicate every operation of a trace satisfies (used by C02 to say what is written) *)
Variable Pop : wop -> Prop.

Definition op_ok (o : wop) : Prop := op_wf o /\ op_wf2 o /\ op_wf3 o /\ Pop o.

Inductive Reach : dstate -> gn -> list wop -> list outcome -> dstate -> gn -> Prop :=
| R_nil d g : Reach d g [] [] d g
| R_cons d g o d1 r ops outs d' g' : op_ok o -> op_contract d g o -> step d o = Ok (d1, r) ->
    stops o r = false -> Reach d1 (gstep d g o r) ops outs d' g' ->
    Reach d g (o :: ops) (r :: outs) d' g'.

Lemma Reach_trans d g a oa d1 g1 b ob d2 g2 : Reach d g a oa d1 g1 -> Reach d1 g1 b ob d2 g2 ->
  Reach d g (a ++ b) (oa ++ ob) d2 g2.
Proof.
  intros H1 H2. induction H1; simpl; auto. econstructor; eauto.
Qed.

Lemma Reach_one d g o d1 r : op_ok o -> op_contract d g o -> step d o = Ok (d1, r) -> stops o r = false ->
  Reach d g [o] [r] d1 (gstep d g o r).
Proof. intros. econstructor; eauto. constructor. Qed.

Lemma Reach_run d g ops outs d' g' : Reach d g ops outs d' g' ->
  run d ops = Ok (d', outs, true) /\ run_contract d g ops /\
  Forall op_wf ops /\ Forall op_wf2 ops /\ Forall op_wf3 ops /\ Forall Pop ops /\ length outs = length ops.
Proof.
  induction 1 as [d g|d g o d1 r ops outs d' g' [W1 [W2 [W3 W4]]] Hc Hs Hst _ IH].
  - simpl. repeat split; auto.
  - destruct IH as (Hr & Hrc & F1 & F2 & F3 & F4 & Hl). cbn [run run_contract]. rewrite Hs. cbn [bind]. rewrite Hst, Hr. cbn [bind].
    repeat split; auto. simpl. lia.
Qed.

Section From.
Variable d0 : dstate.
Variable g0 : gn.

Definition St (d : dstate) (g : gn) : Prop :=
  exists ops outs L, Reach d0 g0 ops outs d g /\ AInv d g L.

Lemma St_step d g o : St d g -> op_ok o -> op_contract d g o -> (forall r, stops o r = false) ->
  exists d' r, step d o = Ok (d', r) /\ St d' (gstep d g o r).
Proof.
  intros (ops & outs & L & HR & Hi) Hok Hc Hst. destruct Hok as [W1 W23].
  pose proof (step_ok_all d g L o Hi W1 Hc) as S. unfold step_ok in S.
  destruct (step d o) as [[d' r]|e|] eqn:E; try contradiction. destruct S as [L' Hi'].
  exists d', r. split; [reflexivity|]. exists (ops ++ [o]), (outs ++ [r]), L'. split; [|exact Hi'].
  eapply Reach_trans; [exact HR|]. apply Reach_one; auto. split; auto.
Qed.

Lemma St_regs_len d g : St d g -> length (d_regs d) = length (g_regs g).
Proof. intros (ops & outs & L & _ & Hi). exact (proj1 (a_regs _ _ _ Hi)). Qed.

End From.

(* ---------------------------------------------------------------- w_iface operations as steps *)

Lemma stops_rr s h n ty cl ttl rd vec r : stops (OAddRr s h n ty cl ttl rd vec) r = false.
Proof. reflexivity. Qed.
Lemma stops_rrset s h n ty cl ttl rds vec r : stops (OAddRrset s h n ty cl ttl rds vec) r = false.
Proof. reflexivity. Qed.

(* a hint of the query model and a hint source of the operation language denote the same Writer hint *)
Definition hint_agrees (regs : list hvec) (h : qhint) (hs : hintsrc) : Prop :=
  resolve_hint regs hs = hint_of h.

(* what the ghost state looks like after an RR operation *)
Definition ghost_rr_ok (g g' : gn) (owner : wname) (names : list wname) (nonempty : bool) : Prop :=
  g_q g' = g_q g /\ g_o g' = (if nonempty then Some owner else g_o g) /\ g_r g' = lastn names (g_r g).
Definition ghost_same (g g' : gn) : Prop := g_q g' = g_q g /\ g_o g' = g_o g /\ g_r g' = g_r g.

Section Ops.
Variable d0 : dstate.
Variable g0 : gn.

Lemma app_same_len {A} (l x : list A) n : length (l ++ x) = n -> length l = n -> x = [].
Proof. rewrite app_length. intros H1 H2. destruct x; auto. simpl in H1. lia. Qed.

Lemma St_add_rr d g s h hs owner ty cls ttl rd : St d0 g0 d g -> hint_agrees (d_regs d) h hs ->
  good_name owner -> good_rd rd -> (ty < 65536)%N -> (cls < 65536)%N ->
  Pop (OAddRr (sec_of s) hs owner ty cls ttl rd false) ->
  hs_contract (d_regs d) g hs owner ->
  match wi_add_rr w_iface s h owner ty cls ttl rd (d_w d) with
  | Ok w' => exists d' g', St d0 g0 d' g' /\ d_w d' = w' /\ d_regs d' = d_regs d /\ g_regs g' = g_regs g /\
               ghost_rr_ok g g' owner (rd_names (component_types cls ty) rd) true
  | Err (_, w') => exists d' g', St d0 g0 d' g' /\ d_w d' = w' /\ d_regs d' = d_regs d /\ g_regs g' = g_regs g /\
               ghost_same g g'
  | Panic => False
  end.
Proof.
  intros HS Hh [Hn1 Hn2] [Hr1 Hr2] Hty Hcl Hpop Hc.
  set (o := OAddRr (sec_of s) hs owner ty cls ttl rd false).
  assert (Hok : op_ok o) by (split; [split; auto|split; [repeat split; auto|split; [exact I|exact Hpop]]]).
  assert (Hoc : op_contract d g o) by (intros _; exact Hc).
  destruct (St_step d0 g0 d g o HS Hok Hoc (stops_rr _ _ _ _ _ _ _ _)) as (d' & r & E & HS').
  pose proof (St_regs_len _ _ _ _ HS) as L0. pose proof (St_regs_len _ _ _ _ HS') as L1.
  unfold o in E. cbn [step] in E. rewrite Hh in E. cbn [wi_add_rr w_iface].
  destruct (add_section_rr (sec_of s) (hint_of h) owner ty cls (ttl_from ttl) rd None (d_w d)) as [[v w']|[e w']|];
    cbn [of_Mv] in E; inversion E; subst d' r; clear E.
  - unfold o in L1. cbn [gstep g_regs d_regs] in L1. rewrite app_nil_r in L1.
    pose proof (app_same_len _ _ _ L1 L0) as Hx.
    exists (mkD w' (d_regs d ++ match v with Some l => [l] | None => [] end)), (gstep d g o RUnit).
    split; [exact HS'|]. cbn [d_w d_regs]. rewrite Hx, app_nil_r. split; [reflexivity|]. split; [reflexivity|].
    unfold o. cbn [gstep g_regs g_q g_o g_r]. rewrite app_nil_r. repeat split; reflexivity.
  - exists (mkD w' (d_regs d ++ [])), (gstep d g o (RErr e)). split; [exact HS'|]. cbn [d_w d_regs]. rewrite app_nil_r.
    split; [reflexivity|]. split; [reflexivity|]. unfold o. cbn [gstep g_regs g_q g_o g_r]. rewrite app_nil_r.
    repeat split; reflexivity.
Qed.

(* add_rrset without a hint vector *)
Lemma St_add_rrset d g s h hs owner ty cls ttl rds : St d0 g0 d g -> hint_agrees (d_regs d) h hs ->
  good_name owner -> Forall good_rd rds -> (ty < 65536)%N -> (cls < 65536)%N ->
  Pop (OAddRrset (sec_of s) hs owner ty cls ttl rds false) ->
  hs_contract (d_regs d) g hs owner ->
  match wi_add_rrset w_iface s h owner ty cls ttl rds false (d_w d) with
  | Ok (_, w') => exists d' g', St d0 g0 d' g' /\ d_w d' = w' /\ d_regs d' = d_regs d /\ g_regs g' = g_regs g /\
               ghost_rr_ok g g' owner (rds_names (component_types cls ty) rds) (match rds with [] => false | _ => true end)
  | Err (_, w') => exists d' g', St d0 g0 d' g' /\ d_w d' = w' /\ d_regs d' = d_regs d /\ g_regs g' = g_regs g /\
               ghost_same g g'
  | Panic => False
  end.
Proof.
  intros HS Hh [Hn1 Hn2] Hr Hty Hcl Hpop Hc. destruct (good_rds_split _ Hr) as [Hr1 Hr2].
  set (o := OAddRrset (sec_of s) hs owner ty cls ttl rds false).
  assert (Hok : op_ok o) by (split; [split; auto|split; [repeat split; auto|split; [exact I|exact Hpop]]]).
  assert (Hoc : op_contract d g o) by (intros _; exact Hc).
  destruct (St_step d0 g0 d g o HS Hok Hoc (stops_rrset _ _ _ _ _ _ _ _)) as (d' & r & E & HS').
  pose proof (St_regs_len _ _ _ _ HS) as L0. pose proof (St_regs_len _ _ _ _ HS') as L1.
  unfold o in E. cbn [step] in E. rewrite Hh in E. cbn [wi_add_rrset w_iface].
  destruct (add_section_rrset (sec_of s) (hint_of h) owner ty cls (ttl_from ttl) rds None (d_w d)) as [[v w']|[e w']|];
    cbn [of_Mv] in E; inversion E; subst d' r; clear E.
  - unfold o in L1. cbn [gstep g_regs d_regs] in L1. rewrite app_nil_r in L1.
    pose proof (app_same_len _ _ _ L1 L0) as Hx.
    exists (mkD w' (d_regs d ++ match v with Some l => [l] | None => [] end)), (gstep d g o RUnit).
    split; [exact HS'|]. cbn [d_w d_regs]. rewrite Hx, app_nil_r. split; [reflexivity|]. split; [reflexivity|].
    unfold o. cbn [gstep g_regs g_q g_o g_r]. rewrite app_nil_r. split; [reflexivity|].
    split; [reflexivity|]. split; [destruct rds; reflexivity|reflexivity].
  - exists (mkD w' (d_regs d ++ [])), (gstep d g o (RErr e)). split; [exact HS'|]. cbn [d_w d_regs]. rewrite app_nil_r.
    split; [reflexivity|]. split; [reflexivity|]. unfold o. cbn [gstep g_regs g_q g_o g_r]. rewrite app_nil_r.
    repeat split; reflexivity.
Qed.

(* the vector an RRset operation hands back when the RDATA has no name component is the one it was given *)
Lemma wc_nil_v rd v w v' w' : write_components [] rd v w = Ok (v', w') -> v' = v.
Proof.
  cbn [write_components]. destruct (length rd =? 0); [intros H; inversion H; reflexivity|].
  destruct (try_push rd w) as [[u w1]|[e w1]|]; cbn [bind]; intros H; inversion H; reflexivity.
Qed.

Lemma add_rr_nil_v h owner ty cl ttl rd v w v' w' : component_types cl ty = [] ->
  add_rr h owner ty cl ttl rd v w = Ok (v', w') -> v' = v.
Proof.
  intros Hc. unfold add_rr. rewrite Hc.
  destruct (write_hinted_name h owner w) as [[pr w1]|[e w1]|]; cbn [bind]; try discriminate.
  destruct (try_push_u16 ty _) as [[u2 w2]|[e w2]|]; cbn [bind]; try discriminate.
  destruct (try_push_u16 cl _) as [[u3 w3]|[e w3]|]; cbn [bind]; try discriminate.
  destruct (try_push_u32 ttl _) as [[u4 w4]|[e w4]|]; cbn [bind]; try discriminate.
  destruct (w_avail w4 <? w_cursor w4); try discriminate.
  destruct (w_avail w4 - w_cursor w4 <? 2); try discriminate.
  destruct (write_components [] rd v _) as [[v1 w6]|[e w6]|] eqn:E; cbn [bind]; try discriminate.
  apply wc_nil_v in E. subst v1.
  destruct (w_cursor w6 <? _); try discriminate.
  destruct (lift _ w6) as [[w7 u7]|[e w7]|]; cbn [bind]; try discriminate.
  intros H. inversion H. reflexivity.
Qed.

Lemma rrset_loop_nil_v owner ty cl ttl : component_types cl ty = [] -> forall rds h v k w v' k' w',
  add_rrset_loop h owner ty cl ttl rds v k w = Ok ((v', k'), w') -> v' = v.
Proof.
  intros Hc. induction rds as [|rd rds IH]; intros h v k w v' k' w'; cbn [add_rrset_loop].
  - intros H. inversion H. reflexivity.
  - destruct (add_rr h owner ty cl ttl rd v w) as [[v1 w1]|[e w1]|] eqn:E; cbn [bind]; try discriminate.
    apply (add_rr_nil_v _ _ _ _ _ _ _ _ _ _ Hc) in E. subst v1. apply IH.
Qed.

Lemma section_rrset_nil_v s h owner ty cl ttl rds v w v' w' : component_types cl ty = [] ->
  add_section_rrset s h owner ty cl ttl rds v w = Ok (v', w') -> v' = v.
Proof.
  intros Hc. unfold add_section_rrset, with_rollback.
  destruct (change_section s w) as [[u w1]|[e w1]|]; cbn [bind]; try discriminate.
  destruct (add_rrset_loop h owner ty cl ttl rds v 0 w1) as [[[v1 k] w2]|[e w2]|] eqn:E; cbn [bind]; try discriminate.
  apply (rrset_loop_nil_v _ _ _ _ Hc) in E. subst v1.
  destruct (65535 <? N.of_nat k)%N; try discriminate.
  destruct (checked_add16 _ _); intros H; inversion H. reflexivity.
Qed.

(* add_rrset WITH a hint vector: the vector handed back is the new last register *)
Definition vec_issued (d' : dstate) (g' : gn) (r : nat) (v : hvec) (cts : list ctype) (rds : list bytes) : Prop :=
  nth_error (d_regs d') r = Some v /\ nth_error (g_regs g') r = Some (map Some (rds_names cts rds)) /\
  (cts = [] -> v = []).

Lemma St_add_rrset_vec d g s h hs owner ty cls ttl rds : St d0 g0 d g -> hint_agrees (d_regs d) h hs ->
  good_name owner -> Forall good_rd rds -> (ty < 65536)%N -> (cls < 65536)%N ->
  Pop (OAddRrset (sec_of s) hs owner ty cls ttl rds true) ->
  hs_contract (d_regs d) g hs owner ->
  match wi_add_rrset w_iface s h owner ty cls ttl rds true (d_w d) with
  | Ok (v, w') => exists d' g', St d0 g0 d' g' /\ d_w d' = w' /\
               (exists x, d_regs d' = d_regs d ++ [x]) /\ (exists x, g_regs g' = g_regs g ++ [x]) /\
               vec_issued d' g' (length (d_regs d)) v (component_types cls ty) rds /\
               ghost_rr_ok g g' owner (rds_names (component_types cls ty) rds) (match rds with [] => false | _ => true end)
  | Err (_, w') => exists d' g', St d0 g0 d' g' /\ d_w d' = w' /\
               (exists x, d_regs d' = d_regs d ++ [x]) /\ (exists x, g_regs g' = g_regs g ++ [x]) /\ ghost_same g g'
  | Panic => False
  end.
Proof.
  intros HS Hh [Hn1 Hn2] Hr Hty Hcl Hpop Hc. destruct (good_rds_split _ Hr) as [Hr1 Hr2].
  set (o := OAddRrset (sec_of s) hs owner ty cls ttl rds true).
  assert (Hok : op_ok o) by (split; [split; auto|split; [repeat split; auto|split; [exact I|exact Hpop]]]).
  assert (Hoc : op_contract d g o) by (intros _; exact Hc).
  destruct (St_step d0 g0 d g o HS Hok Hoc (stops_rrset _ _ _ _ _ _ _ _)) as (d' & r & E & HS').
  pose proof (St_regs_len _ _ _ _ HS) as L0. pose proof (St_regs_len _ _ _ _ HS') as L1.
  unfold o in E. cbn [step] in E. rewrite Hh in E. cbn [wi_add_rrset w_iface].
  destruct (add_section_rrset (sec_of s) (hint_of h) owner ty cls (ttl_from ttl) rds (Some []) (d_w d)) as [[v w']|[e w']|] eqn:EA;
    cbn [of_Mv] in E; inversion E; subst d' r; clear E.
  - unfold o in L1. cbn [gstep g_regs d_regs] in L1. rewrite !app_length in L1. cbn [length] in L1.
    destruct v as [l|]; [|cbn [length] in L1; lia].
    exists (mkD w' (d_regs d ++ [l])), (gstep d g o RUnit).
    split; [exact HS'|]. cbn [d_w d_regs]. split; [reflexivity|]. split; [eexists; reflexivity|].
    unfold o. cbn [gstep g_regs g_q g_o g_r]. split; [eexists; reflexivity|]. split.
    + unfold vec_issued. cbn [d_regs g_regs]. split; [|split].
      * rewrite nth_error_app2 by lia. rewrite Nat.sub_diag. reflexivity.
      * rewrite nth_error_app2 by lia. rewrite L0, Nat.sub_diag. reflexivity.
      * intros Hcts. apply (section_rrset_nil_v _ _ _ _ _ _ _ _ _ _ _ Hcts) in EA. inversion EA. reflexivity.
    + split; [reflexivity|]. split; [destruct rds; reflexivity|reflexivity].
  - exists (mkD w' (d_regs d ++ [[]])), (gstep d g o (RErr e)). split; [exact HS'|]. cbn [d_w d_regs].
    split; [reflexivity|]. split; [eexists; reflexivity|]. unfold o. cbn [gstep g_regs g_q g_o g_r].
    split; [eexists; reflexivity|]. repeat split; reflexivity.
Qed.

(* header setters and clear_rrs *)
Lemma St_set d g o : St d0 g0 d g -> op_ok o -> (forall r, stops o r = false) ->
  match o with OAddRr _ _ _ _ _ _ _ _ | OAddRrset _ _ _ _ _ _ _ _ => False | _ => True end ->
  exists d' r, step d o = Ok (d', r) /\ St d0 g0 d' (gstep d g o r).
Proof.
  intros HS Hok Hst Hno. apply St_step; auto. destruct o; try exact I; contradiction.
Qed.

Lemma w_modify_no_err w i f e : w_modify w i f <> Err e.
Proof. unfold w_modify, w_write. destruct (nth_error _ _); [|discriminate]. destruct (buf_write _ _ _); discriminate. Qed.

Lemma St_set_aa d g b : St d0 g0 d g -> Pop (OSetAa b) ->
  exists w', wi_set_aa w_iface b (d_w d) = Some w' /\ St d0 g0 (mkD w' (d_regs d)) g.
Proof.
  intros HS Hpop. destruct (St_set d g (OSetAa b) HS) as (d' & r & E & HS'); try (repeat split; auto; exact I); try reflexivity.
  cbn [step] in E. cbn [wi_set_aa w_iface].
  pose proof (w_modify_no_err (d_w d) AA_BYTE (set_bit AA_MASK b)) as NE.
  unfold set_aa, w_set_flag in *. destruct (w_modify (d_w d) AA_BYTE (set_bit AA_MASK b)) as [w'|e|]; cbn [of_R] in E; inversion E; subst.
  - exists w'. split; [reflexivity|]. exact HS'.
  - exfalso. eapply NE; reflexivity.
Qed.

Lemma St_set_tc d g b : St d0 g0 d g -> Pop (OSetTc b) ->
  exists w', wi_set_tc w_iface b (d_w d) = Some w' /\ St d0 g0 (mkD w' (d_regs d)) g.
Proof.
  intros HS Hpop. destruct (St_set d g (OSetTc b) HS) as (d' & r & E & HS'); try (repeat split; auto; exact I); try reflexivity.
  cbn [step] in E. cbn [wi_set_tc w_iface].
  pose proof (w_modify_no_err (d_w d) TC_BYTE (set_bit TC_MASK b)) as NE.
  unfold set_tc, w_set_flag in *. destruct (w_modify (d_w d) TC_BYTE (set_bit TC_MASK b)) as [w'|e|]; cbn [of_R] in E; inversion E; subst.
  - exists w'. split; [reflexivity|]. exact HS'.
  - exfalso. eapply NE; reflexivity.
Qed.

Lemma St_set_rcode d g rc : St d0 g0 d g -> (rc < 16)%N -> Pop (OSetRcode rc) ->
  exists w', wi_set_rcode w_iface rc (d_w d) = Some w' /\ St d0 g0 (mkD w' (d_regs d)) g.
Proof.
  intros HS Hrc Hpop. destruct (St_set d g (OSetRcode rc) HS) as (d' & r & E & HS'); try (repeat split; auto; exact I); try reflexivity.
  cbn [step] in E. cbn [wi_set_rcode w_iface]. unfold set_rcode in *.
  match type of E with context [w_modify ?a ?b ?c] => pose proof (w_modify_no_err a b c) as NE; destruct (w_modify a b c) as [w'|e|] end;
    cbn [bind of_R] in E; inversion E; subst.
  - eexists. split; [reflexivity|]. exact HS'.
  - exfalso. eapply NE; reflexivity.
Qed.

Lemma St_clear d g : St d0 g0 d g -> Pop OClearRrs ->
  St d0 g0 (mkD (wi_clear_rrs w_iface (d_w d)) (d_regs d)) (gstep d g OClearRrs RUnit).
Proof.
  intros HS Hpop. destruct (St_set d g OClearRrs HS) as (d' & r & E & HS'); try (repeat split; auto; exact I); try reflexivity.
  cbn [step] in E. inversion E; subst. exact HS'.
Qed.

End Ops.

End WithPop.
