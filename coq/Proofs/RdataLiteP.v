From QV Require Import Base.ListX Model.NameWire Model.Reader Model.RdataLite Proofs.NameWireP.
Local Open Scope nat_scope.

Lemma validate_option_no_panic o : validate_option o <> Panic.
Proof.
  unfold validate_option. destruct (nth_error o 2); [|discriminate]. destruct (nth_error o 3); [|discriminate].
  destruct (_ <=? _); discriminate.
Qed.

Lemma validate_opt_loop_no_panic f o off : validate_opt_loop f o off <> Panic.
Proof.
  revert off; induction f as [|f IH]; intros off; cbn [validate_opt_loop]; [discriminate|].
  destruct (off <? length o); [|discriminate].
  pose proof (validate_option_no_panic (skipn off o)).
  destruct (validate_option (skipn off o)); cbn [bind]; [apply IH|discriminate|congruence].
Qed.

(* the fuel S (length o) is never exhausted: each option consumes >= 4 octets *)
Lemma validate_opt_loop_fuel f o off : length o - off < f ->
  validate_opt_loop f o off = Err RdOther ->
  exists off', off <= off' /\ off' < length o /\ validate_option (skipn off' o) = Err RdOther.
Proof.
  revert off; induction f as [|f IH]; intros off Hf H; [lia|]. cbn [validate_opt_loop] in H.
  destruct (off <? length o) eqn:E; [|discriminate]. apply Nat.ltb_lt in E.
  destruct (validate_option (skipn off o)) as [n|e|] eqn:V; cbn [bind] in H.
  - assert (4 <= n).
    { unfold validate_option in V. destruct (nth_error _ 2); [|discriminate]. destruct (nth_error _ 3); [|discriminate].
      destruct (_ <=? _); inversion V. lia. }
    apply IH in H; [|lia]. destruct H as (off' & A & B & C). exists off'. repeat split; auto. lia.
  - inversion H; subst. exists off. auto.
  - discriminate.
Qed.

Lemma validate_as_tsig_no_panic o : validate_as_tsig o <> Panic.
Proof.
  unfold validate_as_tsig.
  pose proof (validate_agrees o false) as VA.
  destruct (parse_uncompressed_total o false) as [Hp _].
  rewrite VA. destruct (parse_uncompressed_name o false) as [[nm l]|e|]; cbn [map_ok snd]; [|discriminate|congruence].
  destruct (get16 o (l + 8)); [|discriminate].
  destruct (get16 o _); [|discriminate]. destruct (_ =? _); discriminate.
Qed.

Theorem rd_lite_total c t b cur l : rd_lite c t b cur l <> Panic.
Proof.
  unfold rd_lite, prepare_rdata. destruct (length b <? cur + N.to_nat l); cbn [bind]; [discriminate|].
  destruct (lite_unsupported c t); [discriminate|].
  destruct ((t =? TYPE_A)%N && (c =? CLASS_IN)%N); [destruct (_ =? 4); discriminate|].
  destruct ((t =? TYPE_AAAA)%N && (c =? CLASS_IN)%N); [destruct (_ =? 16); discriminate|].
  destruct (t =? TYPE_OPT)%N.
  { unfold validate_as_opt.
    pose proof (validate_opt_loop_no_panic (S (length (slice b cur (cur + N.to_nat l)))) (slice b cur (cur + N.to_nat l)) 0).
    destruct (validate_opt_loop _ _ 0); cbn [bind]; congruence || discriminate. }
  destruct (t =? TYPE_TSIG)%N.
  { pose proof (validate_as_tsig_no_panic (slice b cur (cur + N.to_nat l))).
    destruct (validate_as_tsig _); cbn [bind]; congruence || discriminate. }
  discriminate.
Qed.

Theorem rd_lite_bounds c t b cur l x : rd_lite c t b cur l = Ok x ->
  cur + N.to_nat l <= length b /\ x = slice b cur (cur + N.to_nat l).
Proof.
  unfold rd_lite, prepare_rdata. destruct (length b <? cur + N.to_nat l) eqn:E; cbn [bind]; [discriminate|].
  apply Nat.ltb_ge in E. intros H. split; [exact E|].
  destruct (lite_unsupported c t); [discriminate|].
  destruct ((t =? TYPE_A)%N && (c =? CLASS_IN)%N); [destruct (_ =? 4); inversion H; auto|].
  destruct ((t =? TYPE_AAAA)%N && (c =? CLASS_IN)%N); [destruct (_ =? 16); inversion H; auto|].
  destruct (t =? TYPE_OPT)%N; [destruct (validate_as_opt _); cbn [bind] in H; inversion H; auto|].
  destruct (t =? TYPE_TSIG)%N; [destruct (validate_as_tsig _); cbn [bind] in H; inversion H; auto|].
  inversion H; auto.
Qed.
