From QV Require Import Base.ListX Model.NameWire Model.Reader Model.RdataM Model.RdataFull
  Spec.RdataFormatS Proofs.RdataRP.

Theorem rd_full_total c t b cur l : rd_full c t b cur l <> Panic.
Proof.
  unfold rd_full. destruct (wf_bytesb b) eqn:W; cbn [andb]; [|discriminate].
  destruct (l <? 65536)%N eqn:L; [|discriminate].
  apply wf_bytesb_spec in W. apply N.ltb_lt in L.
  destruct (read_total c t b cur l W L) as (NP & _).
  destruct (RdataM.read c t b cur l) as [r|e|]; [discriminate| |congruence].
  destruct e; discriminate.
Qed.

Theorem rd_full_bounds c t b cur l x : rd_full c t b cur l = Ok x -> cur + N.to_nat l <= length b.
Proof.
  unfold rd_full. destruct (wf_bytesb b) eqn:W; cbn [andb]; [|discriminate].
  destruct (l <? 65536)%N eqn:L; [|discriminate].
  apply wf_bytesb_spec in W. apply N.ltb_lt in L.
  destruct (RdataM.read c t b cur l) as [r|e|] eqn:R; [| destruct e; discriminate | discriminate].
  intros _. apply (read_iff c t b cur l r W L) in R. exact (proj1 R).
Qed.
