(* The anchor invariant of C13 in a form that survives RDLENGTH back-patching and header writes.

   [S] is the (ghost) set of label starts of the names written so far.  [closed b lo c h S] says
   that S is closed under the decoding step and that every decoding step from a member of S reads
   only octets in [lo, c) outside the two-octet hole [h, h+2) -- the RDLENGTH field of the record
   being written (h >= c: no hole).  Decoding from a member of S therefore never looks at the
   header, at octets at or above c, or at the hole, and is unaffected by writes there. *)
From QV Require Import Base.ListX Model.MsgWriter Spec.NameWireS Proofs.NameWireP Proofs.MsgWriterP.

Local Open Scope nat_scope.

Definition okr (lo c h a e : nat) : Prop := lo <= a /\ e <= c /\ (e <= h \/ h + 2 <= a).

Definition ptr_step (b : bytes) (lo c h : nat) (S : nat -> Prop) (p : nat) : Prop :=
  exists hi l, nth_error b p = Some hi /\ is_pointer_octet hi = true /\ nth_error b (p + 1) = Some l /\
    okr lo c h p (p + 2) /\ ptr_target hi l < p /\ S (ptr_target hi l) /\ (hi < 256)%N.

Definition nextok (b : bytes) (lo c h : nat) (S : nat -> Prop) (p : nat) : Prop :=
  S p \/ ptr_step b lo c h S p.

Definition local_ok (b : bytes) (lo c h : nat) (S : nat -> Prop) (s : nat) : Prop :=
  exists x, nth_error b s = Some x /\ (x <= 63)%N /\ okr lo c h s (s + 1 + N.to_nat x) /\
            (x <> 0%N -> nextok b lo c h S (s + 1 + N.to_nat x)).

Definition closed (b : bytes) (lo c h : nat) (S : nat -> Prop) : Prop :=
  forall s, S s -> local_ok b lo c h S s.

Definition decodable (b : bytes) (c : nat) (S : nat -> Prop) : Prop :=
  forall s, S s -> exists ls, name_at b c s ls.

(* agreement of two buffers on the readable region *)
Definition ragree (lo c h : nat) (b b' : bytes) : Prop :=
  forall j, lo <= j -> j < c -> (j < h \/ h + 2 <= j) -> nth_error b' j = nth_error b j.

Lemma okr_mono lo c h a e c' : okr lo c h a e -> c <= c' -> okr lo c' h a e.
Proof. unfold okr. lia. Qed.

Lemma okr_rehole lo c h a e h2 : okr lo c h a e -> c <= h2 -> okr lo c h2 a e.
Proof. unfold okr. lia. Qed.

Lemma nextok_mono b lo c h (S S' : nat -> Prop) p c' : (forall s, S s -> S' s) -> c <= c' ->
  nextok b lo c h S p -> nextok b lo c' h S' p.
Proof.
  intros HS Hc [H|[hi [l [H1 [H2 [H3 [H4 [H5 [H6 H7]]]]]]]]]; [left; auto|right].
  exists hi, l. split; [auto|]. split; [auto|]. split; [auto|]. split; [eapply okr_mono; eauto|]. split; [auto|]. split; auto.
Qed.

Lemma local_mono b lo c h (S S' : nat -> Prop) s c' : (forall s, S s -> S' s) -> c <= c' ->
  local_ok b lo c h S s -> local_ok b lo c' h S' s.
Proof.
  intros HS Hc [x [H1 [H2 [H3 H4]]]]. exists x. split; [auto|]. split; [auto|]. split.
  - eapply okr_mono; eauto.
  - intros Hx. eapply nextok_mono; eauto.
Qed.

Lemma closed_mono_c b lo c h S c' : closed b lo c h S -> c <= c' -> closed b lo c' h S.
Proof. intros H Hc s Hs. eapply local_mono; eauto. Qed.

Lemma closed_rehole b lo c h S h2 : closed b lo c h S -> c <= h2 -> closed b lo c h2 S.
Proof.
  intros H Hc s Hs. destruct (H s Hs) as [x [H1 [H2 [H3 H4]]]]. exists x. split; [auto|]. split; [auto|]. split.
  - eapply okr_rehole; eauto.
  - intros Hx. destruct (H4 Hx) as [K|[hi [l [K1 [K2 [K3 [K4 [K5 [K6 K7]]]]]]]]]; [left; auto|right].
    exists hi, l. split; [auto|]. split; [auto|]. split; [auto|]. split; [eapply okr_rehole; eauto|]. split; [auto|]. split; auto.
Qed.

Lemma closed_equiv b lo c h (S S' : nat -> Prop) : (forall s, S s <-> S' s) -> closed b lo c h S ->
  closed b lo c h S'.
Proof.
  intros E H s Hs. apply E in Hs. eapply local_mono; [| |apply (H s Hs)]; auto. intros; apply E; auto.
Qed.

Lemma closed_real b lo c h S s : closed b lo c h S -> S s -> real_at b s.
Proof.
  intros H Hs. destruct (H s Hs) as [x [H1 [H2 _]]]. exists x. split; auto. apply small_not_pointer; auto.
Qed.

Lemma closed_bound b lo c h S s : closed b lo c h S -> S s -> lo <= s /\ s < c.
Proof. intros H Hs. destruct (H s Hs) as [x [_ [_ [[A [B _]] _]]]]. lia. Qed.

Lemma ragree_okr lo c h b b' a e j : ragree lo c h b b' -> okr lo c h a e -> a <= j -> j < e ->
  nth_error b' j = nth_error b j.
Proof. intros H [A [B C]] H1 H2. apply H; lia. Qed.

Lemma slice_ext (b b' : bytes) : forall n a, a + n <= length b ->
  (forall j, a <= j -> j < a + n -> nth_error b' j = nth_error b j) -> slice b' a (a + n) = slice b a (a + n).
Proof.
  induction n as [|n IH]; intros a Hle H.
  - rewrite Nat.add_0_r, !slice_nil. reflexivity.
  - destruct (nth_error b a) as [x|] eqn:E; [|apply nth_error_None in E; lia].
    rewrite (slice_cons b a x (a + S n) E) by lia.
    rewrite (slice_cons b' a x (a + S n)) by (try rewrite H; auto; lia).
    f_equal. replace (a + S n) with (S a + n) by lia. apply IH; auto; try lia.
    intros j J1 J2. apply H; lia.
Qed.

Lemma ragree_slice lo c h b b' a e : ragree lo c h b b' -> okr lo c h a e -> a <= e -> e <= length b ->
  slice b' a e = slice b a e.
Proof.
  intros R O Hae He. replace e with (a + (e - a)) by lia. apply slice_ext; [lia|].
  intros j J1 J2. eapply ragree_okr; eauto. lia.
Qed.

Lemma ptr_step_transfer b lo c h S b' p : ragree lo c h b b' -> ptr_step b lo c h S p -> ptr_step b' lo c h S p.
Proof.
  intros R [hi [l [K1 [K2 [K3 [K4 [K5 [K6 K7]]]]]]]]. exists hi, l. split; [|split; [auto|split; [|auto]]].
  - rewrite (ragree_okr _ _ _ _ _ _ _ p R K4); auto; lia.
  - rewrite (ragree_okr _ _ _ _ _ _ _ (p + 1) R K4); auto; lia.
Qed.

Lemma closed_transfer b lo c h S b' : closed b lo c h S -> ragree lo c h b b' -> closed b' lo c h S.
Proof.
  intros H R s Hs. destruct (H s Hs) as [x [H1 [H2 [H3 H4]]]]. exists x. split; [|split; [auto|split; [auto|]]].
  - rewrite (ragree_okr _ _ _ _ _ _ _ s R H3); auto; lia.
  - intros Hx. destruct (H4 Hx) as [K|K]; [left; auto|right]. eapply ptr_step_transfer; eauto.
Qed.

Lemma real_transfer b lo c h S b' s : closed b lo c h S -> ragree lo c h b b' -> S s -> real_at b' s.
Proof. intros H R Hs. eapply closed_real; [eapply closed_transfer; eauto|auto]. Qed.

(* decoding from a member of S is unaffected by writes outside the readable region *)
Lemma name_at_transfer b lo c h S b' c0 : closed b lo c h S -> ragree lo c h b b' ->
  forall i ls, name_at b c0 i ls -> nextok b lo c h S i -> name_at b' c0 i ls.
Proof.
  intros H R. induction 1 as [i Hi E|i len rest E H0 H63 Hc Hn IH|i hi l rest E Hp E2 Hc Ht Hr Hn IH];
    intros Hk.
  - destruct Hk as [Hs|[hi [l [K1 [K2 _]]]]].
    + destruct (H i Hs) as [x [X1 [X2 [X3 X4]]]]. rewrite E in X1. inversion X1; subst x.
      apply na_root; auto. rewrite (ragree_okr _ _ _ _ _ _ _ i R X3); auto; simpl; lia.
    + rewrite E in K1. inversion K1; subst hi. rewrite is_pointer_octet_0 in K2. discriminate.
  - destruct Hk as [Hs|[hi [l [K1 [K2 _]]]]].
    + destruct (H i Hs) as [x [X1 [X2 [X3 X4]]]]. rewrite E in X1. inversion X1; subst x.
      pose proof (name_at_lt _ _ _ _ Hn) as [_ Hlb].
      rewrite <- (ragree_slice lo c h b b' (i + 1) (i + 1 + N.to_nat len) R); try lia;
        [|unfold okr in *; lia].
      apply na_label; auto.
      * rewrite (ragree_okr _ _ _ _ _ _ _ i R X3); auto; lia.
      * apply IH. apply X4. lia.
    + rewrite E in K1. inversion K1; subst hi. rewrite (small_not_pointer len H63) in K2. discriminate.
  - destruct Hk as [Hs|[hi' [l' [K1 [K2 [K3 [K4 [K5 [K6 K7]]]]]]]]].
    + destruct (H i Hs) as [x [X1 [X2 _]]]. rewrite E in X1. inversion X1; subst x.
      rewrite (small_not_pointer hi X2) in Hp. discriminate.
    + rewrite E in K1. inversion K1; subst hi'. rewrite E2 in K3. inversion K3; subst l'.
      eapply na_ptr; eauto.
      * rewrite (ragree_okr _ _ _ _ _ _ _ i R K4); auto; lia.
      * rewrite (ragree_okr _ _ _ _ _ _ _ (i + 1) R K4); auto; lia.
      * eapply real_transfer; eauto.
      * apply IH. left; auto.
Qed.

Lemma decodable_transfer b lo c h S b' c0 : closed b lo c h S -> ragree lo c h b b' ->
  decodable b c0 S -> decodable b' c0 S.
Proof.
  intros H R D s Hs. destruct (D s Hs) as [ls Hn]. exists ls.
  eapply name_at_transfer; eauto. left; auto.
Qed.

Lemma decodable_mono b c S c' : decodable b c S -> c <= c' -> decodable b c' S.
Proof.
  intros D Hc s Hs. destruct (D s Hs) as [ls Hn]. exists ls.
  eapply name_at_stable; eauto. apply agree_refl.
Qed.

Lemma agree_ragree lo c h b b' : agree c b b' -> ragree lo c h b b'.
Proof. intros A j _ Hj _. eapply agree_nth; eauto. Qed.

Lemma ragree_refl lo c h b : ragree lo c h b b.
Proof. intros j _ _ _. reflexivity. Qed.

Lemma ragree_le lo c h b b' c' : ragree lo c h b b' -> c' <= c -> ragree lo c' h b b'.
Proof. intros H Hc j J1 J2 J3. apply H; auto; lia. Qed.

(* a buffer write entirely inside the header, the hole, or at/above c *)
Lemma buf_write_ragree lo c h b pos d b' : buf_write b pos d = Some b' ->
  (pos + length d <= lo \/ c <= pos \/ (h <= pos /\ pos + length d <= h + 2)) -> ragree lo c h b b'.
Proof.
  intros W Hd j J1 J2 J3. apply buf_write_inv in W as [W1 ->].
  destruct (Nat.lt_ge_cases j pos) as [Hlt|Hge].
  - rewrite nth_error_app1 by (rewrite firstn_length; lia). apply nth_error_firstn_lt; auto.
  - assert (pos + length d <= j) by lia.
    rewrite nth_error_app2 by (rewrite firstn_length; lia). rewrite firstn_length.
    rewrite nth_error_app2 by lia. rewrite nth_error_skipn. f_equal. lia.
Qed.

(* restriction of S to the part below a smaller bound that is itself closed *)
Lemma name_at_bound b c i ls : name_at b c i ls -> forall c', c <= c' -> name_at b c' i ls.
Proof. intros H c' Hc. eapply name_at_stable; eauto. apply agree_refl. Qed.

(* ---------------------------------------------------------------- a block of labels *)

Fixpoint lstarts (i : nat) (ls : list bytes) : list nat :=
  match ls with
  | [] => []
  | l :: r => i :: lstarts (i + 1 + length l) r
  end.

Lemma lstarts_bound ls : forall i s, In s (lstarts i ls) -> i <= s /\ s < i + length (nm_lwire ls).
Proof.
  induction ls as [|l r IH]; intros i s; simpl; [tauto|].
  rewrite app_length. intros [<-|H]; [lia|]. apply IH in H. lia.
Qed.

(* ---------------------------------------------------------------- the RFC 1035 decoding relation *)

Lemma land63' h : (h < 64)%N -> N.land (192 + h) 63 = h.
Proof.
  intros H. change 63%N with (N.ones 6). rewrite N.land_ones. change (2 ^ 6)%N with 64%N.
  symmetry. apply (N.mod_unique _ _ 3%N); lia.
Qed.

Lemma spec_target hi l : is_pointer_octet hi = true -> (hi < 256)%N ->
  (192 <= hi)%N /\ N.to_nat ((hi - 192) * 256 + l) = ptr_target hi l.
Proof.
  intros Hp Hlt. rewrite is_pointer_octet_spec in Hp by exact Hlt. apply N.leb_le in Hp.
  split; auto. unfold ptr_target. f_equal. f_equal. f_equal.
  replace hi with (192 + (hi - 192))%N at 2 by lia. rewrite land63'; lia.
Qed.

Lemma name_at_fun b c i ls1 : name_at b c i ls1 -> forall c' ls2, name_at b c' i ls2 -> ls1 = ls2.
Proof.
  induction 1 as [i Hi E|i len rest E H0 H63 Hc Hn IH|i hi l rest E Hp E2 Hc Ht Hr Hn IH];
    intros c' ls2 H2.
  - inversion H2; subst; auto.
    + rewrite E in H. inversion H; subst. lia.
    + rewrite E in H. inversion H; subst. rewrite is_pointer_octet_0 in H0. discriminate.
  - inversion H2; subst.
    + rewrite E in H1. inversion H1; subst. lia.
    + rewrite E in H. inversion H; subst. f_equal. eapply IH; eauto.
    + rewrite E in H. inversion H; subst. rewrite (small_not_pointer _ H63) in H1. discriminate.
  - inversion H2; subst.
    + rewrite E in H0. inversion H0; subst. rewrite is_pointer_octet_0 in Hp. discriminate.
    + rewrite E in H. inversion H; subst. rewrite (small_not_pointer _ H1) in Hp. discriminate.
    + rewrite E in H. inversion H; subst. rewrite E2 in H1. inversion H1; subst. eapply IH; eauto.
Qed.

(* every member decodes under the specification's relation too (pointers lead strictly before
   the start of the label sequence that contains them), to the same labels *)
Definition sdec (b : bytes) (c : nat) (S : nat -> Prop) : Prop :=
  forall s, S s -> exists ls e, name_at b c s ls /\ decodes b s s ls e.

Lemma decodes_cs_mono b cs i ls e : decodes b cs i ls e -> forall cs', cs <= cs' -> decodes b cs' i ls e.
Proof.
  induction 1 as [cs i H | cs i len rest e H Hp Hl Hb Hd IH | cs i hi lo rest e' H Hh Hlo Ht Hd IH];
    intros cs' Hc.
  - constructor; auto.
  - constructor; auto.
  - eapply dec_ptr; eauto. lia.
Qed.

Lemma decodes_transfer b lo c h S b' : closed b lo c h S -> ragree lo c h b b' -> c <= length b' ->
  forall cs i ls e, decodes b cs i ls e -> nextok b lo c h S i -> decodes b' cs i ls e.
Proof.
  intros H R Hlen.
  induction 1 as [cs i E | cs i len rest e E Hp Hl Hb Hd IH | cs i hi l rest e' E Hh Hlo Ht Hd IH];
    intros Hk.
  - destruct Hk as [Hs|[hi [l [K1 [K2 _]]]]].
    + destruct (H i Hs) as [x [X1 [X2 [X3 X4]]]]. rewrite E in X1. inversion X1; subst x.
      constructor. rewrite (ragree_okr _ _ _ _ _ _ _ i R X3); auto; simpl; lia.
    + rewrite E in K1. inversion K1; subst hi. rewrite is_pointer_octet_0 in K2. discriminate.
  - destruct Hk as [Hs|[hi [l [K1 [K2 _]]]]].
    + destruct (H i Hs) as [x [X1 [X2 [X3 X4]]]]. rewrite E in X1. inversion X1; subst x.
      rewrite <- (ragree_slice lo c h b b' (i + 1) (i + 1 + N.to_nat len) R); try lia;
        [|unfold okr in *; lia].
      apply dec_label; auto.
      * rewrite (ragree_okr _ _ _ _ _ _ _ i R X3); auto; lia.
      * unfold okr in X3. lia.
      * apply IH. apply X4. lia.
    + rewrite E in K1. inversion K1; subst hi. rewrite (small_not_pointer len Hl) in K2. discriminate.
  - destruct Hk as [Hs|[hi' [l' [K1 [K2 [K3 [K4 [K5 [K6 K7]]]]]]]]].
    + destruct (H i Hs) as [x [X1 [X2 _]]]. rewrite E in X1. inversion X1; subst x. lia.
    + rewrite E in K1. inversion K1; subst hi'. rewrite Hlo in K3. inversion K3; subst l'.
      destruct (spec_target hi l K2 K7) as [_ Et].
      eapply dec_ptr; eauto.
      * rewrite (ragree_okr _ _ _ _ _ _ _ i R K4); auto; lia.
      * rewrite (ragree_okr _ _ _ _ _ _ _ (i + 1) R K4); auto; lia.
      * apply IH. left. rewrite Et. exact K6.
Qed.

Lemma sdec_transfer b lo c h S b' c0 : closed b lo c h S -> ragree lo c h b b' -> c <= length b' ->
  sdec b c0 S -> sdec b' c0 S.
Proof.
  intros H R Hl D s Hs. destruct (D s Hs) as [ls [e [Hn Hd]]]. exists ls, e. split.
  - eapply name_at_transfer; eauto. left; auto.
  - eapply decodes_transfer; eauto. left; auto.
Qed.

Lemma sdec_mono b c S c' : sdec b c S -> c <= c' -> sdec b c' S.
Proof.
  intros D Hc s Hs. destruct (D s Hs) as [ls [e [Hn Hd]]]. exists ls, e. split; auto.
  eapply name_at_stable; eauto. apply agree_refl.
Qed.

Lemma sdec_decodable b c S : sdec b c S -> decodable b c S.
Proof. intros D s Hs. destruct (D s Hs) as [ls [e [Hn _]]]. eauto. Qed.
