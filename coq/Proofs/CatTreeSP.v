(* C22, spec-internal proofs: the executable list-based reference map of
   Spec/CatTreeS.v implements the function-level specification (so it can serve as
   the oracle), and the specification determines its answers. *)
From QV Require Import Spec.CatTreeS.
From Coq Require Import Permutation.

Lemma canon_length (p : sname) : length (canon p) = length p.
Proof. unfold canon. apply map_length. Qed.

Lemma is_suffixb_spec p q : is_suffixb p q = true <-> is_suffix p q.
Proof.
  unfold is_suffixb, is_suffix. split.
  - intros H. apply andb_true_iff in H. destruct H as [H1 H2].
    destruct (sname_eq_dec (skipn (length q - length p) q) p) as [E|E]; [|discriminate].
    exists (firstn (length q - length p) q). rewrite <- E at 2. symmetry. apply firstn_skipn.
  - intros [pre Hq]. subst q. rewrite app_length. apply andb_true_iff. split.
    + apply Nat.leb_le. lia.
    + replace (length pre + length p - length p) with (length pre + 0) by lia.
      rewrite skipn_app, Nat.add_0_r, skipn_all. simpl.
      replace (length pre - length pre) with 0 by lia. simpl.
      destruct (sname_eq_dec p p); congruence.
Qed.

Lemma is_suffix_length p q : is_suffix p q -> length p <= length q.
Proof. intros [pre H]. subst. rewrite app_length. lia. Qed.

Lemma is_suffix_same_length p p' q : is_suffix p q -> is_suffix p' q -> length p = length p' -> p = p'.
Proof.
  intros [a Ha] [b Hb] Hl. subst q.
  assert (length a = length b).
  { apply (f_equal (@length _)) in Hb. rewrite !app_length in Hb. lia. }
  apply app_inv_head with (l := a). rewrite Hb. f_equal.
  revert b Hb H. clear Hl. induction a as [|x a IH]; intros [|y b] Hb Hlen; simpl in *; try discriminate; auto.
  inversion Hb; subst. f_equal. apply IH; auto.
Qed.

Section SP.
Variable E : Type.
Variable ename : E -> sname.
Variable eclass : E -> N.
Notation key_of := (key_of ename eclass).
Notation l_get := (l_get ename eclass).
Notation l_insert := (l_insert ename eclass).
Notation l_remove := (l_remove ename eclass).
Notation l_lookup := (l_lookup ename eclass).
Notation has_key := (has_key ename eclass).
Notation rm_insert := (rm_insert ename eclass).
Notation rm_is_iter := (rm_is_iter ename eclass).
Notation rm_consistent := (rm_consistent ename eclass).

Definition lm_ok (m : lmap E) : Prop := NoDup (map key_of m).
Definition view (m : lmap E) : refmap E := l_get m.

Lemma has_key_true k e : has_key k e = true <-> key_of e = k.
Proof. unfold CatTreeS.has_key. destruct (skey_eq_dec (key_of e) k); split; congruence. Qed.

Lemma has_key_false k e : has_key k e = false <-> key_of e <> k.
Proof. unfold CatTreeS.has_key. destruct (skey_eq_dec (key_of e) k); split; congruence. Qed.

Lemma view_some m k e : view m k = Some e -> In e m /\ key_of e = k.
Proof.
  unfold view, CatTreeS.l_get. intros H. apply find_some in H. destruct H as [H1 H2].
  split; [exact H1|]. apply has_key_true. exact H2.
Qed.

Lemma view_consistent m : rm_consistent (view m).
Proof. intros k e H. apply view_some in H. tauto. Qed.

Lemma view_in m e : lm_ok m -> In e m -> view m (key_of e) = Some e.
Proof.
  unfold lm_ok, view, CatTreeS.l_get. induction m as [|x m IH]; simpl; intros Hnd Hin; [tauto|].
  inversion Hnd as [|? ? Hx Hm]; subst.
  destruct (has_key (key_of e) x) eqn:Hk.
  - apply has_key_true in Hk. destruct Hin as [Hin|Hin]; [congruence|].
    exfalso. apply Hx. rewrite Hk. apply in_map. exact Hin.
  - destruct Hin as [Hin|Hin].
    + subst x. apply has_key_false in Hk. congruence.
    + apply IH; assumption.
Qed.

Lemma view_none m k : view m k = None <-> forall e, In e m -> key_of e <> k.
Proof.
  unfold view, CatTreeS.l_get. split.
  - intros H e Hin. apply has_key_false. eapply find_none; eauto.
  - intros H. induction m as [|x m IH]; simpl; auto.
    destruct (has_key k x) eqn:Hk.
    + apply has_key_true in Hk. exfalso. apply (H x); simpl; auto.
    + apply IH. intros e Hin. apply H. simpl; auto.
Qed.

Lemma filter_keys_incl (f : E -> bool) m x : In x (map key_of (filter f m)) -> In x (map key_of m).
Proof.
  rewrite !in_map_iff. intros [e [He Hin]]. apply filter_In in Hin. exists e. tauto.
Qed.

Lemma lm_ok_filter (f : E -> bool) m : lm_ok m -> lm_ok (filter f m).
Proof.
  unfold lm_ok. induction m as [|x m IH]; simpl; intros Hnd; auto.
  inversion Hnd as [|? ? Hx Hm]; subst.
  destruct (f x); simpl; auto. constructor; auto.
  intros Hin. apply Hx. eapply filter_keys_incl. exact Hin.
Qed.

Lemma view_filter_other m k0 k : k <> k0 ->
  view (filter (fun x => negb (has_key k0 x)) m) k = view m k.
Proof.
  intros Hne. unfold view, CatTreeS.l_get. induction m as [|x m IH]; simpl; auto.
  destruct (has_key k0 x) eqn:H0; simpl.
  - apply has_key_true in H0. destruct (has_key k x) eqn:H1; auto.
    apply has_key_true in H1. congruence.
  - rewrite IH. reflexivity.
Qed.

Lemma view_filter_same m k0 : view (filter (fun x => negb (has_key k0 x)) m) k0 = None.
Proof.
  apply view_none. intros e Hin. apply filter_In in Hin. destruct Hin as [_ H].
  apply negb_true_iff in H. apply has_key_false. exact H.
Qed.

Lemma l_insert_spec m e : lm_ok m ->
  lm_ok (fst (l_insert m e)) /\ snd (l_insert m e) = view m (key_of e) /\
  forall k, view (fst (l_insert m e)) k = rm_insert (view m) e k.
Proof.
  intros Hok. unfold CatTreeS.l_insert. simpl. split; [|split; [reflexivity|]].
  - unfold lm_ok. simpl. constructor.
    + intros Hin. apply in_map_iff in Hin. destruct Hin as [x [Hx Hin]].
      apply filter_In in Hin. destruct Hin as [_ H]. apply negb_true_iff in H.
      apply has_key_false in H. congruence.
    + apply lm_ok_filter. exact Hok.
  - intros k. unfold CatTreeS.rm_insert. unfold view at 1. unfold CatTreeS.l_get. simpl.
    destruct (skey_eq_dec k (key_of e)) as [Ek|Ek].
    + assert (H : has_key k e = true) by (apply has_key_true; congruence). rewrite H. reflexivity.
    + assert (H : has_key k e = false) by (apply has_key_false; congruence). rewrite H.
      apply view_filter_other. exact Ek.
Qed.

Lemma l_remove_spec m k0 : lm_ok m ->
  lm_ok (fst (l_remove m k0)) /\ snd (l_remove m k0) = view m k0 /\
  forall k, view (fst (l_remove m k0)) k = rm_remove (view m) k0 k.
Proof.
  intros Hok. unfold CatTreeS.l_remove. simpl. split; [|split; [reflexivity|]].
  - apply lm_ok_filter. exact Hok.
  - intros k. unfold rm_remove. destruct (skey_eq_dec k k0) as [Ek|Ek].
    + subst. apply view_filter_same.
    + apply view_filter_other. exact Ek.
Qed.

(* ---- lookup ------------------------------------------------------------------------ *)

Definition cand (cls : N) (q : sname) (e : E) : Prop :=
  eclass e = cls /\ is_suffix (canon (ename e)) q.

Lemma l_lookup_fold cls q : forall m acc,
  (forall b, acc = Some b -> cand cls q b) ->
  match fold_left (fun best e =>
           if (eclass e =? cls)%N && is_suffixb (canon (ename e)) q then better ename best e else best)
         m acc with
  | Some e => cand cls q e /\ (In e m \/ acc = Some e) /\
              forall e', In e' m \/ acc = Some e' -> cand cls q e' -> length (ename e') <= length (ename e)
  | None => acc = None /\ forall e', In e' m -> ~ cand cls q e'
  end.
Proof.
  induction m as [|x m IH]; intros acc Hacc; simpl.
  - destruct acc as [b|].
    + split; [auto|]. split; [auto|]. intros e' [[]|H] _. inversion H; subst. lia.
    + split; [reflexivity|]. tauto.
  - set (t := (eclass x =? cls)%N && is_suffixb (canon (ename x)) q).
    assert (Ht : t = true <-> cand cls q x).
    { unfold t, cand. rewrite andb_true_iff, N.eqb_eq, is_suffixb_spec. tauto. }
    destruct t eqn:Et.
    + assert (Hx : cand cls q x) by (apply Ht; reflexivity).
      set (acc' := better ename acc x).
      assert (Hacc' : forall b, acc' = Some b -> cand cls q b).
      { intros b Hb. unfold acc', better in Hb. destruct acc as [b0|].
        - destruct (length (ename b0) <? length (ename x)); inversion Hb; subst; auto.
        - inversion Hb; subst; auto. }
      specialize (IH acc' Hacc').
      destruct (fold_left _ m acc') as [e|].
      * destruct IH as [Hc [Hin Hmax]]. split; [exact Hc|]. split.
        -- destruct Hin as [Hin|Hin]; [left; right; exact Hin|].
           unfold acc', better in Hin. destruct acc as [b0|].
           ++ destruct (length (ename b0) <? length (ename x)); inversion Hin; subst; auto.
           ++ inversion Hin; subst; auto.
        -- intros e' He' Hc'.
           assert (Hbest : forall y, acc' = Some y -> length (ename y) <= length (ename e)).
           { intros y Hy. apply Hmax; auto. }
           destruct He' as [[He'|He']|He'].
           ++ subst e'. unfold acc', better in Hbest. destruct acc as [b0|].
              ** destruct (length (ename b0) <? length (ename x)) eqn:El.
                 --- apply Hbest. reflexivity.
                 --- apply Nat.ltb_ge in El. specialize (Hbest b0 eq_refl). lia.
              ** apply Hbest. reflexivity.
           ++ apply Hmax; auto.
           ++ subst acc. unfold acc', better in Hbest.
              destruct (length (ename e') <? length (ename x)) eqn:El.
              ** apply Nat.ltb_lt in El. specialize (Hbest x eq_refl). lia.
              ** apply Hbest. reflexivity.
      * destruct IH as [Hnone _]. unfold acc', better in Hnone. destruct acc as [b0|].
        -- destruct (length (ename b0) <? length (ename x)); discriminate.
        -- discriminate.
    + assert (Hx : ~ cand cls q x) by (intros H; apply Ht in H; discriminate).
      specialize (IH acc Hacc).
      destruct (fold_left _ m acc) as [e|].
      * destruct IH as [Hc [Hin Hmax]]. split; [exact Hc|]. split; [tauto|].
        intros e' He' Hc'. destruct He' as [[He'|He']|He'].
        -- subst. tauto.
        -- apply Hmax; auto.
        -- apply Hmax; auto.
      * destruct IH as [Hnone Hall]. split; [exact Hnone|].
        intros e' [He'|He']; [subst; exact Hx|apply Hall; exact He'].
Qed.

Lemma l_lookup_spec m cls q : lm_ok m -> rm_is_lookup (view m) cls q (l_lookup m cls q).
Proof.
  intros Hok. unfold CatTreeS.l_lookup.
  pose proof (l_lookup_fold cls q m None) as H.
  destruct (fold_left _ m None) as [e|].
  - destruct H as [[Hc Hs] [Hin Hmax]]; [discriminate|].
    destruct Hin as [Hin|Hin]; [|discriminate].
    simpl. exists (canon (ename e)). split; [|split; [exact Hs|]].
    + rewrite <- Hc. apply (view_in m e Hok Hin).
    + intros p' e' Hv Hsuf. apply view_some in Hv. destruct Hv as [Hin' Hk].
      unfold CatTreeS.key_of in Hk. injection Hk as Hk1 Hk2. subst p'.
      rewrite !canon_length. apply Hmax; [left; exact Hin'|]. split; [exact Hk1|exact Hsuf].
  - destruct H as [_ Hall]; [discriminate|]. simpl. intros p e' Hv Hsuf.
    apply view_some in Hv. destruct Hv as [Hin' Hk]. unfold CatTreeS.key_of in Hk.
    injection Hk as Hk1 Hk2. subst p.
    apply (Hall e' Hin'). split; [exact Hk1|exact Hsuf].
Qed.

(* the specification determines the answer *)
Lemma rm_is_lookup_fun (m : refmap E) cls q r1 r2 : rm_consistent m ->
  rm_is_lookup m cls q r1 -> rm_is_lookup m cls q r2 -> r1 = r2.
Proof.
  intros Hc H1 H2. destruct r1 as [e1|], r2 as [e2|]; simpl in *; auto.
  - destruct H1 as [p1 [Hm1 [Hs1 Hmax1]]]. destruct H2 as [p2 [Hm2 [Hs2 Hmax2]]].
    assert (p1 = p2).
    { apply (is_suffix_same_length p1 p2 q); auto.
      pose proof (Hmax1 _ _ Hm2 Hs2). pose proof (Hmax2 _ _ Hm1 Hs1). lia. }
    subst. congruence.
  - destruct H1 as [p1 [Hm1 [Hs1 _]]]. exfalso. eapply H2; eauto.
  - destruct H2 as [p2 [Hm2 [Hs2 _]]]. exfalso. eapply H1; eauto.
Qed.

Lemma rm_is_lookup_ext (m1 m2 : refmap E) cls q r : (forall k, m1 k = m2 k) ->
  rm_is_lookup m1 cls q r -> rm_is_lookup m2 cls q r.
Proof.
  intros Hext H. destruct r as [e|]; simpl in *.
  - destruct H as [p [Hm [Hs Hmax]]]. exists p. rewrite <- Hext. split; [exact Hm|]. split; [exact Hs|].
    intros p' e'. rewrite <- Hext. apply Hmax.
  - intros p e'. rewrite <- Hext. apply H.
Qed.

(* ---- iteration ----------------------------------------------------------------------- *)

Lemma l_iter_spec m : lm_ok m -> rm_is_iter (view m) m.
Proof.
  intros Hok. split; [exact Hok|]. intros e. split.
  - intros Hin. exists (key_of e). apply view_in; assumption.
  - intros [k Hk]. apply view_some in Hk. tauto.
Qed.

Lemma NoDup_map_inv' {A B} (f : A -> B) l : NoDup (map f l) -> NoDup l.
Proof.
  induction l as [|x l IH]; simpl; intros H; constructor; inversion H; subst; auto.
  intros Hin. apply H2. apply in_map. exact Hin.
Qed.

Lemma rm_is_iter_perm (m1 m2 : refmap E) l1 l2 : (forall k, m1 k = m2 k) ->
  rm_is_iter m1 l1 -> rm_is_iter m2 l2 -> Permutation l1 l2.
Proof.
  intros Hext [Hn1 H1] [Hn2 H2]. apply NoDup_Permutation.
  - eapply NoDup_map_inv'. exact Hn1.
  - eapply NoDup_map_inv'. exact Hn2.
  - intros e. rewrite H1, H2. split; intros [k Hk]; exists k; congruence.
Qed.

End SP.

Arguments lm_ok {E}.
Arguments view {E}.
