(* Lemmas about the integer encodings and slicing helpers of Model/TsigMsg.v and Spec/Tsig8945S.v. *)
From QV Require Import Base.ListX Model.TsigMsg Spec.Tsig8945S.

(* ---- be_enc / be_dec ---------------------------------------------------------------- *)

Lemma be_enc_length w : forall n, length (be_enc w n) = w.
Proof. induction w as [|w IH]; intros n; simpl; [reflexivity|]. rewrite app_length, IH. simpl. lia. Qed.

Lemma be_enc_wf w : forall n, wf_bytes (be_enc w n).
Proof.
  induction w as [|w IH]; intros n; simpl; [constructor|].
  apply Forall_app. split; [apply IH|]. constructor; [|constructor].
  unfold is_octet. apply N.mod_lt. lia.
Qed.

Lemma be_dec_app l x : be_dec (l ++ [x]) = (be_dec l * 256 + x)%N.
Proof. unfold be_dec. rewrite fold_left_app. reflexivity. Qed.

Lemma be_dec_enc w : forall n, be_dec (be_enc w n) = (n mod 256 ^ N.of_nat w)%N.
Proof.
  induction w as [|w IH]; intros n.
  - simpl. rewrite N.mod_1_r. reflexivity.
  - cbn [be_enc]. rewrite be_dec_app, IH.
    rewrite Nat2N.inj_succ, N.pow_succ_r by lia.
    rewrite (N.mod_mul_r n 256 (256 ^ N.of_nat w)) by (try lia; apply N.pow_nonzero; lia).
    lia.
Qed.

Lemma be_dec_enc_small w n : (n < 256 ^ N.of_nat w)%N -> be_dec (be_enc w n) = n.
Proof. intros H. rewrite be_dec_enc. apply N.mod_small. exact H. Qed.

Lemma be_enc_inj w a b : (a < 256 ^ N.of_nat w)%N -> (b < 256 ^ N.of_nat w)%N ->
  be_enc w a = be_enc w b -> a = b.
Proof. intros Ha Hb H. rewrite <- (be_dec_enc_small w a Ha), <- (be_dec_enc_small w b Hb), H. reflexivity. Qed.

Lemma be_dec_bound l : wf_bytes l -> (be_dec l < 256 ^ N.of_nat (length l))%N.
Proof.
  induction l as [|x l IH] using rev_ind; intros H.
  - vm_compute. reflexivity.
  - apply Forall_app in H. destruct H as [Hl Hx]. inversion Hx as [|? ? Hx' _]; subst.
    rewrite be_dec_app, app_length. simpl length. rewrite Nat.add_1_r, Nat2N.inj_succ, N.pow_succ_r by lia.
    specialize (IH Hl). unfold is_octet in Hx'. lia.
Qed.

Lemma be_enc_dec l : wf_bytes l -> be_enc (length l) (be_dec l) = l.
Proof.
  induction l as [|x l IH] using rev_ind; intros H; [reflexivity|].
  apply Forall_app in H. destruct H as [Hl Hx]. inversion Hx as [|? ? Hx' _]; subst.
  rewrite app_length. simpl length. rewrite Nat.add_1_r. cbn [be_enc].
  rewrite be_dec_app. unfold is_octet in Hx'.
  assert (Hd : ((be_dec l * 256 + x) / 256 = be_dec l)%N).
  { rewrite N.div_add_l by lia. rewrite (N.div_small x 256) by lia. lia. }
  assert (Hm : ((be_dec l * 256 + x) mod 256 = x)%N).
  { rewrite N.add_comm, N.mod_add by lia. apply N.mod_small. lia. }
  rewrite Hd, Hm.
  rewrite IH by exact Hl. reflexivity.
Qed.

(* the model's explicit encoders are the spec's *)
Lemma be16_u16 n : be16 n = u16 n.
Proof. reflexivity. Qed.

Lemma be32_u32 n : be32 n = u32 n.
Proof.
  unfold be32, u32. cbn [be_enc app].
  rewrite !N.div_div by lia. reflexivity.
Qed.

Lemma be48_u48 n : be48 n = u48 n.
Proof.
  unfold be48, u48. cbn [be_enc app].
  rewrite !N.div_div by lia. reflexivity.
Qed.

Lemma be_dec_u16 n : (n < 65536)%N -> be_dec (u16 n) = n.
Proof. intros H. apply (be_dec_enc_small 2). exact H. Qed.

Lemma be_dec_u48 n : (n < 281474976710656)%N -> be_dec (u48 n) = n.
Proof. intros H. apply (be_dec_enc_small 6). exact H. Qed.

Lemma u16_inj a b : (a < 65536)%N -> (b < 65536)%N -> u16 a = u16 b -> a = b.
Proof. apply (be_enc_inj 2). Qed.

Lemma u48_inj a b : (a < 281474976710656)%N -> (b < 281474976710656)%N -> u48 a = u48 b -> a = b.
Proof. apply (be_enc_inj 6). Qed.

Lemma len_u16_small l : (N.of_nat (length l) < 65536)%N -> len_u16 l = N.of_nat (length l).
Proof. intros H. unfold len_u16. apply N.mod_small. exact H. Qed.

(* ---- get_range / get_from / get_u16 ----------------------------------------------------- *)

Lemma get_range_app (pre mid post : bytes) a b :
  a = length pre -> b = a + length mid -> get_range (pre ++ mid ++ post) a b = Some mid.
Proof.
  intros -> ->. unfold get_range.
  assert (H1 : (length pre <=? length pre + length mid) = true) by (apply Nat.leb_le; lia).
  assert (H2 : (length pre + length mid <=? length (pre ++ mid ++ post)) = true)
    by (apply Nat.leb_le; rewrite !app_length; lia).
  rewrite H1, H2. simpl. f_equal. unfold slice.
  rewrite skipn_app, skipn_all, Nat.sub_diag. simpl.
  replace (length pre + length mid - length pre) with (length mid) by lia.
  rewrite firstn_app, firstn_all, Nat.sub_diag. simpl. apply app_nil_r.
Qed.

Lemma get_from_app (pre post : bytes) a : a = length pre -> get_from (pre ++ post) a = Some post.
Proof.
  intros ->. unfold get_from.
  assert (H : (length pre <=? length (pre ++ post)) = true) by (apply Nat.leb_le; rewrite app_length; lia).
  rewrite H. f_equal. rewrite skipn_app, skipn_all, Nat.sub_diag. reflexivity.
Qed.

Lemma get_u16_app (pre post : bytes) n a :
  a = length pre -> (n < 65536)%N -> get_u16 (pre ++ u16 n ++ post) a = Some n.
Proof.
  intros Ha Hn. unfold get_u16.
  rewrite (get_range_app pre (u16 n) post a (a + 2) Ha) by (rewrite (be_enc_length 2); reflexivity).
  rewrite be_dec_u16 by exact Hn. reflexivity.
Qed.

Lemma get_range_Some l a b s : get_range l a b = Some s -> a <= b /\ b <= length l /\ s = slice l a b.
Proof.
  unfold get_range. destruct (a <=? b) eqn:E1; simpl; [|discriminate].
  destruct (b <=? length l) eqn:E2; [|discriminate].
  intros H. inversion H. apply Nat.leb_le in E1. apply Nat.leb_le in E2. auto.
Qed.

Lemma get_range_ok l a b : a <= b -> b <= length l -> get_range l a b = Some (slice l a b).
Proof.
  intros H1 H2. unfold get_range.
  apply Nat.leb_le in H1. apply Nat.leb_le in H2. rewrite H1, H2. reflexivity.
Qed.

Lemma get_u16_ok l a : a + 2 <= length l -> exists n, get_u16 l a = Some n.
Proof. intros H. unfold get_u16. rewrite get_range_ok by lia. eauto. Qed.

Lemma get_u16_Some l a n : get_u16 l a = Some n -> a + 2 <= length l.
Proof.
  unfold get_u16. destruct (get_range l a (a + 2)) eqn:E; [|discriminate].
  apply get_range_Some in E. lia.
Qed.

Lemma get_from_ok l a : a <= length l -> get_from l a = Some (skipn a l).
Proof. intros H. unfold get_from. apply Nat.leb_le in H. rewrite H. reflexivity. Qed.

(* ---- bytes_eqb ---------------------------------------------------------------------------- *)

Lemma bytes_eqb_eq a : forall b, bytes_eqb a b = true <-> a = b.
Proof.
  induction a as [|x a IH]; intros [|y b]; simpl; split; intros H; try reflexivity; try discriminate.
  - apply andb_true_iff in H. destruct H as [H1 H2]. apply N.eqb_eq in H1. apply IH in H2. subst. reflexivity.
  - inversion H; subst. rewrite N.eqb_refl. simpl. apply IH. reflexivity.
Qed.

Lemma octets_eqb_eq a : forall b, octets_eqb a b = true <-> a = b.
Proof.
  induction a as [|x a IH]; intros [|y b]; simpl; split; intros H; try reflexivity; try discriminate.
  - apply andb_true_iff in H. destruct H as [H1 H2]. apply N.eqb_eq in H1. apply IH in H2. subst. reflexivity.
  - inversion H; subst. rewrite N.eqb_refl. simpl. apply IH. reflexivity.
Qed.

Lemma bytes_octets_eqb a b : bytes_eqb a b = octets_eqb b a.
Proof.
  destruct (bytes_eqb a b) eqn:E1; destruct (octets_eqb b a) eqn:E2; try reflexivity.
  - apply bytes_eqb_eq in E1. subst. assert (H : octets_eqb b b = true) by (apply octets_eqb_eq; reflexivity). congruence.
  - apply octets_eqb_eq in E2. subst. assert (H : bytes_eqb a a = true) by (apply bytes_eqb_eq; reflexivity). congruence.
Qed.

(* ---- lower / names ------------------------------------------------------------------------ *)

Lemma map_lower_idem l : map lower (map lower l) = map lower l.
Proof. rewrite map_map. apply map_ext. intros. apply lower_idem. Qed.

Lemma lower_small b : (b <= 63)%N -> lower b = b.
Proof.
  intros H. unfold lower. destruct ((65 <=? b)%N && (b <=? 90)%N) eqn:E; [|reflexivity].
  apply andb_true_iff in E. destruct E as [E _]. apply N.leb_le in E. lia.
Qed.

(* lower-casing the wire form of a name whose labels are at most 63 octets long is the wire
   form of the lower-cased labels (length octets are not letters) *)
Lemma map_lower_wire_of (n : sname) : Forall (fun l => length l <= 63) n ->
  map lower (wire_of n) = canon_wire n.
Proof.
  unfold canon_wire, canon, wire_of. intros H. rewrite map_app. simpl map at 2.
  replace (lower 0) with 0%N by reflexivity. f_equal.
  induction H as [|l r Hl _ IH]; [reflexivity|].
  simpl. rewrite map_app, IH, map_length. f_equal.
  apply lower_small. lia.
Qed.

Lemma valid_sname_len63 n : valid_sname n -> Forall (fun l => length l <= 63) n.
Proof. intros [H _]. eapply Forall_impl; [|exact H]. simpl. intros l [[_ Hl] _]. exact Hl. Qed.

Lemma wire_of_length_canon n : length (canon_wire n) = wire_len n.
Proof.
  unfold canon_wire, wire_len, wire_of, canon. rewrite !app_length. f_equal.
  induction n as [|l r IH]; [reflexivity|]. simpl. rewrite !app_length, map_length, IH. reflexivity.
Qed.

Lemma wf_lwire n : Forall (fun l => 1 <= length l <= 63 /\ wf_bytes l) n -> wf_bytes (lwire n).
Proof.
  induction 1 as [|l r [Hl Hw] _ IH]; [constructor|].
  simpl. constructor; [unfold is_octet; lia|]. apply Forall_app. split; assumption.
Qed.

Lemma wf_wire_of n : valid_sname n -> wf_bytes (wire_of n).
Proof.
  intros [H _]. unfold wire_of. apply Forall_app. split; [apply wf_lwire; exact H|].
  constructor; [unfold is_octet; lia|constructor].
Qed.
