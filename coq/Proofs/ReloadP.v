(* C31: the reload function of Model/Reload.v (with the previous entry found by the exact
   Catalog::get) meets the per-zone specification of Spec/ReloadS.v.  Builds on the
   catalog refinement of C22 (Proofs/CatTreeCatP.v). *)
From QV Require Import Model.CatTree Model.Reload Spec.CatTreeS Spec.ReloadS
  Proofs.CatTreeP Proofs.CatTreeInvP Proofs.CatTreeSP Proofs.CatTreeCatP.

(* ---- observation of an entry; the file-system view as the specification sees it ------ *)

Definition obs (o : option rentry) : served :=
  match o with
  | None => SGone
  | Some e => match e_val e with
              | (VLoaded z, md) => SLoaded z (md_path md) (md_mtime md)
              | _ => SUnserved
              end
  end.

Definition to_smtime (m : mt_res) : s_mtime :=
  match m with MtOk t => SmOk t | MtUnsupported => SmUnsupported | MtErr => SmErr end.
Definition to_sload (l : ld_res) : option N :=
  match l with LdOk z => Some z | LdErr => None end.

Definition rkey (e : rentry) : skey := key_of (@e_name payload) (@e_class payload) e.

Definition has_zkey (k : skey) (cfg : zone_cfg) : bool := if skey_eq_dec (zkey cfg) k then true else false.

Lemma zkey_eqb_spec a b : zkey_eqb a b = true <-> a = b.
Proof.
  unfold zkey_eqb. destruct a as [c1 n1], b as [c2 n2]. simpl.
  rewrite andb_true_iff, N.eqb_eq. destruct (list_eq_dec label_eq_dec n1 n2); split.
  - intros [H _]. congruence.
  - intros H. inversion H. auto.
  - intros [_ H]. discriminate.
  - intros H. inversion H. congruence.
Qed.

Lemma set_mem_spec k s : set_mem k s = true <-> In k s.
Proof.
  unfold set_mem. rewrite existsb_exists. split.
  - intros [x [Hin Hx]]. apply zkey_eqb_spec in Hx. congruence.
  - intros H. exists k. split; [exact H|]. apply zkey_eqb_spec. reflexivity.
Qed.

Lemma find_dup_spec : forall zones seen,
  find_dup seen zones = None <->
  NoDup (map zkey zones) /\ forall z, In z zones -> ~ In (zkey z) seen.
Proof.
  induction zones as [|z rest IH]; intros seen; simpl.
  - split; [intros _; split; [constructor|tauto]|reflexivity].
  - destruct (set_mem (zkey z) seen) eqn:Hm.
    + apply set_mem_spec in Hm. split; [discriminate|]. intros [_ H]. exfalso. apply (H z); auto.
    + assert (Hn : ~ In (zkey z) seen).
      { intros H. apply set_mem_spec in H. congruence. }
      rewrite IH. split.
      * intros [Hnd Hs]. split.
        -- constructor; [|exact Hnd]. intros Hin. apply in_map_iff in Hin.
           destruct Hin as [z' [Hk Hz']]. apply (Hs z' Hz'). left. congruence.
        -- intros z' [Hz'|Hz'] Hin; [subst; tauto|]. apply (Hs z' Hz'). right. exact Hin.
      * intros [Hnd Hs]. inversion Hnd as [|? ? Hx Hr]; subst. split; [exact Hr|].
        intros z' Hz' [Hin|Hin].
        -- apply Hx. rewrite Hin. apply in_map. exact Hz'.
        -- apply (Hs z'); auto.
Qed.

Lemma find_duplicated_zone_spec zones :
  find_duplicated_zone zones = None <-> NoDup (map zkey zones).
Proof.
  unfold find_duplicated_zone. rewrite find_dup_spec. split; [tauto|]. intros H. split; [exact H|]. auto.
Qed.

Section R.
Variable fs_mtime : N -> mt_res.
Variable fs_load : zone_cfg -> ld_res.

Definition to_szone (cfg : zone_cfg) : s_zone :=
  mkSZone (zkey cfg) (zc_path cfg) (to_smtime (fs_mtime (zc_path cfg))) (to_sload (fs_load cfg)).

(* ---- one zone -------------------------------------------------------------------------- *)

Lemma entry_of_obs cfg pe :
  obs (Some (entry_of fs_mtime fs_load cfg pe)) = spec_zone (to_szone cfg) (obs pe).
Proof.
  unfold entry_of, check_mtime, spec_zone, unchanged, fresh, to_szone. simpl.
  destruct (fs_mtime (zc_path cfg)) as [t| |]; simpl.
  - destruct pe as [e|]; simpl.
    + destruct (e_val e) as [[z| |] md] eqn:Hv; simpl.
      * destruct (md_mtime md) as [t0|] eqn:Hm; simpl.
        -- destruct ((md_path md =? zc_path cfg)%N && (t <=? t0)%N) eqn:Hc; simpl.
           ++ rewrite Hm. reflexivity.
           ++ destruct (fs_load cfg); simpl; [reflexivity|]. rewrite Hv, Hm. reflexivity.
        -- rewrite andb_false_r. simpl. destruct (fs_load cfg); simpl; [reflexivity|]. rewrite Hv, Hm. reflexivity.
      * destruct (fs_load cfg); simpl; [reflexivity|]. rewrite Hv. reflexivity.
      * destruct (fs_load cfg); simpl; [reflexivity|]. rewrite Hv. reflexivity.
    + destruct (fs_load cfg); reflexivity.
  - destruct (fs_load cfg) as [d|]; simpl.
    + destruct (obs pe) as [| |z0 p0 [t0|]]; reflexivity.
    + destruct pe as [e|]; simpl; [|reflexivity].
      destruct (e_val e) as [[z| |] md]; simpl; try reflexivity. destruct (md_mtime md); reflexivity.
  - destruct pe as [e|]; simpl; [|reflexivity].
    destruct (e_val e) as [[z| |] md]; simpl; try reflexivity. destruct (md_mtime md); reflexivity.
Qed.

Lemma entry_of_key cfg pe :
  (forall e, pe = Some e -> rkey e = zkey cfg) -> rkey (entry_of fs_mtime fs_load cfg pe) = zkey cfg.
Proof.
  intros Hpe. unfold entry_of, check_mtime.
  assert (Herr : rkey (make_error_catalog_entry cfg pe) = zkey cfg).
  { destruct pe as [e|]; simpl; [apply Hpe; reflexivity|reflexivity]. }
  destruct (fs_mtime (zc_path cfg)) as [t| |].
  - destruct pe as [e|].
    + destruct (e_val e) as [[z| |] md] eqn:Hv.
      * destruct ((md_path md =? zc_path cfg)%N &&
                  match md_mtime md with Some lm => (t <=? lm)%N | None => false end).
        -- rewrite <- (Hpe e eq_refl). reflexivity.
        -- destruct (fs_load cfg); [reflexivity|exact Herr].
      * destruct (fs_load cfg); [reflexivity|exact Herr].
      * destruct (fs_load cfg); [reflexivity|exact Herr].
    + destruct (fs_load cfg); [reflexivity|exact Herr].
  - destruct (fs_load cfg); [reflexivity|exact Herr].
  - exact Herr.
Qed.

(* the mtime skip is sound: it keeps the previous entry only for the same path and a file
   time not newer than the recorded one *)
Lemma check_mtime_skip_sound cfg e e' t :
  fs_mtime (zc_path cfg) = MtOk t -> check_mtime fs_mtime cfg (Some e) = McSkip e' ->
  obs (Some e') = obs (Some e) /\ e_name e' = e_name e /\ e_class e' = e_class e /\
  exists z md t0, e_val e = (VLoaded z, md) /\ md_path md = zc_path cfg /\
                  md_mtime md = Some t0 /\ (t <= t0)%N.
Proof.
  intros Hm. unfold check_mtime. rewrite Hm.
  destruct (e_val e) as [[z| |] md] eqn:Hv; try discriminate.
  destruct (md_mtime md) as [t0|] eqn:Ht; [|rewrite andb_false_r; discriminate].
  destruct ((md_path md =? zc_path cfg)%N && (t <=? t0)%N) eqn:Hc; [|discriminate].
  intros H. inversion H; subst e'. simpl. rewrite Hv.
  apply andb_true_iff in Hc. destruct Hc as [H1 H2]. apply N.eqb_eq in H1. apply N.leb_le in H2.
  split; [reflexivity|]. split; [reflexivity|]. split; [reflexivity|].
  exists z, md, t0. auto.
Qed.

(* ---- the loop --------------------------------------------------------------------------- *)

Definition pabs (prev : option rcatalog) (k : skey) : option rentry :=
  match prev with Some c => abs c k | None => None end.

Definition prev_ok (prev : option rcatalog) : Prop :=
  match prev with Some c => wf_cat c | None => True end.

Lemma pabs_key prev k e : prev_ok prev -> pabs prev k = Some e -> rkey e = k.
Proof.
  destruct prev as [c|]; simpl; [|discriminate]. intros Hwf H.
  exact (abs_consistent payload c Hwf k e H).
Qed.

Lemma load_loop_spec prev : prev_ok prev -> forall zones c, wf_cat c -> NoDup (map zkey zones) ->
  exists c', load_loop fs_mtime fs_load true zones prev c = Ok c' /\ wf_cat c' /\
    forall k, abs c' k = match find (has_zkey k) zones with
                         | Some cfg => Some (entry_of fs_mtime fs_load cfg (pabs prev (zkey cfg)))
                         | None => abs c k
                         end.
Proof.
  intros Hprev. induction zones as [|cfg rest IH]; intros c Hwf Hnd.
  - simpl. exists c. auto.
  - inversion Hnd as [|? ? Hx Hr]; subst. cbn [load_loop].
    assert (Hlz : forall F : option rentry -> res unit rcatalog,
              bind (match prev with
                    | Some c0 => cat_get c0 (zc_name cfg) (zc_class cfg)
                    | None => Ok None
                    end) F = F (pabs prev (zkey cfg))).
    { intros F. destruct prev as [c0|]; [|reflexivity]. simpl in Hprev.
      rewrite (cat_get_refine payload c0 _ _ Hprev). reflexivity. }
    rewrite Hlz.
    set (e := entry_of fs_mtime fs_load cfg (pabs prev (zkey cfg))).
    assert (Hk : rkey e = zkey cfg).
    { apply entry_of_key. intros e0 He0. eapply pabs_key; eauto. }
    destruct (cat_insert_refine payload c e Hwf) as [c1 [Hins [Habs Hwf1]]].
    rewrite Hins. cbn [bind].
    destruct (IH c1 Hwf1 Hr) as [c' [Hloop [Hwf' Hres]]].
    exists c'. split; [exact Hloop|]. split; [exact Hwf'|].
    intros k. rewrite Hres. cbn [find]. unfold has_zkey at 2.
    destruct (skey_eq_dec (zkey cfg) k) as [E|E].
    + subst k. destruct (find (has_zkey (zkey cfg)) rest) as [cfg'|] eqn:Hf.
      * exfalso. apply find_some in Hf. destruct Hf as [Hin Hh]. unfold has_zkey in Hh.
        destruct (skey_eq_dec (zkey cfg') (zkey cfg)) as [E'|]; [|discriminate].
        apply Hx. rewrite <- E'. apply in_map. exact Hin.
      * rewrite Habs. unfold CatTreeS.rm_insert. fold (rkey e). rewrite Hk.
        destruct (skey_eq_dec (zkey cfg) (zkey cfg)); [reflexivity|congruence].
    + destruct (find (has_zkey k) rest); [reflexivity|].
      rewrite Habs. unfold CatTreeS.rm_insert. fold (rkey e). rewrite Hk.
      destruct (skey_eq_dec k (zkey cfg)); [congruence|reflexivity].
Qed.

Lemma find_to_szone k zones :
  find (has_skey k) (map to_szone zones) = option_map to_szone (find (has_zkey k) zones).
Proof.
  induction zones as [|cfg rest IH]; [reflexivity|].
  cbn [map find]. unfold has_skey at 1, has_zkey at 1. cbn [sz_key to_szone].
  destruct (skey_eq_dec (zkey cfg) k); [reflexivity|exact IH].
Qed.

(* the reload function, key by key *)
Lemma load_impl_per_zone zones prev : prev_ok prev -> NoDup (map zkey zones) ->
  exists c', load_impl fs_mtime fs_load zones prev = Ok c' /\ wf_cat c' /\
    forall k, obs (abs c' k) = spec_reload (map to_szone zones) (fun k => obs (pabs prev k)) k.
Proof.
  intros Hprev Hnd. unfold load_impl, load_impl_gen.
  destruct (load_loop_spec prev Hprev zones cat_new I Hnd) as [c' [Hl [Hwf Hres]]].
  exists c'. split; [exact Hl|]. split; [exact Hwf|].
  intros k. rewrite Hres. unfold spec_reload. rewrite find_to_szone.
  destruct (find (has_zkey k) zones) as [cfg|] eqn:Hf; simpl.
  - apply find_some in Hf. destruct Hf as [_ Hh]. unfold has_zkey in Hh.
    destruct (skey_eq_dec (zkey cfg) k) as [E|]; [|discriminate]. subst k. apply entry_of_obs.
  - reflexivity.
Qed.

Lemma load_impl_removed zones prev k : prev_ok prev -> NoDup (map zkey zones) ->
  ~ In k (map zkey zones) ->
  exists c', load_impl fs_mtime fs_load zones prev = Ok c' /\ abs c' k = None.
Proof.
  intros Hprev Hnd Hk. unfold load_impl, load_impl_gen.
  destruct (load_loop_spec prev Hprev zones cat_new I Hnd) as [c' [Hl [Hwf Hres]]].
  exists c'. split; [exact Hl|]. rewrite Hres.
  destruct (find (has_zkey k) zones) as [cfg|] eqn:Hf; [|reflexivity].
  exfalso. apply find_some in Hf. destruct Hf as [Hin Hh]. unfold has_zkey in Hh.
  destruct (skey_eq_dec (zkey cfg) k) as [E|]; [|discriminate]. apply Hk. rewrite <- E. apply in_map. exact Hin.
Qed.

End R.

(* ---- independence: the result at k depends only on zone k's configuration and file and on
        what was held for exactly k before ---------------------------------------------------- *)

Lemma spec_reload_local zs1 zs2 prev1 prev2 k :
  find (has_skey k) zs1 = find (has_skey k) zs2 -> prev1 k = prev2 k ->
  spec_reload zs1 prev1 k = spec_reload zs2 prev2 k.
Proof. intros H1 H2. unfold spec_reload. rewrite H1, H2. reflexivity. Qed.

Lemma load_impl_independent m1 l1 m2 l2 zones prev1 prev2 k :
  prev_ok prev1 -> prev_ok prev2 -> NoDup (map zkey zones) ->
  (forall cfg, In cfg zones -> zkey cfg = k ->
     m1 (zc_path cfg) = m2 (zc_path cfg) /\ l1 cfg = l2 cfg) ->
  obs (pabs prev1 k) = obs (pabs prev2 k) ->
  exists c1 c2, load_impl m1 l1 zones prev1 = Ok c1 /\ load_impl m2 l2 zones prev2 = Ok c2 /\
                obs (abs c1 k) = obs (abs c2 k).
Proof.
  intros Hp1 Hp2 Hnd Hfs Hprev.
  destruct (load_impl_per_zone m1 l1 zones prev1 Hp1 Hnd) as [c1 [H1 [_ R1]]].
  destruct (load_impl_per_zone m2 l2 zones prev2 Hp2 Hnd) as [c2 [H2 [_ R2]]].
  exists c1, c2. split; [exact H1|]. split; [exact H2|]. rewrite R1, R2.
  apply spec_reload_local; [|exact Hprev].
  rewrite !find_to_szone. destruct (find (has_zkey k) zones) as [cfg|] eqn:Hf; [|reflexivity].
  apply find_some in Hf. destruct Hf as [Hin Hh]. unfold has_zkey in Hh.
  destruct (skey_eq_dec (zkey cfg) k) as [E|]; [|discriminate].
  destruct (Hfs cfg Hin E) as [Hm Hl]. simpl. unfold to_szone. rewrite Hm, Hl. reflexivity.
Qed.

(* ---- histories of SIGHUPs ------------------------------------------------------------------- *)

Definition spec_input (i : reload_input) : option (list s_zone) :=
  match ri_zones i with
  | None => None
  | Some zones => match find_duplicated_zone zones with
                  | Some _ => None
                  | None => Some (map (to_szone (ri_mtime i) (ri_load i)) zones)
                  end
  end.

Lemma spec_reload_ext zs p1 p2 : (forall k, p1 k = p2 k) -> forall k, spec_reload zs p1 k = spec_reload zs p2 k.
Proof. intros H k. unfold spec_reload. rewrite H. reflexivity. Qed.

Lemma reload_step_spec cur i s0 : wf_cat cur -> (forall k, obs (abs cur k) = s0 k) ->
  exists c, reload_step cur i = Ok c /\ wf_cat c /\
    forall k, obs (abs c k) = match spec_input i with
                              | Some zs => spec_reload zs s0 k
                              | None => s0 k
                              end.
Proof.
  intros Hwf Hs. unfold reload_step, reload_step_gen, spec_input.
  destruct (ri_zones i) as [zones|]; [|exists cur; auto].
  destruct (find_duplicated_zone zones) eqn:Hd; [exists cur; auto|].
  apply find_duplicated_zone_spec in Hd.
  destruct (load_impl_per_zone (ri_mtime i) (ri_load i) zones (Some cur) Hwf Hd) as [c [Hl [Hwf' Hres]]].
  exists c. split; [exact Hl|]. split; [exact Hwf'|]. intros k. rewrite Hres.
  apply spec_reload_ext. exact Hs.
Qed.

Lemma daemon_run_spec : forall h cur s0, wf_cat cur -> (forall k, obs (abs cur k) = s0 k) ->
  exists cs, daemon_run_gen true cur h = Ok cs /\
    Forall2 (fun c s => wf_cat c /\ forall k, obs (abs c k) = s k) cs (spec_history s0 (map spec_input h)).
Proof.
  induction h as [|i h IH]; intros cur s0 Hwf Hs.
  - exists []. split; [reflexivity|constructor].
  - cbn [daemon_run_gen map spec_history].
    destruct (reload_step_spec cur i s0 Hwf Hs) as [c [Hstep [Hwf' Hres]]].
    unfold reload_step in Hstep. rewrite Hstep. cbn [bind].
    destruct (spec_input i) as [zs|].
    + destruct (IH c (spec_reload zs s0) Hwf' Hres) as [cs [Hrun Hall]].
      rewrite Hrun. cbn [bind]. exists (c :: cs). split; [reflexivity|]. constructor; auto.
    + destruct (IH c s0 Hwf' Hres) as [cs [Hrun Hall]].
      rewrite Hrun. cbn [bind]. exists (c :: cs). split; [reflexivity|]. constructor; auto.
Qed.

(* ---- regression witness: the pinned code (previous entry by longest match) -------------------- *)

(* example. was served with data 1 (file time 100); now example.'s file is new (data 2, time 200)
   and the added child sub.example. has no file *)
Definition c31_example : cname := [[101; 120]%N].
Definition c31_sub : cname := [[115; 117; 98]%N; [101; 120]%N].
Definition c31_prev_zones := [mkCfg c31_example 1 7].
Definition c31_new_zones := [mkCfg c31_example 1 7; mkCfg c31_sub 1 8].
Definition c31_mtime1 (p : N) : mt_res := if (p =? 7)%N then MtOk 100 else MtErr.
Definition c31_load1 (cfg : zone_cfg) : ld_res := if (zc_path cfg =? 7)%N then LdOk 1 else LdErr.
Definition c31_mtime2 (p : N) : mt_res := if (p =? 7)%N then MtOk 200 else MtErr.
Definition c31_load2 (cfg : zone_cfg) : ld_res := if (zc_path cfg =? 7)%N then LdOk 2 else LdErr.

Lemma per_zone_refuted_prefix :
  exists prev c_old c_new,
    load_impl_gen c31_mtime1 c31_load1 false c31_prev_zones None = Ok prev /\
    load_impl_gen c31_mtime2 c31_load2 false c31_new_zones (Some prev) = Ok c_old /\
    load_impl_gen c31_mtime2 c31_load2 true c31_new_zones (Some prev) = Ok c_new /\
    (* pinned code: the parent is back on its stale data and the child is not there at all *)
    obs (abs c_old (1%N, c31_example)) = SLoaded 1 7 (Some 100%N) /\
    obs (abs c_old (1%N, c31_sub)) = SGone /\
    (* repaired code = the specification *)
    obs (abs c_new (1%N, c31_example)) = SLoaded 2 7 (Some 200%N) /\
    obs (abs c_new (1%N, c31_sub)) = SUnserved.
Proof.
  eexists. eexists. eexists.
  split; [vm_compute; reflexivity|]. split; [vm_compute; reflexivity|]. split; [vm_compute; reflexivity|].
  repeat split; vm_compute; reflexivity.
Qed.
