(* FromStr / Display of names and the NameBuilder against the declarative text relation. *)
From QV Require Import Base.ListX Model.NameWire Model.DecU16 Model.NameText Spec.NameWireS Spec.NameRepr Spec.NameTextS
  Proofs.NameWireP Proofs.NameLabelsP.

Local Ltac norm := unfold label, bytes in *.

(* ---- abstract builder state: finished labels + the label being written ------------------------------- *)

Definition astate := (list (list N) * list N)%type.

Definition awire (st : astate) : nat := length (lwire (fst st)) + 1 + length (snd st).

Definition astep (st : astate) (t : tok) : option astate :=
  match t with
  | TOct v => if (length (snd st) <? 63) && (awire st <? 255) then Some (fst st, snd st ++ [v]) else None
  | TDot => if negb (is_nil (snd st)) && (awire st <? 255) then Some (fst st ++ [snd st], []) else None
  end.

Fixpoint arun (ts : list tok) (st : astate) : option astate :=
  match ts with
  | [] => Some st
  | t :: r => match astep st t with Some st' => arun r st' | None => None end
  end.

Definition ast_ok (st : astate) : Prop :=
  Forall (fun l : list N => 1 <= length l <= 63) (fst st) /\ length (snd st) <= 63 /\ awire st <= 255.

(* the builder value that represents an abstract state *)
Definition brepr (b : builder) (st : astate) : Prop :=
  b_wire b = lwire (fst st) ++ 0%N :: snd st /\
  b_offsets b = offs_all 0 (fst st) ++ [(N.of_nat (length (lwire (fst st))) mod 256)%N] /\
  b_label_start b = length (lwire (fst st)) /\
  b_label_len b = N.of_nat (length (snd st)).

Lemma offs_all_app x : forall base y,
  offs_all base (x ++ y) = offs_all base x ++ offs_all (base + length (lwire x)) y.
Proof.
  induction x as [|l x IH]; intros base y; cbn [app offs_all].
  - cbn. rewrite Nat.add_0_r. reflexivity.
  - rewrite IH, lwire_length_cons. do 3 f_equal. lia.
Qed.

Lemma lwire_labels_len (ds : list (list N)) : Forall (fun l : list N => 1 <= length l <= 63) ds ->
  2 * length ds <= length (lwire ds).
Proof.
  induction ds as [|l r IH]; intros H; [cbn; lia|]. inversion H; subst.
  rewrite lwire_length_cons. specialize (IH H3). cbn [length]. lia.
Qed.

Lemma lwire_snoc ds (l : list N) : lwire (ds ++ [l]) = lwire ds ++ N.of_nat (length l) :: l.
Proof. rewrite lwire_app. cbn. rewrite app_nil_r. reflexivity. Qed.

Definition feed1 (b : builder) (t : tok) : res name_err builder :=
  match t with TOct v => try_push b v | TDot => next_label b end.

Lemma consts63 : (max_label_len mod 256 = 63)%N /\ max_wire_len = 255 /\ max_n_labels = 128.
Proof. repeat split; reflexivity. Qed.

Lemma brepr_wire_len b st : brepr b st -> length (b_wire b) = awire st.
Proof. intros (Hw & _). rewrite Hw, app_length. unfold awire. cbn. lia. Qed.

(* one builder operation = one abstract step; errors leave no new state *)
Lemma feed1_step b st t : brepr b st -> ast_ok st ->
  match astep st t with
  | Some st' => exists b', feed1 b t = Ok b' /\ brepr b' st' /\ ast_ok st'
  | None => exists e, feed1 b t = Err e
  end.
Proof.
  intros Hb (Hds & Hcur & Hw). pose proof (brepr_wire_len b st Hb) as Hlen.
  destruct Hb as (Ewire & Eoffs & Estart & Elen). destruct st as [ds cur]. cbn [fst snd] in *.
  destruct consts63 as (C1 & C2 & C3).
  destruct t as [v|]; cbn [astep feed1 fst snd].
  - unfold try_push. rewrite C1, C2, Elen, Hlen.
    destruct (length cur <? 63) eqn:E1.
    + apply Nat.ltb_lt in E1.
      assert (E1' : (63 <=? N.of_nat (length cur))%N = false) by (apply N.leb_gt; lia). rewrite E1'.
      destruct (awire (ds, cur) <? 255) eqn:E2; cbn [andb].
      * apply Nat.ltb_lt in E2. unfold u8_add.
        assert (E3 : (255 <? N.of_nat (length cur) + 1)%N = false) by (apply N.ltb_ge; lia). rewrite E3.
        eexists. split; [reflexivity|]. split.
        -- unfold brepr. cbn [b_wire b_offsets b_label_start b_label_len fst snd].
           rewrite Ewire, <- app_assoc. cbn [app]. repeat split; try assumption.
           rewrite app_length. cbn. lia.
        -- unfold ast_ok, awire in *. cbn [fst snd] in *. rewrite app_length. cbn. repeat split; try assumption; lia.
      * eexists. reflexivity.
    + apply Nat.ltb_ge in E1.
      assert (E1' : (63 <=? N.of_nat (length cur))%N = true) by (apply N.leb_le; lia). rewrite E1'.
      cbn [andb]. eexists. reflexivity.
  - unfold next_label, is_fully_qualified. rewrite C2, Elen, Hlen.
    destruct cur as [|c cur'] eqn:Ecur.
    + cbn. eexists. reflexivity.
    + rewrite <- Ecur in *. assert (Hne : length cur <> 0) by (subst cur; cbn; lia).
      assert (E0 : (N.of_nat (length cur) =? 0)%N = false) by (apply N.eqb_neq; lia). rewrite E0.
      replace (is_nil cur) with false by (subst cur; reflexivity). cbn [negb andb].
      destruct (awire (ds, cur) <? 255) eqn:E2.
      * apply Nat.ltb_lt in E2.
        assert (E2' : (255 <=? awire (ds, cur)) = false) by (apply Nat.leb_gt; lia). rewrite E2'.
        unfold update_label_len, set_nth. rewrite Estart, Elen, Ewire.
        assert (E3 : (length (lwire ds) <? length (lwire ds ++ 0%N :: cur)) = true).
        { apply Nat.ltb_lt. rewrite app_length. cbn. lia. }
        rewrite E3.
        rewrite firstn_app, Nat.sub_diag, firstn_all. cbn [firstn]. rewrite app_nil_r.
        replace (S (length (lwire ds))) with (length (lwire ds ++ [0%N])) by (rewrite app_length; cbn; lia).
        replace (lwire ds ++ 0%N :: cur) with ((lwire ds ++ [0%N]) ++ cur) by (rewrite <- app_assoc; reflexivity).
        rewrite skipn_app, skipn_all, Nat.sub_diag. cbn [skipn app].
        rewrite <- lwire_snoc.
        pose proof (lwire_labels_len ds Hds) as H2.
        unfold awire in E2, Hw. cbn [fst snd] in E2, Hw.
        unfold push_offset. rewrite C3, Eoffs, app_length, offs_all_length. cbn [length]. norm.
        assert (E4 : (128 <=? length ds + 1) = false) by (apply Nat.leb_gt; lia). rewrite E4.
        eexists. split; [reflexivity|]. split.
        -- unfold brepr. cbn [b_wire b_offsets b_label_start b_label_len fst snd]. repeat split.
           rewrite offs_all_app. cbn [offs_all Nat.add]. rewrite <- app_assoc. reflexivity.
        -- unfold ast_ok, awire. cbn [fst snd length]. repeat split.
           ++ apply Forall_app. split; [assumption|]. constructor; [lia|constructor].
           ++ lia.
           ++ rewrite lwire_snoc, app_length. cbn. lia.
      * apply Nat.ltb_ge in E2.
        assert (E2' : (255 <=? awire (ds, cur)) = true) by (apply Nat.leb_le; lia). rewrite E2'.
        eexists. reflexivity.
Qed.

Fixpoint feed (ts : list tok) (b : builder) : res name_err builder :=
  match ts with
  | [] => Ok b
  | t :: r => let* b' := feed1 b t in feed r b'
  end.

Lemma feed_run ts : forall b st, brepr b st -> ast_ok st ->
  match arun ts st with
  | Some st' => exists b', feed ts b = Ok b' /\ brepr b' st' /\ ast_ok st'
  | None => exists e, feed ts b = Err e
  end.
Proof.
  induction ts as [|t r IH]; intros b st Hb Hok; cbn [arun feed].
  - exists b. auto.
  - pose proof (feed1_step b st t Hb Hok) as H. destruct (astep st t) as [st'|].
    + destruct H as (b' & E & Hb' & Hok'). rewrite E. cbn [bind]. apply IH; assumption.
    + destruct H as (e & E). rewrite E. cbn. eexists. reflexivity.
Qed.

Lemma finish_repr b st : brepr b st ->
  finish b = if is_nil (snd st) then Ok (name_of (fst st)) else Err NonNullTerminal.
Proof.
  intros (Ewire & Eoffs & Estart & Elen). unfold finish, is_fully_qualified. rewrite Elen.
  destruct st as [ds [|c cur]]; cbn [fst snd is_nil length] in *.
  - cbn. f_equal. unfold name_of. rewrite Ewire, Eoffs, offs_of_all. unfold all_labels, wire_of.
    rewrite offs_all_app. cbn. reflexivity.
  - reflexivity.
Qed.

(* ---- tokens consumed by the abstract machine = the labels it produced ---------------------------------- *)

Lemma arun_sound ts : forall st st', arun ts st = Some st' ->
  exists more, fst st' = fst st ++ more /\ map TOct (snd st) ++ ts = flat_map label_toks more ++ map TOct (snd st').
Proof.
  induction ts as [|t r IH]; intros [ds cur] st' H; cbn [arun] in H.
  - inversion H; subst. exists []. cbn. rewrite !app_nil_r. auto.
  - destruct (astep (ds, cur) t) as [st1|] eqn:E; [|discriminate].
    destruct (IH _ _ H) as (more & H1 & H2). destruct t as [v|]; cbn [astep fst snd] in E.
    + destruct (_ && _); [|discriminate]. inversion E; subst st1. cbn [fst snd] in *.
      exists more. split; [exact H1|]. rewrite map_app in H2. cbn in H2. rewrite <- app_assoc in H2. exact H2.
    + destruct (_ && _); [|discriminate]. inversion E; subst st1. cbn [fst snd] in *.
      exists (cur :: more). split; [rewrite H1, <- app_assoc; reflexivity|].
      cbn [flat_map]. unfold label_toks at 1. rewrite <- !app_assoc. cbn [app]. f_equal. f_equal. exact H2.
Qed.

Lemma arun_label (l : list N) : forall ds cur r,
  length (cur ++ l) <= 63 -> cur ++ l <> [] -> length (lwire ds) + 1 + length (cur ++ l) < 255 ->
  arun (map TOct l ++ TDot :: r) (ds, cur) = arun r (ds ++ [cur ++ l], []).
Proof.
  induction l as [|v l IH]; intros ds cur r H1 H2 H3.
  - rewrite app_nil_r in *. cbn [map app arun astep fst snd]. unfold awire. cbn [fst snd].
    destruct cur as [|c cur]; [congruence|]. cbn [is_nil negb andb].
    assert (E : (length (lwire ds) + 1 + length (c :: cur) <? 255) = true) by (apply Nat.ltb_lt; lia).
    rewrite E. reflexivity.
  - cbn [map app arun astep fst snd]. unfold awire. cbn [fst snd]. rewrite app_length in H1, H3. cbn [length] in H1, H3.
    assert (E1 : (length cur <? 63) = true) by (apply Nat.ltb_lt; lia).
    assert (E2 : (length (lwire ds) + 1 + length cur <? 255) = true) by (apply Nat.ltb_lt; lia).
    rewrite E1, E2. cbn [andb].
    replace (cur ++ v :: l) with ((cur ++ [v]) ++ l) in * by (rewrite <- app_assoc; reflexivity).
    apply IH.
    + rewrite !app_length. cbn. lia.
    + exact H2.
    + rewrite !app_length. cbn. lia.
Qed.

Lemma arun_complete (more : list (list N)) : forall ds,
  Forall (fun l : list N => 1 <= length l <= 63) more -> length (lwire (ds ++ more)) + 1 <= 255 ->
  arun (flat_map label_toks more) (ds, []) = Some (ds ++ more, []).
Proof.
  induction more as [|l more IH]; intros ds Hf Hw.
  - cbn. rewrite app_nil_r. reflexivity.
  - inversion Hf; subst. cbn [flat_map]. unfold label_toks at 1. rewrite <- app_assoc. cbn [app].
    rewrite lwire_app, app_length, lwire_length_cons in Hw.
    rewrite (arun_label l ds [] _); cbn [app].
    + replace (ds ++ l :: more) with ((ds ++ [l]) ++ more) by (rewrite <- app_assoc; reflexivity).
      apply IH; [assumption|]. rewrite <- app_assoc. cbn [app]. rewrite lwire_app, app_length, lwire_length_cons. lia.
    + lia.
    + destruct l; cbn in *; [lia|discriminate].
    + lia.
Qed.

(* ---- tokenize = tokens --------------------------------------------------------------------------------- *)

Lemma is_digitb_spec c : is_digitb c = true <-> is_digit c.
Proof. unfold is_digitb, is_digit. rewrite andb_true_iff, !N.leb_le. tauto. Qed.

Lemma tokenize_tokens n : forall s ts, length s <= n -> tokenize s = Some ts -> tokens s ts.
Proof.
  induction n as [|n IH]; intros s ts Hn H.
  - destruct s; [|cbn in Hn; lia]. cbn in H. inversion H. constructor.
  - destruct s as [|c r]; [cbn in H; inversion H; constructor|]. cbn [tokenize] in H. cbn [length] in Hn.
    destruct (c =? 92)%N eqn:E92.
    + apply N.eqb_eq in E92. subst c. destruct r as [|a r1]; [discriminate|].
      destruct (is_digitb a) eqn:Ea.
      * destruct r1 as [|b [|d r3]]; try discriminate.
        destruct (is_digitb b && is_digitb d && (esc_value a b d <=? 255)%N) eqn:Ec; [|discriminate].
        apply andb_true_iff in Ec. destruct Ec as [Ec E255]. apply andb_true_iff in Ec. destruct Ec as [Eb Ed].
        destruct (tokenize r3) as [ts3|] eqn:E3; [|discriminate]. cbn in H. inversion H; subst.
        apply tk_esc_dec; try (apply is_digitb_spec; assumption).
        -- apply N.leb_le. exact E255.
        -- apply IH; [cbn [length] in Hn; lia|exact E3].
      * destruct (tokenize r1) as [ts1|] eqn:E1; [|discriminate]. cbn in H. inversion H; subst.
        apply tk_esc_char.
        -- intros Hd. apply is_digitb_spec in Hd. congruence.
        -- apply IH; [cbn [length] in Hn; lia|exact E1].
    + apply N.eqb_neq in E92. destruct (c =? 46)%N eqn:E46.
      * apply N.eqb_eq in E46. subst c. destruct (tokenize r) as [tsr|] eqn:Er; [|discriminate].
        cbn in H. inversion H; subst. apply tk_dot. apply IH; [lia|exact Er].
      * apply N.eqb_neq in E46. destruct (tokenize r) as [tsr|] eqn:Er; [|discriminate].
        cbn in H. inversion H; subst. apply tk_plain; try assumption. apply IH; [lia|exact Er].
Qed.

Lemma tokens_tokenize s ts : tokens s ts -> tokenize s = Some ts.
Proof.
  induction 1 as [|s ts H IH|c s ts H46 H92 H IH|c s ts Hd H IH|a b c s ts Ha Hb Hc Hv H IH].
  - reflexivity.
  - cbn [tokenize]. change (46 =? 92)%N with false. change (46 =? 46)%N with true. cbn. rewrite IH. reflexivity.
  - cbn [tokenize]. apply N.eqb_neq in H46, H92. rewrite H92, H46, IH. reflexivity.
  - cbn [tokenize]. change (92 =? 92)%N with true. cbn.
    destruct (is_digitb c) eqn:E; [apply is_digitb_spec in E; contradiction|]. rewrite IH. reflexivity.
  - cbn [tokenize]. change (92 =? 92)%N with true. cbn.
    apply is_digitb_spec in Ha, Hb, Hc. apply N.leb_le in Hv. rewrite Ha, Hb, Hc, Hv, IH. reflexivity.
Qed.

Lemma tokens_app s1 t1 : tokens s1 t1 -> forall s2 t2, tokens s2 t2 -> tokens (s1 ++ s2) (t1 ++ t2).
Proof.
  induction 1; intros s2 t2 Hsnd; cbn [app]; try (constructor; auto; fail). exact Hsnd.
Qed.

(* ---- the parsing loop = tokenize, then feed, then finish ---------------------------------------------- *)

Lemma is_dec_digit_digitb c : is_dec_digit c = is_digitb c.
Proof. reflexivity. Qed.

Lemma loop_feed fuel : forall rem b n, length rem < fuel -> Forall (fun c => (c < 128)%N) rem ->
  (from_str_loop fuel rem b = Ok n <->
   exists ts b', tokenize rem = Some ts /\ feed ts b = Ok b' /\ finish b' = Ok n).
Proof.
  induction fuel as [|f IH]; intros rem b n Hf Hasc; [lia|].
  cbn [from_str_loop]. destruct rem as [|c r].
  - cbn [tokenize]. split.
    + intros H. exists [], b. auto.
    + intros (ts & b' & Ht & Hfd & Hfin). inversion Ht; subst. cbn in Hfd. inversion Hfd; subst. exact Hfin.
  - inversion Hasc as [|? ? Hc Hr]; subst. cbn [length] in Hf. cbn [tokenize].
    destruct (c =? 92)%N eqn:E92.
    + destruct r as [|a r1].
      * cbn. split; [discriminate|]. intros (ts & b' & Ht & _). discriminate.
      * cbn [parse_escape]. change is_dec_digit with is_digitb. destruct (is_digitb a) eqn:Ea.
        -- destruct r1 as [|b1 [|d r3]].
           ++ cbn. split; [discriminate|]. intros (ts & b' & Ht & _). discriminate.
           ++ cbn. split; [discriminate|]. intros (ts & b' & Ht & _). discriminate.
           ++ change is_dec_digit with is_digitb. fold (esc_value a b1 d).
              destruct (is_digitb b1 && is_digitb d) eqn:Ebd; cbn [andb].
              ** destruct (esc_value a b1 d <=? 255)%N eqn:Ev.
                 --- apply N.leb_le in Ev.
                     assert (Ev' : (255 <? esc_value a b1 d)%N = false) by (apply N.ltb_ge; exact Ev). rewrite Ev'.
                     cbn [bind]. rewrite N.mod_small by lia.
                     inversion Hr as [|? ? _ Hr1]; subst. inversion Hr1 as [|? ? _ Hr2]; subst. inversion Hr2 as [|? ? _ Hr3]; subst.
                     destruct (try_push b (esc_value a b1 d)) as [b1'|e|] eqn:Ep; cbn [bind].
                     +++ cbn [length Nat.add Nat.ltb Nat.leb skipn].
                         rewrite (IH r3 b1' n) by (cbn [length] in Hf; try assumption; lia). split.
                         *** intros (ts & b' & Ht & Hfd & Hfin). rewrite Ht. cbn [option_map].
                             exists (TOct (esc_value a b1 d) :: ts), b'. cbn [feed feed1]. rewrite Ep. cbn [bind]. auto.
                         *** intros (ts & b' & Ht & Hfd & Hfin). destruct (tokenize r3) as [ts3|]; [|discriminate].
                             cbn in Ht. inversion Ht; subst. cbn [feed feed1] in Hfd. rewrite Ep in Hfd. cbn [bind] in Hfd.
                             exists ts3, b'. auto.
                     +++ split; [discriminate|]. intros (ts & b' & Ht & Hfd & _). destruct (tokenize r3); [|discriminate].
                         cbn in Ht. inversion Ht; subst. cbn [feed feed1] in Hfd. rewrite Ep in Hfd. discriminate.
                     +++ split; [discriminate|]. intros (ts & b' & Ht & Hfd & _). destruct (tokenize r3); [|discriminate].
                         cbn in Ht. inversion Ht; subst. cbn [feed feed1] in Hfd. rewrite Ep in Hfd. discriminate.
                 --- apply N.leb_gt in Ev.
                     assert (Ev' : (255 <? esc_value a b1 d)%N = true) by (apply N.ltb_lt; exact Ev). rewrite Ev'.
                     cbn. split; [discriminate|]. intros (ts & b' & Ht & _). discriminate.
              ** cbn. split; [discriminate|]. intros (ts & b' & Ht & _). discriminate.
        -- cbn [bind]. inversion Hr as [|? ? _ Hr1]; subst.
           destruct (try_push b a) as [b1'|e|] eqn:Ep; cbn [bind].
           ++ cbn [length Nat.add Nat.ltb Nat.leb skipn].
              rewrite (IH r1 b1' n) by (cbn [length] in Hf; try assumption; lia). split.
              ** intros (ts & b' & Ht & Hfd & Hfin). rewrite Ht. cbn [option_map].
                 exists (TOct a :: ts), b'. cbn [feed feed1]. rewrite Ep. cbn [bind]. auto.
              ** intros (ts & b' & Ht & Hfd & Hfin). destruct (tokenize r1) as [ts1|]; [|discriminate].
                 cbn in Ht. inversion Ht; subst. cbn [feed feed1] in Hfd. rewrite Ep in Hfd. cbn [bind] in Hfd.
                 exists ts1, b'. auto.
           ++ split; [discriminate|]. intros (ts & b' & Ht & Hfd & _). destruct (tokenize r1); [|discriminate].
              cbn in Ht. inversion Ht; subst. cbn [feed feed1] in Hfd. rewrite Ep in Hfd. discriminate.
           ++ split; [discriminate|]. intros (ts & b' & Ht & Hfd & _). destruct (tokenize r1); [|discriminate].
              cbn in Ht. inversion Ht; subst. cbn [feed feed1] in Hfd. rewrite Ep in Hfd. discriminate.
    + destruct (c =? 46)%N eqn:E46.
      * destruct (next_label b) as [b1'|e|] eqn:Ep; cbn [bind].
        -- rewrite (IH r b1' n) by (try assumption; lia). split.
           ++ intros (ts & b' & Ht & Hfd & Hfin). rewrite Ht. cbn [option_map].
              exists (TDot :: ts), b'. cbn [feed feed1]. rewrite Ep. cbn [bind]. auto.
           ++ intros (ts & b' & Ht & Hfd & Hfin). destruct (tokenize r) as [ts1|]; [|discriminate].
              cbn in Ht. inversion Ht; subst. cbn [feed feed1] in Hfd. rewrite Ep in Hfd. cbn [bind] in Hfd.
              exists ts1, b'. auto.
        -- split; [discriminate|]. intros (ts & b' & Ht & Hfd & _). destruct (tokenize r); [|discriminate].
           cbn in Ht. inversion Ht; subst. cbn [feed feed1] in Hfd. rewrite Ep in Hfd. discriminate.
        -- split; [discriminate|]. intros (ts & b' & Ht & Hfd & _). destruct (tokenize r); [|discriminate].
           cbn in Ht. inversion Ht; subst. cbn [feed feed1] in Hfd. rewrite Ep in Hfd. discriminate.
      * assert (E128 : (128 <=? c)%N = false) by (apply N.leb_gt; exact Hc). rewrite E128.
        destruct (try_push b c) as [b1'|e|] eqn:Ep; cbn [bind].
        -- rewrite (IH r b1' n) by (try assumption; lia). split.
           ++ intros (ts & b' & Ht & Hfd & Hfin). rewrite Ht. cbn [option_map].
              exists (TOct c :: ts), b'. cbn [feed feed1]. rewrite Ep. cbn [bind]. auto.
           ++ intros (ts & b' & Ht & Hfd & Hfin). destruct (tokenize r) as [ts1|]; [|discriminate].
              cbn in Ht. inversion Ht; subst. cbn [feed feed1] in Hfd. rewrite Ep in Hfd. cbn [bind] in Hfd.
              exists ts1, b'. auto.
        -- split; [discriminate|]. intros (ts & b' & Ht & Hfd & _). destruct (tokenize r); [|discriminate].
           cbn in Ht. inversion Ht; subst. cbn [feed feed1] in Hfd. rewrite Ep in Hfd. discriminate.
        -- split; [discriminate|]. intros (ts & b' & Ht & Hfd & _). destruct (tokenize r); [|discriminate].
           cbn in Ht. inversion Ht; subst. cbn [feed feed1] in Hfd. rewrite Ep in Hfd. discriminate.
Qed.

(* ---- FromStr accepts exactly the texts that denote a well-formed name ------------------------------------ *)

Definition tok_ok (t : tok) : Prop := match t with TOct v => (v < 256)%N | TDot => True end.

Lemma tokens_vals s ts : tokens s ts -> Forall (fun c => (c < 128)%N) s -> Forall tok_ok ts.
Proof.
  induction 1 as [|s ts H IH|c s ts H46 H92 H IH|c s ts Hd H IH|a b c s ts Ha Hb Hc Hv H IH]; intros Hasc.
  - constructor.
  - inversion Hasc; subst. constructor; [exact I|auto].
  - inversion Hasc; subst. constructor; [cbn; lia|auto].
  - inversion Hasc as [|? ? _ H1]; subst. inversion H1; subst. constructor; [cbn; lia|auto].
  - inversion Hasc as [|? ? _ H1]; subst. inversion H1 as [|? ? _ H2']; subst. inversion H2' as [|? ? _ H3']; subst.
    inversion H3'; subst. constructor; [cbn; lia|auto].
Qed.

Lemma label_toks_vals (more : list (list N)) : Forall tok_ok (flat_map label_toks more) -> Forall wf_bytes more.
Proof.
  induction more as [|l r IH]; intros H; [constructor|].
  cbn [flat_map] in H. apply Forall_app in H. destruct H as [Hl Hr]. constructor; [|auto].
  unfold label_toks in Hl. apply Forall_app in Hl. destruct Hl as [Hl _].
  unfold wf_bytes. clear -Hl. induction l as [|x l IHl]; [constructor|].
  inversion Hl; subst. constructor; [exact H1|auto].
Qed.

Lemma builder_new_repr : brepr builder_new ([], []) /\ ast_ok ([], []).
Proof. split; [repeat split|]. unfold ast_ok, awire. cbn. repeat split; try lia. constructor. Qed.

Lemma root_name_of : root_name = name_of [].
Proof. reflexivity. Qed.

Lemma map_TOct_inj (a b : list N) : map TOct a = map TOct b -> a = b.
Proof.
  revert b. induction a as [|x a IH]; intros [|y b] H; try discriminate; [reflexivity|].
  cbn in H. inversion H; subst. f_equal. auto.
Qed.

Lemma wire_len_lwire (ls : list (list N)) : wire_len ls = length (lwire ls) + 1.
Proof. unfold wire_len, wire_of. rewrite app_length. reflexivity. Qed.

Theorem name_from_str_sound s n : Forall (fun c => (c < 128)%N) s -> name_from_str s = Ok n ->
  exists ls, text_denotes s ls /\ wf_name ls /\ n = name_of ls.
Proof.
  intros Hasc H. unfold name_from_str in H. destruct s as [|c r]; [discriminate|].
  destruct ((c =? 46)%N && is_nil r) eqn:Eroot.
  - apply andb_true_iff in Eroot. destruct Eroot as [Ec Er]. apply N.eqb_eq in Ec. subst c.
    destruct r; [|discriminate]. inversion H; subst. exists []. split; [left; auto|]. split; [|apply root_name_of].
    split; [constructor|]. cbn. lia.
  - apply (loop_feed (S (length (c :: r))) (c :: r) builder_new n) in H; [|lia|exact Hasc].
    destruct H as (ts & b' & Ht & Hfd & Hfin).
    destruct builder_new_repr as [Hb0 Hok0].
    pose proof (feed_run ts builder_new ([], []) Hb0 Hok0) as Hrun.
    destruct (arun ts ([], [])) as [[ds cur]|] eqn:Erun.
    + destruct Hrun as (b'' & Hfd' & Hb'' & Hok''). rewrite Hfd in Hfd'. inversion Hfd'; subst b''.
      rewrite (finish_repr b' (ds, cur) Hb'') in Hfin. cbn [fst snd] in Hfin.
      destruct cur as [|x cur]; [|discriminate]. cbn [is_nil] in Hfin. inversion Hfin; subst n.
      destruct (arun_sound ts _ _ Erun) as (more & Hds & Hts). cbn [fst snd map app] in Hds, Hts.
      rewrite app_nil_r in Hts. subst ds ts.
      pose proof (tokenize_tokens (length (c :: r)) (c :: r) _ (le_n _) Ht) as Htok.
      exists more. split; [|split; [|reflexivity]].
      * right. split; [|exact Htok]. intros ->. cbn [flat_map] in Htok. inversion Htok.
      * destruct Hok'' as (Hf & _ & Hw). cbn [fst snd] in *. unfold awire in Hw. cbn [fst snd length] in Hw.
        split.
        -- pose proof (label_toks_vals more (tokens_vals _ _ Htok Hasc)) as Hwb.
           rewrite Forall_forall in *. intros l Hl. split; [apply Hf; exact Hl|apply Hwb; exact Hl].
        -- rewrite wire_len_lwire. lia.
    + destruct Hrun as (e & He). congruence.
Qed.

Lemma tokens_nil_inv ts : tokens [] ts -> ts = [].
Proof. inversion 1. reflexivity. Qed.

Lemma tokens_dot_inv ts : tokens [46%N] ts -> ts = [TDot].
Proof.
  intros H. inversion H as [|? ? Hr|? ? ? Hc| |]; subst; try congruence.
  apply tokens_nil_inv in Hr. subst. reflexivity.
Qed.

Theorem name_from_str_complete s ls : Forall (fun c => (c < 128)%N) s -> text_denotes s ls -> wf_name ls ->
  name_from_str s = Ok (name_of ls).
Proof.
  intros Hasc Hden (Hwf & Hlen). destruct Hden as [[-> ->]|[Hne Htok]]; [reflexivity|].
  assert (Hf : Forall (fun l : list N => 1 <= length l <= 63) ls).
  { rewrite Forall_forall in *. intros l Hl. apply Hwf. exact Hl. }
  unfold name_from_str. destruct s as [|c r].
  - exfalso. apply tokens_nil_inv in Htok. destruct ls as [|l ls']; [congruence|].
    cbn [flat_map] in Htok. unfold label_toks in Htok. destruct (map TOct l); discriminate.
  - destruct ((c =? 46)%N && is_nil r) eqn:Eroot.
    + exfalso. apply andb_true_iff in Eroot. destruct Eroot as [Ec Er]. apply N.eqb_eq in Ec. subst c.
      destruct r; [|discriminate]. apply tokens_dot_inv in Htok.
      destruct ls as [|l ls']; [congruence|]. cbn [flat_map] in Htok. unfold label_toks in Htok.
      inversion Hf as [|? ? Hl _]; subst. destruct l as [|x l]; [cbn in Hl; lia|]. cbn in Htok.
      destruct l; discriminate.
    + apply (loop_feed (S (length (c :: r))) (c :: r) builder_new (name_of ls)); [lia|exact Hasc|].
      destruct builder_new_repr as [Hb0 Hok0].
      pose proof (feed_run (flat_map label_toks ls) builder_new ([], []) Hb0 Hok0) as Hrun.
      rewrite (arun_complete ls [] Hf) in Hrun by (cbn [app]; rewrite wire_len_lwire in Hlen; lia).
      destruct Hrun as (b' & Hfd & Hb' & _). cbn [app] in Hb'.
      exists (flat_map label_toks ls), b'. split; [apply tokens_tokenize; exact Htok|]. split; [exact Hfd|].
      rewrite (finish_repr b' (ls, []) Hb'). reflexivity.
Qed.

(* never a panic, never out of fuel *)
Lemma feed1_total b st t : brepr b st -> ast_ok st -> feed1 b t <> Panic.
Proof.
  intros Hb Hok. pose proof (feed1_step b st t Hb Hok) as H. destruct (astep st t).
  - destruct H as (b' & E & _). congruence.
  - destruct H as (e & E). congruence.
Qed.

(* ---- Display ------------------------------------------------------------------------------------------------ *)

Definition octet_text_ok (b : N) : bool :=
  match tokenize (label_octet_text b) with
  | Some [TOct v] => (v =? b)%N
  | _ => false
  end && forallb (fun c => (c <? 128)%N) (label_octet_text b).

Lemma octet_text_sweep : forallb octet_text_ok (upto 256) = true.
Proof. vm_compute. reflexivity. Qed.

Lemma label_octet_tokens b : (b < 256)%N ->
  tokens (label_octet_text b) [TOct b] /\ Forall (fun c => (c < 128)%N) (label_octet_text b).
Proof.
  intros Hb. pose proof octet_text_sweep as H. rewrite forallb_forall in H.
  specialize (H b (upto_In 256 b Hb)). unfold octet_text_ok in H. apply andb_true_iff in H. destruct H as [H1 H2].
  split.
  - destruct (tokenize (label_octet_text b)) as [[|[v|] [|? ?]]|] eqn:E; try discriminate.
    apply N.eqb_eq in H1. subst v. apply (tokenize_tokens _ _ _ (le_n _) E).
  - rewrite forallb_forall in H2. apply Forall_forall. intros c Hc. apply N.ltb_lt. apply H2. exact Hc.
Qed.

Lemma label_text_tokens (l : list N) : wf_bytes l ->
  tokens (label_to_text l) (map TOct l) /\ Forall (fun c => (c < 128)%N) (label_to_text l).
Proof.
  induction l as [|b l IH]; intros H; [split; constructor|].
  inversion H; subst. destruct (label_octet_tokens b H2) as [T1 A1]. destruct (IH H3) as [T2 A2].
  unfold label_to_text. cbn [flat_map map]. split.
  - apply (tokens_app _ _ T1 _ _ T2).
  - apply Forall_app. auto.
Qed.

Definition dotted_text (ls : list (list N)) : list N := flat_map (fun l => label_to_text l ++ [46%N]) ls.

Lemma dotted_join r : forall l0 : list N,
  label_to_text l0 ++ flat_map (fun l => 46%N :: label_to_text l) (r ++ [[]]) = dotted_text (l0 :: r).
Proof.
  induction r as [|l1 r IH]; intros l0; unfold dotted_text in *; cbn [app flat_map].
  - cbn. rewrite app_nil_r. reflexivity.
  - rewrite <- app_assoc. cbn [app]. f_equal. f_equal. rewrite IH. reflexivity.
Qed.

Lemma dotted_tokens (ls : list (list N)) : Forall wf_bytes ls ->
  tokens (dotted_text ls) (flat_map label_toks ls) /\ Forall (fun c => (c < 128)%N) (dotted_text ls).
Proof.
  induction ls as [|l r IH]; intros H; [split; constructor|].
  inversion H; subst. destruct (label_text_tokens l H2) as [T1 A1]. destruct (IH H3) as [T2 A2].
  unfold dotted_text. cbn [flat_map]. split.
  - unfold label_toks at 1. rewrite <- !app_assoc. apply (tokens_app _ _ T1). cbn [app]. apply tk_dot. exact T2.
  - apply Forall_app. split; [|exact A2]. apply Forall_app. split; [exact A1|]. constructor; [lia|constructor].
Qed.

Theorem name_to_text_spec ls : wire_len ls <= 255 ->
  name_to_text (name_of ls) = Ok (match ls with [] => [46%N] | _ => dotted_text ls end).
Proof.
  intros Hlen. unfold name_to_text. rewrite name_len_name_of. destruct ls as [|l0 r]; [reflexivity|].
  cbn [length Nat.leb]. rewrite (labels_name_of _ Hlen). cbn [bind]. unfold all_labels. cbn [app].
  rewrite dotted_join. reflexivity.
Qed.

(* rendering then parsing gives the identical value (offsets and wire form) *)
Theorem text_roundtrip ls : wf_name ls ->
  exists t, name_to_text (name_of ls) = Ok t /\ Forall (fun c => (c < 128)%N) t /\ text_denotes t ls /\
            name_from_str t = Ok (name_of ls).
Proof.
  intros Hwf. pose proof Hwf as (Hf & Hlen). rewrite (name_to_text_spec ls Hlen).
  eexists. split; [reflexivity|].
  assert (Hwb : Forall wf_bytes ls).
  { rewrite Forall_forall in *. intros l Hl. apply (Hf l Hl). }
  destruct ls as [|l0 r].
  - split; [constructor; [lia|constructor]|]. split; [left; auto|reflexivity].
  - destruct (dotted_tokens (l0 :: r) Hwb) as [T A]. split; [exact A|].
    assert (Hden : text_denotes (dotted_text (l0 :: r)) (l0 :: r)) by (right; split; [discriminate|exact T]).
    split; [exact Hden|]. apply name_from_str_complete; assumption.
Qed.

Theorem name_from_str_iff s n : is_ascii_text s ->
  (name_from_str s = Ok n <-> exists ls, text_denotes s ls /\ wf_name ls /\ n = name_of ls).
Proof.
  intros Hasc. split.
  - apply name_from_str_sound. exact Hasc.
  - intros (ls & Hd & Hwf & ->). apply name_from_str_complete; assumption.
Qed.

(* a finished builder holds a name within RFC 1035's limits *)
Theorem builder_finish b st : brepr b st -> ast_ok st ->
  finish b = (if is_nil (snd st) then Ok (name_of (fst st)) else Err NonNullTerminal) /\
  (snd st = [] -> Forall (fun l : list N => 1 <= length l <= 63) (fst st) /\ wire_len (fst st) <= 255).
Proof.
  intros Hb (Hf & _ & Hw). split; [apply finish_repr; exact Hb|].
  intros E. split; [exact Hf|]. unfold awire in Hw. rewrite E in Hw. cbn [length] in Hw.
  rewrite wire_len_lwire. lia.
Qed.
