(* Top-level refinement statements for the zone store: lookups (C06) *)
From QV Require Import Base.Res Base.Octets Base.ListX Gen.ZoneConsts Model.ZoneTree Spec.ZoneLookupS
  Proofs.ZoneBaseP Proofs.ZoneRrsetP Proofs.ZoneViewP Proofs.ZoneInvP Proofs.ZoneLookupP.

(* ---- sort_u *)
Fixpoint ssorted (l : list N) : Prop :=
  match l with
  | [] => True
  | x :: l' => Forall (fun y => (x < y)%N) l' /\ ssorted l'
  end.

Lemma ins_u_In x l y : In y (ins_u x l) <-> y = x \/ In y l.
Proof.
  induction l as [|z l IH]; simpl.
  - intuition.
  - destruct (x <? z)%N eqn:L; [simpl; intuition|].
    destruct (x =? z)%N eqn:E.
    + apply N.eqb_eq in E. subst z. simpl. intuition.
    + simpl. rewrite IH. intuition.
Qed.

Lemma ins_u_sorted x l : ssorted l -> ssorted (ins_u x l).
Proof.
  induction l as [|z l IH]; simpl; intros H.
  - split; auto.
  - destruct H as [F S]. destruct (x <? z)%N eqn:L.
    + apply N.ltb_lt in L. simpl. split; [|split; auto].
      constructor; auto. eapply Forall_impl; [|exact F]. simpl. intros; lia.
    + apply N.ltb_ge in L. destruct (x =? z)%N eqn:E; [simpl; auto|].
      apply N.eqb_neq in E. simpl. split; [|apply IH; auto].
      rewrite Forall_forall. intros y Hy. apply ins_u_In in Hy. destruct Hy as [->|Hy]; [lia|].
      rewrite Forall_forall in F. auto.
Qed.

Lemma sort_u_In l y : In y (sort_u l) <-> In y l.
Proof.
  induction l as [|x l IH]; simpl; [tauto|]. rewrite ins_u_In, IH. intuition.
Qed.

Lemma sort_u_sorted l : ssorted (sort_u l).
Proof. induction l as [|x l IH]; simpl; auto. apply ins_u_sorted. exact IH. Qed.

Section Top.
Variable req : N -> N -> bytes -> bytes -> bool.
Hypothesis req_trans : forall cls ty a b c,
  req cls ty a b = true -> req cls ty b c = true -> req cls ty a c = true.
Variable apex : name.
Variable cls : N.

(* ---- all RRsets of a name *)
Section AllRrsets.
Variable R : list record.
Variable m : name.

Let g (ty : N) : rrset_list := match spec_rrset req cls R m ty with Some rs => [rs] | None => [] end.

Lemma spec_rrset_some_type ty rs : spec_rrset req cls R m ty = Some rs -> In ty (types_at R m).
Proof.
  unfold spec_rrset, types_at. intros H. apply sort_u_In.
  destruct (records_at R m ty) as [|r0 rest] eqn:E; [discriminate|].
  assert (Hin : In r0 (records_at R m ty)) by (rewrite E; left; reflexivity).
  unfold records_at in Hin. apply filter_In in Hin. destruct Hin as [Hin Hp].
  apply andb_true_iff in Hp. destruct Hp as [Hp Ht]. apply N.eqb_eq in Ht.
  apply in_map_iff. exists r0. split; auto. apply filter_In. split; auto.
Qed.

Lemma flat_lookup tys ty :
  rr_lookup ty (flat_map g tys) = if existsb (N.eqb ty) tys then spec_rrset req cls R m ty else None.
Proof.
  induction tys as [|a tys IH]; simpl; auto.
  unfold g at 1. destruct (spec_rrset req cls R m a) as [rs|] eqn:Sa; simpl.
  - rewrite (spec_rrset_type req cls R m a rs Sa).
    rewrite (N.eqb_sym ty a). destruct (a =? ty)%N eqn:E; simpl.
    + apply N.eqb_eq in E. subst a. symmetry. exact Sa.
    + exact IH.
  - rewrite IH. destruct (ty =? a)%N eqn:E; simpl; auto.
    apply N.eqb_eq in E. subst a. rewrite Sa. destruct (existsb (N.eqb ty) tys); reflexivity.
Qed.

Lemma flat_types tys x : In x (flat_map g tys) -> In (rs_type x) tys.
Proof.
  intros H. apply in_flat_map in H. destruct H as (ty & Hty & Hx). unfold g in Hx.
  destruct (spec_rrset req cls R m ty) as [rs|] eqn:S; [|destruct Hx].
  destruct Hx as [<-|[]]. rewrite (spec_rrset_type req cls R m ty rs S). exact Hty.
Qed.

Lemma flat_sorted tys : ssorted tys -> sorted_rr (flat_map g tys).
Proof.
  induction tys as [|a tys IH]; simpl; auto. intros [F S].
  unfold g at 1. destruct (spec_rrset req cls R m a) as [rs|] eqn:Sa; simpl; auto.
  split; auto. rewrite Forall_forall. intros x Hx. apply flat_types in Hx.
  rewrite (spec_rrset_type req cls R m a rs Sa). rewrite Forall_forall in F. auto.
Qed.

Lemma spec_rrsets_ok : rrsets_ok req cls R m (spec_rrsets req cls R m).
Proof.
  unfold spec_rrsets. fold g. split.
  - apply flat_sorted. apply sort_u_sorted.
  - intros ty. rewrite flat_lookup.
    destruct (existsb (N.eqb ty) (types_at R m)) eqn:E; auto.
    destruct (spec_rrset req cls R m ty) as [rs|] eqn:S; auto.
    apply spec_rrset_some_type in S.
    assert (existsb (N.eqb ty) (types_at R m) = true).
    { apply existsb_exists. exists ty. split; auto. apply N.eqb_refl. }
    congruence.
Qed.

Lemma rrsets_ok_unique d : rrsets_ok req cls R m d -> d = spec_rrsets req cls R m.
Proof.
  intros [S L]. destruct spec_rrsets_ok as [S' L'].
  apply sorted_rr_ext; auto. intros ty. rewrite L, L'. reflexivity.
Qed.

End AllRrsets.

(* ---- lookup_base *)
Lemma skipn_app_exact {A} (a b : list A) : skipn (length a) (a ++ b) = b.
Proof. induction a; simpl; auto. Qed.

Lemma in_zone_skipn qn : in_zone apex qn = true ->
  skipn (length qn - length apex) (lc qn) = lc apex.
Proof.
  intros Z. destruct (in_zone_split apex qn Z) as (Hl & Hla & Ho). cbv zeta in Hl, Ho.
  rewrite Ho.
  replace (length qn - length apex) with (length (lc (firstn (length qn - length apex) qn))) at 1.
  - apply skipn_app_exact.
  - rewrite lc_length, firstn_length. lia.
Qed.

Lemma spec_lookup_base_in R qn u sbc : in_zone apex qn = true ->
  spec_lookup_base req apex cls R qn u sbc =
    Some (spec_from req apex cls R (lc qn) (length qn - length apex) false sbc).
Proof.
  intros Z. unfold spec_lookup_base. rewrite Z. cbn [negb]. f_equal.
  destruct (in_zone_split apex qn Z) as (Hl & Hla & Ho). cbv zeta in Hl, Ho.
  unfold spec_from, spec_tail, path_below, tailc. rewrite lc_length. simpl app.
  pose proof (in_zone_skipn qn Z) as Hs.
  rewrite Hs. reflexivity.
Qed.

Lemma lookup_base_spec z R qn u sbc : Inv req apex cls z R ->
  (u = true -> in_zone apex qn = true) ->
  exists b s, lookup_base z qn u sbc = Ok b /\
              spec_lookup_base req apex cls R qn u sbc = Some s /\
              base_rel req cls R b s.
Proof.
  intros (Hn & Hc & Hv) Hu. unfold lookup_base. rewrite Hn, eq_or_subdomain_of_in_zone.
  destruct (in_zone apex qn) eqn:Z.
  - rewrite andb_false_r.
    destruct (in_zone_split apex qn Z) as (Hl & Hla & Ho). cbv zeta in Hl, Ho.
    unfold name_len. rewrite usub_ok by lia. cbn [bind].
    replace (S (length qn) - S (length apex)) with (length qn - length apex) by lia.
    rewrite (spec_lookup_base_in R qn u sbc Z).
    destruct (lookup_impl_spec req apex cls R qn sbc (length qn - length apex) (z_apex z) [] true)
      as (b & Hb & Hrel); auto.
    + unfold pname. simpl. symmetry. apply in_zone_skipn. exact Z.
    + discriminate.
    + exists b. eexists. split; [exact Hb|]. split; [reflexivity|exact Hrel].
  - destruct u; [specialize (Hu eq_refl); discriminate|]. simpl.
    exists BWrongZone, SWrongZone. split; [reflexivity|]. split; [|exact I].
    unfold spec_lookup_base. rewrite Z. reflexivity.
Qed.

Lemma single_of_lookup R m ty d : rrsets_ok req cls R m d ->
  single_of req cls R m ty = option_map to_single (rr_lookup ty d).
Proof.
  intros [_ L]. unfold single_of. rewrite L. destruct (spec_rrset req cls R m ty); reflexivity.
Qed.

Lemma referral_ns_of R c ns : single_of req cls R c 2 = Some ns -> referral_ns req cls R c = ns.
Proof. unfold referral_ns. intros ->. reflexivity. Qed.

Theorem zone_lookup_refines z R qn ty u sbc : Inv req apex cls z R ->
  (u = true -> in_zone apex qn = true) ->
  exists r, zone_lookup z qn ty u sbc = Ok r /\
            spec_lookup req apex cls R qn ty u sbc = Some (norm_lookup r).
Proof.
  intros HI Hu. destruct (lookup_base_spec z R qn u sbc HI Hu) as (b & s & Hb & Hs & Hrel).
  unfold zone_lookup, spec_lookup. rewrite Hb, Hs. cbn [bind].
  eexists; split; [reflexivity|]. f_equal.
  destruct b as [data sos|c ns| |], s as [m sos'|c'| |]; simpl in Hrel; try contradiction; try reflexivity.
  - destruct Hrel as [Hok <-].
    rewrite (single_of_lookup R m ty data Hok), (single_of_lookup R m 5%N data Hok).
    change TYPE_CNAME with 5%N.
    destruct (rr_lookup ty data); simpl; auto.
    destruct (rr_lookup 5 data); reflexivity.
  - destruct Hrel as [<- Hns]. rewrite (referral_ns_of _ _ _ Hns). reflexivity.
Qed.

Theorem zone_lookup_addrs_refines z R qn u sbc : Inv req apex cls z R ->
  (u = true -> in_zone apex qn = true) ->
  exists r, zone_lookup_addrs z qn u sbc = Ok r /\
            spec_lookup_addrs req apex cls R qn u sbc = Some (norm_addrs r).
Proof.
  intros HI Hu. destruct (lookup_base_spec z R qn u sbc HI Hu) as (b & s & Hb & Hs & Hrel).
  unfold zone_lookup_addrs, spec_lookup_addrs. rewrite Hb, Hs. cbn [bind].
  eexists; split; [reflexivity|]. f_equal.
  destruct HI as (_ & Hc & _). rewrite Hc.
  destruct b as [data sos|c ns| |], s as [m sos'|c'| |]; simpl in Hrel; try contradiction; try reflexivity.
  - destruct Hrel as [Hok <-].
    rewrite (single_of_lookup R m 1%N data Hok), (single_of_lookup R m 28%N data Hok).
    reflexivity.
  - destruct Hrel as [<- Hns]. rewrite (referral_ns_of _ _ _ Hns). reflexivity.
Qed.

Theorem zone_lookup_all_refines z R qn u sbc : Inv req apex cls z R ->
  (u = true -> in_zone apex qn = true) ->
  exists r, zone_lookup_all z qn u sbc = Ok r /\
            spec_lookup_all req apex cls R qn u sbc = Some (norm_all r).
Proof.
  intros HI Hu. destruct (lookup_base_spec z R qn u sbc HI Hu) as (b & s & Hb & Hs & Hrel).
  unfold zone_lookup_all, spec_lookup_all. rewrite Hb, Hs. cbn [bind].
  eexists; split; [reflexivity|]. f_equal.
  destruct b as [data sos|c ns| |], s as [m sos'|c'| |]; simpl in Hrel; try contradiction; try reflexivity.
  - destruct Hrel as [Hok <-]. simpl. rewrite (rrsets_ok_unique R m data Hok). reflexivity.
  - destruct Hrel as [<- Hns]. rewrite (referral_ns_of _ _ _ Hns). reflexivity.
Qed.

End Top.

(* ---- the unchecked lookup of a name outside the zone (caller contract broken) *)
Lemma lookup_impl_names level : forall t nm nm' sbc at_apex,
  (forall l, l < level -> name_index nm l = name_index nm' l) ->
  lookup_impl level t nm sbc at_apex = lookup_impl level t nm' sbc at_apex.
Proof.
  induction level as [|l IH]; intros t nm nm' sbc at_apex H; rewrite !(lookup_impl_unfold _ t); auto.
  destruct (if negb at_apex && negb sbc then rr_lookup TYPE_NS (node_data t) else None); auto.
  rewrite (H l) by lia. destruct (name_index nm' l) as [lab| |]; simpl; auto.
  destruct (find_child lab (node_children t)); auto.
Qed.

Lemma nth_error_firstn_lt {A} (l : list A) n k : k < n -> nth_error (firstn n l) k = nth_error l k.
Proof.
  revert n k; induction l as [|x l IH]; intros n k H.
  - rewrite firstn_nil. reflexivity.
  - destruct n; [lia|]. destruct k; simpl; auto. apply IH. lia.
Qed.

Lemma lookup_base_unchecked_outside z qn sbc :
  (length qn < length (zone_name z) -> lookup_base z qn true sbc = Panic) /\
  (length (zone_name z) <= length qn ->
   lookup_base z qn true sbc =
   lookup_base z (firstn (length qn - length (zone_name z)) qn ++ zone_name z) true sbc).
Proof.
  unfold lookup_base. cbn [negb andb]. split; intros H.
  - unfold usub, name_len. destruct (S (length (zone_name z)) <=? S (length qn)) eqn:E; auto.
    apply Nat.leb_le in E. lia.
  - unfold name_len. rewrite !usub_ok by (try rewrite app_length, firstn_length; lia). cbn [bind].
    rewrite app_length, firstn_length.
    replace (S (Nat.min (length qn - length (zone_name z)) (length qn) + length (zone_name z)) - S (length (zone_name z)))
      with (S (length qn) - S (length (zone_name z))) by lia.
    apply lookup_impl_names. intros l Hl. unfold name_index.
    rewrite nth_error_app1 by (rewrite firstn_length; lia).
    rewrite nth_error_firstn_lt by lia.
    destruct (nth_error qn l) eqn:E; auto. apply nth_error_None in E. lia.
Qed.

(* ---- closing statements over whole add histories *)
Section Final.
Variable req : N -> N -> bytes -> bytes -> bool.
Hypothesis req_trans : forall cls ty a b c,
  req cls ty a b = true -> req cls ty b c = true -> req cls ty a c = true.

Lemma build_total apex cls wide recs :
  exists z, zone_build req (zone_new apex cls wide) recs = Some z.
Proof. destruct (zone_build_new req req_trans apex cls recs wide) as (z & H & _). eauto. Qed.

Lemma build_inv apex cls wide recs z : zone_build req (zone_new apex cls wide) recs = Some z ->
  Inv req apex cls z (accepted apex cls recs).
Proof.
  intros H. destruct (zone_build_new req req_trans apex cls recs wide) as (z' & H' & HI).
  rewrite H in H'. inversion H'; subst. exact HI.
Qed.

Lemma build_lookup_refines apex cls wide recs z qn ty u sbc :
  zone_build req (zone_new apex cls wide) recs = Some z ->
  (u = true -> in_zone apex qn = true) ->
  exists r, zone_lookup z qn ty u sbc = Ok r /\
            spec_lookup req apex cls (accepted apex cls recs) qn ty u sbc = Some (norm_lookup r).
Proof. intros H. apply zone_lookup_refines. eapply build_inv; eauto. Qed.

Lemma build_lookup_addrs_refines apex cls wide recs z qn u sbc :
  zone_build req (zone_new apex cls wide) recs = Some z ->
  (u = true -> in_zone apex qn = true) ->
  exists r, zone_lookup_addrs z qn u sbc = Ok r /\
            spec_lookup_addrs req apex cls (accepted apex cls recs) qn u sbc = Some (norm_addrs r).
Proof. intros H. apply zone_lookup_addrs_refines. eapply build_inv; eauto. Qed.

Lemma build_lookup_all_refines apex cls wide recs z qn u sbc :
  zone_build req (zone_new apex cls wide) recs = Some z ->
  (u = true -> in_zone apex qn = true) ->
  exists r, zone_lookup_all z qn u sbc = Ok r /\
            spec_lookup_all req apex cls (accepted apex cls recs) qn u sbc = Some (norm_all r).
Proof. intros H. apply zone_lookup_all_refines. eapply build_inv; eauto. Qed.

End Final.

Lemma unchecked_outside z qn ty sbc :
  (length qn < length (zone_name z) ->
     zone_lookup z qn ty true sbc = Panic /\ zone_lookup_addrs z qn true sbc = Panic /\
     zone_lookup_all z qn true sbc = Panic) /\
  (length (zone_name z) <= length qn ->
     let qn' := firstn (length qn - length (zone_name z)) qn ++ zone_name z in
     zone_lookup z qn ty true sbc = zone_lookup z qn' ty true sbc /\
     zone_lookup_addrs z qn true sbc = zone_lookup_addrs z qn' true sbc /\
     zone_lookup_all z qn true sbc = zone_lookup_all z qn' true sbc).
Proof.
  destruct (lookup_base_unchecked_outside z qn sbc) as [H1 H2].
  unfold zone_lookup, zone_lookup_addrs, zone_lookup_all. split; intros H.
  - rewrite (H1 H). auto.
  - cbv zeta. rewrite (H2 H). auto.
Qed.

(* the runner's instance of Rdata::equals satisfies the hypothesis of the theorems *)
Lemma req_simple_trans cls ty a b c :
  req_simple cls ty a b = true -> req_simple cls ty b c = true -> req_simple cls ty a c = true.
Proof.
  unfold req_simple. destruct (is_name_type ty); rewrite !bytes_eqb_eq; congruence.
Qed.
