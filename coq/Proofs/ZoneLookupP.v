(* lookup_impl on a tree satisfying the abstraction invariant computes the RFC 1034/4592
   specification on the flat record list. *)
From QV Require Import Base.Res Base.Octets Base.ListX Gen.ZoneConsts Model.ZoneTree Spec.ZoneLookupS
  Proofs.ZoneBaseP Proofs.ZoneRrsetP Proofs.ZoneViewP Proofs.ZoneInvP.

(* ---- list helpers *)
Lemma skipn_nth_cons {A} (l : list A) k d : k < length l -> skipn k l = nth k l d :: skipn (S k) l.
Proof.
  revert k; induction l as [|x l IH]; intros k H; simpl in *; [lia|].
  destruct k; simpl; auto. apply IH. lia.
Qed.

Lemma last_cons_default {A} (x : A) l d d' : last (x :: l) d = last (x :: l) d'.
Proof.
  revert x; induction l as [|y l IH]; intros x; simpl; auto.
  apply IH.
Qed.

Definition tailc (n : name) (level : nat) : list name :=
  map (fun k => skipn k n) (rev (seq 0 level)).

Lemma tailc_S n l : tailc n (S l) = skipn l n :: tailc n l.
Proof. unfold tailc. rewrite seq_S, rev_app_distr. reflexivity. Qed.

Lemma tailc_In n level m : In m (tailc n level) -> exists k, k < level /\ m = skipn k n.
Proof.
  unfold tailc. intros H. apply in_map_iff in H. destruct H as (k & E & Hin).
  apply in_rev in Hin. apply in_seq in Hin. exists k. split; [lia|auto].
Qed.

Lemma skipn_suffix (n : name) k l : k <= l -> is_suffixb (skipn l n) (skipn k n) = true.
Proof.
  intros H. apply is_suffixb_iff. exists (firstn (l - k) (skipn k n)).
  replace (skipn l n) with (skipn (l - k) (skipn k n)).
  - symmetry. apply firstn_skipn.
  - rewrite skipn_plus. f_equal. lia.
Qed.

Lemma lower_asterisk : map lower ASTERISK_LABEL = [42%N].
Proof. reflexivity. Qed.

Section Lookup.
Variable req : N -> N -> bytes -> bytes -> bool.
Variable apex : name.
Variable cls : N.
Variable R : list record.

Notation ex := (exists_name apex R).
Notation cut := (is_cut req apex cls R).

(* ---- existence is closed under taking ancestors down to the apex *)
Lemma exists_name_up m m' : ex m' = true -> is_suffixb m m' = true ->
  length (lc apex) <= length m -> ex m = true.
Proof.
  unfold exists_name. intros H S L. apply orb_true_iff in H. destruct H as [H|H].
  - apply name_eqb_eq in H. subst m'. apply is_suffixb_iff in S. destruct S as [q S].
    assert (q = []).
    { apply (f_equal (@length _)) in S. rewrite app_length in S. destruct q; auto. simpl in S. lia. }
    subst q. simpl in S. subst m. rewrite name_eqb_refl. reflexivity.
  - apply orb_true_iff. right. apply existsb_exists in H. destruct H as (r & Hin & Hs).
    apply existsb_exists. exists r. split; auto. eapply is_suffixb_trans; eauto.
Qed.

Lemma rrset_exists m ty rs : spec_rrset req cls R m ty = Some rs -> ex m = true.
Proof.
  intros H. destruct (ex m) eqn:E; auto.
  rewrite (no_records_if_absent req apex cls R m ty E) in H. discriminate.
Qed.

Lemma cut_exists m : cut m = true -> ex m = true.
Proof.
  unfold is_cut. intros H. apply andb_true_iff in H. destruct H as [_ H].
  destruct (spec_rrset req cls R m 2) eqn:E; [|discriminate]. eapply rrset_exists; eauto.
Qed.

Lemma cut_below m : length (lc apex) < length m ->
  cut m = match spec_rrset req cls R m 2 with Some _ => true | None => false end.
Proof.
  intros L. unfold is_cut.
  assert (name_eqb m (lc apex) = false).
  { apply name_eqb_neq. intros E. subst m. lia. }
  rewrite H. reflexivity.
Qed.

(* ---- the specification, generalised to a walk that has reached the name skipn level n *)
Definition spec_tail (n : name) (level : nat) : spec_base :=
  if ex n then SData n None
  else
    let ce := last (filter ex (skipn level n :: tailc n level)) (skipn level n) in
    let w := [42%N] :: ce in
    if ex w then SData w (Some w) else SNxDomain.

Definition spec_rest (n : name) (level : nat) (sbc : bool) : spec_base :=
  match (if sbc then None else find cut (tailc n level)) with
  | Some c => SReferral c
  | None => spec_tail n level
  end.

Definition spec_from (n : name) (level : nat) (chk sbc : bool) : spec_base :=
  match (if sbc then None else find cut ((if chk then [skipn level n] else []) ++ tailc n level)) with
  | Some c => SReferral c
  | None => spec_tail n level
  end.

Lemma spec_from_split n level chk sbc :
  spec_from n level chk sbc =
    if chk && negb sbc && cut (skipn level n) then SReferral (skipn level n) else spec_rest n level sbc.
Proof.
  unfold spec_from, spec_rest. destruct chk, sbc; simpl; auto.
  destruct (cut (skipn level n)); reflexivity.
Qed.

Lemma spec_rest_0 n sbc : ex n = true -> spec_rest n 0 sbc = SData n None.
Proof.
  intros E. unfold spec_rest, spec_tail. simpl. rewrite E. destruct sbc; reflexivity.
Qed.

Lemma spec_rest_child n l sbc : ex (skipn (S l) n) = true -> ex (skipn l n) = true ->
  spec_rest n (S l) sbc = spec_from n l true sbc.
Proof.
  intros E1 E2. unfold spec_rest, spec_from, spec_tail. rewrite tailc_S. simpl app.
  destruct (if sbc then None else find cut (skipn l n :: tailc n l)); auto.
  destruct (ex n); auto.
  cbn [filter]. rewrite E1, E2.
  replace (last (skipn (S l) n :: skipn l n :: filter ex (tailc n l)) (skipn (S l) n))
    with (last (skipn l n :: filter ex (tailc n l)) (skipn (S l) n)) by reflexivity.
  rewrite (last_cons_default _ _ (skipn (S l) n) (skipn l n)). reflexivity.
Qed.

Lemma tailc_absent n l : ex (skipn l n) = false -> length (lc apex) <= length (skipn l n) ->
  forall m, In m (tailc n (S l)) -> ex m = false.
Proof.
  intros E L m Hin. apply tailc_In in Hin. destruct Hin as (k & Hk & ->).
  destruct (ex (skipn k n)) eqn:F; auto.
  rewrite (exists_name_up (skipn l n) (skipn k n) F) in E; auto.
  apply skipn_suffix. lia.
Qed.

Lemma filter_none {A} (P : A -> bool) l : (forall x, In x l -> P x = false) -> filter P l = [].
Proof.
  induction l as [|x l IH]; intros H; simpl; auto.
  rewrite (H x) by (left; reflexivity). apply IH. intros y Hy. apply H. right. exact Hy.
Qed.

Lemma find_none {A} (P : A -> bool) l : (forall x, In x l -> P x = false) -> find P l = None.
Proof.
  induction l as [|x l IH]; intros H; simpl; auto.
  rewrite (H x) by (left; reflexivity). apply IH. intros y Hy. apply H. right. exact Hy.
Qed.

Lemma spec_rest_nochild n l sbc : ex (skipn (S l) n) = true -> ex (skipn l n) = false ->
  length (lc apex) <= length (skipn l n) ->
  spec_rest n (S l) sbc =
    let w := [42%N] :: skipn (S l) n in if ex w then SData w (Some w) else SNxDomain.
Proof.
  intros E1 E2 L. pose proof (tailc_absent n l E2 L) as Habs.
  unfold spec_rest, spec_tail.
  assert (Hf : find cut (tailc n (S l)) = None).
  { apply find_none. intros m Hm. destruct (cut m) eqn:C; auto.
    apply cut_exists in C. rewrite (Habs m Hm) in C. discriminate. }
  rewrite Hf.
  assert (Hn : ex n = false).
  { apply Habs. rewrite tailc_S. destruct l.
    - left. reflexivity.
    - right. unfold tailc. apply in_map_iff. exists 0. split; auto. apply in_rev. rewrite rev_involutive.
      apply in_seq. lia. }
  rewrite Hn.
  cbn [filter]. rewrite E1. rewrite (filter_none _ _ Habs). simpl last.
  destruct sbc; reflexivity.
Qed.

(* ---- how a model answer realises a spec answer *)
Definition base_rel (b : base_result) (s : spec_base) : Prop :=
  match b, s with
  | BFound data sos, SData m sos' => rrsets_ok req cls R m data /\ option_map lc sos = sos'
  | BReferral c ns, SReferral c' => lc c = c' /\ single_of req cls R c' 2 = Some ns
  | BNxDomain, SNxDomain => True
  | BWrongZone, SWrongZone => True
  | _, _ => False
  end.

Lemma lookup_impl_unfold level t nm sbc at_apex :
  lookup_impl level t nm sbc at_apex =
  match (if negb at_apex && negb sbc then rr_lookup TYPE_NS (node_data t) else None) with
  | Some ns => Ok (BReferral (node_name t) (to_single ns))
  | None =>
    match level with
    | 0 => Ok (BFound (node_data t) None)
    | S l =>
      let* lab := name_index nm l in
      match find_child lab (node_children t) with
      | Some sub => lookup_impl l sub nm sbc false
      | None =>
        match find_child ASTERISK_LABEL (node_children t) with
        | Some w => Ok (BFound (node_data w) (Some (node_name w)))
        | None => Ok BNxDomain
        end
      end
    end
  end.
Proof. destruct level; reflexivity. Qed.

Variable qn : name.
Variable sbc : bool.

Lemma pname_snoc P x : pname apex (P ++ [x]) = map lower x :: pname apex P.
Proof. unfold pname. rewrite rev_app_distr. simpl. rewrite lc_cons. reflexivity. Qed.

Lemma pname_length P : length (pname apex P) = length P + length (lc apex).
Proof. unfold pname. rewrite lc_length, app_length, rev_length, lc_length. reflexivity. Qed.

Lemma lookup_impl_spec : forall level t P at_apex,
  level <= length qn ->
  (forall p, node_ok req apex cls R (P ++ p) (view p t)) ->
  pname apex P = skipn level (lc qn) ->
  (at_apex = false -> P <> []) ->
  exists b, lookup_impl level t qn sbc at_apex = Ok b /\
            base_rel b (spec_from (lc qn) level (negb at_apex) sbc).
Proof.
  set (n := lc qn).
  induction level as [|l IH]; intros t P at_apex Hl Hok HP Hat.
  - (* the target node *)
    rewrite lookup_impl_unfold, spec_from_split.
    pose proof (Hok []) as H0. rewrite app_nil_r in H0. cbn [view] in H0.
    destruct H0 as (Hex & Hnm & Hrr). rewrite HP in *. change (skipn 0 n) with n in *.
    destruct (negb at_apex && negb sbc) eqn:Chk.
    + assert (Hlen : length (lc apex) < length n).
      { rewrite <- HP, pname_length. destruct P; [|simpl; lia].
        destruct at_apex; [discriminate|]. exfalso. apply Hat; auto. }
      rewrite (cut_below _ Hlen). destruct Hrr as [Hs Hl'].
      change TYPE_NS with 2%N. rewrite Hl'.
      destruct (spec_rrset req cls R n 2) as [rs|] eqn:Sp.
      * eexists; split; [reflexivity|]. simpl. split; auto.
        unfold single_of. rewrite Sp. reflexivity.
      * eexists; split; [reflexivity|]. rewrite spec_rest_0 by exact Hex.
        simpl. split; [split; auto|reflexivity].
    + eexists; split; [reflexivity|]. rewrite spec_rest_0 by exact Hex.
      simpl. split; [exact Hrr|reflexivity].
  - rewrite lookup_impl_unfold, spec_from_split.
    pose proof (Hok []) as H0. rewrite app_nil_r in H0. cbn [view] in H0.
    destruct H0 as (Hex & Hnm & Hrr). rewrite HP in *.
    assert (Hge : length (lc apex) <= length (skipn (S l) n)).
    { rewrite <- HP, pname_length. lia. }
    (* the part after the referral check at this node *)
    assert (Hrest : exists b,
      (let* lab := name_index qn l in
       match find_child lab (node_children t) with
       | Some sub => lookup_impl l sub qn sbc false
       | None =>
         match find_child ASTERISK_LABEL (node_children t) with
         | Some w => Ok (BFound (node_data w) (Some (node_name w)))
         | None => Ok BNxDomain
         end
       end) = Ok b /\ base_rel b (spec_rest n (S l) sbc)).
    { assert (Hnth : nth_error qn l = Some (nth l qn [])) by (apply nth_error_nth'; lia).
      unfold name_index. rewrite Hnth. cbn [bind]. set (x := nth l qn []).
      assert (Hchild : pname apex (P ++ [x]) = skipn l n).
      { rewrite pname_snoc, HP. unfold n.
        rewrite (skipn_nth_cons (lc qn) l (map lower [])) by (rewrite lc_length; lia).
        f_equal. unfold lc. rewrite map_nth. reflexivity. }
      assert (Hlenc : length (lc apex) <= length (skipn l n)).
      { rewrite <- Hchild, pname_length. lia. }
      pose proof (Hok [x]) as Hx. cbn [view] in Hx.
      destruct (find_child x (node_children t)) as [c|] eqn:Fc.
      - destruct Hx as (Hexc & _ & _). rewrite Hchild in Hexc.
        rewrite (spec_rest_child n l sbc Hex Hexc).
        apply (IH c (P ++ [x]) false); auto; try lia.
        + intros p. rewrite <- app_assoc. simpl. specialize (Hok (x :: p)). cbn [view] in Hok.
          rewrite Fc in Hok. exact Hok.
        + intros _ E. destruct P; discriminate.
      - unfold node_ok in Hx. rewrite Hchild in Hx.
        rewrite (spec_rest_nochild n l sbc Hex Hx Hlenc). cbv zeta.
        pose proof (Hok [ASTERISK_LABEL]) as Hw. cbn [view] in Hw.
        assert (Hwn : pname apex (P ++ [ASTERISK_LABEL]) = [42%N] :: skipn (S l) n).
        { rewrite pname_snoc, HP, lower_asterisk. reflexivity. }
        destruct (find_child ASTERISK_LABEL (node_children t)) as [w|] eqn:Fw.
        + destruct Hw as (Hexw & Hnw & Hrw). rewrite Hwn in *. rewrite Hexw.
          eexists; split; [reflexivity|]. simpl. split; auto. rewrite Hnw. reflexivity.
        + unfold node_ok in Hw. rewrite Hwn in Hw. rewrite Hw.
          eexists; split; [reflexivity|]. exact I. }
    destruct (negb at_apex && negb sbc) eqn:Chk.
    + assert (Hlen : length (lc apex) < length (skipn (S l) n)).
      { rewrite <- HP, pname_length. destruct P; [|simpl; lia].
        destruct at_apex; [discriminate|]. exfalso. apply Hat; auto. }
      rewrite (cut_below _ Hlen). destruct Hrr as [Hs Hl'].
      change TYPE_NS with 2%N. rewrite Hl'.
      destruct (spec_rrset req cls R (skipn (S l) n) 2) as [rs|] eqn:Sp.
      * eexists; split; [reflexivity|]. cbn [base_rel]. split; auto.
        unfold single_of. rewrite Sp. reflexivity.
      * exact Hrest.
    + exact Hrest.
Qed.

End Lookup.
