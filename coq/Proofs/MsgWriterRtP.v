(* C12 message-level round trip: the RFC 1035 decoder applied to the finished message returns the
   questions and records of the abstract message denoted by the operations that succeeded. *)
From QV Require Import Base.ListX Model.MsgWriter Spec.NameRepr Spec.MsgWriterS Spec.MsgWriterAbsS
     Proofs.NameWireP Proofs.MsgWriterP Proofs.MsgWriterScanP Proofs.MsgWriterNameP Proofs.MsgWriterInvP
     Proofs.MsgWriterClosP Proofs.MsgWriterNameSP Proofs.MsgWriterLayP Proofs.MsgWriterOpP
     Proofs.MsgWriterStepP Proofs.MsgWriterMsgP Proofs.MsgWriterDecP Proofs.MsgWriterHdrP Proofs.MsgWriterGetP.

Local Open Scope nat_scope.

(* ---------------------------------------------------------------- well-formed arguments *)

(* sizes a Rust caller cannot violate (Name <= 255 octets, u16 type/class, Rdata <= 65535 octets) *)
Definition op_wf2 (o : wop) : Prop :=
  match o with
  | OAddQuestion n qt qc => length (nm_wire n) <= 255 /\ (qt < 65536)%N /\ (qc < 65536)%N
  | OAddRr _ _ n ty cl _ rd _ =>
    length (nm_wire n) <= 255 /\ (ty < 65536)%N /\ (cl < 65536)%N /\ (N.of_nat (length rd) < 65536)%N
  | OAddRrset _ _ n ty cl _ rds _ =>
    length (nm_wire n) <= 255 /\ (ty < 65536)%N /\ (cl < 65536)%N /\
    Forall (fun rd => (N.of_nat (length rd) < 65536)%N) rds
  | _ => True
  end.

Record amsg_wf (A : amsg) : Prop := mkAW {
  aw_q : Forall aq_wf (am_qs A); aw_a : Forall arr_wf (am_an A);
  aw_n : Forall arr_wf (am_ns A); aw_r : Forall arr_wf (am_ar A) }.

Lemma ttl_rfc_lt raw : (ttl_rfc raw < 4294967296)%N.
Proof. unfold ttl_rfc. destruct (raw <=? 2147483647)%N eqn:E; [apply N.leb_le in E|]; lia. Qed.

Lemma add_rrs_wf A s l : amsg_wf A -> Forall arr_wf l -> amsg_wf (add_rrs A s l).
Proof. intros [] Hl. destruct s; constructor; simpl; auto; apply Forall_app; auto. Qed.

Lemma astep_wf A o r : amsg_wf A -> op_wf o -> op_wf2 o -> amsg_wf (astep A o r).
Proof.
  intros HA Hw H2. pose proof HA as [Hq Ha Hn Hr].
  destruct o; simpl in *; try exact HA; try (constructor; auto; fail); destruct r; try exact HA.
  - constructor; simpl; auto. apply Forall_app. split; auto. constructor; auto.
    destruct H2 as [K1 [K2 K3]]. repeat split; auto; apply Hw.
  - apply add_rrs_wf; auto. constructor; auto. destruct Hw as [W1 W2]. destruct H2 as [K1 [K2 [K3 K4]]].
    repeat split; auto; try apply W1. apply ttl_rfc_lt.
  - apply add_rrs_wf; auto. destruct Hw as [W1 W2]. destruct H2 as [K1 [K2 [K3 K4]]].
    rewrite Forall_forall in *. intros a Ha'. apply in_map_iff in Ha' as [rd [<- Hin]].
    repeat split; simpl; auto; try apply W1. apply ttl_rfc_lt.
  - constructor; simpl; auto.
  - constructor; simpl; auto.
  - constructor; simpl; auto.
Qed.

Lemma areplay_wf : forall ops rs A, amsg_wf A -> Forall op_wf ops -> Forall op_wf2 ops ->
  amsg_wf (areplay A ops rs).
Proof.
  induction ops as [|o rest IH]; intros rs A HA Hw H2; simpl; auto.
  destruct rs as [|r rs']; auto. inversion Hw; subst. inversion H2; subst.
  apply IH; auto. apply astep_wf; auto.
Qed.

Lemma am0_wf : amsg_wf am0.
Proof. constructor; constructor. Qed.

(* ---------------------------------------------------------------- splitting a run of records *)

Lemma rrs_at_split b L : forall rs1 rs2 pos e, rrs_at b L (rs1 ++ rs2) pos e ->
  exists m, rrs_at b L rs1 pos m /\ rrs_at b L rs2 m e.
Proof.
  induction rs1 as [|r rest IH]; intros rs2 pos e H; simpl in *.
  - exists pos. auto.
  - destruct H as [H1 [H2 [H3 H4]]]. destruct (IH _ _ _ H4) as [m [K1 K2]].
    exists m. split; auto. split; auto. split; auto. split; auto.
    pose proof (rrs_le _ _ _ _ _ K1). pose proof (rrs_le _ _ _ _ _ K2). lia.
Qed.

Lemma pseudo_wf w : (forall t, w_tsig w = Some t -> tsig_wf t) ->
  (forall e, w_edns w = Some e -> (e_udp e < 65536 /\ e_upper e < 256)%N) -> Forall arr_wf (pseudo w).
Proof.
  intros Ht He. unfold pseudo. apply Forall_app. split.
  - destruct (w_edns w) as [e|] eqn:E; [|constructor]. destruct (He e eq_refl) as [K1 K2].
    constructor; [|constructor]. unfold arr_wf; simpl. repeat split; auto; try lia; try constructor.
    cbv. lia.
  - destruct (w_tsig w) as [t|] eqn:E; [|constructor].
    pose proof (Ht t eq_refl) as Twf. pose proof (octets_rdata t Twf) as Oct.
    pose proof (tsig_rdata_length t Twf) as Tl.
    destruct Twf as [T1 [T2 [T3 [T4 [T5 [T6 [T7 [T8 [T9 T10]]]]]]]]].
    constructor; [|constructor]. unfold arr_wf; simpl. repeat split; auto; try apply T1; try (cbv; lia).
    rewrite T5 in Tl. unfold tsig_unsigned_len in Tl. destruct (t_error t =? badtime)%N; lia.
Qed.

Lemma pseudo_length w : N.of_nat (length (pseudo w)) = (b2N (osome (w_edns w)) + b2N (osome (w_tsig w)))%N.
Proof. unfold pseudo. destruct (w_edns w); destruct (w_tsig w); reflexivity. Qed.

Lemma get16_slice8 (b : bytes) v1 v2 v3 v4 : slice b 4 12 = be16 v1 ++ be16 v2 ++ be16 v3 ++ be16 v4 ->
  12 <= length b -> (v1 < 65536 -> v2 < 65536 -> v3 < 65536 -> v4 < 65536 ->
  get16 b 4 = Some v1 /\ get16 b 6 = Some v2 /\ get16 b 8 = Some v3 /\ get16 b 10 = Some v4)%N.
Proof.
  intros Hs Hl B1 B2 B3 B4.
  repeat split; apply get16_be16; auto.
  - rewrite (slice_sub b 4 12 4 (4 + 2) _ Hs) by lia. reflexivity.
  - rewrite (slice_sub b 4 12 6 (6 + 2) _ Hs) by lia. reflexivity.
  - rewrite (slice_sub b 4 12 8 (8 + 2) _ Hs) by lia. reflexivity.
  - rewrite (slice_sub b 4 12 10 (10 + 2) _ Hs) by lia. reflexivity.
Qed.

(* the pointer-rule checker of the specification (judge13's core) accepts the decoded message, for
   expected items whose "no compression at all" flag is that of the mode they were written in *)
Definition qflag (e : aitem) (a : aq) : Prop := a_nocomp e = nocomp_of (aq_mode a).
Definition rflag (e : aitem) (a : arr) : Prop := a_nocomp e = nocomp_of (ar_mode a).

Definition ptr_ok (bm : bytes) (m : dmsg) (Aq : list aq) (Aa An Ar : list arr) : Prop :=
  forall eq ea en er, Forall2 qflag eq Aq -> Forall2 rflag ea Aa -> Forall2 rflag en An -> Forall2 rflag er Ar ->
    exists st, (let* st := check_qs bm [] eq (m_qs m) in
                let* st := check_rrs bm st ea (m_an m) in
                let* st := check_rrs bm st en (m_ns m) in
                check_rrs bm st er (m_ar m)) = Ok st.

Lemma Forall2_wfL rs al : Forall2 rr_desc2 rs al -> Forall arr_wf al -> Forall rr_wfL rs.
Proof.
  induction 1 as [|r a rs al [Hd _] _ IH]; intros Hw; constructor; inversion Hw; subst; auto.
  eapply rr_wfL_of; eauto.
Qed.

Lemma Forall2_rrd rs al : Forall2 rr_desc2 rs al -> Forall2 rrd rs al.
Proof. induction 1 as [|r a rs al [Hd _] _ IH]; constructor; auto. Qed.

Lemma Forall2_rplain es al rs : Forall2 rflag es al -> Forall2 rr_desc2 rs al ->
  Forall2 (fun a r => a_nocomp a = true -> rr_plain r) es rs.
Proof.
  intros H. revert rs. induction H as [|e a es al He _ IH]; intros rs Hd; inversion Hd as [|r ? rs' ? [_ Hp] Hd']; subst;
    constructor; auto.
  intros Hn. apply Hp. unfold rflag in He. rewrite He in Hn. destruct (ar_mode a); simpl in Hn; congruence.
Qed.

Lemma Forall2_qplain es al qs : Forall2 qflag es al -> Forall2 q_desc qs al ->
  Forall2 (fun a q => a_nocomp a = true -> nc_sh (lq_name q) = None) es qs.
Proof.
  intros H. revert qs. induction H as [|e a es al He _ IH]; intros qs Hd; inversion Hd as [|q ? qs' ? [_ Hp] Hd']; subst;
    constructor; auto.
  intros Hn. apply Hp. unfold qflag in He. rewrite He in Hn. destruct (aq_mode a); simpl in Hn; congruence.
Qed.

Lemma ptr_chain bm (L : nat -> Prop) yq r1 r2 r3 rs m1 m2 len dq d1 d2 d3 Aq Aa An Ar :
  qs_at bm L yq header_size rs -> rrs_at bm L r1 rs m1 -> rrs_at bm L r2 m1 m2 -> rrs_at bm L r3 m2 len ->
  len <= length bm ->
  (forall s, L s <-> In s (qs_starts yq ++ rrs_starts (r1 ++ r2 ++ r3))) ->
  Forall2 (fun q d => dq_pos d = nc_pos (lq_name q)) yq dq ->
  Forall2 rlink r1 d1 -> Forall2 rlink r2 d2 -> Forall2 rlink r3 d3 ->
  Forall (fun q => wf_name (nc_name (lq_name q))) yq -> Forall rr_wfL r1 -> Forall rr_wfL r2 -> Forall rr_wfL r3 ->
  Forall2 q_desc yq Aq -> Forall2 rr_desc2 r1 Aa -> Forall2 rr_desc2 r2 An -> Forall2 rr_desc2 r3 Ar ->
  forall id f2 f3, ptr_ok bm (mkDM id f2 f3 dq d1 d2 d3) Aq Aa An Ar.
Proof.
  intros Hq H1 H2 H3 Hlen Ht Lq L1 L2 L3 Wq W1 W2 W3 Dq D1 D2 D3 id f2 f3 eq ea en er Fq Fa Fn Fr.
  pose proof (Forall2_qplain _ _ _ Fq Dq) as Pq. pose proof (Forall2_rplain _ _ _ Fa D1) as P1.
  pose proof (Forall2_rplain _ _ _ Fn D2) as P2. pose proof (Forall2_rplain _ _ _ Fr D3) as P3.
  pose proof (qs_le _ _ _ _ _ Hq). pose proof (rrs_le _ _ _ _ _ H1). pose proof (rrs_le _ _ _ _ _ H2).
  pose proof (rrs_le _ _ _ _ _ H3).
  cbn [m_qs m_an m_ns m_ar].
  rewrite (check_qs_ok bm L yq dq eq [] (rrs_starts (r1 ++ r2 ++ r3)) header_size rs); auto; try lia.
  2:{ intros s Hs. apply Ht in Hs. exact Hs. }
  2:{ intros s []. }
  2:{ intros s Hs. rewrite !rrs_starts_app, !in_app_iff in Hs. destruct Hs as [K|[K|K]].
      - apply (rrs_starts_bound _ _ _ _ _ _ H1) in K; lia.
      - apply (rrs_starts_bound _ _ _ _ _ _ H2) in K; lia.
      - apply (rrs_starts_bound _ _ _ _ _ _ H3) in K; lia. }
  cbn [bind app].
  rewrite (check_rrs_ok bm L r1 d1 ea (qs_starts yq) (rrs_starts (r2 ++ r3)) rs m1); auto; try lia.
  2:{ intros s Hs. apply Ht in Hs. rewrite !rrs_starts_app, !in_app_iff in *. tauto. }
  2:{ intros s Hs. apply (qs_starts_bound _ _ _ _ _ _ Hq) in Hs; lia. }
  2:{ intros s Hs. rewrite !rrs_starts_app, !in_app_iff in Hs. destruct Hs as [K|K].
      - apply (rrs_starts_bound _ _ _ _ _ _ H2) in K; lia.
      - apply (rrs_starts_bound _ _ _ _ _ _ H3) in K; lia. }
  cbn [bind].
  rewrite (check_rrs_ok bm L r2 d2 en (qs_starts yq ++ rrs_starts r1) (rrs_starts r3) m1 m2); auto; try lia.
  2:{ intros s Hs. apply Ht in Hs. rewrite !rrs_starts_app, !in_app_iff in *. tauto. }
  2:{ intros s Hs. rewrite in_app_iff in Hs. destruct Hs as [K|K].
      - apply (qs_starts_bound _ _ _ _ _ _ Hq) in K; lia.
      - apply (rrs_starts_bound _ _ _ _ _ _ H1) in K; lia. }
  2:{ intros s K. apply (rrs_starts_bound _ _ _ _ _ _ H3) in K; lia. }
  cbn [bind].
  rewrite (check_rrs_ok bm L r3 d3 er ((qs_starts yq ++ rrs_starts r1) ++ rrs_starts r2) [] m2 len); auto; try lia.
  - eauto.
  - intros s Hs. apply Ht in Hs. rewrite !rrs_starts_app, !in_app_iff in *. tauto.
  - intros s Hs. rewrite !in_app_iff in Hs. destruct Hs as [[K|K]|K].
    + apply (qs_starts_bound _ _ _ _ _ _ Hq) in K; lia.
    + apply (rrs_starts_bound _ _ _ _ _ _ H1) in K; lia.
    + apply (rrs_starts_bound _ _ _ _ _ _ H2) in K; lia.
  - intros s [].
Qed.

Lemma get16_some (b : bytes) i : i + 2 <= length b -> exists v, get16 b i = Some v.
Proof.
  intros H. unfold get16.
  destruct (nth_error b i) eqn:E1; [|apply nth_error_None in E1; lia].
  destruct (nth_error b (i + 1)) eqn:E2; [|apply nth_error_None in E2; lia]. eauto.
Qed.

Lemma nth_some (b : bytes) i : i < length b -> exists v, nth_error b i = Some v.
Proof. intros H. destruct (nth_error b i) eqn:E; eauto. apply nth_error_None in E. lia. Qed.

Theorem roundtrip buf limit w0 ops : writer_new buf limit = Ok w0 ->
  run_contract (mkD w0 []) g0 ops -> Forall op_wf ops -> Forall op_wf2 ops ->
  exists rr, run_writer buf limit ops = Ok rr /\
    match rr_final rr with
    | Some (len, b) =>
      exists d m, run (mkD w0 []) ops = Ok (d, rr_outcomes rr, true) /\
        decode_msg (firstn len b) = Some m /\
        Forall2 q_rel (am_qs (areplay am0 ops (rr_outcomes rr))) (m_qs m) /\
        Forall2 (rr_rel xparts) (am_an (areplay am0 ops (rr_outcomes rr))) (m_an m) /\
        Forall2 (rr_rel xparts) (am_ns (areplay am0 ops (rr_outcomes rr))) (m_ns m) /\
        Forall2 (rr_rel xparts) (am_ar (areplay am0 ops (rr_outcomes rr)) ++ pseudo (d_w d)) (m_ar m) /\
        get16 (firstn len b) 0 = Some (m_id m) /\ nth_error (firstn len b) 2 = Some (m_flags2 m) /\
        nth_error (firstn len b) 3 = Some (m_flags3 m) /\ agree 4 (w_buf (d_w d)) b /\ 12 <= len /\
        am_mode (areplay am0 ops (rr_outcomes rr)) = w_mode (d_w d) /\
        ptr_ok (firstn len b) m (am_qs (areplay am0 ops (rr_outcomes rr))) (am_an (areplay am0 ops (rr_outcomes rr)))
               (am_ns (areplay am0 ops (rr_outcomes rr))) (am_ar (areplay am0 ops (rr_outcomes rr)) ++ pseudo (d_w d))
    | None => True
    end.
Proof.
  intros H0 Hc Hw1 Hw2.
  destruct (run_writer_layout buf limit w0 ops H0 Hc) as [rr [E HR]].
  exists rr. split; auto.
  destruct (rr_final rr) as [[len b]|]; auto.
  destruct HR as [d [wF [LF [yF [Hrun [Hts [-> [-> [HiF [PF [Fq [Fr [FF [Hdr HA4]]]]]]]]]]]]]].
  set (A := areplay am0 ops (rr_outcomes rr)) in *.
  pose proof (areplay_wf ops (rr_outcomes rr) am0 am0_wf Hw1 Hw2) as HA. fold A in HA.
  set (b := w_buf wF) in *. set (len := w_cursor wF) in *.
  pose proof (ni_nb _ _ _ HiF) as [Nb1 Nb2]. fold b len in Nb1, Nb2.
  assert (Hlb : len <= length b) by lia.
  set (bm := firstn len b).
  assert (Hlen : length bm = len) by (unfold bm; rewrite firstn_length; lia).
  assert (Ag : agree len b bm).
  { unfold agree, bm. rewrite firstn_firstn. f_equal. lia. }
  assert (R : ragree header_size len (length b) b bm) by (apply agree_ragree; auto).
  pose proof (ni_closed _ _ _ HiF) as Hcl. pose proof (ni_sdec _ _ _ HiF) as Hsd. fold b len in Hcl, Hsd.
  assert (Hcl' : closed bm header_size len (length b) LF) by (eapply closed_transfer; eauto).
  assert (Hsd' : sdec bm len LF) by (apply (sdec_transfer b header_size len (length b) LF bm len Hcl R); [lia|exact Hsd]).
  destruct PF as [P1 P2 P3].
  pose proof (qs_le _ _ _ _ _ P1) as Hq12. pose proof (rrs_le _ _ _ _ _ P2) as Hrl.
  pose proof wconsts as [Hhs _].
  assert (P1' : qs_at bm LF (y_qs yF) header_size (w_rr_start (d_w d))).
  { apply (qs_transfer b header_size len (length b) LF bm Hcl R); [unfold okr; lia|lia|exact P1]. }
  assert (P2' : rrs_at bm LF (y_rrs yF) (w_rr_start (d_w d)) len).
  { apply (rrs_transfer b header_size len (length b) LF bm Hcl R); [unfold okr; lia|lia|exact P2]. }
  destruct FF as [_ _ Fmode Cq Ca Cn Cr [Bq [Ba [Bn Br]]] Fe _]. fold A in Cq, Ca, Cn, Cr, Fmode.
  destruct HA as [Wq Wa Wn Wr].
  (* header *)
  assert (Hdr' : slice bm 4 12 = be16 (w_qd (d_w d)) ++ be16 (w_an (d_w d)) ++ be16 (w_ns (d_w d)) ++ be16 (w_ar (d_w d))).
  { unfold bm. rewrite slice_firstn by lia. exact Hdr. }
  destruct (get16_slice8 bm _ _ _ _ Hdr' ltac:(lia) ltac:(lia) ltac:(lia) ltac:(lia) ltac:(lia))
    as [G4 [G6 [G8 G10]]].
  destruct (get16_some bm 0 ltac:(lia)) as [vid Gid].
  destruct (nth_some bm 2 ltac:(lia)) as [f2 Gf2]. destruct (nth_some bm 3 ltac:(lia)) as [f3 Gf3].
  (* questions *)
  pose proof (Forall2_len _ _ _ Fq) as Lq.
  assert (Fq' : Forall2 (fun q a => nc_name (lq_name q) = aq_name a /\ nc_cp (lq_name q) = aq_exact a /\
                                    lq_ty q = aq_ty a /\ lq_cl q = aq_cl a) (y_qs yF) (am_qs A)).
  { clear - Fq. induction Fq as [|q a qs al [Hd _] _ IH]; constructor; auto. }
  destruct (qs_decode bm header_size len (length b) LF Hcl' Hsd' (y_qs yF) (am_qs A) header_size
              (w_rr_start (d_w d)) P1' Fq' Wq ltac:(lia)) as [qds [Eq [Rq Lkq]]].
  (* the three record sections *)
  apply Forall2_app_inv_r in Fr as [rs1 [rest1 [F1 [Fr Ey1]]]].
  apply Forall2_app_inv_r in Fr as [rs2 [rs3 [F2 [F3 Ey2]]]].
  rewrite Ey1, Ey2 in P2'.
  destruct (rrs_at_split _ _ _ _ _ _ P2') as [m1 [Q1 Q23]].
  destruct (rrs_at_split _ _ _ _ _ _ Q23) as [m2 [Q2 Q3]].
  pose proof (rrs_le _ _ _ _ _ Q1). pose proof (rrs_le _ _ _ _ _ Q2). pose proof (rrs_le _ _ _ _ _ Q3).
  assert (Wps : Forall arr_wf (am_ar A ++ pseudo (d_w d))).
  { apply Forall_app. split; auto. apply pseudo_wf; auto. }
  destruct (rrs_decode bm header_size len (length b) LF Hcl' Hsd' rs1 (am_an A) _ _ Q1 (Forall2_rrd _ _ F1) Wa ltac:(lia)) as [d1 [E1 [R1 Lk1]]].
  destruct (rrs_decode bm header_size len (length b) LF Hcl' Hsd' rs2 (am_ns A) _ _ Q2 (Forall2_rrd _ _ F2) Wn ltac:(lia)) as [d2 [E2 [R2 Lk2]]].
  destruct (rrs_decode bm header_size len (length b) LF Hcl' Hsd' rs3 _ _ _ Q3 (Forall2_rrd _ _ F3) Wps ltac:(lia)) as [d3 [E3 [R3 Lk3]]].
  pose proof (Forall2_len _ _ _ F1) as L1. pose proof (Forall2_len _ _ _ F2) as L2.
  pose proof (Forall2_len _ _ _ F3) as L3. rewrite app_length in L3.
  pose proof (pseudo_length (d_w d)) as Lp.
  exists d, (mkDM vid f2 f3 qds d1 d2 d3). split; [exact Hrun|]. split;
    [|cbn [m_qs m_an m_ns m_ar m_id m_flags2 m_flags3]; repeat split; auto; try lia].
  2:{ apply (ptr_chain bm LF (y_qs yF) rs1 rs2 rs3 (w_rr_start (d_w d)) m1 m2 len); auto; try lia.
      - intros s. rewrite P3, Ey1, Ey2. reflexivity.
      - clear - Fq Wq. induction Fq as [|q a qs al [[D1 _] _] _ IH]; constructor; inversion Wq; subst.
        + rewrite D1. apply H1.
        + apply IH; auto.
      - eapply Forall2_wfL; eauto.
      - eapply Forall2_wfL; eauto.
      - eapply Forall2_wfL; eauto. }
  unfold decode_msg. rewrite Gid, Gf2, Gf3, G4, G6, G8, G10.
  replace (N.to_nat (w_qd (d_w d))) with (length (y_qs yF)) by lia.
  change 12 with header_size. rewrite Eq.
  replace (N.to_nat (w_an (d_w d))) with (length rs1) by lia. rewrite E1.
  replace (N.to_nat (w_ns (d_w d))) with (length rs2) by lia. rewrite E2.
  replace (N.to_nat (w_ar (d_w d))) with (length rs3) by lia. rewrite E3.
  rewrite Hlen, Nat.eqb_refl. reflexivity.
Qed.

(* ---------------------------------------------------------------- header, EDNS, TSIG *)

Lemma pseudo_eq w H : HInv w H -> pseudo w = pseudo_of (w_mode w) H.
Proof.
  intros [_ _ _ _ _ He Ht]. unfold pseudo, pseudo_of. rewrite He. f_equal.
  - destruct (h_edns H) as [[u up]|]; reflexivity.
  - destruct (w_tsig w) as [t|]; destruct (h_tsig H) as [a|]; try contradiction; auto.
    destruct Ht as [T1 [T2 [T3 [T4 [T5 [T6 T7]]]]]].
    unfold tsig_unsigned_rdata, tsig_rdata_of. rewrite T1, T2, T3, T4, T5, T6, T7. reflexivity.
Qed.

Theorem roundtrip_full buf limit w0 ops : writer_new buf limit = Ok w0 ->
  run_contract (mkD w0 []) g0 ops -> Forall op_wf ops -> Forall op_wf2 ops -> Forall op_wf3 ops ->
  exists rr, run_writer buf limit ops = Ok rr /\
    match rr_final rr with
    | Some (len, b) =>
      exists m, decode_msg (firstn len b) = Some m /\
        hdr_rel (hreplay ah0 ops (rr_outcomes rr)) m /\
        Forall2 q_rel (am_qs (areplay am0 ops (rr_outcomes rr))) (m_qs m) /\
        Forall2 (rr_rel xparts) (am_an (areplay am0 ops (rr_outcomes rr))) (m_an m) /\
        Forall2 (rr_rel xparts) (am_ns (areplay am0 ops (rr_outcomes rr))) (m_ns m) /\
        Forall2 (rr_rel xparts)
          (am_ar (areplay am0 ops (rr_outcomes rr)) ++
           pseudo_of (am_mode (areplay am0 ops (rr_outcomes rr))) (hreplay ah0 ops (rr_outcomes rr)))
          (m_ar m) /\
        ptr_ok (firstn len b) m (am_qs (areplay am0 ops (rr_outcomes rr))) (am_an (areplay am0 ops (rr_outcomes rr)))
          (am_ns (areplay am0 ops (rr_outcomes rr)))
          (am_ar (areplay am0 ops (rr_outcomes rr)) ++
           pseudo_of (am_mode (areplay am0 ops (rr_outcomes rr))) (hreplay ah0 ops (rr_outcomes rr)))
    | None => True
    end.
Proof.
  intros H0 Hc Hw1 Hw2 Hw3.
  destruct (roundtrip buf limit w0 ops H0 Hc Hw1 Hw2) as [rr [E HR]].
  exists rr. split; auto.
  destruct (rr_final rr) as [[len b]|]; auto.
  destruct HR as [d [m [Hrun [Ed [Rq [Ra [Rn [Rr [Gid [G2 [G3 [Ag [Hl [Hmode Hptr]]]]]]]]]]]]]].
  pose proof (hrun ops (mkD w0 []) ah0 d (rr_outcomes rr) true (writer_new_inv _ _ _ H0) (HInv_new _ _ _ H0) Hw3 Hrun) as Hi.
  cbn [d_w] in Hi. set (H := hreplay ah0 ops (rr_outcomes rr)) in *.
  exists m. split; auto. split.
  - destruct Hi as [Hlen Hid Hb [x2 [E2 [B2 F2]]] [x3 [E3 [B3 F3]]] _ _].
    assert (Hm_id : m_id m = h_id H).
    { assert (K : get16 (firstn len b) 0 = Some (h_id H)).
      { apply get16_be16; auto. change (0 + 2) with 2. rewrite slice_firstn by lia.
        rewrite (agree_slice 4 _ _ 0 2 Ag) by lia. exact Hid. }
      rewrite K in Gid. inversion Gid; auto. }
    assert (Hm2 : m_flags2 m = x2).
    { rewrite nth_error_firstn_lt in G2 by lia. rewrite (agree_nth 4 _ _ 2 Ag) in G2 by lia. congruence. }
    assert (Hm3 : m_flags3 m = x3).
    { rewrite nth_error_firstn_lt in G3 by lia. rewrite (agree_nth 4 _ _ 3 Ag) in G3 by lia. congruence. }
    unfold hdr_rel. rewrite Hm_id, Hm2, Hm3. unfold dec2 in F2. unfold dec3 in F3.
    inversion F2. inversion F3. repeat split; auto.
  - split; auto. split; auto. split; auto.
    rewrite Hmode. rewrite <- (pseudo_eq _ _ Hi). split; [exact Rr|exact Hptr].
Qed.

(* C13 through the specification's own checker: the decoded finished message passes the pointer rules
   (every pointer met leads strictly before its name to a label start collected from the names decoded
   before it; no pointer in uncompressible RDATA names; no pointer at all in items written with
   compression disabled) *)
Theorem pointer_rules buf limit w0 ops : writer_new buf limit = Ok w0 ->
  run_contract (mkD w0 []) g0 ops -> Forall op_wf ops -> Forall op_wf2 ops -> Forall op_wf3 ops ->
  exists rr, run_writer buf limit ops = Ok rr /\
    match rr_final rr with
    | Some (len, b) =>
      exists m, decode_msg (firstn len b) = Some m /\
        ptr_ok (firstn len b) m (am_qs (areplay am0 ops (rr_outcomes rr))) (am_an (areplay am0 ops (rr_outcomes rr)))
          (am_ns (areplay am0 ops (rr_outcomes rr)))
          (am_ar (areplay am0 ops (rr_outcomes rr)) ++
           pseudo_of (am_mode (areplay am0 ops (rr_outcomes rr))) (hreplay ah0 ops (rr_outcomes rr)))
    | None => True
    end.
Proof.
  intros H0 Hc Hw1 Hw2 Hw3.
  destruct (roundtrip_full buf limit w0 ops H0 Hc Hw1 Hw2 Hw3) as [rr [E HR]].
  exists rr. split; auto.
  destruct (rr_final rr) as [[len b]|]; auto.
  destruct HR as [m [Ed [_ [_ [_ [_ [_ Hptr]]]]]]]. eauto.
Qed.

(* the getters, at any point of a contract-obeying run, return the values denoted by the operations *)
Theorem getters_run buf limit w0 ops d outs : writer_new buf limit = Ok w0 ->
  run_contract (mkD w0 []) g0 ops -> Forall op_wf3 ops ->
  run (mkD w0 []) ops = Ok (d, outs, true) ->
  let A := areplay am0 ops outs in let H := hreplay ah0 ops outs in
  getters (d_w d) =
    Ok (expected_get H (N.of_nat (length (am_qs A))) (N.of_nat (length (am_an A))) (N.of_nat (length (am_ns A)))
          (N.of_nat (length (am_ar A)) + (if h_edns H then 1 else 0) + (if h_tsig H then 1 else 0))%N).
Proof.
  intros H0 Hc Hw3 Hrun A H.
  destruct (run_ok2 ops _ _ _ _ _ (AInv_new _ _ _ H0) (LInv_new _ _ _ H0) Hc)
    as [d' [outs' [alive' [g [y [L [E [Hi [_ HF]]]]]]]]].
  rewrite Hrun in E. inversion E; subst d' outs' alive'. fold A in HF.
  pose proof (hrun ops (mkD w0 []) ah0 d outs true (writer_new_inv _ _ _ H0) (HInv_new _ _ _ H0) Hw3 Hrun) as Hh.
  cbn [d_w] in Hh. fold H in Hh.
  destruct HF as [_ _ _ Cq Ca Cn Cr _ Fe _].
  rewrite (getters_spec (d_w d) H Hh); [|intros e Ee; apply (Fe e Ee)].
  rewrite Cq, Ca, Cn, Cr.
  destruct Hh as [_ _ _ _ _ He Ht].
  assert (K1 : b2N (osome (w_edns (d_w d))) = (if h_edns H then 1 else 0)%N).
  { rewrite He. destruct (h_edns H) as [[u up]|]; reflexivity. }
  assert (K2 : b2N (osome (w_tsig (d_w d))) = (if h_tsig H then 1 else 0)%N).
  { destruct (w_tsig (d_w d)); destruct (h_tsig H); try contradiction; reflexivity. }
  rewrite K1, K2. reflexivity.
Qed.
