(* Rdata::equals (model, with the repaired names_equal) equals the characterisation
   spec_equals for EVERY class and type: the five multi-field handlers
   equals_as_{soa, minfo, mx, in_srv, ch_a} (test_n_name_fields with n = 1, 2; the
   fixed-prefix handlers), on top of Proofs/RdataEqP.v (names_equal, bitwise). *)
From QV Require Import Base.ListX Model.NameWire Spec.NameWireS Spec.NameRepr Proofs.NameWireP
  Proofs.NameWireSP Model.RdataM Spec.RdataFormatS Spec.RdataEqS Proofs.RdNameP Proofs.RdataFormatSP
  Proofs.RdataVP Proofs.RdataRP Proofs.RdNameEqP Proofs.RdataEqSP Model.RdataSetM Proofs.RdataSetP
  Proofs.RdataEqP.
Local Open Scope nat_scope.

(* ---- octet comparison, field by field ---- *)

Lemma octets_eqb_split n a b :
  octets_eqb a b = octets_eqb (firstn n a) (firstn n b) && octets_eqb (skipn n a) (skipn n b).
Proof.
  destruct (octets_eqb a b) eqn:E.
  - apply octets_eqb_eq in E. subst b. rewrite !octets_eqb_refl. reflexivity.
  - symmetry. apply andb_false_iff.
    destruct (octets_eqb (firstn n a) (firstn n b)) eqn:F; [|left; reflexivity]. right.
    destruct (octets_eqb (skipn n a) (skipn n b)) eqn:S; [|reflexivity]. exfalso.
    apply octets_eqb_eq in F. apply octets_eqb_eq in S.
    assert (X : a = b) by (rewrite <- (firstn_skipn n a), <- (firstn_skipn n b), F, S; reflexivity).
    subst b. rewrite octets_eqb_refl in E. discriminate.
Qed.

Lemma ci_fields_bytes n g a b :
  ci_fields (FBytes n :: g) a b =
  octets_eqb (firstn n a) (firstn n b) && ci_fields g (skipn n a) (skipn n b).
Proof. reflexivity. Qed.

Lemma ci_fields_name g a b :
  ci_fields (FName :: g) a b =
  match spec_decode_name a 0, spec_decode_name b 0 with
  | Some (la, na), Some (lb, nb) => labels_ci_eqb la lb && ci_fields g (skipn na a) (skipn nb b)
  | _, _ => false
  end.
Proof. reflexivity. Qed.

(* a format without names compares octet-wise *)
Lemma ci_fields_nonames g : existsb is_FName g = false ->
  forall a b, ci_fields g a b = octets_eqb a b.
Proof.
  induction g as [|f g IH]; intros H a b; [reflexivity|].
  cbn [existsb] in H. apply orb_false_iff in H. destruct H as [Hf Hg].
  destruct f; try discriminate; try reflexivity.
  rewrite ci_fields_bytes, (IH Hg). symmetry. apply octets_eqb_split.
Qed.

Lemma ci_fields_bytes_merge x y g a b :
  ci_fields (FBytes x :: FBytes y :: g) a b = ci_fields (FBytes (x + y) :: g) a b.
Proof.
  rewrite !ci_fields_bytes.
  rewrite (octets_eqb_split x (firstn (x + y) a) (firstn (x + y) b)).
  rewrite !firstn_firstn, !skipn_firstn_comm, !skipn_plus.
  replace (Nat.min x (x + y)) with x by lia. replace (x + y - x) with y by lia.
  rewrite andb_assoc. reflexivity.
Qed.

(* ---- eq_spec: the shape every handler is compared with ---- *)

Lemma eq_spec_false g a b : a <> b -> ci_fields g a b = false -> eq_spec g a b = false.
Proof.
  intros N C. unfold eq_spec. destruct (smatch g a && smatch g b); [exact C|].
  destruct (octets_eqb a b) eqn:E; [|reflexivity]. apply octets_eqb_eq in E. contradiction.
Qed.

Lemma eq_spec_invalid g a b : smatch g a = false \/ smatch g b = false ->
  eq_spec g a b = octets_eqb a b.
Proof.
  intros [H|H]; unfold eq_spec; rewrite H; [|rewrite andb_false_r]; reflexivity.
Qed.

Lemma eq_spec_merge x y g a b :
  eq_spec (FBytes x :: FBytes y :: g) a b = eq_spec (FBytes (x + y) :: g) a b.
Proof. unfold eq_spec. rewrite !smatch_bytes_merge, ci_fields_bytes_merge. reflexivity. Qed.

(* two valid RDATA of one format that compare equal have the same length *)
Lemma ci_fields_len g : forall a b, smatch g a = true -> smatch g b = true ->
  ci_fields g a b = true -> length a = length b.
Proof.
  induction g as [|f g IH]; intros a b Ma Mb C.
  - cbn [ci_fields] in C. apply octets_eqb_eq in C. subst. reflexivity.
  - destruct f; try (cbn [ci_fields] in C; apply octets_eqb_eq in C; subst; reflexivity).
    + rewrite smatch_name in Ma, Mb. unfold sname in Ma, Mb. rewrite ci_fields_name in C.
      destruct (spec_decode_name a 0) as [[la na]|] eqn:Sa; [|discriminate].
      destruct (spec_decode_name b 0) as [[lb nb]|] eqn:Sb; [|discriminate].
      apply andb_true_iff in C. destruct C as [L C].
      pose proof (decode0_facts a la na Sa) as (_ & Na & La & _).
      pose proof (decode0_facts b lb nb Sb) as (_ & Nb & Lb & _).
      pose proof (labels_ci_wire_len la lb L) as W.
      pose proof (IH _ _ Ma Mb C) as E. rewrite !skipn_length in E. lia.
    + rewrite smatch_bytes in Ma, Mb. rewrite ci_fields_bytes in C.
      apply andb_true_iff in Ma. destruct Ma as [Ka Ma]. apply andb_true_iff in Mb. destruct Mb as [Kb Mb].
      apply andb_true_iff in C. destruct C as [_ C]. apply Nat.leb_le in Ka. apply Nat.leb_le in Kb.
      pose proof (IH _ _ Ma Mb C) as E. rewrite !skipn_length in E. lia.
Qed.

Lemma eq_spec_len g a b : length a <> length b -> eq_spec g a b = false.
Proof.
  intros N. unfold eq_spec.
  destruct (smatch g a) eqn:Ma; cbn [andb]; [|apply octets_eqb_false_len; exact N].
  destruct (smatch g b) eqn:Mb; [|apply octets_eqb_false_len; exact N].
  destruct (ci_fields g a b) eqn:C; [|reflexivity]. exfalso. apply N. eapply ci_fields_len; eauto.
Qed.

(* ---- test_n_name_fields, any n ---- *)

Fixpoint tnf_spec (n : nat) (a b : bytes) (off : nat) : option (option nat) :=
  match n with
  | O => Some (Some off)
  | S n' =>
    match spec_decode_name (skipn off a) 0, spec_decode_name (skipn off b) 0 with
    | None, None => None
    | Some _, None | None, Some _ => Some None
    | Some (la, na), Some (lb, _) =>
      if labels_ci_eqb la lb then tnf_spec n' a b (off + na) else Some None
    end
  end.

Lemma tnf_loop_spec : forall n a b off, wf_bytes a -> wf_bytes b ->
  off <= length a -> off <= length b ->
  tnf_loop n a b off = Ok (tnf_spec n a b off).
Proof.
  induction n as [|n IH]; intros a b off Ha Hb La Lb; cbn [tnf_loop tnf_spec]; [reflexivity|].
  rewrite !slice_from_ok by lia. cbn [bind].
  pose proof (uname_decode (skipn off a) (wf_skipn off a Ha)) as Da.
  pose proof (uname_decode (skipn off b) (wf_skipn off b Hb)) as Db.
  destruct (parse_uncompressed_name (skipn off a) false) as [[nma na]|ea|]; [| |contradiction];
    destruct (parse_uncompressed_name (skipn off b) false) as [[nmb nb]|eb|]; try contradiction.
  - destruct Da as (la & Sa & ->). destruct Db as (lb & Sb & ->). rewrite Sa, Sb.
    pose proof (decode0_facts _ la na Sa) as (Va & Na & La' & _).
    pose proof (decode0_facts _ lb nb Sb) as (Vb & Nb & Lb' & _).
    rewrite (name_eq_spec la lb) by auto. cbn [bind].
    destruct (labels_ci_eqb la lb) eqn:L; [|reflexivity].
    pose proof (labels_ci_wire_len la lb L) as W. rewrite skipn_length in La', Lb'.
    apply IH; auto; lia.
  - destruct Da as (la & -> & ->). rewrite Db. reflexivity.
  - destruct Db as (lb & -> & ->). rewrite Da. reflexivity.
  - rewrite Da, Db. reflexivity.
Qed.

(* all n fields valid in both and equal without case: both RDATA match the n names,
   and the rest of the format is compared on what follows *)
Lemma tnf_spec_ok : forall n a b off len, tnf_spec n a b off = Some (Some len) ->
  off <= length a -> off <= length b ->
  off <= len /\ len <= length a /\ len <= length b /\
  forall g,
    smatch (repeat FName n ++ g) (skipn off a) = smatch g (skipn len a) /\
    smatch (repeat FName n ++ g) (skipn off b) = smatch g (skipn len b) /\
    ci_fields (repeat FName n ++ g) (skipn off a) (skipn off b) = ci_fields g (skipn len a) (skipn len b).
Proof.
  induction n as [|n IH]; intros a b off len T La Lb; cbn [tnf_spec] in T.
  - inversion T; subst. repeat split; auto.
  - destruct (spec_decode_name (skipn off a) 0) as [[la na]|] eqn:Sa;
      destruct (spec_decode_name (skipn off b) 0) as [[lb nb]|] eqn:Sb; try discriminate.
    destruct (labels_ci_eqb la lb) eqn:L; [|discriminate].
    pose proof (decode0_facts _ la na Sa) as (_ & Na & La' & _).
    pose proof (decode0_facts _ lb nb Sb) as (_ & Nb & Lb' & _).
    pose proof (labels_ci_wire_len la lb L) as W. rewrite skipn_length in La', Lb'.
    assert (E : nb = na) by lia. clear Na Nb W. subst nb.
    destruct (IH a b (off + na) len T ltac:(lia) ltac:(lia)) as (H1 & H2 & H3 & F).
    split; [lia|]. split; [exact H2|]. split; [exact H3|].
    intros g. destruct (F g) as (Fa & Fb & Fc). cbn [repeat app].
    rewrite !smatch_name, ci_fields_name. unfold sname. rewrite Sa, Sb, L, !skipn_plus. cbn [andb].
    auto.
Qed.

(* an invalid name field in both: neither RDATA matches the format *)
Lemma tnf_spec_none : forall n a b off g, tnf_spec n a b off = None ->
  smatch (repeat FName n ++ g) (skipn off a) = false /\
  smatch (repeat FName n ++ g) (skipn off b) = false.
Proof.
  induction n as [|n IH]; intros a b off g T; cbn [tnf_spec] in T; [discriminate|].
  cbn [repeat app]. rewrite !smatch_name. unfold sname.
  destruct (spec_decode_name (skipn off a) 0) as [[la na]|] eqn:Sa;
    destruct (spec_decode_name (skipn off b) 0) as [[lb nb]|] eqn:Sb; try discriminate; [|auto].
  destruct (labels_ci_eqb la lb) eqn:L; [|discriminate].
  pose proof (decode0_facts _ la na Sa) as (_ & Na & _).
  pose proof (decode0_facts _ lb nb Sb) as (_ & Nb & _).
  pose proof (labels_ci_wire_len la lb L) as W.
  assert (E : nb = na) by lia. clear Na Nb W. subst nb. rewrite !skipn_plus. apply IH. exact T.
Qed.

(* a definite "different": the octets differ and so do the fields *)
Lemma tnf_spec_diff : forall n a b off g, tnf_spec n a b off = Some None ->
  skipn off a <> skipn off b /\
  ci_fields (repeat FName n ++ g) (skipn off a) (skipn off b) = false.
Proof.
  induction n as [|n IH]; intros a b off g T; cbn [tnf_spec] in T; [discriminate|].
  cbn [repeat app]. rewrite ci_fields_name.
  destruct (spec_decode_name (skipn off a) 0) as [[la na]|] eqn:Sa;
    destruct (spec_decode_name (skipn off b) 0) as [[lb nb]|] eqn:Sb; try discriminate.
  - destruct (labels_ci_eqb la lb) eqn:L.
    + pose proof (decode0_facts _ la na Sa) as (_ & Na & _).
      pose proof (decode0_facts _ lb nb Sb) as (_ & Nb & _).
      pose proof (labels_ci_wire_len la lb L) as W.
      assert (E : nb = na) by lia. clear Na Nb W. subst nb. rewrite !skipn_plus. cbn [andb].
      destruct (IH a b (off + na) g T) as [N C]. split; [|exact C].
      intros X. apply N. rewrite <- !skipn_plus, X. reflexivity.
    + split; [|reflexivity]. intros X. rewrite X in Sa. rewrite Sa in Sb. inversion Sb; subst.
      rewrite labels_ci_refl in L. discriminate.
  - split; [|reflexivity]. intros X. rewrite X in Sa. congruence.
  - split; [|reflexivity]. intros X. rewrite X in Sa. congruence.
Qed.

(* the three outcomes at offset 0, for the format [n names; g] *)
Lemma tnf0 n a b : wf_bytes a -> wf_bytes b ->
  test_n_name_fields a b n = Ok (tnf_spec n a b 0).
Proof. intros Ha Hb. unfold test_n_name_fields. apply tnf_loop_spec; auto; lia. Qed.

Lemma tnf0_ok n a b len g : tnf_spec n a b 0 = Some (Some len) ->
  len <= length a /\ len <= length b /\
  smatch (repeat FName n ++ g) a = smatch g (skipn len a) /\
  smatch (repeat FName n ++ g) b = smatch g (skipn len b) /\
  ci_fields (repeat FName n ++ g) a b = ci_fields g (skipn len a) (skipn len b).
Proof.
  intros T. destruct (tnf_spec_ok n a b 0 len T ltac:(lia) ltac:(lia)) as (_ & La & Lb & F).
  destruct (F g) as (Fa & Fb & Fc). cbn [skipn] in Fa, Fb, Fc. auto.
Qed.

Lemma tnf0_diff n a b g : tnf_spec n a b 0 = Some None -> eq_spec (repeat FName n ++ g) a b = false.
Proof.
  intros T. destruct (tnf_spec_diff n a b 0 g T) as [N C]. cbn [skipn] in N, C.
  apply eq_spec_false; assumption.
Qed.

Lemma tnf0_none n a b g : tnf_spec n a b 0 = None ->
  eq_spec (repeat FName n ++ g) a b = octets_eqb a b.
Proof.
  intros T. destruct (tnf_spec_none n a b 0 g T) as [Ma _]. cbn [skipn] in Ma.
  apply eq_spec_invalid. left. exact Ma.
Qed.

(* ---- the five handlers ---- *)

Theorem minfo_char a b : wf_bytes a -> wf_bytes b ->
  equals_as_minfo a b = Ok (eq_spec [FName; FName] a b).
Proof.
  intros Ha Hb. unfold equals_as_minfo.
  destruct (Nat.eqb_spec (length a) (length b)) as [L|L]; cbn [negb];
    [|rewrite eq_spec_len by exact L; reflexivity].
  rewrite (tnf0 2 a b Ha Hb). cbn [bind].
  change [FName; FName] with (repeat FName 2 ++ []).
  destruct (tnf_spec 2 a b 0) as [[len|]|] eqn:T.
  - destruct (tnf0_ok 2 a b len [] T) as (La & Lb & Fa & Fb & Fc).
    unfold eq_spec. rewrite Fa, Fb, Fc, !smatch_nil, !is_nil_skipn. cbn [ci_fields].
    rewrite bytes_eqb_octets.
    destruct (Nat.eqb_spec len (length a)) as [E|E].
    + replace (length a <=? len) with true by (symmetry; apply Nat.leb_le; lia).
      replace (length b <=? len) with true by (symmetry; apply Nat.leb_le; lia). cbn [andb].
      rewrite !skipn_all2 by lia. reflexivity.
    + replace (length a <=? len) with false by (symmetry; apply Nat.leb_gt; lia). reflexivity.
  - rewrite (tnf0_diff 2 a b [] T). reflexivity.
  - rewrite (tnf0_none 2 a b [] T), bytes_eqb_octets. reflexivity.
Qed.

Definition soa_tail : list field := [FBytes 4; FBytes 4; FBytes 4; FBytes 4; FBytes 4].

Theorem soa_char a b : wf_bytes a -> wf_bytes b ->
  equals_as_soa a b = Ok (eq_spec [FName; FName; FBytes 4; FBytes 4; FBytes 4; FBytes 4; FBytes 4] a b).
Proof.
  intros Ha Hb. unfold equals_as_soa.
  destruct (Nat.eqb_spec (length a) (length b)) as [L|L]; cbn [negb];
    [|rewrite eq_spec_len by exact L; reflexivity].
  rewrite (tnf0 2 a b Ha Hb). cbn [bind].
  change [FName; FName; FBytes 4; FBytes 4; FBytes 4; FBytes 4; FBytes 4]
    with (repeat FName 2 ++ soa_tail).
  destruct (tnf_spec 2 a b 0) as [[len|]|] eqn:T.
  - destruct (tnf0_ok 2 a b len soa_tail T) as (La & Lb & Fa & Fb & Fc).
    rewrite usub_ok by exact La. cbn [bind].
    unfold eq_spec. rewrite Fa, Fb, Fc. unfold soa_tail. rewrite !smatch_fixed20, !skipn_length.
    rewrite ci_fields_nonames by reflexivity. rewrite <- L.
    destruct (length a - len =? 20) eqn:D; cbn [negb andb].
    + rewrite !slice_from_ok by lia. cbn [bind]. rewrite bytes_eqb_octets. reflexivity.
    + rewrite bytes_eqb_octets. reflexivity.
  - rewrite (tnf0_diff 2 a b soa_tail T). reflexivity.
  - rewrite (tnf0_none 2 a b soa_tail T), bytes_eqb_octets. reflexivity.
Qed.

Theorem ch_a_char a b : wf_bytes a -> wf_bytes b ->
  equals_as_ch_a a b = Ok (eq_spec [FName; FBytes 2] a b).
Proof.
  intros Ha Hb. unfold equals_as_ch_a.
  destruct (Nat.eqb_spec (length a) (length b)) as [L|L]; cbn [negb];
    [|rewrite eq_spec_len by exact L; reflexivity].
  rewrite (tnf0 1 a b Ha Hb). cbn [bind].
  change [FName; FBytes 2] with (repeat FName 1 ++ [FBytes 2]).
  destruct (tnf_spec 1 a b 0) as [[len|]|] eqn:T.
  - destruct (tnf0_ok 1 a b len [FBytes 2] T) as (La & Lb & Fa & Fb & Fc).
    unfold eq_spec. rewrite Fa, Fb, Fc. rewrite !smatch_bytes_last, !skipn_length.
    rewrite ci_fields_nonames by reflexivity. rewrite <- L.
    destruct (Nat.eqb_spec (len + 2) (length a)) as [E|E].
    + replace (length a - len =? 2) with true by (symmetry; apply Nat.eqb_eq; lia). cbn [andb].
      rewrite !slice_from_ok by lia. cbn [bind]. rewrite bytes_eqb_octets. reflexivity.
    + replace (length a - len =? 2) with false by (symmetry; apply Nat.eqb_neq; lia). cbn [andb].
      rewrite bytes_eqb_octets. reflexivity.
  - rewrite (tnf0_diff 1 a b [FBytes 2] T). reflexivity.
  - rewrite (tnf0_none 1 a b [FBytes 2] T), bytes_eqb_octets. reflexivity.
Qed.

Lemma smatch_name_nil : smatch [FName] [] = false.
Proof. reflexivity. Qed.

(* equals_as_mx (k = 2) and equals_as_in_srv (k = 6) *)
Theorem fixed_then_name_char k a b : wf_bytes a -> wf_bytes b ->
  equals_fixed_then_name k a b = Ok (eq_spec [FBytes k; FName] a b).
Proof.
  intros Ha Hb. unfold equals_fixed_then_name.
  destruct (Nat.eqb_spec (length a) (length b)) as [L|L]; cbn [negb];
    [|rewrite eq_spec_len by exact L; reflexivity].
  destruct (k <? length a) eqn:K.
  - apply Nat.ltb_lt in K.
    rewrite !slice_range_ok by lia. cbn [bind]. rewrite !slice_0, bytes_eqb_octets.
    destruct (octets_eqb (firstn k a) (firstn k b)) eqn:P.
    + rewrite !slice_from_ok by lia. cbn [bind].
      rewrite (names_equal_char _ _ (wf_skipn k a Ha) (wf_skipn k b Hb)). f_equal.
      unfold eq_spec. rewrite !smatch_bytes, ci_fields_bytes, P.
      replace (k <=? length a) with true by (symmetry; apply Nat.leb_le; lia).
      replace (k <=? length b) with true by (symmetry; apply Nat.leb_le; lia). cbn [andb].
      rewrite (octets_eqb_split k a b), P. reflexivity.
    + f_equal. symmetry. apply eq_spec_false.
      * intros X. subst b. rewrite octets_eqb_refl in P. discriminate.
      * rewrite ci_fields_bytes, P. reflexivity.
  - apply Nat.ltb_ge in K. rewrite bytes_eqb_octets. f_equal. symmetry.
    apply eq_spec_invalid. left. rewrite smatch_bytes.
    destruct (k <=? length a) eqn:K2; [|reflexivity]. apply Nat.leb_le in K2. cbn [andb].
    rewrite skipn_all2 by lia. apply smatch_name_nil.
Qed.

Theorem mx_char a b : wf_bytes a -> wf_bytes b ->
  equals_as_mx a b = Ok (eq_spec [FBytes 2; FName] a b).
Proof. apply fixed_then_name_char. Qed.

Theorem in_srv_char a b : wf_bytes a -> wf_bytes b ->
  equals_as_in_srv a b = Ok (eq_spec [FBytes 2; FBytes 2; FBytes 2; FName] a b).
Proof.
  intros Ha Hb. rewrite !eq_spec_merge. cbn [Nat.add]. apply (fixed_then_name_char 6 a b Ha Hb).
Qed.

(* ---- Rdata::equals = the characterisation, every class and type ---- *)

Theorem equals_char c t a b : wf_bytes a -> wf_bytes b ->
  equals c t a b = Ok (spec_equals c t a b).
Proof.
  intros Ha Hb. unfold equals. pose proof (dispatch_equals c t) as D.
  destruct (lookup equals_arms equals_default c t); cbn [run_equals];
    destruct D as [C G]; try (rewrite (spec_equals_eq_spec c t a b C), G).
  - apply names_equal_char; auto.
  - apply ch_a_char; auto.
  - apply soa_char; auto.
  - apply minfo_char; auto.
  - apply mx_char; auto.
  - apply in_srv_char; auto.
  - unfold spec_equals. rewrite C. cbn [andb]. rewrite bytes_eqb_octets. reflexivity.
Qed.

(* total: a boolean, never a panic, never out of fuel *)
Theorem equals_total c t a b : wf_bytes a -> wf_bytes b -> exists v, equals c t a b = Ok v.
Proof. intros Ha Hb. eexists. apply equals_char; auto. Qed.

(* the three laws ON THE MODEL, every class and type *)
Theorem equals_laws c t :
  (forall a, wf_bytes a -> equals c t a a = Ok true) /\
  (forall a b, wf_bytes a -> wf_bytes b -> equals c t a b = equals c t b a) /\
  (forall a b d, wf_bytes a -> wf_bytes b -> wf_bytes d ->
     equals c t a b = Ok true -> equals c t b d = Ok true -> equals c t a d = Ok true).
Proof.
  split; [|split].
  - intros a Ha. rewrite (equals_char c t a a Ha Ha), spec_equals_refl. reflexivity.
  - intros a b Ha Hb. rewrite (equals_char c t a b Ha Hb), (equals_char c t b a Hb Ha).
    rewrite spec_equals_sym. reflexivity.
  - intros a b d Ha Hb Hd.
    rewrite (equals_char c t a b Ha Hb), (equals_char c t b d Hb Hd), (equals_char c t a d Ha Hd).
    intros H1 H2. assert (E1 : spec_equals c t a b = true) by congruence.
    assert (E2 : spec_equals c t b d = true) by congruence.
    rewrite (spec_equals_trans c t a b d E1 E2). reflexivity.
Qed.

(* equal RDATA are octet-identical outside the case-insensitive types, and the
   case-insensitive comparison only ever applies to two valid RDATA *)
Theorem equals_octetwise c t a b : wf_bytes a -> wf_bytes b ->
  ci_type c t && spec_valid c t a && spec_valid c t b = false ->
  equals c t a b = Ok (octets_eqb a b).
Proof.
  intros Ha Hb H. rewrite (equals_char c t a b Ha Hb). unfold spec_equals. rewrite H. reflexivity.
Qed.

(* RdataSetOwned::from_iter keeps the first member of each class of the
   characterisation, in insertion order — no hypothesis on equals any more *)
Theorem set_full c t be rs : Forall small rs -> Forall wf_bytes rs ->
  from_iter be c t rs =
    Ok (match rs with [] => None | _ => Some (inner_of be (nodup_by (spec_equals c t) [] rs)) end) /\
  (forall inner, from_iter be c t rs = Ok (Some inner) ->
     set_iter be inner = nodup_by (spec_equals c t) [] rs).
Proof.
  intros Hs Hw.
  apply (from_iter_spec c t (spec_equals c t) rs); auto; [|apply incl_refl].
  intros x y Hx Hy. rewrite Forall_forall in Hw. apply equals_char; auto.
Qed.

(* RdataSetOwned::insert on a set holding [kept]: the RDATA is appended iff no member is
   equal to it (the characterisation), and the flag says which *)
Theorem set_insert_full c t be kept r :
  Forall small kept -> Forall wf_bytes kept -> small r -> wf_bytes r ->
  set_insert be c t (inner_of be kept) r =
  Ok (if existsb (fun y => spec_equals c t r y) kept
      then (inner_of be kept, false)
      else (inner_of be (kept ++ [r]), true)).
Proof.
  intros Hs Hw Hr Hwr. unfold set_insert. rewrite set_iter_inner by exact Hs.
  assert (Heq : forall x y, In x (r :: kept) -> In y (r :: kept) ->
                equals c t x y = Ok (spec_equals c t x y)).
  { assert (W : Forall wf_bytes (r :: kept)) by (constructor; assumption).
    rewrite Forall_forall in W. intros x y Hx Hy. apply equals_char; auto. }
  rewrite (any_equal_spec c t (spec_equals c t) (r :: kept) Heq r kept);
    [|left; reflexivity|intros z Hz; right; exact Hz].
  cbn [bind]. destruct (existsb (fun y => spec_equals c t r y) kept); [reflexivity|].
  rewrite inner_snoc. reflexivity.
Qed.

(* ... so a set whose members are pairwise unequal stays so, and iterates in insertion order *)
Theorem set_insert_iter c t be kept r inner' flag :
  Forall small kept -> Forall wf_bytes kept -> small r -> wf_bytes r ->
  set_insert be c t (inner_of be kept) r = Ok (inner', flag) ->
  set_iter be inner' = (if flag then kept ++ [r] else kept) /\
  flag = negb (existsb (fun y => spec_equals c t r y) kept).
Proof.
  intros Hs Hw Hr Hwr H. rewrite (set_insert_full c t be kept r Hs Hw Hr Hwr) in H.
  destruct (existsb (fun y => spec_equals c t r y) kept); inversion H; subst; cbn [negb].
  - split; [apply set_iter_inner; exact Hs|reflexivity].
  - split; [|reflexivity]. apply set_iter_inner. apply Forall_app. split; [exact Hs|]. constructor; auto.
Qed.
