(* Name writes preserve the anchor invariant [NInv]: the set L of label starts stays closed under
   decoding (never reading the header, the RDLENGTH hole, or octets at/above the cursor), every
   member decodes, the three compression anchors are members; the new name's own label starts join
   L, its pointer (if any) leads into the old L; a name never takes more room than its
   uncompressed form and fails (Truncation) only if that form does not fit. *)
From QV Require Import Base.ListX Model.MsgWriter Spec.NameWireS Proofs.NameWireP Proofs.MsgWriterP
     Proofs.MsgWriterScanP Proofs.MsgWriterNameP Proofs.MsgWriterClosP Proofs.MsgWriterScanSP.

Local Open Scope nat_scope.

Record NInv (w : writer) (h : nat) (L : nat -> Prop) : Prop := mkNInv {
  ni_nb : nb w;
  ni_lo : header_size <= w_cursor w;
  ni_hole : length (w_buf w) <= h \/ h + 2 <= w_cursor w;
  ni_closed : closed (w_buf w) header_size (w_cursor w) h L;
  ni_dec : decodable (w_buf w) (w_cursor w) L;
  ni_pr : priors_ok w;
  ni_prL : forall pr, w_qname w = Some pr \/ w_mro w = Some pr \/ w_mrn w = Some pr -> L (p_ptr pr);
  ni_sdec : sdec (w_buf w) (w_cursor w) L }.

Definition grew (w w' : writer) (L L' : nat -> Prop) : Prop :=
  (forall s, L s -> L' s) /\ (forall s, L' s -> L s \/ (w_cursor w <= s /\ s < w_cursor w')).

Lemma grew_refl w w' L : grew w w' L L.
Proof. split; auto. Qed.

Lemma grew_trans w1 w2 w3 L1 L2 L3 : w_cursor w1 <= w_cursor w2 -> w_cursor w2 <= w_cursor w3 ->
  grew w1 w2 L1 L2 -> grew w2 w3 L2 L3 -> grew w1 w3 L1 L3.
Proof.
  intros C1 C2 [A1 A2] [B1 B2]. split; auto.
  intros s Hs. destruct (B2 s Hs) as [H|H]; [|right; lia].
  destruct (A2 s H) as [K|K]; [left; auto|right; lia].
Qed.

Lemma NInv_ext w w' h L : NInv w h L -> ext (w_cursor w) w w' -> side_eq w w' -> NInv w' h L.
Proof.
  intros [Hnb Hlo Hh Hcl Hd [Pq [Po Pr]] HL Hsd] X [S1 [S2 [S3 S4]]].
  pose proof (x_len _ _ _ X) as XL. pose proof (x_cur _ _ _ X) as XC. pose proof (x_agree _ _ _ X) as XA.
  pose proof (ext_nb _ _ _ X Hnb) as [Nb1 Nb2].
  assert (R : ragree header_size (w_cursor w) h (w_buf w) (w_buf w')) by (apply agree_ragree; auto).
  constructor.
  - eapply ext_nb; eauto.
  - lia.
  - rewrite XL. lia.
  - eapply closed_mono_c; [eapply closed_transfer; eauto|lia].
  - eapply decodable_mono; [eapply decodable_transfer; eauto|lia].
  - unfold priors_ok. rewrite S1, S2, S3.
    repeat split; eapply oprior_ok_stable; eauto.
  - rewrite S1, S2, S3. exact HL.
  - eapply sdec_mono; [eapply sdec_transfer; eauto; lia|lia].
Qed.

Lemma NInv_grow w h (L L' : nat -> Prop) : NInv w h L -> (forall s, L s -> L' s) ->
  closed (w_buf w) header_size (w_cursor w) h L' -> sdec (w_buf w) (w_cursor w) L' -> NInv w h L'.
Proof. intros [] HL C D. constructor; auto. apply sdec_decodable; auto. Qed.

Lemma NInv_try_push data w u w' h L : NInv w h L -> try_push data w = Ok (u, w') -> NInv w' h L.
Proof.
  intros Hi E. destruct (try_push_ext (w_cursor w) _ _ _ _ E (le_n _)) as [X [Sd _]].
  eapply NInv_ext; eauto.
Qed.

Lemma try_push_err_size data w e w' : w_cursor w <= w_avail w -> try_push data w = Err (e, w') ->
  w_avail w < w_cursor w + length data.
Proof.
  intros Hc. unfold try_push, w_write.
  destruct (w_avail w <? w_cursor w); [discriminate|].
  destruct (length data <=? w_avail w - w_cursor w) eqn:E2.
  - destruct (buf_write (w_buf w) (w_cursor w) data); discriminate.
  - intros _. apply Nat.leb_gt in E2. lia.
Qed.

Lemma NInv_set_mro w h L pr : NInv w h L -> oprior_ok (w_buf w) (w_cursor w) pr ->
  (forall p, pr = Some p -> L (p_ptr p)) -> NInv (set_mro w pr) h L.
Proof.
  intros [Hnb Hlo Hh Hcl Hd [Pq [Po Pr]] HL Hsd] Hp HpL. constructor; auto.
  - repeat split; auto.
  - simpl. intros p [H|[H|H]]; auto.
Qed.

Lemma NInv_set_mrn w h L pr : NInv w h L -> oprior_ok (w_buf w) (w_cursor w) pr ->
  (forall p, pr = Some p -> L (p_ptr p)) -> NInv (set_mrn w pr) h L.
Proof.
  intros [Hnb Hlo Hh Hcl Hd [Pq [Po Pr]] HL Hsd] Hp HpL. constructor; auto.
  - repeat split; auto.
  - simpl. intros p [H|[H|H]]; auto.
Qed.

Lemma NInv_set_qname w h L pr : NInv w h L -> oprior_ok (w_buf w) (w_cursor w) pr ->
  (forall p, pr = Some p -> L (p_ptr p)) -> NInv (set_qname w pr) h L.
Proof.
  intros [Hnb Hlo Hh Hcl Hd [Pq [Po Pr]] HL Hsd] Hp HpL. constructor; auto.
  - repeat split; auto.
  - simpl. intros p [H|[H|H]]; auto.
Qed.

(* ---------------------------------------------------------------- a block of labels in the buffer *)

Lemma lwire_tail (b : bytes) i l r : length l <= 63 ->
  slice b i (i + S (length l + length (nm_lwire r))) = N.of_nat (length l) :: l ++ nm_lwire r ->
  i + S (length l + length (nm_lwire r)) <= length b ->
  nth_error b i = Some (N.of_nat (length l)) /\
  slice b (i + 1) (i + 1 + length l) = l /\
  slice b (i + 1 + length l) (i + 1 + length l + length (nm_lwire r)) = nm_lwire r.
Proof.
  intros H63 Hs Hlen. apply slice_head in Hs as [Hnth [Hs _]]. split; auto.
  rewrite (slice_app b (S i) (S i + length l)) in Hs by lia.
  apply app_eq_len in Hs as [Hs1 Hs2]; [|rewrite slice_length; lia].
  replace (i + 1) with (S i) by lia. split; auto.
  replace (i + S (length l + length (nm_lwire r))) with (S i + length l + length (nm_lwire r)) in Hs2 by lia.
  exact Hs2.
Qed.

Lemma lstarts_local b lo c h (L' : nat -> Prop) : forall ls i, Forall wf_label ls ->
  slice b i (i + length (nm_lwire ls)) = nm_lwire ls -> i + length (nm_lwire ls) <= length b ->
  okr lo c h i (i + length (nm_lwire ls)) ->
  (forall s, In s (lstarts i ls) -> L' s) -> nextok b lo c h L' (i + length (nm_lwire ls)) ->
  forall s, In s (lstarts i ls) -> local_ok b lo c h L' s.
Proof.
  induction ls as [|l r IH]; intros i Hwf Hs Hlen Ho HL Hk s Hin; [destruct Hin|].
  inversion Hwf as [|? ? [Hl1 Hl63] Hwf']; subst.
  rewrite nm_lwire_cons in *. simpl length in *. rewrite app_length in *.
  destruct (lwire_tail b i l r Hl63 Hs Hlen) as [Hnth [Hsl Hsr]].
  assert (Hto : N.to_nat (N.of_nat (length l)) = length l) by apply Nat2N.id.
  simpl in Hin. destruct Hin as [<-|Hin].
  - exists (N.of_nat (length l)). split; [exact Hnth|]. split; [lia|]. rewrite Hto. split.
    + unfold okr in *. lia.
    + intros _. destruct r as [|l2 r2].
      * simpl in Hk. replace (i + S (length l + 0)) with (i + 1 + length l) in Hk by lia. exact Hk.
      * left. apply HL. simpl. right. left. reflexivity.
  - apply (IH (i + 1 + length l)); auto.
    + lia.
    + unfold okr in *. lia.
    + intros s' Hs'. apply HL. simpl. right. exact Hs'.
    + replace (i + 1 + length l + length (nm_lwire r)) with (i + S (length l + length (nm_lwire r))) by lia.
      exact Hk.
Qed.

Lemma lstarts_dec b c : forall ls i rest, Forall wf_label ls ->
  slice b i (i + length (nm_lwire ls)) = nm_lwire ls -> i + length (nm_lwire ls) <= length b ->
  i + length (nm_lwire ls) <= c -> name_at b c (i + length (nm_lwire ls)) rest ->
  forall s, In s (lstarts i ls) -> exists ls', name_at b c s ls'.
Proof.
  induction ls as [|l r IH]; intros i rest Hwf Hs Hlen Hc Hn s Hin; [destruct Hin|].
  simpl in Hin. destruct Hin as [<-|Hin].
  - exists ((l :: r) ++ rest). apply name_at_labels; auto.
  - inversion Hwf as [|? ? [Hl1 Hl63] Hwf']; subst.
    rewrite nm_lwire_cons in *. simpl length in *. rewrite app_length in *.
    destruct (lwire_tail b i l r Hl63 Hs Hlen) as [Hnth [Hsl Hsr]].
    apply (IH (i + 1 + length l) rest); auto; try lia.
    replace (i + 1 + length l + length (nm_lwire r)) with (i + S (length l + length (nm_lwire r))) by lia.
    exact Hn.
Qed.

Lemma decodes_labels b cs : forall ls i rest e, Forall wf_label ls ->
  slice b i (i + length (nm_lwire ls)) = nm_lwire ls -> i + length (nm_lwire ls) <= length b ->
  decodes b cs (i + length (nm_lwire ls)) rest e -> decodes b cs i (ls ++ rest) e.
Proof.
  induction ls as [|l r IH]; intros i rest e Hwf Hs Hlen Hd.
  - simpl in *. rewrite Nat.add_0_r in Hd. exact Hd.
  - inversion Hwf as [|? ? [Hl1 Hl63] Hwf']; subst.
    rewrite nm_lwire_cons in *. simpl length in *. rewrite app_length in *.
    destruct (lwire_tail b i l r Hl63 Hs Hlen) as [Hnth [Hsl Hsr]].
    assert (Hto : N.to_nat (N.of_nat (length l)) = length l) by apply Nat2N.id.
    simpl app.
    pose proof (dec_label b cs i (N.of_nat (length l)) (r ++ rest) e Hnth ltac:(lia) ltac:(lia)) as K.
    rewrite Hto in K. rewrite Hsl in K. apply K; [lia|]. apply IH; auto; try lia.
    replace (i + 1 + length l + length (nm_lwire r)) with (i + S (length l + length (nm_lwire r))) by lia.
    exact Hd.
Qed.

Lemma lstarts_sdec b c : forall ls i rest e, Forall wf_label ls ->
  slice b i (i + length (nm_lwire ls)) = nm_lwire ls -> i + length (nm_lwire ls) <= length b ->
  i + length (nm_lwire ls) <= c -> name_at b c (i + length (nm_lwire ls)) rest ->
  (forall cs, i <= cs -> decodes b cs (i + length (nm_lwire ls)) rest e) ->
  forall s, In s (lstarts i ls) -> exists ls' e', name_at b c s ls' /\ decodes b s s ls' e'.
Proof.
  induction ls as [|l r IH]; intros i rest e Hwf Hs Hlen Hc Hn Hd s Hin; [destruct Hin|].
  simpl in Hin. destruct Hin as [<-|Hin].
  - exists ((l :: r) ++ rest), e. split; [apply name_at_labels; auto|].
    apply decodes_labels; auto.
  - inversion Hwf as [|? ? [Hl1 Hl63] Hwf']; subst.
    rewrite nm_lwire_cons in *. simpl length in *. rewrite app_length in *.
    destruct (lwire_tail b i l r Hl63 Hs Hlen) as [Hnth [Hsl Hsr]].
    apply (IH (i + 1 + length l) rest e); auto; try lia.
    + replace (i + 1 + length l + length (nm_lwire r)) with (i + S (length l + length (nm_lwire r))) by lia.
      exact Hn.
    + intros cs Hcs.
      replace (i + 1 + length l + length (nm_lwire r)) with (i + S (length l + length (nm_lwire r))) by lia.
      apply Hd. lia.
Qed.

Lemma lstarts_head i ls : ls <> [] -> In i (lstarts i ls).
Proof. destruct ls; [congruence|]. intros _. simpl. auto. Qed.

Lemma lwire_firstn_lt n k : wf_name n -> k < length n ->
  length (nm_lwire (firstn k n)) + 2 <= length (nm_lwire n).
Proof.
  intros [Hwf _] Hk. rewrite <- (firstn_skipn k n) at 2. rewrite nm_lwire_app, app_length.
  destruct (skipn k n) as [|l r] eqn:E.
  - assert (length (skipn k n) = 0) by (rewrite E; reflexivity). rewrite skipn_length in H. lia.
  - assert (Hin : In l n) by (apply (In_skipn k); rewrite E; left; reflexivity).
    rewrite Forall_forall in Hwf. destruct (Hwf l Hin) as [H1 _].
    rewrite nm_lwire_cons. simpl length. rewrite app_length. lia.
Qed.

Lemma nm_wire_length n : length (nm_wire n) = length (nm_lwire n) + 1.
Proof. unfold nm_wire. rewrite app_length. reflexivity. Qed.

(* ---------------------------------------------------------------- blocks written at the cursor *)

Definition Lroot (L : nat -> Prop) (c : nat) (n : wname) : nat -> Prop :=
  fun s => L s \/ In s (lstarts c n) \/ s = c + length (nm_lwire n).
Definition Lptr (L : nat -> Prop) (c : nat) (ls : list bytes) : nat -> Prop :=
  fun s => L s \/ In s (lstarts c ls).

Lemma block_root w' h L c n : NInv w' h L -> wf_name n -> header_size <= c ->
  (length (w_buf w') <= h \/ h + 2 <= c) ->
  slice (w_buf w') c (w_cursor w') = nm_wire n -> w_cursor w' = c + length (nm_wire n) ->
  closed (w_buf w') header_size (w_cursor w') h (Lroot L c n) /\
  sdec (w_buf w') (w_cursor w') (Lroot L c n).
Proof.
  intros Hi Hwf Hlo Hh Hs Hc'. destruct Hi as [[Hn1 Hn2] _ _ Hcl _ _ _ Hd].
  rewrite nm_wire_length in Hc'. unfold nm_wire in Hs.
  destruct (slice_app_l (w_buf w') c (c + length (nm_lwire n)) (w_cursor w') _ _ Hs eq_refl ltac:(lia) ltac:(lia))
    as [S1 S2].
  apply slice_head in S2 as [Hz _].
  assert (Hroot : name_at (w_buf w') (w_cursor w') (c + length (nm_lwire n)) []) by (apply na_root; [lia|exact Hz]).
  split.
  - intros s [Hs' | [Hs' | ->]].
    + eapply local_mono; [| |apply (Hcl s Hs')]; auto. intros; left; auto.
    + apply (lstarts_local _ _ _ _ _ n c); auto; try lia.
      * apply Hwf.
      * unfold okr. lia.
      * intros s' K. right. left. exact K.
      * left. right. right. reflexivity.
    + exists 0%N. split; [exact Hz|]. split; [lia|]. split; [unfold okr; simpl; lia|]. intros K; congruence.
  - intros s [Hs' | [Hs' | ->]].
    + apply Hd; auto.
    + apply (lstarts_sdec _ _ n c [] (c + length (nm_lwire n) + 1)); auto; try lia; [apply Hwf|].
      intros cs _. constructor. exact Hz.
    + exists [], (c + length (nm_lwire n) + 1). split; [exact Hroot|]. constructor. exact Hz.
Qed.

Lemma block_ptr w' h L c ls pp : NInv w' h L -> Forall wf_label ls -> header_size <= c ->
  (length (w_buf w') <= h \/ h + 2 <= c) ->
  slice (w_buf w') c (w_cursor w') = nm_lwire ls ++ be16 (ptr_word pp) ->
  w_cursor w' = c + length (nm_lwire ls) + 2 -> L pp -> pp < c -> pp <= pointer_max ->
  closed (w_buf w') header_size (w_cursor w') h (Lptr L c ls) /\
  sdec (w_buf w') (w_cursor w') (Lptr L c ls).
Proof.
  intros Hi Hwf Hlo Hh Hs Hc' HL Hpc Hpm. destruct Hi as [[Hn1 Hn2] _ _ Hcl _ _ _ Hd].
  destruct (slice_app_l (w_buf w') c (c + length (nm_lwire ls)) (w_cursor w') _ _ Hs eq_refl ltac:(lia) ltac:(lia))
    as [S1 S2].
  destruct (ptr_word_bytes pp Hpm) as [hi [lo [Eb [Ehi Et]]]].
  assert (Hhi : (hi < 256)%N) by (unfold be16 in Eb; inversion Eb; apply N.mod_lt; lia).
  rewrite Eb in S2. apply slice_head in S2 as [Z1 [S3 _]]. apply slice_head in S3 as [Z2 _].
  replace (S (c + length (nm_lwire ls))) with (c + length (nm_lwire ls) + 1) in Z2 by lia.
  destruct (Hd pp HL) as [rest [erest [Hrest Hdrest]]].
  destruct (spec_target hi lo Ehi Hhi) as [H192 Etspec].
  assert (Hpn : name_at (w_buf w') (w_cursor w') (c + length (nm_lwire ls)) rest).
  { eapply na_ptr; eauto; try lia; rewrite Et; try lia; [eapply closed_real; eauto|exact Hrest]. }
  assert (Hps : ptr_step (w_buf w') header_size (w_cursor w') h (Lptr L c ls) (c + length (nm_lwire ls))).
  { exists hi, lo. split; [exact Z1|]. split; [exact Ehi|]. split; [exact Z2|].
    split; [unfold okr; lia|]. rewrite Et. split; [lia|]. split; [left; exact HL|exact Hhi]. }
  split.
  - intros s [Hs' | Hs'].
    + eapply local_mono; [| |apply (Hcl s Hs')]; auto. intros; left; auto.
    + apply (lstarts_local _ _ _ _ _ ls c); auto; try lia.
      * unfold okr. lia.
      * intros s' K. right. exact K.
      * right. exact Hps.
  - intros s [Hs' | Hs'].
    + apply Hd; auto.
    + apply (lstarts_sdec _ _ ls c rest (c + length (nm_lwire ls) + 2)); auto; try lia.
      intros cs Hcs. eapply dec_ptr; eauto.
      * rewrite Etspec, Et. lia.
      * rewrite Etspec, Et. exact Hdrest.
Qed.

(* ---------------------------------------------------------------- post-conditions with L *)

(* what was emitted, with the pointer target known to be a member of the OLD set of label starts *)
Definition emittedL (n : wname) (b' : bytes) (c c' : nat) (L : nat -> Prop) : Prop :=
  slice b' c c' = nm_wire n \/
  exists k pp, k < length n /\ slice b' c c' = nm_lwire (firstn k n) ++ be16 (ptr_word pp) /\
               L pp /\ pp < c /\ 0 < pp /\ pp <= pointer_max.

(* the shape of a name chunk: plain (None) or k labels and a pointer to pp (Some (k, pp)) *)
Definition shape := option (nat * nat).

Definition shape_at (cp : bool) (n : wname) (b : bytes) (L : nat -> Prop) (pos e : nat) (sh : shape) : Prop :=
  match sh with
  | None => slice b pos e = nm_wire n
  | Some (k, pp) => k < length n /\ slice b pos e = nm_lwire (firstn k n) ++ be16 (ptr_word pp) /\
                    L pp /\ pp < pos /\ 0 < pp /\ pp <= pointer_max /\ named cp (skipn k n) b pos pp
  end.

(* the label starts (root included) of the chunk itself *)
Definition own_starts (pos : nat) (n : wname) (sh : shape) : list nat :=
  match sh with
  | None => lstarts pos n ++ [pos + length (nm_lwire n)]
  | Some (k, _) => lstarts pos (firstn k n)
  end.

(* what was emitted, and the new set of label starts given exactly: the old one plus this name's own *)
Definition emittedT (cp : bool) (n : wname) (b' : bytes) (c c' : nat) (L L' : nat -> Prop) : Prop :=
  exists sh, shape_at cp n b' L c c' sh /\ forall s, L' s <-> L s \/ In s (own_starts c n sh).

Lemma Lroot_own L c n s : Lroot L c n s <-> L s \/ In s (own_starts c n None).
Proof.
  unfold Lroot, own_starts. rewrite in_app_iff. simpl. split.
  - intros [H|[H|H]]; auto.
  - intros [H|[H|[H|[]]]]; auto.
Qed.

Definition wroteL (cp : bool) (h : nat) (n : wname) (w : writer) (L : nat -> Prop)
           (pr : option prior) (w' : writer) : Prop :=
  wrote cp (w_cursor w) n w w' pr /\
  w_cursor w' <= w_cursor w + length (nm_wire n) /\
  emittedL n (w_buf w') (w_cursor w) (w_cursor w') L /\
  exists L', grew w w' L L' /\ NInv w' h L' /\ (forall p, pr = Some p -> L' (p_ptr p)) /\
             emittedT cp n (w_buf w') (w_cursor w) (w_cursor w') L L'.

Definition name_postL (cp : bool) (h : nat) (n : wname) (w : writer) (L : nat -> Prop)
           (r : M (option prior)) : Prop :=
  match r with
  | Ok (pr, w') => wroteL cp h n w L pr w'
  | Err (e, w') => e = Truncation /\ ext (w_cursor w) w w' /\ side_eq w w' /\
                   w_avail w < w_cursor w + length (nm_wire n)
  | Panic => False
  end.

Lemma named_weaken cp n b c i : named true n b c i -> named cp n b c i.
Proof. intros [m [H1 H2]]. exists m. split; auto. apply name_eq_weaken; auto. Qed.

Lemma shape_weaken cp n b L pos e sh : shape_at true n b L pos e sh -> shape_at cp n b L pos e sh.
Proof.
  destruct sh as [[k pp]|]; simpl; auto. intros [H1 [H2 [H3 [H4 [H5 [H6 H7]]]]]].
  repeat split; auto. apply named_weaken; auto.
Qed.

Lemma name_postL_weaken cp h n w L r : name_postL true h n w L r -> name_postL cp h n w L r.
Proof.
  destruct r as [[pr w']|[e w']|]; simpl; auto.
  intros [W [Hs [He [L' [G [Hi [Hp [sh [Hsh Ht]]]]]]]]]. split.
  - exact (name_post_weaken cp (w_cursor w) n w (Ok (pr, w')) W).
  - split; auto. split; auto. exists L'. split; auto. split; auto. split; auto.
    exists sh. split; auto. apply shape_weaken; auto.
Qed.

Lemma hole_ext w w' h : ext (w_cursor w) w w' -> (length (w_buf w) <= h \/ h + 2 <= w_cursor w) ->
  length (w_buf w') <= h \/ h + 2 <= w_cursor w.
Proof. intros X. rewrite (x_len _ _ _ X). auto. Qed.

Lemma write_uncompressed_L h n w L : NInv w h L -> wf_name n ->
  name_postL true h n w L (write_uncompressed_name n w).
Proof.
  intros Hi Hwf.
  pose proof (write_uncompressed_spec (w_cursor w) n w (ni_nb _ _ _ Hi) (le_n _) Hwf) as OLD.
  unfold write_uncompressed_name in *.
  destruct (try_push (nm_wire n) w) as [[u w1]|[e w1]|] eqn:E; simpl in *; auto.
  - destruct (try_push_ext (w_cursor w) _ _ _ _ E (le_n _)) as [X [Sd [Hcur [Hsl Hag]]]].
    pose proof (NInv_ext _ _ _ _ Hi X Sd) as Hi1.
    split; [exact OLD|]. split; [lia|]. split; [left; exact Hsl|].
    destruct (block_root w1 h L (w_cursor w) n Hi1 Hwf (ni_lo _ _ _ Hi)
                (hole_ext _ _ _ X (ni_hole _ _ _ Hi)) Hsl Hcur) as [C D].
    exists (Lroot L (w_cursor w) n). split; [|split].
    + split; [intros; left; auto|]. intros s [K | [K | ->]]; auto; right.
      * apply lstarts_bound in K. rewrite nm_wire_length in Hcur. lia.
      * rewrite nm_wire_length in Hcur. lia.
    + eapply NInv_grow; eauto. intros; left; auto.
    + split; [|exists None; split; [exact Hsl|intros s; apply Lroot_own]].
      intros p Hp. destruct (hp_new (w_cursor w)) as [q|] eqn:Eh; simpl in Hp; [|discriminate].
      inversion Hp; subst p. apply hp_new_some in Eh as [-> _]. simpl.
      destruct n as [|l r]; [right; right; simpl; lia|right; left; apply lstarts_head; discriminate].
  - destruct OLD as [-> [X Sd]]. repeat split; auto; try apply X; try apply Sd.
    eapply try_push_err_size; eauto. apply Hi.
Qed.

(* the hint contract extended with membership in L *)
Lemma push_prior_ptr_L h n w L pr : NInv w h L -> wf_name n -> hinted n w pr -> L (p_ptr pr) ->
  2 < length (nm_wire n) -> name_postL false h n w L (push_prior_ptr pr w).
Proof.
  intros Hi Hwf Hh HL H2.
  pose proof (push_prior_ptr_spec (w_cursor w) n w pr (ni_nb _ _ _ Hi) (le_n _) Hh) as OLD.
  unfold push_prior_ptr, try_push_u16 in *.
  destruct (try_push (be16 (ptr_word (p_ptr pr))) w) as [[u w1]|[e w1]|] eqn:E; simpl in *; auto.
  - destruct (try_push_ext (w_cursor w) _ _ _ _ E (le_n _)) as [X [Sd [Hcur [Hsl Hag]]]].
    rewrite be16_length in Hcur.
    destruct Hh as [[P0 [Pm _]] [Hlen [m [Hm Hme]]]]. destruct (name_at_lt _ _ _ _ Hm) as [Hlt _].
    split; [exact OLD|]. split; [lia|]. split.
    + right. exists 0, (p_ptr pr). simpl. repeat split; auto.
      destruct n; [simpl in H2; lia|simpl; lia].
    + exists L. split; [apply grew_refl|]. split; [eapply NInv_ext; eauto|]. split.
      * intros p Hp. inversion Hp; subst p. exact HL.
      * exists (Some (0, p_ptr pr)). split; [|simpl; intros s; tauto].
        simpl. split; [destruct n; [simpl in H2; lia|simpl; lia]|]. split; [exact Hsl|].
        split; [exact HL|]. split; [lia|]. split; [lia|]. split; [lia|].
        exists m. split; [eapply name_at_stable; [exact Hm|exact Hag|lia]|exact Hme].
  - destruct OLD as [-> [X Sd]]. repeat split; auto; try apply X; try apply Sd.
    pose proof (try_push_err_size _ _ _ _ (proj1 (ni_nb _ _ _ Hi)) E) as K.
    rewrite be16_length in K. lia.
Qed.

Lemma compressed_tail_L cp h n w L cs : NInv w h L -> wf_name n ->
  (forall m, longest_match cs = Some m -> match_ok (w_buf w) (w_cursor w) cp n m) ->
  (forall sc pp, longest_match cs = Some (sc, pp) -> L pp /\ sc < length n) ->
  name_postL cp h n w L (compressed_tail n w cs).
Proof.
  intros Hi Hwf Hm HmL.
  pose proof (compressed_tail_spec cp (w_cursor w) n w cs (ni_nb _ _ _ Hi) (le_n _) Hwf Hm) as OLD.
  unfold compressed_tail in *.
  destruct (longest_match cs) as [[sc pp]|] eqn:El;
    [|apply name_postL_weaken, write_uncompressed_L; auto].
  destruct (HmL sc pp eq_refl) as [Lpp Hsc].
  destruct (Hm _ eq_refl) as [M1 [M2 [M3 [M4 [pre [M5 M6]]]]]]. simpl in M1, M2, M3, M4, M5, M6.
  destruct (name_at_lt _ _ _ _ M5) as [Mlt _].
  assert (Hn3 : 2 < length (nm_wire n)).
  { rewrite nm_wire_length. pose proof (lwire_firstn_lt n sc Hwf Hsc). lia. }
  destruct (sc =? 0) eqn:Esc.
  - apply Nat.eqb_eq in Esc. subst sc. unfold try_push_u16 in *.
    destruct (try_push (be16 (ptr_word pp)) w) as [[u w1]|[e w1]|] eqn:E; simpl in *; auto.
    + destruct (try_push_ext (w_cursor w) _ _ _ _ E (le_n _)) as [X [Sd [Hcur [Hsl Hag]]]].
      rewrite be16_length in Hcur.
      split; [exact OLD|]. split; [lia|]. split.
      * right. exists 0, pp. simpl. repeat split; auto.
      * exists L. split; [apply grew_refl|]. split; [eapply NInv_ext; eauto|]. split.
        -- intros p Hp. inversion Hp; subst p. exact Lpp.
        -- exists (Some (0, pp)). split; [|simpl; intros s; tauto].
           simpl. split; [lia|]. split; [exact Hsl|]. split; [exact Lpp|]. split; [lia|]. split; [lia|].
           split; [lia|]. exists pre. split; [eapply name_at_stable; [exact M5|exact Hag|lia]|exact M6].
    + destruct OLD as [-> [X Sd]]. repeat split; auto; try apply X; try apply Sd.
      pose proof (try_push_err_size _ _ _ _ (proj1 (ni_nb _ _ _ Hi)) E) as K.
      rewrite be16_length in K. lia.
  - apply Nat.eqb_neq in Esc. unfold nm_wire_to, nm_len in *.
    destruct (sc =? S (length n)) eqn:Ea; [apply Nat.eqb_eq in Ea; lia|].
    destruct (S (length n) <? sc) eqn:Eb; [apply Nat.ltb_lt in Eb; lia|].
    pose proof (lwire_firstn_lt n sc Hwf Hsc) as Hsz. pose proof (nm_wire_length n) as Hwl.
    destruct (try_push (nm_lwire (firstn sc n)) w) as [[u w1]|[e w1]|] eqn:E; simpl in *; auto.
    2:{ destruct OLD as [-> [X Sd]]. repeat split; auto; try apply X; try apply Sd.
        pose proof (try_push_err_size _ _ _ _ (proj1 (ni_nb _ _ _ Hi)) E) as K. lia. }
    destruct (try_push_ext (w_cursor w) _ _ _ _ E (le_n _)) as [X [Sd [Hcur [Hsl Hag]]]].
    pose proof (NInv_ext _ _ _ _ Hi X Sd) as Hi1.
    unfold try_push_u16 in *.
    destruct (try_push (be16 (ptr_word pp)) w1) as [[u2 w2]|[e w2]|] eqn:E'; simpl in *; auto.
    2:{ destruct OLD as [-> [X2 Sd2]]. repeat split; auto; try apply X2; try apply Sd2.
        pose proof (try_push_err_size _ _ _ _ (proj1 (ni_nb _ _ _ Hi1)) E') as K.
        rewrite be16_length in K. rewrite (x_av _ _ _ X) in K. lia. }
    destruct (try_push_ext (w_cursor w1) _ _ _ _ E' (le_n _)) as [X2 [Sd2 [Hcur2 [Hsl2 Hag2]]]].
    rewrite be16_length in Hcur2.
    pose proof (NInv_ext _ _ _ _ Hi1 X2 Sd2) as Hi2.
    assert (Hblk : slice (w_buf w2) (w_cursor w) (w_cursor w2) = nm_lwire (firstn sc n) ++ be16 (ptr_word pp)).
    { rewrite (slice_app _ (w_cursor w) (w_cursor w1)) by lia.
      rewrite Hsl2. f_equal.
      rewrite (agree_slice (w_cursor w1) (w_buf w1) (w_buf w2) _ _ Hag2) by lia. exact Hsl. }
    split; [exact OLD|]. split; [lia|]. split.
    + right. exists sc, pp. repeat split; auto.
    + assert (Hh2 : length (w_buf w2) <= h \/ h + 2 <= w_cursor w).
      { rewrite (x_len _ _ _ X2), (x_len _ _ _ X). apply Hi. }
      destruct (block_ptr w2 h L (w_cursor w) (firstn sc n) pp Hi2 (wf_name_firstn n sc Hwf)
                  (ni_lo _ _ _ Hi) Hh2 Hblk ltac:(lia) Lpp Mlt M3) as [C D].
      exists (Lptr L (w_cursor w) (firstn sc n)). split; [|split].
      * split; [intros; left; auto|]. intros s [K|K]; auto. right.
        apply lstarts_bound in K. lia.
      * eapply NInv_grow; eauto. intros; left; auto.
      * split.
        -- intros p Hp. destruct (hp_new (w_cursor w)) as [q|] eqn:Eh; simpl in Hp; [|discriminate].
           inversion Hp; subst p. apply hp_new_some in Eh as [-> _]. simpl.
           right. apply lstarts_head. destruct n; destruct sc; simpl in *; try lia; discriminate.
        -- exists (Some (sc, pp)). split; [|intros s; unfold Lptr; simpl; tauto].
           simpl. split; [lia|]. split; [exact Hblk|]. split; [exact Lpp|]. split; [lia|]. split; [lia|].
           split; [lia|]. exists pre. split; [|exact M6].
           eapply name_at_stable; [exact M5| |lia].
           eapply agree_trans; [exact Hag|]. eapply agree_le; [exact Hag2|lia].
Qed.

Lemma or_else_L (L : nat -> Prop) (a o : option prior) :
  (forall pr, a = Some pr -> L (p_ptr pr)) -> (forall pr, o = Some pr -> L (p_ptr pr)) ->
  forall pr, or_else a o = Some pr -> L (p_ptr pr).
Proof. destruct a; simpl; auto. Qed.

Lemma write_compressed_L h n w L : NInv w h L -> wf_name n ->
  name_postL (cpflag (w_mode w)) h n w L (write_compressed_unhinted_name n w).
Proof.
  intros Hi Hwf. pose proof (ni_pr _ _ _ Hi) as [Pq [Po Pr]]. pose proof (ni_prL _ _ _ Hi) as HL.
  rewrite write_compressed_unfold.
  assert (Hunc : name_postL (cpflag (w_mode w)) h n w L (write_uncompressed_name n w))
    by (apply name_postL_weaken, write_uncompressed_L; auto).
  assert (Hoq : oprior_ok (w_buf w) (w_cursor w) (or_else (w_mro w) (w_qname w)))
    by (apply or_else_ok; auto).
  assert (HoL : forall pr, or_else (w_mro w) (w_qname w) = Some pr -> L (p_ptr pr))
    by (apply or_else_L; intros; apply HL; auto).
  assert (HrL : forall pr, w_mrn w = Some pr -> L (p_ptr pr)) by (intros; apply HL; auto).
  destruct (search_ok (w_buf w) (w_cursor w) (cpflag (w_mode w)) n _ _ Hoq Pr) as [cs [Es Hm]].
  assert (Hgo : name_postL (cpflag (w_mode w)) h n w L
                  (let* (cs, _) := lift (let* c0 := opt_build (w_buf w) (nm_len n) (or_else (w_mro w) (w_qname w)) in
                                         let* c1 := opt_build (w_buf w) (nm_len n) (w_mrn w) in
                                         scan (w_buf w) (cpflag (w_mode w)) 0 n (c0, c1)) w in
                   compressed_tail n w cs)).
  { rewrite Es. simpl. apply compressed_tail_L; auto.
    intros sc pp K.
    exact (search_L (w_buf w) header_size (w_cursor w) h L (ni_closed _ _ _ Hi) (w_cursor w)
             (cpflag (w_mode w)) n _ _ cs sc pp Hoq Pr HoL HrL Es K). }
  destruct (or_else (w_mro w) (w_qname w)); [exact Hgo|].
  destruct (w_mrn w); [exact Hgo|exact Hunc].
Qed.

Lemma write_unhinted_L h n w L : NInv w h L -> wf_name n ->
  name_postL (exactf (w_mode w)) h n w L (write_unhinted_name n w).
Proof.
  intros Hi Hwf. unfold write_unhinted_name.
  pose proof (write_uncompressed_L h n w L Hi Hwf) as U.
  pose proof (write_compressed_L h n w L Hi Hwf) as C.
  destruct (w_mode w) eqn:Em; simpl in *.
  - destruct (2 <? length (nm_wire n)); [exact C|apply name_postL_weaken; exact U].
  - destruct (2 <? length (nm_wire n)); [exact C|exact U].
  - exact U.
Qed.

Definition hint_in (h : hint) (w : writer) (L : nat -> Prop) : Prop :=
  match h with HExplicit p => p < w_cursor w -> L p | _ => True end.

Lemma write_hinted_L hl h n w L : NInv w hl L -> wf_name n -> hint_contract h n w -> hint_in h w L ->
  name_postL (exactf (w_mode w)) hl n w L (write_hinted_name h n w).
Proof.
  intros Hi Hwf Hh HhL. unfold write_hinted_name.
  pose proof (write_uncompressed_L hl n w L Hi Hwf) as U.
  pose proof (write_compressed_L hl n w L Hi Hwf) as C.
  pose proof (ni_prL _ _ _ Hi) as HL.
  destruct (w_mode w) eqn:Em; simpl in *.
  - destruct (length (nm_wire n) <=? 2) eqn:E2; [apply name_postL_weaken; exact U|].
    apply Nat.leb_gt in E2.
    destruct h; simpl in Hh, HhL.
    + destruct (w_qname w) as [pr|] eqn:Eq; [|exact C]. apply push_prior_ptr_L; auto.
    + destruct (w_mro w) as [pr|] eqn:Eq; [|exact C]. apply push_prior_ptr_L; auto.
    + destruct (w_mrn w) as [pr|] eqn:Eq; [|exact C]. apply push_prior_ptr_L; auto.
    + destruct (p <? w_cursor w) eqn:El; [|exact C]. apply Nat.ltb_lt in El.
      apply push_prior_ptr_L; auto.
    + exact C.
  - destruct (length (nm_wire n) <=? 2); [exact U|exact C].
  - exact U.
Qed.
