(* Whether finish_with_mac in response mode panics, and how many octets it writes, depends on the hmac function only
   through the LENGTH of its output: the MAC is copied as raw RDATA (TYPE TSIG has no name components), no decision of
   the Writer looks at its octets.  So the no-panic / within-the-limit theorems need [hmac_len] only; the typing fact
   [hmac_wf] (octets < 256) is needed only where the finished octets are decoded (C02). *)
From QV Require Import Model.ServerWT.
From QV Require Import Base.ListX Model.MsgWriter Proofs.MsgWriterP.
From QV Require Model.TsigMsg.
Local Open Scope nat_scope.


Lemma buf_write_len_eq b b' pos d d' : length b = length b' -> length d = length d' ->
  match buf_write b pos d, buf_write b' pos d' with
  | Some x, Some x' => length x = length x'
  | None, None => True
  | _, _ => False
  end.
Proof.
  intros Hb Hd. unfold buf_write. rewrite <- Hb, <- Hd. destruct (pos + length d <=? length b) eqn:E; [|exact I].
  apply Nat.leb_le in E. rewrite !app_length, !firstn_length, !skipn_length. lia.
Qed.

(* add_rr of a record without name components: same outcome and cursor for two RDATAs of the same length *)
Lemma add_rr_raw_len h o ty cl ttl rd rd' v w : component_types cl ty = [] -> length rd = length rd' ->
  match add_rr h o ty cl ttl rd v w, add_rr h o ty cl ttl rd' v w with
  | Ok (_, w1), Ok (_, w1') => MsgWriter.w_cursor w1 = MsgWriter.w_cursor w1'
  | Err _, Err _ => True
  | Panic, Panic => True
  | _, _ => False
  end.
Proof.
  intros Hct Hl. unfold add_rr. rewrite Hct.
  destruct (write_hinted_name h o w) as [[pr w1]|[e w1]|]; cbn [bind]; auto.
  destruct (try_push_u16 ty (set_mro w1 pr)) as [[u2 w2]|[e w2]|]; cbn [bind]; auto.
  destruct (try_push_u16 cl w2) as [[u3 w3]|[e w3]|]; cbn [bind]; auto.
  destruct (try_push_u32 ttl w3) as [[u4 w4]|[e w4]|]; cbn [bind]; auto.
  destruct (MsgWriter.w_avail w4 <? MsgWriter.w_cursor w4); auto.
  destruct (MsgWriter.w_avail w4 - MsgWriter.w_cursor w4 <? 2); auto.
  cbn [write_components]. rewrite <- Hl.
  set (w5 := set_cursor w4 (MsgWriter.w_cursor w4 + 2)).
  destruct (length rd =? 0).
  - cbn [bind]. destruct (MsgWriter.w_cursor w5 <? MsgWriter.w_cursor w4 + 2); auto.
    destruct (lift (w_write w5 (MsgWriter.w_cursor w4) _) w5) as [[w7 u]|[e w7]|]; cbn [bind]; auto.
  - unfold try_push. rewrite <- Hl.
    destruct (MsgWriter.w_avail w5 <? MsgWriter.w_cursor w5); cbn [bind]; auto.
    destruct (length rd <=? MsgWriter.w_avail w5 - MsgWriter.w_cursor w5); cbn [bind]; auto.
    unfold w_write.
    pose proof (buf_write_len_eq (w_buf w5) (w_buf w5) (MsgWriter.w_cursor w5) rd rd' eq_refl Hl) as B.
    destruct (buf_write (w_buf w5) (MsgWriter.w_cursor w5) rd) as [b|]; destruct (buf_write (w_buf w5) (MsgWriter.w_cursor w5) rd') as [b'|];
      try contradiction; cbn [bind]; auto.
    cbn [MsgWriter.w_cursor set_cursor set_buf].
    destruct (MsgWriter.w_cursor w5 + length rd <? MsgWriter.w_cursor w4 + 2); auto.
    unfold lift. cbn [w_buf set_cursor set_buf].
    match goal with |- context [buf_write b ?p ?d] =>
      pose proof (buf_write_len_eq b b' p d d B eq_refl) as B2;
      destruct (buf_write b p d) as [c|]; destruct (buf_write b' p d) as [c'|]; try contradiction; cbn [bind]; auto end.
Qed.

Section Shape.
Variable hmac hmac' : TsigMsg.alg -> bytes -> bytes -> bytes.
Hypothesis Hlen : forall a k d, length (hmac a k d) = length (hmac' a k d).

Lemma sign_shape p msg m a k :
  match TsigMsg.sign hmac p msg m a k, TsigMsg.sign hmac' p msg m a k with
  | Ok (rd, _), Ok (rd', _) => length rd = length rd'
  | Err _, Err _ => True
  | Panic, Panic => True
  | _, _ => False
  end.
Proof.
  unfold TsigMsg.sign. destruct (TsigMsg.sign_digest p msg m a) as [d|e|]; cbn [bind]; auto.
  unfold TsigMsg.serialize_rdata, TsigMsg.new_tsig, TsigMsg.required_len. rewrite (Hlen a k d).
  destruct (N.of_nat _ <=? 65535)%N; cbn [TsigMsg.unwrap bind]; auto.
  unfold TsigMsg.serialize_tsig_unchecked. rewrite !app_length. rewrite (Hlen a k d). reflexivity.
Qed.

Lemma finish_signed_shape a sec rmac w :
  match finish_signed hmac a sec rmac w, finish_signed hmac' a sec rmac w with
  | Ok (l, _), Ok (l', _) => l = l'
  | Err _, Err _ => True
  | Panic, Panic => True
  | _, _ => False
  end.
Proof.
  unfold finish_signed. destruct (finish_head w) as [w5|e|]; cbn [bind]; auto.
  destruct (MsgWriter.w_tsig w5) as [t|]; cbn [bind]; auto.
  destruct (length (w_buf w5) <? MsgWriter.w_cursor w5); cbn [bind]; auto.
  match goal with |- context [TsigMsg.sign hmac ?p ?msg ?m a sec] => pose proof (sign_shape p msg m a sec) as S;
    destruct (TsigMsg.sign hmac p msg m a sec) as [[rd mc]|e|]; destruct (TsigMsg.sign hmac' p msg m a sec) as [[rd' mc']|e'|];
    try contradiction; cbn [bind]; auto end.
  match goal with |- context [add_rr HNone ?o ?ty ?cl ?ttl rd None ?w'] =>
    pose proof (add_rr_raw_len HNone o ty cl ttl rd rd' None w' eq_refl S) as R;
    destruct (add_rr HNone o ty cl ttl rd None w') as [[v1 w6]|[e1 w6]|];
    destruct (add_rr HNone o ty cl ttl rd' None w') as [[v1' w6']|[e1' w6']|]; try contradiction; cbn [unwrap_w bind]; auto end.
Qed.

Lemma ser_tsig_shape buf tcp now w t :
  match ser_tsig hmac buf tcp now w t, ser_tsig hmac' buf tcp now w t with
  | Some (l, _), Some (l', _) => l = l'
  | None, None => True
  | _, _ => False
  end.
Proof.
  unfold ser_tsig. destruct (ser_prepare buf tcp w) as [w1|]; auto. destruct (tsig_fields_of now t) as [f|]; auto.
  destruct (t_mode t) as [aw|a sec mac].
  - destruct (MsgWriter.set_tsig _ _ _ _ _ _ _ w1) as [[u w2]|[e w2]|]; auto. destruct (finish w2) as [[l b]|e|]; auto.
  - destruct (set_tsig_signed _ _ _ _ _ _ _ _ w1) as [[u w2]|[e w2]|]; auto.
    pose proof (finish_signed_shape (tsig_alg_of a) sec mac w2) as S.
    destruct (finish_signed hmac (tsig_alg_of a) sec mac w2) as [[l b]|e|];
      destruct (finish_signed hmac' (tsig_alg_of a) sec mac w2) as [[l' b']|e'|]; try contradiction; auto.
Qed.

Definition wresp_shape (r r' : wresp) : Prop :=
  match r, r' with
  | ROctets l _, ROctets l' _ => l = l'
  | RAbs x, RAbs x' => x = x'
  | _, _ => False
  end.

Definition res_shape {E A} (P : A -> A -> Prop) (r r' : res E A) : Prop :=
  match r, r' with
  | Ok x, Ok x' => P x x'
  | Err _, Err _ => True
  | Panic, Panic => True
  | _, _ => False
  end.

Lemma wresp_shape_refl r : wresp_shape r r.
Proof. destruct r; reflexivity. Qed.

Lemma abs_wt_shape cfg buf w : res_shape wresp_shape (abs_wt hmac cfg buf w) (abs_wt hmac' cfg buf w).
Proof.
  unfold abs_wt. destruct (Server.w_tsig w) as [t|].
  - pose proof (ser_tsig_shape buf (is_tcp (c_transport cfg)) (c_now cfg) w t) as S.
    destruct (ser_tsig hmac buf _ _ w t) as [[l b]|]; destruct (ser_tsig hmac' buf _ _ w t) as [[l' b']|]; try contradiction; simpl; auto.
  - destruct (abs_w cfg buf w) as [r|e|]; simpl; auto. apply wresp_shape_refl.
Qed.

Definition opt_shape (o o' : option wresp) : Prop :=
  match o, o' with
  | Some r, Some r' => wresp_shape r r'
  | None, None => True
  | _, _ => False
  end.

Lemma some_shape (x x' : res reader_err wresp) : res_shape wresp_shape x x' ->
  res_shape opt_shape (let* r := x in Ok (Some r)) (let* r := x' in Ok (Some r)).
Proof. destruct x as [r|e|]; destruct x' as [r'|e'|]; simpl; auto. Qed.

Lemma handle_message_wt_shape zones negttl answer verify cfg buf req :
  res_shape opt_shape (handle_message_wt hmac zones negttl answer verify cfg buf req)
                      (handle_message_wt hmac' zones negttl answer verify cfg buf req).
Proof.
  unfold handle_message_wt. destruct (prescan verify cfg req) as [p|e|]; cbn [bind]; simpl; auto.
  destruct p as [|w|opc w]; [exact I|apply some_shape, abs_wt_shape|].
  destruct (opc =? OPCODE_QUERY)%N; [|apply some_shape, abs_wt_shape].
  apply some_shape. unfold handle_query_wt. destruct (Server.w_tsig w) as [t0|].
  - unfold handle_query_t. destruct (Server.w_question w) as [q|]; [|apply abs_wt_shape].
    destruct (existsb _ _); [apply abs_wt_shape|]. destruct (Reader.q_class q =? QCLASS_ANY)%N; [apply abs_wt_shape|].
    destruct (cat_lookup _ _ _ _) as [e|]; [|apply abs_wt_shape].
    destruct (e_kind e); [simpl; reflexivity|apply abs_wt_shape|apply abs_wt_shape].
  - destruct (handle_query_w zones negttl answer cfg buf w) as [r|e|]; simpl; auto. apply wresp_shape_refl.
Qed.

End Shape.
