(* The schedule DESIGN.md predicted, on the worker loop as it was ([fx = false]):
   0 permanent workers, linger on.  A worker lingers and is counted available; its
   timer fires; before it re-acquires the mutex a submitter sees available 1 > queue 0,
   enqueues and notifies nobody; the worker wakes with timed_out(), decrements and
   leaves without looking at the queue; shutdown; await_shutdown returns; the task was
   accepted and never run.  Threads: 0 submitter (two submit_or_spawn calls),
   1 ThreadGroup::shut_down caller, 2 await_shutdown caller, 3 the auxiliary worker. *)
From Coq Require Import Lia Permutation.
From QV Require Import Model.Pool Spec.PoolS.

Definition w_init : state := init_state true [SIdle [OSpawn; OSpawn]; GIdle; AwIdle].

Definition w_prefix : list label :=
  [ LSos 0 SNeed None;            (* no worker available: spawn an auxiliary worker *)
    LSpawn 0 POk;                 (* task 0 accepted, thread 3 runs it *)
    LTaskDone 3 false;
    LWork 3 false WWaitO None;    (* lingers: available_workers = 1, wait_timeout *)
    LTimer 3;                     (* the linger timer fires; 3 has to re-acquire the mutex *)
    LSos 0 SPush None ].          (* available 1 > queue 0: task 1 accepted, notify_one wakes nobody *)

Definition w_old_suffix : list label :=
  [ LWork 3 false WExitTo None;   (* old loop: timed_out() => available -= 1; return *)
    LDrop 3 DEnd;
    LSdG 1; LSdP 1;
    LAwait 2 ARet ].

Lemma w_initial : initial w_init.
Proof. exists true, [SIdle [OSpawn; OSpawn]; GIdle; AwIdle]. split; reflexivity. Qed.

(* old loop: await_shutdown has returned, task 1 is still queued and never started *)
Lemma old_loop_strands_task :
  exists s, run false w_init (w_prefix ++ w_old_suffix) = Some s /\
            await_returned s /\ next s = 2 /\ queue s = [1] /\ started s = [0] /\ done s = [0] /\
            tcount s = 0 /\ ~ await_ok s.
Proof.
  eexists. split; [vm_compute; reflexivity|].
  assert (A : await_returned
    (mkState 0 true false false [1] 0 true [SIdle []; GDone; AwRet; WExited] 2 [0] [0] true false))
    by (exists 2; reflexivity).
  repeat split; try reflexivity; try exact A.
  intros H. destruct (H A) as (_ & Hq & _). discriminate.
Qed.

(* repaired loop: after the same prefix the exit is not a behaviour; the worker takes task 1 *)
Lemma fixed_loop_takes_task :
  exists s, run true w_init w_prefix = Some s /\
            step true s (LWork 3 false WExitTo None) = None /\
            exists s', step true s (LWork 3 false WTake None) = Some s' /\
                       nth_error (thr s') 3 = Some (WRun Aux 1) /\ queue s' = [].
Proof.
  eexists. split; [vm_compute; reflexivity|]. split; [vm_compute; reflexivity|].
  eexists. split; [vm_compute; reflexivity|]. split; reflexivity.
Qed.

(* repaired loop, a complete run: both tasks run, shutdown, the worker is woken by the
   shutdown's notify_all, exits, await_shutdown returns *)
Definition w_fixed_suffix : list label :=
  [ LWork 3 false WTake None; LTaskDone 3 false; LWork 3 false WWaitO None;
    LSdG 1; LSdP 1; LWork 3 false WExitSd None; LDrop 3 DEnd; LAwait 2 ARet ].

Lemma fixed_loop_full_run :
  exists s, run true w_init (w_prefix ++ w_fixed_suffix) = Some s /\
            reachable true s /\ await_returned s /\ next s = 2 /\ done s = [1; 0] /\
            psd s = true /\ gsd s = true.
Proof.
  eexists. split; [vm_compute; reflexivity|].
  split; [exists w_init, (w_prefix ++ w_fixed_suffix); split; [exact w_initial | vm_compute; reflexivity]|].
  split; [exists 2; reflexivity|]. repeat split; reflexivity.
Qed.
