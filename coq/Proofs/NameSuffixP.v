(* C16 — NameBuilder::finish_with_suffix against the list-level specification:
   NullNonTerminal when the current label is empty, otherwise NameTooLong iff the concatenated name
   exceeds 255 octets, otherwise exactly the representation of (finished labels ++ current label ++
   suffix labels); never a panic (the label-offset `u8` additions and the ArrayVec pushes cannot
   fail once the octets fitted). *)
From QV Require Import Base.ListX Model.NameWire Model.DecU16 Model.NameText Spec.NameWireS Spec.NameRepr Spec.NameTextS
  Proofs.NameWireP Proofs.NameLabelsP Proofs.NameTextP Proofs.NameMoreP.

Local Ltac norm := unfold label, bytes in *.

(* the first loop: every label's length octet and octets, while they fit *)
Lemma push_suffix_labels_spec (ls : list (list N)) : forall w,
  length w <= 255 -> Forall (fun l : list N => length l <= 63) ls ->
  push_suffix_labels w ls =
  if length w + length (lwire ls) <=? 255 then Ok (w ++ lwire ls) else Err NameTooLong.
Proof.
  induction ls as [|l r IH]; intros w Hw Hf.
  - cbn [push_suffix_labels]. change (lwire []) with (@nil N). cbn [length]. rewrite Nat.add_0_r, app_nil_r.
    assert (E : (length w <=? 255) = true) by (apply Nat.leb_le; exact Hw). rewrite E. reflexivity.
  - inversion Hf as [|? ? Hl Hr]; subst. cbn [push_suffix_labels]. change max_wire_len with 255.
    rewrite lwire_length_cons. destruct (length w <? 255) eqn:E1.
    + apply Nat.ltb_lt in E1. unfold try_extend. change max_wire_len with 255. rewrite app_length. cbn [length].
      destruct (255 <? length w + 1 + length l) eqn:E2.
      * apply Nat.ltb_lt in E2. assert (E : (length w + (1 + length l + length (lwire r)) <=? 255) = false)
          by (apply Nat.leb_gt; lia). rewrite E. reflexivity.
      * apply Nat.ltb_ge in E2. rewrite IH; [|rewrite !app_length; cbn [length]; lia|exact Hr].
        rewrite !app_length. cbn [length].
        replace (length w + 1 + length l + length (lwire r)) with (length w + (1 + length l + length (lwire r))) by lia.
        destruct (length w + (1 + length l + length (lwire r)) <=? 255); [|reflexivity].
        rewrite N.mod_small by lia. rewrite lwire_cons, <- !app_assoc. reflexivity.
    + apply Nat.ltb_ge in E1. assert (E : (length w + (1 + length l + length (lwire r)) <=? 255) = false)
        by (apply Nat.leb_gt; lia). rewrite E. reflexivity.
Qed.

(* the second loop: the suffix' label offsets shifted by the length of what precedes them *)
Lemma push_suffix_offsets_spec (y : list (list N)) : forall B base offs,
  B + base + length (lwire y) <= 256 -> length offs + length y <= 128 ->
  push_suffix_offsets offs (N.of_nat B) (offs_all base y) = Some (offs ++ offs_all (B + base) y).
Proof.
  induction y as [|l r IH]; intros B base offs H Hn.
  - cbn. rewrite app_nil_r. reflexivity.
  - rewrite lwire_length_cons in H. cbn [length] in Hn. cbn [offs_all push_suffix_offsets].
    rewrite N.mod_small by lia. unfold u8_add.
    assert (E : (255 <? N.of_nat base + N.of_nat B)%N = false) by (apply N.ltb_ge; lia). rewrite E.
    change max_n_labels with 128.
    assert (E2 : (128 <=? length offs) = false) by (apply Nat.leb_gt; lia). rewrite E2.
    rewrite IH; [|lia|rewrite app_length; cbn [length]; lia].
    rewrite <- app_assoc. cbn [app]. rewrite N.mod_small by lia.
    replace (B + (base + 1 + length l)) with (B + base + 1 + length l) by lia.
    do 3 f_equal. lia.
Qed.

Lemma set_nth_app {A} (a : list A) x y r : set_nth (a ++ x :: r) (length a) y = Some (a ++ y :: r).
Proof.
  unfold set_nth. rewrite app_length. cbn [length].
  assert (E : (length a <? length a + S (length r)) = true) by (apply Nat.ltb_lt; lia). rewrite E.
  rewrite firstn_app, firstn_all, Nat.sub_diag. cbn [firstn]. rewrite app_nil_r.
  replace (S (length a)) with (length a + 1) by lia. rewrite skipn_app.
  rewrite skipn_all2 by lia. replace (length a + 1 - length a) with 1 by lia. reflexivity.
Qed.

Theorem finish_with_suffix_spec b (ds : list (list N)) (cur : list N) (suf : list (list N)) :
  brepr b (ds, cur) -> ast_ok (ds, cur) ->
  Forall (fun l : list N => 1 <= length l <= 63) suf -> wire_len suf <= 255 ->
  finish_with_suffix b (name_of suf) =
    if is_nil cur then Err NullNonTerminal
    else if wire_len (ds ++ cur :: suf) <=? 255 then Ok (name_of (ds ++ cur :: suf))
    else Err NameTooLong.
Proof.
  intros Hb (Hds & Hcur & Hw) Hsuf Hlen. pose proof (brepr_wire_len b _ Hb) as Hbl.
  destruct Hb as (Ewire & Eoffs & Estart & Elen). cbn [fst snd] in *. unfold awire in Hw, Hbl. cbn [fst snd] in Hw, Hbl.
  unfold finish_with_suffix, is_fully_qualified. rewrite Elen.
  destruct cur as [|c cur']; [reflexivity|]. change (is_nil (c :: cur')) with false. cbv iota. set (cur := c :: cur') in *.
  assert (E0 : (N.of_nat (length cur) =? 0)%N = false) by (apply N.eqb_neq; subst cur; cbn [length]; lia).
  rewrite E0. cbn [is_nil].
  (* the pending label's length octet is written *)
  unfold update_label_len. rewrite Ewire, Estart, Elen, set_nth_app.
  assert (Ew : lwire ds ++ N.of_nat (length cur) :: cur = lwire (ds ++ [cur])) by (rewrite lwire_snoc; reflexivity).
  rewrite Ew.
  rewrite (labels_name_of suf Hlen). cbn [bind].
  assert (Hlw : length (lwire (ds ++ [cur])) = length (lwire ds) + 1 + length cur).
  { rewrite <- Ew, app_length. cbn [length]. lia. }
  rewrite push_suffix_labels_spec.
  2:{ lia. }
  2:{ unfold all_labels. apply Forall_app. split.
      - eapply Forall_impl; [|exact Hsuf]. cbn. intros l Hl. lia.
      - constructor; [cbn; lia|constructor]. }
  assert (Hall : (ds ++ [cur]) ++ all_labels suf = all_labels (ds ++ cur :: suf)).
  { unfold all_labels. rewrite <- !app_assoc. reflexivity. }
  assert (Hwire : lwire (ds ++ [cur]) ++ lwire (all_labels suf) = wire_of (ds ++ cur :: suf)).
  { rewrite <- lwire_app. transitivity (lwire (all_labels (ds ++ cur :: suf))); [f_equal; exact Hall|symmetry; apply wire_of_all]. }
  assert (Hwl : length (lwire (ds ++ [cur])) + length (lwire (all_labels suf)) = wire_len (ds ++ cur :: suf)).
  { unfold wire_len. rewrite <- Hwire, app_length. reflexivity. }
  rewrite Hwl. destruct (wire_len (ds ++ cur :: suf) <=? 255) eqn:Efit; [|reflexivity].
  apply Nat.leb_le in Efit. cbn [bind].
  (* the offsets *)
  assert (Hoffs : b_offsets b = offs_all 0 (ds ++ [cur])).
  { rewrite Eoffs, offs_all_app. cbn. reflexivity. }
  unfold name_of at 1. cbn [n_offsets]. rewrite offs_of_all, Hoffs.
  rewrite N.mod_small by lia.
  assert (Hcnt : 2 * length suf <= length (lwire suf)) by (apply lwire_labels_len; exact Hsuf).
  assert (Hcnt2 : 2 * length ds <= length (lwire ds)) by (apply lwire_labels_len; exact Hds).
  assert (Hsl : length (lwire (all_labels suf)) = length (lwire suf) + 1).
  { unfold all_labels. rewrite lwire_app, app_length. reflexivity. }
  rewrite (push_suffix_offsets_spec (all_labels suf) (length (lwire (ds ++ [cur]))) 0).
  2:{ lia. }
  2:{ rewrite offs_all_length. unfold all_labels. rewrite !app_length. cbn [length]. subst cur. cbn [length] in *. norm. lia. }
  rewrite Nat.add_0_r.
  f_equal. unfold name_of. rewrite Hwire. f_equal.
  rewrite offs_of_all, <- Hall. symmetry. apply (offs_all_app (ds ++ [cur]) 0 (all_labels suf)).
Qed.
