(* The write -> read direction at the RDATA level: a valid RDATA placed UNCOMPRESSED
   anywhere in a message reads back unchanged. *)
From QV Require Import Base.ListX Spec.NameWireS Spec.NameRepr Proofs.NameWireP Proofs.NameWireSP
  Model.RdataM Spec.RdataFormatS Proofs.RdNameP Proofs.RdataFormatSP Proofs.RdataVP Proofs.RdataRP.
Local Open Scope nat_scope.

Definition simple_field (f : field) : bool :=
  match f with FName | FBytes _ => true | _ => false end.
Definition simple (g : list field) : bool := forallb simple_field g.

Lemma matches_cmatches : forall g r, matches g r -> simple g = true ->
  forall pre post,
  cmatches (pre ++ r ++ post) (length pre + length r) (length pre) g r.
Proof.
  induction 1 as [|ls g rest Hv M IH|n b g rest Hb M IH|s g rest Hs M IH|b g rest Hb M IH|b|ss Hne Hv|os Hv];
    intros Hsimple pre post; try discriminate.
  - rewrite Nat.add_0_r. constructor.
  - cbn [simple forallb simple_field andb] in Hsimple.
    assert (E : firstn (length pre + length (wire_of ls ++ rest)) (pre ++ (wire_of ls ++ rest) ++ post)
                = pre ++ wire_of ls ++ rest).
    { rewrite app_assoc. apply firstn_app_exact. rewrite !app_length. reflexivity. }
    apply (cm_name _ _ (length pre) ls (wire_len ls)).
    + rewrite E. exists (length pre + wire_len ls). split; [apply decodes_of_wire; apply Hv|].
      split; [lia|apply Hv].
    + specialize (IH Hsimple (pre ++ wire_of ls) post).
      rewrite <- !app_assoc in IH. rewrite <- !app_assoc.
      rewrite !app_length in *. unfold wire_len.
      replace (length pre + (length (wire_of ls) + length rest))
        with (length pre + length (wire_of ls) + length rest) by lia. exact IH.
  - cbn [simple forallb simple_field andb] in Hsimple.
    replace (b ++ rest) with (slice (pre ++ (b ++ rest) ++ post) (length pre) (length pre + n) ++ rest) at 3.
    2: { f_equal. rewrite <- app_assoc. apply slice_app_mid; lia. }
    apply cm_bytes; [rewrite app_length; lia|].
    specialize (IH Hsimple (pre ++ b) post).
    rewrite <- !app_assoc in IH. rewrite <- !app_assoc.
    rewrite !app_length in *. subst n.
    replace (length pre + (length b + length rest)) with (length pre + length b + length rest) by lia.
    exact IH.
Qed.

Theorem decompressed_simple c t : decompressed c t = decompressed c t && simple (grammar c t).
Proof.
  unfold decompressed, simple, grammar, one_of. cbn [existsb]. case_types c t.
Qed.

Theorem read_uncompressed c t pre r post :
  wf_bytes (pre ++ r ++ post) -> (N.of_nat (length r) < 65536)%N ->
  matches (grammar c t) r ->
  read c t (pre ++ r ++ post) (length pre) (N.of_nat (length r)) = Ok r.
Proof.
  intros Hwf Hlen M. apply (read_iff _ _ _ _ _ _ Hwf Hlen).
  unfold read_spec. cbv zeta. rewrite Nat2N.id. split.
  - rewrite !app_length. lia.
  - destruct (decompressed c t) eqn:D.
    + apply matches_cmatches; [exact M|].
      rewrite decompressed_simple in D. apply andb_true_iff in D. apply D.
    + split; [|exact M]. symmetry. apply slice_app_mid; reflexivity.
Qed.
