(* The invariant of whole writer states (numeric invariant + anchor invariant + ghost names of the
   anchors and hint-vector slots) and its preservation by EVERY operation of the op language under
   the hint contract: no operation panics, finish does not panic. *)
From QV Require Import Base.ListX Model.MsgWriter Spec.NameRepr Proofs.NameWireP Proofs.MsgWriterP
     Proofs.MsgWriterScanP Proofs.MsgWriterNameP Proofs.MsgWriterInvP Proofs.MsgWriterClosP
     Proofs.MsgWriterScanSP Proofs.MsgWriterNameSP Proofs.MsgWriterLayP Proofs.MsgWriterOpP.
From QV Require Import Spec.MsgWriterAbsS.

Local Open Scope nat_scope.

(* ghost: the names the three anchors and every hint-vector slot stand for (None = stale / none) *)
Record gn := mkGn { g_q : option wname; g_o : option wname; g_r : option wname;
                    g_regs : list (list (option wname)) }.

Definition Lq (L : nat -> Prop) (rs : nat) : nat -> Prop := fun s => L s /\ s < rs.

Definition regs_ok (b : bytes) (c : nat) (L : nat -> Prop) (regs : list hvec)
           (gregs : list (list (option wname))) : Prop :=
  length regs = length gregs /\
  forall r v names i p m, nth_error regs r = Some v -> nth_error gregs r = Some names ->
    nth_error v i = Some (Some p) -> nth_error names i = Some (Some m) -> stands b c L m p.

Definition tsig_wf (t : tsigr) : Prop :=
  wf_name (t_key t) /\ wf_name (t_alg t) /\ length (t_time t) = 6 /\ length (t_server_time t) = 6 /\
  t_reserved t = tsig_unsigned_len (t_key t) (t_alg t) (t_error t) /\
  Forall wf_bytes (t_alg t) /\ wf_bytes (t_time t) /\ wf_bytes (t_server_time t) /\
  length (nm_wire (t_key t)) <= 255 /\ length (nm_wire (t_alg t)) <= 255.

Record AInv (d : dstate) (g : gn) (L : nat -> Prop) : Prop := mkAInv {
  a_n : Inv_n (d_w d);
  a_ni : NInv (d_w d) (length (w_buf (d_w d))) L;
  a_an : anch3 (d_w d) L (g_q g) (g_o g) (g_r g);
  a_qc : closed (w_buf (d_w d)) header_size (w_rr_start (d_w d)) (length (w_buf (d_w d)))
                (Lq L (w_rr_start (d_w d)));
  a_qd : decodable (w_buf (d_w d)) (w_rr_start (d_w d)) (Lq L (w_rr_start (d_w d)));
  a_qa : anch (w_buf (d_w d)) (w_rr_start (d_w d)) (Lq L (w_rr_start (d_w d))) (w_qname (d_w d)) (g_q g);
  a_regs : regs_ok (w_buf (d_w d)) (w_cursor (d_w d)) L (d_regs d) (g_regs g);
  a_ts : forall t, w_tsig (d_w d) = Some t -> tsig_wf t }.

Lemma inv_nb w : Inv_n w -> nb w.
Proof. intros []. unfold nb. split; lia. Qed.

Lemma regs_ok_transfer b lo c h L b' c0 regs gregs : closed b lo c h L -> ragree lo c h b b' ->
  regs_ok b c0 L regs gregs -> regs_ok b' c0 L regs gregs.
Proof.
  intros Hc R [Hl H]. split; auto. intros r v names i p m E1 E2 E3 E4.
  eapply stands_transfer; eauto.
Qed.

Lemma regs_ok_mono b c (L : nat -> Prop) b' c' (L' : nat -> Prop) regs gregs : regs_ok b c L regs gregs ->
  agree c b b' -> c <= c' -> (forall s, L s -> L' s) -> regs_ok b' c' L' regs gregs.
Proof.
  intros [Hl H] Ha Hc HLL. split; auto. intros r v names i p m E1 E2 E3 E4.
  eapply stands_mono; eauto.
Qed.

Lemma nth_error_snoc {A} (l : list A) x r y : nth_error (l ++ [x]) r = Some y ->
  (r < length l /\ nth_error l r = Some y) \/ (r = length l /\ y = x).
Proof.
  intros H. destruct (Nat.lt_ge_cases r (length l)) as [Hr|Hr].
  - left. rewrite nth_error_app1 in H by lia. auto.
  - right. rewrite nth_error_app2 in H by lia.
    destruct (r - length l) as [|k] eqn:E; simpl in H.
    + inversion H. split; auto. lia.
    + destruct k; discriminate.
Qed.

Lemma regs_ok_snoc b c L regs gregs v names : regs_ok b c L regs gregs ->
  (forall i p m, nth_error v i = Some (Some p) -> nth_error names i = Some (Some m) -> stands b c L m p) ->
  regs_ok b c L (regs ++ [v]) (gregs ++ [names]).
Proof.
  intros [Hl H] Hv. split; [rewrite !app_length; simpl; lia|].
  intros r v0 names0 i p m E1 E2 E3 E4.
  apply nth_error_snoc in E1. apply nth_error_snoc in E2.
  destruct E1 as [[R1 E1]|[R1 ->]]; destruct E2 as [[R2 E2]|[R2 ->]]; try lia; eauto.
Qed.

(* the state after a change that leaves the readable region, the cursor and the anchors alone *)
Lemma AInv_move d g L w' : AInv d g L -> Inv_n w' ->
  ragree header_size (w_cursor (d_w d)) (length (w_buf (d_w d))) (w_buf (d_w d)) (w_buf w') ->
  w_cursor w' = w_cursor (d_w d) -> w_rr_start w' = w_rr_start (d_w d) ->
  w_qname w' = w_qname (d_w d) -> w_mro w' = w_mro (d_w d) -> w_mrn w' = w_mrn (d_w d) ->
  (forall t, w_tsig w' = Some t -> tsig_wf t) ->
  AInv (mkD w' (d_regs d)) g L.
Proof.
  destruct d as [w regs]. simpl. intros [Hn Hi Ha Hqc Hqd Hqa Hr Ht] Hn' R Ec Ers Eq Eo Er Ht'. simpl in *.
  pose proof (inv_nb _ Hn') as [N1 N2].
  destruct Hi as [_ Hlo _ Hcl Hd [Pq [Po Pr]] HL Hsd].
  assert (Hrs : w_rr_start w <= w_cursor w) by apply Hn.
  assert (Rq : ragree header_size (w_rr_start w) (length (w_buf w)) (w_buf w) (w_buf w'))
    by (eapply ragree_le; eauto).
  constructor; simpl; auto.
  - constructor.
    + split; auto.
    + lia.
    + left. lia.
    + rewrite Ec. eapply closed_rehole; [eapply closed_transfer; eauto|lia].
    + rewrite Ec. eapply (decodable_transfer _ _ _ _ L); eauto.
    + unfold priors_ok. rewrite Ec, Eq, Eo, Er. repeat split.
      * destruct (w_qname w) as [pr|] eqn:E; simpl; auto. eapply (prior_ok_transfer _ _ _ _ L); [exact Hcl|exact R|apply HL; auto|auto].
      * destruct (w_mro w) as [pr|] eqn:E; simpl; auto. eapply (prior_ok_transfer _ _ _ _ L); [exact Hcl|exact R|apply HL; auto|auto].
      * destruct (w_mrn w) as [pr|] eqn:E; simpl; auto. eapply (prior_ok_transfer _ _ _ _ L); [exact Hcl|exact R|apply HL; auto|auto].
    + rewrite Eq, Eo, Er. exact HL.
    + rewrite Ec. eapply (sdec_transfer _ _ _ _ L); eauto. lia.
  - destruct Ha as [A1 [A2 A3]]. unfold anch3. rewrite Ec, Eq, Eo, Er.
    repeat split; eapply (anch_transfer _ _ _ _ L); eauto.
  - rewrite Ers. eapply closed_rehole; [eapply closed_transfer; eauto|]. rewrite <- Ers. destruct Hn'. lia.
  - rewrite Ers. eapply decodable_transfer; eauto.
  - rewrite Ers, Eq. eapply anch_transfer; eauto.
  - rewrite Ec. eapply (regs_ok_transfer _ _ _ _ L); eauto.
Qed.

(* appending an empty (unusable) vector *)
Lemma AInv_regs_nil d g L : AInv d g L ->
  AInv (mkD (d_w d) (d_regs d ++ [[]])) (mkGn (g_q g) (g_o g) (g_r g) (g_regs g ++ [[]])) L.
Proof.
  intros [Hn Hi Ha Hqc Hqd Hqa Hr Ht]. constructor; simpl; auto.
  apply regs_ok_snoc; auto. intros i p m E. destruct i; discriminate.
Qed.

Lemma AInv_ghost_eq d g g' L : AInv d g L -> g_q g' = g_q g -> g_o g' = g_o g -> g_r g' = g_r g ->
  g_regs g' = g_regs g -> AInv d g' L.
Proof. intros [] E1 E2 E3 E4. constructor; rewrite ?E1, ?E2, ?E3, ?E4; auto. Qed.

Lemma obs_ragree w w' lo h : obs_eq w w' -> ragree lo (w_cursor w) h (w_buf w) (w_buf w').
Proof. intros X. apply agree_ragree. apply X. Qed.

Lemma AInv_obs d g L w' : AInv d g L -> obs_eq (d_w d) w' -> AInv (mkD w' (d_regs d)) g L.
Proof.
  intros Hi X. pose proof (obs_eq_inv _ _ (a_n _ _ _ Hi) X) as Hn'.
  apply AInv_move; auto; try apply X.
  - apply obs_ragree; auto.
  - intros t E. apply (a_ts _ _ _ Hi). rewrite <- (o_tsig _ _ X). exact E.
Qed.

(* ---------------------------------------------------------------- header writes *)

Lemma hdr_write_ok d g L pos data : AInv d g L -> pos + length data <= header_size ->
  exists w', w_write (d_w d) pos data = Ok w' /\ AInv (mkD w' (d_regs d)) g L /\
             w_edns w' = w_edns (d_w d) /\ w_tsig w' = w_tsig (d_w d) /\ w_cursor w' = w_cursor (d_w d) /\
             forall c h, ragree header_size c h (w_buf (d_w d)) (w_buf w').
Proof.
  intros Hi Hp. pose proof (a_n _ _ _ Hi) as Hn.
  destruct (buf_write_some (w_buf (d_w d)) pos data) as [b' Hb]; [destruct Hn; lia|].
  unfold w_write. rewrite Hb. eexists. split; [reflexivity|].
  split; [|split; [reflexivity|split; [reflexivity|split; [reflexivity|]]]].
  2:{ intros c h. simpl. eapply buf_write_ragree; eauto. }
  apply AInv_move; auto.
  - apply inv_set_buf; auto. eapply buf_write_length; eauto.
  - simpl. eapply buf_write_ragree; eauto.
  - simpl. apply (a_ts _ _ _ Hi).
Qed.

Lemma hdr_modify_ok d g L i f : AInv d g L -> N.to_nat i < header_size ->
  exists w', w_modify (d_w d) i f = Ok w' /\ AInv (mkD w' (d_regs d)) g L /\
             w_edns w' = w_edns (d_w d) /\ w_tsig w' = w_tsig (d_w d) /\ w_cursor w' = w_cursor (d_w d) /\
             forall c h, ragree header_size c h (w_buf (d_w d)) (w_buf w').
Proof.
  intros Hi Hp. pose proof (a_n _ _ _ Hi) as Hn. unfold w_modify.
  destruct (nth_error (w_buf (d_w d)) (N.to_nat i)) as [x|] eqn:E.
  - apply hdr_write_ok; auto. simpl. lia.
  - apply nth_error_None in E. destruct Hn. lia.
Qed.

(* fields outside buffer/cursor/anchors *)
Lemma AInv_fields d g L w' : AInv d g L -> Inv_n w' -> w_buf w' = w_buf (d_w d) ->
  w_cursor w' = w_cursor (d_w d) -> w_rr_start w' = w_rr_start (d_w d) ->
  w_qname w' = w_qname (d_w d) -> w_mro w' = w_mro (d_w d) -> w_mrn w' = w_mrn (d_w d) ->
  (forall t, w_tsig w' = Some t -> tsig_wf t) -> AInv (mkD w' (d_regs d)) g L.
Proof.
  intros Hi Hn Eb. intros. apply AInv_move; auto. rewrite Eb. apply ragree_refl.
Qed.

(* ---------------------------------------------------------------- the contract and the ghost step *)

Definition hs_contract (regs : list hvec) (g : gn) (h : hintsrc) (n : wname) : Prop :=
  match h with
  | HsQname => forall m, g_q g = Some m -> name_eq false n m
  | HsOwner => forall m, g_o g = Some m -> name_eq false n m
  | HsRdata => forall m, g_r g = Some m -> name_eq false n m
  | HsReg r i => forall v p, nth_error regs r = Some v -> nth_error v i = Some (Some p) ->
                 exists names m, nth_error (g_regs g) r = Some names /\
                                 nth_error names i = Some (Some m) /\ name_eq false n m
  | HsNone => True
  end.

(* hints are only looked at in standard compression mode *)
Definition op_contract (d : dstate) (g : gn) (o : wop) : Prop :=
  match o with
  | OAddRr _ h n _ _ _ _ _ => w_mode (d_w d) = Standard -> hs_contract (d_regs d) g h n
  | OAddRrset _ h n _ _ _ _ _ => w_mode (d_w d) = Standard -> hs_contract (d_regs d) g h n
  | _ => True
  end.

Lemma hinted_nonstd h n w : w_mode w <> Standard -> write_hinted_name h n w = write_hinted_name HNone n w.
Proof. intros Hm. unfold write_hinted_name. destruct (w_mode w); congruence. Qed.

Lemma add_rr_nonstd h owner ty cl ttl rd v w : w_mode w <> Standard ->
  add_rr h owner ty cl ttl rd v w = add_rr HNone owner ty cl ttl rd v w.
Proof. intros Hm. unfold add_rr. rewrite (hinted_nonstd h owner w Hm). reflexivity. Qed.

Lemma rrset_loop_nonstd h owner ty cl ttl rds v k w : w_mode w <> Standard ->
  add_rrset_loop h owner ty cl ttl rds v k w = add_rrset_loop HNone owner ty cl ttl rds v k w.
Proof. intros Hm. destruct rds as [|rd rest]; [reflexivity|]. simpl. rewrite (add_rr_nonstd h _ _ _ _ _ _ _ Hm). reflexivity. Qed.

Lemma change_section_mode s w u w1 : change_section s w = Ok (u, w1) -> w_mode w1 = w_mode w.
Proof. unfold change_section. destruct s; destruct (w_section w); intros H; inversion H; subst; reflexivity. Qed.

Lemma step_rr_nonstd d s h n ty cl ttl rd vec : w_mode (d_w d) <> Standard ->
  step d (OAddRr s h n ty cl ttl rd vec) = step d (OAddRr s HsNone n ty cl ttl rd vec).
Proof.
  intros Hm. cbn [step]. f_equal. unfold add_section_rr, with_rollback.
  destruct (change_section s (d_w d)) as [[[] w1]|[e w1]|] eqn:E; cbn [bind]; auto.
  rewrite (add_rr_nonstd (resolve_hint (d_regs d) h)); [reflexivity|].
  rewrite (change_section_mode _ _ _ _ E). exact Hm.
Qed.

Lemma step_rrset_nonstd d s h n ty cl ttl rds vec : w_mode (d_w d) <> Standard ->
  step d (OAddRrset s h n ty cl ttl rds vec) = step d (OAddRrset s HsNone n ty cl ttl rds vec).
Proof.
  intros Hm. cbn [step]. f_equal. unfold add_section_rrset, with_rollback.
  destruct (change_section s (d_w d)) as [[[] w1]|[e w1]|] eqn:E; cbn [bind]; auto.
  rewrite (rrset_loop_nonstd (resolve_hint (d_regs d) h)); [reflexivity|].
  rewrite (change_section_mode _ _ _ _ E). exact Hm.
Qed.

Definition op_wf (o : wop) : Prop :=
  match o with
  | OAddQuestion n _ _ => wf_name n
  | OAddRr _ _ n _ _ _ rd _ => wf_name n /\ wf_bytes rd
  | OAddRrset _ _ n _ _ _ rds _ => wf_name n /\ Forall wf_bytes rds
  | OSetTsig alg key time _ _ _ stime =>
    wf_name alg /\ wf_name key /\ length time = 6 /\ length stime = 6 /\
    Forall wf_bytes alg /\ wf_bytes time /\ wf_bytes stime /\
    length (nm_wire key) <= 255 /\ length (nm_wire alg) <= 255
  | OSetEdns udp => (udp < 65536)%N
  | OUpdateTime t => length t = 6 /\ wf_bytes t
  | _ => True
  end.

Definition gstep (d : dstate) (g : gn) (o : wop) (r : outcome) : gn :=
  match o, r with
  | OAddQuestion n _ _, RUnit =>
    if (w_qd (d_w d) =? 0)%N then mkGn (Some n) (g_o g) (g_r g) (g_regs g) else g
  | OAddRr _ _ n ty cl _ rd vec, RUnit =>
    let names := rd_names (component_types cl ty) rd in
    mkGn (g_q g) (Some n) (lastn names (g_r g)) (g_regs g ++ if vec then [map Some names] else [])
  | OAddRrset _ _ n ty cl _ rds vec, RUnit =>
    let names := rds_names (component_types cl ty) rds in
    mkGn (g_q g) (match rds with [] => g_o g | _ => Some n end) (lastn names (g_r g))
         (g_regs g ++ if vec then [map Some names] else [])
  | OAddRr _ _ _ _ _ _ _ vec, RErr _ | OAddRrset _ _ _ _ _ _ _ vec, RErr _ =>
    mkGn (g_q g) (g_o g) (g_r g) (g_regs g ++ if vec then [[]] else [])
  | OClearRrs, _ => mkGn (g_q g) None None (map (map (fun _ => None)) (g_regs g))
  | _, _ => g
  end.

Lemma contract_ok d g L h n : AInv d g L -> hs_contract (d_regs d) g h n -> wf_name n ->
  hint_contract (resolve_hint (d_regs d) h) n (d_w d) /\ hint_in (resolve_hint (d_regs d) h) (d_w d) L.
Proof.
  intros Hi Hc Hwf. pose proof (a_ni _ _ _ Hi) as Hni. destruct (a_an _ _ _ Hi) as [A1 [A2 A3]].
  destruct h as [| | |r i|]; simpl in *.
  - split; auto. intros pr E. destruct (A1 pr E) as [m [Em [St Hl]]]. eapply stands_hinted; eauto.
  - split; auto. intros pr E. destruct (A2 pr E) as [m [Em [St Hl]]]. eapply stands_hinted; eauto.
  - split; auto. intros pr E. destruct (A3 pr E) as [m [Em [St Hl]]]. eapply stands_hinted; eauto.
  - destruct (nth_error (d_regs d) r) as [v|] eqn:Er; simpl; auto.
    destruct (nth_error v i) as [[p|]|] eqn:Ei; simpl; auto.
    destruct (Hc v p eq_refl Ei) as [names [m [En [Em Hnm]]]].
    destruct (a_regs _ _ _ Hi) as [_ Hr].
    pose proof (Hr r v names i p m Er En Ei Em) as St.
    split; [|intros _; apply St].
    intros _. eapply stands_hinted; eauto.
    unfold prior_new. cbn [p_len]. rewrite (nm_len_small n Hwf). unfold nm_len. rewrite (name_eq_length _ _ _ Hnm). reflexivity.
  - auto.
Qed.

(* ---------------------------------------------------------------- successful record operations *)

Lemma Lq_grew w w' (L L' : nat -> Prop) rs : grew w w' L L' -> rs <= w_cursor w ->
  forall s, Lq L rs s <-> Lq L' rs s.
Proof.
  intros [G1 G2] Hrs s. unfold Lq. split; intros [A B]; split; auto.
  destruct (G2 s A); auto. lia.
Qed.

Lemma decodable_sub b c (S S' : nat -> Prop) : (forall s, S' s -> S s) -> decodable b c S -> decodable b c S'.
Proof. intros H D s Hs. apply D. auto. Qed.

Lemma anch_sub b c (L L' : nat -> Prop) o g : anch b c L o g ->
  (forall pr, o = Some pr -> L' (p_ptr pr)) -> anch b c L' o g.
Proof.
  intros H HL pr E. destruct (H pr E) as [m [G [[S1 S2] S3]]]. exists m. split; auto. split; auto.
  split; auto.
Qed.

Lemma AInv_rr d g L w' L' go' gr' regs' gregs' :
  AInv d g L -> ext (w_cursor (d_w d)) (d_w d) w' -> w_qname w' = w_qname (d_w d) ->
  grew (d_w d) w' L L' -> NInv w' (length (w_buf w')) L' -> anch3 w' L' (g_q g) go' gr' ->
  regs_ok (w_buf w') (w_cursor w') L' regs' gregs' ->
  AInv (mkD w' regs') (mkGn (g_q g) go' gr' gregs') L'.
Proof.
  destruct d as [w regs]. simpl. intros [Hn Hi Ha Hqc Hqd Hqa Hr Ht] X Eq G Hi' A' R'. simpl in *.
  pose proof (inv_ext _ _ _ Hn X) as Hn'.
  assert (Hrs : w_rr_start w <= w_cursor w) by apply Hn.
  pose proof (x_rs _ _ _ X) as Ers. pose proof (x_len _ _ _ X) as El.
  assert (Ag : agree (w_rr_start w) (w_buf w) (w_buf w')) by (eapply agree_le; [apply X|lia]).
  assert (Rq : ragree header_size (w_rr_start w) (length (w_buf w)) (w_buf w) (w_buf w'))
    by (apply agree_ragree; auto).
  pose proof (Lq_grew _ _ _ _ _ G Hrs) as Eqv.
  constructor; simpl; auto.
  - rewrite Ers, El. apply (closed_equiv _ _ _ _ (Lq L (w_rr_start w)) (Lq L' (w_rr_start w)) Eqv).
    eapply (closed_transfer _ _ _ _ (Lq L (w_rr_start w))); eauto.
  - rewrite Ers. apply (decodable_sub _ _ (Lq L (w_rr_start w))); [intros s Hs; apply Eqv; exact Hs|].
    eapply (decodable_transfer _ _ _ _ (Lq L (w_rr_start w))); eauto.
  - rewrite Ers, Eq. eapply anch_mono; eauto. intros s Hs. apply Eqv. exact Hs.
  - intros t E. apply Ht. rewrite <- (x_tsig _ _ _ X). exact E.
Qed.

Lemma inv_set_sec_count s w c : Inv_n w -> Inv_n (set_sec_count s w c).
Proof. intros []. destruct s; constructor; simpl; auto. Qed.

Lemma AInv_set_sec_count d g L s c : AInv d g L ->
  AInv (mkD (set_sec_count s (d_w d) c) (d_regs d)) g L.
Proof.
  intros Hi. apply AInv_fields; auto; try (destruct s; reflexivity).
  - apply inv_set_sec_count. apply Hi.
  - intros t E. apply (a_ts _ _ _ Hi). destruct s; exact E.
Qed.

Lemma set_section_id w : w = set_section w (w_section w).
Proof. destruct w; reflexivity. Qed.

Lemma change_section_inv s w u w1 : change_section s w = Ok (u, w1) -> exists x, w1 = set_section w x.
Proof.
  unfold change_section. destruct s; destruct (w_section w) eqn:E; intros H; inversion H;
    try (eexists; reflexivity); eexists; apply set_section_id.
Qed.

Lemma change_section_err s w e w1 : change_section s w = Err (e, w1) -> w1 = w.
Proof. unfold change_section. destruct s; destruct (w_section w); intros H; inversion H; auto. Qed.

Lemma NInv_set_section w h L x : NInv w h L -> NInv (set_section w x) h L.
Proof. intros []. constructor; auto. Qed.

Lemma vec0_ok b c L (vec : bool) : vec_ok b c L (if vec then Some [] else None) [].
Proof. destruct vec; simpl; auto. split; [reflexivity|]. intros i p m E. destruct i; discriminate. Qed.

Lemma regs_after b c L regs gregs (vec : bool) v' names : regs_ok b c L regs gregs ->
  vec_ok b c L v' names -> vsome v' = vsome (if vec then Some [] else None) ->
  regs_ok b c L (regs ++ match v' with Some l => [l] | None => [] end)
          (gregs ++ if vec then [map Some names] else []).
Proof.
  intros R V Vs. destruct vec; destruct v' as [l|]; simpl in Vs; try discriminate.
  - apply regs_ok_snoc; auto. destruct V as [_ V]. intros i p m E1 E2.
    rewrite nth_error_map in E2. destruct (nth_error names i) as [m'|] eqn:E; simpl in E2; [|discriminate].
    inversion E2; subst m'. eauto.
  - rewrite !app_nil_r. exact R.
Qed.

Lemma AInv_err d g L w' (vec : bool) : AInv d g L -> obs_eq (d_w d) w' ->
  AInv (mkD w' (d_regs d ++ if vec then [[]] else []))
       (mkGn (g_q g) (g_o g) (g_r g) (g_regs g ++ if vec then [[]] else [])) L.
Proof.
  intros Hi X. pose proof (AInv_obs _ _ _ _ Hi X) as H1. destruct vec.
  - exact (AInv_regs_nil _ _ _ H1).
  - simpl. rewrite !app_nil_r. eapply AInv_ghost_eq; eauto.
Qed.

(* ---------------------------------------------------------------- the layout invariant *)

Record lay := mkLay { y_qs : list lq; y_rrs : list lrr }.

Definition q_desc (q : lq) (a : aq) : Prop :=
  (nc_name (lq_name q) = aq_name a /\ nc_cp (lq_name q) = aq_exact a /\ lq_ty q = aq_ty a /\ lq_cl q = aq_cl a) /\
  (aq_mode a = Disabled -> nc_sh (lq_name q) = None).
Definition rr_desc2 (r : lrr) (a : arr) : Prop :=
  rr_desc r (ar_owner a) (ar_exact a) (ar_ty a) (ar_cl a) (ar_ttl a)
          (component_types (ar_cl a) (ar_ty a)) (ar_rd a) /\
  (ar_mode a = Disabled -> rr_plain r).

(* physical part: questions tile [12, rr_start), records tile [rr_start, cursor); L is exactly the
   set of label starts of the name chunks of the layout *)
Record PLay (b : bytes) (L : nat -> Prop) (y : lay) (rs c : nat) : Prop := mkPLay {
  p_qs : qs_at b L (y_qs y) header_size rs;
  p_rrs : rrs_at b L (y_rrs y) rs c;
  p_tight : forall s, L s <-> In s (qs_starts (y_qs y) ++ rrs_starts (y_rrs y)) }.

Definition b2N (x : bool) : N := if x then 1%N else 0%N.
Definition osome {A} (o : option A) : bool := match o with Some _ => true | None => false end.

Record FLay (w : writer) (y : lay) (A : amsg) : Prop := mkFLay {
  f_qd : Forall2 q_desc (y_qs y) (am_qs A);
  f_rd : Forall2 rr_desc2 (y_rrs y) (am_an A ++ am_ns A ++ am_ar A);
  f_mode : am_mode A = w_mode w;
  f_cq : w_qd w = N.of_nat (length (am_qs A));
  f_ca : w_an w = N.of_nat (length (am_an A));
  f_cn : w_ns w = N.of_nat (length (am_ns A));
  f_cr : w_ar w = (N.of_nat (length (am_ar A)) + b2N (osome (w_edns w)) + b2N (osome (w_tsig w)))%N;
  f_bd : (w_qd w <= 65535 /\ w_an w <= 65535 /\ w_ns w <= 65535 /\ w_ar w <= 65535)%N;
  f_ed : forall e, w_edns w = Some e -> (e_udp e < 65536 /\ e_upper e < 256)%N;
  f_sec : match w_section w with
          | SecQuestion => am_an A = [] /\ am_ns A = [] /\ am_ar A = []
          | SecAnswer => am_ns A = [] /\ am_ar A = []
          | SecAuthority => am_ar A = []
          | SecAdditional => True
          end }.

Definition LInv (d : dstate) (y : lay) (A : amsg) (L : nat -> Prop) : Prop :=
  PLay (w_buf (d_w d)) L y (w_rr_start (d_w d)) (w_cursor (d_w d)) /\ FLay (d_w d) y A.

Lemma PLay_transfer b lo h L b' y rs c : closed b lo c h L -> ragree lo c h b b' ->
  lo = header_size -> rs <= c -> c <= length b -> c <= h ->
  PLay b L y rs c -> PLay b' L y rs c.
Proof.
  intros Hc R -> Hrs Hlen Hh [P1 P2 P3]. pose proof (qs_le _ _ _ _ _ P1). pose proof (rrs_le _ _ _ _ _ P2).
  constructor; auto.
  - eapply qs_transfer; eauto; try (unfold okr; lia).
  - eapply rrs_transfer; eauto; try (unfold okr; lia).
Qed.

Lemma FLay_fields w w' y A : FLay w y A -> w_mode w' = w_mode w -> w_qd w' = w_qd w -> w_an w' = w_an w ->
  w_ns w' = w_ns w -> w_ar w' = w_ar w -> w_section w' = w_section w ->
  w_edns w' = w_edns w -> osome (w_tsig w') = osome (w_tsig w) -> FLay w' y A.
Proof. intros [] E1 E2 E3 E4 E5 E6 E7 E8. constructor; rewrite ?E1, ?E2, ?E3, ?E4, ?E5, ?E6, ?E7, ?E8; auto. Qed.

Lemma LInv_move d g y A L w' : AInv d g L -> LInv d y A L -> Inv_n w' ->
  ragree header_size (w_cursor (d_w d)) (length (w_buf (d_w d))) (w_buf (d_w d)) (w_buf w') ->
  w_cursor w' = w_cursor (d_w d) -> w_rr_start w' = w_rr_start (d_w d) -> FLay w' y A ->
  LInv (mkD w' (d_regs d)) y A L.
Proof.
  intros Hi [HP HF] Hn' R Ec Ers HF'. split; auto. simpl. rewrite Ec, Ers.
  pose proof (a_n _ _ _ Hi) as []. pose proof (a_ni _ _ _ Hi) as Hni.
  eapply PLay_transfer; eauto; try lia. apply Hni.
Qed.

Lemma LInv_obs d g y A L w' : AInv d g L -> LInv d y A L -> obs_eq (d_w d) w' ->
  LInv (mkD w' (d_regs d)) y A L.
Proof.
  intros Hi HL X. eapply LInv_move; eauto; try apply X.
  - eapply obs_eq_inv; eauto. apply Hi.
  - apply obs_ragree; auto.
  - destruct HL as [_ HF]. eapply FLay_fields; eauto; try apply X.
    rewrite (o_tsig _ _ X). reflexivity.
Qed.

Lemma LInv_regs d y A L regs' : LInv d y A L -> LInv (mkD (d_w d) regs') y A L.
Proof. intros H. exact H. Qed.

Lemma ttl_from_rfc raw : ttl_from raw = ttl_rfc raw.
Proof.
  unfold ttl_from, ttl_rfc. change TTL_MAX with 2147483647%N.
  destruct (2147483647 <? raw)%N eqn:E1; destruct (raw <=? 2147483647)%N eqn:E2; auto.
  - apply N.ltb_lt in E1. apply N.leb_le in E2. lia.
  - apply N.ltb_ge in E1. apply N.leb_gt in E2. lia.
Qed.

Lemma exactf_of m : exactf m = exact_of m.
Proof. destruct m; reflexivity. Qed.

(* ---------------------------------------------------------------- add_*_rr / add_*_rrset *)

Definition step_ok (d : dstate) (g : gn) (o : wop) : Prop :=
  match step d o with
  | Ok (d', r) => exists L', AInv d' (gstep d g o r) L'
  | _ => False
  end.

Lemma ext_unsection c0 w x w' : ext c0 (set_section w x) w' -> ext c0 w w'.
Proof. intros []. constructor; auto. Qed.

Lemma change_section_no_panic s w : change_section s w <> Panic.
Proof. unfold change_section. destruct s; destruct (w_section w); discriminate. Qed.

Lemma step_rr d g L s h n ty cl ttl rd vec : AInv d g L -> wf_name n -> wf_bytes rd ->
  hs_contract (d_regs d) g h n -> step_ok d g (OAddRr s h n ty cl ttl rd vec).
Proof.
  intros Hi Hwf Hrd Hc. unfold step_ok.
  pose proof (step_good_all d (OAddRr s h n ty cl ttl rd vec) (a_n _ _ _ Hi)) as G.
  destruct (contract_ok d g L h n Hi Hc Hwf) as [Hh HhL].
  cbn [step] in *. unfold add_section_rr, with_rollback in *.
  destruct (change_section s (d_w d)) as [[[] w1]|[e w1]|] eqn:Ecs; cbn [bind] in *.
  3:{ eapply change_section_no_panic; eauto. }
  2:{ simpl in G |- *. exists L. apply AInv_err; auto. }
  destruct (change_section_inv _ _ _ _ Ecs) as [x ->].
  pose proof (add_rr_L (resolve_hint (d_regs d) h) n ty cl (ttl_from ttl) rd (if vec then Some [] else None)
                (set_section (d_w d) x) L [] (g_q g) (g_o g) (g_r g)
                (NInv_set_section _ _ _ x (a_ni _ _ _ Hi)) (a_an _ _ _ Hi) (vec0_ok _ _ _ vec) Hwf Hrd Hh HhL) as P.
  assert (Hpre : pre (w_cursor (d_w d)) (set_section (d_w d) x)).
  { split; simpl; [lia|]. apply (a_n _ _ _ Hi). }
  pose proof (frame_add_rr (w_cursor (d_w d)) (resolve_hint (d_regs d) h) n ty cl (ttl_from ttl) rd
                (if vec then Some [] else None) _ Hpre) as F.
  destruct (add_rr (resolve_hint (d_regs d) h) n ty cl (ttl_from ttl) rd (if vec then Some [] else None)
                   (set_section (d_w d) x)) as [[v' w2]|[e w2]|]; simpl in P, F; cbn [bind] in *; auto.
  2:{ simpl in G |- *. exists L. apply AInv_err; auto. }
  destruct (checked_add16 (sec_count s w2) 1) as [c|]; simpl in G |- *.
  2:{ exists L. apply AInv_err; auto. }
  destruct P as [L' [G' [Hi' [A' [V' [Vs [Hc' [Hq' _]]]]]]]]. simpl in Hq'.
  exists L'.
  apply (AInv_set_sec_count (mkD w2 _) _ L' s c).
  apply (AInv_rr d g L w2 L'); auto.
  - apply ext_unsection in F. exact F.
  - eapply regs_after; eauto.
    eapply regs_ok_mono; [apply (a_regs _ _ _ Hi)|apply F|apply F|apply G'].
Qed.

Lemma step_rrset d g L s h n ty cl ttl rds vec : AInv d g L -> wf_name n -> Forall wf_bytes rds ->
  hs_contract (d_regs d) g h n -> step_ok d g (OAddRrset s h n ty cl ttl rds vec).
Proof.
  intros Hi Hwf Hrd Hc. unfold step_ok.
  pose proof (step_good_all d (OAddRrset s h n ty cl ttl rds vec) (a_n _ _ _ Hi)) as G.
  destruct (contract_ok d g L h n Hi Hc Hwf) as [Hh HhL].
  cbn [step] in *. unfold add_section_rrset, with_rollback in *.
  destruct (change_section s (d_w d)) as [[[] w1]|[e w1]|] eqn:Ecs; cbn [bind] in *.
  3:{ eapply change_section_no_panic; eauto. }
  2:{ simpl in G |- *. exists L. apply AInv_err; auto. }
  destruct (change_section_inv _ _ _ _ Ecs) as [x ->].
  pose proof (rrset_L n ty cl (ttl_from ttl) (g_q g) rds (resolve_hint (d_regs d) h) (if vec then Some [] else None) 0
                (set_section (d_w d) x) L [] (g_o g) (g_r g)
                (NInv_set_section _ _ _ x (a_ni _ _ _ Hi)) (a_an _ _ _ Hi) (vec0_ok _ _ _ vec) Hwf Hrd Hh HhL) as P.
  assert (Hpre : pre (w_cursor (d_w d)) (set_section (d_w d) x)).
  { split; simpl; [lia|]. apply (a_n _ _ _ Hi). }
  pose proof (frame_rrset_loop (w_cursor (d_w d)) rds (resolve_hint (d_regs d) h) n ty cl (ttl_from ttl)
                (if vec then Some [] else None) 0 _ Hpre) as F.
  destruct (add_rrset_loop (resolve_hint (d_regs d) h) n ty cl (ttl_from ttl) rds (if vec then Some [] else None) 0
                   (set_section (d_w d) x)) as [[[v' k] w2]|[e w2]|]; simpl in P, F; cbn [bind] in *; auto.
  2:{ simpl in G |- *. exists L. apply AInv_err; auto. }
  destruct (65535 <? N.of_nat k)%N; simpl in G |- *.
  { exists L. apply AInv_err; auto. }
  destruct (checked_add16 (sec_count s w2) (N.of_nat k)) as [c|]; simpl in G |- *.
  2:{ exists L. apply AInv_err; auto. }
  destruct P as [L' [G' [Hi' [A' [V' [Vs [Hk [Hc' [Hm' [Hq' _]]]]]]]]]]. simpl in Hq'.
  exists L'.
  apply (AInv_set_sec_count (mkD w2 _) _ L' s c).
  apply (AInv_rr d g L w2 L'); auto.
  - apply ext_unsection in F. exact F.
  - eapply regs_after; eauto.
    eapply regs_ok_mono; [apply (a_regs _ _ _ Hi)|apply F|apply F|apply G'].
Qed.

(* ---------------------------------------------------------------- add_question *)

Lemma closed_all_Lq b lo c h L : closed b lo c h L -> forall s, L s <-> Lq L c s.
Proof.
  intros H s. unfold Lq. split; [|tauto]. intros Hs. split; auto.
  destruct (closed_bound _ _ _ _ _ _ H Hs). lia.
Qed.

Lemma step_question d g L n qt qc : AInv d g L -> wf_name n -> step_ok d g (OAddQuestion n qt qc).
Proof.
  intros Hi Hwf. unfold step_ok.
  pose proof (step_good_all d (OAddQuestion n qt qc) (a_n _ _ _ Hi)) as G.
  cbn [step] in *. unfold add_question in *.
  destruct (w_section (d_w d)); try (simpl in G |- *; exists L; apply AInv_obs; auto; fail).
  destruct (checked_add16 (w_qd (d_w d)) 1) as [nq|]; [|simpl in G |- *; exists L; apply AInv_obs; auto].
  unfold with_rollback in *.
  pose proof (write_unhinted_L _ n (d_w d) L (a_ni _ _ _ Hi) Hwf) as P1.
  destruct (write_unhinted_name n (d_w d)) as [[pr w1]|[e w1]|]; simpl in P1; cbn [bind] in *.
  3:{ exact P1. }
  2:{ simpl in G |- *. exists L. apply AInv_obs; auto. }
  destruct P1 as [W [Hsz [_ [L1 [G1 [Hi1 [HpL HT1]]]]]]].
  pose proof W as [X [Sd _]].
  pose proof (anch_new _ _ _ _ _ _ L1 W HpL) as Apr.
  rewrite <- (x_len _ _ _ X) in Hi1.
  destruct (anch3_ext _ _ _ L1 _ _ _ (a_an _ _ _ Hi) X Sd (proj1 G1)) as [B1 [B2 B3]].
  set (gq' := if (w_qd w1 =? 0)%N then Some n else g_q g).
  set (w1' := if (w_qd w1 =? 0)%N then set_qname w1 pr else w1) in *.
  assert (Hi1' : NInv w1' (length (w_buf w1)) L1).
  { unfold w1'. destruct (w_qd w1 =? 0)%N; auto. apply NInv_set_qname; auto. eapply anch_prior_ok; eauto. }
  assert (A1 : anch3 w1' L1 gq' (g_o g) (g_r g)).
  { unfold w1', gq'. destruct (w_qd w1 =? 0)%N; split; auto. }
  assert (E1 : w_cursor w1' = w_cursor w1 /\ w_buf w1' = w_buf w1 /\ w_tsig w1' = w_tsig w1 /\ w_avail w1' = w_avail w1)
    by (unfold w1'; destruct (w_qd w1 =? 0)%N; auto).
  destruct E1 as [Ec1 [Eb1 [Et1 Ea1]]].
  clearbody w1'.
  destruct (try_push_u16 qt w1') as [[u2 w2]|[e w2]|] eqn:E2; cbn [bind] in *.
  3:{ destruct Hi1' as [[N1 N2] _ _ _ _ _ _ _]. eapply try_push_no_panic; eauto. }
  2:{ simpl in G |- *. exists L. apply AInv_obs; auto. }
  destruct (push_step _ _ _ _ _ _ _ _ _ None [] E2 Hi1' A1 I) as [Hi2 [A2 [_ [Hc2 [X2 Q2]]]]].
  destruct (try_push_u16 qc w2) as [[u3 w3]|[e w3]|] eqn:E3; cbn [bind] in *.
  3:{ destruct Hi2 as [[N1 N2] _ _ _ _ _ _ _]. eapply try_push_no_panic; eauto. }
  2:{ simpl in G |- *. exists L. apply AInv_obs; auto. }
  destruct (push_step _ _ _ _ _ _ _ _ _ None [] E3 Hi2 A2 I) as [Hi3 [A3 [_ [Hc3 [X3 Q3]]]]].
  simpl in G |- *.
  assert (Hl3 : length (w_buf w3) = length (w_buf w1)).
  { rewrite (x_len _ _ _ X3), (x_len _ _ _ X2), Eb1. reflexivity. }
  rewrite <- Hl3 in Hi3.
  pose proof (ni_closed _ _ _ Hi3) as Hcl3.
  pose proof (closed_all_Lq _ _ _ _ _ Hcl3) as Eqv.
  assert (Ag : agree (w_cursor (d_w d)) (w_buf (d_w d)) (w_buf w3)).
  { pose proof (x_cur _ _ _ X2). pose proof (x_cur _ _ _ X).
    eapply agree_trans; [apply X|]. rewrite <- Eb1.
    eapply agree_trans; [eapply agree_le; [apply X2|lia]|]. eapply agree_le; [apply X3|]. lia. }
  assert (Hcm : w_cursor (d_w d) <= w_cursor w3).
  { pose proof (x_cur _ _ _ X3). pose proof (x_cur _ _ _ X2). pose proof (x_cur _ _ _ X). lia. }
  assert (Hfin : AInv (mkD (set_rr_start (set_counts w3 nq (w_an w3) (w_ns w3) (w_ar w3)) (w_cursor w3)) (d_regs d))
                      (mkGn gq' (g_o g) (g_r g) (g_regs g)) L1).
  { constructor; simpl; auto.
    - destruct Hi3. constructor; auto.
    - apply (closed_equiv _ _ _ _ L1 (Lq L1 (w_cursor w3)) Eqv). exact Hcl3.
    - apply (decodable_sub _ _ L1); [intros s Hs; apply Eqv; exact Hs|apply Hi3].
    - destruct A3 as [A31 _]. eapply anch_sub; [exact A31|].
      intros p Ep. apply Eqv. destruct (A31 p Ep) as [m [_ [[K _] _]]]. exact K.
    - eapply regs_ok_mono; [apply (a_regs _ _ _ Hi)|exact Ag|exact Hcm|apply G1].
    - intros t Et. apply (a_ts _ _ _ Hi).
      rewrite <- (x_tsig _ _ _ X), <- Et1, <- (x_tsig _ _ _ X2), <- (x_tsig _ _ _ X3). exact Et. }
  exists L1. unfold gq' in Hfin. rewrite (x_qd _ _ _ X) in Hfin.
  destruct (w_qd (d_w d) =? 0)%N; auto. eapply AInv_ghost_eq; eauto.
Qed.

(* ---------------------------------------------------------------- the remaining operations *)

Lemma set_limit_ok l w : Inv_n w -> exists nl av, set_limit l w = Ok (set_limit_avail w nl av).
Proof.
  intros []. unfold set_limit. unfold resv in *.
  destruct (w_limit w <=? l) eqn:E1.
  - apply Nat.leb_le in E1.
    destruct (Nat.min l (length (w_buf w)) <? w_limit w) eqn:E2; [apply Nat.ltb_lt in E2; lia|]. eauto.
  - apply Nat.leb_gt in E1.
    destruct (w_cursor w + w_limit w <? w_avail w) eqn:E2; [apply Nat.ltb_lt in E2; lia|].
    destruct (w_limit w <? Nat.max l (w_cursor w + w_limit w - w_avail w)) eqn:E3; [apply Nat.ltb_lt in E3; lia|].
    destruct (w_avail w <? w_limit w - Nat.max l (w_cursor w + w_limit w - w_avail w)) eqn:E4;
      [apply Nat.ltb_lt in E4; lia|]. eauto.
Qed.

Lemma retemplate_ok nb w : Inv_n w ->
  (exists lim av, retemplate nb w =
     Ok (set_limit_avail (set_buf w (firstn (w_cursor w) (w_buf w) ++ skipn (w_cursor w) nb)) lim av)) \/
  retemplate nb w = Err Truncation.
Proof.
  intros []. unfold retemplate. unfold resv in *.
  destruct (length (w_buf w) <? w_cursor w) eqn:E1; [apply Nat.ltb_lt in E1; lia|].
  destruct (w_limit w <? w_avail w) eqn:E2; [apply Nat.ltb_lt in E2; lia|].
  destruct (length nb <? w_cursor w + (w_limit w - w_avail w)) eqn:E3; [right; reflexivity|].
  apply Nat.ltb_ge in E3.
  destruct (Nat.min (w_limit w) (length nb) <? w_limit w - w_avail w) eqn:E4; [apply Nat.ltb_lt in E4; lia|].
  destruct (length nb <? w_cursor w) eqn:E5; [apply Nat.ltb_lt in E5; lia|].
  left. eauto.
Qed.

Lemma hdr_octet_ok w i : Inv_n w -> N.to_nat i < header_size -> exists x, hdr_octet w i = Ok x.
Proof.
  intros [] Hi. unfold hdr_octet. destruct (nth_error (w_buf w) (N.to_nat i)) eqn:E; eauto.
  apply nth_error_None in E. lia.
Qed.

Lemma getters_ok w : Inv_n w -> exists l, getters w = Ok l.
Proof.
  intros Hn. unfold getters.
  destruct (hdr_octet_ok w ID_START Hn ltac:(cbv; lia)) as [x0 ->]. cbn [bind].
  destruct (hdr_octet_ok w (ID_START + 1) Hn ltac:(cbv; lia)) as [x1 ->]. cbn [bind].
  destruct (hdr_octet_ok w QR_BYTE Hn ltac:(cbv; lia)) as [x2 ->]. cbn [bind].
  destruct (hdr_octet_ok w OPCODE_BYTE Hn ltac:(cbv; lia)) as [x3 ->]. cbn [bind].
  destruct (hdr_octet_ok w AA_BYTE Hn ltac:(cbv; lia)) as [x4 ->]. cbn [bind].
  destruct (hdr_octet_ok w TC_BYTE Hn ltac:(cbv; lia)) as [x5 ->]. cbn [bind].
  destruct (hdr_octet_ok w RD_BYTE Hn ltac:(cbv; lia)) as [x6 ->]. cbn [bind].
  destruct (hdr_octet_ok w RA_BYTE Hn ltac:(cbv; lia)) as [x7 ->]. cbn [bind].
  destruct (hdr_octet_ok w RCODE_BYTE Hn ltac:(cbv; lia)) as [x8 ->]. cbn [bind].
  eauto.
Qed.

Lemma sdec_narrow b c (L : nat -> Prop) c0 (L0 : nat -> Prop) : sdec b c L -> decodable b c0 L0 ->
  (forall s, L0 s -> L s) -> sdec b c0 L0.
Proof.
  intros D D0 Hs s H0. destruct (D0 s H0) as [ls0 Hn0]. destruct (D s (Hs s H0)) as [ls [e [Hn Hd]]].
  rewrite (name_at_fun _ _ _ _ Hn0 _ _ Hn) in Hn0. eauto.
Qed.

Lemma AInv_clear d g L : AInv d g L ->
  AInv (mkD (clear_rrs (d_w d)) (d_regs d))
       (mkGn (g_q g) None None (map (map (fun _ => None)) (g_regs g))) (Lq L (w_rr_start (d_w d))).
Proof.
  destruct d as [w regs]. simpl. intros [Hn Hi Ha Hqc Hqd Hqa Hr Ht]. simpl in *.
  assert (Hn' : Inv_n (clear_rrs w)).
  { destruct Hn. constructor; simpl; auto; lia. }
  assert (HqL : forall pr, w_qname w = Some pr -> Lq L (w_rr_start w) (p_ptr pr)).
  { intros pr E. destruct (Hqa pr E) as [m [_ [[K _] _]]]. exact K. }
  assert (Eqv : forall s, Lq L (w_rr_start w) s <-> Lq (Lq L (w_rr_start w)) (w_rr_start w) s)
    by (unfold Lq; intros s; tauto).
  constructor; simpl; auto.
  - constructor; simpl.
    + apply (inv_nb _ Hn').
    + apply Hn.
    + left. lia.
    + exact Hqc.
    + exact Hqd.
    + repeat split; simpl; auto.
      destruct (w_qname w) as [pr|] eqn:E; simpl; auto.
      destruct (Hqa pr eq_refl) as [m [_ [[S1 [S2 [S3 [n' [S4 S5]]]]] S6]]].
      split; auto. split; auto. split; [eapply closed_real; eauto|].
      exists n'. split; auto. rewrite S6. unfold nm_len. rewrite (name_eq_length _ _ _ S5). reflexivity.
    + intros pr [E|[E|E]]; try discriminate. auto.
    + eapply sdec_narrow; [apply Hi|exact Hqd|]. intros s [K _]. exact K.
  - split; [exact Hqa|]. split; intros pr E; discriminate.
  - apply (closed_equiv _ _ _ _ _ _ Eqv). exact Hqc.
  - apply (decodable_sub _ _ (Lq L (w_rr_start w))); [intros s Hs; apply Eqv; exact Hs|exact Hqd].
  - eapply anch_sub; [exact Hqa|]. intros pr E. apply Eqv. auto.
  - destruct Hr as [Hl _]. split; [rewrite map_length; exact Hl|].
    intros r v names i p m _ E2 _ E4. rewrite nth_error_map in E2.
    destruct (nth_error (g_regs g) r) as [nm|]; simpl in E2; [|discriminate]. inversion E2; subst names.
    rewrite nth_error_map in E4. destruct (nth_error nm i); simpl in E4; discriminate.
Qed.

Lemma wf_name_lower n : wf_name n -> wf_name (nm_lower n).
Proof.
  intros [H1 H2]. unfold nm_lower. split; [|rewrite map_length; auto].
  rewrite Forall_forall in *. intros x Hx. apply in_map_iff in Hx as [y [<- Hy]].
  unfold wf_label. rewrite map_length. apply H1; auto.
Qed.

Lemma AInv_eta d g L : AInv d g L -> AInv (mkD (d_w d) (d_regs d)) g L.
Proof. destruct d; auto. Qed.

Lemma wire_lower_length n : length (nm_wire (nm_lower n)) = length (nm_wire n).
Proof.
  rewrite !nm_wire_length. f_equal. unfold nm_lower. induction n as [|l r IH]; [reflexivity|].
  cbn [map]. rewrite !nm_lwire_cons. cbn [length]. rewrite !app_length, map_length. rewrite IH. reflexivity.
Qed.

Lemma wf_bytes_lower n : Forall wf_bytes n -> Forall wf_bytes (nm_lower n).
Proof.
  intros H. unfold nm_lower. rewrite Forall_forall in *. intros x Hx. apply in_map_iff in Hx as [y [<- Hy]].
  specialize (H y Hy). unfold wf_bytes in *. rewrite Forall_forall in *. intros z Hz.
  apply in_map_iff in Hz as [u [<- Hu]]. apply lower_octet. auto.
Qed.

Theorem step_ok_all d g L o : AInv d g L -> op_wf o -> op_contract d g o -> step_ok d g o.
Proof.
  intros Hi Hwf Hc. pose proof (a_n _ _ _ Hi) as Hn.
  destruct o; simpl in Hwf, Hc;
    try (eapply step_question; eauto; fail);
    try (match type of Hc with (_ = Standard -> _) => idtac end;
         destruct Hwf as [W1 W2]; destruct (w_mode (d_w d)) eqn:Em;
         [eapply step_rr; eauto
         |unfold step_ok; rewrite step_rr_nonstd by congruence; exact (step_rr d g L _ HsNone _ _ _ _ _ _ Hi W1 W2 I)
         |unfold step_ok; rewrite step_rr_nonstd by congruence; exact (step_rr d g L _ HsNone _ _ _ _ _ _ Hi W1 W2 I)]; fail);
    try (match type of Hc with (_ = Standard -> _) => idtac end;
         destruct Hwf as [W1 W2]; destruct (w_mode (d_w d)) eqn:Em;
         [eapply step_rrset; eauto
         |unfold step_ok; rewrite step_rrset_nonstd by congruence; exact (step_rrset d g L _ HsNone _ _ _ _ _ _ Hi W1 W2 I)
         |unfold step_ok; rewrite step_rrset_nonstd by congruence; exact (step_rrset d g L _ HsNone _ _ _ _ _ _ Hi W1 W2 I)]; fail);
    unfold step_ok; cbn [step].
  - (* set_id *) destruct (hdr_write_ok d g L (N.to_nat ID_START) (be16 v) Hi ltac:(cbv; lia)) as [w' [E [H _]]].
    unfold set_id. rewrite E. simpl. eauto.
  - destruct (hdr_modify_ok d g L QR_BYTE (set_bit QR_MASK b) Hi ltac:(cbv; lia)) as [w' [E [H _]]].
    unfold set_qr, w_set_flag. rewrite E. simpl. eauto.
  - destruct (hdr_modify_ok d g L OPCODE_BYTE (fun x => N.lor (N.land x (255 - OPCODE_MASK)) ((v * 2 ^ OPCODE_SHIFT) mod 256)) Hi ltac:(cbv; lia)) as [w' [E [H _]]].
    unfold set_opcode. rewrite E. simpl. eauto.
  - destruct (hdr_modify_ok d g L AA_BYTE (set_bit AA_MASK b) Hi ltac:(cbv; lia)) as [w' [E [H _]]].
    unfold set_aa, w_set_flag. rewrite E. simpl. eauto.
  - destruct (hdr_modify_ok d g L TC_BYTE (set_bit TC_MASK b) Hi ltac:(cbv; lia)) as [w' [E [H _]]].
    unfold set_tc, w_set_flag. rewrite E. simpl. eauto.
  - destruct (hdr_modify_ok d g L RD_BYTE (set_bit RD_MASK b) Hi ltac:(cbv; lia)) as [w' [E [H _]]].
    unfold set_rd, w_set_flag. rewrite E. simpl. eauto.
  - destruct (hdr_modify_ok d g L RA_BYTE (set_bit RA_MASK b) Hi ltac:(cbv; lia)) as [w' [E [H _]]].
    unfold set_ra, w_set_flag. rewrite E. simpl. eauto.
  - (* set_rcode *)
    destruct (hdr_modify_ok d g L RCODE_BYTE (fun x => N.lor (N.land x (255 - RCODE_MASK)) v) Hi ltac:(cbv; lia))
      as [w' [E [H [He Ht]]]].
    unfold set_rcode. rewrite E. simpl. exists L.
    apply (AInv_fields (mkD w' (d_regs d)) g L (clear_upper w')); auto;
      try (unfold clear_upper; destruct (w_edns w'); reflexivity).
    + apply inv_clear_upper. apply H.
    + intros t Et. apply (a_ts _ _ _ H). simpl. unfold clear_upper in Et. destruct (w_edns w'); exact Et.
  - (* set_extended_rcode *)
    unfold set_extended_rcode. destruct (w_edns (d_w d)) as [e|] eqn:Ee; [|simpl; exists L; apply AInv_eta; auto].
    destruct (4095 <? v)%N; [simpl; exists L; apply AInv_eta; auto|].
    destruct (hdr_modify_ok d g L RCODE_BYTE
                (fun x => N.lor (N.land x (255 - RCODE_MASK)) (N.land (v mod 256) RCODE_MASK)) Hi ltac:(cbv; lia))
      as [w' [E [H [He Ht]]]].
    rewrite E. simpl. exists L.
    apply (AInv_fields (mkD w' (d_regs d)) g L (set_edns_f w' (Some (mkEdns (e_udp e) ((v / 16) mod 256))))); auto.
    + pose proof (a_n _ _ _ H) as []. simpl in *. constructor; simpl; auto.
      unfold resv in *. simpl in *. rewrite He, Ee in i_av. exact i_av.
    + intros t Et. apply (a_ts _ _ _ H). exact Et.
  - (* set_limit *)
    destruct (set_limit_ok l (d_w d) Hn) as [nl [av E]]. rewrite E. simpl. exists L.
    apply (AInv_fields d g L); auto.
    + eapply set_limit_inv; eauto.
    + apply (a_ts _ _ _ Hi).
  - (* set_mode *)
    exists L. apply (AInv_fields d g L); auto.
    + destruct Hn. constructor; auto.
    + apply (a_ts _ _ _ Hi).
  - (* set_edns *)
    pose proof (step_good_all d (OSetEdns udp) Hn) as G. cbn [step] in G.
    destruct (set_edns udp (d_w d)) as [[[] w']|[e w']|] eqn:E; simpl in G |- *.
    + exists L. unfold set_edns in E. destruct (w_edns (d_w d)); [discriminate|].
      destruct (w_avail (d_w d) <? w_cursor (d_w d) + opt_record_size); [discriminate|].
      destruct (checked_add16 (w_ar (d_w d)) 1); [|discriminate]. inversion E; subst w'.
      apply (AInv_fields d g L); auto. apply (a_ts _ _ _ Hi).
    + exists L. apply AInv_obs; auto.
    + unfold set_edns in E. destruct (w_edns (d_w d)); [discriminate|].
      destruct (w_avail (d_w d) <? w_cursor (d_w d) + opt_record_size); [discriminate|].
      destruct (checked_add16 (w_ar (d_w d)) 1); discriminate.
  - (* set_tsig *)
    destruct Hwf as [Wa [Wk [Wt [Ws [Oa [Ot [Os [Lk La]]]]]]]].
    pose proof (step_good_all d (OSetTsig alg key time fudge origid error stime) Hn) as G. cbn [step] in G.
    destruct (set_tsig (nm_lower alg) (nm_lower key) time fudge origid error stime (d_w d)) as [[[] w']|[e w']|] eqn:E;
      simpl in G |- *.
    + exists L. unfold set_tsig in E. destruct (w_tsig (d_w d)); [discriminate|].
      destruct (w_avail (d_w d) <? _); [discriminate|].
      destruct (checked_add16 (w_ar (d_w d)) 1); [|discriminate]. inversion E; subst w'.
      apply (AInv_fields d g L); auto. simpl. intros t Et. inversion Et; subst t.
      unfold tsig_wf; simpl. split; [apply wf_name_lower; auto|]. split; [apply wf_name_lower; auto|].
      split; auto. split; auto. split; auto. split; [apply wf_bytes_lower; auto|]. split; auto.
      split; auto. rewrite !wire_lower_length. auto.
    + exists L. apply AInv_obs; auto.
    + unfold set_tsig in E. destruct (w_tsig (d_w d)); [discriminate|].
      destruct (w_avail (d_w d) <? _); [discriminate|].
      destruct (checked_add16 (w_ar (d_w d)) 1); discriminate.
  - (* update_time_signed *)
    unfold update_time_signed. destruct (w_tsig (d_w d)) as [t|] eqn:Et; simpl; [|exists L; apply AInv_eta; auto].
    exists L. apply (AInv_fields d g L); auto.
    + destruct Hn. constructor; simpl; auto. unfold resv in *. simpl. rewrite Et in i_av. exact i_av.
    + simpl. intros t' E'. inversion E'; subst t'. destruct (a_ts _ _ _ Hi t Et) as [T1 [T2 [T3 [T4 [T5 [T6 [T7 [T8 [T9 T10]]]]]]]]].
      destruct Hwf as [W1 W2]. unfold tsig_wf; simpl. auto 12.
  - (* clear_rrs *) eexists. apply AInv_clear. exact Hi.
  - (* template *)
    destruct (retemplate_ok newbuf (d_w d) Hn) as [[lim [av E]]|E]; rewrite E; simpl; [|eauto].
    exists L. apply AInv_move; auto.
    + eapply retemplate_inv; eauto.
    + simpl. apply agree_ragree. unfold agree.
      rewrite firstn_app, firstn_firstn, firstn_length.
      replace (Nat.min (w_cursor (d_w d)) (w_cursor (d_w d))) with (w_cursor (d_w d)) by lia.
      assert (Hle : w_cursor (d_w d) <= length (w_buf (d_w d))) by (destruct Hn; lia).
      replace (w_cursor (d_w d) - Nat.min (w_cursor (d_w d)) (length (w_buf (d_w d)))) with 0 by lia.
      simpl. apply app_nil_r.
    + apply (a_ts _ _ _ Hi).
  - (* template subsequent *) eauto.
  - (* get *) destruct (getters_ok (d_w d) Hn) as [l ->]. simpl. eauto.
Qed.

(* ---------------------------------------------------------------- finish *)

Lemma NInv_set_avail w h L a : NInv w h L -> w_cursor w <= a -> a <= length (w_buf w) ->
  NInv (set_avail w a) h L.
Proof. intros [[N1 N2] ? ? ? ? ? ? ?] H1 H2. constructor; auto. split; simpl; auto. Qed.

Lemma NInv_clear_tsig w h L : NInv w h L -> NInv (set_tsig_f w None) h L.
Proof. intros []. constructor; auto. Qed.

(* a record without name components in its RDATA that fits is written *)
Lemma add_rr_fits h owner ty cl ttl rd v w L names gq go gr :
  NInv w (length (w_buf w)) L -> anch3 w L gq go gr -> vec_ok (w_buf w) (w_cursor w) L v names ->
  wf_name owner -> wf_bytes rd -> hint_contract h owner w -> hint_in h w L ->
  component_types cl ty = [] -> w_cursor w + length (nm_wire owner) + 10 + length rd <= w_avail w ->
  exists v' w', add_rr h owner ty cl ttl rd v w = Ok (v', w') /\
    exists L', grew w w' L L' /\ NInv w' (length (w_buf w')) L' /\ anch3 w' L' gq (Some owner) gr /\
               w_cursor w' <= w_cursor w + length (nm_wire owner) + 10 + length rd /\
               ext (w_cursor w) w w'.
Proof.
  intros Hi A V Hwf Hrd Hh HhL Hct Hfit.
  pose proof (add_rr_L h owner ty cl ttl rd v w L names gq go gr Hi A V Hwf Hrd Hh HhL) as P.
  assert (Hpre : pre (w_cursor w) w) by (split; [lia|apply Hi]).
  pose proof (frame_add_rr (w_cursor w) h owner ty cl ttl rd v w Hpre) as F.
  rewrite Hct in P.
  destruct (add_rr h owner ty cl ttl rd v w) as [[v' w']|[e w']|]; simpl in P, F.
  - exists v', w'. split; auto. destruct P as [L' [G' [Hi' [A' [_ [_ [Hc' _]]]]]]].
    exists L'. simpl in A'. auto 10.
  - destruct P as [[_ K]|[_ K]]; [lia|congruence].
  - contradiction.
Qed.

Lemma tsig_rdata_length t : tsig_wf t ->
  length (nm_wire (t_key t)) + 10 + length (tsig_unsigned_rdata t) = t_reserved t.
Proof.
  intros [_ [_ [T3 [T4 [T5 _]]]]]. rewrite T5. unfold tsig_unsigned_rdata, tsig_unsigned_len.
  rewrite !app_length. unfold be16. simpl length. rewrite T3.
  destruct (t_error t =? badtime)%N; simpl length; lia.
Qed.

Lemma wf_bytes_be16 v : wf_bytes (be16 v).
Proof.
  unfold be16, wf_bytes. repeat constructor; unfold is_octet; apply N.mod_lt; lia.
Qed.

Lemma wf_bytes_app (a c : bytes) : wf_bytes a -> wf_bytes c -> wf_bytes (a ++ c).
Proof. unfold wf_bytes. intros. apply Forall_app. auto. Qed.

Lemma wf_bytes_lwire n : wf_name n -> Forall wf_bytes n -> wf_bytes (nm_lwire n).
Proof.
  intros [H _] O. induction n as [|l r IH]; [constructor|].
  inversion H as [|? ? [_ L63] H']; subst. inversion O; subst.
  rewrite nm_lwire_cons. constructor; [unfold is_octet; lia|]. apply wf_bytes_app; auto.
Qed.

Lemma octets_rdata t : tsig_wf t -> wf_bytes (tsig_unsigned_rdata t).
Proof.
  intros [_ [T2 [_ [_ [_ [T6 [T7 [T8 _]]]]]]]]. unfold tsig_unsigned_rdata.
  assert (W : wf_bytes (nm_wire (t_alg t))).
  { unfold nm_wire. apply wf_bytes_app; [apply wf_bytes_lwire; auto|]. constructor; [unfold is_octet; lia|constructor]. }
  assert (O : wf_bytes (if (t_error t =? badtime)%N then t_server_time t else []))
    by (destruct (t_error t =? badtime)%N; [auto|constructor]).
  apply wf_bytes_app; [exact W|]. apply wf_bytes_app; [exact T7|].
  apply wf_bytes_app; [apply wf_bytes_be16|]. apply wf_bytes_app; [apply wf_bytes_be16|].
  apply wf_bytes_app; [apply wf_bytes_be16|]. apply wf_bytes_app; [apply wf_bytes_be16|].
  apply wf_bytes_app; [apply wf_bytes_be16|exact O].
Qed.

Lemma ragree_trans lo c h b1 b2 b3 : ragree lo c h b1 b2 -> ragree lo c h b2 b3 -> ragree lo c h b1 b3.
Proof. intros H1 H2 j J1 J2 J3. rewrite H2, H1; auto. Qed.

Theorem finish_ok f d g L : AInv d g L ->
  exists wF LF, finish_gen f (d_w d) = Ok (w_cursor wF, w_buf wF) /\
    NInv wF (length (w_buf wF)) LF /\ (forall s, L s -> LF s) /\
    (forall s, LF s -> L s \/ w_cursor (d_w d) <= s) /\
    ragree header_size (w_cursor (d_w d)) (length (w_buf (d_w d))) (w_buf (d_w d)) (w_buf wF) /\
    w_cursor (d_w d) <= w_cursor wF.
Proof.
  intros Hi. unfold finish_gen.
  set (c0 := w_cursor (d_w d)). set (h0 := length (w_buf (d_w d))).
  destruct (hdr_write_ok d g L (N.to_nat QDCOUNT_START) (be16 (w_qd (d_w d))) Hi ltac:(cbv; lia))
    as [w1 [E1 [H1 [He1 [Ht1 [Hc1 R1]]]]]].
  rewrite E1. cbn [bind].
  destruct (hdr_write_ok _ g L (N.to_nat ANCOUNT_START) (be16 (w_an w1)) H1 ltac:(cbv; lia))
    as [w2 [E2 [H2 [He2 [Ht2 [Hc2 R2]]]]]].
  cbn [d_w d_regs] in E2, He2, Ht2, Hc2, R2. rewrite E2. cbn [bind].
  destruct (hdr_write_ok _ g L (N.to_nat NSCOUNT_START) (be16 (w_ns w2)) H2 ltac:(cbv; lia))
    as [w3 [E3 [H3 [He3 [Ht3 [Hc3 R3]]]]]].
  cbn [d_w d_regs] in E3, He3, Ht3, Hc3, R3. rewrite E3. cbn [bind].
  destruct (hdr_write_ok _ g L (N.to_nat ARCOUNT_START) (be16 (w_ar w3)) H3 ltac:(cbv; lia))
    as [w4 [E4 [H4 [He4 [Ht4 [Hc4 R4]]]]]].
  cbn [d_w d_regs] in E4, He4, Ht4, Hc4, R4. rewrite E4. cbn [bind].
  assert (Hc : w_cursor w4 = c0) by (unfold c0; congruence).
  assert (R : ragree header_size c0 h0 (w_buf (d_w d)) (w_buf w4)).
  { eapply ragree_trans; [apply R1|]. eapply ragree_trans; [apply R2|].
    eapply ragree_trans; [apply R3|apply R4]. }
  assert (Hts : forall t, w_tsig w4 = Some t -> tsig_wf t).
  { intros t E. apply (a_ts _ _ _ H4); exact E. }
  cbn [d_w d_regs] in H4.
  clear E1 E2 E3 E4 H1 H2 H3 He1 He2 He3 He4 Ht1 Ht2 Ht3 Ht4 Hc1 Hc2 Hc3 Hc4 R1 R2 R3 R4 w1 w2 w3.
  pose proof (a_n _ _ _ H4) as Hn4. pose proof (a_ni _ _ _ H4) as Hi4.
  pose proof (a_an _ _ _ H4) as A4. cbn [d_w d_regs] in Hn4, Hi4, A4.
  (* OPT *)
  assert (Hopt : exists w5 L5,
    match w_edns w4 with
    | Some e => unwrap_w (add_rr HNone [] TYPE_OPT (e_udp e) (f (e_upper e * 16777216)%N) [] None
                                 (set_avail w4 (w_avail w4 + opt_record_size)))
    | None => Ok w4 end = Ok w5 /\
    NInv w5 (length (w_buf w5)) L5 /\ (forall s, L s -> L5 s) /\ (forall s, L5 s -> L s \/ c0 <= s) /\
    (exists go, anch3 w5 L5 (g_q g) go (g_r g)) /\
    agree c0 (w_buf w4) (w_buf w5) /\ c0 <= w_cursor w5 /\ w_tsig w5 = w_tsig w4 /\
    w_avail w5 + match w_tsig w5 with Some t => t_reserved t | None => 0 end <= length (w_buf w5)).
  { destruct Hn4 as [h1 h2 h3 h4 h5]. unfold resv in h4.
    destruct (w_edns w4) as [e|] eqn:Ee.
    - set (w4' := set_avail w4 (w_avail w4 + opt_record_size)).
      assert (Hi4' : NInv w4' (length (w_buf w4')) L).
      { unfold w4'. apply NInv_set_avail; auto; simpl; destruct (w_tsig w4); lia. }
      destruct (add_rr_fits HNone [] TYPE_OPT (e_udp e) (f (e_upper e * 16777216)%N) [] None w4' L []
                  (g_q g) (g_o g) (g_r g) Hi4' A4 I) as [v' [w5 [E5 [L5 [G5 [Hi5 [A5 [Hc5 X5]]]]]]]].
      + split; [constructor|simpl; lia].
      + constructor.
      + exact I.
      + exact I.
      + reflexivity.
      + unfold w4'. simpl. unfold opt_record_size. simpl. lia.
      + rewrite E5. simpl. exists w5, L5. split; auto. split; auto.
        split; [apply G5|].
        split; [intros s Hs; destruct (proj2 G5 s Hs); auto; right; unfold w4' in *; simpl in *; lia|].
        split; [eauto|]. pose proof (x_agree _ _ _ X5) as Ag. pose proof (x_cur _ _ _ X5) as Cu.
        unfold w4' in Ag, Cu. simpl in Ag, Cu. rewrite Hc in Ag, Cu.
        split; [exact Ag|]. split; [exact Cu|]. split; [apply X5|].
        rewrite (x_tsig _ _ _ X5), (x_av _ _ _ X5), (x_len _ _ _ X5). unfold w4'. simpl.
        unfold opt_record_size in *. simpl in *. destruct (w_tsig w4); lia.
    - exists w4, L. split; auto. split; auto. split; auto. split; auto. split; [eauto|].
      split; [apply agree_refl|]. split; [lia|]. split; auto.
      destruct (w_tsig w4); lia. }
  destruct Hopt as [w5 [L5 [E5 [Hi5 [M5 [M5' [[go5 A5] [Ag5 [Hc5 [Ht5 Hl5]]]]]]]]]].
  rewrite E5. cbn [bind].
  assert (R5 : ragree header_size c0 h0 (w_buf (d_w d)) (w_buf w5)).
  { eapply ragree_trans; [exact R|]. apply agree_ragree. exact Ag5. }
  destruct (w_tsig w5) as [t|] eqn:Et5.
  - pose proof (Hts t ltac:(congruence)) as Twf. pose proof (octets_rdata t Twf) as Toct.
    pose proof (tsig_rdata_length t Twf) as Tlen.
    set (w5' := set_avail (set_tsig_f w5 None) (w_avail w5 + t_reserved t)).
    pose proof (ni_nb _ _ _ Hi5) as [K1 K2].
    assert (Hi5' : NInv w5' (length (w_buf w5')) L5).
    { unfold w5'. apply NInv_set_avail; [apply NInv_clear_tsig; exact Hi5|simpl; lia|simpl; lia]. }
    destruct (add_rr_fits HNone (t_key t) TYPE_TSIG qclass_any (ttl_from 0) (tsig_unsigned_rdata t) None w5' L5 []
                (g_q g) go5 (g_r g) Hi5' A5 I) as [v' [w6 [E6 [L6 [G6 [Hi6 [A6 [Hc6 X6]]]]]]]].
    + apply Twf.
    + exact Toct.
    + exact I.
    + exact I.
    + reflexivity.
    + unfold w5'. simpl. lia.
    + rewrite E6. simpl. exists w6, L6. split; auto. split; auto.
      split; [intros s Hs; apply G6; auto|].
      pose proof (x_agree _ _ _ X6) as Ag6. pose proof (x_cur _ _ _ X6) as Cu6.
      unfold w5' in Ag6, Cu6. simpl in Ag6, Cu6.
      split.
      { intros s Hs. destruct (proj2 G6 s Hs) as [K|K].
        - destruct (M5' s K); auto.
        - right. unfold w5' in K. simpl in K. lia. }
      split; [|lia].
      eapply ragree_trans; [exact R5|]. apply agree_ragree. eapply agree_le; eauto.
  - exists w5, L5. split; auto.
Qed.

(* ---------------------------------------------------------------- whole runs *)

(* the hint contract of a whole operation sequence, threaded through the run *)
Fixpoint run_contract (d : dstate) (g : gn) (ops : list wop) : Prop :=
  match ops with
  | [] => True
  | o :: rest =>
    op_wf o /\ op_contract d g o /\
    match step d o with
    | Ok (d1, r) => if stops o r then True else run_contract d1 (gstep d g o r) rest
    | _ => True
    end
  end.

Definition g0 : gn := mkGn None None None [].
Definition L0 : nat -> Prop := fun _ => False.

Lemma AInv_new buf limit w0 : writer_new buf limit = Ok w0 -> AInv (mkD w0 []) g0 L0.
Proof.
  intros H. pose proof (writer_new_inv _ _ _ H) as Hn.
  unfold writer_new in H.
  destruct (Nat.min limit (length buf) <? header_size); [discriminate|].
  destruct (length buf <? header_size); [discriminate|].
  inversion H; subst w0. clear H.
  constructor; simpl.
  - exact Hn.
  - constructor; simpl.
    + apply (inv_nb _ Hn).
    + lia.
    + left. lia.
    + intros s [].
    + intros s [].
    + repeat split; exact I.
    + intros pr [E|[E|E]]; discriminate.
    + intros s [].
  - repeat split; intros pr E; discriminate.
  - intros s [[] _].
  - intros s [[] _].
  - intros pr E; discriminate.
  - split; [reflexivity|]. intros r v names i p m E. destruct r; discriminate.
  - intros t E. discriminate.
Qed.

Theorem run_ok : forall ops d g L, AInv d g L -> run_contract d g ops ->
  exists d' outs alive g' L', run d ops = Ok (d', outs, alive) /\ AInv d' g' L'.
Proof.
  induction ops as [|o rest IH]; intros d g L Hi Hc.
  - simpl. exists d, [], true, g, L. auto.
  - destruct Hc as [Hwf [Hoc Hrest]]. pose proof (step_ok_all d g L o Hi Hwf Hoc) as S.
    unfold step_ok in S. cbn [run].
    destruct (step d o) as [[d1 r]|e|] eqn:E; try contradiction. cbn [bind].
    destruct S as [L1 H1].
    destruct (stops o r).
    + exists d1, [r], false, (gstep d g o r), L1. auto.
    + destruct (IH d1 (gstep d g o r) L1 H1 Hrest) as [d2 [outs [alive [g2 [L2 [E2 H2]]]]]].
      rewrite E2. cbn [bind]. exists d2, (r :: outs), alive, g2, L2. auto.
Qed.

(* No operation sequence obeying the hint contract makes the writer panic, finish included;
   in the finished message every label start of the ghost set decodes without looking at the
   header or beyond the end, every pointer met leads strictly backwards to another member. *)
Theorem run_writer_ok buf limit w0 ops : writer_new buf limit = Ok w0 ->
  run_contract (mkD w0 []) g0 ops ->
  exists rr, run_writer buf limit ops = Ok rr /\
    match rr_final rr with
    | Some (len, b) =>
      exists LF, closed b header_size len (length b) LF /\ decodable b len LF /\ len <= length b
    | None => True
    end.
Proof.
  intros H0 Hc. unfold run_writer, run_writer_gen. rewrite H0. cbn [bind].
  destruct (run_ok ops _ _ _ (AInv_new _ _ _ H0) Hc) as [d [outs [alive [g [L [E Hi]]]]]].
  rewrite E. cbn [bind]. destruct alive.
  - destruct (finish_ok (fun x => x) d g L Hi) as [wF [LF [EF [HiF _]]]].
    unfold finish. rewrite EF. cbn [bind]. eexists. split; [reflexivity|]. simpl.
    exists LF. split; [apply HiF|]. split; [apply HiF|].
    destruct (ni_nb _ _ _ HiF). lia.
  - eexists. split; [reflexivity|]. exact I.
Qed.

(* ---------------------------------------------------------------- no spurious truncation *)

Lemma of_Mv_trunc d vec (r : M (option hvec)) d' : of_Mv d vec r = Ok (d', RErr Truncation) ->
  exists w', r = Err (Truncation, w').
Proof. destruct r as [[v w]|[e w]|]; simpl; intros H; inversion H; subst. eauto. Qed.

Theorem rr_no_spurious d g L s h n ty cl ttl rd vec d' : AInv d g L -> wf_name n -> wf_bytes rd ->
  hs_contract (d_regs d) g h n ->
  step d (OAddRr s h n ty cl ttl rd vec) = Ok (d', RErr Truncation) ->
  w_avail (d_w d) < w_cursor (d_w d) + length (nm_wire n) + 10 + length rd.
Proof.
  intros Hi Hwf Hrd Hc E. destruct (contract_ok d g L h n Hi Hc Hwf) as [Hh HhL].
  cbn [step] in E. apply of_Mv_trunc in E as [w' E].
  unfold add_section_rr, with_rollback in E.
  destruct (change_section s (d_w d)) as [[[] w1]|[e w1]|] eqn:Ecs; cbn [bind] in E.
  3:{ discriminate. }
  2:{ unfold change_section in Ecs. destruct s; destruct (w_section (d_w d)); inversion Ecs; subst; discriminate. }
  destruct (change_section_inv _ _ _ _ Ecs) as [x ->].
  pose proof (add_rr_L (resolve_hint (d_regs d) h) n ty cl (ttl_from ttl) rd (if vec then Some [] else None)
                (set_section (d_w d) x) L [] (g_q g) (g_o g) (g_r g)
                (NInv_set_section _ _ _ x (a_ni _ _ _ Hi)) (a_an _ _ _ Hi) (vec0_ok _ _ _ vec) Hwf Hrd Hh HhL) as P.
  destruct (add_rr (resolve_hint (d_regs d) h) n ty cl (ttl_from ttl) rd (if vec then Some [] else None)
                   (set_section (d_w d) x)) as [[v' w2]|[e w2]|]; simpl in P; cbn [bind] in E.
  - destruct (checked_add16 (sec_count s w2) 1); discriminate.
  - inversion E; subst e. destruct P as [[_ K]|[K _]]; [exact K|discriminate].
  - discriminate.
Qed.

Theorem rrset_no_spurious d g L s h n ty cl ttl rds vec d' : AInv d g L -> wf_name n ->
  Forall wf_bytes rds -> hs_contract (d_regs d) g h n ->
  step d (OAddRrset s h n ty cl ttl rds vec) = Ok (d', RErr Truncation) ->
  w_avail (d_w d) < w_cursor (d_w d) + rds_size n rds.
Proof.
  intros Hi Hwf Hrd Hc E. destruct (contract_ok d g L h n Hi Hc Hwf) as [Hh HhL].
  cbn [step] in E. apply of_Mv_trunc in E as [w' E].
  unfold add_section_rrset, with_rollback in E.
  destruct (change_section s (d_w d)) as [[[] w1]|[e w1]|] eqn:Ecs; cbn [bind] in E.
  3:{ discriminate. }
  2:{ unfold change_section in Ecs. destruct s; destruct (w_section (d_w d)); inversion Ecs; subst; discriminate. }
  destruct (change_section_inv _ _ _ _ Ecs) as [x ->].
  pose proof (rrset_L n ty cl (ttl_from ttl) (g_q g) rds (resolve_hint (d_regs d) h) (if vec then Some [] else None) 0
                (set_section (d_w d) x) L [] (g_o g) (g_r g)
                (NInv_set_section _ _ _ x (a_ni _ _ _ Hi)) (a_an _ _ _ Hi) (vec0_ok _ _ _ vec) Hwf Hrd Hh HhL) as P.
  destruct (add_rrset_loop (resolve_hint (d_regs d) h) n ty cl (ttl_from ttl) rds (if vec then Some [] else None) 0
                   (set_section (d_w d) x)) as [[[v' k] w2]|[e w2]|]; simpl in P; cbn [bind] in E.
  - destruct (65535 <? N.of_nat k)%N; [discriminate|].
    destruct (checked_add16 (sec_count s w2) (N.of_nat k)); discriminate.
  - inversion E; subst e. destruct P as [[_ K]|[K _]]; [exact K|discriminate].
  - discriminate.
Qed.

Theorem question_no_spurious d g L n qt qc d' : AInv d g L -> wf_name n ->
  step d (OAddQuestion n qt qc) = Ok (d', RErr Truncation) ->
  w_avail (d_w d) < w_cursor (d_w d) + length (nm_wire n) + 4.
Proof.
  intros Hi Hwf E. cbn [step] in E. unfold add_question in E.
  destruct (w_section (d_w d)); try (simpl in E; discriminate).
  destruct (checked_add16 (w_qd (d_w d)) 1) as [nq|]; [|simpl in E; discriminate].
  unfold with_rollback in E.
  pose proof (write_unhinted_L _ n (d_w d) L (a_ni _ _ _ Hi) Hwf) as P1.
  destruct (write_unhinted_name n (d_w d)) as [[pr w1]|[e w1]|]; simpl in P1; cbn [bind] in E.
  3:{ contradiction. }
  2:{ destruct P1 as [_ [_ [_ K]]]. lia. }
  destruct P1 as [W [Hsz [_ [L1 [G1 [Hi1 [HpL HT1]]]]]]]. pose proof W as [X _].
  set (w1' := if (w_qd w1 =? 0)%N then set_qname w1 pr else w1) in *.
  assert (E1 : w_cursor w1' = w_cursor w1 /\ w_avail w1' = w_avail w1)
    by (unfold w1'; destruct (w_qd w1 =? 0)%N; auto).
  destruct E1 as [Ec1 Ea1].
  pose proof (ni_nb _ _ _ Hi1) as [K1 _]. pose proof (x_av _ _ _ X) as Av.
  assert (Hnb1 : w_cursor w1' <= w_avail w1') by lia.
  clearbody w1'.
  destruct (try_push_u16 qt w1') as [[u2 w2]|[e w2]|] eqn:E2; cbn [bind] in E.
  3:{ discriminate. }
  2:{ pose proof (try_push_err_size _ _ _ _ Hnb1 E2) as K. unfold be16 in K. simpl length in K. lia. }
  destruct (try_push_ext (w_cursor w1') _ _ _ _ E2 (le_n _)) as [X2 [_ [Hc2 _]]].
  unfold be16 in Hc2. simpl length in Hc2.
  destruct (try_push_u16 qc w2) as [[u3 w3]|[e w3]|] eqn:E3; cbn [bind] in E.
  3:{ discriminate. }
  2:{ pose proof (try_push_err_size _ _ _ _ (x_cav _ _ _ X2) E3) as K. unfold be16 in K. simpl length in K.
      rewrite (x_av _ _ _ X2) in K. lia. }
  simpl in E. discriminate.
Qed.

Theorem run_writer_never_panics buf limit w0 ops : writer_new buf limit = Ok w0 ->
  run_contract (mkD w0 []) g0 ops -> exists rr, run_writer buf limit ops = Ok rr.
Proof.
  intros H0 Hc. destruct (run_writer_ok buf limit w0 ops H0 Hc) as [rr [E _]]. eauto.
Qed.

(* per name write, with the pointer target known to be a label start of an earlier name *)
Theorem hinted_into_label_starts hl h n w L : NInv w hl L -> wf_name n -> hint_contract h n w ->
  hint_in h w L ->
  match write_hinted_name h n w with
  | Ok (pr, w') => emittedL n (w_buf w') (w_cursor w) (w_cursor w') L /\
                   exists L', grew w w' L L' /\ NInv w' hl L' /\ (forall p, pr = Some p -> L' (p_ptr p)) /\
                              emittedT (exactf (w_mode w)) n (w_buf w') (w_cursor w) (w_cursor w') L L'
  | Err (e, _) => e = Truncation
  | Panic => False
  end.
Proof.
  intros Hi Hwf Hh HhL. pose proof (write_hinted_L hl h n w L Hi Hwf Hh HhL) as P.
  destruct (write_hinted_name h n w) as [[pr w']|[e w']|]; simpl in P; auto; [|apply P].
  destruct P as [_ [_ [E R]]]. auto.
Qed.

Theorem unhinted_into_label_starts hl n w L : NInv w hl L -> wf_name n ->
  match write_unhinted_name n w with
  | Ok (pr, w') => emittedL n (w_buf w') (w_cursor w) (w_cursor w') L /\
                   exists L', grew w w' L L' /\ NInv w' hl L' /\ (forall p, pr = Some p -> L' (p_ptr p)) /\
                              emittedT (exactf (w_mode w)) n (w_buf w') (w_cursor w) (w_cursor w') L L'
  | Err (e, _) => e = Truncation
  | Panic => False
  end.
Proof.
  intros Hi Hwf. pose proof (write_unhinted_L hl n w L Hi Hwf) as P.
  destruct (write_unhinted_name n w) as [[pr w']|[e w']|]; simpl in P; auto; [|apply P].
  destruct P as [_ [_ [E R]]]. auto.
Qed.
