(* Operation-level facts about the writer model, for ALL operation sequences:
   the numeric invariant (=> the message never exceeds the limit in effect) and atomicity of
   failed operations.  These need no assumption on hints or names. *)
From QV Require Import Base.ListX Model.MsgWriter Proofs.NameWireP Proofs.MsgWriterP
     Proofs.MsgWriterScanP Proofs.MsgWriterNameP.

Local Open Scope nat_scope.

(* ---------------------------------------------------------------- frames of the internal steps *)

Definition frame {A} (c0 : nat) (w : writer) (r : M A) : Prop :=
  match r with
  | Ok (_, w') => ext c0 w w'
  | Err (_, w') => ext c0 w w'
  | Panic => True
  end.

Definition pre (c0 : nat) (w : writer) : Prop := c0 <= w_cursor w /\ w_cursor w <= w_avail w.

Lemma pre_ext c0 w w' : pre c0 w -> ext c0 w w' -> pre c0 w'.
Proof. intros [H1 H2] []. split; lia. Qed.

Lemma frame_try_push c0 data w : pre c0 w -> frame c0 w (try_push data w).
Proof.
  intros [Hc Ha]. destruct (try_push data w) as [[u w1]|[e w1]|] eqn:E; simpl; auto.
  - apply (try_push_ext c0) in E; auto. apply E.
  - apply try_push_err in E as [_ ->]. apply ext_refl; auto.
Qed.

Lemma ext_set_mrn c0 w w' x : ext c0 w w' -> ext c0 w (set_mrn w' x).
Proof. intros []. constructor; auto. Qed.
Lemma ext_set_mro c0 w w' x : ext c0 w w' -> ext c0 w (set_mro w' x).
Proof. intros []. constructor; auto. Qed.
Lemma ext_set_qname c0 w w' x : ext c0 w w' -> ext c0 w (set_qname w' x).
Proof. intros []. constructor; auto. Qed.
Lemma ext_set_section c0 w w' x : ext c0 w w' -> ext c0 w (set_section w' x).
Proof. intros []. constructor; auto. Qed.

(* sequencing: the usual shape `let* (a, w1) := f w in g a w1` *)
Lemma frame_bind {A B} c0 w (r : M A) (g : A * writer -> M B) :
  pre c0 w -> frame c0 w r ->
  (forall a w1, r = Ok (a, w1) -> pre c0 w1 -> frame c0 w1 (g (a, w1))) ->
  frame c0 w (bind r g).
Proof.
  intros Hp Hr Hg. destruct r as [[a w1]|[e w1]|]; simpl in *; auto.
  specialize (Hg a w1 eq_refl (pre_ext _ _ _ Hp Hr)).
  destruct (g (a, w1)) as [[b w2]|[e w2]|]; simpl in *; auto; eapply ext_trans; eauto.
Qed.

Lemma frame_ok {A} c0 w (a : A) w' : ext c0 w w' -> frame c0 w (Ok (a, w')).
Proof. auto. Qed.

Lemma frame_uncompressed c0 n w : pre c0 w -> frame c0 w (write_uncompressed_name n w).
Proof.
  intros Hp. unfold write_uncompressed_name.
  apply frame_bind; [assumption|apply frame_try_push; assumption|].
  intros [] w1 _ Hp1. simpl. apply ext_refl. apply Hp1.
Qed.

Lemma frame_push_u16 c0 v w : pre c0 w -> frame c0 w (try_push_u16 v w).
Proof. apply frame_try_push. Qed.

Lemma frame_tail c0 n w cs : pre c0 w -> frame c0 w (compressed_tail n w cs).
Proof.
  intros Hp. unfold compressed_tail.
  destruct (longest_match cs) as [[sc pp]|]; [|apply frame_uncompressed; auto].
  destruct (sc =? 0).
  - apply frame_bind; [assumption|apply frame_push_u16; assumption|].
    intros [] w1 _ Hp1. simpl. apply ext_refl. apply Hp1.
  - destruct (nm_wire_to n sc); simpl; auto.
    apply frame_bind; [assumption|apply frame_try_push; assumption|].
    intros [] w1 _ Hp1.
    apply frame_bind; [assumption|apply frame_push_u16; assumption|].
    intros [] w2 _ Hp2. simpl. apply ext_refl. apply Hp2.
Qed.

Lemma frame_compressed c0 n w : pre c0 w -> frame c0 w (write_compressed_unhinted_name n w).
Proof.
  intros Hp. rewrite write_compressed_unfold.
  assert (G : frame c0 w
    (let* (cs, _) := lift (let* c1 := opt_build (w_buf w) (nm_len n) (or_else (w_mro w) (w_qname w)) in
                           let* c2 := opt_build (w_buf w) (nm_len n) (w_mrn w) in
                           scan (w_buf w) (cpflag (w_mode w)) 0 n (c1, c2)) w in
     compressed_tail n w cs)).
  { match goal with |- context [lift ?X _] => destruct X as [cs|e|] end; simpl; auto.
    - apply frame_tail; auto.
    - apply ext_refl. apply Hp. }
  destruct (or_else (w_mro w) (w_qname w)); [exact G|].
  destruct (w_mrn w); [exact G|apply frame_uncompressed; auto].
Qed.

Lemma frame_unhinted c0 n w : pre c0 w -> frame c0 w (write_unhinted_name n w).
Proof.
  intros Hp. unfold write_unhinted_name.
  destruct (w_mode w); try destruct (2 <? length (nm_wire n));
    first [apply frame_compressed; auto|apply frame_uncompressed; auto].
Qed.

Lemma frame_push_prior c0 pr w : pre c0 w -> frame c0 w (push_prior_ptr pr w).
Proof.
  intros Hp. unfold push_prior_ptr.
  apply frame_bind; [assumption|apply frame_push_u16; assumption|].
  intros [] w1 _ Hp1. simpl. apply ext_refl. apply Hp1.
Qed.

Lemma frame_hinted c0 h n w : pre c0 w -> frame c0 w (write_hinted_name h n w).
Proof.
  intros Hp. unfold write_hinted_name.
  destruct (w_mode w); try destruct (length (nm_wire n) <=? 2);
    try (apply frame_uncompressed; auto); try (apply frame_compressed; auto).
  destruct h.
  - destruct (w_qname w); [apply frame_push_prior|apply frame_compressed]; auto.
  - destruct (w_mro w); [apply frame_push_prior|apply frame_compressed]; auto.
  - destruct (w_mrn w); [apply frame_push_prior|apply frame_compressed]; auto.
  - destruct (p <? w_cursor w); [apply frame_push_prior|apply frame_compressed]; auto.
  - apply frame_compressed; auto.
Qed.

Lemma frame_components c0 : forall cts rdata v w, pre c0 w ->
  frame c0 w (write_components cts rdata v w).
Proof.
  induction cts as [|ct rest IH]; intros rdata v w Hp; simpl.
  - destruct (length rdata =? 0); [simpl; apply ext_refl; apply Hp|].
    apply frame_bind; [assumption|apply frame_try_push; assumption|].
    intros [] w1 _ Hp1. simpl. apply ext_refl. apply Hp1.
  - assert (Hname : forall (wr : wname -> writer -> M (option prior)),
               (forall n w, pre c0 w -> frame c0 w (wr n w)) ->
               frame c0 w
                 match parse_uncompressed_name rdata false with
                 | Ok (nm, len) =>
                   let n := labels_of_name nm in
                   let* (pr, w1) := wr n w in
                   let w2 := set_mrn w1 pr in
                   write_components rest (skipn len rdata) (hv_push v pr) w2
                 | Err _ => Err (InvalidRdata, w)
                 | Panic => Panic
                 end).
    { intros wr Hwr. destruct (parse_uncompressed_name rdata false) as [[nm len]|e|]; simpl; auto.
      - apply frame_bind; auto.
        intros pr w1 _ Hp1. simpl.
        assert (Hp2 : pre c0 (set_mrn w1 pr)) by (destruct Hp1; split; auto).
        specialize (IH (skipn len rdata) (hv_push v pr) (set_mrn w1 pr) Hp2).
        destruct (write_components rest (skipn len rdata) (hv_push v pr) (set_mrn w1 pr)) as [[a w3]|[e w3]|];
          simpl in *; auto.
        + constructor; destruct IH; auto.
        + constructor; destruct IH; auto.
      - apply ext_refl. apply Hp. }
    destruct ct as [| |k].
    + apply (Hname write_unhinted_name). intros; apply frame_unhinted; auto.
    + apply (Hname write_uncompressed_name). intros; apply frame_uncompressed; auto.
    + destruct (length rdata <? k); [simpl; apply ext_refl; apply Hp|].
      apply frame_bind; [assumption|apply frame_try_push; assumption|].
      intros [] w1 _ Hp1. apply IH; auto.
Qed.

Lemma w_write_inv w pos data w' : w_write w pos data = Ok w' ->
  exists b', buf_write (w_buf w) pos data = Some b' /\ w' = set_buf w b'.
Proof.
  unfold w_write. destruct (buf_write (w_buf w) pos data) as [b'|]; [|discriminate].
  intros H; inversion H; eauto.
Qed.

Lemma frame_add_rr c0 h owner ty cl ttl rd v w : pre c0 w ->
  frame c0 w (add_rr h owner ty cl ttl rd v w).
Proof.
  intros Hp. unfold add_rr.
  apply frame_bind; [assumption|apply frame_hinted; assumption|].
  intros pr w1 _ Hp1. cbn beta iota.
  assert (Hp1' : pre c0 (set_mro w1 pr)) by (destruct Hp1; split; auto).
  assert (X1 : ext c0 w1 (set_mro w1 pr)) by (apply ext_set_mro, ext_refl; apply Hp1).
  cut (frame c0 (set_mro w1 pr)
        (let* (_, w2) := try_push_u16 ty (set_mro w1 pr) in
         let* (_, w3) := try_push_u16 cl w2 in
         let* (_, w4) := try_push_u32 ttl w3 in
         if w_avail w4 <? w_cursor w4 then Panic
         else if w_avail w4 - w_cursor w4 <? 2 then Err (Truncation, w4)
         else
           let rdlength_start := w_cursor w4 in
           let w5 := set_cursor w4 (w_cursor w4 + 2) in
           let* (v', w6) := write_components (component_types cl ty) rd v w5 in
           if w_cursor w6 <? rdlength_start + 2 then Panic
           else
             let rdlength := w_cursor w6 - rdlength_start - 2 in
             let* (w7, _) := lift (w_write w6 rdlength_start (be16 (N.of_nat rdlength mod 65536))) w6 in
             Ok (v', w7))).
  { intros F. destruct (let* (_, w2) := try_push_u16 ty (set_mro w1 pr) in _) as [[a wz]|[e wz]|];
      simpl in *; auto; eapply ext_trans; eauto. }
  apply frame_bind; [assumption|apply frame_push_u16; assumption|].
  intros [] w2 _ Hp2.
  apply frame_bind; [assumption|apply frame_push_u16; assumption|].
  intros [] w3 _ Hp3.
  apply frame_bind; [assumption|apply frame_try_push; assumption|].
  intros [] w4 _ Hp4. cbn beta iota.
  destruct (w_avail w4 <? w_cursor w4); [exact I|].
  destruct (w_avail w4 - w_cursor w4 <? 2) eqn:E2; [simpl; apply ext_refl; apply Hp4|].
  apply Nat.ltb_ge in E2. cbn zeta.
  assert (X5 : ext c0 w4 (set_cursor w4 (w_cursor w4 + 2))).
  { constructor; simpl; auto; try lia. apply agree_refl. }
  assert (Hp5 : pre c0 (set_cursor w4 (w_cursor w4 + 2))) by (eapply pre_ext; eauto).
  pose proof (frame_components c0 (component_types cl ty) rd v _ Hp5) as F6.
  destruct (write_components (component_types cl ty) rd v (set_cursor w4 (w_cursor w4 + 2)))
    as [[v' w6]|[e w6]|]; simpl in *; auto; [|eapply ext_trans; eauto].
  destruct (w_cursor w6 <? w_cursor w4 + 2) eqn:E3; [exact I|].
  unfold lift. destruct (w_write w6 (w_cursor w4) _) as [w7|e|] eqn:E7; simpl; auto.
  - apply w_write_inv in E7 as [b' [Hb ->]].
    eapply ext_trans; [exact X5|]. eapply ext_trans; [exact F6|].
    constructor; simpl; auto; try (destruct F6; simpl in *; lia).
    + eapply buf_write_length; eauto.
    + eapply buf_write_agree; eauto. destruct Hp4; lia.
  - eapply ext_trans; eauto.
Qed.

Lemma frame_rrset_loop c0 : forall rds h owner ty cl ttl v k w, pre c0 w ->
  frame c0 w (add_rrset_loop h owner ty cl ttl rds v k w).
Proof.
  induction rds as [|rd rest IH]; intros h owner ty cl ttl v k w Hp; simpl.
  - apply ext_refl. apply Hp.
  - apply frame_bind; [assumption|apply frame_add_rr; assumption|].
    intros v' w1 _ Hp1. apply IH; auto.
Qed.

(* ---------------------------------------------------------------- the numeric invariant *)

Definition resv (w : writer) : nat :=
  (if w_edns w then opt_record_size else 0) + match w_tsig w with Some t => t_reserved t | None => 0 end.

Record Inv_n (w : writer) : Prop := mkInv {
  i_hdr : header_size <= w_rr_start w;
  i_rs : w_rr_start w <= w_cursor w;
  i_cur : w_cursor w <= w_avail w;
  i_av : w_avail w + resv w = w_limit w;
  i_lim : w_limit w <= length (w_buf w) }.

Lemma inv_ext c0 w w' : Inv_n w -> ext c0 w w' -> Inv_n w'.
Proof.
  intros [h1 h2 h3 h4 h5] X.
  pose proof (x_len _ _ _ X). pose proof (x_lim _ _ _ X). pose proof (x_av _ _ _ X).
  pose proof (x_rs _ _ _ X). pose proof (x_cur _ _ _ X). pose proof (x_cav _ _ _ X).
  constructor; try lia.
  unfold resv in *. rewrite (x_edns _ _ _ X), (x_tsig _ _ _ X). lia.
Qed.

Lemma inv_pre w : Inv_n w -> pre (w_cursor w) w.
Proof. intros []. split; lia. Qed.

(* everything a caller can observe of the writer, except octets at or above the cursor *)
Record obs_eq (w w' : writer) : Prop := mkObs {
  o_buf : agree (w_cursor w) (w_buf w) (w_buf w');
  o_len : length (w_buf w') = length (w_buf w);
  o_cur : w_cursor w' = w_cursor w; o_lim : w_limit w' = w_limit w; o_av : w_avail w' = w_avail w;
  o_rs : w_rr_start w' = w_rr_start w; o_sec : w_section w' = w_section w;
  o_qd : w_qd w' = w_qd w; o_an : w_an w' = w_an w; o_ns : w_ns w' = w_ns w; o_ar : w_ar w' = w_ar w;
  o_qn : w_qname w' = w_qname w; o_mro : w_mro w' = w_mro w; o_mrn : w_mrn w' = w_mrn w;
  o_mode : w_mode w' = w_mode w; o_edns : w_edns w' = w_edns w; o_tsig : w_tsig w' = w_tsig w }.

Lemma obs_eq_refl w : obs_eq w w.
Proof. constructor; auto. apply agree_refl. Qed.

Lemma obs_eq_inv w w' : Inv_n w -> obs_eq w w' -> Inv_n w'.
Proof.
  intros [h1 h2 h3 h4 h5] X.
  pose proof (o_len _ _ X). pose proof (o_lim _ _ X). pose proof (o_av _ _ X).
  pose proof (o_rs _ _ X). pose proof (o_cur _ _ X).
  constructor; try lia. unfold resv in *. rewrite (o_edns _ _ X), (o_tsig _ _ X). lia.
Qed.

(* with_rollback: a failure is observably a no-op, a success extends *)
Lemma rollback_spec {A} (f : writer -> M A) w : Inv_n w ->
  frame (w_cursor w) w (f w) ->
  match with_rollback f w with
  | Ok (_, w') => ext (w_cursor w) w w'
  | Err (_, w') => obs_eq w w'
  | Panic => True
  end.
Proof.
  intros Hi F. unfold with_rollback. destruct (f w) as [[a w1]|[e w1]|]; simpl in *; auto.
  destruct F. constructor; simpl; auto.
Qed.

Lemma frame_change_section c0 s w : pre c0 w -> frame c0 w (change_section s w).
Proof.
  intros Hp. unfold change_section.
  destruct s; destruct (w_section w); simpl; try (apply ext_refl; apply Hp);
    apply ext_set_section, ext_refl; apply Hp.
Qed.

Lemma ext_set_counts c0 w w' qd an ns ar : ext c0 w w' ->
  ext c0 (set_counts w (w_qd w) (w_an w) (w_ns w) (w_ar w)) (set_counts w' qd an ns ar) -> True.
Proof. auto. Qed.

Lemma frame_section_rr_body c0 s h owner ty cl ttl rd v w : pre c0 w ->
  match (let* (_, w1) := change_section s w in
         let* (v', w2) := add_rr h owner ty cl ttl rd v w1 in
         match checked_add16 (sec_count s w2) 1 with
         | Some c => Ok (v', set_sec_count s w2 c)
         | None => Err (CountOverflow, w2)
         end) with
  | Ok (_, w') => Inv_n w -> Inv_n w'
  | Err (_, w') => ext c0 w w'
  | Panic => True
  end.
Proof.
  intros Hp.
  pose proof (frame_change_section c0 s w Hp) as F1.
  destruct (change_section s w) as [[[] w1]|[e w1]|]; simpl in *; auto.
  pose proof (frame_add_rr c0 h owner ty cl ttl rd v w1 (pre_ext _ _ _ Hp F1)) as F2.
  destruct (add_rr h owner ty cl ttl rd v w1) as [[v' w2]|[e w2]|]; simpl in *; auto;
    [|eapply ext_trans; eauto].
  pose proof (ext_trans _ _ _ _ F1 F2) as X.
  destruct (checked_add16 (sec_count s w2) 1); simpl; auto.
  intros Hi. pose proof (inv_ext _ _ _ Hi X) as [].
  destruct s; constructor; simpl; auto.
Qed.

Lemma frame_section_rrset_body c0 s h owner ty cl ttl rds v w : pre c0 w ->
  match (let* (_, w1) := change_section s w in
         let* (r, w2) := add_rrset_loop h owner ty cl ttl rds v 0 w1 in
         let '(v', n_added) := r in
         if (65535 <? N.of_nat n_added)%N then Err (CountOverflow, w2)
         else match checked_add16 (sec_count s w2) (N.of_nat n_added) with
              | Some c => Ok (v', set_sec_count s w2 c)
              | None => Err (CountOverflow, w2)
              end) with
  | Ok (_, w') => Inv_n w -> Inv_n w'
  | Err (_, w') => ext c0 w w'
  | Panic => True
  end.
Proof.
  intros Hp.
  pose proof (frame_change_section c0 s w Hp) as F1.
  destruct (change_section s w) as [[[] w1]|[e w1]|]; simpl in *; auto.
  pose proof (frame_rrset_loop c0 rds h owner ty cl ttl v 0 w1 (pre_ext _ _ _ Hp F1)) as F2.
  destruct (add_rrset_loop h owner ty cl ttl rds v 0 w1) as [[[v' k] w2]|[e w2]|]; simpl in *; auto;
    [|eapply ext_trans; eauto].
  pose proof (ext_trans _ _ _ _ F1 F2) as X.
  destruct (65535 <? N.of_nat k)%N; simpl; auto.
  destruct (checked_add16 (sec_count s w2) (N.of_nat k)); simpl; auto.
  intros Hi. pose proof (inv_ext _ _ _ Hi X) as [].
  destruct s; constructor; simpl; auto.
Qed.
