(* Operation-level facts about the writer model, for ALL operation sequences:
   the numeric invariant (=> the message never exceeds the limit in effect) and atomicity of
   failed operations.  These need no assumption on hints or names. *)
From QV Require Import Base.ListX Model.MsgWriter Proofs.NameWireP Proofs.MsgWriterP
     Proofs.MsgWriterScanP Proofs.MsgWriterNameP.

Local Open Scope nat_scope.

(* ---------------------------------------------------------------- frames of the internal steps *)

Definition frame {A} (c0 : nat) (w : writer) (r : M A) : Prop :=
  match r with
  | Ok (_, w') => ext c0 w w'
  | Err (_, w') => ext c0 w w'
  | Panic => True
  end.

Definition pre (c0 : nat) (w : writer) : Prop := c0 <= w_cursor w /\ w_cursor w <= w_avail w.

Lemma pre_ext c0 w w' : pre c0 w -> ext c0 w w' -> pre c0 w'.
Proof. intros [H1 H2] []. split; lia. Qed.

Lemma frame_try_push c0 data w : pre c0 w -> frame c0 w (try_push data w).
Proof.
  intros [Hc Ha]. destruct (try_push data w) as [[u w1]|[e w1]|] eqn:E; simpl; auto.
  - apply (try_push_ext c0) in E; auto. apply E.
  - apply try_push_err in E as [_ ->]. apply ext_refl; auto.
Qed.

Lemma ext_set_mrn c0 w w' x : ext c0 w w' -> ext c0 w (set_mrn w' x).
Proof. intros []. constructor; auto. Qed.
Lemma ext_set_mro c0 w w' x : ext c0 w w' -> ext c0 w (set_mro w' x).
Proof. intros []. constructor; auto. Qed.
Lemma ext_set_qname c0 w w' x : ext c0 w w' -> ext c0 w (set_qname w' x).
Proof. intros []. constructor; auto. Qed.
Lemma ext_set_section c0 w w' x : ext c0 w w' -> ext c0 w (set_section w' x).
Proof. intros []. constructor; auto. Qed.

(* sequencing: the usual shape `let* (a, w1) := f w in g a w1` *)
Lemma frame_bind {A B} c0 w (r : M A) (g : A * writer -> M B) :
  pre c0 w -> frame c0 w r ->
  (forall a w1, r = Ok (a, w1) -> pre c0 w1 -> frame c0 w1 (g (a, w1))) ->
  frame c0 w (bind r g).
Proof.
  intros Hp Hr Hg. destruct r as [[a w1]|[e w1]|]; simpl in *; auto.
  specialize (Hg a w1 eq_refl (pre_ext _ _ _ Hp Hr)).
  destruct (g (a, w1)) as [[b w2]|[e w2]|]; simpl in *; auto; eapply ext_trans; eauto.
Qed.

Lemma frame_ok {A} c0 w (a : A) w' : ext c0 w w' -> frame c0 w (Ok (a, w')).
Proof. auto. Qed.

Lemma frame_uncompressed c0 n w : pre c0 w -> frame c0 w (write_uncompressed_name n w).
Proof.
  intros Hp. unfold write_uncompressed_name.
  apply frame_bind; [assumption|apply frame_try_push; assumption|].
  intros [] w1 _ Hp1. simpl. apply ext_refl. apply Hp1.
Qed.

Lemma frame_push_u16 c0 v w : pre c0 w -> frame c0 w (try_push_u16 v w).
Proof. apply frame_try_push. Qed.

Lemma frame_tail c0 n w cs : pre c0 w -> frame c0 w (compressed_tail n w cs).
Proof.
  intros Hp. unfold compressed_tail.
  destruct (longest_match cs) as [[sc pp]|]; [|apply frame_uncompressed; auto].
  destruct (sc =? 0).
  - apply frame_bind; [assumption|apply frame_push_u16; assumption|].
    intros [] w1 _ Hp1. simpl. apply ext_refl. apply Hp1.
  - destruct (nm_wire_to n sc); simpl; auto.
    apply frame_bind; [assumption|apply frame_try_push; assumption|].
    intros [] w1 _ Hp1.
    apply frame_bind; [assumption|apply frame_push_u16; assumption|].
    intros [] w2 _ Hp2. simpl. apply ext_refl. apply Hp2.
Qed.

Lemma frame_compressed c0 n w : pre c0 w -> frame c0 w (write_compressed_unhinted_name n w).
Proof.
  intros Hp. rewrite write_compressed_unfold.
  assert (G : frame c0 w
    (let* (cs, _) := lift (let* c1 := opt_build (w_buf w) (nm_len n) (or_else (w_mro w) (w_qname w)) in
                           let* c2 := opt_build (w_buf w) (nm_len n) (w_mrn w) in
                           scan (w_buf w) (cpflag (w_mode w)) 0 n (c1, c2)) w in
     compressed_tail n w cs)).
  { match goal with |- context [lift ?X _] => destruct X as [cs|e|] end; simpl; auto.
    - apply frame_tail; auto.
    - apply ext_refl. apply Hp. }
  destruct (or_else (w_mro w) (w_qname w)); [exact G|].
  destruct (w_mrn w); [exact G|apply frame_uncompressed; auto].
Qed.

Lemma frame_unhinted c0 n w : pre c0 w -> frame c0 w (write_unhinted_name n w).
Proof.
  intros Hp. unfold write_unhinted_name.
  destruct (w_mode w); try destruct (2 <? length (nm_wire n));
    first [apply frame_compressed; auto|apply frame_uncompressed; auto].
Qed.

Lemma frame_push_prior c0 pr w : pre c0 w -> frame c0 w (push_prior_ptr pr w).
Proof.
  intros Hp. unfold push_prior_ptr.
  apply frame_bind; [assumption|apply frame_push_u16; assumption|].
  intros [] w1 _ Hp1. simpl. apply ext_refl. apply Hp1.
Qed.

Lemma frame_hinted c0 h n w : pre c0 w -> frame c0 w (write_hinted_name h n w).
Proof.
  intros Hp. unfold write_hinted_name.
  destruct (w_mode w); try destruct (length (nm_wire n) <=? 2);
    try (apply frame_uncompressed; auto); try (apply frame_compressed; auto).
  destruct h.
  - destruct (w_qname w); [apply frame_push_prior|apply frame_compressed]; auto.
  - destruct (w_mro w); [apply frame_push_prior|apply frame_compressed]; auto.
  - destruct (w_mrn w); [apply frame_push_prior|apply frame_compressed]; auto.
  - destruct (p <? w_cursor w); [apply frame_push_prior|apply frame_compressed]; auto.
  - apply frame_compressed; auto.
Qed.

Lemma frame_components c0 : forall cts rdata v w, pre c0 w ->
  frame c0 w (write_components cts rdata v w).
Proof.
  induction cts as [|ct rest IH]; intros rdata v w Hp; simpl.
  - destruct (length rdata =? 0); [simpl; apply ext_refl; apply Hp|].
    apply frame_bind; [assumption|apply frame_try_push; assumption|].
    intros [] w1 _ Hp1. simpl. apply ext_refl. apply Hp1.
  - assert (Hname : forall (wr : wname -> writer -> M (option prior)),
               (forall n w, pre c0 w -> frame c0 w (wr n w)) ->
               frame c0 w
                 match parse_uncompressed_name rdata false with
                 | Ok (nm, len) =>
                   let n := labels_of_name nm in
                   let* (pr, w1) := wr n w in
                   let w2 := set_mrn w1 pr in
                   write_components rest (skipn len rdata) (hv_push v pr) w2
                 | Err _ => Err (InvalidRdata, w)
                 | Panic => Panic
                 end).
    { intros wr Hwr. destruct (parse_uncompressed_name rdata false) as [[nm len]|e|]; simpl; auto.
      - apply frame_bind; auto.
        intros pr w1 _ Hp1. simpl.
        assert (Hp2 : pre c0 (set_mrn w1 pr)) by (destruct Hp1; split; auto).
        specialize (IH (skipn len rdata) (hv_push v pr) (set_mrn w1 pr) Hp2).
        destruct (write_components rest (skipn len rdata) (hv_push v pr) (set_mrn w1 pr)) as [[a w3]|[e w3]|];
          simpl in *; auto.
        + constructor; destruct IH; auto.
        + constructor; destruct IH; auto.
      - apply ext_refl. apply Hp. }
    destruct ct as [| |k].
    + apply (Hname write_unhinted_name). intros; apply frame_unhinted; auto.
    + apply (Hname write_uncompressed_name). intros; apply frame_uncompressed; auto.
    + destruct (length rdata <? k); [simpl; apply ext_refl; apply Hp|].
      apply frame_bind; [assumption|apply frame_try_push; assumption|].
      intros [] w1 _ Hp1. apply IH; auto.
Qed.

Lemma w_write_inv w pos data w' : w_write w pos data = Ok w' ->
  exists b', buf_write (w_buf w) pos data = Some b' /\ w' = set_buf w b'.
Proof.
  unfold w_write. destruct (buf_write (w_buf w) pos data) as [b'|]; [|discriminate].
  intros H; inversion H; eauto.
Qed.

Lemma frame_add_rr c0 h owner ty cl ttl rd v w : pre c0 w ->
  frame c0 w (add_rr h owner ty cl ttl rd v w).
Proof.
  intros Hp. unfold add_rr.
  apply frame_bind; [assumption|apply frame_hinted; assumption|].
  intros pr w1 _ Hp1. cbn beta iota.
  assert (Hp1' : pre c0 (set_mro w1 pr)) by (destruct Hp1; split; auto).
  assert (X1 : ext c0 w1 (set_mro w1 pr)) by (apply ext_set_mro, ext_refl; apply Hp1).
  cut (frame c0 (set_mro w1 pr)
        (let* (_, w2) := try_push_u16 ty (set_mro w1 pr) in
         let* (_, w3) := try_push_u16 cl w2 in
         let* (_, w4) := try_push_u32 ttl w3 in
         if w_avail w4 <? w_cursor w4 then Panic
         else if w_avail w4 - w_cursor w4 <? 2 then Err (Truncation, w4)
         else
           let rdlength_start := w_cursor w4 in
           let w5 := set_cursor w4 (w_cursor w4 + 2) in
           let* (v', w6) := write_components (component_types cl ty) rd v w5 in
           if w_cursor w6 <? rdlength_start + 2 then Panic
           else
             let rdlength := w_cursor w6 - rdlength_start - 2 in
             let* (w7, _) := lift (w_write w6 rdlength_start (be16 (N.of_nat rdlength mod 65536))) w6 in
             Ok (v', w7))).
  { intros F. destruct (let* (_, w2) := try_push_u16 ty (set_mro w1 pr) in _) as [[a wz]|[e wz]|];
      simpl in *; auto; eapply ext_trans; eauto. }
  apply frame_bind; [assumption|apply frame_push_u16; assumption|].
  intros [] w2 _ Hp2.
  apply frame_bind; [assumption|apply frame_push_u16; assumption|].
  intros [] w3 _ Hp3.
  apply frame_bind; [assumption|apply frame_try_push; assumption|].
  intros [] w4 _ Hp4. cbn beta iota.
  destruct (w_avail w4 <? w_cursor w4); [exact I|].
  destruct (w_avail w4 - w_cursor w4 <? 2) eqn:E2; [simpl; apply ext_refl; apply Hp4|].
  apply Nat.ltb_ge in E2. cbn zeta.
  assert (X5 : ext c0 w4 (set_cursor w4 (w_cursor w4 + 2))).
  { constructor; simpl; auto; try lia. apply agree_refl. }
  assert (Hp5 : pre c0 (set_cursor w4 (w_cursor w4 + 2))) by (eapply pre_ext; eauto).
  pose proof (frame_components c0 (component_types cl ty) rd v _ Hp5) as F6.
  destruct (write_components (component_types cl ty) rd v (set_cursor w4 (w_cursor w4 + 2)))
    as [[v' w6]|[e w6]|]; simpl in *; auto; [|eapply ext_trans; eauto].
  destruct (w_cursor w6 <? w_cursor w4 + 2) eqn:E3; [exact I|].
  unfold lift. destruct (w_write w6 (w_cursor w4) _) as [w7|e|] eqn:E7; simpl; auto.
  - apply w_write_inv in E7 as [b' [Hb ->]].
    eapply ext_trans; [exact X5|]. eapply ext_trans; [exact F6|].
    constructor; simpl; auto; try (destruct F6; simpl in *; lia).
    + eapply buf_write_length; eauto.
    + eapply buf_write_agree; eauto. destruct Hp4; lia.
  - eapply ext_trans; eauto.
Qed.

Lemma frame_rrset_loop c0 : forall rds h owner ty cl ttl v k w, pre c0 w ->
  frame c0 w (add_rrset_loop h owner ty cl ttl rds v k w).
Proof.
  induction rds as [|rd rest IH]; intros h owner ty cl ttl v k w Hp; simpl.
  - apply ext_refl. apply Hp.
  - apply frame_bind; [assumption|apply frame_add_rr; assumption|].
    intros v' w1 _ Hp1. apply IH; auto.
Qed.

(* ---------------------------------------------------------------- the numeric invariant *)

Definition resv (w : writer) : nat :=
  (if w_edns w then opt_record_size else 0) + match w_tsig w with Some t => t_reserved t | None => 0 end.

Record Inv_n (w : writer) : Prop := mkInv {
  i_hdr : header_size <= w_rr_start w;
  i_rs : w_rr_start w <= w_cursor w;
  i_cur : w_cursor w <= w_avail w;
  i_av : w_avail w + resv w = w_limit w;
  i_lim : w_limit w <= length (w_buf w) }.

Lemma inv_ext c0 w w' : Inv_n w -> ext c0 w w' -> Inv_n w'.
Proof.
  intros [h1 h2 h3 h4 h5] X.
  pose proof (x_len _ _ _ X). pose proof (x_lim _ _ _ X). pose proof (x_av _ _ _ X).
  pose proof (x_rs _ _ _ X). pose proof (x_cur _ _ _ X). pose proof (x_cav _ _ _ X).
  constructor; try lia.
  unfold resv in *. rewrite (x_edns _ _ _ X), (x_tsig _ _ _ X). lia.
Qed.

Lemma inv_pre w : Inv_n w -> pre (w_cursor w) w.
Proof. intros []. split; lia. Qed.

(* everything a caller can observe of the writer, except octets at or above the cursor *)
Record obs_eq (w w' : writer) : Prop := mkObs {
  o_buf : agree (w_cursor w) (w_buf w) (w_buf w');
  o_len : length (w_buf w') = length (w_buf w);
  o_cur : w_cursor w' = w_cursor w; o_lim : w_limit w' = w_limit w; o_av : w_avail w' = w_avail w;
  o_rs : w_rr_start w' = w_rr_start w; o_sec : w_section w' = w_section w;
  o_qd : w_qd w' = w_qd w; o_an : w_an w' = w_an w; o_ns : w_ns w' = w_ns w; o_ar : w_ar w' = w_ar w;
  o_qn : w_qname w' = w_qname w; o_mro : w_mro w' = w_mro w; o_mrn : w_mrn w' = w_mrn w;
  o_mode : w_mode w' = w_mode w; o_edns : w_edns w' = w_edns w; o_tsig : w_tsig w' = w_tsig w }.

Lemma obs_eq_refl w : obs_eq w w.
Proof. constructor; auto. apply agree_refl. Qed.

Lemma obs_eq_inv w w' : Inv_n w -> obs_eq w w' -> Inv_n w'.
Proof.
  intros [h1 h2 h3 h4 h5] X.
  pose proof (o_len _ _ X). pose proof (o_lim _ _ X). pose proof (o_av _ _ X).
  pose proof (o_rs _ _ X). pose proof (o_cur _ _ X).
  constructor; try lia. unfold resv in *. rewrite (o_edns _ _ X), (o_tsig _ _ X). lia.
Qed.

(* with_rollback: a failure is observably a no-op, a success extends *)
Lemma rollback_spec {A} (f : writer -> M A) w : Inv_n w ->
  frame (w_cursor w) w (f w) ->
  match with_rollback f w with
  | Ok (_, w') => ext (w_cursor w) w w'
  | Err (_, w') => obs_eq w w'
  | Panic => True
  end.
Proof.
  intros Hi F. unfold with_rollback. destruct (f w) as [[a w1]|[e w1]|]; simpl in *; auto.
  destruct F. constructor; simpl; auto.
Qed.

Lemma frame_change_section c0 s w : pre c0 w -> frame c0 w (change_section s w).
Proof.
  intros Hp. unfold change_section.
  destruct s; destruct (w_section w); simpl; try (apply ext_refl; apply Hp);
    apply ext_set_section, ext_refl; apply Hp.
Qed.

Lemma ext_set_counts c0 w w' qd an ns ar : ext c0 w w' ->
  ext c0 (set_counts w (w_qd w) (w_an w) (w_ns w) (w_ar w)) (set_counts w' qd an ns ar) -> True.
Proof. auto. Qed.

Lemma frame_section_rr_body c0 s h owner ty cl ttl rd v w : pre c0 w ->
  match (let* (_, w1) := change_section s w in
         let* (v', w2) := add_rr h owner ty cl ttl rd v w1 in
         match checked_add16 (sec_count s w2) 1 with
         | Some c => Ok (v', set_sec_count s w2 c)
         | None => Err (CountOverflow, w2)
         end) with
  | Ok (_, w') => Inv_n w -> Inv_n w'
  | Err (_, w') => ext c0 w w'
  | Panic => True
  end.
Proof.
  intros Hp.
  pose proof (frame_change_section c0 s w Hp) as F1.
  destruct (change_section s w) as [[[] w1]|[e w1]|]; simpl in *; auto.
  pose proof (frame_add_rr c0 h owner ty cl ttl rd v w1 (pre_ext _ _ _ Hp F1)) as F2.
  destruct (add_rr h owner ty cl ttl rd v w1) as [[v' w2]|[e w2]|]; simpl in *; auto;
    [|eapply ext_trans; eauto].
  pose proof (ext_trans _ _ _ _ F1 F2) as X.
  destruct (checked_add16 (sec_count s w2) 1); simpl; auto.
  intros Hi. pose proof (inv_ext _ _ _ Hi X) as [].
  destruct s; constructor; simpl; auto.
Qed.

Lemma frame_section_rrset_body c0 s h owner ty cl ttl rds v w : pre c0 w ->
  match (let* (_, w1) := change_section s w in
         let* (r, w2) := add_rrset_loop h owner ty cl ttl rds v 0 w1 in
         let '(v', n_added) := r in
         if (65535 <? N.of_nat n_added)%N then Err (CountOverflow, w2)
         else match checked_add16 (sec_count s w2) (N.of_nat n_added) with
              | Some c => Ok (v', set_sec_count s w2 c)
              | None => Err (CountOverflow, w2)
              end) with
  | Ok (_, w') => Inv_n w -> Inv_n w'
  | Err (_, w') => ext c0 w w'
  | Panic => True
  end.
Proof.
  intros Hp.
  pose proof (frame_change_section c0 s w Hp) as F1.
  destruct (change_section s w) as [[[] w1]|[e w1]|]; simpl in *; auto.
  pose proof (frame_rrset_loop c0 rds h owner ty cl ttl v 0 w1 (pre_ext _ _ _ Hp F1)) as F2.
  destruct (add_rrset_loop h owner ty cl ttl rds v 0 w1) as [[[v' k] w2]|[e w2]|]; simpl in *; auto;
    [|eapply ext_trans; eauto].
  pose proof (ext_trans _ _ _ _ F1 F2) as X.
  destruct (65535 <? N.of_nat k)%N; simpl; auto.
  destruct (checked_add16 (sec_count s w2) (N.of_nat k)); simpl; auto.
  intros Hi. pose proof (inv_ext _ _ _ Hi X) as [].
  destruct s; constructor; simpl; auto.
Qed.

(* ---------------------------------------------------------------- every operation *)

Lemma inv_set_buf w b' : Inv_n w -> length b' = length (w_buf w) -> Inv_n (set_buf w b').
Proof. intros [] H. constructor; simpl; auto; lia. Qed.

Lemma w_write_obs w pos data w' : w_write w pos data = Ok w' ->
  length (w_buf w') = length (w_buf w) /\ w_limit w' = w_limit w.
Proof.
  intros H. apply w_write_inv in H as [b' [Hb ->]]. simpl. split; auto. eapply buf_write_length; eauto.
Qed.

Lemma inv_w_write w pos data w' : Inv_n w -> w_write w pos data = Ok w' -> Inv_n w'.
Proof.
  intros Hi H. apply w_write_inv in H as [b' [Hb ->]]. apply inv_set_buf; auto.
  eapply buf_write_length; eauto.
Qed.

Lemma inv_w_modify w i f w' : Inv_n w -> w_modify w i f = Ok w' -> Inv_n w'.
Proof.
  unfold w_modify. intros Hi. destruct (nth_error (w_buf w) (N.to_nat i)); [|discriminate].
  apply inv_w_write; auto.
Qed.

Lemma inv_clear_upper w : Inv_n w -> Inv_n (clear_upper w).
Proof.
  intros []. unfold clear_upper. destruct (w_edns w) eqn:E; [|constructor; auto].
  constructor; simpl; auto. unfold resv in *. simpl. rewrite E in i_av0. exact i_av0.
Qed.

Lemma question_body_frame c0 qname qtype qclass w : pre c0 w ->
  frame c0 w (let* (pr, w1) := write_unhinted_name qname w in
              let w1 := if (w_qd w1 =? 0)%N then set_qname w1 pr else w1 in
              let* (_, w2) := try_push_u16 qtype w1 in
              try_push_u16 qclass w2).
Proof.
  intros Hp.
  apply frame_bind; [assumption|apply frame_unhinted; assumption|].
  intros pr w1 _ Hp1. cbn beta iota zeta.
  assert (X : ext c0 w1 (if (w_qd w1 =? 0)%N then set_qname w1 pr else w1)).
  { destruct (w_qd w1 =? 0)%N; [apply ext_set_qname|]; apply ext_refl; apply Hp1. }
  assert (Hp2 := pre_ext _ _ _ Hp1 X).
  cut (frame c0 (if (w_qd w1 =? 0)%N then set_qname w1 pr else w1)
         (let* (_, w2) := try_push_u16 qtype (if (w_qd w1 =? 0)%N then set_qname w1 pr else w1) in
          try_push_u16 qclass w2)).
  { intros F. destruct (let* (_, w2) := try_push_u16 qtype _ in _) as [[a wz]|[e wz]|];
      simpl in *; auto; eapply ext_trans; eauto. }
  apply frame_bind; [assumption|apply frame_push_u16; assumption|].
  intros [] w2 _ Hp3. apply frame_push_u16; auto.
Qed.

Definition step_good (d : dstate) (r : res werr (dstate * outcome)) : Prop :=
  match r with
  | Ok (d', RErr _) => obs_eq (d_w d) (d_w d')
  | Ok (d', _) => Inv_n (d_w d')
  | _ => True
  end.

Lemma of_R_good d r : Inv_n (d_w d) ->
  (forall w', r = Ok w' -> Inv_n w') -> step_good d (of_R d r).
Proof.
  intros Hi H. destruct r as [w'|e|]; simpl; auto. apply obs_eq_refl.
Qed.

Lemma of_M_good {A} d (r : M A) : Inv_n (d_w d) ->
  match r with Ok (_, w') => Inv_n w' | Err (_, w') => obs_eq (d_w d) w' | Panic => True end ->
  step_good d (of_M d r).
Proof. intros Hi H. destruct r as [[a w']|[e w']|]; simpl; auto. Qed.

Lemma of_Mv_good d vec (r : M (option hvec)) : Inv_n (d_w d) ->
  match r with Ok (_, w') => Inv_n w' | Err (_, w') => obs_eq (d_w d) w' | Panic => True end ->
  step_good d (of_Mv d vec r).
Proof. intros Hi H. destruct r as [[a w']|[e w']|]; simpl; auto. Qed.

Lemma set_limit_inv l w w' : Inv_n w -> set_limit l w = Ok w' -> Inv_n w'.
Proof.
  intros [] . unfold set_limit.
  destruct (w_limit w <=? l) eqn:E1.
  - destruct (Nat.min l (length (w_buf w)) <? w_limit w) eqn:E2; [discriminate|].
    intros H; inversion H; subst. apply Nat.ltb_ge in E2.
    constructor; simpl; auto; try lia. unfold resv in *. simpl. lia.
  - destruct (w_cursor w + w_limit w <? w_avail w); [discriminate|].
    destruct (w_limit w <? Nat.max l (w_cursor w + w_limit w - w_avail w)) eqn:E3; [discriminate|].
    destruct (w_avail w <? w_limit w - Nat.max l (w_cursor w + w_limit w - w_avail w)) eqn:E4; [discriminate|].
    intros H; inversion H; subst. apply Nat.ltb_ge in E3. apply Nat.ltb_ge in E4.
    constructor; simpl; auto; try lia. unfold resv in *. simpl. lia.
Qed.

Lemma retemplate_inv nb w w' : Inv_n w -> retemplate nb w = Ok w' -> Inv_n w'.
Proof.
  intros []. unfold retemplate.
  destruct (length (w_buf w) <? w_cursor w); [discriminate|].
  destruct (w_limit w <? w_avail w); [discriminate|].
  destruct (length nb <? w_cursor w + (w_limit w - w_avail w)) eqn:E1; [discriminate|].
  destruct (Nat.min (w_limit w) (length nb) <? w_limit w - w_avail w) eqn:E2; [discriminate|].
  destruct (length nb <? w_cursor w) eqn:E3; [discriminate|].
  intros H; inversion H; subst.
  apply Nat.ltb_ge in E1. apply Nat.ltb_ge in E2. apply Nat.ltb_ge in E3.
  constructor; simpl; auto; try lia.
  - unfold resv in *. simpl. lia.
  - rewrite app_length, firstn_length, skipn_length. lia.
Qed.

Theorem step_good_all d o : Inv_n (d_w d) -> step_good d (step d o).
Proof.
  intros Hi. pose proof (inv_pre _ Hi) as Hp.
  destruct o; cbn [step].
  - apply of_R_good; auto. intros w'. apply inv_w_write; auto.
  - apply of_R_good; auto. intros w'. apply inv_w_modify; auto.
  - apply of_R_good; auto. intros w'. apply inv_w_modify; auto.
  - apply of_R_good; auto. intros w'. apply inv_w_modify; auto.
  - apply of_R_good; auto. intros w'. apply inv_w_modify; auto.
  - apply of_R_good; auto. intros w'. apply inv_w_modify; auto.
  - apply of_R_good; auto. intros w'. apply inv_w_modify; auto.
  - apply of_R_good; auto. intros w'. unfold set_rcode.
    destruct (w_modify (d_w d) RCODE_BYTE _) as [w1|e|] eqn:E; simpl; try discriminate.
    intros H; inversion H; subst. apply inv_clear_upper. eapply inv_w_modify; eauto.
  - apply of_M_good; auto. unfold set_extended_rcode.
    destruct (w_edns (d_w d)) as [e|] eqn:Ee; [|apply obs_eq_refl].
    destruct (4095 <? v)%N; [apply obs_eq_refl|].
    unfold lift. destruct (w_modify (d_w d) RCODE_BYTE _) as [w1|e1|] eqn:E; simpl; auto.
    + pose proof (inv_w_modify _ _ _ _ Hi E) as [].
      unfold w_modify in E. destruct (nth_error (w_buf (d_w d)) (N.to_nat RCODE_BYTE)); [|discriminate].
      apply w_write_inv in E as [b' [Hb ->]].
      constructor; simpl in *; auto. unfold resv in *. simpl in *. rewrite Ee in i_av0. exact i_av0.
    + apply obs_eq_refl.
  - (* add_question *)
    apply of_M_good; auto. unfold add_question.
    destruct (w_section (d_w d)); try apply obs_eq_refl.
    destruct (checked_add16 (w_qd (d_w d)) 1); [|apply obs_eq_refl].
    match goal with |- context [with_rollback ?f _] =>
      pose proof (rollback_spec f (d_w d) Hi (question_body_frame _ n qtype qclass (d_w d) Hp)) as R;
      destruct (with_rollback f (d_w d)) as [[[] w1]|[e w1]|] end; simpl in *; auto.
    pose proof (inv_ext _ _ _ Hi R) as []. constructor; simpl; auto; lia.
  - (* add rr *)
    apply of_Mv_good; auto. unfold add_section_rr.
    pose proof (frame_section_rr_body (w_cursor (d_w d)) s (resolve_hint (d_regs d) h) n ty class
                  (ttl_from ttl) rdata (if vec then Some [] else None) (d_w d) Hp) as B.
    unfold with_rollback.
    destruct (let* (_, w1) := change_section s (d_w d) in _) as [[a w1]|[e w1]|]; simpl in *; auto.
    destruct B. constructor; simpl; auto.
  - apply of_Mv_good; auto. unfold add_section_rrset.
    pose proof (frame_section_rrset_body (w_cursor (d_w d)) s (resolve_hint (d_regs d) h) n ty class
                  (ttl_from ttl) rdatas (if vec then Some [] else None) (d_w d) Hp) as B.
    unfold with_rollback.
    destruct (let* (_, w1) := change_section s (d_w d) in _) as [[a w1]|[e w1]|]; simpl in *; auto.
    destruct B. constructor; simpl; auto.
  - apply of_R_good; auto. intros w'. apply set_limit_inv; auto.
  - simpl. destruct Hi. constructor; auto.
  - (* set_edns *)
    apply of_M_good; auto. unfold set_edns.
    destruct (w_edns (d_w d)) eqn:Ee; [apply obs_eq_refl|].
    destruct (w_avail (d_w d) <? w_cursor (d_w d) + opt_record_size) eqn:E1; [apply obs_eq_refl|].
    destruct (checked_add16 (w_ar (d_w d)) 1); [|apply obs_eq_refl].
    apply Nat.ltb_ge in E1. destruct Hi. constructor; simpl; auto; try lia.
    unfold resv in *. cbn [w_edns w_tsig set_edns_f set_avail set_limit_avail set_counts].
    rewrite Ee in i_av0. lia.
  - (* set_tsig *)
    apply of_M_good; auto. unfold set_tsig.
    destruct (w_tsig (d_w d)) eqn:Ee; [apply obs_eq_refl|].
    destruct (w_avail (d_w d) <? w_cursor (d_w d) + _) eqn:E1; [apply obs_eq_refl|].
    destruct (checked_add16 (w_ar (d_w d)) 1); [|apply obs_eq_refl].
    apply Nat.ltb_ge in E1. destruct Hi. constructor; simpl; auto; try lia.
    unfold resv in *. simpl. rewrite Ee in i_av0. lia.
  - apply of_M_good; auto. unfold update_time_signed.
    destruct (w_tsig (d_w d)) eqn:Ee; [|apply obs_eq_refl].
    destruct Hi. constructor; simpl; auto. unfold resv in *. simpl. rewrite Ee in i_av0. exact i_av0.
  - simpl. destruct Hi. constructor; simpl; auto; lia.
  - apply of_R_good; auto. intros w'. apply retemplate_inv; auto.
  - simpl. apply obs_eq_refl.
  - destruct (getters (d_w d)); simpl; auto.
Qed.

(* ---------------------------------------------------------------- whole runs *)

Lemma writer_new_inv buf limit w : writer_new buf limit = Ok w -> Inv_n w.
Proof.
  unfold writer_new.
  destruct (Nat.min limit (length buf) <? header_size) eqn:E1; [discriminate|].
  destruct (length buf <? header_size) eqn:E2; [discriminate|].
  apply Nat.ltb_ge in E1. apply Nat.ltb_ge in E2.
  assert (HL : length (repeat 0%N header_size ++ skipn header_size buf) = length buf)
    by (rewrite app_length, repeat_length, skipn_length; lia).
  generalize dependent (repeat 0%N header_size ++ skipn header_size buf). intros b0 HL H.
  injection H as <-.
  constructor; unfold resv; cbn [w_rr_start w_cursor w_avail w_limit w_buf w_edns w_tsig]; lia.
Qed.

Lemma step_inv d o d' r : Inv_n (d_w d) -> step d o = Ok (d', r) -> Inv_n (d_w d').
Proof.
  intros Hi E. pose proof (step_good_all d o Hi) as G. rewrite E in G. simpl in G.
  destruct r; auto. eapply obs_eq_inv; eauto.
Qed.

Lemma run_inv : forall ops d d' outs alive, Inv_n (d_w d) ->
  run d ops = Ok (d', outs, alive) -> Inv_n (d_w d').
Proof.
  induction ops as [|o rest IH]; intros d d' outs alive Hi; simpl.
  - intros H; inversion H; subst; auto.
  - destruct (step d o) as [[d1 r]|e|] eqn:E; simpl; try discriminate.
    pose proof (step_inv _ _ _ _ Hi E) as Hi1.
    destruct (stops o r); [intros H; inversion H; subst; auto|].
    destruct (run d1 rest) as [[[d2 rs] al]|e|] eqn:E2; simpl; try discriminate.
    intros H; inversion H; subst. eapply IH; eauto.
Qed.

Lemma unwrap_frame {A} c0 w (r : M A) w' : unwrap_w r = Ok w' -> frame c0 w r -> ext c0 w w'.
Proof. destruct r as [[a w1]|[e w1]|]; simpl; try discriminate. intros H; inversion H; subst; auto. Qed.

Lemma finish_gen_limit f w len b : Inv_n w -> finish_gen f w = Ok (len, b) ->
  len <= w_limit w /\ length b = length (w_buf w).
Proof.
  intros Hi. unfold finish_gen.
  destruct (w_write w (N.to_nat QDCOUNT_START) _) as [w1|e|] eqn:E1; cbn [bind]; try discriminate.
  destruct (w_write w1 (N.to_nat ANCOUNT_START) _) as [w2|e|] eqn:E2; cbn [bind]; try discriminate.
  destruct (w_write w2 (N.to_nat NSCOUNT_START) _) as [w3|e|] eqn:E3; cbn [bind]; try discriminate.
  destruct (w_write w3 (N.to_nat ARCOUNT_START) _) as [w4|e|] eqn:E4; cbn [bind]; try discriminate.
  pose proof (inv_w_write _ _ _ _ Hi E1) as I1. pose proof (inv_w_write _ _ _ _ I1 E2) as I2.
  pose proof (inv_w_write _ _ _ _ I2 E3) as I3. pose proof (inv_w_write _ _ _ _ I3 E4) as I4.
  assert (Hsame : w_limit w4 = w_limit w /\ length (w_buf w4) = length (w_buf w)).
  { apply w_write_obs in E1 as [L1 M1]. apply w_write_obs in E2 as [L2 M2].
    apply w_write_obs in E3 as [L3 M3]. apply w_write_obs in E4 as [L4 M4]. split; congruence. }
  destruct Hsame as [HL HB]. rewrite <- HL, <- HB. clear E1 E2 E3 E4 I1 I2 I3 HL HB Hi.
  destruct I4 as [h1 h2 h3 h4 h5]. unfold resv in h4.
  (* OPT *)
  assert (Hopt : forall w5,
    match w_edns w4 with
    | Some e => unwrap_w (add_rr HNone [] TYPE_OPT (e_udp e) (f (e_upper e * 16777216)%N) [] None
                                 (set_avail w4 (w_avail w4 + opt_record_size)))
    | None => Ok w4 end = Ok w5 ->
    w_cursor w5 + match w_tsig w5 with Some t => t_reserved t | None => 0 end <= w_limit w4
    /\ w_cursor w5 <= w_avail w5 /\ w_limit w5 = w_limit w4 /\ length (w_buf w5) = length (w_buf w4)
    /\ w_avail w5 + match w_tsig w5 with Some t => t_reserved t | None => 0 end = w_limit w4).
  { intros w5. destruct (w_edns w4) as [e|] eqn:Ee.
    - intros U.
      assert (Hp : pre 0 (set_avail w4 (w_avail w4 + opt_record_size)))
        by (split; cbn [w_avail w_cursor set_avail set_limit_avail]; lia).
      pose proof (unwrap_frame 0 _ _ _ U (frame_add_rr 0 _ _ _ _ _ _ _ _ Hp)) as X.
      pose proof (x_cav _ _ _ X). pose proof (x_av _ _ _ X). pose proof (x_lim _ _ _ X).
      pose proof (x_len _ _ _ X). rewrite (x_tsig _ _ _ X).
      cbn [w_avail w_limit w_tsig w_buf w_cursor set_avail set_limit_avail] in *. repeat split; lia.
    - intros U; inversion U; subst. repeat split; lia. }
  destruct (match w_edns w4 with Some e => _ | None => Ok w4 end) as [w5|e|] eqn:E5; simpl; try discriminate.
  destruct (Hopt w5 eq_refl) as [A1 [A2 [A3 [A4 A5]]]].
  destruct (w_tsig w5) as [t|] eqn:Et.
  - destruct (unwrap_w _) as [w6|e|] eqn:E6; simpl; try discriminate.
    intros H; inversion H; subst.
    assert (Hp : pre 0 (set_avail (set_tsig_f w5 None) (w_avail w5 + t_reserved t)))
      by (split; cbn [w_avail w_cursor set_avail set_limit_avail set_tsig_f]; lia).
    pose proof (unwrap_frame 0 _ _ _ E6 (frame_add_rr 0 _ _ _ _ _ _ _ _ Hp)) as X.
    pose proof (x_cav _ _ _ X). pose proof (x_av _ _ _ X). pose proof (x_len _ _ _ X).
    cbn [w_avail w_limit w_tsig w_buf w_cursor set_avail set_limit_avail set_tsig_f] in *. split; lia.
  - intros H; inversion H; subst. split; lia.
Qed.

Theorem run_writer_limit f buf limit ops rr len b :
  run_writer_gen f buf limit ops = Ok rr -> rr_final rr = Some (len, b) ->
  (forall w l b', Inv_n w -> f w = Ok (l, b') -> l <= w_limit w /\ length b' = length (w_buf w)) ->
  exists w0 d outs, writer_new buf limit = Ok w0 /\ run (mkD w0 []) ops = Ok (d, outs, true)
    /\ Inv_n (d_w d) /\ len <= w_limit (d_w d) /\ w_limit (d_w d) <= length b.
Proof.
  unfold run_writer_gen. intros H Hf Hfin.
  destruct (writer_new buf limit) as [w0|e|] eqn:E0; simpl in H; try discriminate.
  destruct (run (mkD w0 []) ops) as [[[d outs] alive]|e|] eqn:E1; simpl in H; try discriminate.
  pose proof (run_inv ops (mkD w0 []) d outs alive (writer_new_inv _ _ _ E0) E1) as Hi.
  destruct alive.
  - destruct (f (d_w d)) as [[l b']|e|] eqn:E2; simpl in H; try discriminate.
    inversion H; subst. simpl in Hf. inversion Hf; subst.
    destruct (Hfin _ _ _ Hi E2) as [L1 L2].
    exists w0, d, outs. split; [reflexivity|]. split; [exact E1|]. split; [exact Hi|].
    split; [exact L1|]. rewrite L2. apply Hi.
  - inversion H; subst. simpl in Hf. discriminate.
Qed.
