(* Composition, part 8 (C02): the octets respond_w returns are a well-formed response
   (Spec/RespS.v: wf_response), for every zone whose RDATA is valid for its type.
     - the response is the final result of run_writer on pre_ops ++ (the operations of the query phase),
       a contract-obeying sequence (prepare_Reach, handle_S);
     - c12_roundtrip: the RFC 1035 decoder reads back the abstract message of the succeeded operations;
     - every record of that abstract message is a record of the zone ([Good], threaded through the
       replay with the per-operation predicate Pop2), so its RDATA is valid ([zone_rdata_valid]) and is not
       an OPT/TSIG; validity survives the round trip (rdata_valid_roundtrip);
     - QR is set, there is no TSIG and at most the one OPT of the EDNS setting. *)
From QV Require Import Base.ListX Gen.Consts Model.NameWire Model.MsgWriter Model.ZoneTree
  Spec.ZoneLookupS Proofs.ZoneInvP Model.Query Model.QueryW
  Spec.NameWireS Spec.MsgWriterS Spec.MsgWriterAbsS Spec.RdataFormatS Spec.RespS
  Proofs.MsgWriterP Proofs.MsgWriterScanP Proofs.MsgWriterNameP Proofs.MsgWriterInvP Proofs.MsgWriterOpP
  Proofs.MsgWriterStepP Proofs.MsgWriterDecP Proofs.MsgWriterHdrP Proofs.MsgWriterRtP
  Proofs.ComposeTraceP Proofs.ComposeWfP Proofs.ComposeNameP Proofs.ComposeKeyP Proofs.ComposeTopP Proofs.ComposeRdataP.
Local Open Scope nat_scope.

(* ---------------------------------------------------------------- the preparation, explicitly *)

Definition pre_ops (tcp : bool) (id : N) (rd : bool) (qname : wname) (qtype qclass : N) (edns : option N) (limit : nat)
  : list wop :=
  [OSetId id; OSetQr true; OSetOpcode 0; OSetRd rd; OAddQuestion qname qtype qclass] ++
  match edns with None => [] | Some size => OSetEdns size :: (if tcp then [] else [OSetLimit limit]) end.

Definition g_prepared (qname : wname) : gn := mkGn (Some qname) None None [].

Section Prep2.
Variable Pop : wop -> Prop.
Hypothesis Hpop_hdr : forall o, match o with
  | OSetId _ | OSetQr true | OSetOpcode _ | OSetRd _ | OAddQuestion _ _ _ | OSetEdns _ | OSetLimit _ => Pop o
  | _ => True end.

Lemma Reach_AInv d g ops outs d' g' : Reach Pop d g ops outs d' g' -> forall L, AInv d g L -> exists L', AInv d' g' L'.
Proof.
  induction 1 as [d g|d g o d1 r ops outs d' g' [W1 _] Hc Hs Hst _ IH]; intros L Hi; [eauto|].
  pose proof (step_ok_all d g L o Hi W1 Hc) as S. unfold step_ok in S. rewrite Hs in S. destruct S as [L1 H1]. eauto.
Qed.

Theorem prepare_Reach buf tcp id rd qname qtype qclass edns limit w :
  prepare_w buf tcp id rd qname qtype qclass edns limit = Some w ->
  good_name qname -> (id < 65536)%N -> (qtype < 65536)%N -> (qclass < 65536)%N ->
  (forall s, edns = Some s -> (s < 65536)%N) ->
  exists w0, writer_new buf (if tcp then tcp_limit_w else udp_limit_w) = Ok w0 /\
    Reach Pop (mkD w0 []) g0 (pre_ops tcp id rd qname qtype qclass edns limit)
          (map (fun _ => RUnit) (pre_ops tcp id rd qname qtype qclass edns limit)) (mkD w []) (g_prepared qname).
Proof.
  intros H [Gn1 Gn2] Hid Hqt Hqc Hed. unfold prepare_w in H.
  destruct (writer_new buf (if tcp then tcp_limit_w else udp_limit_w)) as [w0| |] eqn:E0; try discriminate.
  exists w0. split; [reflexivity|].
  assert (Hqd0 : w_qd w0 = 0%N).
  { unfold writer_new in E0. destruct (_ <? _); [discriminate|]. destruct (_ <? _); [discriminate|]. inversion E0. reflexivity. }
  destruct (set_id id w0) as [w1|e|] eqn:E1; cbn [bind] in H; try discriminate.
  destruct (set_qr true w1) as [w2|e|] eqn:E2; cbn [bind] in H; try discriminate.
  destruct (set_opcode 0 w2) as [w3|e|] eqn:E3; cbn [bind] in H; try discriminate.
  destruct (set_rd rd w3) as [w4|e|] eqn:E4; cbn [bind] in H; try discriminate.
  destruct (add_question qname qtype qclass w4) as [[u5 w5]|e|] eqn:E5; try discriminate.
  assert (Hqd4 : w_qd w4 = 0%N).
  { unfold set_id in E1. unfold set_qr, set_rd, w_set_flag, set_opcode in *.
    rewrite (w_modify_qd _ _ _ _ E4), (w_modify_qd _ _ _ _ E3), (w_modify_qd _ _ _ _ E2), (w_write_qd _ _ _ _ E1). exact Hqd0. }
  unfold pre_ops. cbn [app map].
  eapply (R_cons Pop _ _ (OSetId id) (mkD w1 []) RUnit); [okk (Hpop_hdr (OSetId id))|exact I|cbn [step d_w]; rewrite E1; reflexivity|reflexivity|].
  cbn [gstep].
  eapply (R_cons Pop _ _ (OSetQr true) (mkD w2 []) RUnit); [okk (Hpop_hdr (OSetQr true))|exact I|cbn [step d_w]; rewrite E2; reflexivity|reflexivity|].
  cbn [gstep].
  eapply (R_cons Pop _ _ (OSetOpcode 0) (mkD w3 []) RUnit); [okk (Hpop_hdr (OSetOpcode 0))|exact I|cbn [step d_w]; rewrite E3; reflexivity|reflexivity|].
  cbn [gstep].
  eapply (R_cons Pop _ _ (OSetRd rd) (mkD w4 []) RUnit); [okk (Hpop_hdr (OSetRd rd))|exact I|cbn [step d_w]; rewrite E4; reflexivity|reflexivity|].
  cbn [gstep].
  eapply (R_cons Pop _ _ (OAddQuestion qname qtype qclass) (mkD w5 []) RUnit);
    [okk (Hpop_hdr (OAddQuestion qname qtype qclass))|exact I|cbn [step d_w]; rewrite E5; reflexivity|reflexivity|].
  cbn [gstep d_w]. rewrite Hqd4. cbn [N.eqb g0 g_o g_r g_regs]. fold (g_prepared qname).
  destruct edns as [size|].
  2:{ inversion H; subst w5. cbn [map]. constructor. }
  destruct (set_edns size w5) as [[u6 w6]|e|] eqn:E6; try discriminate.
  assert (Hsz : op_wf (OSetEdns size)) by exact (Hed size eq_refl).
  cbn [map].
  eapply (R_cons Pop _ _ (OSetEdns size) (mkD w6 []) RUnit); [okk (Hpop_hdr (OSetEdns size))|exact I|cbn [step d_w]; rewrite E6; reflexivity|reflexivity|].
  cbn [gstep].
  destruct tcp.
  { inversion H; subst w6. cbn [map]. constructor. }
  destruct (MsgWriter.set_limit limit w6) as [w7|e|] eqn:E7; try discriminate. inversion H; subst w7.
  cbn [map].
  eapply (R_cons Pop _ _ (OSetLimit limit) (mkD w []) RUnit); [okk (Hpop_hdr (OSetLimit limit))|exact I|cbn [step d_w]; rewrite E7; reflexivity|reflexivity|].
  cbn [gstep]. constructor.
Qed.

End Prep2.

(* ---------------------------------------------------------------- what the operations write *)

Definition no_pseudo (ty : N) : Prop := ty <> 41%N /\ ty <> 250%N.

(* per operation: records carry the zone's class, octets < 256, RDATA valid for the type, no OPT/TSIG type;
   QR is only ever set; no TSIG, no change of compression mode, no templates *)
Definition Pop2 (cls : N) (o : wop) : Prop :=
  match o with
  | OAddRr _ _ _ ty cl _ rd _ => cl = cls /\ no_pseudo ty /\ wf_bytes rd /\ spec_valid cls ty rd = true
  | OAddRrset _ _ _ ty cl _ rds _ => cl = cls /\ Forall (fun rd => no_pseudo ty /\ wf_bytes rd /\ spec_valid cls ty rd = true) rds
  | OSetQr b => b = true
  | OSetMode _ | OSetTsig _ _ _ _ _ _ _ | OUpdateTime _ | OTemplate _ | OTemplateSubsequent => False
  | _ => True
  end.

Definition arr_ok (cls : N) (a : arr) : Prop :=
  ar_cl a = cls /\ no_pseudo (ar_ty a) /\ wf_bytes (ar_rd a) /\ spec_valid cls (ar_ty a) (ar_rd a) = true /\ ar_mode a = Standard.

Definition Good (cls : N) (A : amsg) (H : ahdr) : Prop :=
  h_qr H = true /\ h_tsig H = None /\ am_mode A = Standard /\
  Forall (arr_ok cls) (am_an A) /\ Forall (arr_ok cls) (am_ns A) /\ Forall (arr_ok cls) (am_ar A).

Lemma Good_add cls A H s l : Good cls A H -> Forall (arr_ok cls) l -> Good cls (add_rrs A s l) H.
Proof.
  intros (A1 & A2 & A3 & A4 & A5 & A6) Hl. destruct s; unfold add_rrs, Good; cbn; repeat split; auto; apply Forall_app; auto.
Qed.

Lemma Good_step cls A H o r : Good cls A H -> Pop2 cls o -> Good cls (astep A o r) (hstep H o r).
Proof.
  intros G P. pose proof G as (A1 & A2 & A3 & A4 & A5 & A6).
  destruct o; cbn [Pop2] in P; try contradiction; destruct r; cbn [astep hstep]; try exact G;
    try (unfold Good; cbn; repeat split; auto; fail).
  - destruct P as (-> & Hn & Hw & Hv). apply Good_add; auto. constructor; [|constructor].
    unfold arr_ok. cbn. repeat split; auto; apply Hn.
  - destruct P as (-> & Hf). apply Good_add; auto. apply Forall_forall. intros a Ha.
    apply in_map_iff in Ha as (rd & <- & Hin). rewrite Forall_forall in Hf. destruct (Hf rd Hin) as (Hn & Hw & Hv).
    unfold arr_ok. cbn. repeat split; auto; apply Hn.
Qed.

Lemma Good_replay cls : forall ops outs A H, Forall (Pop2 cls) ops -> Good cls A H ->
  Good cls (areplay A ops outs) (hreplay H ops outs).
Proof.
  induction ops as [|o ops IH]; intros outs A H Hf G; [exact G|].
  destruct outs as [|r outs]; [exact G|]. inversion Hf; subst. cbn [areplay hreplay]. apply IH; auto. apply Good_step; auto.
Qed.

Lemma areplay_app : forall a oa b ob A, length a = length oa -> areplay A (a ++ b) (oa ++ ob) = areplay (areplay A a oa) b ob.
Proof.
  induction a as [|x a IH]; intros [|y oa] b ob A Hl; simpl in Hl; try discriminate; [reflexivity|].
  cbn [app areplay]. apply IH. lia.
Qed.
Lemma hreplay_app : forall a oa b ob H, length a = length oa -> hreplay H (a ++ b) (oa ++ ob) = hreplay (hreplay H a oa) b ob.
Proof.
  induction a as [|x a IH]; intros [|y oa] b ob H Hl; simpl in Hl; try discriminate; [reflexivity|].
  cbn [app hreplay]. apply IH. lia.
Qed.

Lemma Good_prepared cls tcp id rd qname qtype qclass edns limit :
  let ops := pre_ops tcp id rd qname qtype qclass edns limit in
  Good cls (areplay am0 ops (map (fun _ => RUnit) ops)) (hreplay ah0 ops (map (fun _ => RUnit) ops)).
Proof.
  unfold pre_ops. destruct edns as [size|]; [destruct tcp|]; cbn; unfold Good; cbn; repeat split; auto.
Qed.

(* ---------------------------------------------------------------- the decoded message is well formed *)

Lemma component_types_opt u : component_types u 41 = [].
Proof. reflexivity. Qed.

Lemma rr_ok_decoded cls a d : arr_ok cls a -> rr_rel xparts a d ->
  rr_rdata_ok d = true /\ is_opt d = false /\ is_tsig d = false.
Proof.
  intros (Hc & [Hn1 Hn2] & Hw & Hv & Hm) (_ & Ht & Hcl & _ & Hp).
  assert (E1 : is_opt d = false) by (unfold is_opt; rewrite Ht; apply N.eqb_neq; exact Hn1).
  assert (E2 : is_tsig d = false) by (unfold is_tsig; rewrite Ht; apply N.eqb_neq; exact Hn2).
  split; [|split; auto]. unfold rr_rdata_ok. rewrite E1, Ht, Hcl, Hc.
  unfold ar_exact in Hp. rewrite Hm in Hp. cbn [exact_of] in Hp. unfold xparts in Hp. rewrite Hc in Hp.
  eapply rdata_valid_roundtrip; eauto.
Qed.

Lemma section_ok cls : forall As Ds, Forall (arr_ok cls) As -> Forall2 (rr_rel xparts) As Ds ->
  Forall (fun d => rr_rdata_ok d = true /\ is_opt d = false /\ is_tsig d = false) Ds.
Proof.
  induction 2 as [|a d As Ds Hr _ IH]; constructor.
  - inversion H; subst. eapply rr_ok_decoded; eauto.
  - apply IH. inversion H; auto.
Qed.

Lemma opt_decoded mode u up d : rr_rel xparts (mkAR [] mode 41 u up []) d ->
  rr_rdata_ok d = true /\ is_opt d = true /\ is_tsig d = false.
Proof.
  intros (_ & Ht & _ & _ & Hp). cbn [ar_ty] in Ht.
  assert (E1 : is_opt d = true) by (unfold is_opt; rewrite Ht; reflexivity).
  assert (E2 : is_tsig d = false) by (unfold is_tsig; rewrite Ht; reflexivity).
  split; [|split; auto]. unfold rr_rdata_ok. rewrite E1.
  unfold xparts in Hp. cbn [ar_cl ar_ty ar_rd] in Hp. rewrite component_types_opt in Hp. cbn in Hp. inversion Hp. reflexivity.
Qed.

Lemma count_none {A} (f : A -> bool) l : Forall (fun x => f x = false) l -> count f l = 0.
Proof.
  unfold count. induction 1 as [|x l Hx _ IH]; [reflexivity|]. cbn [filter]. rewrite Hx. exact IH.
Qed.
Lemma count_le {A} (f : A -> bool) l : count f l <= length l.
Proof. unfold count. induction l as [|x l IH]; simpl; [lia|]. destruct (f x); simpl; lia. Qed.
Lemma count_app {A} (f : A -> bool) a b : count f (a ++ b) = count f a + count f b.
Proof. unfold count. rewrite filter_app, app_length. reflexivity. Qed.

Lemma wf_decoded_intro m :
  qr_bit m = true ->
  Forall (fun d => rr_rdata_ok d = true /\ is_opt d = false /\ is_tsig d = false) (m_an m) ->
  Forall (fun d => rr_rdata_ok d = true /\ is_opt d = false /\ is_tsig d = false) (m_ns m) ->
  (exists xs ps, m_ar m = xs ++ ps /\
     Forall (fun d => rr_rdata_ok d = true /\ is_opt d = false /\ is_tsig d = false) xs /\
     length ps <= 1 /\ Forall (fun d => rr_rdata_ok d = true /\ is_tsig d = false) ps) ->
  wf_decoded m = true.
Proof.
  intros Hq Han Hns (xs & ps & Ear & Hxs & Hlen & Hps).
  assert (Hall : Forall (fun d => rr_rdata_ok d = true /\ is_tsig d = false) (m_ar m)).
  { rewrite Ear. apply Forall_app. split; [|exact Hps]. eapply Forall_impl; [|exact Hxs]. intros d (A & _ & B). auto. }
  unfold wf_decoded. rewrite Hq. cbn [andb].
  assert (H1 : forallb rr_rdata_ok (m_an m ++ m_ns m ++ m_ar m) = true).
  { apply forallb_forall. intros d Hd. apply in_app_or in Hd as [Hd|Hd]; [|apply in_app_or in Hd as [Hd|Hd]].
    - rewrite Forall_forall in Han. apply (Han d Hd).
    - rewrite Forall_forall in Hns. apply (Hns d Hd).
    - rewrite Forall_forall in Hall. apply (Hall d Hd). }
  rewrite H1. cbn [andb].
  assert (H2 : count is_pseudo (m_an m ++ m_ns m) = 0).
  { apply count_none. apply Forall_app. split; [eapply Forall_impl; [|exact Han]|eapply Forall_impl; [|exact Hns]];
      intros d (_ & A & B); unfold is_pseudo; rewrite A, B; reflexivity. }
  rewrite H2. cbn [Nat.eqb andb].
  assert (H3 : count is_opt (m_ar m) <= 1).
  { rewrite Ear, count_app. rewrite (count_none is_opt xs) by (eapply Forall_impl; [|exact Hxs]; intros d (_ & A & _); exact A).
    pose proof (count_le is_opt ps). lia. }
  apply Nat.leb_le in H3. rewrite H3. cbn [andb].
  assert (H4 : count is_tsig (m_ar m) = 0).
  { apply count_none. eapply Forall_impl; [|exact Hall]. intros d (_ & A). exact A. }
  rewrite H4. cbn [Nat.leb andb].
  destruct (rev (m_ar m)) as [|last before] eqn:Er; [reflexivity|].
  apply Nat.eqb_eq. apply count_none. apply Forall_forall. intros d Hd.
  assert (Hin : In d (m_ar m)) by (apply in_rev; rewrite Er; right; exact Hd).
  rewrite Forall_forall in Hall. apply (Hall d Hin).
Qed.

(* a finished contract-obeying run whose abstract message is [Good] is a well-formed response *)
Lemma run_wf cls buf lim w0 ops outs d' g' L :
  writer_new buf lim = Ok w0 -> Reach (Pop2 cls) (mkD w0 []) g0 ops outs d' g' -> AInv d' g' L ->
  Good cls (areplay am0 ops outs) (hreplay ah0 ops outs) ->
  exists len b, finish (d_w d') = Ok (len, b) /\ wf_response (firstn len b) = true.
Proof.
  intros E0 Rall Hi G.
  destruct (Reach_run _ _ _ _ _ _ _ Rall) as (Hrun & Hrc & F1 & F2 & F3 & F4 & Hlen).
  destruct (finish_ok (fun x => x) d' g' L Hi) as (wF & LF & EF & _).
  exists (w_cursor wF), (w_buf wF). split; [exact EF|].
  destruct (roundtrip_full buf _ w0 ops E0 Hrc F1 F2 F3) as (rr & Err & Hrt).
  assert (Hrr' : rr = mkRR outs (d_regs d') (Some (w_cursor wF, w_buf wF))).
  { unfold run_writer, run_writer_gen in Err. rewrite E0 in Err. cbn [bind] in Err. rewrite Hrun in Err. cbn [bind] in Err.
    unfold finish in Err. rewrite EF in Err. cbn [bind] in Err. inversion Err. reflexivity. }
  subst rr. cbn [rr_final rr_outcomes] in Hrt.
  destruct Hrt as (m & Em & Hh & _ & Han & Hns & Har & _).
  unfold wf_response. rewrite Em.
  destruct G as (G1 & G2 & G3 & G4 & G5 & G6).
  apply wf_decoded_intro.
  - unfold qr_bit. destruct Hh as (_ & Hqr & _). rewrite Hqr. exact G1.
  - exact (section_ok cls _ _ G4 Han).
  - exact (section_ok cls _ _ G5 Hns).
  - apply Forall2_app_inv_l in Har as (xs & ps & Hxs & Hps & Ear). exists xs, ps. split; [exact Ear|].
    split; [exact (section_ok cls _ _ G6 Hxs)|].
    unfold pseudo_of in Hps. rewrite G2 in Hps. rewrite app_nil_r in Hps.
    destruct (h_edns _) as [[u up]|].
    + inversion Hps as [|a d l l' Hd Hrest]; subst. inversion Hrest; subst. split; [simpl; lia|].
      constructor; [|constructor]. destruct (opt_decoded _ _ _ _ Hd) as (A & _ & B). auto.
    + inversion Hps; subst. split; [simpl; lia|constructor].
Qed.

Lemma Pop2_hdr cls : forall o, match o with
  | OSetId _ | OSetQr true | OSetOpcode _ | OSetRd _ | OAddQuestion _ _ _ | OSetEdns _ | OSetLimit _
  | OSetAa _ | OSetTc _ | OSetRcode _ | OClearRrs => Pop2 cls o
  | _ => True end.
Proof. intros o. destruct o; try exact I; try (destruct b; exact I || reflexivity). Qed.

(* a response that does not come from query answering: REFUSED / NOTIMP / SERVFAIL for a clean QUERY *)
Theorem respond_plain_wf buf tcp id rd qname qtype qclass edns limit rcode :
  512 <= length buf -> good_name qname ->
  (id < 65536)%N -> (qtype < 65536)%N -> (qclass < 65536)%N -> (forall s, edns = Some s -> (s < 65536)%N) ->
  (rcode < 16)%N ->
  exists len b, respond_plain buf tcp id rd qname qtype qclass edns limit rcode = Some (len, b) /\
                wf_response (firstn len b) = true.
Proof.
  intros Hb Gq Hid Hqt Hqc Hed Hrc. set (cls := 0%N). set (Pop := Pop2 cls).
  assert (Hhdr : forall o, match o with
    | OSetId _ | OSetQr true | OSetOpcode _ | OSetRd _ | OAddQuestion _ _ _ | OSetEdns _ | OSetLimit _ => Pop o
    | _ => True end).
  { intros o. pose proof (Pop2_hdr cls o) as H. destruct o; auto. }
  destruct (prepare_total buf tcp id rd qname qtype qclass edns limit Hb (proj2 Gq)) as (w & Ew).
  destruct (prepare_Reach Pop Hhdr buf tcp id rd qname qtype qclass edns limit w Ew Gq Hid Hqt Hqc Hed) as (w0 & E0 & Rpre).
  set (pre := pre_ops tcp id rd qname qtype qclass edns limit) in *.
  set (opre := map (fun _ : wop => RUnit) pre) in *.
  destruct (Reach_AInv Pop _ _ _ _ _ _ Rpre L0 (AInv_new _ _ _ E0)) as (Lp & Hip).
  assert (Sp : St Pop (mkD w []) (g_prepared qname) (mkD w []) (g_prepared qname)).
  { exists [], [], Lp. split; [constructor|exact Hip]. }
  destruct (St_set_rcode Pop _ _ _ _ rcode Sp Hrc (Pop2_hdr cls (OSetRcode rcode))) as (w' & Ew' & (ops2 & outs2 & L & Rq & Hi)).
  cbn [d_w wi_set_rcode w_iface] in Ew'. cbn [d_regs] in Rq, Hi.
  pose proof (Reach_trans Pop _ _ _ _ _ _ _ _ _ _ Rpre Rq) as Rall.
  destruct (Reach_run Pop _ _ _ _ _ _ Rq) as (_ & _ & _ & _ & _ & F4q & Hlenq).
  assert (Hlp : length pre = length opre) by (unfold opre; rewrite map_length; reflexivity).
  assert (G : Good cls (areplay am0 (pre ++ ops2) (opre ++ outs2)) (hreplay ah0 (pre ++ ops2) (opre ++ outs2))).
  { rewrite areplay_app, hreplay_app by exact Hlp. apply Good_replay; [exact F4q|]. apply Good_prepared. }
  destruct (run_wf cls buf _ w0 _ _ _ _ L E0 Rall Hi G) as (len & b & Ef & Hwf). cbn [d_w] in Ef.
  exists len, b. split; [|exact Hwf].
  unfold respond_plain. rewrite Ew. destruct (set_rcode rcode w) as [w2|e|]; try discriminate.
  inversion Ew'; subst w2. rewrite Ef. reflexivity.
Qed.

(* ---------------------------------------------------------------- the theorem *)

Section Wf.
Variable reqf : N -> N -> bytes -> bytes -> bool.
Variable apex : name.
Variable cls : N.
Variable R : list record.
Variable z : zone.
Hypothesis Hinv : Inv reqf apex cls z R.
Hypothesis Hapex : good_name apex.
Hypothesis Hclass : (cls < 65536)%N.

(* THE HYPOTHESIS ON ZONE CONTENTS: every record's RDATA is generated by the RFC grammar of its type
   (Zone::add does not check this; zone files do, through Rdata::validate), and the zone holds no
   OPT / TSIG pseudo-records *)
Definition PRv (ty : N) (rd : bytes) : Prop := no_pseudo ty /\ wf_bytes rd /\ spec_valid cls ty rd = true.
Hypothesis HR : Forall (fun r => Pz PRv (r_type r) (r_rdata r)) R.
Variable negttl : N -> N -> N.

Lemma Hzc' : z_class z = cls. Proof. destruct Hinv as (_ & H & _). exact H. Qed.

Theorem respond_w_wf buf tcp id rd qname qtype qclass edns limit :
  512 <= length buf -> good_name qname -> in_zone apex qname = true ->
  (id < 65536)%N -> (qtype < 65536)%N -> (qclass < 65536)%N -> (forall s, edns = Some s -> (s < 65536)%N) ->
  exists len b, respond_w negttl buf tcp id rd qname qtype qclass edns limit z = Some (len, b) /\
                wf_response (firstn len b) = true.
Proof.
  intros Hb Gq Hz Hid Hqt Hqc Hed.
  set (Pop := Pop2 cls).
  assert (Hhdr : forall o, match o with
    | OSetId _ | OSetQr true | OSetOpcode _ | OSetRd _ | OAddQuestion _ _ _ | OSetEdns _ | OSetLimit _ => Pop o
    | _ => True end).
  { intros o. destruct o; try exact I; try (destruct b; exact I || reflexivity). }
  assert (Hrr : forall s hs owner ty ttl rd0 vec, PRv ty rd0 -> Pop (OAddRr s hs owner ty (z_class z) ttl rd0 vec)).
  { intros s hs owner ty ttl rd0 vec (A & B & C). unfold Pop, Pop2. rewrite Hzc'. auto. }
  assert (Hrrset : forall s hs owner ty ttl rds vec, Forall (PRv ty) rds -> Pop (OAddRrset s hs owner ty (z_class z) ttl rds vec)).
  { intros s hs owner ty ttl rds vec Hf. unfold Pop, Pop2. rewrite Hzc'. split; [reflexivity|].
    eapply Forall_impl; [|exact Hf]. intros x (A & B & C). auto. }
  assert (Hother : forall o, match o with
    | OSetId _ | OSetQr true | OSetOpcode _ | OSetRd _ | OAddQuestion _ _ _ | OSetEdns _ | OSetLimit _
    | OSetAa _ | OSetTc _ | OSetRcode _ | OClearRrs => Pop o
    | _ => True end).
  { intros o. destruct o; try exact I; try (destruct b; exact I || reflexivity). }
  (* the preparation *)
  destruct (prepare_total buf tcp id rd qname qtype qclass edns limit Hb (proj2 Gq)) as (w & Ew).
  destruct (prepare_Reach Pop Hhdr buf tcp id rd qname qtype qclass edns limit w Ew Gq Hid Hqt Hqc Hed) as (w0 & E0 & Rpre).
  set (pre := pre_ops tcp id rd qname qtype qclass edns limit) in *.
  set (opre := map (fun _ : wop => RUnit) pre) in *.
  destruct (Reach_AInv Pop _ _ _ _ _ _ Rpre L0 (AInv_new _ _ _ E0)) as (Lp & Hip).
  (* the query phase, from the prepared state *)
  assert (Sp : St Pop (mkD w []) (g_prepared qname) (mkD w []) (g_prepared qname)).
  { exists [], [], Lp. split; [constructor|exact Hip]. }
  destruct (handle_S reqf apex cls R z Hinv PRv Pop HR Hapex Hclass Hrr Hrrset
              (fun b => Hother (OSetAa b)) (fun b => Hother (OSetTc b)) (fun rc => Hother (OSetRcode rc))
              (Hother OClearRrs) negttl (mkD w []) (g_prepared qname) qname Gq Hz qtype tcp (mkD w []) (g_prepared qname) Sp eq_refl)
    as (w' & d' & g' & Eh & (ops2 & outs2 & L & Rq & Hi) & Hw').
  cbn [d_w] in Eh.
  pose proof (Reach_trans Pop _ _ _ _ _ _ _ _ _ _ Rpre Rq) as Rall.
  destruct (Reach_run Pop _ _ _ _ _ _ Rq) as (_ & _ & _ & _ & _ & F4q & Hlenq).
  assert (Hlp : length pre = length opre) by (unfold opre; rewrite map_length; reflexivity).
  assert (G : Good cls (areplay am0 (pre ++ ops2) (opre ++ outs2)) (hreplay ah0 (pre ++ ops2) (opre ++ outs2))).
  { rewrite areplay_app, hreplay_app by exact Hlp. apply Good_replay; [exact F4q|]. apply Good_prepared. }
  destruct (run_wf cls buf _ w0 _ _ _ _ L E0 Rall Hi G) as (len & b & Ef & Hwf).
  exists len, b. split; [|exact Hwf].
  unfold respond_w. rewrite Ew, Eh. rewrite <- Hw'. rewrite Ef. reflexivity.
Qed.

End Wf.
