(* RecordsOnly: total, and after its first error (including the "$INCLUDE not supported" error it
   produces itself) it yields nothing more. *)
From QV Require Import Base.ListX Model.ZfReader Model.ZfParser Model.ZfRecOnly Proofs.ZfReaderP Proofs.ZfParserP
  Proofs.ZfRecordP.

Definition ro_item := (ro_line + (pos * zkind))%type.
Definition ro_is_line (it : ro_item) : Prop := match it with inl _ => True | inr _ => False end.

Lemma ro_next_after_error p : ps_error p = true -> ro_next p = Ok (None, p).
Proof. intros H. unfold ro_next. rewrite (next_after_error p H). reflexivity. Qed.

Lemma ro_next_error_sets_flag p e p' : ro_next p = Ok (Some (inr e), p') -> ps_error p' = true.
Proof.
  unfold ro_next. destruct (parser_next p) as [[[[l|e0]|] p1]|e1|] eqn:E; try discriminate.
  - destruct (l_content l); [|discriminate]. intros [= _ <-]. reflexivity.
  - intros [= _ <-]. eapply next_error_sets_flag. exact E.
Qed.

Fixpoint ro_next_n (n : nat) (p : parser) : list (res zerr (option ro_item * parser)) :=
  match n with
  | O => []
  | S n' => ro_next p :: match ro_next p with Ok (_, p') => ro_next_n n' p' | _ => [] end
  end.

Theorem ro_stops_after_error p e p' : ro_next p = Ok (Some (inr e), p') ->
  forall n, Forall (fun x => x = Ok (None, p')) (ro_next_n n p').
Proof.
  intros H. apply ro_next_error_sets_flag in H. induction n as [|n IH]; [constructor|].
  cbn [ro_next_n]. rewrite (ro_next_after_error p' H). constructor; [reflexivity|exact IH].
Qed.

Lemma ro_next_spec p : pinv p -> ps_error p = false ->
  exists o p', ro_next p = Ok (o, p') /\ pinv p' /\
    match o with
    | Some (inl _) => ps_error p' = false /\ measure p' < measure p
    | Some (inr _) => ps_error p' = true
    | None => ps_error p' = false /\ parser_next p' = Ok (None, p')
    end.
Proof.
  intros Hp He. destruct (next_spec p Hp He) as (o & p' & Hn & Hp' & Ho). unfold ro_next. rewrite Hn.
  destruct o as [[l|e]|].
  - destruct Ho as (_ & B & C). destruct (l_content l).
    + eexists _, _. split; [reflexivity|]. split; [destruct Hp' as [A1 A2]; split; assumption|reflexivity].
    + eexists _, _. split; [reflexivity|]. split; [exact Hp'|]. split; assumption.
  - eexists _, _. split; [reflexivity|]. split; [exact Hp'|exact Ho].
  - eexists _, _. split; [reflexivity|]. split; [exact Hp'|]. split; [exact Ho|]. exact (next_none_again p p' Hp He Hn).
Qed.

Lemma ro_collect_spec : forall fuel p acc, pinv p -> ps_error p = false -> measure p < fuel -> Forall ro_is_line acc ->
  exists items p', ro_collect fuel p acc = Ok (items, p') /\ ro_next p' = Ok (None, p') /\
    (exists ls tl, items = ls ++ tl /\ Forall ro_is_line ls /\ (tl = [] \/ exists e, tl = [inr e])).
Proof.
  induction fuel as [|fuel IH]; intros p acc Hp He Hm Hl; [lia|].
  cbn [ro_collect]. destruct (ro_next_spec p Hp He) as (o & p' & Hn & Hp' & Ho). rewrite Hn. cbn [bind].
  destruct o as [[l|e]|].
  - destruct Ho as (B & C). apply IH; [exact Hp'|exact B|lia|constructor; [exact I|exact Hl]].
  - destruct fuel as [|fuel]; [unfold measure in Hm; rewrite He in Hm; lia|].
    cbn [ro_collect]. rewrite (ro_next_after_error p' Ho). cbn [bind]. eexists _, _. split; [reflexivity|].
    split; [apply ro_next_after_error; exact Ho|]. rewrite rev_fast_rev. cbn [rev].
    exists (rev acc), [inr e]. split; [reflexivity|]. split; [apply Forall_rev; exact Hl|right; eauto].
  - destruct Ho as (B & C). eexists _, _. split; [reflexivity|]. split; [unfold ro_next; rewrite C; reflexivity|].
    rewrite rev_fast_rev. exists (rev acc), []. rewrite app_nil_r. split; [reflexivity|]. split; [apply Forall_rev; exact Hl|left; reflexivity].
Qed.

Theorem ro_all_spec input :
  exists items p, ro_all input = Ok (items, p) /\ ro_next p = Ok (None, p) /\
    (exists ls tl, items = ls ++ tl /\ Forall ro_is_line ls /\ (tl = [] \/ exists e, tl = [inr e])).
Proof.
  unfold ro_all. apply ro_collect_spec; [apply pinv_new|reflexivity|unfold measure; cbn; lia|constructor].
Qed.

Theorem ro_all_total input : exists items p, ro_all input = Ok (items, p).
Proof. destruct (ro_all_spec input) as (items & p & H & _). eauto. Qed.

Theorem ro_errors_only_last input items p : ro_all input = Ok (items, p) ->
  ro_next p = Ok (None, p) /\ forall i e, nth_error items i = Some (inr e) -> S i = length items.
Proof.
  intros H. destruct (ro_all_spec input) as (items' & p' & H' & Hn & ls & tl & -> & Hl & Ht).
  rewrite H in H'. inversion H'; subst. split; [exact Hn|].
  intros i e Hi. destruct (Nat.lt_ge_cases i (length ls)) as [Hlt|Hge].
  - rewrite nth_error_app1 in Hi by exact Hlt. rewrite Forall_forall in Hl.
    apply nth_error_In in Hi. apply Hl in Hi. contradiction.
  - rewrite nth_error_app2 in Hi by exact Hge. destruct Ht as [->|[e' ->]].
    + destruct (i - length ls); discriminate.
    + rewrite app_length. simpl. destruct (i - length ls) as [|k] eqn:Ek; [lia|]. destruct k; discriminate.
Qed.

(* an $INCLUDE line is reported as an error by this iterator (and hence ends it) *)
Theorem ro_include_is_error p n path o p' : parser_next p = Ok (Some (inl (mkLine n (CInclude path o))), p') ->
  exists p'', ro_next p = Ok (Some (inr (mkPos n 1, IncludeNotSupported)), p'') /\ ps_error p'' = true.
Proof. intros H. unfold ro_next. rewrite H. cbn. eauto. Qed.
