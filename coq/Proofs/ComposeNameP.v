(* Composition, part 3: names.  The names query answering reads out of RDATA (Model/Query.v) are the
   names the Writer finds in the same RDATA when it serialises it (rd_names, Proofs/MsgWriterOpP.v);
   they are valid Names; a suffix (modulo ASCII case) of a valid Name is a valid Name. *)
From QV Require Import Base.ListX Model.NameWire Spec.NameWireS Spec.NameRepr Proofs.NameWireP
  Model.MsgWriter Model.ZoneTree Spec.ZoneLookupS Proofs.ZoneBaseP Model.Query Model.QueryW
  Proofs.MsgWriterP Proofs.MsgWriterScanP Proofs.MsgWriterNameP Proofs.MsgWriterInvP Proofs.MsgWriterNameSP
  Proofs.MsgWriterOpP Proofs.MsgWriterStepP Proofs.ComposeTraceP Proofs.ComposeWfP.
Local Open Scope nat_scope.

Lemma q_wire_labels_eq : forall fuel w, q_wire_labels fuel w = wire_labels fuel w.
Proof.
  induction fuel as [|f IH]; intros w; [reflexivity|]. cbn [q_wire_labels wire_labels].
  destruct w as [|l r]; [reflexivity|]. destruct (l =? 0)%N; [reflexivity|]. rewrite IH. reflexivity.
Qed.
Lemma labels_of_eq nm : labels_of nm = labels_of_name nm.
Proof. unfold labels_of, labels_of_name. apply q_wire_labels_eq. Qed.

(* a successfully parsed uncompressed name is a valid Name *)
Lemma parse_unc_good rd nm len : wf_bytes rd -> parse_uncompressed_name rd false = Ok (nm, len) ->
  good_name (labels_of_name nm) /\ length (nm_wire (labels_of_name nm)) = len /\ len <= length rd /\ 1 <= len.
Proof.
  intros Hwf H. pose proof (parse_unc_name rd nm len Hwf H) as (A & B & C).
  apply (parse_uncompressed_iff rd false nm len Hwf) in H as [ls [[D Hw] [-> _]]].
  pose proof (decodes_unc_labels _ _ _ _ _ D eq_refl) as Hl.
  assert (Hls : labels_of_name (name_of ls) = ls).
  { unfold labels_of_name, name_of. cbn [n_wire]. change (wire_of ls) with (nm_wire ls).
    pose proof (lwire_len_ge ls Hl) as Hge.
    rewrite wire_labels_ok; auto. rewrite nm_wire_length. lia. }
  rewrite Hls in *. split; [split; [exact A|]|].
  - assert (Hwl : length (nm_wire ls) = wire_len ls) by reflexivity. lia.
  - split; [exact B|]. split; [exact C|]. rewrite <- B, nm_wire_length. lia.
Qed.

Lemma parse_all_false rd nm off : parse_uncompressed_name rd true = Ok (nm, off) ->
  parse_uncompressed_name rd false = Ok (nm, off) /\ length rd <= off.
Proof.
  unfold parse_uncompressed_name. destruct (unc_loop unc_fuel rd 0 []) as [[o offs]|e|]; cbn [bind]; try discriminate.
  cbn [andb]. destruct (o <? length rd) eqn:E; [discriminate|]. intros H. split; [exact H|].
  inversion H; subst. apply Nat.ltb_ge in E. exact E.
Qed.

(* read_name_from_rdata *)
Lemma read_name_facts rd start nm : wf_bytes rd -> read_name_from_rdata rd start = Ok nm ->
  start <= length rd /\ good_name nm /\
  exists nm0 len, parse_uncompressed_name (skipn start rd) false = Ok (nm0, len) /\ nm = labels_of_name nm0.
Proof.
  intros Hwf. unfold read_name_from_rdata. destruct (length rd <? start) eqn:E; [discriminate|]. apply Nat.ltb_ge in E.
  unfold name_from_all. destruct (parse_uncompressed_name (skipn start rd) true) as [[nm0 off]|e|] eqn:Ep; try discriminate.
  intros H. inversion H; subst nm. clear H. destruct (parse_all_false _ _ _ Ep) as [Ep' _].
  assert (Hwf' : wf_bytes (skipn start rd)) by (apply wf_bytes_skipn; exact Hwf).
  destruct (parse_unc_good _ _ _ Hwf' Ep') as (G & _). rewrite labels_of_eq.
  split; [exact E|]. split; [exact G|]. exists nm0, off. split; [exact Ep'|reflexivity].
Qed.

Lemma read_name_no_panic rd start : read_name_from_rdata rd start <> Panic.
Proof.
  unfold read_name_from_rdata. destruct (length rd <? start); [discriminate|]. unfold name_from_all.
  pose proof (parse_uncompressed_total (skipn start rd) true) as [NP _].
  destruct (parse_uncompressed_name (skipn start rd) true) as [[nm0 off]|e|]; try discriminate. congruence.
Qed.

(* name_from_all: the target of a CNAME and its wire form, which is the whole RDATA *)
Lemma name_from_all_facts rd cname wire : wf_bytes rd -> name_from_all rd = Ok (Some (cname, wire)) ->
  wire = rd /\ rd <> [] /\ good_name cname /\
  exists nm0 len, parse_uncompressed_name rd false = Ok (nm0, len) /\ cname = labels_of_name nm0.
Proof.
  intros Hwf. unfold name_from_all. destruct (parse_uncompressed_name rd true) as [[nm0 off]|e|] eqn:Ep; try discriminate.
  intros H. inversion H; subst. clear H. destruct (parse_all_false _ _ _ Ep) as [Ep' Hlen].
  destruct (parse_unc_good _ _ _ Hwf Ep') as (G & Hl & Hle & H1). rewrite labels_of_eq.
  assert (Hoff : off = length rd) by lia.
  assert (Hw : n_wire nm0 = rd).
  { unfold parse_uncompressed_name in Ep'. destruct (unc_loop unc_fuel rd 0 []) as [[o offs]|e|]; cbn [bind] in Ep'; try discriminate.
    cbn [andb] in Ep'. inversion Ep' as [[Hnm Ho]]. cbn [n_wire]. subst o. rewrite Hoff. apply firstn_all. }
  split; [exact Hw|]. split; [destruct rd; [simpl in Hle; lia|discriminate]|]. split; [exact G|].
  exists nm0, off. split; [exact Ep'|reflexivity].
Qed.

Lemma name_from_all_no_panic rd : name_from_all rd <> Panic.
Proof.
  unfold name_from_all. pose proof (parse_uncompressed_total rd true) as [NP _].
  destruct (parse_uncompressed_name rd true) as [[nm0 off]|e|]; try discriminate. congruence.
Qed.

(* ---------------------------------------------------------------- the names the Writer finds *)

(* RDATA layouts with exactly one name, at offset [start] *)
Definition one_name (cts : list ctype) (start : nat) : Prop :=
  (cts = [CtCompressible] /\ start = 0) \/ cts = [CtFixed start; CtCompressible] \/ cts = [CtFixed start; CtUncompressible].

Lemma rd_names_one cts start rd nm : wf_bytes rd -> one_name cts start -> read_name_from_rdata rd start = Ok nm ->
  rd_names cts rd = [nm].
Proof.
  intros Hwf H1 Hr. destruct (read_name_facts _ _ _ Hwf Hr) as (Hs & _ & nm0 & len & Ep & ->).
  destruct H1 as [[-> ->]|[->| ->]]; cbn [rd_names].
  - cbn [skipn] in Ep. rewrite Ep. reflexivity.
  - destruct (length rd <? start) eqn:E; [apply Nat.ltb_lt in E; lia|]. rewrite Ep. reflexivity.
  - destruct (length rd <? start) eqn:E; [apply Nat.ltb_lt in E; lia|]. rewrite Ep. reflexivity.
Qed.

Lemma rds_names_app cts a b : rds_names cts (a ++ b) = rds_names cts a ++ rds_names cts b.
Proof. induction a as [|x a IH]; simpl; auto. rewrite IH, app_assoc. reflexivity. Qed.

(* the CNAME record just written leaves its target as the most recent name in RDATA *)
Lemma cname_rd_names cls rd cname wire : wf_bytes rd -> name_from_all rd = Ok (Some (cname, wire)) ->
  rd_names (component_types cls TYPE_CNAME) wire = [cname].
Proof.
  intros Hwf H. destruct (name_from_all_facts _ _ _ Hwf H) as (-> & _ & _ & nm0 & len & Ep & ->).
  change (component_types cls TYPE_CNAME) with [CtCompressible]. cbn [rd_names]. rewrite Ep. reflexivity.
Qed.

(* ---------------------------------------------------------------- suffixes *)

Lemma Forall_skipn {A} (P : A -> Prop) k l : Forall P l -> Forall P (skipn k l).
Proof.
  revert l. induction k as [|k IH]; intros l H; [exact H|]. destruct l as [|x l]; [constructor|].
  inversion H; subst. apply IH. assumption.
Qed.

Lemma lwire_length_map (a b : list bytes) : map (@length N) a = map (@length N) b ->
  length (nm_lwire a) = length (nm_lwire b).
Proof.
  revert b. induction a as [|x a IH]; intros [|y b] H; simpl in *; try discriminate; auto.
  inversion H. rewrite !app_length. rewrite (IH b); auto.
Qed.

Lemma lwire_skipn_le k (l : list bytes) : length (nm_lwire (skipn k l)) <= length (nm_lwire l).
Proof.
  revert l. induction k as [|k IH]; intros l; [simpl; lia|]. destruct l as [|x l]; [simpl; lia|].
  cbn [skipn]. specialize (IH l). unfold nm_lwire in *. cbn [flat_map]. rewrite app_length. lia.
Qed.

Lemma lengths_lc (n : list bytes) : map (@length N) (lc n) = map (@length N) n.
Proof. unfold lc. rewrite map_map. apply map_ext. intros a. apply map_length. Qed.

Lemma wf_name_lengths a b : map (@length N) a = map (@length N) b -> wf_name b -> wf_name a.
Proof.
  intros H [Hl Hn]. split.
  - clear Hn. revert b H Hl. induction a as [|x a IH]; intros [|y b] H Hl; simpl in *; try discriminate; constructor.
    + inversion H. inversion Hl; subst. unfold wf_label in *. lia.
    + inversion H. inversion Hl; subst. eapply IH; eauto.
  - assert (E : length a = length b) by (rewrite <- (map_length (@length N) a), H, map_length; reflexivity).
    exact (eq_ind_r (fun n => n <= 127) Hn E).
Qed.

Lemma good_name_suffix c qn : suffix_ci c qn -> good_name qn -> good_name c.
Proof.
  intros [k Hk] [Hw Hl].
  assert (Hm : map (@length N) c = map (@length N) (skipn k qn)).
  { rewrite <- lengths_lc, Hk, <- lc_skipn, lengths_lc. reflexivity. }
  split.
  - apply (wf_name_lengths _ _ Hm). destruct Hw as [A B]. split; [apply Forall_skipn; exact A|].
    pose proof (skipn_length k qn) as E. unfold ZoneTree.name, ZoneTree.label, wname, bytes in *. lia.
  - rewrite nm_wire_length in *. rewrite (lwire_length_map _ _ Hm). pose proof (lwire_skipn_le k qn).
    unfold ZoneTree.name, ZoneTree.label, wname, bytes in *. lia.
Qed.
