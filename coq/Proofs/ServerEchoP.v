(* C03: the octet-for-octet echo of the question, request side and glue.
   Request side: when the QNAME of the single question is written without compression
   ([qname_uncompressed], Spec/MsgWalkS.v: the label sequence at offset 12 ends in the root label),
   the question the Reader returns has, as its name's wire form followed by the big-endian QTYPE and
   QCLASS, exactly the request's octets [12, end of question) (the C14 specification: for a
   pointer-free name the wire form IS the octets read).
   Glue: the response octets produced by the byte-level composition the server-level runner uses
   (Model/QueryW.v respond_w / respond_plain on the Writer model of C12) carry, at [12, end of
   question), exactly those octets (Proofs/ServerEchoWP.v). *)
From QV Require Import Base.ListX Model.NameWire Model.Reader Spec.NameWireS Spec.NameRepr Spec.ReaderS Spec.MsgWalkS
  Proofs.NameWireP Proofs.ReaderP Proofs.RdNameP Model.RdataLite Model.Server Proofs.ServerP.
From QV Require Import Model.ZoneTree Model.Query Proofs.QueryNameP Model.MsgWriter Model.QueryW Proofs.ServerEchoWP.
Local Open Scope nat_scope.

(* the first label sequence, when it ends in the root label, is the whole name: its octets are the wire form *)
Lemma s_name_end_nc b : forall cs i ls e, decodes b cs i ls e -> forall fuel used e',
  s_name_end fuel b i used = Some (e', false) -> e' = e /\ slice b i e = wire_of ls.
Proof.
  induction 1 as [cs i H | cs i len rest e H Hp Hl Hb Hd IH | cs i hi lo rest e' H Hh Hlo Ht Hd IH];
    intros fuel used e2 HS; (destruct fuel as [|f]; [discriminate|]); cbn [s_name_end] in HS; rewrite H in HS.
  - change (0 =? 0)%N with true in HS. cbv iota in HS. destruct (used + 1 <=? 255); [|discriminate].
    inversion HS; subst. split; [reflexivity|].
    rewrite (slice_cons b i 0%N) by (auto; lia). replace (S i) with (i + 1) by lia. rewrite slice_nil. reflexivity.
  - destruct (len =? 0)%N eqn:Z; [apply N.eqb_eq in Z; lia|].
    destruct (len <=? 63)%N eqn:L; [|apply N.leb_gt in L; lia].
    destruct (IH _ _ _ HS) as [-> Hs]. split; [reflexivity|].
    assert (Hsl : length (slice b (i + 1) (i + 1 + N.to_nat len)) = N.to_nat len) by (rewrite slice_length; lia).
    pose proof (decodes_end_le _ _ _ _ _ Hd) as [Hlt _].
    rewrite (slice_cons b i len) by (auto; lia). replace (S i) with (i + 1) by lia.
    rewrite (slice_app b (i + 1) (i + 1 + N.to_nat len)) by lia.
    rewrite Hs, wire_of_cons, Hsl, N2Nat.id. reflexivity.
  - destruct (hi =? 0)%N eqn:Z; [apply N.eqb_eq in Z; lia|].
    destruct (hi <=? 63)%N eqn:L; [apply N.leb_le in L; lia|].
    destruct (192 <=? hi)%N eqn:P; [|apply N.leb_gt in P; lia].
    destruct (used + 1 <=? 255); discriminate.
Qed.

Lemma sbe16_slice b a v : wf_bytes b -> sbe16 b a = Some v -> slice b a (a + 2) = be16 v.
Proof.
  intros Hw. unfold sbe16. destruct (nth_error b a) as [h|] eqn:A; [|discriminate].
  destruct (nth_error b (a + 1)) as [l|] eqn:B; [|discriminate]. intros X; inversion X; subst v.
  pose proof (nth_error_Forall _ _ _ _ Hw A) as Hh. pose proof (nth_error_Forall _ _ _ _ Hw B) as Hl.
  unfold is_octet in *.
  rewrite (slice_cons b a h) by (auto; lia). replace (S a) with (a + 1) by lia.
  rewrite (slice_cons b (a + 1) l) by (auto; lia). replace (S (a + 1)) with (a + 2) by lia. rewrite slice_nil.
  unfold be16. f_equal; [|f_equal].
  - assert (E : ((h * 256 + l) / 256 = h)%N) by (symmetry; apply (N.div_unique _ 256 h l); lia).
    rewrite E. symmetry. apply N.mod_small. exact Hh.
  - apply (N.mod_unique _ 256 h l); lia.
Qed.

(* the question read from a request whose QNAME is uncompressed: its octets *)
Theorem question_octets req r1 q : wf_bytes req -> 12 <= length req ->
  read_question (r0_of req) = (r1, Ok q) -> qname_uncompressed req ->
  exists ls, Reader.q_name q = name_of ls /\ labels_of (Reader.q_name q) = ls /\
    r_cursor r1 = 12 + length (nm_wire ls ++ be16 (Reader.q_type q) ++ be16 (Reader.q_class q)) /\
    slice req 12 (r_cursor r1) = nm_wire ls ++ be16 (Reader.q_type q) ++ be16 (Reader.q_class q).
Proof.
  intros Hw H12 E [e0 U]. pose proof (read_question_facts (r0_of req) (r0_inv req Hw H12)) as (_ & _ & _ & F).
  rewrite E in F. cbn [fst snd] in F. destruct (F q eq_refl) as (ls & D & Nm & _). exists ls.
  cbn [r_octets r_cursor r0_of] in D. remember (r_cursor r1) as c1 eqn:Hc1.
  inversion D as [ls' l qt qc DN Sq Sc Hend]; subst ls' qt qc.
  destruct DN as (e & De & Hl & Hlen).
  unfold s_first_name in U. destruct (s_name_end_nc _ _ _ _ _ De _ _ _ U) as [-> Hs].
  pose proof (decodes_end_le _ _ _ _ _ De) as [Hlt Hle].
  assert (El : 12 + l = e) by lia. rewrite El in *. assert (Hend : c1 = e + 4) by lia. clear Hc1. subst c1.
  split; [exact Nm|]. split.
  { rewrite Nm. apply labels_of_name_of. eapply decodes_labels_valid; eauto. }
  assert (L16 : forall v, length (be16 v) = 2) by reflexivity.
  assert (Lw : length (nm_wire ls) = e - 12).
  { change (nm_wire ls) with (wire_of ls). rewrite <- Hs. rewrite slice_length; lia. }
  pose proof (sbe16_slice _ _ _ Hw Sq) as S1. pose proof (sbe16_slice _ _ _ Hw Sc) as S2.
  split.
  - rewrite !app_length, !L16, Lw. lia.
  - replace (e + 4) with (e + 2 + 2) by lia.
    rewrite (slice_app req 12 e (e + 2 + 2)) by lia. rewrite (slice_app req e (e + 2) (e + 2 + 2)) by lia.
    rewrite Hs, S1, S2. reflexivity.
Qed.

(* ---------- glue: request octets = response octets ---------- *)
Theorem respond_w_echo req r1 q negttl buf tcp id rd edns limit z len b : wf_bytes req -> 12 <= length req ->
  read_question (r0_of req) = (r1, Ok q) -> qname_uncompressed req ->
  respond_w negttl buf tcp id rd (labels_of (Reader.q_name q)) (Reader.q_type q) (Reader.q_class q) edns limit z = Some (len, b) ->
  r_cursor r1 <= len /\ slice b 12 (r_cursor r1) = slice req 12 (r_cursor r1).
Proof.
  intros Hw H12 E U R. destruct (question_octets req r1 q Hw H12 E U) as (ls & _ & Lb & Hc & Hs).
  rewrite Lb in R. destruct (respond_w_question _ _ _ _ _ _ _ _ _ _ _ _ _ R) as [A B]. cbv zeta in *.
  rewrite Hs, Hc. split; [exact B|exact A].
Qed.

Theorem respond_plain_echo req r1 q buf tcp id rd edns limit rcode len b : wf_bytes req -> 12 <= length req ->
  read_question (r0_of req) = (r1, Ok q) -> qname_uncompressed req ->
  respond_plain buf tcp id rd (labels_of (Reader.q_name q)) (Reader.q_type q) (Reader.q_class q) edns limit rcode = Some (len, b) ->
  r_cursor r1 <= len /\ slice b 12 (r_cursor r1) = slice req 12 (r_cursor r1).
Proof.
  intros Hw H12 E U R. destruct (question_octets req r1 q Hw H12 E U) as (ls & _ & Lb & Hc & Hs).
  rewrite Lb in R. destruct (respond_plain_question _ _ _ _ _ _ _ _ _ _ _ _ R) as [A B]. cbv zeta in *.
  rewrite Hs, Hc. split; [exact B|exact A].
Qed.

(* and the prepared writer every such response starts from *)
Theorem prepare_w_echo req r1 q buf tcp id rd edns limit w : wf_bytes req -> 12 <= length req ->
  read_question (r0_of req) = (r1, Ok q) -> qname_uncompressed req ->
  prepare_w buf tcp id rd (labels_of (Reader.q_name q)) (Reader.q_type q) (Reader.q_class q) edns limit = Some w ->
  MsgWriter.w_rr_start w = r_cursor r1 /\ slice (MsgWriter.w_buf w) 12 (r_cursor r1) = slice req 12 (r_cursor r1).
Proof.
  intros Hw H12 E U R. destruct (question_octets req r1 q Hw H12 E U) as (ls & _ & Lb & Hc & Hs).
  rewrite Lb in R. destruct (prepare_QK _ _ _ _ _ _ _ _ _ _ R) as (_ & A & B).
  rewrite Hs, Hc. split; [exact A|exact B].
Qed.

(* end to end: whenever the server model answers with a question, that question was read from the
   request, and every response the byte-level composition builds for it repeats the request's
   question octets *)
Theorem handle_message_echo answer verify cfg req w q : wf_cfg cfg -> wf_bytes req ->
  handle_message answer verify cfg req = Ok (Some w) -> Server.w_question w = Some q -> qname_uncompressed req ->
  exists r1, read_question (r0_of req) = (r1, Ok q) /\ 12 <= length req /\
    (forall negttl buf tcp id rd edns limit z len b,
       respond_w negttl buf tcp id rd (labels_of (Reader.q_name q)) (Reader.q_type q) (Reader.q_class q) edns limit z = Some (len, b) ->
       r_cursor r1 <= len /\ slice b 12 (r_cursor r1) = slice req 12 (r_cursor r1)) /\
    (forall buf tcp id rd edns limit rcode len b,
       respond_plain buf tcp id rd (labels_of (Reader.q_name q)) (Reader.q_type q) (Reader.q_class q) edns limit rcode = Some (len, b) ->
       r_cursor r1 <= len /\ slice b 12 (r_cursor r1) = slice req 12 (r_cursor r1)).
Proof.
  intros Hc Hw H Q U. destruct (handle_message_response answer verify cfg req w Hc Hw H) as (_ & QE & _).
  assert (H12 : 12 <= length req).
  { destruct (le_lt_dec 12 (length req)) as [X|X]; [exact X|]. exfalso.
    pose proof (proj2 (handle_message_silent_iff answer verify cfg req Hc Hw) (or_introl X)) as S0. congruence. }
  unfold question_echo in QE. rewrite Q in QE. destruct QE as [QE|(_ & r1 & q' & RQ & QE)]; [discriminate|].
  inversion QE; subst q'. exists r1. split; [exact RQ|]. split; [exact H12|]. split.
  - intros. eapply respond_w_echo; eauto.
  - intros. eapply respond_plain_echo; eauto.
Qed.

(* ---------- the plain responses, end to end from the request ---------- *)
From QV Require Import Spec.MsgWriterS Proofs.ServerPlainP Proofs.MsgWalkP.

Lemma sbe16_lt b a v : wf_bytes b -> sbe16 b a = Some v -> (v < 65536)%N.
Proof.
  intros Hw. unfold sbe16. destruct (nth_error b a) as [h|] eqn:A; [|discriminate].
  destruct (nth_error b (a + 1)) as [l|] eqn:B; [|discriminate]. intros X; inversion X; subst.
  pose proof (nth_error_Forall _ _ _ _ Hw A) as Hh. pose proof (nth_error_Forall _ _ _ _ Hw B) as Hl.
  unfold is_octet in *. lia.
Qed.

Lemma valid_labels_count (ls : list bytes) : Forall RdataFormatS.valid_label ls -> 2 * length ls + 1 <= wire_len ls.
Proof.
  induction 1 as [|l r [H1 H2] _ IH]; [vm_compute; lia|]. rewrite wire_len_cons. simpl length. lia.
Qed.

(* a response of the server model that carries a question and does not come from query answering, rendered by
   the byte-level composition: the independent decoder returns the REQUEST's id, QR = 1, opcode 0, AA = TC = 0,
   RD as in the model's response, RA = Z = 0, the RCODE, the question, no records, and an OPT (owner root,
   class = the configured payload size, TTL 0) exactly when the model's response is an EDNS response *)
Theorem plain_response_end_to_end answer verify cfg req w q buf tcp limit rcode len b : wf_cfg cfg -> wf_bytes req ->
  handle_message answer verify cfg req = Ok (Some w) -> Server.w_question w = Some q -> (rcode < 16)%N ->
  respond_plain buf tcp (Server.w_id w) (Server.w_rd w) (labels_of (Reader.q_name q)) (Reader.q_type q) (Reader.q_class q)
                (option_map fst (Server.w_edns w)) limit rcode = Some (len, b) ->
  exists m, decode_msg (firstn len b) = Some m /\
    sbe16 req 0 = Some (m_id m) /\ N.testbit (m_flags2 m) 7 = true /\ ((m_flags2 m / 8) mod 16 = 0)%N /\
    N.testbit (m_flags2 m) 2 = false /\ N.testbit (m_flags2 m) 1 = false /\ N.testbit (m_flags2 m) 0 = Server.w_rd w /\
    N.testbit (m_flags3 m) 7 = false /\ ((m_flags3 m / 16) mod 8 = 0)%N /\ (m_flags3 m mod 16 = rcode)%N /\
    (exists d, m_qs m = [d] /\ dq_type d = Reader.q_type q /\ dq_class d = Reader.q_class q) /\
    m_an m = [] /\ m_ns m = [] /\
    match Server.w_edns w with
    | None => m_ar m = []
    | Some _ => exists d, m_ar m = [d] /\ dr_owner d = [] /\ dr_type d = 41%N /\ dr_class d = c_edns_size cfg /\ dr_ttl d = 0%N
    end.
Proof.
  intros Hcfg Hwf HM Hq Hrc R. pose proof Hcfg as (H512 & H64k & _).
  destruct (handle_message_response answer verify cfg req w Hcfg Hwf HM) as ((Hid & _) & QE & EO & _).
  assert (H12 : 12 <= length req).
  { destruct (le_lt_dec 12 (length req)) as [X|X]; [exact X|]. exfalso.
    pose proof (proj2 (handle_message_silent_iff answer verify cfg req Hcfg Hwf) (or_introl X)) as S0. congruence. }
  unfold question_echo in QE. rewrite Hq in QE. destruct QE as [QE|(_ & r1 & q' & RQ & QE)]; [discriminate|]. inversion QE; subst q'.
  pose proof (read_question_facts (r0_of req) (r0_inv req Hwf H12)) as (_ & _ & _ & Fq).
  rewrite RQ in Fq. cbn [fst snd] in Fq. destruct (Fq q eq_refl) as (ls & Dq & Nm & _).
  cbn [r_octets r_cursor r0_of] in Dq. inversion Dq as [ls' l qt qc DN Sq Sc Hend]; subst ls' qt qc.
  destruct DN as (e & De & _ & Hlen).
  pose proof (decodes_labels_valid _ _ _ _ _ De) as Hv.
  rewrite Nm, (labels_of_name_of ls Hv) in R.
  assert (Hidv : sbe16 req 0 = Some (Server.w_id w) /\ (Server.w_id w < 65536)%N).
  { destruct (@be16_at_sbe16 reader_err req 0 ltac:(lia)) as (v & V1 & V2).
    unfold rd_id in Hid. cbn [r_octets r0_of] in Hid. change (N.to_nat ID_START) with 0 in Hid. rewrite V1 in Hid.
    inversion Hid; subst v. split; [exact V2|exact (sbe16_lt _ _ _ Hwf V2)]. }
  destruct Hidv as [Hid0 Hidlt].
  assert (Hwn : Proofs.MsgWriterNameP.wf_name ls).
  { split; [exact Hv|]. pose proof (valid_labels_count ls Hv). lia. }
  destruct (respond_plain_decodes buf tcp (Server.w_id w) (Server.w_rd w) ls (Reader.q_type q) (Reader.q_class q)
              (option_map fst (Server.w_edns w)) limit rcode len b Hidlt Hwn Hlen
              (sbe16_lt _ _ _ Hwf Sq) (sbe16_lt _ _ _ Hwf Sc) Hrc) as (m & D & M1 & M2 & M3 & M4 & M5 & M6 & M7 & M8 & M9 & Mq & Ma & Mn & Mr).
  { intros sz Hs. unfold edns_ok in EO. destruct (Server.w_edns w) as [[sz' up]|]; [|discriminate].
    cbn in Hs. inversion Hs; subst. lia. }
  { exact R. }
  exists m. split; [exact D|]. rewrite M1. split; [exact Hid0|]. repeat (split; [assumption|]).
  split. { destruct Mq as (d & E1 & _ & E2 & E3). exists d. auto. }
  split; [exact Ma|]. split; [exact Mn|].
  unfold edns_ok in EO. destruct (Server.w_edns w) as [[sz up]|]; cbn [option_map fst] in Mr; [|exact Mr].
  destruct Mr as (d & R1 & R2 & R3 & R4 & R5). exists d. subst sz. auto.
Qed.
