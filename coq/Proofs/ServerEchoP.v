(* C03: the octet-for-octet echo of the question, request side and glue.
   Request side: when the QNAME of the single question is written without compression
   ([qname_uncompressed], Spec/MsgWalkS.v: the label sequence at offset 12 ends in the root label),
   the question the Reader returns has, as its name's wire form followed by the big-endian QTYPE and
   QCLASS, exactly the request's octets [12, end of question) (the C14 specification: for a
   pointer-free name the wire form IS the octets read).
   Glue: the response octets produced by the byte-level composition the server-level runner uses
   (Model/QueryW.v respond_w / respond_plain on the Writer model of C12) carry, at [12, end of
   question), exactly those octets (Proofs/ServerEchoWP.v). *)
From QV Require Import Base.ListX Model.NameWire Model.Reader Spec.NameWireS Spec.NameRepr Spec.ReaderS Spec.MsgWalkS
  Proofs.NameWireP Proofs.ReaderP Proofs.RdNameP Model.RdataLite Model.Server Proofs.ServerP.
From QV Require Import Model.ZoneTree Model.Query Proofs.QueryNameP Model.MsgWriter Model.QueryW Proofs.ServerEchoWP.
Local Open Scope nat_scope.

(* the first label sequence, when it ends in the root label, is the whole name: its octets are the wire form *)
Lemma s_name_end_nc b : forall cs i ls e, decodes b cs i ls e -> forall fuel used e',
  s_name_end fuel b i used = Some (e', false) -> e' = e /\ slice b i e = wire_of ls.
Proof.
  induction 1 as [cs i H | cs i len rest e H Hp Hl Hb Hd IH | cs i hi lo rest e' H Hh Hlo Ht Hd IH];
    intros fuel used e2 HS; (destruct fuel as [|f]; [discriminate|]); cbn [s_name_end] in HS; rewrite H in HS.
  - change (0 =? 0)%N with true in HS. cbv iota in HS. destruct (used + 1 <=? 255); [|discriminate].
    inversion HS; subst. split; [reflexivity|].
    rewrite (slice_cons b i 0%N) by (auto; lia). replace (S i) with (i + 1) by lia. rewrite slice_nil. reflexivity.
  - destruct (len =? 0)%N eqn:Z; [apply N.eqb_eq in Z; lia|].
    destruct (len <=? 63)%N eqn:L; [|apply N.leb_gt in L; lia].
    destruct (IH _ _ _ HS) as [-> Hs]. split; [reflexivity|].
    assert (Hsl : length (slice b (i + 1) (i + 1 + N.to_nat len)) = N.to_nat len) by (rewrite slice_length; lia).
    pose proof (decodes_end_le _ _ _ _ _ Hd) as [Hlt _].
    rewrite (slice_cons b i len) by (auto; lia). replace (S i) with (i + 1) by lia.
    rewrite (slice_app b (i + 1) (i + 1 + N.to_nat len)) by lia.
    rewrite Hs, wire_of_cons, Hsl, N2Nat.id. reflexivity.
  - destruct (hi =? 0)%N eqn:Z; [apply N.eqb_eq in Z; lia|].
    destruct (hi <=? 63)%N eqn:L; [apply N.leb_le in L; lia|].
    destruct (192 <=? hi)%N eqn:P; [|apply N.leb_gt in P; lia].
    destruct (used + 1 <=? 255); discriminate.
Qed.

Lemma sbe16_slice b a v : wf_bytes b -> sbe16 b a = Some v -> slice b a (a + 2) = be16 v.
Proof.
  intros Hw. unfold sbe16. destruct (nth_error b a) as [h|] eqn:A; [|discriminate].
  destruct (nth_error b (a + 1)) as [l|] eqn:B; [|discriminate]. intros X; inversion X; subst v.
  pose proof (nth_error_Forall _ _ _ _ Hw A) as Hh. pose proof (nth_error_Forall _ _ _ _ Hw B) as Hl.
  unfold is_octet in *.
  rewrite (slice_cons b a h) by (auto; lia). replace (S a) with (a + 1) by lia.
  rewrite (slice_cons b (a + 1) l) by (auto; lia). replace (S (a + 1)) with (a + 2) by lia. rewrite slice_nil.
  unfold be16. f_equal; [|f_equal].
  - assert (E : ((h * 256 + l) / 256 = h)%N) by (symmetry; apply (N.div_unique _ 256 h l); lia).
    rewrite E. symmetry. apply N.mod_small. exact Hh.
  - apply (N.mod_unique _ 256 h l); lia.
Qed.

(* the question read from a request whose QNAME is uncompressed: its octets *)
Theorem question_octets req r1 q : wf_bytes req -> 12 <= length req ->
  read_question (r0_of req) = (r1, Ok q) -> qname_uncompressed req ->
  exists ls, Reader.q_name q = name_of ls /\ labels_of (Reader.q_name q) = ls /\
    r_cursor r1 = 12 + length (nm_wire ls ++ be16 (Reader.q_type q) ++ be16 (Reader.q_class q)) /\
    slice req 12 (r_cursor r1) = nm_wire ls ++ be16 (Reader.q_type q) ++ be16 (Reader.q_class q).
Proof.
  intros Hw H12 E [e0 U]. pose proof (read_question_facts (r0_of req) (r0_inv req Hw H12)) as (_ & _ & _ & F).
  rewrite E in F. cbn [fst snd] in F. destruct (F q eq_refl) as (ls & D & Nm & _). exists ls.
  cbn [r_octets r_cursor r0_of] in D. remember (r_cursor r1) as c1 eqn:Hc1.
  inversion D as [ls' l qt qc DN Sq Sc Hend]; subst ls' qt qc.
  destruct DN as (e & De & Hl & Hlen).
  unfold s_first_name in U. destruct (s_name_end_nc _ _ _ _ _ De _ _ _ U) as [-> Hs].
  pose proof (decodes_end_le _ _ _ _ _ De) as [Hlt Hle].
  assert (El : 12 + l = e) by lia. rewrite El in *. assert (Hend : c1 = e + 4) by lia. clear Hc1. subst c1.
  split; [exact Nm|]. split.
  { rewrite Nm. apply labels_of_name_of. eapply decodes_labels_valid; eauto. }
  assert (L16 : forall v, length (be16 v) = 2) by reflexivity.
  assert (Lw : length (nm_wire ls) = e - 12).
  { change (nm_wire ls) with (wire_of ls). rewrite <- Hs. rewrite slice_length; lia. }
  pose proof (sbe16_slice _ _ _ Hw Sq) as S1. pose proof (sbe16_slice _ _ _ Hw Sc) as S2.
  split.
  - rewrite !app_length, !L16, Lw. lia.
  - replace (e + 4) with (e + 2 + 2) by lia.
    rewrite (slice_app req 12 e (e + 2 + 2)) by lia. rewrite (slice_app req e (e + 2) (e + 2 + 2)) by lia.
    rewrite Hs, S1, S2. reflexivity.
Qed.

(* ---------- glue: request octets = response octets ---------- *)
Theorem respond_w_echo req r1 q negttl buf tcp id rd edns limit z len b : wf_bytes req -> 12 <= length req ->
  read_question (r0_of req) = (r1, Ok q) -> qname_uncompressed req ->
  respond_w negttl buf tcp id rd (labels_of (Reader.q_name q)) (Reader.q_type q) (Reader.q_class q) edns limit z = Some (len, b) ->
  r_cursor r1 <= len /\ slice b 12 (r_cursor r1) = slice req 12 (r_cursor r1).
Proof.
  intros Hw H12 E U R. destruct (question_octets req r1 q Hw H12 E U) as (ls & _ & Lb & Hc & Hs).
  rewrite Lb in R. destruct (respond_w_question _ _ _ _ _ _ _ _ _ _ _ _ _ R) as [A B]. cbv zeta in *.
  rewrite Hs, Hc. split; [exact B|exact A].
Qed.

Theorem respond_plain_echo req r1 q buf tcp id rd edns limit rcode len b : wf_bytes req -> 12 <= length req ->
  read_question (r0_of req) = (r1, Ok q) -> qname_uncompressed req ->
  respond_plain buf tcp id rd (labels_of (Reader.q_name q)) (Reader.q_type q) (Reader.q_class q) edns limit rcode = Some (len, b) ->
  r_cursor r1 <= len /\ slice b 12 (r_cursor r1) = slice req 12 (r_cursor r1).
Proof.
  intros Hw H12 E U R. destruct (question_octets req r1 q Hw H12 E U) as (ls & _ & Lb & Hc & Hs).
  rewrite Lb in R. destruct (respond_plain_question _ _ _ _ _ _ _ _ _ _ _ _ R) as [A B]. cbv zeta in *.
  rewrite Hs, Hc. split; [exact B|exact A].
Qed.

(* and the prepared writer every such response starts from *)
Theorem prepare_w_echo req r1 q buf tcp id rd edns limit w : wf_bytes req -> 12 <= length req ->
  read_question (r0_of req) = (r1, Ok q) -> qname_uncompressed req ->
  prepare_w buf tcp id rd (labels_of (Reader.q_name q)) (Reader.q_type q) (Reader.q_class q) edns limit = Some w ->
  MsgWriter.w_rr_start w = r_cursor r1 /\ slice (MsgWriter.w_buf w) 12 (r_cursor r1) = slice req 12 (r_cursor r1).
Proof.
  intros Hw H12 E U R. destruct (question_octets req r1 q Hw H12 E U) as (ls & _ & Lb & Hc & Hs).
  rewrite Lb in R. destruct (prepare_QK _ _ _ _ _ _ _ _ _ _ R) as (_ & A & B).
  rewrite Hs, Hc. split; [exact A|exact B].
Qed.

(* end to end: whenever the server model answers with a question, that question was read from the
   request, and every response the byte-level composition builds for it repeats the request's
   question octets *)
Theorem handle_message_echo answer verify cfg req w q : wf_cfg cfg -> wf_bytes req ->
  handle_message answer verify cfg req = Ok (Some w) -> Server.w_question w = Some q -> qname_uncompressed req ->
  exists r1, read_question (r0_of req) = (r1, Ok q) /\ 12 <= length req /\
    (forall negttl buf tcp id rd edns limit z len b,
       respond_w negttl buf tcp id rd (labels_of (Reader.q_name q)) (Reader.q_type q) (Reader.q_class q) edns limit z = Some (len, b) ->
       r_cursor r1 <= len /\ slice b 12 (r_cursor r1) = slice req 12 (r_cursor r1)) /\
    (forall buf tcp id rd edns limit rcode len b,
       respond_plain buf tcp id rd (labels_of (Reader.q_name q)) (Reader.q_type q) (Reader.q_class q) edns limit rcode = Some (len, b) ->
       r_cursor r1 <= len /\ slice b 12 (r_cursor r1) = slice req 12 (r_cursor r1)).
Proof.
  intros Hc Hw H Q U. destruct (handle_message_response answer verify cfg req w Hc Hw H) as (_ & QE & _).
  assert (H12 : 12 <= length req).
  { destruct (le_lt_dec 12 (length req)) as [X|X]; [exact X|]. exfalso.
    pose proof (proj2 (handle_message_silent_iff answer verify cfg req Hc Hw) (or_introl X)) as S0. congruence. }
  unfold question_echo in QE. rewrite Q in QE. destruct QE as [QE|(_ & r1 & q' & RQ & QE)]; [discriminate|].
  inversion QE; subst q'. exists r1. split; [exact RQ|]. split; [exact H12|]. split.
  - intros. eapply respond_w_echo; eauto.
  - intros. eapply respond_plain_echo; eauto.
Qed.
