(* Composition, part 12 (C04 clause (iv) in general; a bridge from the octet-level answer to C05):
   whenever the answering logic succeeds on the octet-level Writer, the abstract message of its trace is
   the response of the IDEALISED run (Model/Query.v on rec_iface, the subject of C05: = resolve) —
   answer and authority sections equal, additional section = the idealised one with some of its
   OPTIONAL tail omitted (records added under execute_allowing_truncation), never a mandatory record.
   Both runs are the same Gallina function on two interfaces; they share every zone lookup and RDATA
   parse, so each lemma unfolds both and follows the Writer's outcomes. *)
From QV Require Import Base.ListX Gen.ZoneConsts Gen.QueryConsts Model.NameWire Model.MsgWriter Model.ZoneTree
  Spec.ZoneLookupS Proofs.ZoneBaseP Proofs.ZoneInvP Proofs.ZoneTopP Model.Query Model.QueryW
  Spec.NameWireS Spec.MsgWriterS Spec.MsgWriterAbsS Spec.RespS
  Proofs.MsgWriterP Proofs.MsgWriterScanP Proofs.MsgWriterNameP Proofs.MsgWriterInvP Proofs.MsgWriterOpP
  Proofs.MsgWriterStepP Proofs.MsgWriterDecP Proofs.MsgWriterHdrP Proofs.MsgWriterRtP
  Proofs.QueryNameP Proofs.QueryWfP Proofs.QueryP
  Proofs.ComposeTraceP Proofs.ComposeWfP Proofs.ComposeNameP Proofs.ComposeKeyP Proofs.ComposeTopP Proofs.ComposeRespP
  Proofs.ComposeTcP Proofs.ComposeGlueP.
Local Open Scope nat_scope.

(* a recorded record as an abstract record of the Writer's message (standard compression mode) *)
Definition q2a (q : qrr) : arr := mkAR (q_owner q) Standard (q_type q) (q_class q) (ttl_rfc (q_ttl q)) (q_rdata q).
Lemma q2a_map owner ty c ttl rds : map q2a (map (mk_qrr owner ty c ttl) rds) = map (mkAR owner Standard ty c (ttl_rfc ttl)) rds.
Proof. rewrite map_map. reflexivity. Qed.

Definition Rel (A : amsg) (r : recorder) : Prop :=
  am_mode A = Standard /\ am_an A = map q2a (rc_an r) /\ am_ns A = map q2a (rc_ns r).
(* exact: nothing omitted so far *)
Definition RelE (A : amsg) (r : recorder) : Prop := Rel A r /\ am_ar A = map q2a (rc_ar r).
(* a record whose owner is at/below the owner of some authority record (in particular: referral glue) *)
Definition in_bailiwick (ns : list qrr) (q : qrr) : Prop :=
  exists n, In n ns /\ eq_or_subdomain_of (q_owner q) (q_owner n) = true.
(* the additional section: a kept part M in both, then a sub-selection X of the idealised optional tail O;
   no record of the optional tail is in-bailiwick *)
Definition RelO (A : amsg) (r : recorder) : Prop :=
  Rel A r /\ exists M X Oq, am_ar A = M ++ X /\ map q2a (rc_ar r) = M ++ map q2a Oq /\ Sub X (map q2a Oq) /\
                            Forall (fun q => ~ in_bailiwick (rc_ns r) q) Oq.

Lemma RelE_O A r : RelE A r -> RelO A r.
Proof.
  intros [H E]. split; [exact H|]. exists (am_ar A), [], []. cbn [map]. rewrite !app_nil_r.
  split; [reflexivity|]. split; [congruence|]. split; constructor.
Qed.

Lemma RelE_secs A r r1 : RelE A r -> rc_an r1 = rc_an r -> rc_ns r1 = rc_ns r -> rc_ar r1 = rc_ar r -> RelE A r1.
Proof. intros [(M & An & Ns) Ar] E1 E2 E3. unfold RelE, Rel. rewrite E1, E2, E3. auto. Qed.

Lemma RelE_add A r s l : RelE A r ->
  RelE (add_rrs A (sec_of s) (map q2a l)) (rec_add s l r).
Proof.
  intros [(M & An & Ns) Ar]. destruct s; unfold RelE, Rel, add_rrs, rec_add; cbn; rewrite ?map_app; repeat split; congruence.
Qed.

Lemma RelE_flags A r aa tc rc : RelE A r -> RelE A (mk_rec aa tc rc (rc_an r) (rc_ns r) (rc_ar r)).
Proof. intros H. exact H. Qed.

Section Abs.
Variable req : N -> N -> bytes -> bytes -> bool.
Variable apex : name.
Variable cls : N.
Variable R : list record.
Variable z : zone.
Hypothesis Hinv : Inv req apex cls z R.
Hypothesis HR : Forall (fun r => Pz (fun _ _ => True) (r_type r) (r_rdata r)) R.
Hypothesis Hapex : good_name apex.
Hypothesis Hclass : (cls < 65536)%N.

(* ---------------------------------------------------------------- the idealised run, function by function *)

Definition addr_qs (owner : zname) (sbc : bool) : list qrr :=
  match zl (zone_lookup_addrs z owner false sbc) with
  | Some (AFound a aaaa _) =>
    (match a with Some (ttl, rds) => map (mk_qrr owner ZoneConsts.TYPE_A (z_class z) ttl) rds | None => [] end) ++
    (if (z_class z =? ZoneConsts.CLASS_IN)%N
     then match aaaa with Some (ttl, rds) => map (mk_qrr owner ZoneConsts.TYPE_AAAA ZoneConsts.CLASS_IN ttl) rds | None => [] end
     else [])
  | _ => []
  end.

Lemma addr_qs_rrs owner sbc : map q2a (addr_qs owner sbc) = addr_rrs z owner sbc.
Proof.
  unfold addr_qs, addr_rrs. destruct (zl (zone_lookup_addrs z owner false sbc)) as [[a aaaa sos|c ns| |]|]; try reflexivity.
  rewrite map_app. f_equal.
  - destruct a as [[t rds]|]; [apply q2a_map|reflexivity].
  - destruct (z_class z =? ZoneConsts.CLASS_IN)%N; [|reflexivity]. destruct aaaa as [[t rds]|]; [apply q2a_map|reflexivity].
Qed.

Lemma zl_addrs_some owner sbc : zl (zone_lookup_addrs z owner false sbc) <> None.
Proof.
  destruct (zone_lookup_addrs_refines req apex cls z R owner false sbc Hinv) as (r & Hz & _); [discriminate|].
  rewrite Hz. discriminate.
Qed.

Lemma rec_addrs owner h sbc r : add_additional_addresses rec_iface z owner h sbc r = Ok (rec_add SAr (addr_qs owner sbc) r).
Proof.
  pose proof (zl_addrs_some owner sbc) as NS. unfold add_additional_addresses, addr_qs.
  destruct (zl (zone_lookup_addrs z owner false sbc)) as [[a aaaa sos|c ns| |]|]; try congruence;
    try (rewrite rec_add_nil; reflexivity).
  destruct a as [[ta ra]|]; rewrite ?rec_add_rrset; cbn [app];
    destruct (z_class z =? ZoneConsts.CLASS_IN)%N; try destruct aaaa as [[tb rb]|]; rewrite ?rec_add_rrset, ?rec_add_add, ?app_nil_r, ?rec_add_nil; reflexivity.
Qed.

Definition rd_addr_qs (start : nat) (rd : bytes) : list qrr :=
  match read_name_from_rdata rd start with Ok nm => addr_qs nm false | _ => [] end.
Lemma rd_addr_qs_rrs start rds : map q2a (flat_map (rd_addr_qs start) rds) = flat_map (rd_addrs z start) rds.
Proof.
  induction rds as [|rd rds IH]; [reflexivity|]. cbn [flat_map]. rewrite map_app, IH. f_equal.
  unfold rd_addr_qs, rd_addrs. destruct (read_name_from_rdata rd start); try reflexivity. apply addr_qs_rrs.
Qed.

Definition parses (start : nat) (rd : bytes) : Prop := exists nm, read_name_from_rdata rd start = Ok nm.

Lemma rec_additional_loop start : forall rds v idx r, Forall (parses start) rds ->
  additional_loop rec_iface z start rds v idx r = Ok (tt, rec_add SAr (flat_map (rd_addr_qs start) rds) r).
Proof.
  induction rds as [|rd rds IH]; intros v idx r Hp; cbn [additional_loop flat_map]; [rewrite rec_add_nil; reflexivity|].
  inversion Hp as [|? ? [nm Hn] Hrest]; subst. unfold rd_addr_qs at 1. rewrite Hn. rewrite rec_addrs. cbn [allow_truncation].
  rewrite IH by exact Hrest. rewrite rec_add_add. reflexivity.
Qed.

(* a successful additional loop (on any interface) parsed every RDATA *)
Lemma additional_loop_parses {W} (wi : wiface W) start : forall rds v idx w x,
  additional_loop wi z start rds v idx w = Ok x -> Forall (parses start) rds.
Proof.
  induction rds as [|rd rds IH]; intros v idx w x H; [constructor|]. cbn [additional_loop] in H.
  destruct (read_name_from_rdata rd start) as [nm|e|] eqn:En; try discriminate.
  constructor; [exists nm; exact En|].
  destruct (allow_truncation (add_additional_addresses wi z nm (hint_from_vec v idx) false w)) as [[u w1]|e|]; try discriminate.
  eapply IH; eauto.
Qed.

Definition addl_qs (ty : N) (rds : list bytes) : list qrr :=
  if negb (existsb (N.eqb (z_class z)) ADDITIONAL_CLASSES) then []
  else match lookup_offset ADDITIONAL_TABLE ty with
       | Some start => flat_map (rd_addr_qs start) rds
       | None => []
       end.
Lemma addl_qs_rrs ty rds : map q2a (addl_qs ty rds) = addl_rrs z ty rds.
Proof.
  unfold addl_qs, addl_rrs. destruct (negb _); [reflexivity|]. destruct (lookup_offset _ _); [apply rd_addr_qs_rrs|reflexivity].
Qed.

Lemma rec_glue_loop : forall l v r,
  glue_loop rec_iface z l v r = Ok (tt, rec_add SAr (flat_map (fun t => addr_qs (snd t) true) l) r).
Proof.
  induction l as [|[idx n] l IH]; intros v r; cbn [glue_loop flat_map]; [rewrite rec_add_nil; reflexivity|].
  rewrite rec_addrs. cbn [lift_add]. rewrite IH, rec_add_add. reflexivity.
Qed.
Lemma rec_optional_loop : forall l v r,
  optional_loop rec_iface z l v r = Ok (tt, rec_add SAr (flat_map (fun t => addr_qs (snd t) true) l) r).
Proof.
  induction l as [|[idx n] l IH]; intros v r; cbn [optional_loop flat_map]; [rewrite rec_add_nil; reflexivity|].
  rewrite rec_addrs. cbn [allow_truncation]. rewrite IH, rec_add_add. reflexivity.
Qed.
Lemma flat_addr_qs_rrs sbc (l : list (nat * zname)) :
  map q2a (flat_map (fun t => addr_qs (snd t) sbc) l) = flat_map (fun t => addr_rrs z (snd t) sbc) l.
Proof. induction l as [|t l IH]; [reflexivity|]. cbn [flat_map]. rewrite map_app, IH, addr_qs_rrs. reflexivity. Qed.


Lemma addr_qs_owner owner sbc q : In q (addr_qs owner sbc) -> q_owner q = owner.
Proof.
  unfold addr_qs. destruct (zl (zone_lookup_addrs z owner false sbc)) as [[a aaaa sos|c ns| |]|]; try (intros []).
  intros H. apply in_app_or in H. destruct H as [H|H].
  - destruct a as [[t rds]|]; [|destruct H]. apply in_map_iff in H as (rd & <- & _). reflexivity.
  - destruct (z_class z =? ZoneConsts.CLASS_IN)%N; [|destruct H]. destruct aaaa as [[t rds]|]; [|destruct H].
    apply in_map_iff in H as (rd & <- & _). reflexivity.
Qed.

Lemma referral_names_adds child : forall rds idx glues adds, referral_names child rds idx = Ok (glues, adds) ->
  forall i nm, In (i, nm) adds -> eq_or_subdomain_of nm child = false.
Proof.
  induction rds as [|rd rds IH]; intros idx glues adds; cbn [referral_names].
  - intros H. inversion H; subst. intros i nm [].
  - destruct (read_name_from_rdata rd 0) as [n|e|]; cbn [bind]; try discriminate.
    destruct (referral_names child rds (S idx)) as [[g1 a1]|e|] eqn:Ern; cbn [bind]; try discriminate.
    destruct (eq_or_subdomain_of n child) eqn:En; intros H; inversion H; subst; intros i nm Hin.
    + eapply IH; eauto.
    + destruct Hin as [E|Hin]; [inversion E; subst; exact En|eapply IH; eauto].
Qed.

(* ---------------------------------------------------------------- both runs, function by function *)
Variable Pop : wop -> Prop.
Hypothesis Hpop_rrset : forall s hs owner ty cl ttl rds vec, Pop (OAddRrset s hs owner ty cl ttl rds vec).
Hypothesis Hpop_rr : forall s hs owner ty cl ttl rd vec, Pop (OAddRr s hs owner ty cl ttl rd vec).
Hypothesis Hpop_aa : forall b, Pop (OSetAa b).
Hypothesis Hpop_rc : Pop (OSetRcode RCODE_NXDOMAIN).      (* the only RCODE the answering logic itself sets *)
Variable negttl : N -> N -> N.
Variable d0 : dstate.
Variable g0 : gn.
Variable A0 : amsg.

Notation Pz0 := (Pz (fun _ _ => True)).
Notation StA := (StA Pop d0 g0 A0).
Notation StA_step := (StA_step cls Hclass Pop d0 g0 A0).

Lemma zcA : z_class z = cls. Proof. destruct Hinv as (_ & H & _). exact H. Qed.
Lemma znA : zone_name z = apex. Proof. destruct Hinv as (H & _ & _). exact H. Qed.
Lemma zc16A : (z_class z < 65536)%N. Proof. rewrite zcA. exact Hclass. Qed.

Definition QC {T} (d : dstate) (g : gn) (Post : amsg -> recorder -> Prop)
    (q : res (perr * writer) (T * writer)) (qr : res (perr * recorder) (T * recorder)) : Prop :=
  match q with
  | Ok (t, w') => exists d' g' A' r', StA d' g' A' /\ d_w d' = w' /\ Frame d g d' g' /\ qr = Ok (t, r') /\ Post A' r'
  | Err _ => True
  | Panic => False
  end.

Lemma QC_frame {T} d g d1 g1 Post (q : res (perr * writer) (T * writer)) qr :
  Frame d g d1 g1 -> QC d1 g1 Post q qr -> QC d g Post q qr.
Proof.
  intros F. destruct q as [[t w']|e|]; cbn [QC]; auto. intros (d' & g' & A' & r' & H1 & H2 & H3 & H4).
  exists d', g', A', r'. split; [exact H1|]. split; [exact H2|]. split; [eapply Frame_trans; eauto|exact H4].
Qed.
Lemma QC_weaken {T} d g (P P' : amsg -> recorder -> Prop) (q : res (perr * writer) (T * writer)) qr :
  (forall A r, P A r -> P' A r) -> QC d g P q qr -> QC d g P' q qr.
Proof.
  intros HP. destruct q as [[t w']|e|]; cbn [QC]; auto. intros (d' & g' & A' & r' & H1 & H2 & H3 & H4 & H5).
  exists d', g', A', r'. auto 10.
Qed.

(* a single record, any section *)
Lemma StA_add_rr d g A s h hs owner ty ttl rd : StA d g A -> hint_agrees (d_regs d) h hs ->
  good_name owner -> good_rd rd -> (ty < 65536)%N -> hs_contract (d_regs d) g hs owner ->
  match wi_add_rr w_iface s h owner ty (z_class z) ttl rd (d_w d) with
  | Ok w' => exists d' g', StA d' g' (add_rrs A (sec_of s) [mkAR owner (am_mode A) ty (z_class z) (ttl_rfc ttl) rd]) /\
               d_w d' = w' /\ d_regs d' = d_regs d /\ g_regs g' = g_regs g /\
               ghost_rr_ok g g' owner (rd_names (component_types (z_class z) ty) rd) true
  | Err _ => True
  | Panic => False
  end.
Proof.
  intros HS Hh [Hn1 Hn2] [Hr1 Hr2] Hty Hc.
  set (o := OAddRr (sec_of s) hs owner ty (z_class z) ttl rd false).
  assert (Hok : op_ok Pop o).
  { split; [split; auto|]. split; [split; [exact Hn2|split; [exact Hty|split; [apply zc16A|exact Hr2]]]|]. split; [exact I|apply Hpop_rr]. }
  assert (Hoc : op_contract d g o) by (intros _; exact Hc).
  destruct (StA_step d g A o HS Hok Hoc (stops_rr _ _ _ _ _ _ _ _)) as (d' & r & E & HS').
  pose proof (StA_regs_len _ _ _ _ _ _ _ HS) as L0. pose proof (StA_regs_len _ _ _ _ _ _ _ HS') as L1.
  unfold o in E. cbn [step] in E. rewrite Hh in E. cbn [wi_add_rr w_iface].
  destruct (add_section_rr (sec_of s) (hint_of h) owner ty (z_class z) (ttl_from ttl) rd None (d_w d)) as [[v w']|[e w']|];
    cbn [of_Mv] in E; inversion E; subst d' r; clear E; [|exact I].
  unfold o in L1. cbn [gstep g_regs d_regs] in L1. rewrite app_nil_r in L1.
  pose proof (app_same_len _ _ _ L1 L0) as Hx.
  exists (mkD w' (d_regs d ++ match v with Some l => [l] | None => [] end)), (gstep d g o RUnit).
  split; [exact HS'|]. cbn [d_w d_regs]. rewrite Hx, app_nil_r. split; [reflexivity|]. split; [reflexivity|].
  unfold o. cbn [gstep g_regs g_q g_o g_r]. rewrite app_nil_r. repeat split; reflexivity.
Qed.

(* header setters: the abstract message does not move *)
Lemma StA_set_aa d g A b : StA d g A ->
  exists w', wi_set_aa w_iface b (d_w d) = Some w' /\ StA (mkD w' (d_regs d)) g A.
Proof.
  intros HS. destruct (StA_step d g A (OSetAa b) HS) as (d' & r & E & HS'); [repeat split; auto; exact I|exact I|reflexivity|].
  cbn [step] in E. cbn [wi_set_aa w_iface].
  pose proof (w_modify_no_err (d_w d) Consts.AA_BYTE (set_bit Consts.AA_MASK b)) as NE.
  unfold set_aa, w_set_flag in *. destruct (w_modify (d_w d) Consts.AA_BYTE (set_bit Consts.AA_MASK b)) as [w'|e|]; cbn [of_R] in E; inversion E; subst.
  - exists w'. split; [reflexivity|]. exact HS'.
  - exfalso. eapply NE; reflexivity.
Qed.
Lemma StA_set_rcode d g A : StA d g A ->
  exists w', wi_set_rcode w_iface RCODE_NXDOMAIN (d_w d) = Some w' /\ StA (mkD w' (d_regs d)) g A.
Proof.
  intros HS. destruct (StA_step d g A (OSetRcode RCODE_NXDOMAIN) HS) as (d' & r & E & HS');
    [split; [exact I|split; [exact I|split; [reflexivity|exact Hpop_rc]]]|exact I|reflexivity|].
  cbn [step] in E. cbn [wi_set_rcode w_iface]. unfold set_rcode in *.
  match type of E with context [w_modify ?a ?b ?c] => pose proof (w_modify_no_err a b c) as NE; destruct (w_modify a b c) as [w'|e|] end;
    cbn [bind of_R] in E; inversion E; subst.
  - eexists. split; [reflexivity|]. exact HS'.
  - exfalso. eapply NE; reflexivity.
Qed.

(* ---- the negative-caching SOA: exact *)
Lemma negsoa_C d g A r : StA d g A -> RelE A r ->
  QC d g RelE (add_negative_caching_soa w_iface negttl z (d_w d)) (add_negative_caching_soa rec_iface negttl z r).
Proof.
  intros HS HRel.
  destruct (zone_lookup_refines req apex cls z R apex 6 true false Hinv (fun _ => in_zone_apex' apex)) as (lr & Hz & Hs).
  pose proof (zone_soa_lookup z) as L. rewrite znA in L. change ZoneConsts.TYPE_SOA with 6%N in L.
  rewrite L in Hz. inversion Hz as [Hr]. clear Hz L.
  pose proof (spec_lookup_good req apex cls R Pz0 HR _ _ _ _ _ Hs) as G.
  unfold add_negative_caching_soa.
  destruct (zone_soa z) as [[ttl rds]|]; [|exact I].
  subst lr. cbn [lookup_good] in G. destruct G as [GP _]. cbn [snd] in GP.
  destruct rds as [|rd rest]; [exact I|].
  inversion GP as [|? ? (Grd & _ & _) _]; subst. pose proof Grd as [Hrd _].
  pose proof (soa_minimum_spec rd Hrd) as Hm.
  destruct (read_soa_minimum rd) as [m|e|]; [| |contradiction]; [|exact I].
  assert (Hown : good_name (zone_name z)) by (rewrite znA; exact Hapex).
  pose proof (StA_add_rr d g A SNs QhNone HsNone (zone_name z) ZoneConsts.TYPE_SOA (negttl ttl m) rd HS eq_refl Hown Grd eq_refl I) as X.
  rewrite rec_add_rr. cbn [lift_add].
  destruct (wi_add_rr w_iface SNs QhNone (zone_name z) ZoneConsts.TYPE_SOA (z_class z) (negttl ttl m) rd (d_w d)) as [w1|[e w1]|]; cbn [QC]; auto.
  destruct X as (d1 & g1 & HS1 & Hw1 & Hr1 & Hg1 & (Gq & _)). eexists d1, g1, _, _. split; [exact HS1|]. split; [exact Hw1|].
  split; [split; [exact Gq|]; split; apply prefix_eq; auto|]. split; [reflexivity|].
  pose proof HRel as [(Hm' & _) _]. rewrite Hm'.
  exact (RelE_add A r SNs [mk_qrr (zone_name z) ZoneConsts.TYPE_SOA (z_class z) (negttl ttl m) rd] HRel).
Qed.

(* ---- additional-section processing on the idealised run, given that the Writer's run got through *)
Lemma additional_rec ty rs v vr w x r : do_additional_section_processing w_iface z ty rs v w = Ok x ->
  do_additional_section_processing rec_iface z ty rs vr r = Ok (tt, rec_add SAr (addl_qs ty (snd rs)) r).
Proof.
  unfold do_additional_section_processing, addl_qs.
  destruct (negb (existsb (N.eqb (z_class z)) ADDITIONAL_CLASSES)); [intros _; rewrite rec_add_nil; reflexivity|].
  destruct (lookup_offset ADDITIONAL_TABLE ty) as [start|]; [|intros _; rewrite rec_add_nil; reflexivity].
  intros H. apply additional_loop_parses in H. apply rec_additional_loop. exact H.
Qed.

(* ---- a positive answer *)
Lemma found_C h hs hr owner ty rs d g A r : StA d g A -> RelE A r -> rc_ns r = [] -> good_name owner -> single_good Pz0 ty rs ->
  hint_agrees (d_regs d) h hs -> hs_contract (d_regs d) g hs owner ->
  QC d g RelO (add_found w_iface z h owner ty rs (d_w d)) (add_found rec_iface z hr owner ty rs r).
Proof.
  intros HS HRel Hns0 Gn Gs Hh Hc. pose proof HRel as [(Hm & Han & Hns) Har].
  pose proof (found_A req apex cls R z Hinv HR Hclass Pop Hpop_rrset d0 g0 A0 h hs owner ty rs d g A HS Hm Gn Gs Hh Hc) as Q.
  destruct (add_found w_iface z h owner ty rs (d_w d)) as [[u w']|e|] eqn:Ef; cbn [QSA QC] in Q |- *; auto.
  destruct Q as (d' & g' & A' & HS' & Hw' & F & Hm' & Ean & Ens & (X & Ear & HsubX)).
  (* the idealised run *)
  assert (Er : add_found rec_iface z hr owner ty rs r =
               Ok (tt, rec_add SAr (addl_qs ty (snd rs)) (rec_add SAn (map (mk_qrr owner ty (z_class z) (fst rs)) (snd rs)) r))).
  { unfold add_found in Ef |- *. rewrite rec_add_rrset. cbn [lift_addv].
    destruct (wi_add_rrset w_iface SAn h owner ty (z_class z) (fst rs) (snd rs) true (d_w d)) as [[v w1]|[e w1]|]; cbn [lift_addv] in Ef; try discriminate.
    eapply additional_rec; eauto. }
  destruct u. eexists d', g', A', _. split; [exact HS'|]. split; [exact Hw'|]. split; [exact F|]. split; [exact Er|].
  split.
  - unfold Rel, rec_add. cbn. rewrite map_app, q2a_map. repeat split; congruence.
  - exists (am_ar A), X, (addl_qs ty (snd rs)). split; [exact Ear|]. split; [|split].
    + unfold rec_add. cbn. rewrite map_app. congruence.
    + rewrite addl_qs_rrs. exact HsubX.
    + apply Forall_forall. intros q _ (n & Hn & _). unfold rec_add in Hn. cbn in Hn. rewrite Hns0 in Hn. destruct Hn.
Qed.

(* ---- a referral *)
Lemma referral_C child ns d g A r : StA d g A -> RelE A r -> rc_ns r = [] -> good_name child -> Forall (Pz0 2%N) (snd ns) ->
  QC d g RelO (do_referral w_iface z child ns (d_w d)) (do_referral rec_iface z child ns r).
Proof.
  intros HS HRel Hns0 Gc GP. pose proof HRel as [(Hm & Han & Hns) Har].
  pose proof (referral_A req apex cls R z Hinv HR Hclass Pop Hpop_rrset d0 g0 A0 child ns d g A HS Hm Gc GP) as Q.
  destruct (do_referral w_iface z child ns (d_w d)) as [[u w']|e|] eqn:Ef; cbn [QSA QC] in Q |- *; auto.
  destruct Q as (d' & g' & A' & HS' & Hw' & F & Hm' & Ean & Ens & (X & Ear & HsubX)).
  (* the idealised run: the same referral_names *)
  unfold do_referral in Ef |- *. rewrite rec_add_rrset. cbn [lift_addv].
  destruct (wi_add_rrset w_iface SNs QhNone child ZoneConsts.TYPE_NS (z_class z) (fst ns) (snd ns) true (d_w d)) as [[v w1]|[e w1]|]; cbn [lift_addv] in Ef; try discriminate.
  unfold glue_rrs, opt_rrs in *.
  destruct (referral_names child (snd ns) 0) as [[glues adds]|e|] eqn:Ern; try discriminate.
  rewrite rec_glue_loop, rec_optional_loop.
  destruct u. eexists d', g', A', _. split; [exact HS'|]. split; [exact Hw'|]. split; [exact F|]. split; [reflexivity|].
  split.
  - unfold Rel, rec_add. cbn. rewrite map_app, q2a_map. repeat split; congruence.
  - exists (am_ar A ++ flat_map (fun t => addr_rrs z (snd t) true) glues), X, (flat_map (fun t => addr_qs (snd t) true) adds).
    split; [rewrite Ear, app_assoc; reflexivity|]. split; [|split].
    + unfold rec_add. cbn. rewrite !map_app, Har. rewrite (flat_addr_qs_rrs true glues). reflexivity.
    + rewrite flat_addr_qs_rrs. exact HsubX.
    + apply Forall_forall. intros q Hq (n & Hn & Hsub).
      apply in_flat_map in Hq as ([i nm] & Hin & Hq). cbn [snd] in Hq. apply addr_qs_owner in Hq.
      unfold rec_add in Hn. cbn in Hn. rewrite Hns0 in Hn. cbn [app] in Hn. apply in_map_iff in Hn as (rd & <- & _). cbn [q_owner] in Hsub.
      rewrite Hq in Hsub. rewrite (referral_names_adds child _ _ _ _ Ern i nm Hin) in Hsub. discriminate.
Qed.


(* ---- set_rcode / set_aa in front of a continuation, on both runs *)
Lemma set_rcode_QC {T} d g A r (Post : amsg -> recorder -> Prop)
    (k : writer -> res (perr * writer) (T * writer)) (kr : recorder -> res (perr * recorder) (T * recorder)) :
  StA d g A -> RelE A r ->
  (forall d1 r1, StA d1 g A -> d_regs d1 = d_regs d -> RelE A r1 -> rc_ns r1 = rc_ns r -> QC d1 g Post (k (d_w d1)) (kr r1)) ->
  QC d g Post (match lift_set (wi_set_rcode w_iface RCODE_NXDOMAIN (d_w d)) with Ok (_, w1) => k w1 | Err e => Err e | Panic => Panic end)
              (match lift_set (wi_set_rcode rec_iface RCODE_NXDOMAIN r) with Ok (_, r1) => kr r1 | Err e => Err e | Panic => Panic end).
Proof.
  intros HS HRel Hk. destruct (StA_set_rcode d g A HS) as (w' & E & HS'). rewrite E, rec_set_rcode. cbn [lift_set].
  apply (QC_frame d g (mkD w' (d_regs d)) g); [split; [reflexivity|split; apply prefix_refl]|].
  apply (Hk (mkD w' (d_regs d))); auto.
Qed.
Lemma set_aa_then_QC d g A r (Post : amsg -> recorder -> Prop)
    (k : writer -> res (perr * writer) (unit * writer)) (kr : recorder -> res (perr * recorder) (unit * recorder)) :
  StA d g A -> RelE A r ->
  (forall d1 r1, StA d1 g A -> d_regs d1 = d_regs d -> RelE A r1 -> rc_ns r1 = rc_ns r -> QC d1 g Post (k (d_w d1)) (kr r1)) ->
  QC d g Post (set_aa_then w_iface k (d_w d)) (set_aa_then rec_iface kr r).
Proof.
  intros HS HRel Hk. unfold set_aa_then. destruct (StA_set_aa d g A true HS) as (w' & E & HS'). rewrite E, rec_set_aa. cbn [lift_set].
  apply (QC_frame d g (mkD w' (d_regs d)) g); [split; [reflexivity|split; apply prefix_refl]|].
  apply (Hk (mkD w' (d_regs d))); auto.
Qed.

Variable qname : zname.
Hypothesis Hqn : good_name qname.

(* ---- CNAME chains *)
Lemma cname_C ty : forall fuel cn os d g A r, StA d g A -> RelE A r -> rc_ns r = [] -> Gq qname g -> Forall (Pz0 5%N) (snd cn) ->
  1 <= fuel -> length os + fuel = 8 ->
  (forall o, Query.last_opt os = Some o -> good_name o /\ g_r g = Some o) ->
  QC d g RelO (follow_cname_1 w_iface negttl z fuel qname ty cn os (d_w d)) (follow_cname_1 rec_iface negttl z fuel qname ty cn os r).
Proof.
  induction fuel as [|fuel IH]; intros cn os d g A r HS HRel Hns0 HGq Hrds Hf Hlen Hlast; [lia|].
  cbn [follow_cname_1].
  destruct (snd cn) as [|rd rest] eqn:Ecn; [exact I|].
  inversion Hrds as [|? ? (Grd & _ & _) _]; subst. pose proof Grd as [Hrd _].
  pose proof (name_from_all_no_panic rd) as NP.
  destruct (name_from_all rd) as [[[cname wire]|]|e|] eqn:En; try congruence; try exact I.
  destruct (name_from_all_facts _ _ _ Hrd En) as (-> & Hne & Gcn & _).
  destruct (zname_eqb cname qname || existsb (zname_eqb cname) os); [exact I|].
  pose proof HRel as [(Hm & _) _].
  assert (Hstep : forall h hs owner, good_name owner -> hint_agrees (d_regs d) h hs -> hs_contract (d_regs d) g hs owner ->
    QC d g RelO
       (match rd with
        | [] => Panic
        | _ :: _ =>
          match lift_add (wi_add_rr w_iface SAn h owner ZoneConsts.TYPE_CNAME (z_class z) (fst cn) rd (d_w d)) with
          | Ok (_, w1) => follow_cname_2_body w_iface negttl z (follow_cname_1 w_iface negttl z fuel qname ty) qname cname ty os w1
          | Err e => Err e
          | Panic => Panic
          end
        end)
       (match rd with
        | [] => Panic
        | _ :: _ =>
          match lift_add (wi_add_rr rec_iface SAn h owner ZoneConsts.TYPE_CNAME (z_class z) (fst cn) rd r) with
          | Ok (_, r1) => follow_cname_2_body rec_iface negttl z (follow_cname_1 rec_iface negttl z fuel qname ty) qname cname ty os r1
          | Err e => Err e
          | Panic => Panic
          end
        end)).
  { intros h hs owner Gown Hh Hc. destruct rd as [|b0 rd']; [congruence|]. set (rd := b0 :: rd') in *.
    pose proof (StA_add_rr d g A SAn h hs owner ZoneConsts.TYPE_CNAME (fst cn) rd HS Hh Gown Grd eq_refl Hc) as X.
    rewrite rec_add_rr. cbn [lift_add].
    destruct (wi_add_rr w_iface SAn h owner ZoneConsts.TYPE_CNAME (z_class z) (fst cn) rd (d_w d)) as [w1|[e w1]|]; cbn [lift_add QC]; auto.
    destruct X as (d1 & g1 & HS1 & Hw1 & Hr1 & Hg1 & (Gq1 & Go1 & Gr1)). subst w1.
    assert (F1 : Frame d g d1 g1) by (split; [exact Gq1|split; apply prefix_eq; auto]).
    apply (QC_frame d g d1 g1 _ _ _ F1).
    assert (HGq1 : Gq qname g1) by (unfold Gq; rewrite Gq1; exact HGq).
    assert (Hgr : g_r g1 = Some cname).
    { rewrite Gr1. change ZoneConsts.TYPE_CNAME with TYPE_CNAME. rewrite (cname_rd_names (z_class z) rd cname rd Hrd En). reflexivity. }
    rewrite Hm in HS1.
    set (A1 := add_rrs A (sec_of SAn) [mkAR owner Standard ZoneConsts.TYPE_CNAME (z_class z) (ttl_rfc (fst cn)) rd]) in *.
    set (r1 := rec_add SAn [mk_qrr owner ZoneConsts.TYPE_CNAME (z_class z) (fst cn) rd] r).
    assert (HRel1 : RelE A1 r1) by (exact (RelE_add A r SAn [mk_qrr owner ZoneConsts.TYPE_CNAME (z_class z) (fst cn) rd] HRel)).
    assert (Hns1 : rc_ns r1 = []) by exact Hns0.
    unfold follow_cname_2_body.
    destruct (zone_lookup_refines req apex cls z R cname ty false false Hinv) as (lr & Hz & Hs); [discriminate|].
    rewrite Hz. cbn [zl].
    pose proof (spec_lookup_good req apex cls R Pz0 HR _ _ _ _ _ Hs) as G.
    destruct lr as [s sos|next sos|c ns|sos| |]; cbn [lookup_good] in G.
    - apply (found_C QhRdata HsRdata QhRdata cname ty s d1 g1 A1 r1); auto; [reflexivity|].
      cbn [hs_contract]. intros m Hm'. rewrite Hgr in Hm'. inversion Hm'; subst. apply name_eq_refl.
    - destruct G as [GP _].
      destruct (_ <? PREVIOUS_OWNERS_CAP) eqn:L; change PREVIOUS_OWNERS_CAP with 7 in L; [|exact I].
      apply Nat.ltb_lt in L.
      assert (Hfu : 1 <= fuel /\ length (os ++ [cname]) + fuel = 8).
      { rewrite app_length. cbn [length]. unfold zname, ZoneTree.name, ZoneTree.label, wname, bytes in *. lia. }
      apply (IH next (os ++ [cname]) d1 g1 A1 r1); auto; try tauto.
      intros o Ho. rewrite last_opt_snoc in Ho. inversion Ho; subst. auto.
    - destruct G as [GP Gs]. apply (referral_C c ns d1 g1 A1 r1); auto. eapply good_name_suffix; eauto.
    - eapply QC_weaken; [apply RelE_O|]. apply (negsoa_C d1 g1 A1 r1); auto.
    - apply (set_rcode_QC d1 g1 A1 r1); auto. intros d2 r2 HS2 _ HRel2 _.
      eapply QC_weaken; [apply RelE_O|]. apply (negsoa_C d2 g1 A1 r2); auto.
    - exists d1, g1, A1, r1. split; [exact HS1|]. split; [reflexivity|]. split; [apply Frame_refl|]. split; [reflexivity|apply RelE_O; exact HRel1]. }
  destruct (Query.last_opt _) as [o|] eqn:Elast.
  - destruct (Hlast o eq_refl) as [Go Hgr]. apply (Hstep QhRdata HsRdata o Go); [reflexivity|].
    cbn [hs_contract]. intros m Hm'. rewrite Hgr in Hm'. inversion Hm'; subst. apply name_eq_refl.
  - apply (Hstep QhQname HsQname qname Hqn); [reflexivity|].
    cbn [hs_contract]. intros m Hm'. rewrite HGq in Hm'. inversion Hm'; subst. apply name_eq_refl.
Qed.


(* ---- ANY: one RRset after the other into the answer section, all mandatory *)
Lemma StA_add_rrset_s d g A s h hs owner ty ttl rds : StA d g A -> hint_agrees (d_regs d) h hs ->
  good_name owner -> Forall good_rd rds -> (ty < 65536)%N -> hs_contract (d_regs d) g hs owner ->
  match wi_add_rrset w_iface s h owner ty (z_class z) ttl rds false (d_w d) with
  | Ok (_, w') => exists d' g', StA d' g' (add_rrs A (sec_of s) (map (mkAR owner (am_mode A) ty (z_class z) (ttl_rfc ttl)) rds)) /\
               d_w d' = w' /\ d_regs d' = d_regs d /\ g_regs g' = g_regs g /\ g_q g' = g_q g
  | Err _ => True
  | Panic => False
  end.
Proof.
  intros HS Hh [Hn1 Hn2] Hr Hty Hc. destruct (good_rds_split _ Hr) as [Hr1 Hr2].
  set (o := OAddRrset (sec_of s) hs owner ty (z_class z) ttl rds false).
  assert (Hok : op_ok Pop o).
  { split; [split; auto|]. split; [split; [exact Hn2|split; [exact Hty|split; [apply zc16A|exact Hr2]]]|]. split; [exact I|apply Hpop_rrset]. }
  assert (Hoc : op_contract d g o) by (intros _; exact Hc).
  destruct (StA_step d g A o HS Hok Hoc (stops_rrset _ _ _ _ _ _ _ _)) as (d' & r & E & HS').
  pose proof (StA_regs_len _ _ _ _ _ _ _ HS) as L0. pose proof (StA_regs_len _ _ _ _ _ _ _ HS') as L1.
  unfold o in E. cbn [step] in E. rewrite Hh in E. cbn [wi_add_rrset w_iface].
  destruct (add_section_rrset (sec_of s) (hint_of h) owner ty (z_class z) (ttl_from ttl) rds None (d_w d)) as [[v w']|[e w']|];
    cbn [of_Mv] in E; inversion E; subst d' r; clear E; [|exact I].
  unfold o in L1. cbn [gstep g_regs d_regs] in L1. rewrite app_nil_r in L1.
  pose proof (app_same_len _ _ _ L1 L0) as Hx.
  exists (mkD w' (d_regs d ++ match v with Some l => [l] | None => [] end)), (gstep d g o RUnit).
  split; [exact HS'|]. cbn [d_w d_regs]. rewrite Hx, app_nil_r. split; [reflexivity|]. split; [reflexivity|].
  unfold o. cbn [gstep g_regs g_q]. rewrite app_nil_r. split; reflexivity.
Qed.

Lemma any_loop_C : forall rrsets n d g A r, StA d g A -> RelE A r -> Gq qname g ->
  Forall (fun x => Forall (Pz0 (rs_type x)) (rs_rdatas x) /\ rs_rdatas x <> []) rrsets ->
  QC d g RelE (any_loop w_iface z qname rrsets n (d_w d)) (any_loop rec_iface z qname rrsets n r).
Proof.
  induction rrsets as [|x rrsets IH]; intros n d g A r HS HRel HGq Hall; cbn [any_loop].
  - exists d, g, A, r. split; [exact HS|]. split; [reflexivity|]. split; [apply Frame_refl|]. split; [reflexivity|exact HRel].
  - inversion Hall as [|? ? (HxP & Hxne) Hrest]; subst. destruct (Pz_split _ _ _ HxP) as [Hx1 _]. pose proof (Pz_ty _ _ _ HxP Hxne) as Hx3.
    assert (Hc : hs_contract (d_regs d) g HsQname qname).
    { cbn [hs_contract]. intros m Hm. rewrite HGq in Hm. inversion Hm; subst. apply name_eq_refl. }
    pose proof (StA_add_rrset_s d g A SAn QhQname HsQname qname (rs_type x) (rs_ttl x) (rs_rdatas x) HS eq_refl Hqn Hx1 Hx3 Hc) as X.
    rewrite rec_add_rrset. cbn [lift_addv].
    destruct (wi_add_rrset w_iface SAn QhQname qname (rs_type x) (z_class z) (rs_ttl x) (rs_rdatas x) false (d_w d)) as [[v w1]|[e w1]|];
      cbn [lift_addv QC]; auto.
    destruct X as (d1 & g1 & HS1 & Hw1 & Hr1 & Hg1 & Gq1). subst w1.
    apply (QC_frame d g d1 g1); [split; [exact Gq1|split; apply prefix_eq; auto]|].
    pose proof HRel as [(Hm & _) _]. rewrite Hm in HS1. rewrite <- q2a_map in HS1.
    eapply IH; eauto.
    + exact (RelE_add A r SAn _ HRel).
    + unfold Gq. rewrite Gq1. exact HGq.
Qed.

Hypothesis Hzone : in_zone apex qname = true.

Lemma nxdomain_C d g A r : StA d g A -> RelE A r ->
  QC d g RelO (nxdomain w_iface negttl z (d_w d)) (nxdomain rec_iface negttl z r).
Proof.
  intros HS HRel. unfold nxdomain. apply (set_rcode_QC d g A r); auto. intros d1 r1 HS1 _ HRel1 _.
  apply (set_aa_then_QC d1 g A r1); auto. intros d2 r2 HS2 _ HRel2 _.
  eapply QC_weaken; [apply RelE_O|]. apply (negsoa_C d2 g A r2); auto.
Qed.

Lemma answer_C ty d g A r : StA d g A -> RelE A r -> rc_ns r = [] -> Gq qname g ->
  QC d g RelO (answer w_iface negttl z qname ty (d_w d)) (answer rec_iface negttl z qname ty r).
Proof.
  intros HS HRel Hns0 HGq. unfold answer.
  destruct (zone_lookup_refines req apex cls z R qname ty true false Hinv (fun _ => Hzone)) as (lr & Hz & Hs).
  rewrite Hz. cbn [zl].
  pose proof (spec_lookup_good req apex cls R Pz0 HR _ _ _ _ _ Hs) as G.
  pose proof (spec_lookup_not_wrong req apex cls R qname ty true false Hzone) as Hnw.
  destruct lr as [s sos|cn sos|c ns|sos| |]; cbn [lookup_good norm_lookup] in *.
  - apply (set_aa_then_QC d g A r); auto. intros d1 r1 HS1 Hr1 HRel1 Hns1.
    apply (found_C QhQname HsQname QhQname qname ty s d1 g A r1); auto; [congruence|reflexivity|].
    cbn [hs_contract]. intros m Hm. rewrite HGq in Hm. inversion Hm; subst. apply name_eq_refl.
  - destruct G as [GP _]. unfold do_cname. destruct (StA_set_aa d g A true HS) as (w' & E & HS'). rewrite E, rec_set_aa. cbn [lift_set].
    apply (QC_frame d g (mkD w' (d_regs d)) g); [split; [reflexivity|split; apply prefix_refl]|].
    change (S PREVIOUS_OWNERS_CAP) with 8.
    apply (cname_C ty 8 cn [] (mkD w' (d_regs d)) g A); auto; try (cbn; lia).
    intros o Ho. discriminate.
  - destruct G as [GP Gs]. apply (referral_C c ns d g A r); auto. eapply good_name_suffix; eauto.
  - apply (set_aa_then_QC d g A r); auto. intros d1 r1 HS1 _ HRel1 _.
    eapply QC_weaken; [apply RelE_O|]. apply (negsoa_C d1 g A r1); auto.
  - apply (nxdomain_C d g A r); auto.
  - congruence.
Qed.

Lemma answer_any_C d g A r : StA d g A -> RelE A r -> rc_ns r = [] -> Gq qname g ->
  QC d g RelO (answer_any w_iface negttl z qname (d_w d)) (answer_any rec_iface negttl z qname r).
Proof.
  intros HS HRel Hns0 HGq. unfold answer_any.
  destruct (zone_lookup_all_refines req apex cls z R qname true false Hinv (fun _ => Hzone)) as (lr & Hz & Hs).
  rewrite Hz. cbn [zl].
  pose proof (spec_all_good req apex cls R Pz0 HR _ _ _ _ Hs) as G.
  pose proof (spec_lookup_all_not_wrong req apex cls R qname true false Hzone) as Hnw.
  destruct lr as [rrsets sos|c ns| |]; cbn [all_good norm_all] in *.
  - apply (set_aa_then_QC d g A r); auto. intros d1 r1 HS1 _ HRel1 _.
    pose proof (any_loop_C rrsets 0 d1 g A r1 HS1 HRel1 HGq G) as Q.
    destruct (any_loop w_iface z qname rrsets 0 (d_w d1)) as [[n w2]|[e w2]|]; cbn [QC] in Q |- *; auto.
    destruct Q as (d2 & g2 & A2 & r2 & HS2 & Hw2 & F2 & Er2 & HRel2). rewrite Er2. subst w2.
    destruct (n =? 0).
    + apply (QC_frame d1 g d2 g2 _ _ _ F2). eapply QC_weaken; [apply RelE_O|]. apply (negsoa_C d2 g2 A2 r2); auto.
    + exists d2, g2, A2, r2. split; [exact HS2|]. split; [reflexivity|]. split; [exact F2|]. split; [reflexivity|apply RelE_O; exact HRel2].
  - destruct G as [GP Gs]. apply (referral_C c ns d g A r); auto. eapply good_name_suffix; eauto.
  - apply (nxdomain_C d g A r); auto.
  - congruence.
Qed.

End Abs.

(* ---------------------------------------------------------------- the theorem on the octets *)

Section AbsTop.
Variable reqf : N -> N -> bytes -> bytes -> bool.
Variable apex : name.
Variable cls : N.
Variable R : list record.
Variable z : zone.
Hypothesis Hinv : Inv reqf apex cls z R.
Hypothesis Hapex : good_name apex.
Hypothesis Hclass : (cls < 65536)%N.
Hypothesis HR : Forall (fun r => Pz (fun _ _ => True) (r_type r) (r_rdata r)) R.
Variable negttl : N -> N -> N.

Definition answering {W} (wi : wiface W) (qname : zname) (qtype : N) (w : W) : res (perr * W) (unit * W) :=
  if (qtype =? QTYPE_ANY)%N then answer_any wi negttl z qname w else answer wi negttl z qname qtype w.

Theorem respond_w_vs_ideal buf tcp id rd qname qtype qclass edns limit :
  512 <= length buf -> good_name qname -> in_zone apex qname = true ->
  (id < 65536)%N -> (qtype < 65536)%N -> (qclass < 65536)%N -> (forall s, edns = Some s -> (s < 65536)%N) ->
  exists w len b m,
    prepare_w buf tcp id rd qname qtype qclass edns limit = Some w /\
    respond_w negttl buf tcp id rd qname qtype qclass edns limit z = Some (len, b) /\
    decode_msg (firstn len b) = Some m /\
    match answering w_iface qname qtype w with
    | Ok _ =>
      exists r, answering rec_iface qname qtype rec_empty = Ok (tt, r) /\
        (forall tcp', handle_non_axfr_query rec_iface negttl z qname qtype tcp' rec_empty = Some r) /\
        Forall2 (rr_rel xparts) (map q2a (rc_an r)) (m_an m) /\
        Forall2 (rr_rel xparts) (map q2a (rc_ns r)) (m_ns m) /\
        exists M X Oq dsM dsX dsP,
          map q2a (rc_ar r) = M ++ map q2a Oq /\ Sub X (map q2a Oq) /\
          Forall (fun q => ~ in_bailiwick (rc_ns r) q) Oq /\
          m_ar m = dsM ++ dsX ++ dsP /\ Forall2 (rr_rel xparts) M dsM /\ Forall2 (rr_rel xparts) X dsX /\
          forallb is_pseudo dsP = true
    | _ => True
    end.
Proof.
  intros Hb Gq Hz Hid Hqt Hqc Hed.
  destruct (prepare_total buf tcp id rd qname qtype qclass edns limit Hb (proj2 Gq)) as (w & Ew).
  exists w.
  destruct (answering w_iface qname qtype w) as [[u w1]|e|] eqn:Edr.
  2:{ destruct (respond_w_tc reqf apex cls R z Hinv Hapex Hclass HR negttl buf tcp id rd qname qtype qclass edns limit
                  Hb Gq Hz Hid Hqt Hqc Hed) as (len & b & m & E1 & E2 & _). exists len, b, m. auto. }
  2:{ destruct (respond_w_tc reqf apex cls R z Hinv Hapex Hclass HR negttl buf tcp id rd qname qtype qclass edns limit
                  Hb Gq Hz Hid Hqt Hqc Hed) as (len & b & m & E1 & E2 & _). exists len, b, m. auto. }
  assert (Hhdr : forall o, match o with
    | OSetId _ | OSetQr true | OSetOpcode _ | OSetRd _ | OAddQuestion _ _ _ | OSetEdns _ | OSetLimit _ => Pop_t o
    | _ => True end).
  { intros o. destruct o; try exact I. destruct b; exact I. }
  destruct (prepare_Reach Pop_t Hhdr buf tcp id rd qname qtype qclass edns limit w Ew Gq Hid Hqt Hqc Hed) as (w0 & E0 & Rpre).
  set (pre := pre_ops tcp id rd qname qtype qclass edns limit) in *.
  set (opre := map (fun _ : wop => RUnit) pre) in *.
  destruct (Reach_AInv Pop_t _ _ _ _ _ _ Rpre L0 (AInv_new _ _ _ E0)) as (Lp & Hip).
  destruct (prepared_mode tcp id rd qname qtype qclass edns limit) as (Pm & Pan & Pns & Par). fold pre opre in Pm, Pan, Pns, Par.
  set (Ap := areplay am0 pre opre) in *.
  assert (Sp : StA Pop_t (mkD w0 []) g0 am0 (mkD w []) (g_prepared qname) Ap).
  { exists pre, opre, Lp. split; [exact Rpre|]. split; [exact Hip|reflexivity]. }
  assert (HRel0 : RelE Ap rec_empty).
  { unfold RelE, Rel. cbn [rec_empty rc_an rc_ns rc_ar map]. auto. }
  assert (Q : QC Pop_t (mkD w0 []) g0 am0 (mkD w []) (g_prepared qname) RelO
                 (answering w_iface qname qtype w) (answering rec_iface qname qtype rec_empty)).
  { unfold answering. destruct (qtype =? QTYPE_ANY)%N.
    - apply (answer_any_C reqf apex cls R z Hinv HR Hapex Hclass Pop_t (fun _ _ _ _ _ _ _ _ => I) (fun _ _ _ _ _ _ _ _ => I)
               (fun _ => I) I negttl (mkD w0 []) g0 am0 qname Gq Hz (mkD w []) (g_prepared qname) Ap rec_empty Sp HRel0 eq_refl eq_refl).
    - apply (answer_C reqf apex cls R z Hinv HR Hapex Hclass Pop_t (fun _ _ _ _ _ _ _ _ => I) (fun _ _ _ _ _ _ _ _ => I)
               (fun _ => I) I negttl (mkD w0 []) g0 am0 qname Gq Hz qtype (mkD w []) (g_prepared qname) Ap rec_empty Sp HRel0 eq_refl eq_refl). }
  rewrite Edr in Q. cbn [QC] in Q.
  destruct Q as (d3 & g3 & A3 & r3 & (ops & outs & L & Rall & Hi & HA) & Hw3 & _ & Er & ((Hm3 & Han & Hns) & (M & X & O & Har & Hro & HsubX & HnoB))).
  destruct (Reach_run Pop_t _ _ _ _ _ _ Rall) as (Hrun & Hrc & F1 & F2 & F3 & F4 & Hlen).
  destruct (MsgWriterStepP.finish_ok (fun x => x) d3 g3 L Hi) as (wF & LF & EF & _).
  exists (w_cursor wF), (w_buf wF).
  destruct (roundtrip_full buf _ w0 ops E0 Hrc F1 F2 F3) as (rr & Err & Hrt).
  assert (Hrr' : rr = mkRR outs (d_regs d3) (Some (w_cursor wF, w_buf wF))).
  { unfold run_writer, run_writer_gen in Err. rewrite E0 in Err. cbn [bind] in Err. rewrite Hrun in Err. cbn [bind] in Err.
    unfold finish in Err. rewrite EF in Err. cbn [bind] in Err. inversion Err. reflexivity. }
  subst rr. cbn [rr_final rr_outcomes] in Hrt.
  destruct Hrt as (m & Em & _ & _ & Hdan & Hdns & Hdar & _). rewrite <- HA in Hdan, Hdns, Hdar.
  exists m. split; [exact Ew|]. split.
  { unfold respond_w. rewrite Ew. unfold handle_non_axfr_query. unfold answering in Edr.
    destruct (qtype =? QTYPE_ANY)%N; rewrite Edr; rewrite <- Hw3; unfold finish; rewrite EF; reflexivity. }
  split; [exact Em|]. destruct u. exists r3. split; [exact Er|]. split.
  { intros tcp'. unfold handle_non_axfr_query. unfold answering in Er. destruct (qtype =? QTYPE_ANY)%N; rewrite Er; reflexivity. }
  rewrite Han in Hdan. rewrite Hns in Hdns. split; [exact Hdan|]. split; [exact Hdns|].
  rewrite Har in Hdar. rewrite <- app_assoc in Hdar.
  apply Forall2_app_inv_l in Hdar as (dM & drest & HM & Hrest & Eq).
  apply Forall2_app_inv_l in Hrest as (dX & dP & HX & HP & Eq2).
  exists M, X, O, dM, dX, dP. split; [exact Hro|]. split; [exact HsubX|]. split; [exact HnoB|]. split; [rewrite Eq, Eq2; reflexivity|].
  split; [exact HM|]. split; [exact HX|].
  assert (Hts : h_tsig (hreplay ah0 ops outs) = None) by (apply tsig_t_replay; [exact F4|reflexivity]).
  unfold pseudo_of in HP. rewrite Hts, app_nil_r in HP.
  destruct (h_edns _) as [[uu up]|].
  - inversion HP as [|a dd l l' Hd Hrest']; subst. inversion Hrest'; subst.
    destruct (opt_decoded _ _ _ _ Hd) as (_ & Ho & _). cbn [forallb]. unfold is_pseudo. rewrite Ho. reflexivity.
  - inversion HP; subst. reflexivity.
Qed.

End AbsTop.

(* for zones built by adds, and against the RFC resolution algorithm (C05) *)
From QV Require Proofs.QueryTopP Spec.ResolveS Spec.ResolveRepr.

Theorem respond_w_vs_resolve reqf apex cls wide recs z buf tcp id rd qname qtype qclass edns limit :
  (forall c t a b d, reqf c t a b = true -> reqf c t b d = true -> reqf c t a d = true) ->
  zone_build reqf (zone_new apex cls wide) recs = Some z ->
  Forall (fun r => good_rd (r_rdata r) /\ (r_type r < 65536)%N) recs -> good_name apex -> (cls < 65536)%N ->
  512 <= length buf -> good_name qname -> in_zone apex qname = true ->
  (id < 65536)%N -> (qtype < 65536)%N -> (qclass < 65536)%N -> (forall s, edns = Some s -> (s < 65536)%N) ->
  exists w len b m,
    prepare_w buf tcp id rd qname qtype qclass edns limit = Some w /\
    respond_w neg_ttl buf tcp id rd qname qtype qclass edns limit z = Some (len, b) /\
    decode_msg (firstn len b) = Some m /\
    match answering z neg_ttl w_iface qname qtype w with
    | Ok _ =>
      exists r, (forall tcp', answer_rec z qname qtype tcp' = Some r) /\
        ResolveRepr.norm_rec r = ResolveS.resolve reqf apex cls (accepted apex cls recs) qname qtype /\
        Forall2 (rr_rel xparts) (map q2a (rc_an r)) (m_an m) /\
        Forall2 (rr_rel xparts) (map q2a (rc_ns r)) (m_ns m) /\
        exists M X Oq dsM dsX dsP,
          map q2a (rc_ar r) = M ++ map q2a Oq /\ Sub X (map q2a Oq) /\
          Forall (fun q => ~ in_bailiwick (rc_ns r) q) Oq /\
          m_ar m = dsM ++ dsX ++ dsP /\ Forall2 (rr_rel xparts) M dsM /\ Forall2 (rr_rel xparts) X dsX /\
          forallb is_pseudo dsP = true
    | _ => True
    end.
Proof.
  intros Ht Hb Hrecs Ga Hc Hbuf Gq Hz Hid Hqt Hqc Hed.
  assert (HR : Forall (fun r => Pz (fun _ _ => True) (r_type r) (r_rdata r)) (accepted apex cls recs)).
  { apply Forall_forall. intros r Hr. apply QueryTopP.accepted_In in Hr. rewrite Forall_forall in Hrecs.
    destruct (Hrecs r Hr) as [A B]. split; [exact A|split; [exact B|exact I]]. }
  destruct (respond_w_vs_ideal reqf apex cls (accepted apex cls recs) z (ZoneTopP.build_inv reqf Ht apex cls wide recs z Hb) Ga Hc HR neg_ttl
              buf tcp id rd qname qtype qclass edns limit Hbuf Gq Hz Hid Hqt Hqc Hed) as (w & len & b & m & E1 & E2 & E3 & Hm).
  exists w, len, b, m. split; [exact E1|]. split; [exact E2|]. split; [exact E3|].
  destruct (answering z neg_ttl w_iface qname qtype w) as [[u w1]|e|]; auto.
  destruct Hm as (r & _ & Hh & Han & Hns & Har).
  assert (Hwf : QueryTopP.records_wf recs).
  { unfold QueryTopP.records_wf. eapply Forall_impl; [|exact Hrecs]. intros a [[A _] _]. exact A. }
  destruct (QueryTopP.build_answer_refines reqf Ht apex cls wide recs z qname qtype tcp Hb Hwf Hz) as (r' & Er' & Hres).
  assert (Er : answer_rec z qname qtype tcp = Some r) by exact (Hh tcp).
  rewrite Er in Er'. inversion Er'; subst r'.
  exists r. split; [exact Hh|]. auto.
Qed.
