(* Composition, part 10: the octets of an abstract response (Model/ServerW.v: serialize_resp) —
   the responses the pre-scan decides, NOTIMP for other opcodes, FORMERR for a QUERY without question;
   all without TSIG.  serialize_resp never fails with a buffer of at least 512 octets (ser_total), is a
   contract-obeying run (ser_Reach; no record is written, so there is no hint to obey), and its octets
   are a well-formed response (ser_wf). *)
From QV Require Import Base.ListX Gen.Consts Model.NameWire Model.Reader Model.RdataLite Model.Server Model.ServerW
  Model.MsgWriter Model.ZoneTree Model.Query Model.QueryW
  Spec.NameWireS Spec.MsgWriterS Spec.MsgWriterAbsS Spec.RdataFormatS Spec.RespS
  Proofs.MsgWriterP Proofs.MsgWriterScanP Proofs.MsgWriterNameP Proofs.MsgWriterInvP Proofs.MsgWriterOpP
  Proofs.MsgWriterStepP Proofs.MsgWriterDecP Proofs.MsgWriterHdrP Proofs.MsgWriterRtP
  Proofs.ComposeTraceP Proofs.ComposeTopP Proofs.ComposeRespP.
Local Open Scope nat_scope.

(* header (+ optional question) written, nothing else *)
Definition hq_state (b : bytes) (c lim : nat) (qd : N) (pr : option prior) : writer :=
  mkW b c lim lim c SecQuestion qd 0 0 0 pr None None Standard None None.

Lemma hq_write b c lim qd pr pos data : pos + length data <= 12 -> 12 <= length b ->
  exists b', w_write (hq_state b c lim qd pr) pos data = Ok (hq_state b' c lim qd pr) /\ length b' = length b.
Proof.
  intros H1 H2. unfold w_write, buf_write. cbn [w_buf hq_state].
  destruct (pos + length data <=? length b) eqn:E; [|apply Nat.leb_gt in E; lia].
  exists (firstn pos b ++ data ++ skipn (pos + length data) b). split; [reflexivity|]. rewrite !app_length, firstn_length, skipn_length. lia.
Qed.
Lemma hq_modify b c lim qd pr i f : N.to_nat i < 12 -> 12 <= length b ->
  exists b', w_modify (hq_state b c lim qd pr) i f = Ok (hq_state b' c lim qd pr) /\ length b' = length b.
Proof.
  intros H1 H2. unfold w_modify. cbn [w_buf hq_state].
  destruct (nth_error b (N.to_nat i)) as [x|] eqn:E; [|apply nth_error_None in E; lia].
  apply (hq_write b c lim qd pr (N.to_nat i) [f x]); simpl; lia.
Qed.

Lemma set_rcode_hq b c lim qd pr rc : 12 <= length b ->
  exists b', MsgWriter.set_rcode rc (hq_state b c lim qd pr) = Ok (hq_state b' c lim qd pr) /\ length b' = length b.
Proof.
  intros H. unfold MsgWriter.set_rcode.
  match goal with |- context [w_modify _ RCODE_BYTE ?f] => destruct (hq_modify b c lim qd pr RCODE_BYTE f) as (b' & E & L); [simpl; lia|lia|] end.
  rewrite E. cbn [bind]. exists b'. split; [unfold clear_upper; reflexivity|exact L].
Qed.

Definition he_state (b : bytes) (c lim av : nat) (qd : N) (pr : option prior) (e : ednsr) : writer :=
  mkW b c lim av c SecQuestion qd 0 0 1 pr None None Standard (Some e) None.

Lemma set_edns_hq b c lim qd pr size : c + 11 <= lim ->
  MsgWriter.set_edns size (hq_state b c lim qd pr) = Ok (tt, he_state b c lim (lim - 11) qd pr (mkEdns size 0)).
Proof.
  intros H. unfold MsgWriter.set_edns. cbn [w_edns hq_state w_avail w_cursor w_ar]. change opt_record_size with 11.
  destruct (lim <? c + 11) eqn:E; [apply Nat.ltb_lt in E; lia|]. reflexivity.
Qed.

Lemma xrcode_he b c lim av qd pr e raw : (raw <= 4095)%N -> 12 <= length b ->
  exists w', MsgWriter.set_extended_rcode raw (he_state b c lim av qd pr e) = Ok (tt, w').
Proof.
  intros Hr Hb. unfold MsgWriter.set_extended_rcode. cbn [w_edns he_state].
  destruct (4095 <? raw)%N eqn:E; [apply N.ltb_lt in E; lia|].
  unfold w_modify, w_write, buf_write. cbn [w_buf he_state].
  destruct (nth_error b (N.to_nat RCODE_BYTE)) as [x|] eqn:En; [|apply nth_error_None in En; change (N.to_nat RCODE_BYTE) with 3 in En; lia].
  cbn [length]. destruct (N.to_nat RCODE_BYTE + 1 <=? length b) eqn:E2; [|apply Nat.leb_gt in E2; change (N.to_nat RCODE_BYTE) with 3 in E2; lia].
  cbn [lift bind]. eexists. reflexivity.
Qed.

Lemma question_hq b lim n qt qc : 12 + length (nm_wire n) + 4 <= lim -> lim <= length b ->
  exists b' pr, add_question n qt qc (hq_state b 12 lim 0 None) = Ok (tt, hq_state b' (12 + length (nm_wire n) + 2 + 2) lim 1 pr) /\
                length b' = length b.
Proof. exact (add_question_hdr b lim n qt qc). Qed.

Section Ser.
Variable cfg : config.
Variable buf : bytes.
Hypothesis Hb : 512 <= length buf.
Variable w : resp.
(* the echoed question, if any, is a valid Name with 16-bit type and class (what the Reader guarantees) *)
Hypothesis Hq : forall q, Server.w_question w = Some q ->
  good_name (labels_of (Reader.q_name q)) /\ (Reader.q_type q < 65536)%N /\ (Reader.q_class q < 65536)%N.

Lemma mod_lt a m : (0 < m)%N -> (a mod m < m)%N.
Proof. intros H. apply N.mod_lt. lia. Qed.

Lemma raw_le up rc : ((up mod 256) * 16 + rc mod 16 <= 4095)%N.
Proof. pose proof (mod_lt up 256 eq_refl). pose proof (mod_lt rc 16 eq_refl). lia. Qed.

Theorem ser_total tcp : exists w', ser_prepare buf tcp w = Some w'.
Proof.
  pose proof (first_limit_ge tcp buf Hb) as HL. unfold ser_prepare.
  destruct (writer_new_hdr buf (if tcp then tcp_limit_w else udp_limit_w)) as (b0 & E0 & L0); [fold (first_limit tcp buf); lia|].
  fold (first_limit tcp buf) in E0. rewrite E0.
  assert (HLb : first_limit tcp buf <= length buf) by (unfold first_limit; lia).
  set (lim := first_limit tcp buf) in *. change (hdr_state b0 lim) with (hq_state b0 12 lim 0 None).
  unfold set_id. destruct (hq_write b0 12 lim 0 None (N.to_nat ID_START) (MsgWriter.be16 (Server.w_id w mod 65536))) as (b1 & E1 & L1); [simpl; lia|lia|].
  rewrite E1. cbn [bind]. unfold set_qr, w_set_flag.
  destruct (hq_modify b1 12 lim 0 None QR_BYTE (set_bit QR_MASK true)) as (b2 & E2 & L2); [simpl; lia|lia|]. rewrite E2. cbn [bind].
  unfold set_opcode.
  match goal with |- context [w_modify _ OPCODE_BYTE ?f] =>
    destruct (hq_modify b2 12 lim 0 None OPCODE_BYTE f) as (b3 & E3 & L3); [simpl; lia|lia|] end.
  rewrite E3. cbn [bind]. unfold set_rd, w_set_flag.
  destruct (hq_modify b3 12 lim 0 None RD_BYTE (set_bit RD_MASK (Server.w_rd w))) as (b4 & E4 & L4); [simpl; lia|lia|]. rewrite E4. cbn [bind].
  unfold set_aa, w_set_flag.
  destruct (hq_modify b4 12 lim 0 None AA_BYTE (set_bit AA_MASK (Server.w_aa w))) as (b5 & E5 & L5); [simpl; lia|lia|]. rewrite E5. cbn [bind].
  unfold set_tc, w_set_flag.
  destruct (hq_modify b5 12 lim 0 None TC_BYTE (set_bit TC_MASK (Server.w_tc w))) as (b6 & E6 & L6); [simpl; lia|lia|]. rewrite E6.
  (* the question *)
  assert (HQ : exists b7 c qd pr,
            match Server.w_question w with
            | Some q => add_question (labels_of (Reader.q_name q)) (Reader.q_type q) (Reader.q_class q) (hq_state b6 12 lim 0 None)
            | None => Ok (tt, hq_state b6 12 lim 0 None)
            end = Ok (tt, hq_state b7 c lim qd pr) /\ length b7 = length b6 /\ 12 <= c <= 275).
  { destruct (Server.w_question w) as [q|] eqn:Eq.
    - destruct (Hq q eq_refl) as ([_ Gl] & _).
      destruct (question_hq b6 lim (labels_of (Reader.q_name q)) (Reader.q_type q) (Reader.q_class q)) as (b7 & pr & E7 & L7); [lia|lia|].
      exists b7, (12 + length (nm_wire (labels_of (Reader.q_name q))) + 2 + 2), 1%N, pr. split; [exact E7|]. split; [exact L7|lia].
    - exists b6, 12, 0%N, None. split; [reflexivity|]. split; [reflexivity|lia]. }
  destruct HQ as (b7 & c & qd & pr & E7 & L7 & Hc). rewrite E7.
  destruct (Server.w_edns w) as [[size upper]|].
  - rewrite set_edns_hq by lia.
    assert (Hx : forall b' lim' av', 12 <= length b' ->
              exists w', MsgWriter.set_extended_rcode (upper mod 256 * 16 + Server.w_rcode w mod 16) (he_state b' c lim' av' qd pr (mkEdns (size mod 65536) 0)) = Ok (tt, w')).
    { intros. apply xrcode_he; [apply raw_le|assumption]. }
    destruct tcp.
    + destruct (Hx b7 lim (lim - 11)) as (w' & ->); [lia|]. eexists; reflexivity.
    + match goal with |- context [MsgWriter.set_limit ?l ?ww] => assert (Hi : Inv_n ww) end.
      { constructor; cbn; try (change header_size with 12); try lia. }
      match goal with |- context [MsgWriter.set_limit ?l ?ww] => destruct (set_limit_ok l ww Hi) as (nl & av & ->) end.
      change (set_limit_avail (he_state b7 c lim (lim - 11) qd pr (mkEdns (size mod 65536) 0)) nl av)
        with (he_state b7 c nl av qd pr (mkEdns (size mod 65536) 0)).
      destruct (Hx b7 nl av) as (w' & ->); [lia|]. eexists; reflexivity.
  - destruct (set_rcode_hq b7 c lim qd pr (Server.w_rcode w mod 16)) as (b8 & -> & _); [lia|]. eexists; reflexivity.
Qed.


(* ---- the same as a trace of the operation language *)
Definition ser_ops (tcp : bool) : list wop :=
  [OSetId (Server.w_id w mod 65536); OSetQr true; OSetOpcode (Server.w_opcode w mod 16); OSetRd (Server.w_rd w);
   OSetAa (Server.w_aa w); OSetTc (Server.w_tc w)] ++
  (match Server.w_question w with
   | Some q => [OAddQuestion (labels_of (Reader.q_name q)) (Reader.q_type q) (Reader.q_class q)]
   | None => [] end) ++
  (match Server.w_edns w with
   | Some (size, upper) =>
     [OSetEdns (size mod 65536)] ++ (if tcp then [] else [OSetLimit (Server.w_limit w)]) ++
     [OSetXrcode (upper mod 256 * 16 + Server.w_rcode w mod 16)]
   | None => [OSetRcode (Server.w_rcode w mod 16)]
   end).

Ltac okk2 :=
  split; [first [exact I|assumption|auto]|split; [first [exact I|repeat split; auto]|split; [first [exact I|assumption|reflexivity|auto]|first [exact I|reflexivity]]]].

Theorem ser_Reach cls tcp w' : ser_prepare buf tcp w = Some w' ->
  exists w0 g, writer_new buf (if tcp then tcp_limit_w else udp_limit_w) = Ok w0 /\
    Reach (Pop2 cls) (mkD w0 []) g0 (ser_ops tcp) (map (fun _ => RUnit) (ser_ops tcp)) (mkD w' []) g.
Proof.
  intros H. unfold ser_prepare in H.
  destruct (writer_new buf (if tcp then tcp_limit_w else udp_limit_w)) as [w0| |] eqn:E0; try discriminate.
  destruct (set_id (Server.w_id w mod 65536) w0) as [w1|e|] eqn:E1; cbn [bind] in H; try discriminate.
  destruct (set_qr true w1) as [w2|e|] eqn:E2; cbn [bind] in H; try discriminate.
  destruct (set_opcode (Server.w_opcode w mod 16) w2) as [w3|e|] eqn:E3; cbn [bind] in H; try discriminate.
  destruct (set_rd (Server.w_rd w) w3) as [w4|e|] eqn:E4; cbn [bind] in H; try discriminate.
  destruct (set_aa (Server.w_aa w) w4) as [w5|e|] eqn:E5; cbn [bind] in H; try discriminate.
  destruct (set_tc (Server.w_tc w) w5) as [w6|e|] eqn:E6; try discriminate.
  assert (Hid : (Server.w_id w mod 65536 < 65536)%N) by (apply mod_lt; reflexivity).
  assert (Hop : (Server.w_opcode w mod 16 < 16)%N) by (apply mod_lt; reflexivity).
  assert (Hrc : (Server.w_rcode w mod 16 < 16)%N) by (apply mod_lt; reflexivity).
  (* the tail after the optional question, from any state *)
  assert (Tail : forall w7 g7,
    match Server.w_edns w with
    | None => match MsgWriter.set_rcode (Server.w_rcode w mod 16) w7 with Ok w8 => Some w8 | _ => None end
    | Some (size, upper) =>
      match MsgWriter.set_edns (size mod 65536) w7 with
      | Ok (_, w8) =>
        match (if tcp then Ok w8 else MsgWriter.set_limit (Server.w_limit w) w8) with
        | Ok w9 => match MsgWriter.set_extended_rcode ((upper mod 256) * 16 + Server.w_rcode w mod 16) w9 with
                   | Ok (_, w10) => Some w10 | _ => None end
        | _ => None end
      | _ => None end
    end = Some w' ->
    let t := match Server.w_edns w with
             | Some (size, upper) => [OSetEdns (size mod 65536)] ++ (if tcp then [] else [OSetLimit (Server.w_limit w)]) ++
                                     [OSetXrcode (upper mod 256 * 16 + Server.w_rcode w mod 16)]
             | None => [OSetRcode (Server.w_rcode w mod 16)] end in
    exists g', Reach (Pop2 cls) (mkD w7 []) g7 t (map (fun _ => RUnit) t) (mkD w' []) g').
  { intros w7 g7 HT. destruct (Server.w_edns w) as [[size upper]|].
    - destruct (MsgWriter.set_edns (size mod 65536) w7) as [[u8 w8]|e|] eqn:E8; try discriminate.
      assert (Hsz : op_wf (OSetEdns (size mod 65536))) by (apply mod_lt; reflexivity).
      eexists. cbn [app map].
      eapply (R_cons _ _ _ (OSetEdns _) (mkD w8 []) RUnit); [okk2|exact I|cbn [step d_w]; rewrite E8; reflexivity|reflexivity|]. cbn [gstep].
      destruct tcp.
      + destruct (MsgWriter.set_extended_rcode _ w8) as [[u10 w10]|e|] eqn:E10; try discriminate. inversion HT; subst w10.
        cbn [app map].
        eapply (R_cons _ _ _ (OSetXrcode _) (mkD w' []) RUnit); [okk2|exact I|cbn [step d_w]; rewrite E10; reflexivity|reflexivity|]. cbn [gstep].
        constructor.
      + destruct (MsgWriter.set_limit (Server.w_limit w) w8) as [w9|e|] eqn:E9; try discriminate.
        destruct (MsgWriter.set_extended_rcode _ w9) as [[u10 w10]|e|] eqn:E10; try discriminate. inversion HT; subst w10.
        cbn [app map].
        eapply (R_cons _ _ _ (OSetLimit _) (mkD w9 []) RUnit); [okk2|exact I|cbn [step d_w]; rewrite E9; reflexivity|reflexivity|]. cbn [gstep].
        eapply (R_cons _ _ _ (OSetXrcode _) (mkD w' []) RUnit); [okk2|exact I|cbn [step d_w]; rewrite E10; reflexivity|reflexivity|]. cbn [gstep].
        constructor.
    - destruct (MsgWriter.set_rcode (Server.w_rcode w mod 16) w7) as [w8|e|] eqn:E8; try discriminate. inversion HT; subst w8.
      eexists. cbn [map].
      eapply (R_cons _ _ _ (OSetRcode _) (mkD w' []) RUnit); [okk2|exact I|cbn [step d_w]; rewrite E8; reflexivity|reflexivity|]. cbn [gstep].
      constructor. }
  unfold ser_ops. destruct (Server.w_question w) as [q|] eqn:Eq.
  - destruct (add_question (labels_of (Reader.q_name q)) (Reader.q_type q) (Reader.q_class q) w6) as [[u7 w7]|e|] eqn:E7; try discriminate.
    destruct (Hq q eq_refl) as ([Gn1 Gn2] & Hqt & Hqc).
    destruct (Tail w7 (gstep (mkD w6 []) g0 (OAddQuestion (labels_of (Reader.q_name q)) (Reader.q_type q) (Reader.q_class q)) RUnit) H) as (g' & RT).
    exists w0, g'. split; [reflexivity|]. cbn [app map].
    eapply (R_cons _ _ _ (OSetId _) (mkD w1 []) RUnit); [okk2|exact I|cbn [step d_w]; rewrite E1; reflexivity|reflexivity|]. cbn [gstep].
    eapply (R_cons _ _ _ (OSetQr true) (mkD w2 []) RUnit); [okk2|exact I|cbn [step d_w]; rewrite E2; reflexivity|reflexivity|]. cbn [gstep].
    eapply (R_cons _ _ _ (OSetOpcode _) (mkD w3 []) RUnit); [okk2|exact I|cbn [step d_w]; rewrite E3; reflexivity|reflexivity|]. cbn [gstep].
    eapply (R_cons _ _ _ (OSetRd _) (mkD w4 []) RUnit); [okk2|exact I|cbn [step d_w]; rewrite E4; reflexivity|reflexivity|]. cbn [gstep].
    eapply (R_cons _ _ _ (OSetAa _) (mkD w5 []) RUnit); [okk2|exact I|cbn [step d_w]; rewrite E5; reflexivity|reflexivity|]. cbn [gstep].
    eapply (R_cons _ _ _ (OSetTc _) (mkD w6 []) RUnit); [okk2|exact I|cbn [step d_w]; rewrite E6; reflexivity|reflexivity|]. cbn [gstep].
    eapply (R_cons _ _ _ (OAddQuestion _ _ _) (mkD w7 []) RUnit); [okk2|exact I|cbn [step d_w]; rewrite E7; reflexivity|reflexivity|].
    exact RT.
  - destruct (Tail w6 g0 H) as (g' & RT). exists w0, g'. split; [reflexivity|]. cbn [app map].
    eapply (R_cons _ _ _ (OSetId _) (mkD w1 []) RUnit); [okk2|exact I|cbn [step d_w]; rewrite E1; reflexivity|reflexivity|]. cbn [gstep].
    eapply (R_cons _ _ _ (OSetQr true) (mkD w2 []) RUnit); [okk2|exact I|cbn [step d_w]; rewrite E2; reflexivity|reflexivity|]. cbn [gstep].
    eapply (R_cons _ _ _ (OSetOpcode _) (mkD w3 []) RUnit); [okk2|exact I|cbn [step d_w]; rewrite E3; reflexivity|reflexivity|]. cbn [gstep].
    eapply (R_cons _ _ _ (OSetRd _) (mkD w4 []) RUnit); [okk2|exact I|cbn [step d_w]; rewrite E4; reflexivity|reflexivity|]. cbn [gstep].
    eapply (R_cons _ _ _ (OSetAa _) (mkD w5 []) RUnit); [okk2|exact I|cbn [step d_w]; rewrite E5; reflexivity|reflexivity|]. cbn [gstep].
    eapply (R_cons _ _ _ (OSetTc _) (mkD w6 []) RUnit); [okk2|exact I|cbn [step d_w]; rewrite E6; reflexivity|reflexivity|]. cbn [gstep].
    exact RT.
Qed.

Theorem ser_wf tcp : exists len b, serialize_resp buf tcp w = Some (len, b) /\ wf_response (firstn len b) = true.
Proof.
  destruct (ser_total tcp) as (w' & Ew).
  destruct (ser_Reach 0%N tcp w' Ew) as (w0 & g & E0 & Rall).
  destruct (Reach_AInv _ _ _ _ _ _ _ Rall L0 (AInv_new _ _ _ E0)) as (L & Hi).
  assert (G : Good 0%N (areplay am0 (ser_ops tcp) (map (fun _ => RUnit) (ser_ops tcp)))
                       (hreplay ah0 (ser_ops tcp) (map (fun _ => RUnit) (ser_ops tcp)))).
  { unfold ser_ops. destruct (Server.w_question w) as [q|]; destruct (Server.w_edns w) as [[size upper]|]; try destruct tcp;
      cbn; unfold Good; cbn; repeat split; auto. }
  destruct (run_wf 0%N buf _ w0 _ _ _ _ L E0 Rall Hi G) as (len & b & Ef & Hwf). cbn [d_w] in Ef.
  exists len, b. split; [|exact Hwf]. unfold serialize_resp. rewrite Ew, Ef. reflexivity.
Qed.

End Ser.
