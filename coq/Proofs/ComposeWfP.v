(* Composition, part 2: what the zone lookups hand to query answering.  Generalises
   Proofs/QueryWfP.v from "octets < 256" to an arbitrary predicate P on RDATA that holds of every
   record of the zone: every RDATA of a lookup result is the RDATA of a record (so P holds of it),
   reported RRsets are non-empty, their types are types of records, and the owner of a referral is
   a suffix (modulo ASCII case) of the name looked up. *)
From QV Require Import Base.ListX Model.ZoneTree Spec.ZoneLookupS Proofs.ZoneBaseP Proofs.QueryWfP.
Local Open Scope nat_scope.

Section WfP.
Variable req : N -> N -> bytes -> bytes -> bool.
Variable apex : name.
Variable cls : N.
Variable R : list record.
Variable P : N -> bytes -> Prop.      (* indexed by the record type *)
Hypothesis HR : Forall (fun r => P (r_type r) (r_rdata r)) R.

Lemma keep_last_nonempty ty : forall l, l <> [] -> keep_last req cls l ty <> [].
Proof.
  induction l as [|x l IH]; intros Hne; [congruence|]. cbn [keep_last].
  destruct (existsb _ l) eqn:E; [|discriminate].
  apply IH. destruct l; [discriminate|discriminate].
Qed.

Lemma dedup_first_nonempty ty l : l <> [] -> dedup_first req cls l ty <> [].
Proof.
  intros Hne. unfold dedup_first. intros H.
  assert (H' : keep_last req cls (rev l) ty = []).
  { rewrite <- (rev_involutive (keep_last req cls (rev l) ty)). rewrite H. reflexivity. }
  revert H'. apply keep_last_nonempty. intros Hr. apply Hne. rewrite <- (rev_involutive l), Hr. reflexivity.
Qed.

Lemma spec_rrset_facts m ty rs : spec_rrset req cls R m ty = Some rs ->
  Forall (P ty) (rs_rdatas rs) /\ rs_rdatas rs <> [] /\ rs_type rs = ty.
Proof.
  unfold spec_rrset. destruct (records_at R m ty) as [|r0 rest] eqn:E; [discriminate|].
  intros H. inversion H; subst. clear H. cbn [rs_rdatas rs_type]. split; [|split].
  - apply Forall_forall. intros x Hx. apply (dedup_first_In req cls) in Hx.
    change (In x (map r_rdata (r0 :: rest))) in Hx. apply in_map_iff in Hx. destruct Hx as (r & <- & Hr).
    assert (Hr' : In r (records_at R m ty)) by (rewrite E; exact Hr).
    unfold records_at in Hr'. apply filter_In in Hr'. destruct Hr' as [Hr' Hf].
    apply andb_prop in Hf. destruct Hf as [_ Hf]. apply N.eqb_eq in Hf. rewrite <- Hf.
    rewrite Forall_forall in HR. apply HR. exact Hr'.
  - apply dedup_first_nonempty. discriminate.
  - reflexivity.
Qed.

Definition single_good (ty : N) (s : single_rrset) : Prop := Forall (P ty) (snd s) /\ snd s <> [].

Lemma single_of_good m ty s : single_of req cls R m ty = Some s -> single_good ty s.
Proof.
  unfold single_of. destruct (spec_rrset req cls R m ty) as [rs|] eqn:E; [|discriminate].
  intros H. inversion H; subst. destruct (spec_rrset_facts _ _ _ E) as (A & B & _). split; auto.
Qed.

Lemma referral_ns_P c : Forall (P 2%N) (snd (referral_ns req cls R c)).
Proof.
  unfold referral_ns. destruct (single_of req cls R c 2) as [s|] eqn:E.
  - apply (single_of_good _ _ _ E).
  - constructor.
Qed.

Lemma spec_rrsets_good m x : In x (spec_rrsets req cls R m) ->
  Forall (P (rs_type x)) (rs_rdatas x) /\ rs_rdatas x <> [].
Proof.
  unfold spec_rrsets. intros H. apply in_flat_map in H. destruct H as (ty & _ & H).
  destruct (spec_rrset req cls R m ty) as [rs|] eqn:E; [|contradiction].
  destruct H as [<-|[]]. destruct (spec_rrset_facts _ _ _ E) as (A & B & C). rewrite C. auto.
Qed.

(* the owner of a referral: a suffix of the name looked up, modulo ASCII case *)
Definition suffix_ci (c qn : name) : Prop := exists k, lc c = skipn k (lc qn).

Lemma base_referral_suffix qn u sbc c : spec_lookup_base req apex cls R qn u sbc = Some (SReferral c) ->
  exists k, c = skipn k (lc qn).
Proof.
  unfold spec_lookup_base. destruct (negb (in_zone apex qn)); [destruct u; discriminate|].
  intros H. inversion H as [H1]. clear H.
  destruct (if sbc then None else find (is_cut req apex cls R) (path_below apex (lc qn))) as [c'|] eqn:E.
  - inversion H1; subst c'. destruct sbc; [discriminate|]. apply find_some in E. destruct E as [E _].
    unfold path_below in E. apply in_map_iff in E. destruct E as (k & <- & _). exists k. reflexivity.
  - destruct (exists_name apex R (lc qn)); [discriminate|]. destruct (exists_name apex R _); discriminate.
Qed.

Definition lookup_good (qn : name) (ty : N) (r : lookup_result) : Prop :=
  match r with
  | LFound s _ => single_good ty s
  | LCname s _ => single_good 5%N s
  | LReferral c ns => Forall (P 2%N) (snd ns) /\ suffix_ci c qn
  | _ => True
  end.

Lemma spec_lookup_good qn ty u sbc r : spec_lookup req apex cls R qn ty u sbc = Some (norm_lookup r) ->
  lookup_good qn ty r.
Proof.
  unfold spec_lookup. destruct (spec_lookup_base req apex cls R qn u sbc) as [b|] eqn:Eb; [|discriminate].
  intros H. inversion H as [H1]. clear H. destruct b as [m sos|c| |].
  - destruct (single_of req cls R m ty) as [s|] eqn:E1.
    + destruct r; inversion H1; subst. apply (single_of_good _ _ _ E1).
    + destruct (single_of req cls R m 5) as [s|] eqn:E2; destruct r; inversion H1; subst; cbn; auto.
      apply (single_of_good _ _ _ E2).
  - destruct r; inversion H1; subst. cbn. split; [apply referral_ns_P|].
    destruct (base_referral_suffix _ _ _ _ Eb) as (k & Hk). exists k. congruence.
  - destruct r; inversion H1; exact I.
  - destruct r; inversion H1; exact I.
Qed.

Definition addrs_good (r : lookup_addrs_result) : Prop :=
  match r with
  | AFound a aaaa _ => (forall s, a = Some s -> single_good 1%N s) /\ (forall s, aaaa = Some s -> single_good 28%N s)
  | _ => True
  end.

Lemma spec_addrs_good qn u sbc r : spec_lookup_addrs req apex cls R qn u sbc = Some (norm_addrs r) -> addrs_good r.
Proof.
  unfold spec_lookup_addrs. destruct (spec_lookup_base req apex cls R qn u sbc) as [b|] eqn:Eb; [|discriminate].
  intros H. inversion H as [H1]. clear H. destruct b as [m sos|c| |]; destruct r; inversion H1; subst; cbn; auto.
  split; intros s Hs.
  - apply (single_of_good _ _ _ Hs).
  - destruct (cls =? 1)%N; [|discriminate]. apply (single_of_good _ _ _ Hs).
Qed.

Definition all_good (qn : name) (r : lookup_all_result) : Prop :=
  match r with
  | LAFound rrsets _ => Forall (fun x => Forall (P (rs_type x)) (rs_rdatas x) /\ rs_rdatas x <> []) rrsets
  | LAReferral c ns => Forall (P 2%N) (snd ns) /\ suffix_ci c qn
  | _ => True
  end.

Lemma spec_all_good qn u sbc r : spec_lookup_all req apex cls R qn u sbc = Some (norm_all r) -> all_good qn r.
Proof.
  unfold spec_lookup_all. destruct (spec_lookup_base req apex cls R qn u sbc) as [b|] eqn:Eb; [|discriminate].
  intros H. inversion H as [H1]. clear H. destruct b as [m sos|c| |]; destruct r; inversion H1; subst; cbn; auto.
  - apply Forall_forall. intros x Hx. eapply spec_rrsets_good; eauto.
  - split; [apply referral_ns_P|]. destruct (base_referral_suffix _ _ _ _ Eb) as (k & Hk). exists k. congruence.
Qed.

End WfP.
