(* Top-level statements of C12/C13 assembled from the lemma libraries. *)
From QV Require Import Base.ListX Model.MsgWriter Proofs.MsgWriterP Proofs.MsgWriterScanP
     Proofs.MsgWriterNameP Proofs.MsgWriterInvP.

Lemma top_invariant : forall buf limit w0 ops d outs alive,
  writer_new buf limit = Ok w0 -> run (mkD w0 []) ops = Ok (d, outs, alive) -> Inv_n (d_w d).
Proof.
  intros buf limit w0 ops d outs alive H0 H1.
  exact (run_inv ops (mkD w0 []) d outs alive (writer_new_inv _ _ _ H0) H1).
Qed.

Lemma top_limit : forall buf limit ops rr len b,
  run_writer buf limit ops = Ok rr -> rr_final rr = Some (len, b) ->
  exists w0 d outs, writer_new buf limit = Ok w0 /\ run (mkD w0 []) ops = Ok (d, outs, true)
    /\ len <= w_limit (d_w d) /\ w_limit (d_w d) <= length b.
Proof.
  intros buf limit ops rr len b H1 H2.
  destruct (run_writer_limit finish buf limit ops rr len b H1 H2
              (fun w l b' Hi Hf => finish_gen_limit _ w l b' Hi Hf)) as [w0 [d [outs [A [B [_ [C D]]]]]]].
  exists w0, d, outs. auto.
Qed.

Lemma top_atomic : forall buf limit w0 ops d outs o d' e,
  writer_new buf limit = Ok w0 -> run (mkD w0 []) ops = Ok (d, outs, true) ->
  step d o = Ok (d', RErr e) -> obs_eq (d_w d) (d_w d').
Proof.
  intros buf limit w0 ops d outs o d' e H0 H1 H2.
  pose proof (step_good_all d o (top_invariant _ _ _ _ _ _ _ H0 H1)) as G.
  rewrite H2 in G. exact G.
Qed.

Lemma top_hinted_emitted : forall h n w, nb w -> wf_name n -> priors_ok w ->
  hint_contract h n w ->
  match write_hinted_name h n w with
  | Ok (_, w') => emitted (exactf (w_mode w)) n (w_buf w') (w_cursor w) (w_cursor w')
  | Err (e, _) => e = Truncation
  | Panic => False
  end.
Proof.
  intros h n w Hnb Hwf Hp Hc.
  pose proof (write_hinted_spec (w_cursor w) h n w Hnb (le_n _) Hwf Hp Hc) as S.
  destruct (write_hinted_name h n w) as [[pr w']|[e w']|]; simpl in S; auto; apply S.
Qed.

Lemma top_unhinted_emitted : forall n w, nb w -> wf_name n -> priors_ok w ->
  match write_unhinted_name n w with
  | Ok (_, w') => emitted (exactf (w_mode w)) n (w_buf w') (w_cursor w) (w_cursor w')
  | Err (e, _) => e = Truncation
  | Panic => False
  end.
Proof.
  intros n w Hnb Hwf Hp.
  pose proof (write_unhinted_spec (w_cursor w) n w Hnb (le_n _) Hwf Hp) as S.
  destruct (write_unhinted_name n w) as [[pr w']|[e w']|]; simpl in S; auto; apply S.
Qed.

Lemma top_hinted_roundtrip : forall h n w, nb w -> wf_name n -> priors_ok w ->
  hint_contract h n w ->
  match write_hinted_name h n w with
  | Ok (_, w') => named (exactf (w_mode w)) n (w_buf w') (w_cursor w') (w_cursor w)
  | Err (e, _) => e = Truncation
  | Panic => False
  end.
Proof.
  intros h n w Hnb Hwf Hp Hc.
  pose proof (write_hinted_spec (w_cursor w) h n w Hnb (le_n _) Hwf Hp Hc) as S.
  destruct (write_hinted_name h n w) as [[pr w']|[e w']|]; simpl in S; auto; [|apply S].
  destruct S as [X [_ [Hem _]]]. apply emitted_named; auto.
  destruct (ext_nb _ _ _ X Hnb). lia.
Qed.

Lemma top_unhinted_roundtrip : forall n w, nb w -> wf_name n -> priors_ok w ->
  match write_unhinted_name n w with
  | Ok (_, w') => named (exactf (w_mode w)) n (w_buf w') (w_cursor w') (w_cursor w)
  | Err (e, _) => e = Truncation
  | Panic => False
  end.
Proof.
  intros n w Hnb Hwf Hp.
  pose proof (write_unhinted_spec (w_cursor w) n w Hnb (le_n _) Hwf Hp) as S.
  destruct (write_unhinted_name n w) as [[pr w']|[e w']|]; simpl in S; auto; [|apply S].
  destruct S as [X [_ [Hem _]]]. apply emitted_named; auto.
  destruct (ext_nb _ _ _ X Hnb). lia.
Qed.

Lemma top_anchor : forall h n w pr p w', nb w -> wf_name n -> priors_ok w ->
  hint_contract h n w -> write_hinted_name h n w = Ok (pr, w') -> pr = Some p ->
  prior_ok (w_buf w') (w_cursor w') p.
Proof.
  intros h n w pr p w' Hnb Hwf Hp Hc E Hpr.
  pose proof (write_hinted_spec (w_cursor w) h n w Hnb (le_n _) Hwf Hp Hc) as S.
  rewrite E in S. destruct S as [_ [_ [_ S]]]. apply (S p Hpr).
Qed.
