(* The tree seen as a partial map from descent paths (labels from the apex downwards) to
   (node name, RRsets), and what get_or_create_descendant + RrsetList::add do to that map. *)
From QV Require Import Base.Res Base.Octets Base.ListX Model.ZoneTree Spec.ZoneLookupS
  Proofs.ZoneBaseP Proofs.ZoneRrsetP.

Fixpoint view (p : list label) (t : node) : option (name * rrset_list) :=
  match p with
  | [] => Some (node_name t, node_data t)
  | l :: p' =>
    match find_child l (node_children t) with
    | Some c => view p' c
    | None => None
    end
  end.

(* the labels name[level-1], name[level-2], ..., name[0] *)
Fixpoint descent (nm : name) (level : nat) : list label :=
  match level with
  | 0 => []
  | S l => nth l nm [] :: descent nm l
  end.

Fixpoint prefixb (p d : list label) : bool :=
  match p, d with
  | [], _ => true
  | x :: p', y :: d' => label_eqb y x && prefixb p' d'
  | _ :: _, [] => false
  end.

Lemma descent_length nm level : length (descent nm level) = level.
Proof. induction level; simpl; auto. Qed.

Lemma descent_rev nm level : level <= length nm -> descent nm level = rev (firstn level nm).
Proof.
  induction level as [|l IH]; intros H; cbn [descent]; auto.
  rewrite (firstn_S_snoc nm l []) by lia. rewrite rev_app_distr. simpl. rewrite IH by lia. reflexivity.
Qed.

Lemma prefixb_length p d : prefixb p d = true -> length p <= length d.
Proof.
  revert d; induction p as [|x p IH]; intros [|y d]; simpl; intros H; try discriminate; try lia.
  apply andb_true_iff in H. destruct H as [_ H]. apply IH in H. lia.
Qed.

Lemma prefixb_iff p d : prefixb p d = true <-> exists q, lc d = lc p ++ q.
Proof.
  revert d; induction p as [|x p IH]; intros d.
  - simpl. split; auto. intros _. exists (lc d). reflexivity.
  - destruct d as [|y d].
    + simpl. split; [discriminate|]. intros [q H]. discriminate.
    + cbn [prefixb]. rewrite andb_true_iff, label_eqb_iff, IH. rewrite !lc_cons. split.
      * intros [E [q H]]. exists q. simpl. rewrite E, H. reflexivity.
      * intros [q H]. simpl in H. inversion H. split; eauto.
Qed.

(* ---- find_child / set_child *)
Lemma find_child_set_same lab x c c' ch : find_child lab ch = Some c -> label_eqb lab x = true ->
  find_child x (set_child lab c' ch) = Some c'.
Proof.
  intros H E. induction ch as [|[k c0] ch IH]; simpl in *; [discriminate|].
  pose proof (label_eqb_trans_l _ _ E k) as T.
  destruct (label_eqb k lab) eqn:K; simpl; rewrite <- T; auto.
Qed.

Lemma find_child_set_other lab x c' ch : label_eqb lab x = false ->
  find_child x (set_child lab c' ch) = find_child x ch.
Proof.
  intros E. induction ch as [|[k c0] ch IH]; simpl in *; auto.
  destruct (label_eqb k lab) eqn:K; simpl.
  - destruct (label_eqb k x) eqn:Kx; auto.
    apply label_eqb_iff in K. apply label_eqb_iff in Kx.
    assert (label_eqb lab x = true) by (apply label_eqb_iff; congruence). congruence.
  - destruct (label_eqb k x); auto.
Qed.

Lemma find_child_app_none x ch k c : find_child x ch = None ->
  find_child x (ch ++ [(k, c)]) = if label_eqb k x then Some c else None.
Proof.
  induction ch as [|[k0 c0] ch IH]; simpl; auto.
  destruct (label_eqb k0 x); [discriminate|]. auto.
Qed.

Lemma find_child_app_some x ch k c c0 : find_child x ch = Some c0 ->
  find_child x (ch ++ [(k, c)]) = Some c0.
Proof.
  induction ch as [|[k1 c1] ch IH]; simpl; [discriminate|].
  destruct (label_eqb k1 x); auto.
Qed.

Lemma find_child_eqv a b ch : label_eqb a b = true -> find_child a ch = find_child b ch.
Proof.
  intros E. induction ch as [|[k c] ch IH]; simpl; auto.
  rewrite (label_eqb_trans_l _ _ E k). destruct (label_eqb k b); auto.
Qed.

(* ---- the effect of node_update on the view *)
Definition viewd (p : list label) (t : node) (nm : name) (level : nat) : name * rrset_list :=
  match view p t with
  | Some x => x
  | None => (skipn (level - length p) nm, [])
  end.

Definition apply_f (f : rrset_list -> res zone_err rrset_list) (d : rrset_list) : rrset_list :=
  match f d with Ok d' => d' | _ => d end.
Definition err_of (f : rrset_list -> res zone_err rrset_list) (d : rrset_list) : option zone_err :=
  match f d with Err e => Some e | _ => None end.

Lemma view_node_new p sup : view p (node_new sup) = match p with [] => Some (sup, []) | _ => None end.
Proof. destruct p; reflexivity. Qed.

Lemma node_update_view f : (forall d, f d <> Panic) ->
  forall level nm t, level <= length nm ->
  exists t' , node_update level nm f t = Ok (t', err_of f (snd (viewd (descent nm level) t nm level))) /\
    node_name t' = node_name t /\
    forall p, view p t' =
      if prefixb p (descent nm level) then
        Some (fst (viewd p t nm level),
              if length p =? level then apply_f f (snd (viewd p t nm level)) else snd (viewd p t nm level))
      else view p t.
Proof.
  intros Hf. induction level as [|l IH]; intros nm t Hlen.
  - simpl. unfold viewd. simpl. unfold err_of, apply_f.
    destruct (f (node_data t)) as [d'|e|] eqn:F.
    + eexists; split; [reflexivity|]. split; [reflexivity|].
      intros [|x p]; simpl; auto. rewrite F. reflexivity.
    + eexists; split; [reflexivity|]. split; [reflexivity|].
      intros [|x p]; simpl; auto. rewrite F. reflexivity.
    + exfalso. eapply Hf; eauto.
  - cbn [node_update descent].
    assert (Hnth : nth_error nm l = Some (nth l nm [])) by (apply nth_error_nth'; lia).
    unfold name_index. rewrite Hnth. cbn [bind].
    set (lab := nth l nm []) in *.
    destruct (find_child lab (node_children t)) as [c|] eqn:Fc.
    + destruct (IH nm c ltac:(lia)) as (c' & Hup & Hname & Hview).
      rewrite Hup. cbn [bind].
      assert (Etarget : viewd (lab :: descent nm l) t nm (S l) = viewd (descent nm l) c nm l).
      { unfold viewd. cbn [view]. rewrite Fc. simpl length. reflexivity. }
      rewrite Etarget.
      eexists; split; [reflexivity|]. split; [reflexivity|].
      intros [|x p].
      * simpl. unfold viewd. simpl. reflexivity.
      * cbn [view prefixb node_children]. destruct (label_eqb lab x) eqn:E; cbn [andb].
        -- rewrite (find_child_set_same _ _ _ _ _ Fc E). rewrite Hview.
           assert (Ev : viewd (x :: p) t nm (S l) = viewd p c nm l).
           { unfold viewd. cbn [view]. rewrite <- (find_child_eqv _ _ _ E), Fc. simpl length. reflexivity. }
           rewrite Ev. simpl length. change (S (length p) =? S l) with (length p =? l).
           destruct (prefixb p (descent nm l)); auto.
           rewrite <- (find_child_eqv _ _ _ E), Fc. reflexivity.
        -- rewrite (find_child_set_other _ _ _ _ E). reflexivity.
    + unfold superdomain, name_len. destruct (l <? S (length nm)) eqn:Lt; [|apply Nat.ltb_ge in Lt; lia].
      destruct (IH nm (node_new (skipn l nm)) ltac:(lia)) as (c' & Hup & Hname & Hview).
      rewrite Hup. cbn [bind].
      assert (Etarget : snd (viewd (lab :: descent nm l) t nm (S l)) =
                        snd (viewd (descent nm l) (node_new (skipn l nm)) nm l)).
      { unfold viewd. cbn [view]. rewrite Fc. rewrite view_node_new.
        destruct (descent nm l); reflexivity. }
      rewrite Etarget.
      eexists; split; [reflexivity|]. split; [reflexivity|].
      intros [|x p].
      * simpl. unfold viewd. simpl. reflexivity.
      * cbn [view prefixb node_children].
        assert (Fx : label_eqb lab x = true -> find_child x (node_children t) = None).
        { intros E. rewrite <- (find_child_eqv _ _ _ E). exact Fc. }
        destruct (label_eqb lab x) eqn:E; cbn [andb].
        -- rewrite (find_child_app_none _ _ _ _ (Fx eq_refl)), E. rewrite Hview.
           assert (Ev : viewd (x :: p) t nm (S l) = viewd p (node_new (skipn l nm)) nm l).
           { unfold viewd. cbn [view]. rewrite (Fx eq_refl). rewrite view_node_new. simpl length.
             destruct p; simpl; [rewrite Nat.sub_0_r|]; reflexivity. }
           rewrite Ev. simpl length. change (S (length p) =? S l) with (length p =? l).
           destruct (prefixb p (descent nm l)) eqn:Pp; auto.
           rewrite (Fx eq_refl). rewrite view_node_new. destruct p; [discriminate Pp|reflexivity].
        -- destruct (find_child x (node_children t)) as [c0|] eqn:F0.
           ++ rewrite (find_child_app_some _ _ _ _ _ F0). reflexivity.
           ++ rewrite (find_child_app_none _ _ _ _ F0), E. reflexivity.
Qed.
