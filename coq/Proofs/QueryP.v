(* C05: the query model on the idealised (never-truncating) writer refines the flat-record resolver
   of Spec/ResolveS.v.  Built on the C06 refinement of the zone lookups (Proofs/ZoneTopP.v). *)
From QV Require Import Base.ListX Gen.ZoneConsts Gen.QueryConsts Model.ZoneTree Spec.ZoneLookupS
  Proofs.ZoneBaseP Proofs.ZoneInvP Proofs.ZoneTopP Model.Query Spec.ResolveS Spec.ResolveRepr
  Proofs.QueryNameP Proofs.QueryWfP.
Local Open Scope nat_scope.

(* ---- the recorder *)
Lemma rec_add_add s a b w : rec_add s b (rec_add s a w) = rec_add s (a ++ b) w.
Proof. destruct s, w; unfold rec_add; cbn; rewrite <- app_assoc; reflexivity. Qed.
Lemma rec_add_nil s w : rec_add s [] w = w.
Proof. destruct s, w; unfold rec_add; cbn; rewrite app_nil_r; reflexivity. Qed.

Lemma rec_add_rrset s h o ty c ttl rds b w :
  wi_add_rrset rec_iface s h o ty c ttl rds b w = Ok ([], rec_add s (map (mk_qrr o ty c ttl) rds) w).
Proof. reflexivity. Qed.
Lemma rec_add_rr s h o ty c ttl rd w :
  wi_add_rr rec_iface s h o ty c ttl rd w = Ok (rec_add s [mk_qrr o ty c ttl rd] w).
Proof. reflexivity. Qed.
Lemma rec_set_aa b w :
  wi_set_aa rec_iface b w = Some (mk_rec b (rc_tc w) (rc_rcode w) (rc_an w) (rc_ns w) (rc_ar w)).
Proof. reflexivity. Qed.
Lemma rec_set_rcode c w :
  wi_set_rcode rec_iface c w = Some (mk_rec (rc_aa w) (rc_tc w) (Some c) (rc_an w) (rc_ns w) (rc_ar w)).
Proof. reflexivity. Qed.

Lemma norm_map owner ty c ttl rds :
  map norm_rr (map (mk_qrr owner ty c ttl) rds) = map (mk_srr (lc owner) ty c ttl) rds.
Proof. rewrite map_map. reflexivity. Qed.

Lemma all_some_cons {A} (o : option A) l :
  all_some (o :: l) = match o, all_some l with Some x, Some r => Some (x :: r) | _, _ => None end.
Proof. reflexivity. Qed.

Lemma existsb_map_lc c os : existsb (name_eqb (lc c)) (map lc os) = existsb (zname_eqb c) os.
Proof. induction os as [|o os IH]; simpl; auto. rewrite IH, zname_eqb_lc. reflexivity. Qed.

Lemma offset_table ty : lookup_offset ADDITIONAL_TABLE ty = name_offset ty.
Proof.
  unfold name_offset. change ADDITIONAL_TABLE with [(7%N, 0); (3%N, 0); (4%N, 0); (2%N, 0); (15%N, 2); (33%N, 6)].
  cbn [lookup_offset existsb].
  rewrite (N.eqb_sym 7 ty), (N.eqb_sym 3 ty), (N.eqb_sym 4 ty), (N.eqb_sym 2 ty), (N.eqb_sym 15 ty), (N.eqb_sym 33 ty).
  destruct (ty =? 7)%N eqn:E7; [rewrite !orb_true_r; reflexivity|].
  destruct (ty =? 3)%N eqn:E3; [rewrite ?orb_true_r; cbn; rewrite ?orb_true_r; reflexivity|].
  destruct (ty =? 4)%N eqn:E4; [rewrite ?orb_true_r; cbn; rewrite ?orb_true_r; reflexivity|].
  destruct (ty =? 2)%N eqn:E2; [reflexivity|].
  reflexivity.
Qed.

Definition Qr := res (perr * recorder) (unit * recorder).
(* what the outcome of the answering logic means for the final response: Ok = the recorded
   response; ServFail = the SERVFAIL response; a Truncation or a panic never happens *)
Definition fin_ok (q : Qr) (S : sresp) : Prop :=
  match q with
  | Ok (_, w') => norm_rec w' = S
  | Err (PServFail, _) => S = servfail
  | _ => False
  end.

Section Main.
Variable req : N -> N -> bytes -> bytes -> bool.
Variable apex : name.
Variable cls : N.
Variable R : list record.
Variable z : zone.
Hypothesis Hinv : Inv req apex cls z R.
Hypothesis HR : Forall (fun r => wf_bytes (r_rdata r)) R.

Lemma Hname : zone_name z = apex. Proof. destruct Hinv as (H & _ & _). exact H. Qed.
Lemma Hcls : z_class z = cls. Proof. destruct Hinv as (_ & H & _). exact H. Qed.

Lemma in_zone_apex : in_zone apex apex = true.
Proof. unfold in_zone. apply is_suffixb_refl. Qed.

(* ---- add_additional_addresses *)
Lemma addrs_ok owner h sbc w :
  exists rrs', add_additional_addresses rec_iface z owner h sbc w = Ok (rec_add SAr rrs' w) /\
               map norm_rr rrs' = addrs_of req apex cls R owner sbc.
Proof.
  destruct (zone_lookup_addrs_refines req apex cls z R owner false sbc Hinv) as (r & Hz & Hs); [discriminate|].
  unfold add_additional_addresses, addrs_of. rewrite Hz, Hs. cbn [zl].
  destruct r as [a aaaa sos|c ns| |]; cbn [norm_addrs];
    try (exists []; rewrite rec_add_nil; split; reflexivity).
  rewrite Hcls. change CLASS_IN with 1%N. change TYPE_A with 1%N. change TYPE_AAAA with 28%N.
  exists ((match a with Some s => map (mk_qrr owner 1 cls (fst s)) (snd s) | None => [] end) ++
          (match aaaa with Some s => map (mk_qrr owner 28 cls (fst s)) (snd s) | None => [] end)).
  destruct (cls =? 1)%N eqn:C.
  - apply N.eqb_eq in C.
    destruct a as [[ta ra]|], aaaa as [[tb rb]|]; rewrite ?rec_add_rrset; cbn [fst snd];
      rewrite ?rec_add_rrset; rewrite ?rec_add_add, ?app_nil_r; (split; [try rewrite <- C; try rewrite rec_add_nil; reflexivity|]);
      unfold rrs; cbn [fst snd]; rewrite ?map_app, ?norm_map, ?app_nil_r; reflexivity.
  - pose proof (spec_addrs_aaaa req apex cls R owner false sbc a aaaa (norm_sos sos) Hs C) as ->.
    destruct a as [[ta ra]|]; rewrite ?rec_add_rrset; cbn [fst snd]; rewrite ?app_nil_r;
      (split; [try rewrite rec_add_nil; reflexivity|]);
      unfold rrs; cbn [fst snd]; rewrite ?norm_map; reflexivity.
Qed.

(* ---- additional-section processing *)
Lemma additional_loop_ok off : forall rds v idx w, Forall wf_bytes rds ->
  match all_some (map (fun rd => rdata_name rd off) rds) with
  | Some names =>
    exists rrs', additional_loop rec_iface z off rds v idx w = Ok (tt, rec_add SAr rrs' w) /\
                 map norm_rr rrs' = flat_map (fun n => addrs_of req apex cls R n false) names
  | None => exists w', additional_loop rec_iface z off rds v idx w = Err (PServFail, w')
  end.
Proof.
  induction rds as [|rd rds IH]; intros v idx w Hwf.
  - cbn [map all_some fold_right additional_loop]. exists []. rewrite rec_add_nil. auto.
  - inversion Hwf as [|? ? Hrd Hrest]; subst.
    cbn [map additional_loop]. rewrite all_some_cons.
    pose proof (read_name_spec rd off Hrd) as Hn.
    destruct (read_name_from_rdata rd off) as [n|e|]; [| |contradiction].
    + rewrite Hn. destruct (addrs_ok n (hint_from_vec v idx) false w) as (r1 & H1 & N1).
      rewrite H1. cbn [allow_truncation].
      specialize (IH v (S idx) (rec_add SAr r1 w) Hrest).
      destruct (all_some (map (fun rd0 => rdata_name rd0 off) rds)) as [names|].
      * destruct IH as (r2 & H2 & N2). exists (r1 ++ r2). rewrite H2, rec_add_add.
        split; [reflexivity|]. rewrite map_app, N1, N2. reflexivity.
      * destruct IH as (w' & H2). exists w'. exact H2.
    + destruct Hn as [-> Hn]. rewrite Hn. exists w. reflexivity.
Qed.

Lemma additional_ok ty s v w : Forall wf_bytes (snd s) ->
  match additional req apex cls R ty s with
  | Some ar =>
    exists rrs', do_additional_section_processing rec_iface z ty s v w = Ok (tt, rec_add SAr rrs' w) /\
                 map norm_rr rrs' = ar
  | None => exists w', do_additional_section_processing rec_iface z ty s v w = Err (PServFail, w')
  end.
Proof.
  intros Hwf. unfold additional, do_additional_section_processing. rewrite Hcls.
  change ADDITIONAL_CLASSES with [1%N; 3%N]. cbn [existsb]. rewrite orb_false_r.
  destruct (negb ((cls =? 1)%N || (cls =? 3)%N)).
  - exists []. rewrite rec_add_nil. auto.
  - rewrite offset_table. destruct (name_offset ty) as [off|].
    + pose proof (additional_loop_ok off (snd s) v 0 w Hwf) as H.
      destruct (all_some (map (fun rd => rdata_name rd off) (snd s))) as [names|]; exact H.
    + exists []. rewrite rec_add_nil. auto.
Qed.

(* ---- the negative-caching SOA *)
Lemma zone_soa_lookup : zone_lookup z (zone_name z) TYPE_SOA true false =
  Ok (match zone_soa z with
      | Some s => LFound s None
      | None => match rr_lookup TYPE_CNAME (node_data (z_apex z)) with
                | Some rs => LCname (to_single rs) None
                | None => LNoRecords None
                end
      end).
Proof.
  unfold zone_lookup, lookup_base, zone_soa. cbn [negb andb]. unfold usub. rewrite Nat.leb_refl, Nat.sub_diag.
  cbn [bind lookup_impl negb andb].
  destruct (rr_lookup TYPE_SOA (node_data (z_apex z))); reflexivity.
Qed.

Lemma negsoa_ok w :
  match negative_soa req apex cls R with
  | Some soa => exists q, add_negative_caching_soa rec_iface neg_ttl z w = Ok (tt, rec_add SNs [q] w) /\
                          norm_rr q = soa
  | None => exists w', add_negative_caching_soa rec_iface neg_ttl z w = Err (PServFail, w')
  end.
Proof.
  destruct (zone_lookup_refines req apex cls z R apex 6 true false Hinv (fun _ => in_zone_apex)) as (r & Hz & Hs).
  pose proof zone_soa_lookup as L. rewrite Hname in L. change TYPE_SOA with 6%N in L.
  rewrite L in Hz. inversion Hz as [Hr]. clear Hz L.
  unfold negative_soa. rewrite (spec_lookup_unchecked req apex cls R apex 6 false in_zone_apex), Hs.
  pose proof (spec_lookup_wf req apex cls R HR _ _ _ _ _ Hs) as Hw.
  unfold add_negative_caching_soa.
  destruct (zone_soa z) as [[ttl rds]|].
  - subst r. cbn [norm_lookup] in *. destruct rds as [|rd rest].
    + exists w. reflexivity.
    + cbn [lookup_wf snd] in Hw. inversion Hw as [|? ? Hrd _]; subst.
      pose proof (soa_minimum_spec rd Hrd) as Hm.
      destruct (read_soa_minimum rd) as [m|e|]; [| |contradiction].
      * rewrite Hm. rewrite rec_add_rr. cbn [lift_add].
        eexists. split; [reflexivity|]. unfold norm_rr. cbn.
        rewrite Hname, Hcls. unfold neg_ttl. rewrite ttl_from_value. reflexivity.
      * destruct Hm as [-> Hm]. rewrite Hm. exists w. reflexivity.
  - destruct (rr_lookup TYPE_CNAME (node_data (z_apex z))); subst r; cbn [norm_lookup]; exists w; reflexivity.
Qed.

Lemma neg_ok w : rc_aa w = true -> rc_ns w = [] -> rc_ar w = [] ->
  fin_ok (add_negative_caching_soa rec_iface neg_ttl z w)
         (negative req apex cls R (rcode_of w) (map norm_rr (rc_an w))).
Proof.
  intros Haa Hns Har. unfold negative. pose proof (negsoa_ok w) as H.
  destruct (negative_soa req apex cls R) as [soa|].
  - destruct H as (q & -> & N). cbn [fin_ok]. destruct w as [aa tc rc an nss ar]. cbn in *. subst.
    unfold norm_rec, rcode_of. cbn. reflexivity.
  - destruct H as (w' & ->). reflexivity.
Qed.

(* ---- referrals *)
Lemma referral_names_ok child : forall rds idx, Forall wf_bytes rds ->
  match all_some (map (fun rd => rdata_name rd 0) rds) with
  | Some targets =>
    exists glues adds, referral_names child rds idx = Ok (glues, adds) /\
      map snd glues = filter (fun t => is_suffixb (lc child) (lc t)) targets /\
      map snd adds = filter (fun t => negb (is_suffixb (lc child) (lc t))) targets
  | None => referral_names child rds idx = Err PServFail
  end.
Proof.
  induction rds as [|rd rds IH]; intros idx Hwf.
  - cbn. exists [], []. auto.
  - inversion Hwf as [|? ? Hrd Hrest]; subst.
    cbn [map referral_names]. rewrite all_some_cons.
    pose proof (read_name_spec rd 0 Hrd) as Hn.
    destruct (read_name_from_rdata rd 0) as [n|e|]; [| |contradiction].
    + rewrite Hn. cbn [bind]. specialize (IH (S idx) Hrest).
      destruct (all_some (map (fun rd0 => rdata_name rd0 0) rds)) as [targets|].
      * destruct IH as (g & a & -> & Hg & Ha). cbn [bind].
        rewrite eq_or_subdomain_of_in_zone. unfold in_zone. cbn [filter].
        destruct (is_suffixb (lc child) (lc n)); cbn [negb].
        -- exists ((idx, n) :: g), a. cbn [map snd]. rewrite Hg. auto.
        -- exists g, ((idx, n) :: a). cbn [map snd]. rewrite Ha. auto.
      * rewrite IH. reflexivity.
    + destruct Hn as [-> Hn]. rewrite Hn. reflexivity.
Qed.

Lemma glue_loop_ok : forall l v w,
  exists rrs', glue_loop rec_iface z l v w = Ok (tt, rec_add SAr rrs' w) /\
               map norm_rr rrs' = flat_map (fun t => addrs_of req apex cls R t true) (map snd l).
Proof.
  induction l as [|[idx n] l IH]; intros v w.
  - exists []. rewrite rec_add_nil. auto.
  - cbn [glue_loop map snd flat_map].
    destruct (addrs_ok n (hint_from_vec (Some v) idx) true w) as (r1 & -> & N1). cbn [lift_add].
    destruct (IH v (rec_add SAr r1 w)) as (r2 & -> & N2).
    exists (r1 ++ r2). rewrite rec_add_add. split; [reflexivity|]. rewrite map_app, N1, N2. reflexivity.
Qed.

Lemma optional_loop_ok : forall l v w,
  exists rrs', optional_loop rec_iface z l v w = Ok (tt, rec_add SAr rrs' w) /\
               map norm_rr rrs' = flat_map (fun t => addrs_of req apex cls R t true) (map snd l).
Proof.
  induction l as [|[idx n] l IH]; intros v w.
  - exists []. rewrite rec_add_nil. auto.
  - cbn [optional_loop map snd flat_map].
    destruct (addrs_ok n (hint_from_vec (Some v) idx) true w) as (r1 & -> & N1). cbn [allow_truncation].
    destruct (IH v (rec_add SAr r1 w)) as (r2 & -> & N2).
    exists (r1 ++ r2). rewrite rec_add_add. split; [reflexivity|]. rewrite map_app, N1, N2. reflexivity.
Qed.

Lemma referral_ok child ns w : Forall wf_bytes (snd ns) ->
  rc_rcode w = None -> rc_ns w = [] -> rc_ar w = [] ->
  fin_ok (do_referral rec_iface z child ns w)
         (referral req apex cls R (rc_aa w) (map norm_rr (rc_an w)) (lc child) ns).
Proof.
  intros Hwf Hrc Hns Har. unfold do_referral, referral. rewrite rec_add_rrset. cbn [lift_addv].
  pose proof (referral_names_ok child (snd ns) 0 Hwf) as H.
  destruct (all_some (map (fun rd => rdata_name rd 0) (snd ns))) as [targets|].
  - destruct H as (g & a & -> & Hg & Ha).
    destruct (glue_loop_ok g [] (rec_add SNs (map (mk_qrr child TYPE_NS (z_class z) (fst ns)) (snd ns)) w))
      as (r1 & -> & N1).
    destruct (optional_loop_ok a [] (rec_add SAr r1 (rec_add SNs (map (mk_qrr child TYPE_NS (z_class z) (fst ns)) (snd ns)) w)))
      as (r2 & -> & N2).
    cbn [fin_ok]. destruct w as [aa tc rc an nss ar]. cbn in Hrc, Hns, Har. subst.
    unfold norm_rec, rcode_of. cbn. rewrite lc_idem. f_equal.
    + unfold rrs. rewrite norm_map, Hcls, lc_idem. reflexivity.
    + rewrite map_app, N1, N2, Hg, Ha, flat_map_app. reflexivity.
  - rewrite H. reflexivity.
Qed.

(* ---- a positive answer *)
Lemma found_ok h owner ty s w : Forall wf_bytes (snd s) ->
  rc_aa w = true -> rc_rcode w = None -> rc_ns w = [] -> rc_ar w = [] ->
  fin_ok (add_found rec_iface z h owner ty s w)
         (positive req apex cls R (map norm_rr (rc_an w)) owner ty s).
Proof.
  intros Hwf Haa Hrc Hns Har. unfold add_found, positive. rewrite rec_add_rrset. cbn [lift_addv].
  match goal with |- fin_ok (do_additional_section_processing _ _ _ _ ?v ?w1) _ =>
    pose proof (additional_ok ty s v w1 Hwf) as H end.
  destruct (additional req apex cls R ty s) as [ar|].
  - destruct H as (r & -> & N). cbn [fin_ok]. destruct w as [aa tc rc an nss ar0]. cbn in Haa, Hrc, Hns, Har. subst.
    unfold norm_rec, rcode_of. cbn. rewrite map_app. unfold rrs. rewrite norm_map, Hcls. reflexivity.
  - destruct H as (w' & ->). reflexivity.
Qed.

(* ---- CNAME chains *)
Lemma last_opt_snoc {A} (l : list A) x : last_opt (l ++ [x]) = Some x.
Proof. unfold last_opt. rewrite rev_app_distr. reflexivity. Qed.

Lemma cname_ok qname ty : forall fuel cn os w, Forall wf_bytes (snd cn) ->
  1 <= fuel -> length os + fuel = 8 ->
  rc_aa w = true -> rc_rcode w = None -> rc_ns w = [] -> rc_ar w = [] ->
  fin_ok (follow_cname_1 rec_iface neg_ttl z fuel qname ty cn os w)
         (chase req apex cls R fuel (lc qname :: map lc os)
                (match last_opt os with Some o => o | None => qname end) cn (map norm_rr (rc_an w)) ty).
Proof.
  induction fuel as [|fuel IH]; intros cn os w Hwf Hf Hlen Haa Hrc Hns Har; [lia|].
  cbn [follow_cname_1 chase].
  destruct (snd cn) as [|rd rest] eqn:Ecn; [reflexivity|].
  inversion Hwf as [|? ? Hrd _]; subst.
  pose proof (name_from_all_spec rd Hrd) as Hn.
  destruct (name_from_all rd) as [[[cname wire]|]|e|]; try contradiction.
  2:{ rewrite Hn. reflexivity. }
  destruct Hn as (Hn & -> & Hne). rewrite Hn.
  cbn [existsb]. rewrite existsb_map_lc, <- zname_eqb_lc.
  destruct (zname_eqb cname qname || existsb (zname_eqb cname) os); [reflexivity|].
  set (owner := match last_opt os with Some o => o | None => qname end).
  assert (Hstep : forall h,
    fin_ok (match rd with
            | [] => Panic
            | _ :: _ =>
              match lift_add (wi_add_rr rec_iface SAn h owner TYPE_CNAME (z_class z) (fst cn) rd w) with
              | Ok (_, w1) => follow_cname_2_body rec_iface neg_ttl z (follow_cname_1 rec_iface neg_ttl z fuel qname ty)
                                qname cname ty os w1
              | other => other
              end
            end)
      (match spec_lookup req apex cls R cname ty false false with
       | Some (LFound s _) => positive req apex cls R (map norm_rr (rc_an w) ++ [mk_srr (lc owner) 5 cls (fst cn) rd]) cname ty s
       | Some (LCname cn' _) => chase req apex cls R fuel ((lc qname :: map lc os) ++ [lc cname]) cname cn'
                                  (map norm_rr (rc_an w) ++ [mk_srr (lc owner) 5 cls (fst cn) rd]) ty
       | Some (LReferral c ns) => referral req apex cls R true (map norm_rr (rc_an w) ++ [mk_srr (lc owner) 5 cls (fst cn) rd]) c ns
       | Some (LNoRecords _) => negative req apex cls R 0 (map norm_rr (rc_an w) ++ [mk_srr (lc owner) 5 cls (fst cn) rd])
       | Some LNxDomain => negative req apex cls R 3 (map norm_rr (rc_an w) ++ [mk_srr (lc owner) 5 cls (fst cn) rd])
       | Some LWrongZone => mk_sresp 0 true (map norm_rr (rc_an w) ++ [mk_srr (lc owner) 5 cls (fst cn) rd]) [] []
       | None => servfail
       end)).
  { intros h. destruct rd as [|b0 rd']; [congruence|]. set (rd := b0 :: rd') in *.
    rewrite rec_add_rr. cbn [lift_add].
    set (w1 := rec_add SAn [mk_qrr owner TYPE_CNAME (z_class z) (fst cn) rd] w).
    assert (Ean : map norm_rr (rc_an w1) = map norm_rr (rc_an w) ++ [mk_srr (lc owner) 5 cls (fst cn) rd]).
    { unfold w1. destruct w. cbn. rewrite map_app. cbn. rewrite Hcls. reflexivity. }
    assert (Haa1 : rc_aa w1 = true) by (unfold w1; destruct w; exact Haa).
    assert (Hrc1 : rc_rcode w1 = None) by (unfold w1; destruct w; exact Hrc).
    assert (Hns1 : rc_ns w1 = []) by (unfold w1; destruct w; exact Hns).
    assert (Har1 : rc_ar w1 = []) by (unfold w1; destruct w; exact Har).
    rewrite <- Ean. clearbody w1.
    unfold follow_cname_2_body.
    destruct (zone_lookup_refines req apex cls z R cname ty false false Hinv) as (r & Hz & Hs); [discriminate|].
    rewrite Hz, Hs. cbn [zl].
    pose proof (spec_lookup_wf req apex cls R HR _ _ _ _ _ Hs) as Hw.
    destruct r as [s sos|next sos|c ns|sos| |]; cbn [norm_lookup lookup_wf] in *.
    - apply found_ok; auto.
    - destruct (length os <? PREVIOUS_OWNERS_CAP) eqn:L; change PREVIOUS_OWNERS_CAP with 7 in L.
      + apply Nat.ltb_lt in L.
        specialize (IH next (os ++ [cname]) w1 Hw).
        rewrite last_opt_snoc, map_app in IH. cbn [map] in IH.
        apply IH; auto; try lia. rewrite app_length. simpl. lia.
      + apply Nat.ltb_ge in L. assert (fuel = 0) by lia. subst fuel. reflexivity.
    - rewrite <- Haa1. apply referral_ok; auto.
    - replace 0%N with (rcode_of w1) by (unfold rcode_of; rewrite Hrc1; reflexivity).
      apply neg_ok; auto.
    - rewrite rec_set_rcode. cbn [lift_set].
      set (w2 := mk_rec (rc_aa w1) (rc_tc w1) (Some RCODE_NXDOMAIN) (rc_an w1) (rc_ns w1) (rc_ar w1)).
      change (map norm_rr (rc_an w1)) with (map norm_rr (rc_an w2)).
      change 3%N with (rcode_of w2). apply neg_ok; auto.
    - cbn [fin_ok]. unfold norm_rec, rcode_of. rewrite Hrc1, Haa1, Hns1, Har1. reflexivity. }
  destruct (last_opt os) as [o|]; apply Hstep.
Qed.

(* ---- ANY *)
Lemma any_loop_ok qname : forall rrsets n w,
  any_loop rec_iface z qname rrsets n w =
  Ok (n + length rrsets,
      rec_add SAn (flat_map (fun r => map (mk_qrr qname (rs_type r) (z_class z) (rs_ttl r)) (rs_rdatas r)) rrsets) w).
Proof.
  induction rrsets as [|r rrsets IH]; intros n w.
  - cbn [any_loop flat_map length]. rewrite rec_add_nil, Nat.add_0_r. reflexivity.
  - cbn [any_loop]. rewrite rec_add_rrset. cbn [lift_addv]. rewrite IH, rec_add_add.
    cbn [flat_map length]. f_equal. f_equal. lia.
Qed.

(* ---- the top level *)
Definition finish_rec (tcp : bool) (q : Qr) : option recorder :=
  match q with
  | Panic => None
  | Ok (_, w1) => Some w1
  | Err (PServFail, w1) =>
    match wi_set_aa rec_iface false w1 with
    | None => None
    | Some w2 => match wi_set_rcode rec_iface RCODE_SERVFAIL w2 with
                 | None => None
                 | Some w3 => Some (wi_clear_rrs rec_iface w3)
                 end
    end
  | Err (PTruncation, w1) =>
    let w2 := wi_clear_rrs rec_iface w1 in
    if tcp then
      match wi_set_aa rec_iface false w2 with
      | None => None
      | Some w3 => wi_set_rcode rec_iface RCODE_SERVFAIL w3
      end
    else wi_set_tc rec_iface true w2
  end.

Lemma answer_rec_finish qname qtype tcp :
  answer_rec z qname qtype tcp =
  finish_rec tcp (if (qtype =? QTYPE_ANY)%N then answer_any rec_iface neg_ttl z qname rec_empty
                  else answer rec_iface neg_ttl z qname qtype rec_empty).
Proof. reflexivity. Qed.

Lemma finish_ok tcp q S : fin_ok q S -> exists r, finish_rec tcp q = Some r /\ norm_rec r = S.
Proof.
  destruct q as [[u w1]|[[|] w1]|]; cbn [fin_ok]; intros H; try contradiction.
  - eexists. split; [reflexivity|exact H].
  - subst S. eexists. split; reflexivity.
Qed.

Lemma handle_fin qname qtype tcp S :
  fin_ok (if (qtype =? QTYPE_ANY)%N then answer_any rec_iface neg_ttl z qname rec_empty
          else answer rec_iface neg_ttl z qname qtype rec_empty) S ->
  exists r, answer_rec z qname qtype tcp = Some r /\ norm_rec r = S.
Proof. intros H. rewrite answer_rec_finish. apply finish_ok. exact H. Qed.

Theorem answer_refines qname qtype tcp : in_zone apex qname = true ->
  exists r, answer_rec z qname qtype tcp = Some r /\ norm_rec r = resolve req apex cls R qname qtype.
Proof.
  intros Z. apply handle_fin. unfold resolve. change QTYPE_ANY with 255%N.
  set (w0 := mk_rec true false None [] [] []).
  destruct (qtype =? 255)%N.
  - unfold answer_any.
    destruct (zone_lookup_all_refines req apex cls z R qname true false Hinv (fun _ => Z)) as (r & Hz & Hs).
    rewrite (spec_lookup_all_unchecked req apex cls R qname false Z), Hs, Hz. cbn [zl].
    pose proof (spec_lookup_all_wf req apex cls R HR _ _ _ _ Hs) as Hw.
    pose proof (spec_lookup_all_not_wrong req apex cls R qname true false Z) as Hnw.
    destruct r as [rrsets sos|c ns| |]; cbn [norm_all lookup_all_wf] in *.
    + unfold set_aa_then. rewrite rec_set_aa. cbn [lift_set rec_empty rc_tc rc_rcode rc_an rc_ns rc_ar]. fold w0.
      rewrite any_loop_ok. destruct rrsets as [|r0 rrsets].
      * cbn [length Nat.add Nat.eqb flat_map]. rewrite rec_add_nil.
        apply (neg_ok w0); reflexivity.
      * cbn [length Nat.add Nat.eqb fin_ok]. unfold norm_rec, rcode_of. cbn [rec_add w0 rc_rcode rc_aa rc_an rc_ns rc_ar app map].
        f_equal. rewrite Hcls. generalize (r0 :: rrsets). intros l. induction l as [|x l IHl]; cbn [flat_map map]; auto.
        rewrite map_app, IHl. unfold rrs. rewrite norm_map. reflexivity.
    + apply (referral_ok c ns rec_empty); auto.
    + unfold nxdomain, set_aa_then. rewrite rec_set_rcode. cbn [lift_set]. rewrite rec_set_aa. cbn [lift_set].
      cbn [rec_empty rc_aa rc_tc rc_rcode rc_an rc_ns rc_ar].
      apply (neg_ok (mk_rec true false (Some RCODE_NXDOMAIN) [] [] [])); reflexivity.
    + congruence.
  - unfold answer.
    destruct (zone_lookup_refines req apex cls z R qname qtype true false Hinv (fun _ => Z)) as (r & Hz & Hs).
    rewrite (spec_lookup_unchecked req apex cls R qname qtype false Z), Hs, Hz. cbn [zl].
    pose proof (spec_lookup_wf req apex cls R HR _ _ _ _ _ Hs) as Hw.
    pose proof (spec_lookup_not_wrong req apex cls R qname qtype true false Z) as Hnw.
    destruct r as [s sos|cn sos|c ns|sos| |]; cbn [norm_lookup lookup_wf] in *.
    + unfold set_aa_then. rewrite rec_set_aa. cbn [lift_set rec_empty rc_tc rc_rcode rc_an rc_ns rc_ar]. fold w0.
      apply (found_ok QhQname qname qtype s w0); auto.
    + unfold do_cname. rewrite rec_set_aa. cbn [lift_set rec_empty rc_tc rc_rcode rc_an rc_ns rc_ar]. fold w0.
      change (S PREVIOUS_OWNERS_CAP) with 8.
      apply (cname_ok qname qtype 8 cn [] w0); auto; cbn; lia.
    + apply (referral_ok c ns rec_empty); auto.
    + unfold set_aa_then. rewrite rec_set_aa. cbn [lift_set rec_empty rc_tc rc_rcode rc_an rc_ns rc_ar]. fold w0.
      apply (neg_ok w0); reflexivity.
    + unfold nxdomain, set_aa_then. rewrite rec_set_rcode. cbn [lift_set]. rewrite rec_set_aa. cbn [lift_set].
      cbn [rec_empty rc_aa rc_tc rc_rcode rc_an rc_ns rc_ar].
      apply (neg_ok (mk_rec true false (Some RCODE_NXDOMAIN) [] [] [])); reflexivity.
    + congruence.
Qed.

End Main.
