(* The zone-store theorems for the REAL Rdata::equals and the REAL name parser.

   Part A: what the instances of Model/ZoneReal.v are — [req_real] is [RdataM.equals] (which returns
           a boolean on every pair of octet strings, C19) and equals the RFC characterisation
           [spec_equals]; [parse_real] is [parse_uncompressed_name _ true] (which never panics, C14)
           read as a label list, and equals the independent [spec_rdata_name].
   Part B: a zone built with one RDATA equality is the zone built with any other equality that agrees
           with it on the RDATA actually present (octet strings); same for validation and the parser.
           This is where the hypothesis "every RDATA octet is < 256" (the u8 type) enters: C19 and
           C14 are theorems about octet strings.
   Part C: the closing theorems of C06 / C20 / C21 with model = real equality / real parser and
           specification = [spec_equals] / [spec_rdata_name]; the parametric theorems are used
           with req := spec_equals (transitive for every class and type, C19). *)
From QV Require Import Base.Res Base.Octets Base.ListX Gen.ZoneConsts Model.ZoneTree Model.ZoneValid
  Spec.ZoneLookupS Spec.ZoneValidS Model.ZoneReal Spec.ZoneRealS
  Proofs.ZoneBaseP Proofs.ZoneRrsetP Proofs.ZoneIterP Proofs.ZoneTopP Proofs.ZoneSpellP
  Proofs.ZoneStoreP Proofs.ZoneValidP.
From QV Require Model.NameWire Model.RdataM Spec.NameWireS Spec.NameRepr Spec.RdataFormatS Spec.RdataEqS
  Proofs.NameWireP Proofs.NameWireSP Proofs.RdNameP Proofs.RdNameEqP Proofs.RdataEqSP Proofs.RdataEqFullP
  Model.RdataSetM Proofs.RdataSetP.
Local Open Scope nat_scope.

(* ================================================================ Part A: the instances *)

Lemma equals_req_real c t a b : wf_bytes a -> wf_bytes b ->
  RdataM.equals c t a b = Ok (req_real c t a b).
Proof.
  intros Ha Hb. unfold req_real. rewrite (RdataEqFullP.equals_char c t a b Ha Hb). reflexivity.
Qed.

Lemma req_real_spec c t a b : wf_bytes a -> wf_bytes b -> req_real c t a b = spec_req c t a b.
Proof.
  intros Ha Hb. unfold req_real, spec_req. rewrite (RdataEqFullP.equals_char c t a b Ha Hb). reflexivity.
Qed.

Lemma spec_req_trans cls ty a b c :
  spec_req cls ty a b = true -> spec_req cls ty b c = true -> spec_req cls ty a c = true.
Proof. apply RdataEqSP.spec_equals_trans. Qed.

(* on octet strings the real equality is an equivalence (C19, restated for the zone's instance) *)
Lemma req_real_equiv c t :
  (forall a, wf_bytes a -> req_real c t a a = true) /\
  (forall a b, wf_bytes a -> wf_bytes b -> req_real c t a b = req_real c t b a) /\
  (forall a b d, wf_bytes a -> wf_bytes b -> wf_bytes d ->
     req_real c t a b = true -> req_real c t b d = true -> req_real c t a d = true).
Proof.
  split; [|split].
  - intros a Ha. rewrite req_real_spec by assumption. apply RdataEqSP.spec_equals_refl.
  - intros a b Ha Hb. rewrite !req_real_spec by assumption. apply RdataEqSP.spec_equals_sym.
  - intros a b d Ha Hb Hd. rewrite !req_real_spec by assumption. apply spec_req_trans.
Qed.

(* ---- the name parser *)
Lemma labels_from_name_of ls : RdataFormatS.valid_name ls ->
  forall n i, i + n = length ls -> labels_from (NameRepr.name_of ls) i n = Some (skipn i ls).
Proof.
  intros Hv. induction n as [|n IH]; intros i Hi.
  - simpl. rewrite skipn_all2 by lia. reflexivity.
  - cbn [labels_from]. rewrite (RdNameEqP.label_at_name_of ls i Hv) by lia.
    rewrite IH by lia. simpl.
    assert (Hlt : i < length ls) by lia.
    destruct (nth_error ls i) as [x|] eqn:E; [|apply nth_error_None in E; lia].
    rewrite (nth_error_nth _ _ _ E).
    f_equal. clear - E. revert i E. induction ls as [|y ls IHl]; intros [|i] E; simpl in *; try discriminate.
    + inversion E; reflexivity.
    + apply IHl. exact E.
Qed.

Lemma name_labels_name_of ls : RdataFormatS.valid_name ls ->
  name_labels (NameRepr.name_of ls) = Some ls.
Proof.
  intros Hv. unfold name_labels. simpl NameWire.n_offsets. rewrite RdNameEqP.offs_of_length.
  replace (S (length ls) - 1) with (length ls) by lia.
  rewrite (labels_from_name_of ls Hv (length ls) 0) by lia. reflexivity.
Qed.

Lemma decodes_unc_valid b ls l : NameWireS.decodes_uncompressed b ls l -> RdataFormatS.valid_name ls.
Proof. intros [D W]. split; [eapply RdNameP.decodes_labels_valid; eauto|exact W]. Qed.

Lemma spec_rdata_name_iff rd ls : spec_rdata_name rd = Some ls <-> rdata_is_name rd ls.
Proof.
  unfold spec_rdata_name, rdata_is_name. split.
  - destruct (NameWireS.spec_decode_name rd 0) as [[ls' l]|] eqn:E; [|discriminate].
    destruct (l =? length rd) eqn:L; [|discriminate]. intros H; inversion H; subst.
    apply Nat.eqb_eq in L. subst l.
    apply RdNameP.decodes_name0_unc, NameWireSP.spec_decode_name_iff. exact E.
  - intros D. apply RdNameP.decodes_name0_unc, NameWireSP.spec_decode_name_iff in D.
    rewrite D, Nat.eqb_refl. reflexivity.
Qed.

(* parse_real is Name::try_from_uncompressed_all as C14 models it, read as a label list: the parser
   never panics; when it returns a Name, that Name represents a valid label list [ls] (offsets and
   wire form of [ls]) and parse_real returns [ls] (every label access succeeds); when it returns an
   error parse_real returns None *)
Lemma parse_real_faithful rd : wf_bytes rd ->
  match NameWire.parse_uncompressed_name rd true with
  | Ok (nm, l) => l = length rd /\
                  exists ls, nm = NameRepr.name_of ls /\ RdataFormatS.valid_name ls /\ parse_real rd = Some ls
  | Err _ => parse_real rd = None
  | Panic => False
  end.
Proof.
  intros Hwf. destruct (NameWireP.parse_uncompressed_total rd true) as [Hp _].
  unfold parse_real.
  destruct (NameWire.parse_uncompressed_name rd true) as [[nm l]|e|] eqn:E; [| |congruence].
  - apply (NameWireP.parse_uncompressed_iff rd true nm l Hwf) in E.
    destruct E as (ls & D & -> & Hall). split; [auto|]. exists ls. split; [reflexivity|].
    split; [exact (decodes_unc_valid _ _ _ D)|]. apply name_labels_name_of. exact (decodes_unc_valid _ _ _ D).
  - reflexivity.
Qed.

Lemma parse_real_spec rd : wf_bytes rd -> parse_real rd = spec_rdata_name rd.
Proof.
  intros Hwf. destruct (NameWireP.parse_uncompressed_total rd true) as [Hp _].
  unfold parse_real.
  destruct (NameWire.parse_uncompressed_name rd true) as [[nm l]|e|] eqn:E; [| |congruence].
  - apply (NameWireP.parse_uncompressed_iff rd true nm l Hwf) in E.
    destruct E as (ls & D & -> & Hall). specialize (Hall eq_refl). subst l.
    rewrite (name_labels_name_of ls (decodes_unc_valid _ _ _ D)).
    symmetry. apply spec_rdata_name_iff. exact D.
  - destruct (spec_rdata_name rd) as [ls|] eqn:S; [|reflexivity]. exfalso.
    apply spec_rdata_name_iff in S.
    assert (P : NameWire.parse_uncompressed_name rd true = Ok (NameRepr.name_of ls, length rd)).
    { apply (NameWireP.parse_uncompressed_iff rd true _ _ Hwf). exists ls. auto. }
    congruence.
Qed.

(* ---- the specification's first-occurrence de-duplication is C19's nodup_by *)
Lemma nodup_by_snoc eq l x : forall seen,
  RdataEqS.nodup_by eq seen (l ++ [x]) =
    let k := RdataEqS.nodup_by eq seen l in
    if existsb (fun y => eq x y) (seen ++ k) then k else k ++ [x].
Proof.
  induction l as [|a r IH]; intros seen; cbn [app RdataEqS.nodup_by].
  - cbv zeta. rewrite app_nil_r. destruct (existsb _ seen); reflexivity.
  - destruct (existsb (fun y => eq a y) seen) eqn:E.
    + apply IH.
    + rewrite IH. cbv zeta. rewrite <- app_assoc. simpl.
      destruct (existsb _ (seen ++ a :: _)); reflexivity.
Qed.

Lemma dedup_first_nodup_by req cls ty
  (req_trans : forall c t a b d, req c t a b = true -> req c t b d = true -> req c t a d = true) l :
  dedup_first req cls l ty = RdataEqS.nodup_by (req cls ty) [] l.
Proof.
  induction l as [|x l IH] using rev_ind; [reflexivity|].
  rewrite (dedup_first_snoc req req_trans), nodup_by_snoc, IH. cbv zeta. simpl.
  unfold rdataset_insert. destruct (existsb _ _); reflexivity.
Qed.

Lemma spec_rrset_nodup_by cls R m ty rs :
  spec_rrset spec_req cls R m ty = Some rs ->
  rs_type rs = ty /\
  rs_rdatas rs = RdataEqS.nodup_by (RdataEqS.spec_equals cls ty) [] (map r_rdata (records_at R m ty)).
Proof.
  unfold spec_rrset. destruct (records_at R m ty) as [|r0 rest] eqn:E; [discriminate|].
  intros H; inversion H; subst; clear H. simpl. split; [reflexivity|].
  apply (dedup_first_nodup_by spec_req cls ty). intros c t a b d. apply spec_req_trans.
Qed.

(* ---- the list-level RdataSetOwned::insert of the zone model IS C19's octet-buffer model of it
   (Model/RdataSetM.v: the loop over the stored members calling [equals] with early exit, the u16 length
   prefix, the Vec<u8>), run with the real equality: it never fails, and the buffer it produces is the
   encoding of what [rdataset_insert req_real] returns *)
Lemma existsb_req_real c t r kept : wf_bytes r -> Forall wf_bytes kept ->
  existsb (fun y => RdataEqS.spec_equals c t r y) kept = existsb (fun ex => req_real c t r ex) kept.
Proof.
  intros Hr Hk. induction Hk as [|x k Hx Hk IH]; simpl; auto.
  rewrite IH, (req_real_spec c t r x Hr Hx). reflexivity.
Qed.

Lemma rdataset_insert_is_buffer be c t kept r :
  Forall RdataSetP.small kept -> Forall wf_bytes kept -> RdataSetP.small r -> wf_bytes r ->
  RdataSetM.set_insert be c t (RdataSetP.inner_of be kept) r =
    Ok (RdataSetP.inner_of be (rdataset_insert req_real c t kept r),
        negb (existsb (fun ex => req_real c t r ex) kept)).
Proof.
  intros Hs Hw Hr Hwr. rewrite (RdataEqFullP.set_insert_full c t be kept r Hs Hw Hr Hwr).
  rewrite (existsb_req_real c t r kept Hwr Hw). unfold rdataset_insert.
  destruct (existsb _ kept); reflexivity.
Qed.

Lemma rdataset_insert_buffer_iter be c t kept r :
  Forall RdataSetP.small kept -> Forall wf_bytes kept -> RdataSetP.small r -> wf_bytes r ->
  RdataSetM.set_iter be (RdataSetP.inner_of be (rdataset_insert req_real c t kept r)) =
    rdataset_insert req_real c t kept r.
Proof.
  intros Hs Hw Hr Hwr. apply RdataSetP.set_iter_inner. unfold rdataset_insert.
  destruct (existsb _ kept); auto. apply Forall_app. split; auto.
Qed.

(* ================================================================ Part B: dependence on the RDATA present *)

Section Ext.
Variable P : bytes -> Prop.

Definition rrset_P (rs : rrset) : Prop := Forall P (rs_rdatas rs).
Definition rrsets_P (l : rrset_list) : Prop := Forall rrset_P l.

Fixpoint node_P (t : node) : Prop :=
  match t with
  | Node _ ch d =>
    rrsets_P d /\ (fix all (ch : list (label * node)) : Prop :=
                     match ch with
                     | [] => True
                     | (_, c) :: ch' => node_P c /\ all ch'
                     end) ch
  end.

Definition all_P (ch : list (label * node)) : Prop := Forall (fun kc => node_P (snd kc)) ch.

Lemma node_P_unfold nm ch d : node_P (Node nm ch d) <-> rrsets_P d /\ all_P ch.
Proof.
  simpl. unfold all_P. split; intros [H1 H2]; split; auto.
  - induction ch as [|[k c] ch IH]; constructor; simpl in *; tauto.
  - induction ch as [|[k c] ch IH]; simpl; auto. inversion H2; subst. simpl in *. tauto.
Qed.

Lemma node_P_parts t : node_P t <-> rrsets_P (node_data t) /\ all_P (node_children t).
Proof. destruct t as [nm ch d]. apply node_P_unfold. Qed.

Lemma node_P_new nm : node_P (node_new nm).
Proof. apply node_P_unfold. split; constructor. Qed.

Lemma find_child_P l ch c : all_P ch -> find_child l ch = Some c -> node_P c.
Proof.
  induction ch as [|[k c0] ch IH]; simpl; [discriminate|]. intros A.
  inversion A; subst. destruct (label_eqb k l); auto. intros H; inversion H; subst. assumption.
Qed.

Lemma set_child_P l c' ch : all_P ch -> node_P c' -> all_P (set_child l c' ch).
Proof.
  induction ch as [|[k c0] ch IH]; simpl; auto. intros A Hc. inversion A; subst.
  destruct (label_eqb k l); constructor; auto. apply IH; auto.
Qed.

Lemma rdataset_insert_P req c t s rd : Forall P s -> P rd -> Forall P (rdataset_insert req c t s rd).
Proof.
  intros Hs Hr. unfold rdataset_insert. destruct (existsb _ s); auto.
  apply Forall_app. split; auto.
Qed.

Lemma rrsets_add_P req c ty ttl rd l l' : rrsets_P l -> P rd ->
  rrsets_add req c ty ttl rd l = Ok l' -> rrsets_P l'.
Proof.
  revert l'. induction l as [|x l IH]; intros l' Hl Hr; simpl.
  - intros H; inversion H; subst. constructor; [|constructor]. unfold rrset_P. simpl. auto.
  - inversion Hl as [|? ? Hx Hl']; subst.
    destruct (rs_type x =? ty)%N.
    + destruct (negb (rs_ttl x =? ttl)%N); [discriminate|]. intros H; inversion H; subst.
      constructor; auto. unfold rrset_P. simpl. apply rdataset_insert_P; auto.
    + destruct (ty <? rs_type x)%N.
      * intros H; inversion H; subst. constructor; auto. unfold rrset_P. simpl. auto.
      * destruct (rrsets_add req c ty ttl rd l) as [l1|e|] eqn:A; simpl; try discriminate.
        intros H; inversion H; subst. constructor; auto. apply IH; auto.
Qed.

Lemma node_update_P f : (forall d d', rrsets_P d -> f d = Ok d' -> rrsets_P d') ->
  forall lvl nm t t' e, node_P t -> node_update lvl nm f t = Ok (t', e) -> node_P t'.
Proof.
  intros Hf. induction lvl as [|l IH]; intros nm t t' e Ht; cbn [node_update].
  - apply node_P_parts in Ht. destruct Ht as [Hd Hc].
    destruct (f (node_data t)) as [d'|e0|] eqn:F; try discriminate.
    + intros H; inversion H; subst. apply node_P_unfold. split; auto. eapply Hf; eauto.
    + intros H; inversion H; subst. apply node_P_parts. auto.
  - pose proof Ht as Ht0. apply node_P_parts in Ht. destruct Ht as [Hd Hc].
    destruct (name_index nm l) as [lab|e0|]; cbn [bind]; try discriminate.
    destruct (find_child lab (node_children t)) as [c|] eqn:F.
    + destruct (node_update l nm f c) as [[c' e']|e0|] eqn:U; cbn [bind]; try discriminate.
      intros H; inversion H; subst. apply node_P_unfold. split; auto.
      apply set_child_P; auto. eapply IH; [|exact U]. eapply find_child_P; eauto.
    + destruct (superdomain nm l) as [sup|]; [|discriminate].
      destruct (node_update l nm f (node_new sup)) as [[c' e']|e0|] eqn:U; cbn [bind]; try discriminate.
      intros H; inversion H; subst. apply node_P_unfold. split; auto.
      unfold all_P. apply Forall_app. split; auto. constructor; [|constructor]. simpl.
      eapply IH; [|exact U]. apply node_P_new.
Qed.

Lemma node_update_ext f1 f2 : (forall d, rrsets_P d -> f1 d = f2 d) ->
  forall lvl nm t, node_P t -> node_update lvl nm f1 t = node_update lvl nm f2 t.
Proof.
  intros Hf. induction lvl as [|l IH]; intros nm t Ht; cbn [node_update].
  - apply node_P_parts in Ht. rewrite (Hf _ (proj1 Ht)). reflexivity.
  - apply node_P_parts in Ht. destruct Ht as [Hd Hc].
    destruct (name_index nm l) as [lab|e0|]; cbn [bind]; auto.
    destruct (find_child lab (node_children t)) as [c|] eqn:F.
    + rewrite (IH nm c (find_child_P _ _ _ Hc F)). reflexivity.
    + destruct (superdomain nm l) as [sup|]; auto. rewrite (IH nm _ (node_P_new sup)). reflexivity.
Qed.

Lemma zone_add_P req z r z' e : node_P (z_apex z) -> P (r_rdata r) ->
  zone_add req z r = Ok (z', e) -> node_P (z_apex z').
Proof.
  intros Hz Hr. unfold zone_add.
  destruct (negb (eq_or_subdomain_of (r_owner r) (zone_name z))); [intros H; inversion H; subst; auto|].
  destruct (negb (r_class r =? z_class z)%N); [intros H; inversion H; subst; auto|].
  destruct (usub _ _) as [level|e0|]; cbn [bind]; try discriminate.
  destruct (node_update level (r_owner r) _ (z_apex z)) as [[a' e']|e0|] eqn:U; cbn [bind]; try discriminate.
  intros H; inversion H; subst. simpl.
  eapply node_update_P; [|exact Hz|exact U].
  intros d d' Hd. apply rrsets_add_P; auto.
Qed.

Lemma node_iter_P t : node_P t -> forall n d, In (n, d) (node_iter t) -> rrsets_P d.
Proof.
  induction t as [nm ch d0 IH] using node_ind'. intros Ht n d Hin.
  apply node_P_unfold in Ht. destruct Ht as [Hd Hc].
  rewrite node_iter_unfold in Hin. destruct Hin as [Hin|Hin].
  - inversion Hin; subst. exact Hd.
  - unfold iter_children in Hin. apply in_flat_map in Hin. destruct Hin as ([k c] & Hkc & Hin).
    rewrite Forall_forall in IH. unfold all_P in Hc. rewrite Forall_forall in Hc.
    exact (IH (k, c) Hkc (Hc (k, c) Hkc) n d Hin).
Qed.

Lemma rr_lookup_P ty l rs : rrsets_P l -> rr_lookup ty l = Some rs -> rrset_P rs.
Proof.
  intros Hl H. apply rr_lookup_In in H. unfold rrsets_P in Hl. rewrite Forall_forall in Hl. auto.
Qed.

(* ---- two equalities that agree on P *)
Variables req1 req2 : N -> N -> bytes -> bytes -> bool.
Hypothesis Hext : forall c t a b, P a -> P b -> req1 c t a b = req2 c t a b.

Lemma rdataset_insert_ext c t s rd : Forall P s -> P rd ->
  rdataset_insert req1 c t s rd = rdataset_insert req2 c t s rd.
Proof.
  intros Hs Hr. unfold rdataset_insert.
  replace (existsb (fun ex => req2 c t rd ex) s) with (existsb (fun ex => req1 c t rd ex) s); [reflexivity|].
  induction Hs as [|x s Hx Hs IH]; simpl; auto. rewrite IH, (Hext c t rd x Hr Hx). reflexivity.
Qed.

Lemma rrsets_add_ext c ty ttl rd l : rrsets_P l -> P rd ->
  rrsets_add req1 c ty ttl rd l = rrsets_add req2 c ty ttl rd l.
Proof.
  intros Hl Hr. induction Hl as [|x l Hx Hl IH]; simpl; auto.
  destruct (rs_type x =? ty)%N.
  - destruct (negb (rs_ttl x =? ttl)%N); auto. rewrite rdataset_insert_ext; auto.
  - destruct (ty <? rs_type x)%N; auto. rewrite IH. reflexivity.
Qed.

Lemma zone_add_ext z r : node_P (z_apex z) -> P (r_rdata r) -> zone_add req1 z r = zone_add req2 z r.
Proof.
  intros Hz Hr. unfold zone_add.
  destruct (negb (eq_or_subdomain_of (r_owner r) (zone_name z))); auto.
  destruct (negb (r_class r =? z_class z)%N); auto.
  destruct (usub _ _) as [level|e0|]; cbn [bind]; auto.
  rewrite (node_update_ext _ (rrsets_add req2 (r_class r) (r_type r) (r_ttl r) (r_rdata r))); auto.
  intros d Hd. apply rrsets_add_ext; auto.
Qed.

Lemma zone_build_ext recs : forall z, node_P (z_apex z) -> Forall (fun r => P (r_rdata r)) recs ->
  zone_build req1 z recs = zone_build req2 z recs /\
  forall z', zone_build req1 z recs = Some z' -> node_P (z_apex z').
Proof.
  induction recs as [|r recs IH]; intros z Hz Hr; simpl.
  - split; auto. intros z' H; inversion H; subst; auto.
  - inversion Hr as [|? ? Hr0 Hr']; subst.
    rewrite <- (zone_add_ext z r Hz Hr0).
    destruct (zone_add req1 z r) as [[z1 e]|e|] eqn:A; [|split; [reflexivity|discriminate]..].
    apply IH; auto. eapply zone_add_P; eauto.
Qed.

End Ext.

(* ---- two parsers that agree on P (closed under dropping a prefix) *)
Section ExtV.
Variable P : bytes -> Prop.
Hypothesis P_skipn : forall k rd, P rd -> P (skipn k rd).
Variables parse1 parse2 : bytes -> option name.
Hypothesis Hpar : forall rd, P rd -> parse1 rd = parse2 rd.

Lemma collect_ext {A} (f g : A -> res zone_err (list issue)) l :
  (forall x, In x l -> f x = g x) -> collect f l = collect g l.
Proof.
  induction l as [|x l IH]; intros H; simpl; auto.
  rewrite (H x (or_introl eq_refl)), IH; auto. intros y Hy. apply H. right. exact Hy.
Qed.

Lemma scan_rrset_ext z owner n rs : rrset_P P rs ->
  scan_rrset parse1 z owner n rs = scan_rrset parse2 z owner n rs.
Proof.
  intros Hrs. unfold scan_rrset, rrset_P in *. rewrite Forall_forall in Hrs.
  destruct (rs_type rs =? TYPE_CNAME)%N; auto.
  destruct (rs_type rs =? TYPE_MX)%N.
  - destruct (class_has_addrs (z_class z)); auto. apply collect_ext. intros rd Hrd.
    destruct (2 <=? length rd); auto. rewrite (Hpar _ (P_skipn 2 rd (Hrs rd Hrd))). reflexivity.
  - destruct (rs_type rs =? TYPE_NS)%N; auto.
    destruct (is_wildcard owner) as [w|e|]; cbn [bind]; auto.
    destruct (negb (name_len owner =? name_len (zone_name z)) && class_has_addrs (z_class z)); auto.
    rewrite (collect_ext _ (fun rd => match parse2 rd with
                                      | Some n0 => check_delegation_ns_address z n0 owner
                                      | None => Err InvalidRdata end)); auto.
    intros rd Hrd. rewrite (Hpar _ (Hrs rd Hrd)). reflexivity.
Qed.

Lemma zone_validate_ext z : node_P P (z_apex z) -> zone_validate parse1 z = zone_validate parse2 z.
Proof.
  intros Hz. unfold zone_validate.
  assert (Hns : match zone_ns z with Some (_, rds) => Forall P rds | None => True end).
  { unfold zone_ns. destruct (rr_lookup TYPE_NS (node_data (z_apex z))) as [rs|] eqn:L; simpl; auto.
    apply node_P_parts in Hz. exact (rr_lookup_P P _ _ _ (proj1 Hz) L). }
  assert (E1 : match zone_ns z with
               | Some (_, rds) =>
                 if class_has_addrs (z_class z) then
                   collect (fun rd => match parse1 rd with Some n => check_apex_ns_address z n | None => Err InvalidRdata end) rds
                 else Ok []
               | None => Ok [MissingApexNs]
               end =
               match zone_ns z with
               | Some (_, rds) =>
                 if class_has_addrs (z_class z) then
                   collect (fun rd => match parse2 rd with Some n => check_apex_ns_address z n | None => Err InvalidRdata end) rds
                 else Ok []
               | None => Ok [MissingApexNs]
               end).
  { destruct (zone_ns z) as [[ttl rds]|]; auto. destruct (class_has_addrs (z_class z)); auto.
    apply collect_ext. intros rd Hrd. rewrite Forall_forall in Hns. rewrite (Hpar _ (Hns rd Hrd)). reflexivity. }
  rewrite E1.
  assert (E2 : collect (fun nd => scan_node parse1 z (fst nd) (snd nd)) (zone_iter_by_node z) =
               collect (fun nd => scan_node parse2 z (fst nd) (snd nd)) (zone_iter_by_node z)).
  { apply collect_ext. intros [n d] Hin. simpl. unfold scan_node. apply collect_ext. intros rs Hrs.
    apply scan_rrset_ext. pose proof (node_iter_P P _ Hz n d Hin) as Hd.
    unfold rrsets_P in Hd. rewrite Forall_forall in Hd. auto. }
  rewrite E2. reflexivity.
Qed.

End ExtV.

(* ================================================================ Part C: the real instances *)

Definition wf_record (r : record) : Prop := wf_bytes (r_rdata r).

Lemma wf_skipn k (rd : bytes) : wf_bytes rd -> wf_bytes (skipn k rd).
Proof.
  unfold wf_bytes. intros H. rewrite Forall_forall in *. intros x Hx. apply H.
  rewrite <- (firstn_skipn k rd). apply in_or_app. right. exact Hx.
Qed.

Lemma build_real apex cls wide recs : Forall wf_record recs ->
  zone_build req_real (zone_new apex cls wide) recs = zone_build spec_req (zone_new apex cls wide) recs /\
  forall z, zone_build req_real (zone_new apex cls wide) recs = Some z -> node_P wf_bytes (z_apex z).
Proof.
  intros W. apply (zone_build_ext wf_bytes req_real spec_req).
  - intros c t a b. apply req_real_spec.
  - exact (node_P_new wf_bytes apex).
  - exact W.
Qed.

Lemma add_real z r : node_P wf_bytes (z_apex z) -> wf_record r ->
  zone_add req_real z r = zone_add spec_req z r.
Proof. intros Hz Hr. apply (zone_add_ext wf_bytes req_real spec_req); auto. intros c t a b. apply req_real_spec. Qed.

Lemma validate_real z : node_P wf_bytes (z_apex z) ->
  zone_validate parse_real z = zone_validate spec_rdata_name z.
Proof.
  intros Hz. apply (zone_validate_ext wf_bytes); auto.
  - intros k rd. apply wf_skipn.
  - intros rd. apply parse_real_spec.
Qed.

Section Real.
Variables (apex : name) (cls : N) (wide : bool) (recs : list record) (z : zone).
Hypothesis W : Forall wf_record recs.
Hypothesis B : zone_build req_real (zone_new apex cls wide) recs = Some z.

Lemma real_build_spec : zone_build spec_req (zone_new apex cls wide) recs = Some z.
Proof. rewrite <- (proj1 (build_real apex cls wide recs W)). exact B. Qed.

Let R := accepted apex cls recs.

Lemma real_lookup_refines qn ty u sbc : (u = true -> in_zone apex qn = true) ->
  exists r, zone_lookup z qn ty u sbc = Ok r /\
            spec_lookup spec_req apex cls R qn ty u sbc = Some (norm_lookup r).
Proof. exact (build_lookup_refines spec_req spec_req_trans apex cls wide recs z qn ty u sbc real_build_spec). Qed.

Lemma real_lookup_addrs_refines qn u sbc : (u = true -> in_zone apex qn = true) ->
  exists r, zone_lookup_addrs z qn u sbc = Ok r /\
            spec_lookup_addrs spec_req apex cls R qn u sbc = Some (norm_addrs r).
Proof. exact (build_lookup_addrs_refines spec_req spec_req_trans apex cls wide recs z qn u sbc real_build_spec). Qed.

Lemma real_lookup_all_refines qn u sbc : (u = true -> in_zone apex qn = true) ->
  exists r, zone_lookup_all z qn u sbc = Ok r /\
            spec_lookup_all spec_req apex cls R qn u sbc = Some (norm_all r).
Proof. exact (build_lookup_all_refines spec_req spec_req_trans apex cls wide recs z qn u sbc real_build_spec). Qed.

Lemma real_lookup_exact qn ty u sbc : (u = true -> in_zone apex qn = true) ->
  exists r', spec_lookup spec_req apex cls R qn ty u sbc = Some r' /\
             zone_lookup z qn ty u sbc = Ok (spell_lookup apex R r').
Proof. exact (build_lookup_exact spec_req spec_req_trans apex cls wide recs z qn ty u sbc real_build_spec). Qed.

Lemma real_lookup_addrs_exact qn u sbc : (u = true -> in_zone apex qn = true) ->
  exists r', spec_lookup_addrs spec_req apex cls R qn u sbc = Some r' /\
             zone_lookup_addrs z qn u sbc = Ok (spell_addrs apex R r').
Proof. exact (build_lookup_addrs_exact spec_req spec_req_trans apex cls wide recs z qn u sbc real_build_spec). Qed.

Lemma real_lookup_all_exact qn u sbc : (u = true -> in_zone apex qn = true) ->
  exists r', spec_lookup_all spec_req apex cls R qn u sbc = Some r' /\
             zone_lookup_all z qn u sbc = Ok (spell_all apex R r').
Proof. exact (build_lookup_all_exact spec_req spec_req_trans apex cls wide recs z qn u sbc real_build_spec). Qed.

Lemma real_add_result r : wf_record r ->
  exists z', zone_add req_real z r = Ok (z', add_verdict apex cls R r) /\
             (add_verdict apex cls R r <> None -> z' = z) /\
             zone_build req_real (zone_new apex cls wide) (recs ++ [r]) = Some z'.
Proof.
  intros Hr.
  destruct (add_result spec_req spec_req_trans apex cls wide recs z r real_build_spec) as (z' & A & S & N).
  exists z'. rewrite (add_real z r (proj2 (build_real apex cls wide recs W) z B) Hr).
  split; [exact A|]. split; [exact S|].
  rewrite (proj1 (build_real apex cls wide (recs ++ [r])
                    ltac:(apply Forall_app; split; [exact W|constructor; [exact Hr|constructor]]))).
  exact N.
Qed.

Lemma real_iter_nodes :
  NoDup (map (fun nd => lc (fst nd)) (zone_iter_by_node z)) /\
  (forall m, In m (map (fun nd => lc (fst nd)) (zone_iter_by_node z)) <->
             is_suffixb (lc apex) m && exists_name apex R m = true) /\
  (forall n d, In (n, d) (zone_iter_by_node z) -> d = spec_rrsets spec_req cls R (lc n)).
Proof. exact (build_iter_nodes spec_req spec_req_trans apex cls wide recs z real_build_spec). Qed.

Lemma real_iter_rrsets :
  (forall n rs, In (n, rs) (zone_iter_by_rrset z) ->
     spec_rrset spec_req cls R (lc n) (rs_type rs) = Some rs) /\
  (forall m ty rs, is_suffixb (lc apex) m = true -> spec_rrset spec_req cls R m ty = Some rs ->
     exists n, lc n = m /\ In (n, rs) (zone_iter_by_rrset z)) /\
  NoDup (map (fun x => (lc (fst x), rs_type (snd x))) (zone_iter_by_rrset z)).
Proof. exact (build_iter_rrsets spec_req spec_req_trans apex cls wide recs z real_build_spec). Qed.

Lemma real_iter_names_spelled :
  (forall n d, In (n, d) (zone_iter_by_node z) -> spelled apex R (lc n) = n) /\
  (forall n rs, In (n, rs) (zone_iter_by_rrset z) -> spelled apex R (lc n) = n).
Proof. exact (build_iter_names_spelled spec_req spec_req_trans apex cls wide recs z real_build_spec). Qed.

Lemma real_soa_ns :
  zone_soa z = single_of spec_req cls R (lc apex) 6 /\ zone_ns z = single_of spec_req cls R (lc apex) 2 /\
  exists d, hd_error (zone_iter_by_node z) = Some (zone_name z, d) /\
            zone_soa z = option_map to_single (rr_lookup TYPE_SOA d) /\
            zone_ns z = option_map to_single (rr_lookup TYPE_NS d).
Proof. exact (build_soa_ns spec_req spec_req_trans apex cls wide recs z real_build_spec). Qed.

Lemma real_validate_exact l : zone_validate parse_real z = Ok l ->
  exists l', spec_validate spec_req spec_rdata_name apex cls wide R = Some l' /\
             forall i, In i (map norm_issue l) <-> In i l'.
Proof.
  rewrite (validate_real z (proj2 (build_real apex cls wide recs W) z B)).
  exact (build_validate_exact spec_req spec_req_trans spec_rdata_name apex cls wide recs z real_build_spec l).
Qed.

Lemma real_validate_err :
  (zone_validate parse_real z = Err InvalidRdata <->
   spec_validate spec_req spec_rdata_name apex cls wide R = None) /\
  zone_validate parse_real z <> Panic /\
  (forall e, zone_validate parse_real z = Err e -> e = InvalidRdata).
Proof.
  rewrite (validate_real z (proj2 (build_real apex cls wide recs W) z B)).
  exact (build_validate_err spec_req spec_req_trans spec_rdata_name apex cls wide recs z real_build_spec).
Qed.

End Real.

Lemma real_build_total apex cls wide recs : Forall wf_record recs ->
  exists z, zone_build req_real (zone_new apex cls wide) recs = Some z.
Proof.
  intros W. rewrite (proj1 (build_real apex cls wide recs W)).
  apply (build_total spec_req spec_req_trans).
Qed.

(* every RDATA stored in a zone built from octet-string records is an octet string, and it is the
   RDATA of one of the records *)
Lemma real_build_wf apex cls wide recs z : Forall wf_record recs ->
  zone_build req_real (zone_new apex cls wide) recs = Some z ->
  forall n d rs rd, In (n, d) (zone_iter_by_node z) -> In rs d -> In rd (rs_rdatas rs) -> wf_bytes rd.
Proof.
  intros W B n d rs rd Hnd Hrs Hrd.
  pose proof (node_iter_P wf_bytes _ (proj2 (build_real apex cls wide recs W) z B) n d Hnd) as Hd.
  unfold rrsets_P in Hd. rewrite Forall_forall in Hd. specialize (Hd rs Hrs).
  unfold rrset_P in Hd. rewrite Forall_forall in Hd. auto.
Qed.
