(* Names in the zone-file parser: the NameBuilder model builds the representation
   [name_of ls] of a list of non-empty labels of at most 63 octets with a wire form of
   at most 255 octets, never panics, and such names pass validate_uncompressed_name. *)
From QV Require Import Base.ListX Model.NameWire Spec.NameWireS Spec.NameRepr Proofs.NameWireP
  Model.ZfReader Model.ZfParser Proofs.ZfReaderP Spec.ZfValidS.

Local Open Scope nat_scope.

Ltac feq := repeat (first [lia | reflexivity | f_equal]).


Lemma lwire_cons l r : lwire (l :: r) = N.of_nat (length l) :: l ++ lwire r.
Proof. reflexivity. Qed.

Lemma lwire_len_ge ls : Forall good_label ls -> 2 * length ls <= length (lwire ls).
Proof.
  induction 1 as [|l r Hl _ IH]; [simpl; lia|].
  rewrite lwire_cons. cbn [length]. rewrite app_length. unfold good_label in Hl. lia.
Qed.

Lemma wire_len_lwire ls : wire_len ls = length (lwire ls) + 1.
Proof. unfold wire_len, wire_of. rewrite app_length. reflexivity. Qed.

Lemma good_labels_count ls : good_labels ls -> length ls <= 127.
Proof. intros [H1 H2]. pose proof (lwire_len_ge ls H1). rewrite wire_len_lwire in H2. lia. Qed.

Lemma good_root : good_name root_name.
Proof. exists []. split; [split; [constructor|vm_compute; lia]|reflexivity]. Qed.

Lemma good_name_len nm : good_name nm -> 1 <= length (n_wire nm) <= 255.
Proof.
  intros (ls & [H1 H2] & ->). unfold name_of. simpl. fold (wire_len ls).
  pose proof (wire_len_pos ls). lia.
Qed.

(* ---- validation of a good name followed by anything ------------------------------------- *)

Lemma val_loop_wire : forall ls pre rest fuel,
  Forall good_label ls -> length pre + wire_len ls <= 255 -> length ls < fuel ->
  val_loop fuel (pre ++ wire_of ls ++ rest) (length pre) = Ok (length pre + wire_len ls).
Proof.
  induction ls as [|l r IH]; intros pre rest fuel Hg Hlen Hf; (destruct fuel as [|fuel]; [simpl in Hf; lia|]).
  - cbn [val_loop]. unfold wire_of at 1. simpl lwire. simpl app at 2.
    rewrite nth_error_app2 by lia. rewrite Nat.sub_diag. simpl nth_error.
    change (max_label_len <? 0)%N with false. cbn iota.
    change max_wire_len with 255. change (wire_len []) with 1 in *.
    destruct (255 <? length pre + N.to_nat 0 + 1) eqn:E; [apply Nat.ltb_lt in E; simpl in E; lia|].
    simpl. f_equal. lia.
  - inversion Hg as [|? ? Hl Hr]; subst. unfold good_label in Hl.
    rewrite wire_len_cons in Hlen.
    cbn [val_loop]. rewrite wire_of_cons. simpl app at 2.
    rewrite nth_error_app2 by lia. rewrite Nat.sub_diag. simpl nth_error.
    destruct (max_label_len <? N.of_nat (length l))%N eqn:E1.
    { apply N.ltb_lt in E1. change max_label_len with 63%N in E1. lia. }
    change max_wire_len with 255. rewrite Nat2N.id.
    destruct (255 <? length pre + length l + 1) eqn:E2; [apply Nat.ltb_lt in E2; lia|].
    destruct (N.of_nat (length l) =? 0)%N eqn:E3; [apply N.eqb_eq in E3; lia|].
    rewrite ?E1, ?E2, ?E3.
    specialize (IH (pre ++ N.of_nat (length l) :: l) rest fuel Hr).
    rewrite app_length in IH. cbn [length] in IH.
    replace (pre ++ (N.of_nat (length l) :: l ++ wire_of r) ++ rest)
      with ((pre ++ N.of_nat (length l) :: l) ++ wire_of r ++ rest)
      by (repeat (rewrite <- app_assoc; simpl); reflexivity).
    replace (length pre + length l + 1) with (length pre + S (length l)) by lia.
    rewrite IH; [f_equal; rewrite wire_len_cons; lia|lia|simpl in Hf; lia].
Qed.

Lemma validate_wire ls rest : good_labels ls ->
  validate_uncompressed_name (wire_of ls ++ rest) false = Ok (wire_len ls).
Proof.
  intros [H1 H2]. unfold validate_uncompressed_name.
  pose proof (val_loop_wire ls [] rest unc_fuel H1) as H. cbn [app length Nat.add] in H. rewrite H.
  - reflexivity.
  - exact H2.
  - pose proof (good_labels_count ls (conj H1 H2)). unfold unc_fuel. change max_wire_len with 255. lia.
Qed.

Lemma validate_wire_all ls : good_labels ls ->
  validate_uncompressed_name (wire_of ls) true = Ok (wire_len ls).
Proof.
  intros [H1 H2]. unfold validate_uncompressed_name.
  pose proof (val_loop_wire ls [] [] unc_fuel H1) as H. cbn [app length Nat.add] in H. rewrite app_nil_r in H. rewrite H.
  - cbn [bind]. fold (wire_len ls). rewrite Nat.ltb_irrefl. reflexivity.
  - exact H2.
  - pose proof (good_labels_count ls (conj H1 H2)). unfold unc_fuel. change max_wire_len with 255. lia.
Qed.

Lemma val_loop_le b : forall fuel i n, val_loop fuel b i = Ok n -> n <= length b.
Proof.
  induction fuel as [|fuel IH]; intros i n H; [discriminate|].
  cbn [val_loop] in H. destruct (nth_error b i) as [l|] eqn:E; [|discriminate].
  destruct (max_label_len <? l)%N; [discriminate|].
  destruct (max_wire_len <? i + N.to_nat l + 1); [discriminate|].
  destruct (l =? 0)%N eqn:E0.
  - apply N.eqb_eq in E0. subst l. inversion H; subst. apply nth_error_Some_lt in E. simpl. lia.
  - eapply IH. exact H.
Qed.

Lemma validate_le b n : validate_uncompressed_name b false = Ok n -> n <= length b.
Proof.
  unfold validate_uncompressed_name. destruct (val_loop unc_fuel b 0) as [m|e|] eqn:E; try discriminate.
  cbn [bind andb]. intros [= <-]. eapply val_loop_le. exact E.
Qed.

Lemma validate_total b all :
  validate_uncompressed_name b all <> Panic /\ validate_uncompressed_name b all <> Err OutOfFuel.
Proof.
  rewrite validate_agrees. destruct (parse_uncompressed_total b all) as [H1 H2].
  destruct (parse_uncompressed_name b all) as [[nm l]|e|]; simpl; split; congruence.
Qed.

(* ---- offsets and labels of name_of ---------------------------------------------------------- *)

Lemma offs_of_length ls : forall base, length (offs_of base ls) = S (length ls).
Proof. induction ls as [|l r IH]; intros base; simpl; [reflexivity|]. rewrite IH. reflexivity. Qed.

Lemma offs_of_snoc ls : forall base l,
  offs_of base (ls ++ [l]) = offs_of base ls ++ [(N.of_nat (base + length (lwire (ls ++ [l]))) mod 256)%N].
Proof.
  induction ls as [|x r IH]; intros base l.
  - simpl. rewrite app_nil_r. feq.
  - simpl app. cbn [offs_of]. rewrite IH. simpl app.
    rewrite ?lwire_cons. cbn [length]. rewrite ?app_length. feq.
Qed.

Lemma offs_of_app a : forall base b,
  offs_of base (a ++ b) = firstn (length a) (offs_of base a) ++ offs_of (base + length (lwire a)) b.
Proof.
  induction a as [|x r IH]; intros base b.
  - simpl. f_equal. lia.
  - simpl app. cbn [offs_of length firstn]. rewrite IH. simpl app.
    rewrite ?lwire_cons. cbn [length]. rewrite ?app_length. feq.
Qed.

Lemma offs_of_last a base :
  offs_of base a = firstn (length a) (offs_of base a) ++ [(N.of_nat (base + length (lwire a)) mod 256)%N].
Proof. pose proof (offs_of_app a base []) as H. rewrite app_nil_r in H. exact H. Qed.

Lemma nth_error_offs ls : forall base i, i <= length ls ->
  nth_error (offs_of base ls) i = Some (N.of_nat (base + length (lwire (firstn i ls))) mod 256)%N.
Proof.
  induction ls as [|l r IH]; intros base i Hi.
  - simpl in Hi. assert (i = 0) by lia. subst. simpl. feq.
  - destruct i as [|i].
    + simpl. feq.
    + cbn [offs_of nth_error firstn]. rewrite IH by (simpl in Hi; lia).
      rewrite ?lwire_cons. cbn [length]. rewrite ?app_length. feq.
Qed.

Lemma wire_split ls i : i < length ls ->
  wire_of ls = lwire (firstn i ls) ++ N.of_nat (length (nth i ls [])) :: nth i ls [] ++ wire_of (skipn (S i) ls).
Proof.
  revert i. induction ls as [|l r IH]; intros i Hi; [simpl in Hi; lia|].
  destruct i as [|i].
  - simpl firstn. simpl nth. simpl skipn. simpl lwire. simpl app. apply wire_of_cons.
  - cbn [firstn nth skipn]. rewrite wire_of_cons, lwire_cons.
    rewrite (IH i) by (simpl in Hi; lia). simpl. rewrite <- !app_assoc. reflexivity.
Qed.

Lemma lwire_firstn_S ls i : i < length ls ->
  lwire (firstn (S i) ls) = lwire (firstn i ls) ++ N.of_nat (length (nth i ls [])) :: nth i ls [].
Proof.
  revert i. induction ls as [|l r IH]; intros i Hi; [simpl in Hi; lia|].
  destruct i as [|i].
  - simpl. rewrite app_nil_r. reflexivity.
  - change (firstn (S (S i)) (l :: r)) with (l :: firstn (S i) r).
    change (firstn (S i) (l :: r)) with (l :: firstn i r).
    change (nth (S i) (l :: r) []) with (nth i r []).
    rewrite !lwire_cons. rewrite (IH i) by (simpl in Hi; lia).
    simpl. rewrite <- !app_assoc. reflexivity.
Qed.

Lemma firstn_lwire_le ls i : length (lwire (firstn i ls)) <= length (lwire ls).
Proof.
  rewrite <- (firstn_skipn i ls) at 2. rewrite lwire_app, app_length. lia.
Qed.

Lemma Forall_nth_good ls i : Forall good_label ls -> i < length ls -> good_label (nth i ls []).
Proof. intros H Hi. rewrite Forall_forall in H. apply H. apply nth_In. exact Hi. Qed.

Lemma label_at_gen (A L T : bytes) offs i :
  nth_error offs i = Some (N.of_nat (length A)) ->
  label_at (mkName offs (A ++ N.of_nat (length L) :: L ++ T)) i = Ok L.
Proof.
  intros H. unfold label_at. cbn [n_offsets n_wire]. rewrite H. rewrite Nat2N.id.
  rewrite nth_error_app2 by lia. rewrite Nat.sub_diag. cbn [nth_error]. rewrite Nat2N.id.
  assert (Hlen : length (A ++ N.of_nat (length L) :: L ++ T) = length A + 1 + length L + length T).
  { rewrite app_length. cbn [length]. rewrite app_length. lia. }
  rewrite Hlen.
  destruct (length A + 1 + length L + length T <? length A + 1 + length L) eqn:E; [apply Nat.ltb_lt in E; lia|].
  f_equal. unfold slice.
  replace (length A + 1 + length L - (length A + 1)) with (length L) by lia.
  replace (A ++ N.of_nat (length L) :: L ++ T) with ((A ++ [N.of_nat (length L)]) ++ L ++ T)
    by (rewrite <- app_assoc; reflexivity).
  rewrite skipn_app. rewrite skipn_all2 by (rewrite app_length; simpl; lia).
  rewrite app_length. cbn [length]. replace (length A + 1 - (length A + 1)) with 0 by lia.
  cbn [app skipn]. rewrite firstn_app. rewrite Nat.sub_diag. cbn [firstn]. rewrite app_nil_r. apply firstn_all.
Qed.

Lemma label_at_name_of ls i : good_labels ls -> i <= length ls ->
  label_at (name_of ls) i = Ok (nth i ls []).
Proof.
  intros [Hg Hw] Hi. unfold name_of.
  pose proof (firstn_lwire_le ls i) as Hle. rewrite wire_len_lwire in Hw.
  assert (Ho : nth_error (offs_of 0 ls) i = Some (N.of_nat (length (lwire (firstn i ls))))).
  { rewrite nth_error_offs by exact Hi. cbn [Nat.add]. rewrite N.mod_small by lia. reflexivity. }
  destruct (Nat.eq_dec i (length ls)) as [->|Hne].
  - rewrite firstn_all in Ho. rewrite nth_overflow by lia.
    replace (wire_of ls) with (lwire ls ++ N.of_nat (length (@nil N)) :: [] ++ []) by reflexivity.
    apply label_at_gen. exact Ho.
  - assert (Hlt : i < length ls) by lia.
    rewrite (wire_split ls i Hlt). apply label_at_gen. exact Ho.
Qed.

(* ---- the NameBuilder invariant ---------------------------------------------------------------- *)

Definition nb_inv (b : nb) (ds : list label) (cur : label) : Prop :=
  nb_wire b = lwire ds ++ 0%N :: cur /\ nb_offs b = offs_of 0 ds /\ nb_start b = length (lwire ds) /\
  nb_len b = N.of_nat (length cur) /\ Forall good_label ds /\ length cur <= 63 /\ length (nb_wire b) <= 255.

Lemma nb_inv_new : nb_inv nb_new [] [].
Proof. unfold nb_inv, nb_new. simpl. repeat split; auto; lia. Qed.

Lemma nb_try_push_ok b ds cur o : nb_inv b ds cur ->
  match nb_try_push b o with
  | Ok b' => nb_inv b' ds (cur ++ [o])
  | Err _ => True
  | Panic => False
  end.
Proof.
  intros (Hw & Ho & Hs & Hl & Hg & Hc & Hlen). unfold nb_try_push.
  change (max_label_len mod 256)%N with 63%N. change max_wire_len with 255.
  destruct (63 <=? nb_len b)%N eqn:E1; [exact I|]. apply N.leb_gt in E1.
  destruct (255 <=? length (nb_wire b)) eqn:E2; [exact I|]. apply Nat.leb_gt in E2.
  unfold nb_inv. cbn [nb_wire nb_offs nb_start nb_len]. rewrite Hw.
  repeat split; auto.
  - rewrite <- app_assoc. reflexivity.
  - rewrite Hl, app_length. simpl. lia.
  - rewrite app_length. simpl. lia.
  - rewrite <- Hw, app_length. simpl. lia.
Qed.

Lemma list_set_mid {A} (a : list A) x c y : list_set (a ++ x :: c) (length a) y = Some (a ++ y :: c).
Proof. induction a as [|z a IH]; simpl; [reflexivity|]. rewrite IH. reflexivity. Qed.

Lemma list_set_length {A} (l : list A) i x l' : list_set l i x = Some l' -> length l' = length l.
Proof.
  revert i l'. induction l as [|y t IH]; intros i l' H; [destruct i; discriminate|].
  destruct i as [|i]; simpl in H.
  - inversion H; reflexivity.
  - destruct (list_set t i x) as [t'|] eqn:E; [|discriminate]. inversion H; subst. simpl. f_equal. eauto.
Qed.

Lemma nb_update_ok b ds cur : nb_inv b ds cur ->
  nb_update_label_len b = Some (lwire (ds ++ [cur])).
Proof.
  intros (Hw & Ho & Hs & Hl & _). unfold nb_update_label_len. rewrite Hw, Hs, Hl, list_set_mid.
  rewrite lwire_app. simpl. rewrite app_nil_r. reflexivity.
Qed.

Lemma nb_next_label_ok b ds cur : nb_inv b ds cur ->
  match nb_next_label b with
  | Ok b' => nb_inv b' (ds ++ [cur]) []
  | Err _ => True
  | Panic => False
  end.
Proof.
  intros Hinv. pose proof Hinv as (Hw & Ho & Hs & Hl & Hg & Hc & Hlen). unfold nb_next_label, nb_fq.
  destruct (nb_len b =? 0)%N eqn:E0; [exact I|]. apply N.eqb_neq in E0.
  change max_wire_len with 255.
  destruct (255 <=? length (nb_wire b)) eqn:E2; [exact I|]. apply Nat.leb_gt in E2.
  rewrite (nb_update_ok b ds cur Hinv).
  assert (Hcur : good_label cur) by (unfold good_label; lia).
  assert (Hg' : Forall good_label (ds ++ [cur])) by (apply Forall_app; split; [exact Hg|constructor; [exact Hcur|constructor]]).
  assert (Hwl : length (lwire (ds ++ [cur])) = length (nb_wire b)).
  { rewrite Hw, lwire_app, !app_length. simpl. rewrite app_nil_r. reflexivity. }
  pose proof (lwire_len_ge _ Hg') as Hcount. rewrite app_length in Hcount. simpl in Hcount.
  rewrite push_offset_ok by (rewrite Ho, offs_of_length; lia).
  unfold nb_inv. cbn [nb_wire nb_offs nb_start nb_len].
  repeat split; auto.
  - rewrite Ho, offs_of_snoc. reflexivity.
  - simpl. lia.
  - rewrite app_length. simpl. lia.
Qed.

Lemma nb_finish_ok b ds cur : nb_inv b ds cur ->
  match nb_finish b with
  | Ok nm => good_name nm
  | Err _ => True
  | Panic => False
  end.
Proof.
  intros (Hw & Ho & Hs & Hl & Hg & Hc & Hlen). unfold nb_finish, nb_fq.
  destruct (nb_len b =? 0)%N eqn:E0; simpl; [|exact I]. apply N.eqb_eq in E0.
  assert (cur = []) by (destruct cur; [reflexivity|simpl in Hl; lia]). subst cur.
  exists ds. split.
  - split; [exact Hg|]. unfold wire_len, wire_of. rewrite <- Hw. exact Hlen.
  - unfold name_of. rewrite Ho, Hw. reflexivity.
Qed.

Lemma nb_push_labels_ok ss W0 : good_labels ss -> forall n i w,
  i <= length ss -> i + n = S (length ss) -> w = W0 ++ lwire (firstn i ss) ->
  match nb_push_labels (name_of ss) n i w with
  | Ok w' => w' = W0 ++ wire_of ss /\ length w' <= 255
  | Err _ => True
  | Panic => False
  end.
Proof.
  intros Hss. induction n as [|n IH]; intros i w Hile Hin Hw.
  - exfalso. lia.
  - cbn [nb_push_labels]. rewrite (label_at_name_of ss i Hss) by lia.
    change max_wire_len with 255.
    destruct (255 <=? length w) eqn:E1; [exact I|]. apply Nat.leb_gt in E1.
    destruct (Nat.eq_dec i (length ss)) as [->|Hne].
    + rewrite nth_overflow by lia. simpl length. simpl N.of_nat. change (0 mod 256)%N with 0%N.
      unfold try_extend. change max_wire_len with 255. rewrite app_length. simpl length.
      destruct (255 <? length w + 1 + 0) eqn:E2; [exact I|]. apply Nat.ltb_ge in E2.
      rewrite app_nil_r. assert (n = 0) by lia. subst n. simpl.
      rewrite firstn_all in Hw. subst w. unfold wire_of. rewrite <- app_assoc. split; [reflexivity|].
      rewrite !app_length in *. simpl in *. lia.
    + assert (Hlt : i < length ss) by lia.
      destruct Hss as [Hg Hwl].
      pose proof (Forall_nth_good ss i Hg Hlt) as Hgl. unfold good_label in Hgl.
      rewrite N.mod_small by lia.
      destruct (try_extend (w ++ [N.of_nat (length (nth i ss []))]) (nth i ss [])) as [w2|] eqn:E2; [|exact I].
      apply try_extend_inv in E2. destruct E2 as [-> E2].
      apply IH; [lia|lia|]. subst w. rewrite (lwire_firstn_S ss i Hlt). rewrite <- !app_assoc. reflexivity.
Qed.

Lemma nb_push_offsets_ok b0 : forall ss k acc,
  k + b0 + wire_len ss <= 256 -> length acc + length ss < 128 ->
  nb_push_offsets (offs_of k ss) (N.of_nat b0) acc = Some (acc ++ offs_of (k + b0) ss).
Proof.
  induction ss as [|l r IH]; intros k acc Hk Hn.
  - change (wire_len []) with 1 in Hk. cbn [offs_of nb_push_offsets].
    rewrite !N.mod_small by lia.
    destruct (256 <=? N.of_nat k + N.of_nat b0)%N eqn:E1; [apply N.leb_le in E1; lia|].
    change max_n_labels with 128.
    destruct (128 <=? length acc) eqn:E2; [apply Nat.leb_le in E2; simpl in Hn; lia|].
    feq.
  - rewrite wire_len_cons in Hk. pose proof (wire_len_pos r).
    cbn [offs_of nb_push_offsets]. rewrite !N.mod_small by lia.
    destruct (256 <=? N.of_nat k + N.of_nat b0)%N eqn:E1; [apply N.leb_le in E1; lia|].
    change max_n_labels with 128.
    destruct (128 <=? length acc) eqn:E2; [apply Nat.leb_le in E2; simpl in Hn; lia|].
    rewrite IH; [|lia|rewrite app_length; simpl in *; lia].
    rewrite <- app_assoc. simpl. feq.
Qed.

Lemma good_labels_app_wire a b : wire_of (a ++ b) = lwire a ++ wire_of b.
Proof. unfold wire_of. rewrite lwire_app, <- app_assoc. reflexivity. Qed.

Lemma nb_finish_with_suffix_ok b ds cur suffix : nb_inv b ds cur -> good_name suffix ->
  match nb_finish_with_suffix b suffix with
  | Ok nm => good_name nm
  | Err _ => True
  | Panic => False
  end.
Proof.
  intros Hinv (ss & Hss & ->). pose proof Hinv as (Hw & Ho & Hs & Hl & Hg & Hc & Hlen).
  unfold nb_finish_with_suffix, nb_fq.
  destruct (nb_len b =? 0)%N eqn:E0; [exact I|]. apply N.eqb_neq in E0.
  rewrite (nb_update_ok b ds cur Hinv).
  assert (Hcur : good_label cur) by (unfold good_label; lia).
  assert (Hg' : Forall good_label (ds ++ [cur])) by (apply Forall_app; split; [exact Hg|constructor; [exact Hcur|constructor]]).
  assert (Hwl : length (lwire (ds ++ [cur])) = length (nb_wire b)).
  { rewrite Hw, lwire_app, !app_length. simpl. rewrite app_nil_r. reflexivity. }
  set (w := lwire (ds ++ [cur])) in *.
  pose proof (nb_push_labels_ok ss w Hss (S (length ss)) 0 w (Nat.le_0_l _) eq_refl (eq_sym (app_nil_r w))) as HP.
  replace (length (n_offsets (name_of ss))) with (S (length ss))
    by (unfold name_of; cbn [n_offsets]; rewrite offs_of_length; reflexivity).
  destruct (nb_push_labels (name_of ss) (S (length ss)) 0 w) as [w'|e|]; cbn [bind]; [|exact I|exact HP].
  destruct HP as [-> HL]. rewrite app_length in HL. fold (wire_len ss) in HL.
  rewrite N.mod_small by lia.
  destruct Hss as [Hgs Hws].
  assert (Hall : Forall good_label (ds ++ cur :: ss)).
  { apply Forall_app. split; [exact Hg|]. constructor; assumption. }
  assert (Hww : wire_of (ds ++ cur :: ss) = w ++ wire_of ss).
  { replace (ds ++ cur :: ss) with ((ds ++ [cur]) ++ ss) by (rewrite <- app_assoc; reflexivity).
    apply good_labels_app_wire. }
  assert (Hgood : good_labels (ds ++ cur :: ss)).
  { split; [exact Hall|]. unfold wire_len. rewrite Hww, app_length. fold (wire_len ss). exact HL. }
  pose proof (good_labels_count _ Hgood) as Hcnt. rewrite app_length in Hcnt. simpl in Hcnt.
  unfold name_of at 1. cbn [n_offsets].
  rewrite (nb_push_offsets_ok (length w) ss 0 (nb_offs b)); [|simpl; lia|rewrite Ho, offs_of_length; lia].
  exists (ds ++ cur :: ss). split; [exact Hgood|].
  unfold name_of. rewrite Hww. f_equal.
  replace (ds ++ cur :: ss) with ((ds ++ [cur]) ++ ss) by (rewrite <- app_assoc; reflexivity).
  rewrite offs_of_app. rewrite Ho. simpl Nat.add. fold w.
  rewrite offs_of_snoc. rewrite app_length. simpl length.
  rewrite firstn_app. rewrite offs_of_length.
  replace (length ds + 1 - S (length ds)) with 0 by lia. simpl firstn at 2. rewrite app_nil_r.
  rewrite firstn_all2 by (rewrite offs_of_length; lia). reflexivity.
Qed.
