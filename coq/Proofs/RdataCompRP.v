(* Components written into a message read back as the RDATA: if the components of a valid
   RDATA are laid out in a message — every name component as ANY encoding (compressed or not)
   that decodes, by the RFC 1035 §4.1.4 relation, to labels with that name's wire form; every
   other component verbatim — then Rdata::read over those octets returns the RDATA. *)
From QV Require Import Base.ListX Model.NameWire Spec.NameWireS Spec.NameRepr Proofs.NameWireP
  Proofs.NameWireSP Model.RdataM Spec.RdataFormatS Spec.RdataCompS Proofs.RdNameP
  Proofs.RdataFormatSP Proofs.RdataVP Proofs.RdataRP Proofs.RdataWP Proofs.RdataCompP.
Local Open Scope nat_scope.

(* the writer's obligation, component by component; the RDATA occupies msg[pos..e] *)
Inductive laid_out (msg : bytes) (e : nat) : nat -> list component -> Prop :=
| lo_nil : laid_out msg e e []
| lo_name pos cb nm ls l rest :
    n_wire nm = wire_of ls -> decodes_name (firstn e msg) pos ls l ->
    laid_out msg e (pos + l) rest ->
    laid_out msg e pos (CName cb nm :: rest)
| lo_other pos b rest :
    pos + length b <= e -> slice msg pos (pos + length b) = b ->
    laid_out msg e (pos + length b) rest ->
    laid_out msg e pos (COther b :: rest).

Lemma firstn_slice {A} (l : list A) a b n : a + n <= b -> firstn n (slice l a b) = slice l a (a + n).
Proof.
  intros H. unfold slice. rewrite firstn_firstn. replace (Nat.min n (b - a)) with n by lia.
  replace (a + n - a) with n by lia. reflexivity.
Qed.

Lemma skipn_slice {A} (l : list A) a b n : skipn n (slice l a b) = slice l (a + n) b.
Proof.
  unfold slice. rewrite skipn_firstn_comm, skipn_plus. f_equal. lia.
Qed.

(* a format without names: the octets at pos..e *)
Lemma nameless_cmatches msg e : forall g r pos, simple g = true -> existsb is_FName g = false ->
  smatch g r = true -> pos + length r = e -> slice msg pos e = r -> cmatches msg e pos g r.
Proof.
  induction g as [|f g IH]; intros r pos Sg Ng M Hl Hs.
  - rewrite smatch_nil in M. destruct r; [|discriminate]. simpl in Hl. replace pos with e by lia. constructor.
  - cbn [simple forallb] in Sg. apply andb_true_iff in Sg. destruct Sg as [Sf Sg].
    cbn [existsb] in Ng. apply orb_false_iff in Ng. destruct Ng as [Nf Ng].
    destruct f; try discriminate.
    rewrite smatch_bytes in M. apply andb_true_iff in M. destruct M as [K M]. apply Nat.leb_le in K.
    rewrite <- (firstn_skipn n r).
    replace (firstn n r) with (slice msg pos (pos + n)) by (rewrite <- Hs, firstn_slice by lia; reflexivity).
    apply cm_bytes; [lia|].
    apply IH; auto.
    + rewrite skipn_length. lia.
    + rewrite <- Hs, skipn_slice. reflexivity.
Qed.

Lemma simple_tail f g : simple (f :: g) = true -> simple g = true.
Proof. cbn [simple forallb]. intros H. apply andb_true_iff in H. apply H. Qed.

Lemma laid_out_cmatches cb msg e : forall g types r comps pos,
  simple g = true -> map ck_of types = layout_of cb g -> smatch g r = true -> wf_bytes r ->
  comp_collect types r = Ok comps -> laid_out msg e pos comps -> cmatches msg e pos g r.
Proof.
  induction g as [|f g IH]; intros types r comps pos Sg L M Hwf C LO.
  - cbn [layout_of] in L. destruct types; [|discriminate].
    rewrite smatch_nil in M. destruct r; [|discriminate].
    rewrite comp_collect_nil in C. inversion C; subst comps. inversion LO; subst. constructor.
  - cbn [layout_of] in L. destruct (existsb is_FName (f :: g)) eqn:X.
    2: { (* no name left: nothing, or one remainder component *)
      destruct types; [|discriminate]. rewrite comp_collect_nil in C. inversion C; subst comps.
      destruct r as [|x r'].
      - inversion LO; subst. apply nameless_cmatches; auto. apply slice_nil.
      - inversion LO as [| |pos' b rest Hle Hsl LO' E1 E2]; subst. inversion LO'; subst.
        apply nameless_cmatches; auto. }
    pose proof (simple_tail _ _ Sg) as Sg'.
    destruct f; try discriminate.
    + (* a name *)
      destruct types as [|ty types']; [discriminate|]. cbn [map] in L. inversion L as [[Hty Hrest]].
      assert (S : comp_collect (ty :: types') r = name_step cb types' r).
      { destruct ty, cb; try discriminate; reflexivity. }
      rewrite S in C. unfold name_step in C. pose proof (uname_ok r Hwf) as U.
      destruct (uname r) as [[nm len]|e0|]; cbn [bind] in C; try discriminate.
      destruct U as (ls' & Hv & -> & Hn & Hr & Hl & Sn).
      rewrite slice_from_ok in C by exact Hl. cbn [bind] in C.
      destruct (comp_collect types' (skipn len r)) as [tl|e0|] eqn:C'; cbn [bind] in C; try discriminate.
      inversion C; subst comps.
      inversion LO as [|pos' cb' nm' ls l rest Hw D LO' E1 E2|]; subst.
      cbn [name_of n_wire] in Hw.
      rewrite smatch_name, Sn in M.
      rewrite Hr, Hw. apply cm_name with (l := l); [exact D|].
      apply (IH types' (skipn (wire_len ls') r) tl (pos + l)); auto. apply wf_skipn. exact Hwf.
    + (* fixed octets *)
      rewrite smatch_bytes in M. apply andb_true_iff in M. destruct M as [K M]. apply Nat.leb_le in K.
      destruct (layout_of cb g) as [|[cb'|m] r0] eqn:Lg.
      * destruct types as [|ty types']; [discriminate|]. cbn [map] in L. inversion L as [[Hty Hrest]].
        change (KFixed n) with (ck_of (FixedLen n)) in Hty. apply ck_of_inj in Hty. subst ty.
        rewrite comp_collect_fixed in C. replace (length r <? n) with false in C by (symmetry; apply Nat.ltb_ge; lia).
        destruct (comp_collect types' (skipn n r)) as [tl|e0|] eqn:C'; cbn [bind] in C; try discriminate.
        inversion C; subst comps.
        inversion LO as [| |pos' b rest Hle Hsl LO' E1 E2]; subst. rewrite firstn_length_le in * by exact K.
        rewrite <- (firstn_skipn n r). rewrite <- Hsl at 1. apply cm_bytes; [lia|].
        apply (IH types' (skipn n r) tl (pos + n)); auto. apply wf_skipn. exact Hwf.
      * destruct types as [|ty types']; [discriminate|]. cbn [map] in L. inversion L as [[Hty Hrest]].
        change (KFixed n) with (ck_of (FixedLen n)) in Hty. apply ck_of_inj in Hty. subst ty.
        rewrite comp_collect_fixed in C. replace (length r <? n) with false in C by (symmetry; apply Nat.ltb_ge; lia).
        destruct (comp_collect types' (skipn n r)) as [tl|e0|] eqn:C'; cbn [bind] in C; try discriminate.
        inversion C; subst comps.
        inversion LO as [| |pos' b rest Hle Hsl LO' E1 E2]; subst. rewrite firstn_length_le in * by exact K.
        rewrite <- (firstn_skipn n r). rewrite <- Hsl at 1. apply cm_bytes; [lia|].
        apply (IH types' (skipn n r) tl (pos + n)); auto. apply wf_skipn. exact Hwf.
      * (* merged with the fixed octets that follow: split the component again *)
        destruct types as [|ty types']; [discriminate|]. cbn [map] in L. inversion L as [[Hty Hrest]].
        change (KFixed (n + m)) with (ck_of (FixedLen (n + m))) in Hty. apply ck_of_inj in Hty. subst ty.
        rewrite comp_collect_fixed in C.
        destruct (length r <? n + m) eqn:B; [discriminate|]. apply Nat.ltb_ge in B.
        destruct (comp_collect types' (skipn (n + m) r)) as [tl|e0|] eqn:C'; cbn [bind] in C; try discriminate.
        inversion C; subst comps.
        inversion LO as [| |pos' b rest Hle Hsl LO' E1 E2]; subst. rewrite firstn_length_le in * by exact B.
        assert (H1 : slice msg pos (pos + n) = firstn n r).
        { transitivity (firstn n (firstn (n + m) r)).
          - rewrite <- Hsl, firstn_slice by lia. reflexivity.
          - rewrite firstn_firstn. f_equal. lia. }
        assert (H2 : slice msg (pos + n) (pos + n + m) = firstn m (skipn n r)).
        { transitivity (skipn n (firstn (n + m) r)).
          - rewrite <- Hsl, skipn_slice. f_equal. lia.
          - rewrite skipn_firstn_comm. f_equal. lia. }
        rewrite <- (firstn_skipn n r). rewrite <- H1 at 1. apply cm_bytes; [lia|].
        apply (IH (FixedLen m :: types') (skipn n r) (COther (firstn m (skipn n r)) :: tl) (pos + n)); auto.
        -- apply wf_skipn. exact Hwf.
        -- rewrite comp_collect_fixed, skipn_length.
           replace (length r - n <? m) with false by (symmetry; apply Nat.ltb_ge; lia).
           rewrite skipn_plus, C'. reflexivity.
        -- apply lo_other.
           ++ rewrite firstn_length_le by (rewrite skipn_length; lia). lia.
           ++ rewrite firstn_length_le by (rewrite skipn_length; lia). exact H2.
           ++ rewrite firstn_length_le by (rewrite skipn_length; lia).
              replace (pos + n + m) with (pos + (n + m)) by lia. exact LO'.
Qed.

Theorem components_read_back c t msg cur e r comps :
  wf_bytes msg -> wf_bytes r -> cur <= e -> e <= length msg -> (N.of_nat (e - cur) < 65536)%N ->
  matches (grammar c t) r ->
  components c t r = Ok comps -> laid_out msg e cur comps ->
  read c t msg cur (N.of_nat (e - cur)) = Ok r.
Proof.
  intros Hm Hr Hce He Hlen M C LO.
  apply (read_iff _ _ _ _ _ _ Hm Hlen). unfold read_spec. cbv zeta. rewrite Nat2N.id.
  replace (cur + (e - cur)) with e by lia. split; [exact He|].
  apply (smatch_iff _ _ Hr) in M. unfold components in C.
  pose proof (dispatch_components c t) as D. unfold spec_layout in D.
  destruct (decompressed c t) eqn:Dc.
  - apply (laid_out_cmatches (compressible_type t) msg e (grammar c t)
             (lookup components_arms components_default c t) r comps cur); auto.
    rewrite decompressed_simple in Dc. apply andb_true_iff in Dc. apply Dc.
  - destruct (lookup components_arms components_default c t); [|discriminate].
    rewrite comp_collect_nil in C. inversion C; subst comps.
    split; [|apply (smatch_iff _ _ Hr); exact M].
    destruct r as [|x r'].
    + inversion LO; subst. symmetry. apply slice_nil.
    + inversion LO as [| |pos' b rest Hle Hsl LO' E1 E2]; subst. inversion LO'; subst.
      symmetry. exact Hsl.
Qed.

(* [laid_out] is satisfiable for every RDATA whose components exist: writing every name
   uncompressed (the RDATA itself, anywhere in a message) is a lay-out.  With
   components_read_back this gives read_uncompressed again. *)
Lemma laid_out_uncompressed_gen : forall types r comps pre post, wf_bytes r ->
  comp_collect types r = Ok comps ->
  laid_out (pre ++ r ++ post) (length pre + length r) (length pre) comps.
Proof.
  induction types as [|ty rest IH]; intros r comps pre post Hwf C.
  - rewrite comp_collect_nil in C. inversion C; subst comps. destruct r as [|x r'].
    + simpl length. rewrite Nat.add_0_r. constructor.
    + apply lo_other; [lia| |constructor]. apply slice_app_mid; reflexivity.
  - assert (N : forall cb, name_step cb rest r = Ok comps ->
               laid_out (pre ++ r ++ post) (length pre + length r) (length pre) comps).
    { intros cb H. unfold name_step in H. pose proof (uname_ok r Hwf) as U.
      destruct (uname r) as [[nm len]|e0|]; cbn [bind] in H; try discriminate.
      destruct U as (ls & Hv & -> & Hn & Hr & Hl & _).
      rewrite slice_from_ok in H by exact Hl. cbn [bind] in H.
      destruct (comp_collect rest (skipn len r)) as [tl|e0|] eqn:C'; cbn [bind] in H; try discriminate.
      inversion H; subst comps.
      apply (lo_name _ _ (length pre) cb (name_of ls) ls len); [reflexivity| |].
      - replace (firstn (length pre + length r) (pre ++ r ++ post)) with (pre ++ r)
          by (symmetry; rewrite app_assoc; apply firstn_app_exact; rewrite app_length; reflexivity).
        rewrite Hr at 1. exists (length pre + wire_len ls). split; [apply decodes_of_wire; apply Hv|].
        split; [lia|apply Hv].
      - specialize (IH (skipn len r) tl (pre ++ firstn len r) post (wf_skipn len r Hwf) C').
        rewrite <- app_assoc in IH. rewrite (app_assoc (firstn len r)), firstn_skipn in IH.
        rewrite app_length, firstn_length_le, skipn_length in IH by exact Hl.
        replace (length pre + len + (length r - len)) with (length pre + length r) in IH by lia.
        exact IH. }
    destruct ty.
    + apply (N true). exact C.
    + apply (N false). exact C.
    + rewrite comp_collect_fixed in C.
      destruct (length r <? n) eqn:B; [discriminate|]. apply Nat.ltb_ge in B.
      destruct (comp_collect rest (skipn n r)) as [tl|e0|] eqn:C'; cbn [bind] in C; try discriminate.
      inversion C; subst comps.
      assert (Lf : length (firstn n r) = n) by (apply firstn_length_le; exact B).
      apply lo_other; rewrite Lf.
      * lia.
      * rewrite <- (firstn_skipn n r) at 1. rewrite <- app_assoc.
        apply slice_app_mid; [reflexivity|rewrite Lf; reflexivity].
      * specialize (IH (skipn n r) tl (pre ++ firstn n r) post (wf_skipn n r Hwf) C').
        rewrite <- app_assoc in IH. rewrite (app_assoc (firstn n r)), firstn_skipn in IH.
        rewrite app_length, Lf, skipn_length in IH.
        replace (length pre + n + (length r - n)) with (length pre + length r) in IH by lia.
        exact IH.
Qed.

Theorem laid_out_uncompressed c t r comps pre post : wf_bytes r ->
  components c t r = Ok comps ->
  laid_out (pre ++ r ++ post) (length pre + length r) (length pre) comps.
Proof. intros Hwf C. unfold components in C. eapply laid_out_uncompressed_gen; eauto. Qed.
