(* C23 stage 3: one record line.  parse_rdata on the rendered RDATA of every type with a syntax of its own
   (name types, A, CH A, SOA, HINFO, MINFO, MX, TXT, AAAA, SRV) and on the RFC 3597 \# form; then
   parse_record_or_empty on a whole rendered line, with the context update. *)
From QV Require Import Base.ListX Model.NameWire Spec.NameWireS Spec.NameRepr Proofs.NameWireP
  Model.ZfReader Model.ZfParser Proofs.ZfReaderP Proofs.ZfStdP Spec.ZfValidS Proofs.ZfNameP Proofs.ZfParserP
  Proofs.ZfRecordP Proofs.ZfFieldsP Proofs.ZfRunP Proofs.ZfTokP Proofs.ZfNameRP Proofs.ZfSymP Proofs.ZfAddrP
  Spec.ZfRenderS.

Local Open Scope N_scope.

(* every statement below holds for either numbering of the bits of a WKS bit map, except where the parser's
   own numbering is needed (new_in_wks_runs, wks_runs, rdata_runs: hypothesis on [bo]) *)
Section Ord.
Context {bo : BitOrder}.

(* ---- the parser's context for a context of the specification -------------------------------------------------------- *)

Definition ctx_of (x : sctx) : ctx :=
  mkCtx (option_map name_of (x_origin x)) (option_map name_of (x_owner x)) (x_ttl x) (x_class x) (x_default x).

Definition sctx_good (x : sctx) : Prop := origin_good (x_origin x).

(* ---- first characters ---------------------------------------------------------------------------------------------------- *)

Lemma tokch_plainb c : tokch c = true -> plainb c = true.
Proof. unfold tokch. intros H. apply andb_true_iff in H. tauto. Qed.

Lemma tok_fstart tok t : forallb tokch tok = true -> tok <> [] -> fstart (tok ++ t).
Proof.
  destruct tok as [|c tok]; [congruence|]. cbn [forallb app]. intros H _. apply andb_true_iff in H. destruct H as [H _].
  apply fstart_plain, tokch_plainb. exact H.
Qed.

Lemma uint_nonempty ic n : render_uint ic n <> [].
Proof.
  unfold render_uint. destruct (i_plus ic); [discriminate|]. cbn [app]. intros H. apply app_eq_nil in H.
  destruct H as [_ H]. exact (num_nonempty 10 n H).
Qed.

Lemma uint_head ic n : exists h tl, render_uint ic n = h :: tl /\ h <> 92 /\ plainb h = true.
Proof.
  destruct (uint_digits_val ic n) as (Hne & Hd & _). unfold render_uint. destruct (i_plus ic).
  - eexists _, _. split; [reflexivity|]. split; [discriminate|reflexivity].
  - cbn [app]. destruct (repeat 48 (i_zeros ic) ++ dec n) as [|h tl]; [congruence|].
    inversion Hd as [|? ? Hh _]; subst. exists h, tl. split; [reflexivity|]. split; [unfold digit_of in Hh; lia|].
    apply tokch_plainb. eapply digit_tokch; [|exact Hh]. lia.
Qed.

Lemma dec_head n : exists h tl, dec n = h :: tl /\ h <> 92 /\ plainb h = true.
Proof.
  pose proof (num_digits 10 n ltac:(lia)) as Hd. pose proof (num_nonempty 10 n) as Hne. fold (dec n) in *.
  destruct (dec n) as [|h tl]; [congruence|]. inversion Hd as [|? ? Hh _]; subst. exists h, tl.
  split; [reflexivity|]. split; [unfold digit_of in Hh; lia|]. apply tokch_plainb. eapply digit_tokch; [|exact Hh]. lia.
Qed.

Lemma octets_head es c s : octets_ok KUnquoted es (c :: s) = true ->
  exists h tl, render_octets es (c :: s) = h :: tl /\ plainb h = true.
Proof.
  intros H. destruct (octets_tailish es (c :: s) [] H (or_introl eq_refl)) as [E|(y & R & E & Hy)].
  - rewrite app_nil_r in E. exfalso. exact (render_octets_nonempty _ _ _ E).
  - rewrite app_nil_r in E. eauto.
Qed.

Lemma name_head first bol origin nc ls : name_ok first bol origin nc ls = true ->
  exists h tl, render_name nc ls = h :: tl /\ plainb h = true.
Proof.
  unfold name_ok. intros H. apply andb_true_iff in H. destruct H as [Hg H]. apply good_labels_b_spec in Hg. destruct Hg as [Hg _].
  destruct nc as [|ess|k ess]; cbn [render_name].
  - eexists _, _. split; reflexivity.
  - apply andb_true_iff in H. destruct H as [Hok _]. destruct ls as [|l ls].
    + eexists _, _. split; reflexivity.
    + cbn [labels_ok] in Hok. apply andb_true_iff in Hok. destruct Hok as [Hl _].
      inversion Hg as [|? ? Hgl _]; subst. unfold good_label in Hgl. destruct l as [|c l]; [simpl in Hgl; lia|].
      destruct (octets_head _ _ _ (octets_label_unq _ _ Hl)) as (h & tl & E & Hh).
      cbn [render_rel]. rewrite E. cbn [app]. eauto.
  - repeat (apply andb_true_iff in H; destruct H as [H ?]). apply Nat.leb_le in H, H5.
    destruct (firstn k ls) as [|l rel] eqn:Ef.
    { destruct ls; [simpl in H5; lia|]. destruct k; [lia|discriminate]. }
    assert (Hgr : Forall good_label (l :: rel)) by (rewrite <- Ef; apply good_firstn; exact Hg).
    inversion Hgr as [|? ? Hgl _]; subst. unfold good_label in Hgl. destruct l as [|c l]; [simpl in Hgl; lia|].
    cbn [labels_ok] in H3. apply andb_true_iff in H3. destruct H3 as [Hl _].
    destruct (octets_head _ _ _ (octets_label_unq _ _ Hl)) as (h & tl & E & Hh).
    cbn [render_rel]. rewrite E. cbn [app]. eauto.
Qed.

Lemma group_head drop upper g : group_ok drop g = true ->
  exists h tl, render_group drop upper g = h :: tl /\ h <> 92 /\ plainb h = true.
Proof.
  intros H. destruct (group_facts drop upper g H) as (Hh & _ & [L1 _] & Ht & _).
  destruct (render_group drop upper g) as [|h tl]; [simpl in L1; lia|]. exists h, tl. split; [reflexivity|].
  cbn [forallb] in Ht. apply andb_true_iff in Ht. destruct Ht as [Ht _]. split; [|apply tokch_plainb; exact Ht].
  inversion Hh as [|? ? Hx _]; subst. unfold is_hex in Hx. intros ->. apply Hx. reflexivity.
Qed.

(* every field token begins with an octet that does not end a field *)
Lemma field_head first origin fc f : field_ok first origin fc f = true ->
  exists h tl, render_field fc f = h :: tl /\ plainb h = true.
Proof.
  destruct f as [ls|n|n|n|a b c d|gs|s|pp|pp]; destruct fc as [nc|ic|c6|sc| |pc]; cbn [field_ok render_field fc_name fc_int fc_ip6 fc_str fc_proto];
    try discriminate; intros H.
  - eapply name_head. exact H.
  - destruct (uint_head ic n) as (h & tl & E & _ & Hp). eauto.
  - destruct (uint_head ic n) as (h & tl & E & _ & Hp). eauto.
  - unfold render_oct. pose proof (num_digits 8 n ltac:(lia)) as Hd. pose proof (num_nonempty 8 n) as Hne. fold (oct n) in *.
    assert (Hall : Forall (digit_of 8) (repeat 48 (i_zeros ic) ++ oct n)) by (apply Forall_app; split; [apply zeros_digits; lia|exact Hd]).
    destruct (repeat 48 (i_zeros ic) ++ oct n) as [|h tl] eqn:E.
    { apply app_eq_nil in E. destruct E as [_ E]. congruence. }
    inversion Hall as [|? ? Hh _]; subst. exists h, tl. split; [reflexivity|]. apply tokch_plainb. eapply (digit_tokch 8); [lia|exact Hh].
  - unfold render_ip4. destruct (dec_head a) as (h & tl & E & _ & Hp). rewrite E. cbn [app]. eauto.
  - destruct (ip6_head c6 gs H) as (h & tl & E & _ & Hp). eauto.
  - unfold string_ok in H. apply andb_true_iff in H. destruct H as [_ H]. destruct sc as [es|es]; cbn [render_string].
    + eexists _, _. split; reflexivity.
    + repeat (apply andb_true_iff in H; destruct H as [H ?]). destruct s as [|c s]; [discriminate|].
      destruct (octets_head _ _ _ H) as (h & tl & E & Hh). eauto.
  - destruct pc as [lows|lows|ic]; cbn [render_proto].
    + cbn [apply_case w_tcp]. destruct (hd false lows); eexists _, _; split; reflexivity.
    + cbn [apply_case w_udp]. destruct (hd false lows); eexists _, _; split; reflexivity.
    + destruct (uint_head ic pp) as (h & tl & E & _ & Hp). eauto.
  - destruct (uint_head ic pp) as (h & tl & E & _ & Hp). eauto.
Qed.

Lemma field_fstart first origin fc f t : field_ok first origin fc f = true -> fstart (render_field fc f ++ t).
Proof. intros H. destruct (field_head _ _ _ _ H) as (h & tl & -> & Hh). cbn [app]. apply fstart_plain. exact Hh. Qed.

(* ---- the first RDATA field is not the RFC 3597 marker ------------------------------------------------------------------------ *)

Lemma head_not_bh r h l : r_rest r = h :: l -> h <> 92 -> expect_field bh r = Ok (false, r).
Proof. intros E H. eapply expect_differs_head; [exact E|reflexivity|exact H]. Qed.

Lemma field_not_bh origin fc f r t : field_ok true origin fc f = true -> r_rest r = render_field fc f ++ t ->
  expect_field bh r = Ok (false, r).
Proof.
  destruct f as [ls|n|n|n|a b c d|gs|s|pp|pp]; destruct fc as [nc|ic|c6|sc| |pc]; cbn [field_ok render_field fc_name fc_int fc_ip6 fc_str fc_proto];
    try discriminate; intros H E.
  - (* name *)
    unfold name_ok in H. apply andb_true_iff in H. destruct H as [Hg H]. apply good_labels_b_spec in Hg. destruct Hg as [Hg _].
    destruct nc as [|ess|k ess]; cbn [render_name] in *.
    + eapply head_not_bh; [exact E|discriminate].
    + apply andb_true_iff in H. destruct H as [Hok _]. destruct ls as [|l ls].
      * eapply head_not_bh; [exact E|discriminate].
      * cbn [labels_ok] in Hok. apply andb_true_iff in Hok. destruct Hok as [Hl _].
        inversion Hg as [|? ? Hgl _]; subst. unfold good_label in Hgl. destruct l as [|c l]; [simpl in Hgl; lia|].
        destruct (render_rel_shape ess (c :: l) ls) as (R & ER & HR & _). rewrite ER in E. rewrite <- (app_assoc _ R [46]) in E.
        eapply (tok_expect_bh (hd [] ess) c l (R ++ [46])); [apply octets_label_unq; exact Hl| | |exact E].
        -- apply tailish_app; [exact HR|right; eexists _, _; split; reflexivity].
        -- rewrite app_assoc. intros Heq. change bh with ([92] ++ [35]) in Heq. apply app_inj_tail in Heq. destruct Heq as [_ Heq]. discriminate.
    + repeat (apply andb_true_iff in H; destruct H as [H ?]). apply Nat.leb_le in H, H5.
      cbn [andb] in H1. apply negb_true_iff, beq_false in H1. cbn [render_name] in H1.
      destruct (firstn k ls) as [|l rel] eqn:Ef.
      { destruct ls; [simpl in H5; lia|]. destruct k; [lia|discriminate]. }
      assert (Hgr : Forall good_label (l :: rel)) by (rewrite <- Ef; apply good_firstn; exact Hg).
      inversion Hgr as [|? ? Hgl _]; subst. unfold good_label in Hgl. destruct l as [|c l]; [simpl in Hgl; lia|].
      cbn [labels_ok] in H3. apply andb_true_iff in H3. destruct H3 as [Hl _].
      destruct (render_rel_shape ess (c :: l) rel) as (R & ER & HR & _). rewrite ER in E, H1.
      eapply (tok_expect_bh (hd [] ess) c l R); [apply octets_label_unq; exact Hl|exact HR|exact H1|exact E].
  - destruct (uint_head ic n) as (h & tl & Eh & Hh & _). rewrite Eh in E. eapply head_not_bh; [exact E|exact Hh].
  - destruct (uint_head ic n) as (h & tl & Eh & Hh & _). rewrite Eh in E. eapply head_not_bh; [exact E|exact Hh].
  - unfold oct_ok in H. unfold render_oct in E.
    pose proof (num_digits 8 n ltac:(lia)) as Hd. pose proof (num_nonempty 8 n) as Hne. fold (oct n) in *.
    assert (Hall : Forall (digit_of 8) (repeat 48 (i_zeros ic) ++ oct n)) by (apply Forall_app; split; [apply zeros_digits; lia|exact Hd]).
    destruct (repeat 48 (i_zeros ic) ++ oct n) as [|h tl] eqn:E2.
    { apply app_eq_nil in E2. destruct E2 as [_ E2]. congruence. }
    inversion Hall as [|? ? Hh _]; subst. eapply head_not_bh; [exact E|unfold digit_of in Hh; lia].
  - unfold render_ip4 in E. destruct (dec_head a) as (h & tl & Eh & Hh & _). rewrite Eh in E. eapply head_not_bh; [exact E|exact Hh].
  - destruct (ip6_head c6 gs H) as (h & tl & Eh & Hh & _). rewrite Eh in E. eapply head_not_bh; [exact E|exact Hh].
  - unfold string_ok in H. apply andb_true_iff in H. destruct H as [_ H]. destruct sc as [es|es]; cbn [render_string] in *.
    + eapply head_not_bh; [exact E|discriminate].
    + repeat (apply andb_true_iff in H; destruct H as [H ?]). destruct s as [|c s]; [discriminate|].
      cbn [andb] in H0. apply negb_true_iff, beq_false in H0.
      rewrite <- (app_nil_r (render_octets es (c :: s))) in E, H0.
      eapply (tok_expect_bh es c s []); [exact H|left; reflexivity|exact H0|exact E].
  - destruct pc as [lows|lows|ic]; cbn [render_proto] in E.
    + cbn [apply_case w_tcp app] in E. eapply head_not_bh; [exact E|]. destruct (hd false lows); discriminate.
    + cbn [apply_case w_udp app] in E. eapply head_not_bh; [exact E|]. destruct (hd false lows); discriminate.
    + destruct (uint_head ic pp) as (h & tl & Eh & Hh & _). rewrite Eh in E. eapply head_not_bh; [exact E|exact Hh].
  - destruct (uint_head ic pp) as (h & tl & Eh & Hh & _). rewrite Eh in E. eapply head_not_bh; [exact E|exact Hh].
Qed.

(* ---- check_backslash_hash --------------------------------------------------------------------------------------------------------- *)

(* typed syntax: the separator is skipped, the first token is not \# *)
Lemma cbh_false_runs {A} (T : bytes -> Prop) K (f : bool -> M A) s X p p1 p2 v :
  sep_paren p s = Some p1 -> (forall t, T t -> fstart (X ++ t)) ->
  (forall r t, r_rest r = X ++ t -> T t -> expect_field bh r = Ok (false, r)) ->
  runs T (f false) X p1 p2 v ->
  runs T (bindM (check_backslash_hash K) f) (render_sep s ++ X) p p2 v.
Proof.
  intros Hs Hf Hb Hr. eapply runs_eq; [intros r; apply bindM_assoc|].
  eapply runs_bind; [apply skip_to_next_field_runs; exact Hs|exact Hf|].
  cbv beta. eapply runs_peek; [exact Hb|exact Hr].
Qed.

Lemma bh_no_nl : Forall (fun c => c <> 10) bh. Proof. repeat constructor; discriminate. Qed.

(* RFC 3597 syntax: the marker is read *)
Lemma cbh_true_runsQ {A} (T : bytes -> Prop) K (f : bool -> M A) s X p p1 p2 Q :
  sep_paren p s = Some p1 -> (forall t, T t -> fend (X ++ t)) ->
  runsQ T (f true) X p1 p2 Q ->
  runsQ T (bindM (check_backslash_hash K) f) (render_sep s ++ bh ++ X) p p2 Q.
Proof.
  intros Hs Hf Hr. eapply runsQ_eq; [intros r; apply bindM_assoc|].
  eapply runs_bind_Q; [apply skip_to_next_field_runs; exact Hs| |].
  - intros t Ht. reflexivity.
  - cbv beta. eapply runs_bind_Q; [apply (expect_field_yes bh bytes_eqb); [reflexivity|exact bh_no_nl]|exact Hf|exact Hr].
Qed.

(* ---- single fields ---------------------------------------------------------------------------------------------------------------------- *)

Lemma mk_rdata_runs (T : bytes -> Prop) l p : N.of_nat (length l) <= 65535 -> runs T (mk_rdata l) [] p p l.
Proof.
  intros H r t E P W _. unfold mk_rdata. destruct (65535 <? N.of_nat (length l)) eqn:E1; [apply N.ltb_lt in E1; lia|].
  exists r. split; [reflexivity|]. simpl in E. subst t p. apply post_refl.
Qed.

Lemma u16_runs k ic n p : uint_ok 65535 ic n = true -> runs fend (parse_u16 k) (render_uint ic n) p p n.
Proof. intros H. apply (uint_field_runs U16_MAX); [unfold U16_MAX; lia|exact H]. Qed.

Lemma u32_runs k ic n p : uint_ok 4294967295 ic n = true -> runs fend (parse_u32 k) (render_uint ic n) p p n.
Proof. intros H. apply (uint_field_runs U32_MAX); [unfold U32_MAX; lia|exact H]. Qed.

Lemma ctx_origin x : c_origin (ctx_of x) = option_map name_of (x_origin x). Proof. reflexivity. Qed.

(* field_ok, by kind *)
Lemma fok_name first o fc ls : field_ok first o fc (VName ls) = true -> name_ok first false o (fc_name fc) ls = true.
Proof. destruct fc; cbn [field_ok fc_name]; try discriminate; auto. Qed.
Lemma fok_u16 first o fc n : field_ok first o fc (VU16 n) = true -> uint_ok 65535 (fc_int fc) n = true.
Proof. destruct fc; cbn [field_ok fc_int]; try discriminate; auto. Qed.
Lemma fok_u32 first o fc n : field_ok first o fc (VU32 n) = true -> uint_ok 4294967295 (fc_int fc) n = true.
Proof. destruct fc; cbn [field_ok fc_int]; try discriminate; auto. Qed.
Lemma fok_oct first o fc n : field_ok first o fc (VOct n) = true -> oct_ok (fc_int fc) n = true.
Proof. destruct fc; cbn [field_ok fc_int]; try discriminate; auto. Qed.
Lemma fok_ip4 first o fc a b c d : field_ok first o fc (VIp4 a b c d) = true -> ip4_ok a b c d = true.
Proof. destruct fc; cbn [field_ok]; try discriminate; auto. Qed.
Lemma fok_ip6 first o fc gs : field_ok first o fc (VIp6 gs) = true -> ip6_ok (fc_ip6 fc) gs = true.
Proof. destruct fc; cbn [field_ok fc_ip6]; try discriminate; auto. Qed.
Lemma fok_str first o fc s : field_ok first o fc (VStr s) = true -> string_ok first (fc_str fc) s = true.
Proof. destruct fc; cbn [field_ok fc_str]; try discriminate; auto. Qed.

Lemma fok_str_inv first o fc s : field_ok first o fc (VStr s) = true -> exists sc, fc = CStr sc /\ string_ok first sc s = true.
Proof. destruct fc; cbn [field_ok]; try discriminate; eauto. Qed.
Lemma fclosed_str sc s : field_closed (CStr sc) (VStr s) = string_closed sc.
Proof. destruct sc; reflexivity. Qed.
Lemma fclosed_other fc f : (forall s, f <> VStr s) -> field_closed fc f = false.
Proof. destruct f; try reflexivity. intros H. exfalso. eapply H. reflexivity. Qed.

Lemma name_ok_good first bol o nc ls : name_ok first bol o nc ls = true -> good_labels ls.
Proof. unfold name_ok. intros H. apply andb_true_iff in H. destruct H as [H _]. apply good_labels_b_spec. exact H. Qed.

Lemma fields_ok_cons o first closed p cs f fs p' : fields_ok o first closed p cs (f :: fs) = Some p' ->
  exists p1, sep_ok p closed (fst (hd (sep_none, CPlain) cs)) = Some p1 /\
             field_ok first o (snd (hd (sep_none, CPlain) cs)) f = true /\
             fields_ok o false (field_closed (snd (hd (sep_none, CPlain) cs)) f) p1 (tl cs) fs = Some p'.
Proof.
  cbn [fields_ok]. destruct (sep_ok p closed _) as [p1|]; [|discriminate].
  destruct (field_ok first o _ f); [|discriminate]. eauto.
Qed.

Lemma fields_ok_nil o first closed p cs p' : fields_ok o first closed p cs [] = Some p' -> p' = p.
Proof. cbn [fields_ok]. congruence. Qed.

(* a separator that is legal after a token ends the token's field *)
Lemma sep_ok_tail p closed s p1 X : sep_ok p closed s = Some p1 -> (X = [] -> False) -> fstart X -> ftail closed (render_sep s ++ X).
Proof.
  intros H _ HX. apply sep_ok_inv in H. destruct H as [Hs He]. destruct closed; [exact I|].
  cbn [ftail]. eapply fend_sep; [exact Hs|apply He; reflexivity].
Qed.

(* ---- RDATA in the type's own syntax ------------------------------------------------------------------------------------------------------ *)

Section Typed.
Variable x : sctx.
Hypothesis Hx : sctx_good x.
Variables (e : eolc).
Let T := eoft (e_term e).
Let o := x_origin x.
Notation dflt := (sep_none, CPlain).

(* after the last field: the line end *)
Lemma last_tail closed p3 : eol_ok p3 e = true -> forall t, T t -> ftail closed (render_eol e ++ t).
Proof. intros He t Ht. destruct closed; [exact I|]. eapply fend_eol; eassumption. Qed.

Lemma fend_ftail t : fend t -> ftail false t. Proof. auto. Qed.

(* between two fields *)
Lemma mid_tail p closed s p1 rest t : sep_ok p closed s = Some p1 -> ftail closed ((render_sep s ++ rest) ++ t).
Proof.
  intros Hs. apply sep_ok_inv in Hs. destruct Hs as [Hs He]. destruct closed; [exact I|].
  cbn [ftail]. rewrite <- app_assoc. eapply fend_sep; [exact Hs|apply He; reflexivity].
Qed.

Lemma name_field_runs first fc ls p : field_ok first o fc (VName ls) = true ->
  runs fend (parse_name (c_origin (ctx_of x))) (render_field fc (VName ls)) p p (name_of ls).
Proof. intros H. apply fok_name in H. rewrite ctx_origin. eapply name_runs; [exact H|exact Hx]. Qed.

Lemma field_fstart2 first fc f rest t : field_ok first o fc f = true -> fstart ((render_field fc f ++ rest) ++ t).
Proof. intros H. rewrite <- app_assoc. eapply field_fstart. exact H. Qed.

Lemma field_not_bh2 fc f rest r t : field_ok true o fc f = true -> r_rest r = (render_field fc f ++ rest) ++ t ->
  expect_field bh r = Ok (false, r).
Proof. intros H E. rewrite <- app_assoc in E. eapply field_not_bh; eassumption. Qed.

Ltac inv_fields H :=
  repeat match type of H with
  | fields_ok _ _ _ _ _ (_ :: _) = Some _ =>
    let p1 := fresh "q" in let Hs := fresh "Hs" in let Hf := fresh "Hf" in let HP := fresh "HP" in
    apply fields_ok_cons in H; destruct H as (p1 & Hs & Hf & H);
    pose proof (proj1 (sep_ok_inv _ _ _ _ Hs)) as HP
  | fields_ok _ _ _ _ _ [] = Some _ => apply fields_ok_nil in H
  end.

(* the first field, after check_backslash_hash *)
Ltac first_field HP Hf :=
  eapply cbh_false_runs; [exact HP|intros; eapply field_fstart2; exact Hf|intros; eapply field_not_bh2; eassumption|];
  cbv beta iota.
(* a token followed by another field / by the line end *)
Ltac tok lem Hsnext := eapply runs_bind; [lem|intros; eapply (mid_tail _ false); exact Hsnext|]; cbv beta.
Ltac tok_last lem He := eapply runs_bind; [lem|intros t Ht; eapply (last_tail false); eassumption|]; cbv beta.
Ltac skip HP Hf := eapply runs_bind; [apply skip_to_next_field_runs; exact HP|intros; eapply field_fstart2; exact Hf|]; cbv beta.
Ltac finish He :=
  apply runs_app_nil; eapply runs_bind; [apply expect_eol_runs; exact He|intros t Ht; exact Ht|]; cbv beta.
Ltac prep H := inv_fields H; subst; cbn [render_fields]; rewrite <- ?app_assoc; cbn [app].

Lemma wire_le ls first bol nc : name_ok first bol o nc ls = true -> (length (wire_of ls) <= 255)%nat.
Proof. intros H. apply name_ok_good in H. destruct H as [_ H]. exact H. Qed.

(* NS, MD, MF, CNAME, MB, MG, MR, PTR: one name *)
Lemma name_rdata_runs cs ls p p3 : fields_ok o true false p cs [VName ls] = Some p3 -> eol_ok p3 e = true ->
  runs T (parse_name_rdata (ctx_of x)) (render_fields cs [VName ls] ++ render_eol e) p false (flat_map field_wire [VName ls]).
Proof.
  intros H He. prep H. unfold parse_name_rdata. first_field HP Hf.
  tok_last ltac:(eapply name_field_runs; exact Hf) He. finish He.
  cbn [flat_map field_wire n_wire name_of]. rewrite app_nil_r. apply mk_rdata_runs.
  pose proof (wire_le _ _ _ _ (fok_name _ _ _ _ Hf)). lia.
Qed.

(* A in class IN *)
Lemma in_a_runs cs a b c d p p3 : fields_ok o true false p cs [VIp4 a b c d] = Some p3 -> eol_ok p3 e = true ->
  runs T parse_in_a_rdata (render_fields cs [VIp4 a b c d] ++ render_eol e) p false (flat_map field_wire [VIp4 a b c d]).
Proof.
  intros H He. prep H. unfold parse_in_a_rdata. first_field HP Hf.
  tok_last ltac:(apply ip4_field_runs; eapply fok_ip4; exact Hf) He. finish He.
  cbn [flat_map field_wire app]. apply mk_rdata_runs. simpl. lia.
Qed.

(* AAAA in class IN *)
Lemma in_aaaa_runs cs gs p p3 : fields_ok o true false p cs [VIp6 gs] = Some p3 -> eol_ok p3 e = true ->
  runs T parse_in_aaaa_rdata (render_fields cs [VIp6 gs] ++ render_eol e) p false (flat_map field_wire [VIp6 gs]).
Proof.
  intros H He. prep H. unfold parse_in_aaaa_rdata. first_field HP Hf.
  tok_last ltac:(apply ip6_field_runs; eapply fok_ip6; exact Hf) He. finish He.
  cbn [flat_map field_wire]. rewrite app_nil_r. apply mk_rdata_runs.
  pose proof (ip6_ok_len _ _ (fok_ip6 _ _ _ _ Hf)) as H6.
  assert (L : forall l : list N, length (flat_map sbe16 l) = (2 * length l)%nat).
  { induction l as [|g l IH]; [reflexivity|]. cbn [flat_map]. rewrite app_length, IH. change (length (sbe16 g)) with 2%nat. cbn [length]. lia. }
  rewrite L, H6. simpl. lia.
Qed.

(* A in class CH: LAN name, octal address *)
Lemma ch_a_runs cs ls n p p3 : fields_ok o true false p cs [VName ls; VOct n] = Some p3 -> eol_ok p3 e = true ->
  runs T (parse_ch_a_rdata (ctx_of x)) (render_fields cs [VName ls; VOct n] ++ render_eol e) p false
       (flat_map field_wire [VName ls; VOct n]).
Proof.
  intros H He. prep H. unfold parse_ch_a_rdata. first_field HP Hf.
  tok ltac:(eapply name_field_runs; exact Hf) Hs0. skip HP0 Hf0.
  tok_last ltac:(apply oct_field_runs; eapply fok_oct; exact Hf0) He. finish He.
  cbn [flat_map field_wire n_wire name_of]. rewrite app_nil_r. apply mk_rdata_runs.
  pose proof (wire_le _ _ _ _ (fok_name _ _ _ _ Hf)). rewrite app_length. change (length (sbe16 n)) with 2%nat. lia.
Qed.

(* MX: preference, exchange *)
Lemma mx_runs cs n ls p p3 : fields_ok o true false p cs [VU16 n; VName ls] = Some p3 -> eol_ok p3 e = true ->
  runs T (parse_mx_rdata (ctx_of x)) (render_fields cs [VU16 n; VName ls] ++ render_eol e) p false
       (flat_map field_wire [VU16 n; VName ls]).
Proof.
  intros H He. prep H. unfold parse_mx_rdata. first_field HP Hf.
  tok ltac:(apply u16_runs; eapply fok_u16; exact Hf) Hs0. skip HP0 Hf0.
  tok_last ltac:(eapply name_field_runs; exact Hf0) He. finish He.
  cbn [flat_map field_wire n_wire name_of]. rewrite app_nil_r. apply mk_rdata_runs.
  pose proof (wire_le _ _ _ _ (fok_name _ _ _ _ Hf0)). rewrite app_length. change (length (sbe16 n)) with 2%nat. lia.
Qed.

(* MINFO: two mailbox names *)
Lemma minfo_runs cs l1 l2 p p3 : fields_ok o true false p cs [VName l1; VName l2] = Some p3 -> eol_ok p3 e = true ->
  runs T (parse_minfo_rdata (ctx_of x)) (render_fields cs [VName l1; VName l2] ++ render_eol e) p false
       (flat_map field_wire [VName l1; VName l2]).
Proof.
  intros H He. prep H. unfold parse_minfo_rdata. first_field HP Hf.
  tok ltac:(eapply name_field_runs; exact Hf) Hs0. skip HP0 Hf0.
  tok_last ltac:(eapply name_field_runs; exact Hf0) He. finish He.
  cbn [flat_map field_wire n_wire name_of]. rewrite app_nil_r. apply mk_rdata_runs.
  pose proof (wire_le _ _ _ _ (fok_name _ _ _ _ Hf)). pose proof (wire_le _ _ _ _ (fok_name _ _ _ _ Hf0)). rewrite app_length. lia.
Qed.

(* SRV: priority, weight, port, target *)
Lemma srv_runs cs a b c ls p p3 : fields_ok o true false p cs [VU16 a; VU16 b; VU16 c; VName ls] = Some p3 -> eol_ok p3 e = true ->
  runs T (parse_in_srv_rdata (ctx_of x)) (render_fields cs [VU16 a; VU16 b; VU16 c; VName ls] ++ render_eol e) p false
       (flat_map field_wire [VU16 a; VU16 b; VU16 c; VName ls]).
Proof.
  intros H He. prep H. unfold parse_in_srv_rdata. first_field HP Hf.
  tok ltac:(apply u16_runs; eapply fok_u16; exact Hf) Hs0. skip HP0 Hf0.
  tok ltac:(apply u16_runs; eapply fok_u16; exact Hf0) Hs1. skip HP1 Hf1.
  tok ltac:(apply u16_runs; eapply fok_u16; exact Hf1) Hs2. skip HP2 Hf2.
  tok_last ltac:(eapply name_field_runs; exact Hf2) He. finish He.
  cbn [flat_map field_wire n_wire name_of]. rewrite app_nil_r. apply mk_rdata_runs.
  pose proof (wire_le _ _ _ _ (fok_name _ _ _ _ Hf2)). rewrite !app_length.
  change (length (sbe16 a)) with 2%nat. change (length (sbe16 b)) with 2%nat. change (length (sbe16 c)) with 2%nat. lia.
Qed.

(* SOA: MNAME RNAME SERIAL REFRESH RETRY EXPIRE MINIMUM *)
Lemma soa_runs cs l1 l2 n1 n2 n3 n4 n5 p p3 :
  fields_ok o true false p cs [VName l1; VName l2; VU32 n1; VU32 n2; VU32 n3; VU32 n4; VU32 n5] = Some p3 -> eol_ok p3 e = true ->
  runs T (parse_soa_rdata (ctx_of x))
       (render_fields cs [VName l1; VName l2; VU32 n1; VU32 n2; VU32 n3; VU32 n4; VU32 n5] ++ render_eol e) p false
       (flat_map field_wire [VName l1; VName l2; VU32 n1; VU32 n2; VU32 n3; VU32 n4; VU32 n5]).
Proof.
  intros H He. prep H. unfold parse_soa_rdata. first_field HP Hf.
  tok ltac:(eapply name_field_runs; exact Hf) Hs0. skip HP0 Hf0.
  tok ltac:(eapply name_field_runs; exact Hf0) Hs1. skip HP1 Hf1.
  tok ltac:(apply u32_runs; eapply fok_u32; exact Hf1) Hs2. skip HP2 Hf2.
  tok ltac:(apply u32_runs; eapply fok_u32; exact Hf2) Hs3. skip HP3 Hf3.
  tok ltac:(apply u32_runs; eapply fok_u32; exact Hf3) Hs4. skip HP4 Hf4.
  tok ltac:(apply u32_runs; eapply fok_u32; exact Hf4) Hs5. skip HP5 Hf5.
  tok_last ltac:(apply u32_runs; eapply fok_u32; exact Hf5) He. finish He.
  cbn [flat_map field_wire n_wire name_of]. rewrite app_nil_r. apply mk_rdata_runs.
  pose proof (wire_le _ _ _ _ (fok_name _ _ _ _ Hf)). pose proof (wire_le _ _ _ _ (fok_name _ _ _ _ Hf0)). rewrite !app_length.
  change (length (sbe32 n1)) with 4%nat. change (length (sbe32 n2)) with 4%nat. change (length (sbe32 n3)) with 4%nat.
  change (length (sbe32 n4)) with 4%nat. change (length (sbe32 n5)) with 4%nat. lia.
Qed.

(* ---- character strings: HINFO and TXT --------------------------------------------------------------------------------- *)

Lemma str_field_runs first sc s p : string_ok first sc s = true ->
  runs (ftail (string_closed sc)) parse_character_string (render_string sc s) p p s.
Proof. apply string_runs. Qed.

Lemma string_ok_len first sc s : string_ok first sc s = true -> (length s <= 255)%nat.
Proof. unfold string_ok. intros H. apply andb_true_iff in H. destruct H as [H _]. apply Nat.leb_le. exact H. Qed.

Lemma chunk_wire s : (length s <= 255)%nat -> (N.of_nat (length s) mod 256) :: s = string_wire s.
Proof. intros H. unfold string_wire. rewrite N.mod_small by lia. reflexivity. Qed.

Lemma hinfo_runs cs s1 s2 p p3 : fields_ok o true false p cs [VStr s1; VStr s2] = Some p3 -> eol_ok p3 e = true ->
  runs T parse_hinfo_rdata (render_fields cs [VStr s1; VStr s2] ++ render_eol e) p false
       (flat_map field_wire [VStr s1; VStr s2]).
Proof.
  intros H He. prep H. unfold parse_hinfo_rdata. first_field HP Hf.
  destruct (fok_str_inv _ _ _ _ Hf) as (sc1 & E1 & Hk1). destruct (fok_str_inv _ _ _ _ Hf0) as (sc2 & E2 & Hk2).
  rewrite E1 in *. rewrite E2 in *. cbn [render_field fc_str]. rewrite fclosed_str in *.
  eapply runs_bind; [eapply str_field_runs; exact Hk1|intros; eapply mid_tail; exact Hs0|]. cbv beta.
  eapply runs_bind; [apply skip_to_next_field_runs; exact HP0|intros; eapply (field_fstart2 false (CStr sc2) (VStr s2)); exact Hf0|]. cbv beta.
  eapply runs_bind; [eapply str_field_runs; exact Hk2|intros t Ht; eapply last_tail; eassumption|]. cbv beta.
  finish He.
  pose proof (string_ok_len _ _ _ Hk1) as L1. pose proof (string_ok_len _ _ _ Hk2) as L2.
  assert (Eq : [N.of_nat (length s1) mod 256] ++ s1 ++ [N.of_nat (length s2) mod 256] ++ s2 = flat_map field_wire [VStr s1; VStr s2]).
  { cbn [flat_map field_wire app]. unfold string_wire. rewrite !N.mod_small by lia. rewrite app_nil_r. reflexivity. }
  rewrite Eq. apply mk_rdata_runs. cbn [flat_map field_wire]. unfold string_wire. rewrite app_nil_r, app_length. cbn [length]. lia.
Qed.

Definition chunk_of (f : fval) : bytes := match f with VStr s => (N.of_nat (length s) mod 256) :: s | _ => [] end.
Definition is_str (f : fval) : Prop := exists s, f = VStr s.

Lemma txt_loop_runs start : forall fs cs sc s first p1 p3 written chunks_rev fuel,
  string_ok first sc s = true -> fields_ok o false (string_closed sc) p1 cs fs = Some p3 -> Forall is_str fs ->
  eol_ok p3 e = true -> written + N.of_nat (length (flat_map field_wire (VStr s :: fs))) <= 65535 ->
  runsN fuel T (txt_loop fuel start written chunks_rev)
        (render_string sc s ++ render_fields cs fs ++ render_eol e) p1 false
        (rev (map chunk_of (VStr s :: fs)) ++ chunks_rev).
Proof.
  induction fs as [|f fs IH]; intros cs sc s first p1 p3 written chunks_rev fuel Hk H Hall He Hlen;
    (destruct fuel as [|fuel]; [apply runsN_0|]); cbn [txt_loop].
  - apply fields_ok_nil in H. subst p3. cbn [render_fields app].
    eapply runsN_bind_dec; [eapply str_field_runs; exact Hk| |intros t Ht; eapply last_tail; eassumption|].
    { destruct sc; cbn [render_string]; [discriminate|]. unfold string_ok in Hk. apply andb_true_iff in Hk. destruct Hk as [_ Hk].
      repeat (apply andb_true_iff in Hk; destruct Hk as [Hk ?]). destruct s as [|c s]; [discriminate|]. apply render_octets_nonempty. }
    cbv beta zeta. cbn [flat_map field_wire string_wire length app] in Hlen. rewrite app_nil_r in Hlen.
    destruct (65535 <? written + N.of_nat (length s) + 1) eqn:E; [apply N.ltb_lt in E; lia|].
    apply runs_N. apply runs_app_nil. eapply runs_bind; [apply through_eol_runs; exact He|intros t Ht; exact Ht|].
    cbv beta iota. cbn [map rev chunk_of app]. apply runs_ret.
  - apply fields_ok_cons in H. destruct H as (q & Hs & Hf & H). pose proof (proj1 (sep_ok_inv _ _ _ _ Hs)) as HP.
    inversion Hall as [|? ? [s2 ->] Hall']; subst. destruct (fok_str_inv _ _ _ _ Hf) as (sc2 & E2 & Hk2).
    cbn [render_fields]. rewrite E2 in *. cbn [render_field fc_str]. rewrite fclosed_str in H.
    rewrite <- !app_assoc.
    eapply runsN_bind_dec; [eapply str_field_runs; exact Hk| |intros; eapply mid_tail; exact Hs|].
    { destruct sc; cbn [render_string]; [discriminate|]. unfold string_ok in Hk. apply andb_true_iff in Hk. destruct Hk as [_ Hk].
      repeat (apply andb_true_iff in Hk; destruct Hk as [Hk ?]). destruct s as [|c s]; [discriminate|]. apply render_octets_nonempty. }
    cbv beta zeta.
    assert (Hl2 : written + N.of_nat (length s) + 1 + N.of_nat (length (flat_map field_wire (VStr s2 :: fs))) <= 65535).
    { change (flat_map field_wire (VStr s :: VStr s2 :: fs)) with (string_wire s ++ flat_map field_wire (VStr s2 :: fs)) in Hlen.
      rewrite app_length in Hlen. unfold string_wire in Hlen at 1. cbn [length] in Hlen. lia. }
    destruct (65535 <? written + N.of_nat (length s) + 1) eqn:E; [apply N.ltb_lt in E; lia|].
    eapply runsN_bind; [apply through_field_runs; exact HP|intros; eapply (field_fstart2 false (CStr sc2) (VStr s2)); exact Hf|].
    cbv beta iota.
    specialize (IH (tl cs) sc2 s2 false q p3 (written + N.of_nat (length s) + 1)
                   (((N.of_nat (length s) mod 256) :: s) :: chunks_rev) fuel Hk2 H Hall' He Hl2).
    replace (rev (map chunk_of (VStr s :: VStr s2 :: fs)) ++ chunks_rev)
      with (rev (map chunk_of (VStr s2 :: fs)) ++ ((N.of_nat (length s) mod 256) :: s) :: chunks_rev).
    + exact IH.
    + change (map chunk_of (VStr s :: VStr s2 :: fs)) with (chunk_of (VStr s) :: map chunk_of (VStr s2 :: fs)).
      cbn [rev]. rewrite <- app_assoc. reflexivity.
Qed.

Lemma concat_chunks fs : Forall is_str fs -> Forall (fun f => forall s, f = VStr s -> (length s <= 255)%nat) fs ->
  concat (map chunk_of fs) = flat_map field_wire fs.
Proof.
  induction fs as [|f fs IH]; intros H1 H2; [reflexivity|]. inversion H1 as [|? ? [s ->] H1']; subst. inversion H2 as [|? ? Hs H2']; subst.
  cbn [map concat flat_map chunk_of field_wire]. rewrite (IH H1' H2'), (chunk_wire s (Hs s eq_refl)). reflexivity.
Qed.

Lemma fields_ok_str_len : forall fs cs first closed p p3, fields_ok o first closed p cs fs = Some p3 -> Forall is_str fs ->
  Forall (fun f => forall s, f = VStr s -> (length s <= 255)%nat) fs.
Proof.
  induction fs as [|f fs IH]; intros cs first closed p p3 H Hall; [constructor|].
  apply fields_ok_cons in H. destruct H as (q & Hs & Hf & H). inversion Hall as [|? ? [s ->] Hall']; subst.
  constructor; [|eapply IH; eassumption]. intros s' [= <-]. destruct (fok_str_inv _ _ _ _ Hf) as (sc & _ & Hk).
  eapply string_ok_len. exact Hk.
Qed.

(* TXT: one or more strings *)
Lemma txt_runs cs f fs p p3 : fields_ok o true false p cs (f :: fs) = Some p3 -> Forall is_str (f :: fs) -> eol_ok p3 e = true ->
  N.of_nat (length (flat_map field_wire (f :: fs))) <= 65535 ->
  runs T parse_txt_rdata (render_fields cs (f :: fs) ++ render_eol e) p false (flat_map field_wire (f :: fs)).
Proof.
  intros H Hall He Hlen. pose proof (fields_ok_str_len _ _ _ _ _ _ H Hall) as Hlens.
  apply fields_ok_cons in H. destruct H as (q & Hs & Hf & H). pose proof (proj1 (sep_ok_inv _ _ _ _ Hs)) as HP.
  inversion Hall as [|? ? [s ->] Hall']; subst. destruct (fok_str_inv _ _ _ _ Hf) as (sc & E1 & Hk).
  cbn [render_fields]. rewrite <- !app_assoc. unfold parse_txt_rdata. first_field HP Hf.
  rewrite E1 in *. cbn [render_field fc_str]. rewrite fclosed_str in H.
  apply runs_getpos. intros start. apply runs_get_fuel. intros fuel. apply runsN_app_nil.
  eapply runsN_bind_l; [eapply (txt_loop_runs start fs (tl cs) sc s true q p3 0 [] fuel); eassumption|intros t Ht; exact Ht|].
  cbv beta. rewrite app_nil_r, rev_fast_rev, rev_involutive, (concat_chunks _ Hall Hlens).
  apply mk_rdata_runs. exact Hlen.
Qed.
End Typed.

(* ---- RFC 3597 generic RDATA: \# length hex... ------------------------------------------------------------------------------- *)

Definition hexdig_good (n : N) : bool :=
  forallb (fun u => tokch (hexdig u n) && match hex_nibble (hexdig u n) with Some v => v =? n | None => false end) [true; false].
Lemma hexdig_sweep : forallb hexdig_good [0;1;2;3;4;5;6;7;8;9;10;11;12;13;14;15] = true.
Proof. vm_compute. reflexivity. Qed.

Lemma hexdig_facts u n : n < 16 -> plainb (hexdig u n) = true /\ hex_nibble (hexdig u n) = Some n.
Proof.
  intros Hn. pose proof hexdig_sweep as S. rewrite forallb_forall in S.
  assert (Hin : In n [0;1;2;3;4;5;6;7;8;9;10;11;12;13;14;15]).
  { assert (n = 0 \/ n = 1 \/ n = 2 \/ n = 3 \/ n = 4 \/ n = 5 \/ n = 6 \/ n = 7 \/ n = 8 \/ n = 9 \/ n = 10 \/ n = 11 \/
            n = 12 \/ n = 13 \/ n = 14 \/ n = 15) by lia. simpl. intuition. }
  specialize (S _ Hin). unfold hexdig_good in S. rewrite forallb_forall in S.
  assert (Hu : In u [true; false]) by (destruct u; simpl; auto). specialize (S _ Hu).
  apply andb_true_iff in S. destruct S as [S1 S2]. split; [apply tokch_plainb; exact S1|].
  destruct (hex_nibble (hexdig u n)) as [v|]; [|discriminate]. apply N.eqb_eq in S2. congruence.
Qed.

Lemma hex_digit_runs u n p : n < 16 -> runs anyt parse_ascii_hex_digit [hexdig u n] p p n.
Proof.
  intros Hn. destruct (hexdig_facts u n Hn) as [Hp Hv]. unfold parse_ascii_hex_digit.
  apply runs_app_nil. eapply runs_bind; [apply rfo_plain; exact Hp|intros; exact I|].
  cbv beta iota. unfold hex_digit_of. rewrite Hv. apply runs_ret.
Qed.

(* the first digit of an octet, written directly after the previous one ... *)
Lemma leading_direct_runs u n p : n < 16 -> runs anyt parse_leading_ascii_hex_digit [hexdig u n] p p n.
Proof.
  intros Hn. destruct (hexdig_facts u n Hn) as [Hp Hv]. unfold parse_leading_ascii_hex_digit.
  apply runs_getpos. intros q. apply runs_app_nil. eapply runs_bind; [apply rfo_plain; exact Hp|intros; exact I|].
  cbv beta iota. unfold hex_digit_of. rewrite Hv. apply runs_ret.
Qed.

(* ... or after a word break *)
Lemma leading_break_runs s u n p p' : sep_ok p false s = Some p' -> n < 16 ->
  runs anyt parse_leading_ascii_hex_digit (render_sep s ++ [hexdig u n]) p p' n.
Proof.
  intros Hs Hn. apply sep_ok_inv in Hs. destruct Hs as [Hs He]. destruct (hexdig_facts u n Hn) as [Hp Hv].
  unfold parse_leading_ascii_hex_digit. apply runs_getpos. intros q.
  change (render_sep s ++ [hexdig u n]) with ([] ++ render_sep s ++ [hexdig u n]).
  eapply runs_bind; [apply rfo_end| |].
  - intros t _. rewrite <- app_assoc. eapply fend_sep; [exact Hs|apply He; reflexivity].
  - cbv beta iota. eapply runs_bind; [apply to_field_runs; exact Hs| |].
    + intros t _. cbn [app]. apply fstart_plain. exact Hp.
    + cbv beta iota. apply hex_digit_runs. exact Hn.
Qed.

Lemma octet_nibbles o : o < 256 -> o / 16 < 16 /\ o mod 16 < 16 /\ o / 16 * 16 + o mod 16 = o.
Proof.
  intros H. split; [apply N.div_lt_upper_bound; lia|]. split; [apply N.mod_lt; lia|].
  rewrite N.mul_comm. symmetry. apply N.div_mod. lia.
Qed.

Lemma hex_loop_runs : forall data ws acc p p', hex_ok false p ws data = Some p' ->
  runs anyt (hex_loop (length data) acc) (render_hex ws data) p p' (rev acc ++ data).
Proof.
  induction data as [|o data IH]; intros ws acc p p' H.
  - cbn [hex_ok] in H. inversion H; subst. cbn [length hex_loop render_hex]. rewrite app_nil_r, rev_fast_rev. apply runs_ret.
  - cbn [hex_ok] in H. destruct (o <? 256) eqn:Eo; [|discriminate]. apply N.ltb_lt in Eo.
    destruct (octet_nibbles o Eo) as (Hh & Hl & Hv).
    cbn [length hex_loop render_hex]. destruct (hd (None, false, false) ws) as [[so u1] u2] eqn:Ew. cbn [fst] in H.
    assert (IH' : forall p1, hex_ok false p1 (tl ws) data = Some p' ->
                  runs anyt (hex_loop (length data) ((o / 16 * 16 + o mod 16) :: acc)) (render_hex (tl ws) data) p1 p' (rev acc ++ o :: data)).
    { intros p1 H1. rewrite Hv. replace (rev acc ++ o :: data) with (rev (o :: acc) ++ data) by (cbn [rev]; rewrite <- app_assoc; reflexivity).
      apply IH. exact H1. }
    unfold render_hex_octet. destruct so as [s|].
    + destruct (sep_ok p false s) as [p1|] eqn:Es; [|discriminate].
      replace ((render_sep s ++ [hexdig u1 (o / 16); hexdig u2 (o mod 16)]) ++ render_hex (tl ws) data)
        with ((render_sep s ++ [hexdig u1 (o / 16)]) ++ [hexdig u2 (o mod 16)] ++ render_hex (tl ws) data)
        by (rewrite <- !app_assoc; reflexivity).
      eapply runs_bind; [apply leading_break_runs; [exact Es|exact Hh]|intros; exact I|]. cbv beta.
      eapply runs_bind; [apply hex_digit_runs; exact Hl|intros; exact I|]. cbv beta. apply IH'. exact H.
    + cbn [app]. change (hexdig u1 (o / 16) :: hexdig u2 (o mod 16) :: render_hex (tl ws) data)
        with ([hexdig u1 (o / 16)] ++ [hexdig u2 (o mod 16)] ++ render_hex (tl ws) data).
      eapply runs_bind; [apply leading_direct_runs; exact Hh|intros; exact I|]. cbv beta.
      eapply runs_bind; [apply hex_digit_runs; exact Hl|intros; exact I|]. cbv beta. apply IH'. exact H.
Qed.

Lemma bind_ret_l {A B} (a : A) (f : A -> M B) r : bindM (ret a) f r = f a r.
Proof. reflexivity. Qed.

Section Generic.
Variable e : eolc.
Let T := eoft (e_term e).

Lemma unknown_impl_runsQ s1 ic ws data p p1 p3 :
  sep_ok p false s1 = Some p1 -> uint_ok 65535 ic (N.of_nat (length data)) = true ->
  hex_ok true p1 ws data = Some p3 -> eol_ok p3 e = true ->
  runsQ T parse_unknown_rdata_impl
        (render_sep s1 ++ render_uint ic (N.of_nat (length data)) ++ render_hex ws data ++ render_eol e) p false
        (fun v => snd v = data).
Proof.
  intros Hs1 Hu Hh He. pose proof (proj1 (sep_ok_inv _ _ _ _ Hs1)) as HP1.
  destruct (uint_tok 65535 ic _ ltac:(lia) Hu) as [Ht1 _].
  unfold parse_unknown_rdata_impl.
  eapply runs_bind_Q; [apply skip_to_next_field_runs; exact HP1| |].
  { intros t Ht. rewrite <- app_assoc. apply tok_fstart; [exact Ht1|apply uint_nonempty]. }
  cbv beta.
  destruct data as [|o data].
  - (* no data *)
    cbn [hex_ok] in Hh. inversion Hh; subst p3. cbn [render_hex app length].
    eapply runs_bind_Q; [apply u16_runs; exact Hu|intros t Ht; eapply fend_eol; eassumption|].
    cbv beta. change (N.of_nat 0 =? 0) with true. cbv iota.
    eapply runsQ_eq; [intros r; apply bindM_assoc|]. apply runsQ_getpos. intros q.
    eapply runsQ_eq; [intros r; apply bind_ret_l|].
    eapply (runsQ_of_runs _ _ _ _ _ (q, @nil N)); [|reflexivity].
    apply runs_app_nil. eapply runs_bind; [apply expect_eol_runs; exact He|intros t Ht; exact Ht|]. cbv beta. apply runs_ret.
  - (* data: the first word break is mandatory *)
    cbn [hex_ok] in Hh. destruct (o <? 256) eqn:Eo; [|discriminate].
    destruct (hd (None, false, false) ws) as [[so u1] u2] eqn:Ew. cbn [fst] in Hh.
    destruct so as [s0|]; [|discriminate]. destruct (sep_ok p1 false s0) as [p2|] eqn:Es0; [|discriminate].
    pose proof (sep_ok_inv _ _ _ _ Es0) as [HP0 HE0].
    assert (Hh' : hex_ok false p2 ((None, u1, u2) :: tl ws) (o :: data) = Some p3).
    { cbn [hex_ok hd fst tl]. rewrite Eo. exact Hh. }
    assert (Etext : render_hex ws (o :: data) = render_sep s0 ++ render_hex ((None, u1, u2) :: tl ws) (o :: data)).
    { cbn [render_hex hd tl]. rewrite Ew. unfold render_hex_octet. rewrite <- !app_assoc. reflexivity. }
    rewrite Etext. rewrite <- !app_assoc.
    eapply runs_bind_Q; [apply u16_runs; exact Hu|intros t Ht; rewrite <- ?app_assoc; eapply fend_sep; [exact HP0|apply HE0; reflexivity]|].
    cbv beta.
    assert (Hnz : (N.of_nat (length (o :: data)) =? 0) = false) by (apply N.eqb_neq; cbn [length]; lia).
    rewrite Hnz.
    eapply runsQ_eq; [intros r; apply bindM_assoc|].
    eapply runs_bind_Q; [apply skip_to_next_field_runs; exact HP0| |].
    { intros t Ht. cbn [render_hex hd]. unfold render_hex_octet. cbn [app]. apply fstart_plain.
      apply N.ltb_lt in Eo. destruct (octet_nibbles o Eo) as (Hh1 & _). apply (hexdig_facts u1 _ Hh1). }
    cbv beta.
    eapply runsQ_eq; [intros r; apply bindM_assoc|]. apply runsQ_getpos. intros q.
    eapply runsQ_eq; [intros r; apply bindM_assoc|].
    rewrite Nat2N.id.
    eapply runs_bind_Q; [apply (hex_loop_runs _ _ [] _ _ Hh')|intros; exact I|].
    cbv beta. cbn [rev app].
    eapply runsQ_eq; [intros r; apply bindM_assoc|].
    change (render_eol e) with ([] ++ render_eol e).
    eapply runs_bind_Q; [apply (mk_rdata_runs anyt); unfold uint_ok in Hu; apply andb_true_iff in Hu; destruct Hu as [Hu _]; apply N.leb_le in Hu; exact Hu|intros; exact I|].
    cbv beta.
    eapply runsQ_eq; [intros r; apply bind_ret_l|].
    eapply (runsQ_of_runs _ _ _ _ _ (q, o :: data)); [|reflexivity].
    apply runs_app_nil. eapply runs_bind; [apply expect_eol_runs; exact He|intros t Ht; exact Ht|]. cbv beta. apply runs_ret.
Qed.

Lemma runsQ_bind_ret {A B} (m : M A) (g : A -> M B) s b b' (Q : A -> Prop) w :
  runsQ T m s b b' Q -> (forall v r, Q v -> g v r = Ok (w, r)) -> runs T (bindM m g) s b b' w.
Proof.
  intros H Hg r t E P W Ht. destruct (H r t E P W Ht) as (r' & v & F & Po & HQ).
  exists r'. unfold bindM. rewrite F. split; [apply Hg; exact HQ|exact Po].
Qed.
End Generic.

Lemma runsQ_map {A B} (T : bytes -> Prop) (m : M A) (g : A -> M B) s b b' (Q : A -> Prop) w :
  runsQ T m s b b' Q -> (forall v r, Q v -> g v r = Ok (w, r)) -> runsQ T (bindM m g) s b b' (fun x => x = w).
Proof.
  intros H Hg r t E P W Ht. destruct (H r t E P W Ht) as (r' & v & F & Po & HQ).
  exists r', w. unfold bindM. rewrite F. split; [apply Hg; exact HQ|]. split; [exact Po|reflexivity].
Qed.

Section Generic2.
Variable e : eolc.
Let T := eoft (e_term e).

(* the text of the \# form, and when it is legal *)
Definition generic_text (s0 s1 : sep) (ic : ichoice) (ws : list (option sep * bool * bool)) (data : bytes) : bytes :=
  render_sep s0 ++ bh ++ render_sep s1 ++ render_uint ic (N.of_nat (length data)) ++ render_hex ws data.

Definition generic_ok (p : bool) s0 s1 ic ws data (p3 : bool) : Prop :=
  exists p0 p1, sep_ok p false s0 = Some p0 /\ sep_ok p0 false s1 = Some p1 /\
    uint_ok 65535 ic (N.of_nat (length data)) = true /\ hex_ok true p1 ws data = Some p3.

(* a type without a syntax of its own *)
Lemma unknown_runs K K' s0 s1 ic ws data p p3 : generic_ok p s0 s1 ic ws data p3 -> eol_ok p3 e = true ->
  runs T (bindM (check_backslash_hash K) (fun bh => if negb bh then failHere K' else parse_unknown_rdata))
       (generic_text s0 s1 ic ws data ++ render_eol e) p false data.
Proof.
  intros (p0 & p1 & Hs0 & Hs1 & Hu & Hh) He. apply runs_of_runsQ. unfold generic_text. rewrite <- !app_assoc.
  pose proof (sep_ok_inv _ _ _ _ Hs0) as [HP0 _]. pose proof (sep_ok_inv _ _ _ _ Hs1) as [HP1 HE1].
  eapply cbh_true_runsQ; [exact HP0| |].
  - intros t Ht. rewrite <- app_assoc. eapply fend_sep; [exact HP1|apply HE1; reflexivity].
  - cbn [negb]. unfold parse_unknown_rdata. eapply runsQ_map; [eapply unknown_impl_runsQ; eassumption|].
    intros v r Hv. cbv beta. unfold ret. rewrite Hv. reflexivity.
Qed.

(* a type with a syntax of its own, written in the \# form: the data must be valid for the type *)
Lemma validated_runs K (typed : M bytes) validator s0 s1 ic ws data p p3 :
  generic_ok p s0 s1 ic ws data p3 -> eol_ok p3 e = true -> validator data = Ok true ->
  runs T (bindM (check_backslash_hash K) (fun bh => if bh then parse_unknown_rdata_with_validation validator else typed))
       (generic_text s0 s1 ic ws data ++ render_eol e) p false data.
Proof.
  intros (p0 & p1 & Hs0 & Hs1 & Hu & Hh) He Hv. apply runs_of_runsQ. unfold generic_text. rewrite <- !app_assoc.
  pose proof (sep_ok_inv _ _ _ _ Hs0) as [HP0 _]. pose proof (sep_ok_inv _ _ _ _ Hs1) as [HP1 HE1].
  eapply cbh_true_runsQ; [exact HP0| |].
  - intros t Ht. rewrite <- app_assoc. eapply fend_sep; [exact HP1|apply HE1; reflexivity].
  - unfold parse_unknown_rdata_with_validation. eapply runsQ_map; [eapply unknown_impl_runsQ; eassumption|].
    intros v r Hsv. cbv beta. rewrite Hsv, Hv. reflexivity.
Qed.
End Generic2.

(* ---- WKS (class IN): address, protocol, ports ------------------------------------------------------------------------------------------ *)

Fixpoint mapi_from {A B} (k : nat) (f : nat -> A -> B) (l : list A) : list B :=
  match l with [] => [] | x :: t => f k x :: mapi_from (S k) f t end.

Lemma mapi_from_ext {A B} (f g : nat -> A -> B) : forall l k, (forall i x, (k <= i)%nat -> f i x = g i x) -> mapi_from k f l = mapi_from k g l.
Proof.
  induction l as [|x l IH]; intros k H; [reflexivity|]. cbn [mapi_from]. rewrite H by lia. rewrite (IH (S k)); [reflexivity|].
  intros i y Hi. apply H. lia.
Qed.

Lemma mapi_from_comp {A B C} (f : nat -> A -> B) (g : nat -> B -> C) : forall l k,
  mapi_from k g (mapi_from k f l) = mapi_from k (fun i x => g i (f i x)) l.
Proof. induction l as [|x l IH]; intros k; [reflexivity|]. cbn [mapi_from]. rewrite IH. reflexivity. Qed.

Lemma mapi_from_id {A} : forall (l : list A) k, mapi_from k (fun _ x => x) l = l.
Proof. induction l as [|x l IH]; intros k; [reflexivity|]. cbn [mapi_from]. rewrite IH. reflexivity. Qed.

Lemma mapi_from_length {A B} (f : nat -> A -> B) : forall l k, length (mapi_from k f l) = length l.
Proof. induction l as [|x l IH]; intros k; [reflexivity|]. cbn [mapi_from length]. rewrite IH. reflexivity. Qed.

Lemma mapi_from_repeat {A B} (f : nat -> A -> B) x : forall n k, mapi_from k f (repeat x n) = map (fun i => f i x) (seq k n).
Proof. induction n as [|n IH]; intros k; [reflexivity|]. cbn [repeat mapi_from seq map]. rewrite IH. reflexivity. Qed.

Lemma list_set_mapi {A} (g : A -> A) : forall (l : list A) k off old, nth_error l off = Some old ->
  list_set l off (g old) = Some (mapi_from k (fun i x => if (i =? k + off)%nat then g x else x) l).
Proof.
  induction l as [|y l IH]; intros k off old H; [destruct off; discriminate|].
  destruct off as [|off]; cbn [nth_error] in H.
  - inversion H; subst. cbn [list_set mapi_from]. rewrite Nat.add_0_r, Nat.eqb_refl. f_equal. f_equal.
    rewrite <- (mapi_from_id l (S k)) at 1. apply mapi_from_ext. intros i x Hi.
    destruct (i =? k)%nat eqn:E; [apply Nat.eqb_eq in E; lia|reflexivity].
  - cbn [list_set mapi_from]. rewrite (IH (S k) off old H).
    destruct (k =? k + S off)%nat eqn:E; [apply Nat.eqb_eq in E; lia|]. f_equal. f_equal.
    apply mapi_from_ext. intros i x _. replace (S k + off)%nat with (k + S off)%nat by lia. reflexivity.
Qed.

Lemma expect_field_ci_yes fld tok b : length tok = length fld -> eq_ignore_case tok fld = true ->
  Forall (fun c => c <> 10) tok -> runs fend (expect_field_ci fld) tok b b true.
Proof.
  intros Hl Hc Hn r t E P W Ht. unfold expect_field_ci, expect_field_impl.
  rewrite E, <- Hl, firstn_app_exact, Nat.eqb_refl, Hc, at_field_end_at_app. unfold fend in Ht. rewrite Ht. cbn [bind].
  eexists. split; [reflexivity|]. subst b. apply post_adv; assumption.
Qed.

Lemma apply_case_no_nl lows s : Forall (fun c => c <> 10) s -> Forall (fun c => lower c <> 10) s ->
  Forall (fun c => c <> 10) (apply_case lows s).
Proof.
  revert lows. induction s as [|c s IH]; intros lows H1 H2; [constructor|]. inversion H1; subst. inversion H2; subst.
  cbn [apply_case]. constructor; [destruct (hd false lows); assumption|apply IH; assumption].
Qed.

Lemma directive_word lows w b : Forall (fun c => c <> 10) w -> Forall (fun c => lower c <> 10) w ->
  runs fend (expect_field_ci w) (apply_case lows w) b b true.
Proof.
  intros H1 H2. apply expect_field_ci_yes; [apply apply_case_length|rewrite eqic_apply_case, eqic_lower; apply bytes_eqb_refl|apply apply_case_no_nl; assumption].
Qed.

Lemma directive_word_tcp lows b : runs fend (expect_field_ci [84; 67; 80]) (apply_case lows w_tcp) b b true.
Proof. apply (directive_word lows [84; 67; 80]); repeat constructor; discriminate. Qed.
Lemma directive_word_udp lows b : runs fend (expect_field_ci [85; 68; 80]) (apply_case lows w_udp) b b true.
Proof. apply (directive_word lows [85; 68; 80]); repeat constructor; discriminate. Qed.

Definition wks_bits (i : nat) (ports : list N) : list N :=
  map (fun p => if p / 8 =? N.of_nat i then 2 ^ (p mod 8) else 0) ports.

Lemma wks_set_mapi : forall ports buf, (forall p, In p ports -> (N.to_nat (p / 8) < length buf)%nat) ->
  wks_set buf ports = Some (mapi_from 0 (fun i old => fold_left N.lor (wks_bits i ports) old) buf).
Proof.
  induction ports as [|p t IH]; intros buf Hb.
  - cbn [wks_set wks_bits map fold_left]. rewrite mapi_from_id. reflexivity.
  - cbn [wks_set]. assert (Hp : (N.to_nat (p / 8) < length buf)%nat) by (apply Hb; left; reflexivity).
    destruct (nth_error buf (N.to_nat (p / 8))) as [old|] eqn:En; [|apply nth_error_None in En; lia].
    rewrite (list_set_mapi (fun x => N.lor x (2 ^ (p mod 8))) buf 0 _ old En). cbn [Nat.add].
    rewrite IH by (intros q Hq; rewrite mapi_from_length; apply Hb; right; exact Hq).
    rewrite mapi_from_comp. f_equal. apply mapi_from_ext. intros i x _.
    assert (Hc : (p / 8 =? N.of_nat i) = (i =? N.to_nat (p / 8))%nat).
    { destruct (i =? N.to_nat (p / 8))%nat eqn:E.
      - apply Nat.eqb_eq in E. subst i. rewrite N2Nat.id. apply N.eqb_refl.
      - apply Nat.eqb_neq in E. apply N.eqb_neq. intros E2. apply E. rewrite E2, Nat2N.id. reflexivity. }
    unfold wks_bits at 2. cbn [map fold_left]. fold (wks_bits i t). rewrite Hc.
    destruct (i =? N.to_nat (p / 8))%nat; [reflexivity|]. rewrite N.lor_0_r. reflexivity.
Qed.

Lemma list_max_fold : forall l, l <> [] -> ZfParser.list_max l = Some (fold_right N.max 0 l).
Proof.
  induction l as [|x l IH]; intros H; [congruence|]. cbn [ZfParser.list_max fold_right].
  destruct l as [|y l]; [cbn; rewrite N.max_0_r; reflexivity|]. rewrite IH by discriminate. reflexivity.
Qed.

Lemma fold_max_ge : forall l p, In p l -> p <= fold_right N.max 0 l.
Proof.
  induction l as [|x l IH]; intros p H; [destruct H|]. cbn [fold_right]. destruct H as [->|H]; [lia|]. specialize (IH p H). lia.
Qed.

Lemma fold_max_bound : forall l b, Forall (fun p => p <= b) l -> fold_right N.max 0 l <= b.
Proof. induction 1 as [|x l Hx _ IH]; cbn [fold_right]; lia. Qed.

Lemma new_in_wks_runs (T : bytes -> Prop) addr proto ports p : length addr = 4%nat -> Forall (fun q => q <= 65535) ports ->
  runs T (new_in_wks addr proto ports) [] p p (addr ++ [proto] ++ @wks_bitmap impl_order ports).
Proof.
  intros Ha Hp. unfold new_in_wks, wks_bitmap, wks_len. destruct ports as [|q ports].
  - cbn [ZfParser.list_max repeat wks_set seq map]. apply mk_rdata_runs. rewrite !app_length, Ha. simpl. lia.
  - set (ps := q :: ports) in *. rewrite (list_max_fold ps) by discriminate. rewrite Nat.add_1_r.
    set (len := S (N.to_nat (fold_right N.max 0 ps / 8))).
    rewrite (wks_set_mapi ps (repeat 0 len)).
    + rewrite mapi_from_repeat. apply mk_rdata_runs. rewrite !app_length, map_length, seq_length, Ha. cbn [length].
      pose proof (fold_max_bound ps 65535 Hp) as Hm. subst len.
      pose proof (N.div_le_mono _ _ 8 ltac:(lia) Hm) as Hd. change (65535 / 8) with 8191 in Hd.
      revert Hd. generalize (fold_right N.max 0 ps / 8). intros m8 Hd. lia.
    + intros r Hr. rewrite repeat_length. subst len. pose proof (fold_max_ge ps r Hr) as Hle.
      pose proof (N.div_le_mono _ _ 8 ltac:(lia) Hle) as Hd. revert Hd. generalize (fold_right N.max 0 ps / 8) (r / 8). intros m8 r8 Hd. lia.
Qed.

Lemma uint_head2 ic n : exists h tl, render_uint ic n = h :: tl /\ (h = 43 \/ 48 <= h <= 57).
Proof.
  destruct (uint_digits_val ic n) as (Hne & Hd & _). unfold render_uint. destruct (i_plus ic).
  - eexists _, _. split; [reflexivity|]. left. reflexivity.
  - cbn [app]. destruct (repeat 48 (i_zeros ic) ++ dec n) as [|h tl]; [congruence|].
    inversion Hd as [|? ? Hh _]; subst. exists h, tl. split; [reflexivity|]. right. unfold digit_of in Hh. lia.
Qed.

Lemma expect_ci_differs_head fld r h l d fl : r_rest r = h :: l -> fld = d :: fl -> lower h <> lower d ->
  expect_field_ci fld r = Ok (false, r).
Proof.
  intros E -> H. apply expect_field_differs. rewrite E. cbn [length firstn eq_ignore_case]. apply N.eqb_neq in H. rewrite H. reflexivity.
Qed.

Definition proto_m : M N :=
  do tcp <- expect_field_ci [84; 67; 80];
  (if tcp then ret 6 else do udp <- expect_field_ci [85; 68; 80]; if udp then ret 17 else parse_u8 InvalidInt).

Lemma proto_runs pc p b : proto_ok pc p = true -> runs fend proto_m (render_proto pc p) b b p.
Proof.
  intros H. unfold proto_m. destruct pc as [lows|lows|ic]; cbn [proto_ok render_proto] in *.
  - apply N.eqb_eq in H. subst p. apply runs_app_nil.
    eapply runs_bind; [apply (directive_word_tcp lows)|intros t Ht; exact Ht|]. cbv beta iota. apply runs_ret.
  - apply N.eqb_eq in H. subst p. eapply runs_peek.
    { intros r t E _. cbn [apply_case w_udp app] in E. eapply expect_ci_differs_head; [exact E|reflexivity|]. destruct (hd false lows); discriminate. }
    cbv beta iota. apply runs_app_nil.
    eapply runs_bind; [apply (directive_word_udp lows)|intros t Ht; exact Ht|]. cbv beta iota. apply runs_ret.
  - destruct (uint_head2 ic p) as (h & tl & Eh & Hh).
    assert (Hl : lower h = h) by (unfold lower; destruct ((65 <=? h) && (h <=? 90)) eqn:E; [apply andb_true_iff in E; destruct E as [E1 E2]; apply N.leb_le in E1, E2; lia|reflexivity]).
    eapply runs_peek.
    { intros r t E _. rewrite Eh in E. cbn [app] in E. eapply expect_ci_differs_head; [exact E|reflexivity|]. rewrite Hl. change (lower 84) with 116. lia. }
    cbv beta iota. eapply runs_peek.
    { intros r t E _. rewrite Eh in E. cbn [app] in E. eapply expect_ci_differs_head; [exact E|reflexivity|]. rewrite Hl. change (lower 85) with 117. lia. }
    cbv beta iota. apply (uint_field_runs U8_MAX); [unfold U8_MAX; lia|exact H].
Qed.

Definition is_port (f : fval) : Prop := exists p, f = VPort p.

Lemma ports_wire_nil fs : Forall is_port fs -> flat_map field_wire fs = [].
Proof. induction 1 as [|f fs [p ->] _ IH]; [reflexivity|]. cbn [flat_map field_wire app]. exact IH. Qed.

Lemma sep_render_nonempty s : sep_empty s = false -> render_sep s <> [].
Proof.
  unfold sep_empty, render_sep. destruct (s_groups s) as [|[bl it] gs].
  - destruct (s_tail s); [discriminate|]. intros _. discriminate.
  - intros _ Hn. cbn [flat_map] in Hn. unfold render_group_s in Hn at 1. cbn [fst snd] in Hn.
    apply app_eq_nil in Hn. destruct Hn as [Hn _]. apply app_eq_nil in Hn. destruct Hn as [Hn _]. apply app_eq_nil in Hn. destruct Hn as [_ Hn].
    destruct it as [| |[|]|? ?]; discriminate Hn.
Qed.

Section Wks.
Variable x : sctx.
Variables (e : eolc).
Let T := eoft (e_term e).
Let o := x_origin x.

Lemma wks_loop_runs start : forall fs cs p1 p3 count ports_rev fuel,
  fields_ok o false false p1 cs fs = Some p3 -> Forall is_port fs -> eol_ok p3 e = true ->
  count + N.of_nat (length fs) <= 65535 ->
  runsN fuel T (wks_loop fuel start count ports_rev) (render_fields cs fs ++ render_eol e) p1 false
        (rev (ports_of fs) ++ ports_rev).
Proof.
  induction fs as [|f fs IH]; intros cs p1 p3 count ports_rev fuel H Hall He Hc;
    (destruct fuel as [|fuel]; [apply runsN_0|]); cbn [wks_loop].
  - apply fields_ok_nil in H. subst p3. cbn [render_fields app ports_of flat_map rev].
    apply runs_N. apply runs_app_nil. eapply runs_bind; [apply through_eol_runs; exact He|intros t Ht; exact Ht|].
    cbv beta iota. apply runs_ret.
  - apply fields_ok_cons in H. destruct H as (q & Hs & Hf & H). pose proof (sep_ok_inv _ _ _ _ Hs) as [HP HE].
    inversion Hall as [|? ? [pp ->] Hall']; subst. cbn [length] in Hc.
    cbn [render_fields]. rewrite <- !app_assoc.
    eapply runsN_bind_dec; [apply through_field_runs; exact HP| | |].
    { apply sep_render_nonempty. apply HE. reflexivity. }
    { intros t Ht. rewrite <- app_assoc. eapply field_fstart. exact Hf. }
    cbv beta iota.
    destruct (65535 <=? count) eqn:Ec; [apply N.leb_le in Ec; lia|].
    assert (Hu : uint_ok 65535 (fc_int (snd (hd (sep_none, CPlain) cs))) pp = true).
    { destruct (snd (hd (sep_none, CPlain) cs)); cbn [field_ok] in Hf; try discriminate Hf. exact Hf. }
    cbn [render_field].
    eapply runsN_bind; [apply u16_runs; exact Hu| |].
    { intros t Ht. destruct fs as [|f2 fs2].
      - apply fields_ok_nil in H. subst p3. cbn [render_fields app]. eapply fend_eol; eassumption.
      - apply fields_ok_cons in H. destruct H as (q2 & Hs2 & _). cbn [field_closed] in Hs2. cbn [render_fields]. rewrite <- !app_assoc. eapply fend_sep; [exact (proj1 (sep_ok_inv _ _ _ _ Hs2))|apply (proj2 (sep_ok_inv _ _ _ _ Hs2)); reflexivity]. }
    cbv beta.
    specialize (IH (tl cs) q p3 (count + 1) (pp :: ports_rev) fuel H Hall' He ltac:(lia)).
    replace (rev (ports_of (VPort pp :: fs)) ++ ports_rev) with (rev (ports_of fs) ++ pp :: ports_rev).
    + exact IH.
    + cbn [ports_of flat_map app rev]. fold (ports_of fs). rewrite <- app_assoc. reflexivity.
Qed.
End Wks.

Lemma ports_value fs : Forall is_port fs -> forallb value_ok fs = true -> Forall (fun q => q <= 65535) (ports_of fs).
Proof.
  induction 1 as [|f fs [p ->] _ IH]; intros Hv; [constructor|]. cbn [forallb] in Hv. apply andb_true_iff in Hv. destruct Hv as [Hp Hv].
  cbn [ports_of flat_map app]. constructor; [cbn [value_ok] in Hp; apply N.leb_le; exact Hp|apply IH; exact Hv].
Qed.

Lemma wks_wire a b c d proto fs : Forall is_port fs ->
  rdata_wire (AFields (VIp4 a b c d :: VProto proto :: fs)) = [a; b; c; d] ++ [proto] ++ wks_bitmap (ports_of fs).
Proof.
  intros H. cbn [rdata_wire]. change (ports_of (VIp4 a b c d :: VProto proto :: fs)) with (ports_of fs).
  change (flat_map field_wire (VIp4 a b c d :: VProto proto :: fs)) with ([a; b; c; d] ++ [proto] ++ flat_map field_wire fs).
  rewrite (ports_wire_nil fs H). destruct (ports_of fs) eqn:E; [reflexivity|]. rewrite app_nil_r. reflexivity.
Qed.

Theorem wks_runs x e cs a b c d proto fs p p3 : sctx_good x -> bo = impl_order \/ ports_of fs = [] ->
  fields_ok (x_origin x) true false p cs (VIp4 a b c d :: VProto proto :: fs) = Some p3 -> Forall is_port fs ->
  forallb value_ok fs = true -> N.of_nat (length fs) <= 65535 -> eol_ok p3 e = true ->
  runs (eoft (e_term e)) parse_in_wks_rdata (render_fields cs (VIp4 a b c d :: VProto proto :: fs) ++ render_eol e) p false
       (rdata_wire (AFields (VIp4 a b c d :: VProto proto :: fs))).
Proof.
  intros Hx Hord H Hall Hv Hn He. rewrite (wks_wire a b c d proto fs Hall).
  assert (Ebm : wks_bitmap (ports_of fs) = @wks_bitmap impl_order (ports_of fs)).
  { destruct Hord as [Eo|Ep]; [rewrite Eo; reflexivity|rewrite Ep; reflexivity]. }
  rewrite Ebm.
  apply fields_ok_cons in H. destruct H as (q1 & Hs1 & Hf1 & H). pose proof (sep_ok_inv _ _ _ _ Hs1) as [HP1 _].
  apply fields_ok_cons in H. destruct H as (q2 & Hs2 & Hf2 & H). pose proof (sep_ok_inv _ _ _ _ Hs2) as [HP2 _].
  cbn [render_fields]. rewrite <- !app_assoc. unfold parse_in_wks_rdata.
  eapply cbh_false_runs; [exact HP1|intros; eapply (field_fstart2 x); exact Hf1|intros; eapply (field_not_bh2 x); eassumption|].
  cbv beta iota. apply runs_getpos. intros start.
  eapply runs_bind; [apply ip4_field_runs; eapply fok_ip4; exact Hf1|intros; cbn [field_closed] in Hs2; apply (mid_tail q1 false _ q2); exact Hs2|].
  cbv beta.
  eapply runs_bind; [apply skip_to_next_field_runs; exact HP2|intros; eapply (field_fstart2 x); exact Hf2|].
  cbv beta.
  assert (Hpc : proto_ok (fc_proto (snd (hd (sep_none, CPlain) (tl cs)))) proto = true).
  { destruct (snd (hd (sep_none, CPlain) (tl cs))); cbn [field_ok] in Hf2; try discriminate Hf2. exact Hf2. }
  eapply runs_eq; [intros r; symmetry; apply (bindM_assoc (expect_field_ci [84; 67; 80]))|].
  cbn [render_field].
  eapply runs_bind; [apply proto_runs; exact Hpc| |].
  { intros t Ht. destruct fs as [|f3 fs3].
    - apply fields_ok_nil in H. subst p3. cbn [render_fields app]. eapply fend_eol; eassumption.
    - apply fields_ok_cons in H. destruct H as (q3 & Hs3 & _). cbn [field_closed] in Hs3. cbn [render_fields]. rewrite <- !app_assoc. eapply fend_sep; [exact (proj1 (sep_ok_inv _ _ _ _ Hs3))|apply (proj2 (sep_ok_inv _ _ _ _ Hs3)); reflexivity]. }
  cbv beta. apply runs_get_fuel. intros fuel. apply runsN_app_nil.
  eapply runsN_bind_l; [eapply (wks_loop_runs x e start fs (tl (tl cs)) q2 p3 0 [] fuel); [exact H|exact Hall|exact He|lia]|intros t Ht; exact Ht|].
  cbv beta. rewrite app_nil_r, rev_fast_rev, rev_involutive.
  apply new_in_wks_runs; [reflexivity|apply ports_value; assumption].
Qed.

(* ---- parse_rdata: every type, both syntaxes ---------------------------------------------------------------------------------------- *)

Lemma rdata_ok_inv o p class type dc d p3 : rdata_ok o p class type dc d = Some p3 ->
  N.of_nat (length (rdata_wire d)) <= 65535 /\ rdata_fits class type d = true /\
  ((exists cs fs, dc = DFields cs /\ d = AFields fs /\ fields_ok o true false p cs fs = Some p3) \/
   (exists s0 s1 ic ws, dc = DGeneric s0 s1 ic ws /\ generic_ok p s0 s1 ic ws (rdata_wire d) p3)).
Proof.
  unfold rdata_ok. destruct (rdata_fits class type d) eqn:Ef; [|discriminate]. cbn [andb].
  destruct (N.of_nat (length (rdata_wire d)) <=? 65535) eqn:El; [|discriminate]. apply N.leb_le in El.
  intros H. split; [exact El|]. split; [reflexivity|]. destruct dc as [cs|s0 s1 ic ws].
  - destruct d as [fs|data]; [|discriminate]. left. eauto.
  - right. exists s0, s1, ic, ws. split; [reflexivity|]. unfold generic_ok.
    destruct (sep_ok p false s0) as [p0|] eqn:E0; [|discriminate]. destruct (sep_ok p0 false s1) as [p1|] eqn:E1; [|discriminate].
    destruct (uint_ok 65535 ic _) eqn:Eu; [|discriminate]. exists p0, p1. repeat split; auto.
Qed.

Lemma good_name_of ls : good_labels ls -> good_name (name_of ls).
Proof. intros H. exists ls. auto. Qed.

Lemma value_name ls : value_ok (VName ls) = true -> good_labels ls.
Proof. apply good_labels_b_spec. Qed.

Lemma value_str s : value_ok (VStr s) = true -> (length s <= 255)%nat.
Proof. cbn [value_ok]. intros H. apply andb_true_iff in H. destruct H as [H _]. apply Nat.leb_le. exact H. Qed.

Lemma flat_sbe16_len : forall l : list N, length (flat_map sbe16 l) = (2 * length l)%nat.
Proof. induction l as [|g l IH]; [reflexivity|]. cbn [flat_map]. rewrite app_length, IH. change (length (sbe16 g)) with 2%nat. cbn [length]. lia. Qed.

Lemma txt_valid fs : fs <> [] -> Forall is_str fs -> forallb value_ok fs = true -> validate_as_txt (flat_map field_wire fs) = Ok true.
Proof.
  intros Hne Hall Hv.
  assert (Hlens : Forall (fun f => forall s, f = VStr s -> (length s <= 255)%nat) fs).
  { apply Forall_forall. intros f Hf s ->. rewrite forallb_forall in Hv. apply value_str. apply Hv. exact Hf. }
  rewrite <- (concat_chunks fs Hall Hlens). apply ok_txt.
  - apply Forall_forall. intros c Hc. apply in_map_iff in Hc. destruct Hc as (f & <- & Hf).
    rewrite Forall_forall in Hall, Hlens. destruct (Hall f Hf) as [s ->]. exists s. split; [apply (Hlens _ Hf s eq_refl)|reflexivity].
  - destruct fs; [congruence|discriminate].
Qed.

Lemma str_ports fs : Forall is_str fs -> ports_of fs = [].
Proof. induction 1 as [|f fs [s ->] _ IH]; [reflexivity|]. cbn [ports_of flat_map app]. exact IH. Qed.

Lemma str_wire fs : Forall is_str fs -> rdata_wire (AFields fs) = flat_map field_wire fs.
Proof. intros H. cbn [rdata_wire]. rewrite (str_ports fs H). reflexivity. Qed.

Ltac inv_kinds H fs :=
  repeat (destruct fs as [|?f fs]; [try discriminate H|destruct f; try discriminate H];
          cbn [map kind_of kinds_eqb fkind_eqb andb] in H).

Ltac split_values Hv := cbn [forallb] in Hv; repeat (apply andb_true_iff in Hv; destruct Hv as [?Hv Hv]).

Theorem rdata_runs x class type dc d e p p3 : sctx_good x -> bo = impl_order \/ wks_listed dc d = false ->
  rdata_ok (x_origin x) p class type dc d = Some p3 -> eol_ok p3 e = true ->
  runs (eoft (e_term e)) (parse_rdata (ctx_of x) class type) (render_rdata dc d ++ render_eol e) p false (rdata_wire d).
Proof.
  intros Hx Hord H He. apply rdata_ok_inv in H. destruct H as (Hlen & Hfit & Hform).
  unfold parse_rdata. unfold in_types, name_rdata_types, TYPE_NS, TYPE_MD, TYPE_MF, TYPE_CNAME, TYPE_MB, TYPE_MG, TYPE_MR, TYPE_PTR,
    TYPE_A, TYPE_SOA, TYPE_WKS, TYPE_HINFO, TYPE_MINFO, TYPE_MX, TYPE_TXT, TYPE_AAAA, TYPE_SRV, CLASS_IN, CLASS_CH.
  change (existsb (N.eqb type) [2; 3; 4; 5; 7; 8; 9; 12]) with (existsb (N.eqb type) name_types).
  unfold rdata_fits, fields_fit, rform_of in Hfit.
  destruct (existsb (N.eqb type) name_types) eqn:E1.
  { destruct d as [fs|data]; [|discriminate Hfit]. apply andb_true_iff in Hfit. destruct Hfit as [Hv Hk].
    inv_kinds Hk fs. split_values Hv. pose proof (value_name _ Hv0) as Hg.
    destruct Hform as [(cs & fs' & -> & [= <-] & Hok)|(z0 & z1 & ic & ws & -> & Hgen)].
    - eapply name_rdata_runs; eassumption.
    - eapply (validated_runs e); [exact Hgen|exact He|]. cbn [rdata_wire ports_of flat_map field_wire app]. rewrite app_nil_r. apply vname_all_wire. exact Hg. }
  destruct ((type =? 1) && (class =? 1)) eqn:E2.
  { destruct d as [fs|data]; [|discriminate Hfit]. apply andb_true_iff in Hfit. destruct Hfit as [Hv Hk].
    inv_kinds Hk fs.
    destruct Hform as [(cs & fs' & -> & [= <-] & Hok)|(z0 & z1 & ic & ws & -> & Hgen)].
    - eapply in_a_runs; eassumption.
    - eapply (validated_runs e); [exact Hgen|exact He|]. reflexivity. }
  destruct ((type =? 1) && (class =? 3)) eqn:E3.
  { destruct d as [fs|data]; [|discriminate Hfit]. apply andb_true_iff in Hfit. destruct Hfit as [Hv Hk].
    inv_kinds Hk fs. split_values Hv. pose proof (value_name _ Hv0) as Hg.
    destruct Hform as [(cs & fs' & -> & [= <-] & Hok)|(z0 & z1 & ic & ws & -> & Hgen)].
    - eapply ch_a_runs; eassumption.
    - eapply (validated_runs e); [exact Hgen|exact He|]. cbn [rdata_wire ports_of flat_map field_wire app]. rewrite app_nil_r.
      apply (ok_ch_a (name_of ls) n). apply good_name_of. exact Hg. }
  destruct (type =? 6) eqn:E4.
  { destruct d as [fs|data]; [|discriminate Hfit]. apply andb_true_iff in Hfit. destruct Hfit as [Hv Hk].
    inv_kinds Hk fs. split_values Hv. pose proof (value_name _ Hv0) as Hg1. pose proof (value_name _ Hv1) as Hg2.
    destruct Hform as [(cs & fs' & -> & [= <-] & Hok)|(z0 & z1 & ic & ws & -> & Hgen)].
    - eapply soa_runs; eassumption.
    - eapply (validated_runs e); [exact Hgen|exact He|]. cbn [rdata_wire ports_of flat_map field_wire app].
      apply (ok_soa (name_of ls) (name_of ls0)); [apply good_name_of; exact Hg1|apply good_name_of; exact Hg2|reflexivity]. }
  destruct ((type =? 11) && (class =? 1)) eqn:EW.
  { destruct d as [fs|data]; [|discriminate Hfit]. apply andb_true_iff in Hfit. destruct Hfit as [Hv Hk].
    destruct fs as [|f1 [|f2 ports]]; try discriminate Hk.
    apply andb_true_iff in Hk. destruct Hk as [Hk Hcount]. apply andb_true_iff in Hk. destruct Hk as [Hk Hports].
    apply andb_true_iff in Hk. destruct Hk as [Hk1 Hk2]. destruct f1; try discriminate Hk1. destruct f2; try discriminate Hk2.
    apply N.leb_le in Hcount.
    assert (Hall : Forall is_port ports).
    { apply Forall_forall. intros f Hf. rewrite forallb_forall in Hports. specialize (Hports f Hf). destruct f; try discriminate Hports. eexists. reflexivity. }
    cbn [forallb] in Hv. apply andb_true_iff in Hv. destruct Hv as [_ Hv]. apply andb_true_iff in Hv. destruct Hv as [_ Hv].
    destruct Hform as [(cs & fs' & -> & [= <-] & Hok)|(z0 & z1 & ic & ws & -> & Hgen)].
    - eapply wks_runs; try eassumption. destruct Hord as [Eo|Ew]; [left; exact Eo|right].
      cbn [wks_listed] in Ew. change (ports_of (VIp4 a b c d :: VProto p0 :: ports)) with (ports_of ports) in Ew.
      destruct (ports_of ports); [reflexivity|discriminate Ew].
    - eapply (validated_runs e); [exact Hgen|exact He|]. rewrite (wks_wire _ _ _ _ _ _ Hall). reflexivity. }
  destruct (type =? 13) eqn:E5.
  { destruct d as [fs|data]; [|discriminate Hfit]. apply andb_true_iff in Hfit. destruct Hfit as [Hv Hk].
    inv_kinds Hk fs. split_values Hv. pose proof (value_str _ Hv0) as L1. pose proof (value_str _ Hv1) as L2.
    destruct Hform as [(cs & fs' & -> & [= <-] & Hok)|(z0 & z1 & ic & ws & -> & Hgen)].
    - eapply hinfo_runs; eassumption.
    - eapply (validated_runs e); [exact Hgen|exact He|]. cbn [rdata_wire ports_of flat_map field_wire app]. rewrite app_nil_r.
      rewrite <- (chunk_wire s L1), <- (chunk_wire s0 L2). apply (ok_hinfo s s0); assumption. }
  destruct (type =? 14) eqn:E6.
  { destruct d as [fs|data]; [|discriminate Hfit]. apply andb_true_iff in Hfit. destruct Hfit as [Hv Hk].
    inv_kinds Hk fs. split_values Hv. pose proof (value_name _ Hv0) as Hg1. pose proof (value_name _ Hv1) as Hg2.
    destruct Hform as [(cs & fs' & -> & [= <-] & Hok)|(z0 & z1 & ic & ws & -> & Hgen)].
    - eapply minfo_runs; eassumption.
    - eapply (validated_runs e); [exact Hgen|exact He|]. cbn [rdata_wire ports_of flat_map field_wire app]. rewrite app_nil_r.
      apply (ok_minfo (name_of ls) (name_of ls0)); apply good_name_of; assumption. }
  destruct (type =? 15) eqn:E7.
  { destruct d as [fs|data]; [|discriminate Hfit]. apply andb_true_iff in Hfit. destruct Hfit as [Hv Hk].
    inv_kinds Hk fs. split_values Hv. pose proof (value_name _ Hv1) as Hg.
    destruct Hform as [(cs & fs' & -> & [= <-] & Hok)|(z0 & z1 & ic & ws & -> & Hgen)].
    - eapply mx_runs; eassumption.
    - eapply (validated_runs e); [exact Hgen|exact He|]. cbn [rdata_wire ports_of flat_map field_wire app]. rewrite app_nil_r.
      apply (ok_mx n (name_of ls)). apply good_name_of. exact Hg. }
  destruct (type =? 16) eqn:E8.
  { destruct d as [fs|data]; [|discriminate Hfit]. apply andb_true_iff in Hfit. destruct Hfit as [Hv Hk].
    apply andb_true_iff in Hk. destruct Hk as [Hne Hstr].
    assert (Hall : Forall is_str fs).
    { apply Forall_forall. intros f Hf. rewrite forallb_forall in Hstr. specialize (Hstr f Hf). destruct f; try discriminate Hstr. eexists. reflexivity. }
    destruct fs as [|f fs]; [discriminate Hne|]. rewrite (str_wire _ Hall) in *.
    destruct Hform as [(cs & fs' & -> & [= <-] & Hok)|(z0 & z1 & ic & ws & -> & Hgen)].
    - eapply txt_runs; eassumption.
    - cbn [render_rdata]. rewrite (str_wire _ Hall). eapply (validated_runs e); [exact Hgen|exact He|]. apply txt_valid; [discriminate|exact Hall|exact Hv]. }
  destruct ((type =? 28) && (class =? 1)) eqn:E9.
  { destruct d as [fs|data]; [|discriminate Hfit]. apply andb_true_iff in Hfit. destruct Hfit as [Hv Hk].
    inv_kinds Hk fs. split_values Hv.
    destruct Hform as [(cs & fs' & -> & [= <-] & Hok)|(z0 & z1 & ic & ws & -> & Hgen)].
    - eapply in_aaaa_runs; eassumption.
    - eapply (validated_runs e); [exact Hgen|exact He|]. cbn [rdata_wire ports_of flat_map field_wire app]. rewrite app_nil_r.
      unfold validate_as_in_aaaa. rewrite flat_sbe16_len. cbn [value_ok] in Hv0. apply andb_true_iff in Hv0. destruct Hv0 as [L _].
      apply Nat.eqb_eq in L. rewrite L. reflexivity. }
  destruct ((type =? 33) && (class =? 1)) eqn:E10.
  { destruct d as [fs|data]; [|discriminate Hfit]. apply andb_true_iff in Hfit. destruct Hfit as [Hv Hk].
    inv_kinds Hk fs. split_values Hv. pose proof (value_name _ Hv3) as Hg.
    destruct Hform as [(cs & fs' & -> & [= <-] & Hok)|(z0 & z1 & ic & ws & -> & Hgen)].
    - eapply srv_runs; eassumption.
    - eapply (validated_runs e); [exact Hgen|exact He|]. cbn [rdata_wire ports_of flat_map field_wire app]. rewrite app_nil_r.
      apply (ok_srv n n0 n1 (name_of ls)). apply good_name_of. exact Hg. }
  (* no syntax of its own *)
  destruct d as [fs|data].
  { apply andb_true_iff in Hfit. destruct Hfit as [_ Hfit]. discriminate. }
  destruct Hform as [(cs & fs' & -> & Hd & _)|(z0 & z1 & ic & ws & -> & Hgen)]; [discriminate|].
  eapply (unknown_runs e); eassumption.
Qed.

End Ord.
