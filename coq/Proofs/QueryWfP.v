(* Every RDATA a flat-record lookup reports is the RDATA of a record of the zone; so well-formed
   octets (< 256) of the records carry over to everything query answering parses. *)
From QV Require Import Base.ListX Model.ZoneTree Spec.ZoneLookupS Proofs.ZoneBaseP.

Section Wf.
Variable req : N -> N -> bytes -> bytes -> bool.
Variable apex : name.
Variable cls : N.
Variable R : list record.
Hypothesis HR : Forall (fun r => wf_bytes (r_rdata r)) R.

Lemma keep_last_In l ty x : In x (keep_last req cls l ty) -> In x l.
Proof.
  induction l as [|y l IH]; simpl; auto.
  destruct (existsb (fun e => req cls ty y e) l); simpl; intuition.
Qed.

Lemma dedup_first_In l ty x : In x (dedup_first req cls l ty) -> In x l.
Proof.
  unfold dedup_first. intros H. apply in_rev in H. apply keep_last_In in H. apply in_rev. exact H.
Qed.

Lemma spec_rrset_wf m ty rs : spec_rrset req cls R m ty = Some rs -> Forall wf_bytes (rs_rdatas rs).
Proof.
  unfold spec_rrset. destruct (records_at R m ty) as [|r0 rest] eqn:E; [discriminate|].
  intros H. inversion H; subst. cbn [rs_rdatas]. apply Forall_forall. intros x Hx.
  apply dedup_first_In in Hx. change (In x (map r_rdata (r0 :: rest))) in Hx. apply in_map_iff in Hx. destruct Hx as (r & <- & Hr).
  assert (Hr' : In r (records_at R m ty)) by (rewrite E; exact Hr). clear Hr. rename Hr' into Hr.
  unfold records_at in Hr. apply filter_In in Hr. destruct Hr as [Hr _].
  rewrite Forall_forall in HR. apply HR. exact Hr.
Qed.

Lemma single_of_wf m ty s : single_of req cls R m ty = Some s -> Forall wf_bytes (snd s).
Proof.
  unfold single_of. destruct (spec_rrset req cls R m ty) as [rs|] eqn:E; [|discriminate].
  intros H. inversion H; subst. cbn [snd]. eapply spec_rrset_wf; eauto.
Qed.

Lemma referral_ns_wf c : Forall wf_bytes (snd (referral_ns req cls R c)).
Proof.
  unfold referral_ns. destruct (single_of req cls R c 2) as [s|] eqn:E.
  - eapply single_of_wf; eauto.
  - constructor.
Qed.

Definition lookup_wf (r : lookup_result) : Prop :=
  match r with
  | LFound s _ | LCname s _ => Forall wf_bytes (snd s)
  | LReferral _ ns => Forall wf_bytes (snd ns)
  | _ => True
  end.

Lemma spec_lookup_wf qn ty u sbc r : spec_lookup req apex cls R qn ty u sbc = Some r -> lookup_wf r.
Proof.
  unfold spec_lookup. destruct (spec_lookup_base req apex cls R qn u sbc) as [b|]; [|discriminate].
  intros H. inversion H; subst. clear H. destruct b as [m sos|c| |]; simpl; auto.
  - destruct (single_of req cls R m ty) as [s|] eqn:E1; simpl; [eapply single_of_wf; eauto|].
    destruct (single_of req cls R m 5) as [s|] eqn:E2; simpl; [eapply single_of_wf; eauto|auto].
  - apply referral_ns_wf.
Qed.

Definition lookup_all_wf (r : lookup_all_result) : Prop :=
  match r with
  | LAReferral _ ns => Forall wf_bytes (snd ns)
  | _ => True
  end.

Lemma spec_lookup_all_wf qn u sbc r : spec_lookup_all req apex cls R qn u sbc = Some r -> lookup_all_wf r.
Proof.
  unfold spec_lookup_all. destruct (spec_lookup_base req apex cls R qn u sbc) as [b|]; [|discriminate].
  intros H. inversion H; subst. clear H. destruct b as [m sos|c| |]; simpl; auto.
  apply referral_ns_wf.
Qed.

(* in the zone, a checked and an unchecked lookup are the same lookup *)
Lemma spec_lookup_unchecked qn ty sbc : in_zone apex qn = true ->
  spec_lookup req apex cls R qn ty false sbc = spec_lookup req apex cls R qn ty true sbc.
Proof. intros Z. unfold spec_lookup, spec_lookup_base. rewrite Z. reflexivity. Qed.
Lemma spec_lookup_all_unchecked qn sbc : in_zone apex qn = true ->
  spec_lookup_all req apex cls R qn false sbc = spec_lookup_all req apex cls R qn true sbc.
Proof. intros Z. unfold spec_lookup_all, spec_lookup_base. rewrite Z. reflexivity. Qed.

(* AAAA is only reported in class IN *)
Lemma spec_addrs_aaaa qn u sbc a aaaa sos :
  spec_lookup_addrs req apex cls R qn u sbc = Some (AFound a aaaa sos) -> (cls =? 1)%N = false -> aaaa = None.
Proof.
  unfold spec_lookup_addrs. destruct (spec_lookup_base req apex cls R qn u sbc) as [b|]; [|discriminate].
  intros H C. destruct b; inversion H; subst. rewrite C. reflexivity.
Qed.

(* a name of the zone is never reported as outside of it *)
Lemma spec_base_not_wrong qn u sbc : in_zone apex qn = true ->
  spec_lookup_base req apex cls R qn u sbc <> Some SWrongZone.
Proof.
  intros Z. unfold spec_lookup_base. rewrite Z. cbn [negb].
  destruct (if sbc then None else find (is_cut req apex cls R) (path_below apex (lc qn))); [discriminate|].
  destruct (exists_name apex R (lc qn)); [discriminate|].
  destruct (exists_name apex R _); discriminate.
Qed.
Lemma spec_lookup_not_wrong qn ty u sbc : in_zone apex qn = true ->
  spec_lookup req apex cls R qn ty u sbc <> Some LWrongZone.
Proof.
  intros Z. pose proof (spec_base_not_wrong qn u sbc Z) as H. unfold spec_lookup.
  destruct (spec_lookup_base req apex cls R qn u sbc) as [b|]; [|discriminate].
  destruct b as [m sos|c| |]; try discriminate; [|congruence].
  destruct (single_of req cls R m ty); [discriminate|]. destruct (single_of req cls R m 5); discriminate.
Qed.
Lemma spec_lookup_all_not_wrong qn u sbc : in_zone apex qn = true ->
  spec_lookup_all req apex cls R qn u sbc <> Some LAWrongZone.
Proof.
  intros Z. pose proof (spec_base_not_wrong qn u sbc Z) as H. unfold spec_lookup_all.
  destruct (spec_lookup_base req apex cls R qn u sbc) as [b|]; [|discriminate].
  destruct b as [m sos|c| |]; try discriminate. congruence.
Qed.

End Wf.
