(* Counting lemmas for the thread list of Model/Pool.v: every invariant is a linear
   (in)equation between weighted sums [sumf w (thr s)], and every step changes the
   thread list by [upd], [++ [_]], [notify_all] or [notify_one]. *)
From Coq Require Import Lia Permutation.
From QV Require Import Model.Pool.

Definition b2n (b : bool) : nat := if b then 1 else 0.

Fixpoint sumf (w : pc -> nat) (l : list pc) : nat :=
  match l with
  | [] => 0
  | p :: r => w p + sumf w r
  end.

Notation cnt f := (sumf (fun p => b2n (f p))).

Lemma sumf_app w l1 l2 : sumf w (l1 ++ l2) = sumf w l1 + sumf w l2.
Proof. induction l1 as [|p r IH]; simpl; [reflexivity | rewrite IH; lia]. Qed.

Lemma sumf_snoc w l q : sumf w (l ++ [q]) = sumf w l + w q.
Proof. rewrite sumf_app; simpl; lia. Qed.

Lemma sumf_upd w l : forall i p q, nth_error l i = Some p ->
  sumf w (upd i q l) + w p = sumf w l + w q.
Proof.
  induction l as [|h t IH]; intros [|i] p q E; simpl in *; try discriminate.
  - inversion E; subst; lia.
  - specialize (IH i p q E); lia.
Qed.

Lemma sumf_nth_le w l : forall i p, nth_error l i = Some p -> w p <= sumf w l.
Proof.
  induction l as [|h t IH]; intros [|i] p E; simpl in *; try discriminate.
  - inversion E; subst; lia.
  - specialize (IH i p E); lia.
Qed.

Lemma sumf_ext w1 w2 l : (forall p, w1 p = w2 p) -> sumf w1 l = sumf w2 l.
Proof. intros H; induction l as [|p r IH]; simpl; [reflexivity | rewrite H, IH; reflexivity]. Qed.

Lemma sumf_le w1 w2 l : (forall p, w1 p <= w2 p) -> sumf w1 l <= sumf w2 l.
Proof. intros H; induction l as [|p r IH]; simpl; [lia | specialize (H p); lia]. Qed.

Lemma sumf_plus w1 w2 l : sumf (fun p => w1 p + w2 p) l = sumf w1 l + sumf w2 l.
Proof. induction l as [|p r IH]; simpl; [reflexivity | rewrite IH; lia]. Qed.

Lemma sumf_map w h l : sumf w (map h l) = sumf (fun p => w (h p)) l.
Proof. induction l as [|p r IH]; simpl; [reflexivity | rewrite IH; reflexivity]. Qed.

Lemma sumf_zero_all w l : sumf w l = 0 -> forall p, In p l -> w p = 0.
Proof.
  induction l as [|h t IH]; simpl; intros Hs p Hin; [contradiction|].
  destruct Hin as [->|Hin]; [lia|]. apply IH; [lia | exact Hin].
Qed.

Lemma sumf_all_zero w l : (forall p, In p l -> w p = 0) -> sumf w l = 0.
Proof.
  induction l as [|h t IH]; simpl; intros H; [reflexivity|].
  rewrite (H h (or_introl eq_refl)), IH; [reflexivity | intros p Hp; apply H; right; exact Hp].
Qed.

(* ---- upd / nth_error ------------------------------------------------------------ *)

Lemma length_upd {A} (l : list A) : forall i x, length (upd i x l) = length l.
Proof. induction l as [|h t IH]; intros [|i] x; simpl; auto. Qed.

Lemma nth_upd_same {A} (l : list A) : forall i x, i < length l -> nth_error (upd i x l) i = Some x.
Proof. induction l as [|h t IH]; intros [|i] x H; simpl in *; try lia; auto. apply IH; lia. Qed.

Lemma nth_upd_other {A} (l : list A) : forall i j x, i <> j -> nth_error (upd i x l) j = nth_error l j.
Proof. induction l as [|h t IH]; intros [|i] [|j] x H; simpl; auto; try lia. Qed.

Lemma nth_Some_lt {A} (l : list A) i x : nth_error l i = Some x -> i < length l.
Proof. intros H; apply nth_error_Some; rewrite H; discriminate. Qed.

Lemma nth_snoc_lt {A} (l : list A) i x y : nth_error l i = Some x -> nth_error (l ++ [y]) i = Some x.
Proof. intros H; rewrite nth_error_app1; [exact H | eapply nth_Some_lt; exact H]. Qed.

Lemma nth_snoc_last {A} (l : list A) y : nth_error (l ++ [y]) (length l) = Some y.
Proof. rewrite nth_error_app2, Nat.sub_diag by lia; reflexivity. Qed.

Lemma upd_In {A} (l : list A) : forall i x y, In y (upd i x l) -> y = x \/ In y l.
Proof.
  induction l as [|h t IH]; intros [|i] x y H; simpl in *; try tauto.
  - destruct H as [->|H]; auto.
  - destruct H as [->|H]; auto. destruct (IH i x y H); auto.
Qed.

(* ---- notify_all ------------------------------------------------------------------- *)

Lemma sumf_na w g l : sumf w (notify_all g l) = sumf (fun p => if g p then w (wake p) else w p) l.
Proof. unfold notify_all; rewrite sumf_map; apply sumf_ext; intros p; destruct (g p); reflexivity. Qed.

(* a weight that waking does not change *)
Lemma sumf_na_same w g l : (forall p, g p = true -> w (wake p) = w p) -> sumf w (notify_all g l) = sumf w l.
Proof.
  intros H; rewrite sumf_na; apply sumf_ext; intros p.
  destruct (g p) eqn:E; [apply H; exact E | reflexivity].
Qed.

(* a wait set that is emptied *)
Lemma sumf_na_zero w g l : (forall p, g p = true -> w (wake p) = 0) -> (forall p, g p = false -> w p = 0) ->
  sumf w (notify_all g l) = 0.
Proof.
  intros H1 H2; rewrite sumf_na; apply sumf_all_zero; intros p _.
  destruct (g p) eqn:E; [apply H1 | apply H2]; exact E.
Qed.

Lemma length_na g l : length (notify_all g l) = length l.
Proof. apply map_length. Qed.

Lemma nth_na g l i : nth_error (notify_all g l) i = option_map (fun p => if g p then wake p else p) (nth_error l i).
Proof. unfold notify_all; apply nth_error_map. Qed.

Lemma nth_na_other g l i p : nth_error l i = Some p -> g p = false -> nth_error (notify_all g l) i = Some p.
Proof. intros E G; rewrite nth_na, E; simpl; rewrite G; reflexivity. Qed.

(* ---- notify_one ------------------------------------------------------------------- *)

Lemma existsb_false_cnt g l : existsb g l = false -> cnt g l = 0.
Proof.
  induction l as [|p r IH]; simpl; intros H; [reflexivity|].
  apply orb_false_iff in H; destruct H as [H1 H2]; rewrite H1, (IH H2); reflexivity.
Qed.

Lemma cnt_zero_existsb g l : cnt g l = 0 -> existsb g l = false.
Proof.
  induction l as [|p r IH]; simpl; intros H; [reflexivity|].
  destruct (g p); simpl in *; [lia | apply IH; lia].
Qed.

(* either nobody waits and the notification is lost, or one waiter p is woken *)
Lemma notify_one_cases g c l l' : notify_one g c l = Some l' ->
  (l' = l /\ cnt g l = 0) \/
  (exists p, g p = true /\ forall w, sumf w l' + w p = sumf w l + w (wake p)).
Proof.
  unfold notify_one; destruct c as [j|].
  - destruct (nth_error l j) as [p|] eqn:E; [|discriminate].
    destruct (g p) eqn:G; [|discriminate].
    intros H; inversion H; subst; right; exists p; split; [exact G|].
    intros w; apply sumf_upd; exact E.
  - destruct (existsb g l) eqn:E; [discriminate|].
    intros H; inversion H; subst; left; split; [reflexivity | apply existsb_false_cnt; exact E].
Qed.

Lemma notify_one_nth g c l l' i p : notify_one g c l = Some l' ->
  nth_error l i = Some p -> g p = false -> nth_error l' i = Some p.
Proof.
  unfold notify_one; destruct c as [j|].
  - destruct (nth_error l j) as [pj|] eqn:E; [|discriminate].
    destruct (g pj) eqn:G; [|discriminate].
    intros H Ei Gi; inversion H; subst.
    rewrite nth_upd_other; [exact Ei|]. intros ->. rewrite E in Ei; inversion Ei; subst. congruence.
  - destruct (existsb g l); [discriminate|]. intros H; inversion H; subst; auto.
Qed.

Lemma notify_one_length g c l l' : notify_one g c l = Some l' -> length l' = length l.
Proof.
  unfold notify_one; destruct c as [j|].
  - destruct (nth_error l j) as [pj|]; [|discriminate]. destruct (g pj); [|discriminate].
    intros H; inversion H; subst; apply length_upd.
  - destruct (existsb g l); [discriminate|]. intros H; inversion H; subst; auto.
Qed.

(* a choice always exists: the notification can always be delivered somehow *)
Fixpoint find_waiter (g : pc -> bool) (l : list pc) (i : nat) : option nat :=
  match l with
  | [] => None
  | p :: r => if g p then Some i else find_waiter g r (S i)
  end.

Lemma find_waiter_spec g l : forall k,
  match find_waiter g l k with
  | Some j => exists p, k <= j /\ nth_error l (j - k) = Some p /\ g p = true
  | None => existsb g l = false
  end.
Proof.
  induction l as [|p r IH]; intros k; simpl; [reflexivity|].
  destruct (g p) eqn:G.
  - exists p; rewrite Nat.sub_diag; simpl; auto.
  - specialize (IH (S k)). destruct (find_waiter g r (S k)) as [j|]; simpl; [|exact IH].
    destruct IH as (q & Hk & Hn & Hg). exists q; split; [lia|]. split; [|exact Hg].
    replace (j - k) with (S (j - S k)) by lia. exact Hn.
Qed.

Lemma notify_one_enabled g l : exists c l', notify_one g c l = Some l'.
Proof.
  pose proof (find_waiter_spec g l 0) as H.
  destruct (find_waiter g l 0) as [j|].
  - destruct H as (p & _ & Hn & Hg). rewrite Nat.sub_0_r in Hn.
    exists (Some j), (upd j (wake p) l). unfold notify_one; rewrite Hn, Hg; reflexivity.
  - exists None, l. unfold notify_one; rewrite H; reflexivity.
Qed.
