(* C23 — the framework for "parse (render x) = x" proofs: [runs T m s b b' v] says that the parser
   action m, started on any reader whose unconsumed input begins with the text s (followed by any tail t
   satisfying T), in parenthesis state b, succeeds with value v, consumes exactly s, leaves parenthesis
   state b' and advances the line counter by the number of LF octets in s.  Plus the reader-level facts:
   field navigation over rendered separators (stage 2 of C23), read_field / expect_field on tokens. *)
From QV Require Import Base.ListX Model.ZfReader Model.ZfParser Proofs.ZfReaderP Proofs.ZfFieldsP Spec.ZfRenderS.

Local Open Scope N_scope.

(* ---- counting line feeds ------------------------------------------------------------------------- *)

Lemma count_nl_app a b : count_nl (a ++ b) = count_nl a + count_nl b.
Proof. unfold count_nl. rewrite count_occ_app. lia. Qed.

Lemma count_nl_nil : count_nl [] = 0. Proof. reflexivity. Qed.

Lemma count_nl_cons c s : count_nl (c :: s) = (if c =? 10 then 1 else 0) + count_nl s.
Proof.
  unfold count_nl. destruct (N.eq_dec c 10) as [->|Hne].
  - rewrite count_occ_cons_eq by reflexivity. rewrite Nat2N.inj_succ. change (10 =? 10) with true. cbv iota. lia.
  - rewrite count_occ_cons_neq by exact Hne. apply N.eqb_neq in Hne. rewrite Hne. lia.
Qed.

Lemma count_nl_none s : Forall (fun c => c <> 10) s -> count_nl s = 0.
Proof.
  induction 1 as [|c s Hc _ IH]; [reflexivity|]. rewrite count_nl_cons, IH.
  apply N.eqb_neq in Hc. rewrite Hc. reflexivity.
Qed.

(* ---- the predicate ---------------------------------------------------------------------------------- *)

Definition post (r r' : rd) (s t : bytes) (b' : bool) : Prop :=
  r_rest r' = t /\ r_paren r' = b' /\ p_line (r_pos r') = p_line (r_pos r) + count_nl s /\ r_fuel r' = r_fuel r.

Definition runsN {A} (n : nat) (T : bytes -> Prop) (m : M A) (s : bytes) (b b' : bool) (v : A) : Prop :=
  forall r t, r_rest r = s ++ t -> r_paren r = b -> wfr r -> (length (r_rest r) < n)%nat -> T t ->
  exists r', m r = Ok (v, r') /\ post r r' s t b'.

Definition runs {A} (T : bytes -> Prop) (m : M A) (s : bytes) (b b' : bool) (v : A) : Prop :=
  forall r t, r_rest r = s ++ t -> r_paren r = b -> wfr r -> T t ->
  exists r', m r = Ok (v, r') /\ post r r' s t b'.

Definition anyt (t : bytes) : Prop := True.
(* the tail ends the current field / starts a field *)
Definition fend (t : bytes) : Prop := at_field_end_at t 0 = Ok true.
Definition fstart (t : bytes) : Prop := at_field_end_at t 0 = Ok false.

Lemma post_refl r : post r r [] (r_rest r) (r_paren r).
Proof. unfold post. rewrite count_nl_nil, N.add_0_r. auto. Qed.

Lemma post_trans r r1 r2 s1 s2 t b1 b2 :
  post r r1 s1 (s2 ++ t) b1 -> post r1 r2 s2 t b2 -> post r r2 (s1 ++ s2) t b2.
Proof.
  intros (A1 & A2 & A3 & A4) (B1 & B2 & B3 & B4). unfold post.
  rewrite count_nl_app. repeat split; auto; try congruence. rewrite B3, A3. lia.
Qed.

Lemma post_trans3 r r1 r2 r3 s1 s2 s3 t b1 b2 b3 :
  post r r1 s1 (s2 ++ s3 ++ t) b1 -> post r1 r2 s2 (s3 ++ t) b2 -> post r2 r3 s3 t b3 ->
  post r r3 (s1 ++ s2 ++ s3) t b3.
Proof.
  intros A B C. eapply post_trans; [|eapply post_trans; [exact B|exact C]]. rewrite <- app_assoc. exact A.
Qed.

Lemma post_wfr r r' s t b' : wfr r -> r_rest r = s ++ t -> post r r' s t b' -> wfr r'.
Proof.
  intros W E (A1 & _ & _ & A4). unfold wfr in *. rewrite A1, A4. rewrite E, app_length in W. lia.
Qed.

Lemma post_len r r' s t b' : r_rest r = s ++ t -> post r r' s t b' ->
  (length (r_rest r') + length s = length (r_rest r))%nat.
Proof. intros E (A1 & _). rewrite A1, E, app_length. lia. Qed.

Lemma runs_N {A} n (T : bytes -> Prop) (m : M A) s b b' v : runs T m s b b' v -> runsN n T m s b b' v.
Proof. intros H r t E P W _ Ht. apply H; assumption. Qed.

Lemma runs_weaken {A} (T T' : bytes -> Prop) (m : M A) s b b' v :
  (forall t, T' t -> T t) -> runs T m s b b' v -> runs T' m s b b' v.
Proof. intros HT H r t E P W Ht. apply H; auto. Qed.

Lemma runsN_weaken {A} n (T T' : bytes -> Prop) (m : M A) s b b' v :
  (forall t, T' t -> T t) -> runsN n T m s b b' v -> runsN n T' m s b b' v.
Proof. intros HT H r t E P W L Ht. apply H; auto. Qed.

Lemma runs_ret {A} (T : bytes -> Prop) (v : A) b : runs T (ret v) [] b b v.
Proof.
  intros r t E P W _. exists r. split; [reflexivity|]. simpl in E. subst t b. apply post_refl.
Qed.

Lemma runs_eq {A} (T : bytes -> Prop) (m m' : M A) s b b' v : (forall r, m r = m' r) -> runs T m' s b b' v -> runs T m s b b' v.
Proof. intros Hm H r t E P W Ht. rewrite Hm. apply H; assumption. Qed.

Lemma runs_bind {A B} (T1 T2 : bytes -> Prop) (m : M A) (f : A -> M B) s1 s2 b b1 b2 v1 v2 :
  runs T1 m s1 b b1 v1 -> (forall t, T2 t -> T1 (s2 ++ t)) -> runs T2 (f v1) s2 b1 b2 v2 ->
  runs T2 (bindM m f) (s1 ++ s2) b b2 v2.
Proof.
  intros H1 HT H2 r t E P W Ht. rewrite <- app_assoc in E.
  destruct (H1 r (s2 ++ t) E P W (HT t Ht)) as (r1 & E1 & P1).
  pose proof (post_wfr _ _ _ _ _ W E P1) as W1.
  destruct P1 as (A1 & A2 & A3 & A4).
  destruct (H2 r1 t A1 A2 W1 Ht) as (r2 & E2 & P2).
  exists r2. unfold bindM. rewrite E1. split; [exact E2|].
  eapply post_trans; [|exact P2]. unfold post. auto.
Qed.

(* the continuation is a fuelled loop: the first action consumed something or nothing *)
Lemma runsN_bind {A B} n (T1 T2 : bytes -> Prop) (m : M A) (f : A -> M B) s1 s2 b b1 b2 v1 v2 :
  runs T1 m s1 b b1 v1 -> (forall t, T2 t -> T1 (s2 ++ t)) -> runsN n T2 (f v1) s2 b1 b2 v2 ->
  runsN n T2 (bindM m f) (s1 ++ s2) b b2 v2.
Proof.
  intros H1 HT H2 r t E P W L Ht. rewrite <- app_assoc in E.
  destruct (H1 r (s2 ++ t) E P W (HT t Ht)) as (r1 & E1 & P1).
  pose proof (post_wfr _ _ _ _ _ W E P1) as W1.
  pose proof (post_len _ _ _ _ _ E P1) as L1.
  destruct P1 as (A1 & A2 & A3 & A4).
  destruct (H2 r1 t A1 A2 W1 ltac:(lia) Ht) as (r2 & E2 & P2).
  exists r2. unfold bindM. rewrite E1. split; [exact E2|].
  eapply post_trans; [|exact P2]. unfold post. auto.
Qed.

Lemma runsN_bind_dec {A B} n (T1 T2 : bytes -> Prop) (m : M A) (f : A -> M B) s1 s2 b b1 b2 v1 v2 :
  runs T1 m s1 b b1 v1 -> s1 <> [] -> (forall t, T2 t -> T1 (s2 ++ t)) -> runsN n T2 (f v1) s2 b1 b2 v2 ->
  runsN (S n) T2 (bindM m f) (s1 ++ s2) b b2 v2.
Proof.
  intros H1 Hne HT H2 r t E P W L Ht. rewrite <- app_assoc in E.
  destruct (H1 r (s2 ++ t) E P W (HT t Ht)) as (r1 & E1 & P1).
  pose proof (post_wfr _ _ _ _ _ W E P1) as W1.
  pose proof (post_len _ _ _ _ _ E P1) as L1.
  assert (1 <= length s1)%nat by (destruct s1; [congruence|simpl; lia]).
  destruct P1 as (A1 & A2 & A3 & A4).
  destruct (H2 r1 t A1 A2 W1 ltac:(lia) Ht) as (r2 & E2 & P2).
  exists r2. unfold bindM. rewrite E1. split; [exact E2|].
  eapply post_trans; [|exact P2]. unfold post. auto.
Qed.

Lemma runs_getpos {A} (T : bytes -> Prop) (f : pos -> M A) s b b' v :
  (forall p, runs T (f p) s b b' v) -> runs T (bindM getpos f) s b b' v.
Proof. intros H r t E P W Ht. unfold bindM, getpos. apply H; assumption. Qed.

Lemma runsN_getpos {A} n (T : bytes -> Prop) (f : pos -> M A) s b b' v :
  (forall p, runsN n T (f p) s b b' v) -> runsN n T (bindM getpos f) s b b' v.
Proof. intros H r t E P W L Ht. unfold bindM, getpos. apply H; assumption. Qed.

Lemma runs_get_fuel {A} (T : bytes -> Prop) (f : nat -> M A) s b b' v :
  (forall n, runsN n T (f n) s b b' v) -> runs T (bindM get_fuel f) s b b' v.
Proof.
  intros H r t E P W Ht. unfold bindM, get_fuel. apply H; try assumption. unfold wfr in W. lia.
Qed.

Lemma runs_app_nil {A} (T : bytes -> Prop) (m : M A) s b b' v : runs T m (s ++ []) b b' v -> runs T m s b b' v.
Proof. rewrite app_nil_r. auto. Qed.

(* ---- characters --------------------------------------------------------------------------------------- *)

(* an octet that neither ends a field nor can begin a line ending *)
Definition plainb (c : N) : bool := negb (ends_field c) && negb (c =? 10) && negb (c =? 13).

Lemma plainb_spec c : plainb c = true ->
  is_whitespace c = false /\ c <> 40 /\ c <> 41 /\ c <> 59 /\ c <> 10 /\ c <> 13 /\ ends_field c = false.
Proof.
  unfold plainb, ends_field. intros H.
  destruct (is_whitespace c); [discriminate|].
  destruct (c =? 40) eqn:E1; [discriminate|]. destruct (c =? 41) eqn:E2; [discriminate|].
  destruct (c =? 59) eqn:E3; [discriminate|]. destruct (c =? 10) eqn:E4; [discriminate|].
  destruct (c =? 13) eqn:E5; [discriminate|].
  apply N.eqb_neq in E1, E2, E3, E4, E5. repeat split; auto.
Qed.

Lemma get_eol_plain c t : plainb c = true -> get_eol_at (c :: t) 0 = None.
Proof.
  intros H. apply plainb_spec in H. destruct H as (_ & _ & _ & _ & H10 & H13 & _).
  unfold get_eol_at. cbn [nth_error]. apply N.eqb_neq in H10, H13. rewrite H10.
  destruct (nth_error (c :: t) (0 + 1)); [|reflexivity]. rewrite H13. reflexivity.
Qed.

Lemma fstart_plain c t : plainb c = true -> fstart (c :: t).
Proof.
  intros H. unfold fstart, at_field_end_at. rewrite (get_eol_plain c t H). cbn [nth_error].
  apply plainb_spec in H. destruct H as (_ & _ & _ & _ & _ & _ & H). rewrite H. reflexivity.
Qed.

Lemma fstart_inv t : fstart t -> exists c t', t = c :: t' /\ ends_field c = false /\ get_eol_at t 0 = None.
Proof.
  unfold fstart, at_field_end_at. destruct (get_eol_at t 0) eqn:E; [discriminate|].
  destruct t as [|c t']; [discriminate|]. cbn [nth_error]. intros [= H]. eauto.
Qed.

Lemma ends_field_ws c : ends_field c = false -> is_whitespace c = false.
Proof. unfold ends_field. destruct (is_whitespace c); [discriminate|reflexivity]. Qed.

Lemma fend_nil : fend []. Proof. reflexivity. Qed.

Lemma fend_cons c t : ends_field c = true \/ c = 10 -> fend (c :: t).
Proof.
  intros H. unfold fend, at_field_end_at. destruct (get_eol_at (c :: t) 0) eqn:E; [reflexivity|].
  cbn [nth_error]. destruct H as [H| ->]; [rewrite H; reflexivity|]. discriminate.
Qed.

Lemma fend_crlf t : fend (13 :: 10 :: t). Proof. reflexivity. Qed.

(* ---- advancing ------------------------------------------------------------------------------------------ *)

Lemma skipn_app_exact {A} (a b : list A) : skipn (length a) (a ++ b) = b.
Proof. induction a as [|x a IH]; simpl; auto. Qed.

Lemma firstn_app_exact {A} (a b : list A) : firstn (length a) (a ++ b) = a.
Proof. induction a as [|x a IH]; simpl; [reflexivity|]. rewrite IH. reflexivity. Qed.

Lemma post_adv r s t : r_rest r = s ++ t -> Forall (fun c => c <> 10) s ->
  post r (adv r (length s)) s t (r_paren r).
Proof.
  intros E Hs. unfold post, adv. cbn [r_rest r_paren r_pos p_line r_fuel].
  rewrite E, (skipn_app_exact s t), (count_nl_none s Hs), N.add_0_r. auto.
Qed.

Lemma post_adv1 r c t : r_rest r = c :: t -> c <> 10 -> post r (adv r 1) [c] t (r_paren r).
Proof.
  intros E Hc. apply (post_adv r [c] t E). constructor; [exact Hc|constructor].
Qed.

(* ---- read_field_octet ------------------------------------------------------------------------------------ *)

Lemma rfo_plain c b : plainb c = true -> runs anyt read_field_octet [c] b b (Some c).
Proof.
  intros Hc r t E P W _. simpl in E. unfold read_field_octet.
  pose proof (fstart_plain c t Hc) as Hf. unfold fstart in Hf. rewrite E, Hf. cbn [bind].
  exists (adv r 1). split; [reflexivity|]. subst b. apply post_adv1; [exact E|].
  apply plainb_spec in Hc. tauto.
Qed.

Lemma rfo_end b : runs fend read_field_octet [] b b None.
Proof.
  intros r t E P W Ht. simpl in E. unfold read_field_octet. rewrite E. unfold fend in Ht. rewrite Ht. cbn [bind].
  exists r. split; [reflexivity|]. subst t b. apply post_refl.
Qed.

(* ---- read_octet (inside quotes / after a backslash) ---------------------------------------------------------- *)

Lemma read_octet_runs c b : runs anyt (lift read_octet) [c] b b (Some c).
Proof.
  intros r t E P W _. simpl in E. unfold lift, read_octet. rewrite E.
  eexists. split; [reflexivity|]. unfold post. rewrite count_nl_cons, count_nl_nil.
  destruct (c =? 10) eqn:Ec; unfold adv_line, adv; cbn [r_rest r_paren r_pos p_line r_fuel]; rewrite E; simpl skipn;
    repeat split; auto; lia.
Qed.

(* ---- whitespace ------------------------------------------------------------------------------------------------ *)

Lemma blanks_ok_ws b : blanks_ok b = true -> Forall (fun c => is_whitespace c = true) b.
Proof.
  unfold blanks_ok. rewrite forallb_forall, Forall_forall. intros H c Hc. apply H in Hc. exact Hc.
Qed.

Lemma blanks_no_nl b : blanks_ok b = true -> Forall (fun c => c <> 10) b.
Proof.
  intros H. apply blanks_ok_ws in H. eapply Forall_impl; [|exact H]. intros c Hc ->. discriminate.
Qed.

Definition not_ws_head (l : bytes) : Prop := match l with c :: _ => is_whitespace c = false | [] => True end.

Lemma count_ws_app b l : blanks_ok b = true -> not_ws_head l -> count_ws (b ++ l) = length b.
Proof.
  intros Hb Hl. apply blanks_ok_ws in Hb. induction Hb as [|c b Hc _ IH]; simpl.
  - destruct l as [|c t]; [reflexivity|]. simpl in Hl. simpl. rewrite Hl. reflexivity.
  - rewrite Hc, IH. reflexivity.
Qed.

(* skip_whitespace over a run of blanks followed by something that is not a blank *)
Lemma skip_ws_post r b l : blanks_ok b = true -> not_ws_head l -> r_rest r = b ++ l ->
  snd (skip_whitespace r) = adv r (length b) /\ post r (adv r (length b)) b l (r_paren r) /\
  fst (skip_whitespace r) = negb (beq b []).
Proof.
  intros Hb Hl E. unfold skip_whitespace. cbn [fst snd]. rewrite E, (count_ws_app b l Hb Hl).
  split; [reflexivity|]. split.
  - apply post_adv; [exact E|]. apply blanks_no_nl. exact Hb.
  - destruct b; reflexivity.
Qed.

(* ---- line ends --------------------------------------------------------------------------------------------------- *)

Lemma get_eol_nl crlf l : get_eol_at (render_nl crlf ++ l) 0 = Some (length (render_nl crlf)).
Proof. destruct crlf; reflexivity. Qed.

Lemma nl_count crlf : count_nl (render_nl crlf) = 1. Proof. destruct crlf; reflexivity. Qed.

Lemma nl_not_ws crlf l : not_ws_head (render_nl crlf ++ l). Proof. destruct crlf; reflexivity. Qed.

Lemma post_adv_line r crlf t : r_rest r = render_nl crlf ++ t ->
  post r (adv_line r (length (render_nl crlf))) (render_nl crlf) t (r_paren r).
Proof.
  intros E. unfold post, adv_line. cbn [r_rest r_paren r_pos p_line r_fuel].
  rewrite E, skipn_app_exact, nl_count. auto.
Qed.

Lemma comment_no_nl x : comment_ok x = true -> Forall (fun c => c <> 10) x.
Proof.
  unfold comment_ok. rewrite forallb_forall, Forall_forall. intros H c Hc Heq. apply H in Hc. subst c. discriminate.
Qed.

(* a comment body followed by a line break *)
Lemma to_eol_comment x crlf l : comment_ok x = true ->
  to_eol (x ++ render_nl crlf ++ l) = (length x, length (render_nl crlf)).
Proof.
  unfold comment_ok. intros H. induction x as [|c x IH].
  - cbn [app]. destruct crlf; reflexivity.
  - cbn [forallb] in H. apply andb_true_iff in H. destruct H as [Hc Hx].
    cbn [app to_eol].
    assert (E : get_eol_at (c :: x ++ render_nl crlf ++ l) 0 = None).
    { unfold get_eol_at. cbn [nth_error]. apply negb_true_iff, orb_false_iff in Hc. destruct Hc as [H10 H13].
      rewrite H10. destruct (nth_error (c :: x ++ render_nl crlf ++ l) (0 + 1)); [|reflexivity]. rewrite H13. reflexivity. }
    rewrite E, (IH Hx). reflexivity.
Qed.

(* a comment body that runs to the end of the file *)
Lemma to_eol_comment_eof x : comment_ok x = true -> to_eol x = (length x, 0%nat).
Proof.
  unfold comment_ok. intros H. induction x as [|c x IH]; [reflexivity|].
  cbn [forallb] in H. apply andb_true_iff in H. destruct H as [Hc Hx]. cbn [to_eol].
  assert (E : get_eol_at (c :: x) 0 = None).
  { unfold get_eol_at. cbn [nth_error]. apply negb_true_iff, orb_false_iff in Hc. destruct Hc as [H10 H13].
    rewrite H10. destruct (nth_error (c :: x) (0 + 1)); [|reflexivity]. rewrite H13. reflexivity. }
  rewrite E, (IH Hx). reflexivity.
Qed.

Lemma get_eol_semicolon l : get_eol_at (59 :: l) 0 = None.
Proof. unfold get_eol_at. cbn [nth_error]. destruct (nth_error (59 :: l) (0 + 1)); reflexivity. Qed.
Lemma get_eol_open l : get_eol_at (40 :: l) 0 = None.
Proof. unfold get_eol_at. cbn [nth_error]. destruct (nth_error (40 :: l) (0 + 1)); reflexivity. Qed.
Lemma get_eol_close l : get_eol_at (41 :: l) 0 = None.
Proof. unfold get_eol_at. cbn [nth_error]. destruct (nth_error (41 :: l) (0 + 1)); reflexivity. Qed.

(* skip_through_eol over "; comment <line break>" *)
Lemma skip_comment_post r x crlf t : comment_ok x = true -> r_rest r = (59 :: x ++ render_nl crlf) ++ t ->
  post r (skip_through_eol r) (59 :: x ++ render_nl crlf) t (r_paren r).
Proof.
  intros Hx E. unfold skip_through_eol, eol_skipping_impl.
  assert (E' : r_rest r = (59 :: x) ++ render_nl crlf ++ t) by (rewrite E; simpl; rewrite <- app_assoc; reflexivity).
  assert (Hx' : comment_ok (59 :: x) = true) by (unfold comment_ok in *; simpl; exact Hx).
  rewrite E', (to_eol_comment (59 :: x) crlf t Hx').
  assert (L : (0 <? length (render_nl crlf))%nat = true) by (destruct crlf; reflexivity). rewrite L. cbn [andb].
  pose proof (post_adv r (59 :: x) (render_nl crlf ++ t) E' (comment_no_nl _ Hx')) as P1.
  assert (E1 : r_rest (adv r (length (59 :: x))) = render_nl crlf ++ t) by (destruct P1 as (A & _); exact A).
  pose proof (post_adv_line _ crlf t E1) as P2.
  replace (59 :: x ++ render_nl crlf) with ((59 :: x) ++ render_nl crlf) by reflexivity.
  eapply post_trans; [exact P1|]. exact P2.
Qed.

(* ---- field navigation over a rendered separator (stage 2) -------------------------------------------------------------- *)

Lemma sitem_not_ws i l : not_ws_head (render_sitem i ++ l).
Proof. destruct i as [| |c|x c]; try reflexivity. apply nl_not_ws. Qed.

Definition render_groups_s (gs : list (bytes * sitem)) : bytes := flat_map render_group_s gs.

(* one round of the loop per group: the blanks, then the item *)
Lemma foe_groups : forall gs p p' fuel through r l,
  groups_paren p gs = Some p' -> r_rest r = render_groups_s gs ++ l -> r_paren r = p ->
  (length (r_rest r) < fuel)%nat ->
  exists r1 fuel1, foe_loop fuel through r = foe_loop fuel1 through r1 /\
    post r r1 (render_groups_s gs) l p' /\ (length (r_rest r1) < fuel1)%nat.
Proof.
  induction gs as [|[bl it] gs IH]; intros p p' fuel through r l Hg E P L.
  - simpl in Hg. inversion Hg; subst p'. exists r, fuel. split; [reflexivity|]. split; [|exact L].
    simpl in E. rewrite <- E, <- P. apply post_refl.
  - cbn [groups_paren] in Hg. destruct (blanks_ok bl) eqn:Hbl; [|discriminate].
    destruct fuel as [|fuel]; [lia|].
    unfold render_groups_s in E. cbn [flat_map] in E. unfold render_group_s at 1 in E. cbn [fst snd] in E.
    fold (render_groups_s gs) in E. rewrite <- !app_assoc in E.
    destruct (skip_ws_post r bl _ Hbl (sitem_not_ws it (render_groups_s gs ++ l)) E) as (S1 & P1 & _).
    cbn [foe_loop]. rewrite S1.
    set (r1 := adv r (length bl)) in *.
    assert (E1 : r_rest r1 = render_sitem it ++ render_groups_s gs ++ l) by (destruct P1 as (A & _); exact A).
    assert (Pp : r_paren r1 = p) by (destruct P1 as (_ & A & _); congruence).
    assert (L1 : (length (r_rest r1) <= length (r_rest r))%nat).
    { rewrite E1, E, !app_length. lia. }
    assert (Hsplit : render_groups_s ((bl, it) :: gs) = bl ++ render_sitem it ++ render_groups_s gs).
    { unfold render_groups_s. cbn [flat_map]. unfold render_group_s at 1. cbn [fst snd]. rewrite <- app_assoc. reflexivity. }
    rewrite Hsplit.
    destruct it as [| |crlf|x crlf]; cbn [render_sitem] in *.
    + (* ( *)
      destruct p; [discriminate|]. cbn [app] in E1. rewrite E1, get_eol_open. cbn [N.eqb Pos.eqb]. rewrite Pp.
      change (40 =? 59) with false. change (40 =? 40) with true. cbv iota.
      set (r2 := adv (set_paren r1 true) 1).
      assert (P2 : post r1 r2 [40] (render_groups_s gs ++ l) true).
      { pose proof (post_adv1 (set_paren r1 true) 40 _ E1 ltac:(discriminate)) as Q. exact Q. }
      assert (E2 : r_rest r2 = render_groups_s gs ++ l) by (destruct P2 as (A & _); exact A).
      destruct (IH true p' fuel through r2 l Hg E2 ltac:(destruct P2 as (_ & A & _); exact A)) as (r3 & f3 & F3 & P3 & L3).
      { rewrite E2. rewrite E1 in L1. simpl in L1. lia. }
      exists r3, f3. split; [exact F3|]. split; [|exact L3].
      change (40 :: render_groups_s gs) with ([40] ++ render_groups_s gs).
      eapply post_trans3; [exact P1|exact P2|exact P3].
    + (* ) *)
      destruct p; [|discriminate]. cbn [app] in E1. rewrite E1, get_eol_close. rewrite Pp.
      change (41 =? 59) with false. change (41 =? 40) with false. change (41 =? 41) with true. cbv iota. cbn [negb].
      set (r2 := adv (set_paren r1 false) 1).
      assert (P2 : post r1 r2 [41] (render_groups_s gs ++ l) false).
      { pose proof (post_adv1 (set_paren r1 false) 41 _ E1 ltac:(discriminate)) as Q. exact Q. }
      assert (E2 : r_rest r2 = render_groups_s gs ++ l) by (destruct P2 as (A & _); exact A).
      destruct (IH false p' fuel through r2 l Hg E2 ltac:(destruct P2 as (_ & A & _); exact A)) as (r3 & f3 & F3 & P3 & L3).
      { rewrite E2. rewrite E1 in L1. simpl in L1. lia. }
      exists r3, f3. split; [exact F3|]. split; [|exact L3].
      change (41 :: render_groups_s gs) with ([41] ++ render_groups_s gs).
      eapply post_trans3; [exact P1|exact P2|exact P3].
    + (* line break inside parentheses *)
      destruct p; [|discriminate]. rewrite E1, get_eol_nl, Pp.
      assert (Z : (length (render_nl crlf) =? 0)%nat = false) by (destruct crlf; reflexivity). rewrite Z.
      set (r2 := adv_line r1 (length (render_nl crlf))).
      pose proof (post_adv_line r1 crlf _ E1) as P2. fold r2 in P2. rewrite Pp in P2.
      assert (E2 : r_rest r2 = render_groups_s gs ++ l) by (destruct P2 as (A & _); exact A).
      destruct (IH true p' fuel through r2 l Hg E2 ltac:(destruct P2 as (_ & A & _); exact A)) as (r3 & f3 & F3 & P3 & L3).
      { rewrite E2. rewrite E1, app_length in L1. destruct crlf; simpl in L1; lia. }
      exists r3, f3. split; [exact F3|]. split; [|exact L3].
      eapply post_trans3; [exact P1|exact P2|exact P3].
    + (* comment inside parentheses *)
      destruct p; [|discriminate]. cbn [andb] in Hg. destruct (comment_ok x) eqn:Hx; [|discriminate].
      cbn [app] in E1. rewrite E1, get_eol_semicolon, Pp. change (59 =? 59) with true. cbv iota.
      set (r2 := skip_through_eol r1).
      assert (E1' : r_rest r1 = (59 :: x ++ render_nl crlf) ++ render_groups_s gs ++ l).
      { rewrite E1. simpl. rewrite <- app_assoc. reflexivity. }
      pose proof (skip_comment_post r1 x crlf _ Hx E1') as P2. fold r2 in P2. rewrite Pp in P2.
      assert (E2 : r_rest r2 = render_groups_s gs ++ l) by (destruct P2 as (A & _); exact A).
      destruct (IH true p' fuel through r2 l Hg E2 ltac:(destruct P2 as (_ & A & _); exact A)) as (r3 & f3 & F3 & P3 & L3).
      { rewrite E2. rewrite E1' in L1. rewrite app_length in L1. simpl in L1. lia. }
      exists r3, f3. split; [exact F3|]. split; [|exact L3].
      change (59 :: (x ++ render_nl crlf) ++ render_groups_s gs) with ((59 :: x ++ render_nl crlf) ++ render_groups_s gs).
      eapply post_trans3; [exact P1|exact P2|exact P3].
Qed.

Lemma render_sep_split s : render_sep s = render_groups_s (s_groups s) ++ s_tail s.
Proof. reflexivity. Qed.

Lemma fstart_not_ws t : fstart t -> not_ws_head t.
Proof. intros H. destruct (fstart_inv t H) as (c & t' & -> & Hc & _). simpl. apply ends_field_ws. exact Hc. Qed.

(* after the last group: blanks, then the first octet of the next field *)
Lemma foe_field_base fuel through r bl t : blanks_ok bl = true -> fstart t -> r_rest r = bl ++ t ->
  (length (r_rest r) < fuel)%nat ->
  exists r', foe_loop fuel through r = Ok (Field, r') /\ post r r' bl t (r_paren r).
Proof.
  intros Hbl Ht E L. destruct fuel as [|fuel]; [lia|].
  destruct (skip_ws_post r bl t Hbl (fstart_not_ws t Ht) E) as (S1 & P1 & _).
  cbn [foe_loop]. rewrite S1. set (r1 := adv r (length bl)) in *.
  assert (E1 : r_rest r1 = t) by (destruct P1 as (A & _); exact A).
  destruct (fstart_inv t Ht) as (c & t' & Et & Hc & He). rewrite E1, He, Et.
  unfold ends_field in Hc. apply orb_false_iff in Hc. destruct Hc as [Hc H59].
  apply orb_false_iff in Hc. destruct Hc as [Hc H41]. apply orb_false_iff in Hc. destruct Hc as [_ H40].
  rewrite H59, H40, H41. exists r1. split; [reflexivity|]. rewrite <- Et. exact P1.
Qed.

Theorem foe_field fuel through r s t p p' :
  sep_paren p s = Some p' -> fstart t -> r_rest r = render_sep s ++ t -> r_paren r = p ->
  (length (r_rest r) < fuel)%nat ->
  exists r', foe_loop fuel through r = Ok (Field, r') /\ post r r' (render_sep s) t p'.
Proof.
  unfold sep_paren. intros Hs Ht E P L. destruct (blanks_ok (s_tail s)) eqn:Hbl; [|discriminate].
  rewrite render_sep_split, <- app_assoc in E.
  destruct (foe_groups _ p p' fuel through r _ Hs E P L) as (r1 & f1 & F1 & P1 & L1).
  assert (E1 : r_rest r1 = s_tail s ++ t) by (destruct P1 as (A & _); exact A).
  destruct (foe_field_base f1 through r1 _ t Hbl Ht E1 L1) as (r2 & F2 & P2).
  exists r2. rewrite F1. split; [exact F2|]. rewrite render_sep_split.
  eapply post_trans; [exact P1|]. destruct P1 as (_ & A & _). rewrite A in P2. exact P2.
Qed.

(* the tail after a line end: nothing may follow an end of file *)
Definition eoft (tm : term) (t : bytes) : Prop := term_eof tm = true -> t = [].

Lemma term_not_ws tm t : eoft tm t -> not_ws_head (render_term tm ++ t).
Proof.
  intros H. destruct tm as [c|x c| |x]; cbn [render_term app]; try reflexivity.
  - apply nl_not_ws.
  - rewrite (H eq_refl). exact I.
Qed.

Lemma foe_eol_base fuel r bl tm t : blanks_ok bl = true -> term_ok tm = true -> eoft tm t ->
  r_rest r = bl ++ render_term tm ++ t -> r_paren r = false -> (length (r_rest r) < fuel)%nat ->
  exists r', foe_loop fuel true r = Ok (Eol, r') /\ post r r' (bl ++ render_term tm) t false.
Proof.
  intros Hbl Htm Ht E P L. destruct fuel as [|fuel]; [lia|].
  destruct (skip_ws_post r bl _ Hbl (term_not_ws tm t Ht) E) as (S1 & P1 & _).
  cbn [foe_loop]. rewrite S1. set (r1 := adv r (length bl)) in *. rewrite P in P1.
  assert (E1 : r_rest r1 = render_term tm ++ t) by (destruct P1 as (A & _); exact A).
  assert (Pp : r_paren r1 = false) by (destruct P1 as (_ & A & _); exact A).
  destruct tm as [crlf|x crlf| |x]; cbn [render_term] in *.
  - rewrite E1, get_eol_nl, Pp. assert (Z : (0 <? length (render_nl crlf))%nat = true) by (destruct crlf; reflexivity).
    rewrite Z. cbn [andb]. eexists. split; [reflexivity|].
    eapply post_trans; [exact P1|]. pose proof (post_adv_line r1 crlf t E1) as Q. rewrite Pp in Q. exact Q.
  - cbn [app] in E1. rewrite E1, get_eol_semicolon, Pp. change (59 =? 59) with true. cbv iota.
    eexists. split; [reflexivity|]. eapply post_trans; [exact P1|].
    assert (E1' : r_rest r1 = (59 :: x ++ render_nl crlf) ++ t) by (rewrite E1; simpl; rewrite <- app_assoc; reflexivity).
    pose proof (skip_comment_post r1 x crlf t Htm E1') as Q. rewrite Pp in Q. exact Q.
  - rewrite (Ht eq_refl) in *. cbn [app] in E1. rewrite E1. cbn [get_eol_at nth_error]. rewrite Pp. cbn [andb Nat.ltb Nat.leb].
    exists r1. split; [reflexivity|]. rewrite app_nil_r. exact P1.
  - rewrite (Ht eq_refl) in *. rewrite app_nil_r in E1. rewrite E1, get_eol_semicolon, Pp. change (59 =? 59) with true. cbv iota.
    eexists. split; [reflexivity|]. eapply post_trans; [exact P1|].
    unfold skip_through_eol, eol_skipping_impl. rewrite E1.
    assert (Hx' : comment_ok (59 :: x) = true) by (unfold comment_ok in *; simpl; exact Htm).
    rewrite (to_eol_comment_eof _ Hx'). cbn [Nat.ltb Nat.leb andb].
    assert (E1' : r_rest r1 = (59 :: x) ++ []) by (rewrite app_nil_r; exact E1).
    pose proof (post_adv r1 (59 :: x) [] E1' (comment_no_nl _ Hx')) as Q. rewrite Pp in Q. exact Q.
Qed.

Theorem foe_eol fuel r e t p :
  eol_ok p e = true -> eoft (e_term e) t -> r_rest r = render_eol e ++ t -> r_paren r = p ->
  (length (r_rest r) < fuel)%nat ->
  exists r', foe_loop fuel true r = Ok (Eol, r') /\ post r r' (render_eol e) t false.
Proof.
  unfold eol_ok, sep_paren. intros He Ht E P L.
  destruct (blanks_ok (s_tail (e_sep e))) eqn:Hbl; [|discriminate].
  destruct (groups_paren p (s_groups (e_sep e))) as [[|]|] eqn:Hs; try discriminate.
  unfold render_eol in E. rewrite render_sep_split, <- !app_assoc in E.
  destruct (foe_groups _ p false fuel true r _ Hs E P L) as (r1 & f1 & F1 & P1 & L1).
  assert (E1 : r_rest r1 = s_tail (e_sep e) ++ render_term (e_term e) ++ t) by (destruct P1 as (A & _); exact A).
  assert (Pp : r_paren r1 = false) by (destruct P1 as (_ & A & _); exact A).
  destruct (foe_eol_base f1 r1 _ _ t Hbl He Ht E1 Pp L1) as (r2 & F2 & P2).
  exists r2. rewrite F1. split; [exact F2|]. unfold render_eol. rewrite render_sep_split, <- app_assoc.
  eapply post_trans; [|exact P2]. rewrite <- app_assoc. exact P1.
Qed.

Lemma wfr_fuel r : wfr r -> (length (r_rest r) < foe_fuel r)%nat.
Proof. unfold wfr, foe_fuel. lia. Qed.

(* the reader's entry points on a rendered separator / line end *)
Theorem skip_to_next_field_runs k s p p' : sep_paren p s = Some p' ->
  runs fstart (skip_to_next_field k) (render_sep s) p p' tt.
Proof.
  intros Hs r t E P W Ht. unfold skip_to_next_field, skip_to_next_field_or_to_eol.
  destruct (foe_field (foe_fuel r) false r s t p p' Hs Ht E P (wfr_fuel r W)) as (r' & F & Q).
  rewrite F. cbn [bind]. exists r'. split; [reflexivity|exact Q].
Qed.

Theorem through_field_runs s p p' : sep_paren p s = Some p' ->
  runs fstart skip_to_next_field_or_through_eol (render_sep s) p p' Field.
Proof.
  intros Hs r t E P W Ht. unfold skip_to_next_field_or_through_eol.
  destruct (foe_field (foe_fuel r) true r s t p p' Hs Ht E P (wfr_fuel r W)) as (r' & F & Q). eauto.
Qed.

Theorem to_field_runs s p p' : sep_paren p s = Some p' ->
  runs fstart skip_to_next_field_or_to_eol (render_sep s) p p' Field.
Proof.
  intros Hs r t E P W Ht. unfold skip_to_next_field_or_to_eol.
  destruct (foe_field (foe_fuel r) false r s t p p' Hs Ht E P (wfr_fuel r W)) as (r' & F & Q). eauto.
Qed.

Theorem through_eol_runs e p : eol_ok p e = true ->
  runs (eoft (e_term e)) skip_to_next_field_or_through_eol (render_eol e) p false Eol.
Proof.
  intros He r t E P W Ht. unfold skip_to_next_field_or_through_eol.
  destruct (foe_eol (foe_fuel r) r e t p He Ht E P (wfr_fuel r W)) as (r' & F & Q). eauto.
Qed.

Theorem expect_eol_runs e p : eol_ok p e = true ->
  runs (eoft (e_term e)) expect_eol (render_eol e) p false tt.
Proof.
  intros He r t E P W Ht. unfold expect_eol.
  destruct (through_eol_runs e p He r t E P W Ht) as (r' & F & Q). rewrite F. cbn [bind]. eauto.
Qed.

(* what follows a token: a non-empty separator or a line end always ends the field *)
Lemma fend_groups gs l : gs <> [] -> (forall g, In g gs -> blanks_ok (fst g) = true) -> fend (render_groups_s gs ++ l).
Proof.
  destruct gs as [|[bl it] gs]; [congruence|]. intros _ H.
  unfold render_groups_s. cbn [flat_map]. unfold render_group_s at 1. cbn [fst snd]. rewrite <- !app_assoc.
  destruct bl as [|c bl].
  - cbn [app]. destruct it as [| |[|]|x c]; cbn [render_sitem render_nl app]; try (apply fend_cons; left; reflexivity).
    + apply fend_crlf.
    + apply fend_cons. right. reflexivity.
  - cbn [app]. apply fend_cons. left. specialize (H _ (or_introl eq_refl)). cbn [fst] in H.
    unfold blanks_ok in H. cbn [forallb] in H. apply andb_true_iff in H. destruct H as [H _].
    unfold ends_field. unfold is_blank in H. unfold is_whitespace. rewrite H. reflexivity.
Qed.

Lemma groups_paren_blanks : forall gs p p', groups_paren p gs = Some p' -> forall g, In g gs -> blanks_ok (fst g) = true.
Proof.
  induction gs as [|[bl it] gs IH]; intros p p' H g Hg; [destruct Hg|].
  cbn [groups_paren] in H. destruct (blanks_ok bl) eqn:Hbl; [|discriminate].
  destruct Hg as [<-|Hg]; [exact Hbl|].
  destruct it; destruct p; try discriminate; try (eapply IH; eassumption).
  cbn [andb] in H. destruct (comment_ok text); [|discriminate]. eapply IH; eassumption.
Qed.

Lemma fend_blanks bl l : bl <> [] -> blanks_ok bl = true -> fend (bl ++ l).
Proof.
  destruct bl as [|c bl]; [congruence|]. intros _ H. cbn [app]. apply fend_cons. left.
  unfold blanks_ok in H. cbn [forallb] in H. apply andb_true_iff in H. destruct H as [H _].
  unfold ends_field, is_whitespace. unfold is_blank in H. rewrite H. reflexivity.
Qed.

Lemma fend_sep s p p' l : sep_paren p s = Some p' -> sep_empty s = false -> fend (render_sep s ++ l).
Proof.
  unfold sep_paren, sep_empty. intros Hs Hne. destruct (blanks_ok (s_tail s)) eqn:Hbl; [|discriminate].
  rewrite render_sep_split, <- app_assoc. destruct (s_groups s) as [|g gs] eqn:Eg.
  - cbn [render_groups_s flat_map app]. destruct (s_tail s) as [|c bl] eqn:Et; [discriminate|].
    apply fend_blanks; [discriminate|exact Hbl].
  - apply fend_groups; [discriminate|]. eapply groups_paren_blanks. exact Hs.
Qed.

Lemma fend_term tm t : eoft tm t -> fend (render_term tm ++ t).
Proof.
  intros H. destruct tm as [[|]|x c| |x]; cbn [render_term render_nl app].
  - apply fend_crlf.
  - apply fend_cons. right. reflexivity.
  - apply fend_cons. left. reflexivity.
  - rewrite (H eq_refl). apply fend_nil.
  - apply fend_cons. left. reflexivity.
Qed.

Lemma fend_eol e p t : eol_ok p e = true -> eoft (e_term e) t -> fend (render_eol e ++ t).
Proof.
  intros He Ht. unfold render_eol. rewrite <- app_assoc.
  destruct (sep_empty (e_sep e)) eqn:Em.
  - unfold sep_empty in Em. unfold render_sep. destruct (s_groups (e_sep e)); [|discriminate].
    destruct (s_tail (e_sep e)); [|discriminate]. cbn [flat_map app]. apply fend_term. exact Ht.
  - unfold eol_ok in He. destruct (sep_paren p (e_sep e)) as [p'|] eqn:Hs; [|discriminate].
    eapply fend_sep; eassumption.
Qed.

(* ---- combinators for actions that look without consuming -------------------------------------------------------------- *)

Lemma runs_peek {A B} (T : bytes -> Prop) (m : M A) (f : A -> M B) a s b b' v :
  (forall r t, r_rest r = s ++ t -> T t -> m r = Ok (a, r)) -> runs T (f a) s b b' v ->
  runs T (bindM m f) s b b' v.
Proof. intros Hm Hf r t E P W Ht. unfold bindM. rewrite (Hm r t E Ht). apply Hf; assumption. Qed.

Lemma runsN_0 {A} (T : bytes -> Prop) (m : M A) s b b' v : runsN 0 T m s b b' v.
Proof. intros r t _ _ _ L. lia. Qed.

Lemma runs_try_ok {A} (T : bytes -> Prop) (m : M A) s b b' v :
  runs T m s b b' v -> runs T (try_ok m) s b b' (Some v).
Proof.
  intros H r t E P W Ht. destruct (H r t E P W Ht) as (r' & F & Q). exists r'. unfold try_ok. rewrite F. auto.
Qed.

Lemma try_ok_fails {A} (m : M A) r p k : m r = Err (ZErr p k) -> try_ok m r = Ok (None, r).
Proof. intros H. unfold try_ok. rewrite H. reflexivity. Qed.

(* ---- read_field on a token ------------------------------------------------------------------------------------------------ *)

Definition tokch (c : N) : bool := plainb c && (c <? 128).

Lemma tokch_plain tok : forallb tokch tok = true -> forallb plainb tok = true.
Proof.
  rewrite !forallb_forall. intros H c Hc. specialize (H c Hc). unfold tokch in H. apply andb_true_iff in H. tauto.
Qed.

Lemma plain_no_nl tok : forallb plainb tok = true -> Forall (fun c => c <> 10) tok.
Proof.
  rewrite forallb_forall, Forall_forall. intros H c Hc. specialize (H c Hc). apply plainb_spec in H. tauto.
Qed.

Lemma scan_field_tok : forall tok t len, forallb plainb tok = true -> fend t ->
  len + N.of_nat (length tok) <= 65536 -> scan_field (tok ++ t) len = Ok (len + N.of_nat (length tok)).
Proof.
  induction tok as [|c tok IH]; intros t len Hp Ht Hl.
  - cbn [app length]. unfold fend in Ht. destruct t as [|d t]; cbn [scan_field]; rewrite Ht; f_equal; lia.
  - cbn [forallb] in Hp. apply andb_true_iff in Hp. destruct Hp as [Hc Hp].
    cbn [app scan_field]. pose proof (fstart_plain c (tok ++ t) Hc) as Hf. unfold fstart in Hf. rewrite Hf.
    change MAX_READ_FIELD_SIZE with 65536. cbn [length] in Hl.
    destruct (65536 <? len + 1) eqn:E; [apply N.ltb_lt in E; lia|].
    rewrite IH; [f_equal; cbn [length]; lia|exact Hp|exact Ht|lia].
Qed.

Lemma utf8_ascii s : forallb (fun c => c <? 128) s = true -> utf8_valid s = true.
Proof.
  induction s as [|c s IH]; [reflexivity|]. cbn [forallb]. intros H. apply andb_true_iff in H. destruct H as [Hc Hs].
  cbn [utf8_valid]. rewrite Hc. apply IH. exact Hs.
Qed.

Lemma tokch_ascii tok : forallb tokch tok = true -> forallb (fun c => c <? 128) tok = true.
Proof.
  rewrite !forallb_forall. intros H c Hc. specialize (H c Hc). unfold tokch in H. apply andb_true_iff in H. tauto.
Qed.

Theorem read_field_runs {T E} (parse : bytes -> T + E) k tok v b :
  forallb tokch tok = true -> N.of_nat (length tok) <= 65536 -> parse tok = inl v ->
  runs fend (read_field parse k) tok b b v.
Proof.
  intros Hc Hl Hp r t Er P W Ht. unfold read_field.
  rewrite Er, (scan_field_tok tok t 0 (tokch_plain _ Hc) Ht) by lia.
  rewrite N.add_0_l, Nat2N.id, firstn_app_exact, (utf8_ascii _ (tokch_ascii _ Hc)), Hp.
  eexists. split; [reflexivity|]. subst b. apply post_adv; [exact Er|]. apply plain_no_nl, tokch_plain. exact Hc.
Qed.

Theorem read_field_fails {T E} (parse : bytes -> T + E) k tok e r t :
  forallb tokch tok = true -> N.of_nat (length tok) <= 65536 -> parse tok = inr e ->
  r_rest r = tok ++ t -> fend t -> read_field parse k r = Err (ZErr (r_pos r) (k e)).
Proof.
  intros Hc Hl Hp Er Ht. unfold read_field.
  rewrite Er, (scan_field_tok tok t 0 (tokch_plain _ Hc) Ht) by lia.
  rewrite N.add_0_l, Nat2N.id, firstn_app_exact, (utf8_ascii _ (tokch_ascii _ Hc)), Hp. reflexivity.
Qed.

(* ---- expect_field ------------------------------------------------------------------------------------------------------------ *)

Lemma nth_error_app_len {A} (a t : list A) k : nth_error (a ++ t) (length a + k) = nth_error t k.
Proof. rewrite nth_error_app2 by lia. f_equal. lia. Qed.

Lemma at_field_end_at_app a t : at_field_end_at (a ++ t) (length a) = at_field_end_at t 0.
Proof.
  unfold at_field_end_at, get_eol_at. rewrite (nth_error_app_len a t 1).
  pose proof (nth_error_app_len a t 0) as H0. rewrite Nat.add_0_r in H0. rewrite H0. reflexivity.
Qed.

Lemma expect_field_yes fld cmp b : cmp fld fld = true -> Forall (fun c => c <> 10) fld ->
  runs fend (expect_field_impl fld cmp) fld b b true.
Proof.
  intros Hc Hn r t E P W Ht. unfold expect_field_impl.
  rewrite E, firstn_app_exact, Nat.eqb_refl, Hc, at_field_end_at_app. unfold fend in Ht. rewrite Ht. cbn [bind].
  eexists. split; [reflexivity|]. subst b. apply post_adv; assumption.
Qed.

(* the field goes on after the expected word *)
Lemma expect_field_cont fld cmp r c l : r_rest r = fld ++ c :: l -> plainb c = true ->
  expect_field_impl fld cmp r = Ok (false, r).
Proof.
  intros E Hc. unfold expect_field_impl. rewrite E, firstn_app_exact, Nat.eqb_refl, at_field_end_at_app.
  pose proof (fstart_plain c l Hc) as Hf. unfold fstart in Hf. rewrite Hf. cbn [bind].
  destruct (cmp fld fld); reflexivity.
Qed.

Lemma expect_field_differs fld cmp r :
  cmp (firstn (length fld) (r_rest r)) fld = false -> expect_field_impl fld cmp r = Ok (false, r).
Proof.
  intros H. unfold expect_field_impl. rewrite H. destruct (_ =? _)%nat; reflexivity.
Qed.

Lemma bytes_eqb_head c d a b : c <> d -> bytes_eqb (c :: a) (d :: b) = false.
Proof. intros H. cbn [bytes_eqb]. apply N.eqb_neq in H. rewrite H. reflexivity. Qed.

(* ---- finite sweeps over the octets ----------------------------------------------------------------------------------------------- *)

Definition octets256 : list N := map N.of_nat (seq 0 256).

Lemma sweep256 (P : N -> bool) : forallb P octets256 = true -> forall c, c < 256 -> P c = true.
Proof.
  intros H c Hc. rewrite forallb_forall in H. apply H. unfold octets256.
  rewrite <- (N2Nat.id c). apply in_map. apply in_seq. lia.
Qed.

Lemma runsN_bind_l {A B} n (T1 T2 : bytes -> Prop) (m : M A) (f : A -> M B) s1 s2 b b1 b2 v1 v2 :
  runsN n T1 m s1 b b1 v1 -> (forall t, T2 t -> T1 (s2 ++ t)) -> runs T2 (f v1) s2 b1 b2 v2 ->
  runsN n T2 (bindM m f) (s1 ++ s2) b b2 v2.
Proof.
  intros H1 HT H2 r t E P W L Ht. rewrite <- app_assoc in E.
  destruct (H1 r (s2 ++ t) E P W L (HT t Ht)) as (r1 & E1 & P1).
  pose proof (post_wfr _ _ _ _ _ W E P1) as W1.
  destruct P1 as (A1 & A2 & A3 & A4).
  destruct (H2 r1 t A1 A2 W1 Ht) as (r2 & E2 & P2).
  exists r2. unfold bindM. rewrite E1. split; [exact E2|].
  eapply post_trans; [|exact P2]. unfold post. auto.
Qed.

Lemma runsN_app_nil {A} n (T : bytes -> Prop) (m : M A) s b b' v : runsN n T m (s ++ []) b b' v -> runsN n T m s b b' v.
Proof. rewrite app_nil_r. auto. Qed.

(* ---- the same with a predicate on the value (for results that carry a position) ------------------------------------------- *)

Definition runsQ {A} (T : bytes -> Prop) (m : M A) (s : bytes) (b b' : bool) (Q : A -> Prop) : Prop :=
  forall r t, r_rest r = s ++ t -> r_paren r = b -> wfr r -> T t ->
  exists r' v, m r = Ok (v, r') /\ post r r' s t b' /\ Q v.

Lemma runsQ_of_runs {A} (T : bytes -> Prop) (m : M A) s b b' v (Q : A -> Prop) : runs T m s b b' v -> Q v -> runsQ T m s b b' Q.
Proof. intros H HQ r t E P W Ht. destruct (H r t E P W Ht) as (r' & F & Po). eauto. Qed.

Lemma runsQ_eq {A} (T : bytes -> Prop) (m m' : M A) s b b' Q : (forall r, m r = m' r) -> runsQ T m' s b b' Q -> runsQ T m s b b' Q.
Proof. intros Hm H r t E P W Ht. rewrite Hm. apply H; assumption. Qed.

Lemma runsQ_getpos {A} (T : bytes -> Prop) (f : pos -> M A) s b b' Q :
  (forall p, runsQ T (f p) s b b' Q) -> runsQ T (bindM getpos f) s b b' Q.
Proof. intros H r t E P W Ht. unfold bindM, getpos. apply H; assumption. Qed.

Lemma runs_bind_Q {A B} (T1 T2 : bytes -> Prop) (m : M A) (f : A -> M B) s1 s2 b b1 b2 v1 Q :
  runs T1 m s1 b b1 v1 -> (forall t, T2 t -> T1 (s2 ++ t)) -> runsQ T2 (f v1) s2 b1 b2 Q ->
  runsQ T2 (bindM m f) (s1 ++ s2) b b2 Q.
Proof.
  intros H1 HT H2 r t E P W Ht. rewrite <- app_assoc in E.
  destruct (H1 r (s2 ++ t) E P W (HT t Ht)) as (r1 & E1 & P1).
  pose proof (post_wfr _ _ _ _ _ W E P1) as W1.
  destruct P1 as (A1 & A2 & A3 & A4).
  destruct (H2 r1 t A1 A2 W1 Ht) as (r2 & v & E2 & P2 & HQ).
  exists r2, v. unfold bindM. rewrite E1. split; [exact E2|]. split; [|exact HQ].
  eapply post_trans; [|exact P2]. unfold post. auto.
Qed.

(* a value-predicate action followed by a plain one *)
Lemma runsQ_bind {A B} (T1 T2 : bytes -> Prop) (m : M A) (f : A -> M B) s1 s2 b b1 b2 (Q1 : A -> Prop) Q :
  runsQ T1 m s1 b b1 Q1 -> (forall t, T2 t -> T1 (s2 ++ t)) -> (forall v1, Q1 v1 -> runsQ T2 (f v1) s2 b1 b2 Q) ->
  runsQ T2 (bindM m f) (s1 ++ s2) b b2 Q.
Proof.
  intros H1 HT H2 r t E P W Ht. rewrite <- app_assoc in E.
  destruct (H1 r (s2 ++ t) E P W (HT t Ht)) as (r1 & v1 & E1 & P1 & HQ1).
  pose proof (post_wfr _ _ _ _ _ W E P1) as W1.
  destruct P1 as (A1 & A2 & A3 & A4).
  destruct (H2 v1 HQ1 r1 t A1 A2 W1 Ht) as (r2 & v & E2 & P2 & HQ).
  exists r2, v. unfold bindM. rewrite E1. split; [exact E2|]. split; [|exact HQ].
  eapply post_trans; [|exact P2]. unfold post. auto.
Qed.

Lemma runs_of_runsQ {A} (T : bytes -> Prop) (m : M A) s b b' v : runsQ T m s b b' (fun x => x = v) -> runs T m s b b' v.
Proof. intros H r t E P W Ht. destruct (H r t E P W Ht) as (r' & x & F & Po & ->). eauto. Qed.

Lemma bindM_assoc {A B C} (m : M A) (f : A -> M B) (g : B -> M C) r :
  bindM (bindM m f) g r = bindM m (fun x => bindM (f x) g) r.
Proof. unfold bindM. destruct (m r) as [[a r']|e|]; reflexivity. Qed.

Lemma runsN_eq {A} n (T : bytes -> Prop) (m m' : M A) s b b' v : (forall r, m r = m' r) -> runsN n T m' s b b' v -> runsN n T m s b b' v.
Proof. intros Hm H r t E P W L Ht. rewrite Hm. apply H; assumption. Qed.
