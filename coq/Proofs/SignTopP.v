(* The extended composed server model (Model/ServerWT.v: handle_message_wt) WITHOUT the [unverified] hypothesis of
   Proofs/ComposeTsigTopP.v: for every verifier, and every hmac whose output is an octet string of the algorithm's
   output size, the responses signed in TsigMode::Response (BADTIME; a verified request answered NOTIMP / REFUSED /
   SERVFAIL / FORMERR) are produced in octets, never a Panic, within the limit.  A verified request answered out of
   a Loaded zone stays abstract (RAbs), as in Model/ServerWT.v. *)
From QV Require Import Base.ListX Gen.Consts Model.NameWire Spec.NameWireS Spec.NameRepr Spec.ReaderS Model.Reader Model.RdataLite
  Model.Server Model.ServerW Model.ServerWT Proofs.ReaderP Proofs.ServerP Proofs.ServerLimitP Proofs.ServerTsigP
  Model.MsgWriter Model.ZoneTree Model.Query Model.QueryW
  Spec.MsgWriterS Spec.RdataFormatS Spec.RespS Spec.TsigRespS
  Proofs.MsgWriterNameP Proofs.RdNameP Proofs.QueryNameP Proofs.ComposeTraceP Proofs.ComposeTopP Proofs.ComposeSerP Proofs.ComposeSrvP
  Proofs.ComposeTsigP Proofs.ComposeTsigWfP Proofs.ComposeTsigTopP Proofs.SignFinishP Proofs.SignSerP Proofs.SignDecP
  Spec.TsigSignS.
From QV Require Model.TsigMsg.
Local Open Scope nat_scope.

Lemma tsig_mac_len rd : wf_bytes rd -> (N.of_nat (length (tsig_mac rd)) <= 65535)%N.
Proof.
  intros Hwf. unfold tsig_mac. destruct (RdataLite.get16 rd (tsig_alg_len rd + 8)) as [n|] eqn:G; [|simpl; lia].
  pose proof (get16_lt _ _ _ Hwf G) as Hn. unfold slice. rewrite firstn_length. lia.
Qed.

Lemma alg_wire_labels a : nm_wire (nm_lower (Server.wire_labels (alg_name_wire a))) = TsigMsg.alg_name (tsig_alg_of a).
Proof. destruct a; vm_compute; reflexivity. Qed.

Lemma fields_of_inv now t f : tsig_fields_of now t = Some f ->
  tf_alg f = Server.wire_labels (mode_alg_wire (t_mode t)) /\ tf_error f = Server.t_error t.
Proof.
  unfold tsig_fields_of. destruct (TsigMsg.time_signed_of_unix now); [|discriminate]. destruct (req_origid _); [|discriminate].
  destruct (if (Server.t_error t =? XRC_BADTIME)%N then _ else _); [|discriminate]. intros H; inversion H. auto.
Qed.

(* the TSIG record of a response signed in TsigMode::Response: the RFC 8945 fields, a MAC of the algorithm's output
   size, and that MAC is the one PreparedTsigRr::sign_response returns for the response's octets before the record *)
Definition signed_record (hmac : TsigMsg.alg -> bytes -> bytes -> bytes) (f : tsig_fields) (a : Server.tsig_alg)
           (sec rmac : bytes) (edns : bool) (len : nat) (b : bytes) : Prop :=
  exists c5 mac rd,
    signed_tsig_response (firstn len b) edns (tf_key f) (nm_lower (tf_alg f)) (tf_time f) TSIG_FUDGE mac (tf_origid f) (tf_error f)
      (if (tf_error f =? 18)%N then tf_stime f else []) /\
    length mac = alg_output_size a /\ c5 <= len /\
    TsigMsg.sign hmac (TsigMsg.mkPrepared (nm_wire (nm_lower (tf_key f))) (tf_time f) TSIG_FUDGE (tf_origid f) (tf_error f) (tf_stime f))
                 (firstn c5 (firstn len b)) (TsigMsg.SResponse rmac) (tsig_alg_of a) sec = Ok (rd, mac).

Definition tsig_record_ok (hmac : TsigMsg.alg -> bytes -> bytes -> bytes) (t : tsig_out) (f : tsig_fields)
           (edns : bool) (len : nat) (b : bytes) : Prop :=
  match t_mode t with
  | TUnsigned _ => unsigned_tsig_response (firstn len b) edns (tf_key f) (nm_lower (tf_alg f)) (tf_time f) TSIG_FUDGE
                     (tf_origid f) (tf_error f) []
  | TResponse a sec rmac => signed_record hmac f a sec rmac edns len b
  end.

Section TopS.
Variable hmac : TsigMsg.alg -> bytes -> bytes -> bytes.
Hypothesis hmac_len : forall a k d, length (hmac a k d) = TsigMsg.output_size a.
Hypothesis hmac_wf : forall a k d, wf_bytes (hmac a k d).
Variable verify : tsig_verifier.
Variable cfg : config.
Variable buf : bytes.
Hypothesis Hcfg : wf_cfg cfg.
Hypothesis Hbuf : length buf = c_buflen cfg.
Hypothesis Hnow : (c_now cfg < 281474976710656)%N.

(* the response [w'] (the pre-scan's [w], possibly with another RCODE) carries SIGNING TSIG settings *)
Theorem abs_wt_signed req w w' t a sec mac : wf_bytes req -> early_or_clean cfg req w ->
  Server.w_question w' = Server.w_question w -> tsig_post verify w' -> lim_ok cfg req w' ->
  Server.w_tsig w' = Some t -> t_mode t = TResponse a sec mac ->
  exists len b f,
    abs_wt hmac cfg buf w' = Ok (ROctets len b) /\ len <= Server.w_limit w' /\
    tsig_fields_of (c_now cfg) t = Some f /\
    wf_response (firstn len b) = true /\ signed_record hmac f a sec mac (edns_flag w') len b.
Proof.
  intros Hwf Hec Eq (Pc & Pt) (Lb & Ll) Et Em. rewrite Et in Pt. destruct Pt as (Pfit & Psrc & _).
  pose proof (buf_512 cfg buf Hcfg Hbuf) as Hb512.
  pose proof (abs_question cfg buf Hcfg Hbuf req w w' Hwf Hec Eq) as Hq.
  destruct (tsig_fields_total verify (c_now cfg) t Hnow Psrc) as (f & Ef & Hf).
  set (tcp := is_tcp (c_transport cfg)).
  pose proof Hcfg as (H512 & H64k & Hbl).
  assert (HL0 : first_limit tcp buf = ServerLimitP.L0 cfg).
  { unfold first_limit, ServerLimitP.L0, tcp, is_tcp. rewrite Hbuf. destruct (c_transport cfg); reflexivity. }
  assert (HL0ge : 512 <= ServerLimitP.L0 cfg).
  { unfold ServerLimitP.L0, tcp_limit, udp_limit in *. destruct (c_transport cfg); lia. }
  assert (Hlims : (Server.w_edns w' <> None -> tcp = false -> first_limit tcp buf <= Server.w_limit w') /\
                  wlim buf w' tcp = Server.w_limit w').
  { unfold wlim. rewrite HL0. destruct Ll as [Ll|(Tr & Ed & their & _ & Ll)].
    - split; [intros _ _; lia|]. rewrite Ll. destruct (Server.w_edns w'); [|reflexivity]. destruct tcp; [reflexivity|].
      unfold ServerLimitP.L0. rewrite Hbuf. lia.
    - assert (Hn : 512 <= negotiated cfg their /\ negotiated cfg their <= c_buflen cfg).
      { unfold negotiated. rewrite Tr in Hbl. lia. }
      assert (HU : ServerLimitP.L0 cfg = 512).
      { unfold ServerLimitP.L0. rewrite Tr. unfold udp_limit. rewrite Tr in Hbl. change (N.to_nat 512) with 512. lia. }
      assert (Ht : tcp = false) by (unfold tcp, is_tcp; rewrite Tr; reflexivity).
      split; [intros _ _; lia|]. destruct (Server.w_edns w'); [|exfalso; apply Ed; reflexivity].
      rewrite Ht, Hbuf. lia. }
  destruct Hlims as [Hlim Hwl].
  assert (Hcur : wcur w' = Server.w_cursor w').
  { rewrite Pc. unfold wcur, qcur. destruct (Server.w_question w') as [q|] eqn:Eqq; [|reflexivity].
    assert (Hqw : Server.w_question w = Some q) by congruence. rewrite (qname_len cfg req w q Hwf Hec Hqw). lia. }
  assert (Hres : wres w' = reserved w') by reflexivity.
  pose proof Psrc as (Wrd & _ & _ & M). rewrite Em in M. destruct M as (_ & Emac & Mres).
  assert (Hrm : (N.of_nat (length mac) <= 65535)%N) by (rewrite Emac; apply tsig_mac_len; exact Wrd).
  assert (Hal : length (nm_wire (tf_alg f)) = length (alg_name_wire a)).
  { rewrite (fo_alen _ _ Hf), Em. reflexivity. }
  assert (Hfit : wcur w' + (length (nm_wire (tf_key f)) + length (nm_wire (tf_alg f)) + 26 +
                            (if (tf_error f =? 18)%N then 6 else 0) + alg_output_size a) + wres w' <= wlim buf w' tcp).
  { rewrite (fo_klen _ _ Hf), Hal, (fo_err _ _ Hf), Hcur, Hres, Hwl. unfold badtime_extra in Mres.
    change XRC_BADTIME with 18%N in Mres. lia. }
  assert (Halg : nm_wire (nm_lower (tf_alg f)) = TsigMsg.alg_name (tsig_alg_of a)).
  { destruct (fields_of_inv _ _ _ Ef) as [Ea _]. rewrite Ea, Em. apply alg_wire_labels. }
  destruct (ser_signed_wf hmac hmac_len hmac_wf buf Hb512 w' Hq tcp t f Hf a sec mac Hrm Halg Hlim Hfit)
    as (w1 & w2 & len & b & c5 & mc & rd & E1 & E2 & EF & Hlen & Hwfr & Hsr & Hml & Hc5 & Hsg).
  exists len, b, f. split.
  - unfold abs_wt. rewrite Et. unfold ser_tsig. fold tcp. rewrite E1, Ef, Em, E2, EF. reflexivity.
  - split; [lia|]. split; [exact Ef|]. split; [exact Hwfr|]. exists c5, mc, rd. unfold other_of in Hsr. auto.
Qed.

End TopS.

(* ---------------------------------------------------------------- the server level *)
Section SrvS.
Variable hmac : TsigMsg.alg -> bytes -> bytes -> bytes.
Hypothesis hmac_len : forall a k d, length (hmac a k d) = TsigMsg.output_size a.
Hypothesis hmac_wf : forall a k d, wf_bytes (hmac a k d).
Variable zones : nat -> option zone.
Variable negttl : N -> N -> N.
Variable answer : answer_fn.
Variable verify : tsig_verifier.
Variable cfg : config.
Variable buf : bytes.
Hypothesis Hcfg : wf_cfg cfg.
Hypothesis Hbuf : length buf = c_buflen cfg.
Hypothesis Hnow : (c_now cfg < 281474976710656)%N.

(* what the extended model does with an abstract response [w'] derived from the pre-scan's [w]: every mode *)
Lemma abs_wt_cases_all req w w' : wf_bytes req -> early_or_clean cfg req w -> Server.w_question w' = Server.w_question w ->
  tsig_post verify w' -> lim_ok cfg req w' ->
  match Server.w_tsig w' with
  | None => abs_wt hmac cfg buf w' = abs_w cfg buf w'
  | Some t =>
    exists len b f,
      abs_wt hmac cfg buf w' = Ok (ROctets len b) /\ len <= Server.w_limit w' /\
      tsig_fields_of (c_now cfg) t = Some f /\
      wf_response (firstn len b) = true /\ tsig_record_ok hmac t f (edns_flag w') len b
  end.
Proof.
  intros Hwf Hec Eq P L. destruct (Server.w_tsig w') as [t|] eqn:Et.
  - unfold tsig_record_ok. destruct (t_mode t) as [aw|a sec mac] eqn:Em.
    + destruct (abs_wt_unsigned hmac verify cfg buf Hcfg Hbuf Hnow req w w' t aw Hwf Hec Eq P L Et Em)
        as (len & b & f & E & Hl & Hw & Ef & Hu). exists len, b, f. auto.
    + exact (abs_wt_signed hmac hmac_len hmac_wf verify cfg buf Hcfg Hbuf Hnow req w w' t a sec mac Hwf Hec Eq P L Et Em).
  - unfold abs_wt. rewrite Et. reflexivity.
Qed.

Lemma abs_wt_ok req w w' : wf_bytes req -> early_or_clean cfg req w -> Server.w_question w' = Server.w_question w ->
  tsig_post verify w' -> lim_ok cfg req w' -> exists x, (let* r := abs_wt hmac cfg buf w' in Ok (Some r)) = Ok x.
Proof.
  intros Hwf Hec Eq P L. pose proof (abs_wt_cases_all req w w' Hwf Hec Eq P L) as C.
  destruct (Server.w_tsig w') as [t|].
  - destruct C as (len & b & f & -> & _). eexists; reflexivity.
  - rewrite C. destruct (abs_total cfg buf Hcfg Hbuf req w w' Hwf Hec Eq) as (x & ->). eexists; reflexivity.
Qed.

(* C01: no request, whatever the verifier says, makes the extended composed model panic *)
Theorem handle_message_wt_total_all Q req : catalog_okQ Q cfg zones -> wf_bytes req ->
  exists x, handle_message_wt hmac zones negttl answer verify cfg buf req = Ok x.
Proof.
  intros Hcat Hwf. destruct (prescan_facts verify cfg req Hcfg Hwf) as (p & Ep & Post).
  pose proof (prescan_tsig verify cfg req p Hcfg Hwf Ep) as PT. pose proof (prescan_lim verify cfg req p Ep) as PL.
  destruct (handle_message_w_total zones negttl answer verify cfg buf Hcfg Hbuf Q Hcat req Hwf) as (x0 & E0).
  unfold handle_message_wt. unfold handle_message_w in E0. rewrite Ep in *. cbn [bind] in *.
  destruct p as [|w|opc w]; [eexists; reflexivity| |].
  - apply (abs_wt_ok req w w Hwf Post eq_refl PT PL).
  - destruct Post as [Hec _]. destruct PT as [PT _].
    assert (HR : forall rc, exists x, (let* r := abs_wt hmac cfg buf (Server.set_rcode w rc) in Ok (Some r)) = Ok x).
    { intros rc. apply (abs_wt_ok req w (Server.set_rcode w rc) Hwf Hec eq_refl); [apply post_set_rcode; exact PT|apply lim_set_rcode; exact PL]. }
    destruct (opc =? OPCODE_QUERY)%N eqn:Eo; [|apply HR].
    unfold handle_query_wt. destruct (Server.w_tsig w) as [t0|] eqn:Etw; [|exists x0; exact E0].
    unfold handle_query_t. destruct (Server.w_question w) as [q|]; [|apply HR].
    destruct (existsb _ _); [apply HR|]. destruct (Reader.q_class q =? QCLASS_ANY)%N; [apply HR|].
    destruct (cat_lookup _ _ _ _) as [e|]; [|apply HR].
    destruct (e_kind e); [eexists; reflexivity|apply HR|apply HR].
Qed.

(* C04: a response that carries TSIG settings is produced in octets within its limit - or stays abstract (a verified
   request answered out of a Loaded zone: handle_query_t) *)
Theorem tsig_response_limit_all req wa t : wf_bytes req ->
  Server.handle_message answer verify cfg req = Ok (Some wa) -> Server.w_tsig wa = Some t ->
  handle_message_wt hmac zones negttl answer verify cfg buf req = Ok (Some (RAbs wa)) \/
  exists len b f,
    handle_message_wt hmac zones negttl answer verify cfg buf req = Ok (Some (ROctets len b)) /\
    len <= Server.w_limit wa /\ lim_ok cfg req wa /\ tsig_fields_of (c_now cfg) t = Some f /\
    wf_response (firstn len b) = true /\ tsig_record_ok hmac t f (edns_flag wa) len b.
Proof.
  intros Hwf HA Et. pose proof (handle_message_limit answer verify cfg req wa HA) as PLa.
  destruct (prescan_facts verify cfg req Hcfg Hwf) as (p & Ep & Post).
  pose proof (prescan_tsig verify cfg req p Hcfg Hwf Ep) as PT. pose proof (prescan_lim verify cfg req p Ep) as PL.
  unfold Server.handle_message in HA. unfold handle_message_wt. rewrite Ep in *. cbn [bind] in *.
  assert (HC : forall w w', early_or_clean cfg req w -> Server.w_question w' = Server.w_question w ->
            tsig_post verify w' -> lim_ok cfg req w' -> Server.w_tsig w' = Some t ->
            exists len b f, (let* r := abs_wt hmac cfg buf w' in Ok (Some r)) = Ok (Some (ROctets len b)) /\
              len <= Server.w_limit w' /\ lim_ok cfg req w' /\ tsig_fields_of (c_now cfg) t = Some f /\
              wf_response (firstn len b) = true /\ tsig_record_ok hmac t f (edns_flag w') len b).
  { intros w w' Hec Eq P L Etw. pose proof (abs_wt_cases_all req w w' Hwf Hec Eq P L) as C. rewrite Etw in C.
    destruct C as (len & b & f & E & Hl & Ef & Hw & Hr). exists len, b, f. rewrite E. cbn [bind]. auto 8. }
  destruct p as [|w|opc w]; [discriminate| |].
  - inversion HA; subst wa. right. exact (HC w w Post eq_refl PT PL Et).
  - destruct Post as [Hec _]. destruct PT as [PT _].
    assert (HR : forall rc, Server.w_tsig w = Some t ->
              exists len b f, (let* r := abs_wt hmac cfg buf (Server.set_rcode w rc) in Ok (Some r)) = Ok (Some (ROctets len b)) /\
                len <= Server.w_limit (Server.set_rcode w rc) /\ lim_ok cfg req (Server.set_rcode w rc) /\
                tsig_fields_of (c_now cfg) t = Some f /\
                wf_response (firstn len b) = true /\ tsig_record_ok hmac t f (edns_flag (Server.set_rcode w rc)) len b).
    { intros rc Etw. apply (HC w (Server.set_rcode w rc) Hec eq_refl); [apply post_set_rcode; exact PT|apply lim_set_rcode; exact PL|exact Etw]. }
    destruct (opc =? OPCODE_QUERY)%N eqn:Eo; inversion HA as [Ewa]; subst wa; [|right; apply HR; exact Et].
    assert (Etw : Server.w_tsig w = Some t).
    { rewrite <- Et. unfold handle_query. destruct (Server.w_question w) as [q|]; [|reflexivity].
      destruct (existsb _ _); [reflexivity|]. destruct (Reader.q_class q =? QCLASS_ANY)%N; [reflexivity|].
      destruct (cat_lookup _ _ _ _) as [e|]; [|reflexivity]. destruct (e_kind e); try reflexivity.
      unfold apply_body. destruct (b_rcode _); reflexivity. }
    unfold handle_query_wt. rewrite Etw. unfold handle_query_t, handle_query.
    destruct (Server.w_question w) as [q|]; [|right; apply HR; exact Etw].
    destruct (existsb _ _); [right; apply HR; exact Etw|]. destruct (Reader.q_class q =? QCLASS_ANY)%N; [right; apply HR; exact Etw|].
    destruct (cat_lookup _ _ _ _) as [e|]; [|right; apply HR; exact Etw].
    destruct (e_kind e); [left; reflexivity|right; apply HR; exact Etw|right; apply HR; exact Etw].
Qed.

(* C02: every octet response of the extended composed model is well formed, whatever the verifier says *)
Theorem handle_message_wt_wf_all req len b : catalog_valid cfg zones -> wf_bytes req ->
  handle_message_wt hmac zones negttl answer verify cfg buf req = Ok (Some (ROctets len b)) ->
  wf_response (firstn len b) = true.
Proof.
  intros Hcat Hwf. destruct (prescan_facts verify cfg req Hcfg Hwf) as (p & Ep & Post).
  pose proof (prescan_tsig verify cfg req p Hcfg Hwf Ep) as PT. pose proof (prescan_lim verify cfg req p Ep) as PL.
  pose proof (handle_message_w_wf zones negttl answer verify cfg buf req len b Hcfg Hbuf Hcat Hwf) as W0.
  unfold handle_message_wt. unfold handle_message_w in W0. rewrite Ep in *. cbn [bind] in *.
  assert (HA : forall w w', early_or_clean cfg req w -> Server.w_question w' = Server.w_question w ->
            tsig_post verify w' -> lim_ok cfg req w' ->
            (let* r := abs_wt hmac cfg buf w' in Ok (Some r)) = Ok (Some (ROctets len b)) -> wf_response (firstn len b) = true).
  { intros w w' Hec Eq P L. pose proof (abs_wt_cases_all req w w' Hwf Hec Eq P L) as C.
    destruct (Server.w_tsig w') as [t|].
    - destruct C as (len' & b' & f & -> & _ & _ & Hw & _). cbn [bind]. intros H; inversion H; subst. exact Hw.
    - rewrite C. destruct (abs_w cfg buf w') as [x|e|] eqn:Ea; cbn [bind]; try discriminate.
      intros H; inversion H; subst x. exact (abs_wf cfg buf Hcfg Hbuf req w w' len b Hwf Hec Eq Ea). }
  destruct p as [|w|opc w]; [discriminate| |].
  - apply (HA w w Post eq_refl PT PL).
  - destruct Post as [Hec _]. destruct PT as [PT _].
    assert (HR : forall rc, (let* r := abs_wt hmac cfg buf (Server.set_rcode w rc) in Ok (Some r)) = Ok (Some (ROctets len b)) ->
              wf_response (firstn len b) = true).
    { intros rc. apply (HA w (Server.set_rcode w rc) Hec eq_refl); [apply post_set_rcode; exact PT|apply lim_set_rcode; exact PL]. }
    destruct (opc =? OPCODE_QUERY)%N eqn:Eo; [|apply HR].
    unfold handle_query_wt. destruct (Server.w_tsig w) as [t0|] eqn:Etw; [|exact W0].
    unfold handle_query_t. destruct (Server.w_question w) as [q|]; [|apply HR].
    destruct (existsb _ _); [apply HR|]. destruct (Reader.q_class q =? QCLASS_ANY)%N; [apply HR|].
    destruct (cat_lookup _ _ _ _) as [e|]; [|apply HR].
    destruct (e_kind e); [discriminate|apply HR|apply HR].
Qed.

End SrvS.
