(* Preservation of [Inv]: OneshotHandle::drop / RespawnableHandle::drop (end_thread, respawn). *)
From Coq Require Import Lia Permutation.
From QV Require Import Model.Pool Proofs.PoolLemmas Proofs.PoolInv.

Lemma inv_drop s i o s' : Inv s -> step true s (LDrop i o) = Some s' -> Inv s'.
Proof.
  intros I H. simpl in H.
  destruct (glock s) eqn:Egl; [discriminate|].
  unfold drop_enter in H.
  destruct (nth_error (thr s) i) as [pi|] eqn:E; [|discriminate].
  open_inv I. nth_facts E.
  assert (Hlive : is_live pi = true).
  { destruct pi as [| | | | | | | |[]| | | | | | | | | | | | |]; try discriminate; reflexivity. }
  rewrite Hlive in *; simpl in *.
  destruct (tcount s) as [|tc] eqn:Et; [exfalso; lia|].
  destruct pi as [| | | | | | | |[]| | | | | | | | | | | | |]; try discriminate; simpl in H.
  - (* WDrop Perm *)
    destruct (gsd s) eqn:Egsd; simpl in H.
    + destruct o; try discriminate; inversion H; subst s'; clear H.
      unfold end_thread; simpl; rewrite Et, Egsd; simpl.
      destruct (tc =? 0) eqn:Etc; [apply Nat.eqb_eq in Etc | apply Nat.eqb_neq in Etc]; inv_case HT HS.
    + destruct o; try discriminate; inversion H; subst s'; clear H;
        unfold end_thread, respawn; simpl; rewrite ?Et, ?Egsd; simpl; inv_case HT HS.
  - (* WDrop Aux *)
    destruct o; try discriminate; inversion H; subst s'; clear H.
    unfold end_thread; simpl; rewrite Et; simpl.
    destruct (gsd s) eqn:Egsd; simpl; [|inv_case HT HS].
    destruct (tc =? 0) eqn:Etc; [apply Nat.eqb_eq in Etc | apply Nat.eqb_neq in Etc]; inv_case HT HS.
  - (* RWoken *)
    destruct (gsd s) eqn:Egsd; simpl in H.
    + destruct o; try discriminate; inversion H; subst s'; clear H.
      unfold end_thread; simpl; rewrite Et, Egsd; simpl.
      destruct (tc =? 0) eqn:Etc; [apply Nat.eqb_eq in Etc | apply Nat.eqb_neq in Etc]; inv_case HT HS.
    + destruct o; try discriminate; inversion H; subst s'; clear H;
        unfold end_thread, respawn; simpl; rewrite ?Et, ?Egsd; simpl; inv_case HT HS.
Qed.
