(* C16 — (1) the executable text oracle [spec_of_text] (tokenize, split at the dots, RFC 1035 limits)
   IS the declarative specification [text_denotes /\ wf_name] on ASCII text;
   (2) text with a non-ASCII character is rejected by FromStr (never accepted, never a panic). *)
From QV Require Import Base.ListX Model.NameWire Model.DecU16 Model.NameText Spec.NameWireS Spec.NameRepr Spec.NameTextS
  Proofs.NameWireP Proofs.NameLabelsP Proofs.NameTextP Model.ZfStd.

Local Open Scope N_scope.

(* ---- (1) the oracle --------------------------------------------------------------------------- *)

Lemma list_eqb_N_spec a : forall b, list_eqb_N a b = true <-> a = b.
Proof.
  induction a as [|x a IH]; intros [|y b]; cbn; try (split; [discriminate|congruence]); [tauto|].
  rewrite andb_true_iff, N.eqb_eq, IH. split; [intros [-> ->]; reflexivity|intros [= -> ->]; auto].
Qed.

Lemma wf_labelb_spec l : wf_labelb l = true <-> wf_label l.
Proof.
  unfold wf_labelb, wf_label. rewrite !andb_true_iff, wf_bytesb_spec, Nat.leb_le, Nat.leb_le. tauto.
Qed.

Lemma wf_nameb_spec ls : wf_nameb ls = true <-> wf_name ls.
Proof.
  unfold wf_nameb, wf_name. rewrite andb_true_iff, Nat.leb_le, forallb_forall, Forall_forall.
  split; intros [H1 H2]; (split; [|exact H2]); intros l Hl; apply wf_labelb_spec; apply H1; exact Hl.
Qed.

Lemma ascii_forallb s : forallb (fun c => c <? 128) s = true <-> is_ascii_text s.
Proof.
  unfold is_ascii_text. rewrite forallb_forall, Forall_forall.
  split; intros H c Hc; apply N.ltb_lt; apply H; exact Hc.
Qed.

(* splitting at the dots inverts "every label followed by a dot" *)
Lemma split_labels_sound ts : forall cur ls, split_labels ts cur = Some ls ->
  (map TOct cur ++ ts = flat_map label_toks ls)%list.
Proof.
  induction ts as [|t r IH]; intros cur ls H; cbn [split_labels] in H.
  - destruct cur; [|discriminate]. inversion H; subst. reflexivity.
  - destruct t as [v|].
    + apply IH in H. rewrite map_app, <- app_assoc in H. exact H.
    + destruct (split_labels r []) as [ls'|] eqn:E; [|discriminate]. cbn in H. inversion H; subst.
      apply IH in E. cbn [map app] in E. cbn [flat_map]. unfold label_toks at 1. rewrite <- app_assoc.
      cbn [app]. rewrite E. reflexivity.
Qed.

Lemma split_labels_octets (l : list N) : forall r cur,
  split_labels (map TOct l ++ r) cur = split_labels r (cur ++ l).
Proof.
  induction l as [|v l IH]; intros r cur; cbn [map app].
  - rewrite app_nil_r. reflexivity.
  - cbn [split_labels]. rewrite IH, <- app_assoc. reflexivity.
Qed.

Lemma split_labels_complete (ls : list label) : split_labels (flat_map label_toks ls) [] = Some ls.
Proof.
  induction ls as [|l ls IH]; [reflexivity|]. cbn [flat_map]. unfold label_toks at 1.
  rewrite <- app_assoc, split_labels_octets. cbn [app split_labels]. rewrite IH. reflexivity.
Qed.

(* "." is not the text of a name with labels *)
Lemma dot_not_labels (ls : list label) : ls <> [] -> Forall wf_label ls ->
  tokens [46] (flat_map label_toks ls) -> False.
Proof.
  intros Hne Hwf Htok. apply tokens_dot_inv in Htok. destruct ls as [|l ls']; [congruence|].
  inversion Hwf as [|? ? [Hl _] _]; subst. cbn [flat_map] in Htok. unfold label_toks in Htok.
  destruct l as [|x l]; [cbn in Hl; lia|]. cbn in Htok. destruct l; discriminate.
Qed.

Theorem spec_of_text_iff s ls :
  spec_of_text s = Some ls <-> is_ascii_text s /\ text_denotes s ls /\ wf_name ls.
Proof.
  unfold spec_of_text. split.
  - destruct (list_eqb_N s [46]) eqn:Edot.
    + apply list_eqb_N_spec in Edot. subst s. intros [= <-]. split; [repeat constructor|].
      split; [left; auto|]. split; [constructor|cbn; lia].
    + destruct (forallb (fun c => c <? 128) s) eqn:Easc; [|discriminate]. apply ascii_forallb in Easc.
      destruct (tokenize s) as [ts|] eqn:Et; [|discriminate].
      destruct (split_labels ts []) as [ls0|] eqn:Es; [|discriminate].
      destruct (negb (is_nil_l ls0) && wf_nameb ls0) eqn:Ew; [|discriminate]. intros [= <-].
      apply andb_true_iff in Ew. destruct Ew as [Hne Hwf]. apply wf_nameb_spec in Hwf.
      split; [exact Easc|]. split; [|exact Hwf]. right. split; [intros ->; discriminate|].
      apply split_labels_sound in Es. cbn [map app] in Es. subst ts.
      apply (tokenize_tokens (length s)); [lia|exact Et].
  - intros (Hasc & [[-> ->]|[Hne Htok]] & Hwf); [reflexivity|].
    destruct (list_eqb_N s [46]) eqn:Edot.
    + exfalso. apply list_eqb_N_spec in Edot. subst s. destruct Hwf as [Hwf _].
      exact (dot_not_labels ls Hne Hwf Htok).
    + apply ascii_forallb in Hasc. rewrite Hasc. rewrite (tokens_tokenize _ _ Htok), split_labels_complete.
      apply wf_nameb_spec in Hwf. rewrite Hwf. destruct ls; [congruence|reflexivity].
Qed.

(* hence FromStr = the oracle, on ASCII text *)
Theorem name_from_str_oracle s n : is_ascii_text s ->
  (name_from_str s = Ok n <-> exists ls, spec_of_text s = Some ls /\ n = name_of ls).
Proof.
  intros Hasc. rewrite (name_from_str_iff s n Hasc). split.
  - intros (ls & Hd & Hw & ->). exists ls. split; [apply spec_of_text_iff; auto|reflexivity].
  - intros (ls & Hs & ->). apply spec_of_text_iff in Hs. destruct Hs as (_ & Hd & Hw). exists ls. auto.
Qed.

(* and the oracle refuses every non-ASCII text *)
Lemma spec_of_text_ascii s ls : spec_of_text s = Some ls -> is_ascii_text s.
Proof. intros H. apply spec_of_text_iff in H. apply H. Qed.

(* ---- (2) non-ASCII text ------------------------------------------------------------------------ *)

Definition high (c : N) : Prop := 128 <= c.

(* in valid UTF-8 an octet >= 128 is never alone: a lead octet is followed by a continuation octet *)
Lemma utf8_high_pair a r : utf8_valid (a :: r) = true -> high a -> exists c1 r', r = c1 :: r' /\ high c1.
Proof.
  unfold high. intros H Ha. cbn [utf8_valid] in H.
  assert (E : (a <? 128) = false) by (apply N.ltb_ge; exact Ha). rewrite E in H.
  unfold inr_, cont in H.
  destruct ((194 <=? a) && (a <=? 223)).
  { destruct r as [|c1 r']; [discriminate|]. apply andb_true_iff in H. destruct H as [H _].
    unfold inr_ in H. apply andb_true_iff in H. destruct H as [H _]. apply N.leb_le in H. eauto. }
  destruct ((224 <=? a) && (a <=? 239)).
  { destruct r as [|c1 [|c2 r']]; try discriminate. apply andb_true_iff in H. destruct H as [H _].
    apply andb_true_iff in H. destruct H as [H _].
    exists c1, (c2 :: r'). split; [reflexivity|].
    destruct (a =? 224); [|destruct (a =? 237)]; unfold inr_ in H; apply andb_true_iff in H; destruct H as [H _];
      apply N.leb_le in H; lia. }
  destruct ((240 <=? a) && (a <=? 244)); [|discriminate].
  destruct r as [|c1 [|c2 [|c3 r']]]; try discriminate. apply andb_true_iff in H. destruct H as [H _].
  apply andb_true_iff in H. destruct H as [H _]. apply andb_true_iff in H. destruct H as [H _].
  exists c1, (c2 :: c3 :: r'). split; [reflexivity|].
  destruct (a =? 240); [|destruct (a =? 244)]; unfold inr_ in H; apply andb_true_iff in H; destruct H as [H _];
    apply N.leb_le in H; lia.
Qed.

Lemma utf8_low_tail a r : utf8_valid (a :: r) = true -> a < 128 -> utf8_valid r = true.
Proof. intros H Ha. cbn [utf8_valid] in H. apply N.ltb_lt in Ha. rewrite Ha in H. exact H. Qed.

Lemma loop_high_head fuel c r b : high c -> exists e, from_str_loop (S fuel) (c :: r) b = Err e.
Proof.
  unfold high. intros Hc. cbn [from_str_loop].
  assert (E1 : (c =? 92) = false) by (apply N.eqb_neq; lia).
  assert (E2 : (c =? 46) = false) by (apply N.eqb_neq; lia).
  assert (E3 : (128 <=? c) = true) by (apply N.leb_le; exact Hc).
  rewrite E1, E2, E3. eauto.
Qed.

(* one builder step never panics and keeps the representation invariant *)
Lemma feed1_cases b st t : brepr b st -> ast_ok st ->
  (exists b' st', feed1 b t = Ok b' /\ brepr b' st' /\ ast_ok st') \/ (exists e, feed1 b t = Err e).
Proof.
  intros Hb Hok. pose proof (feed1_step b st t Hb Hok) as H. destruct (astep st t) as [st'|].
  - destruct H as (b' & E & Hb' & Hok'). left. eauto.
  - right. exact H.
Qed.

Lemma is_digit_low c : is_dec_digit c = true -> c < 128.
Proof.
  change is_dec_digit with is_digitb. unfold is_digitb. rewrite andb_true_iff, !N.leb_le. lia.
Qed.

Lemma loop_rejects_high fuel : forall rem b st, brepr b st -> ast_ok st -> (length rem < fuel)%nat ->
  utf8_valid rem = true -> Exists high rem -> exists e, from_str_loop fuel rem b = Err e.
Proof.
  induction fuel as [|f IH]; intros rem b st Hb Hok Hf Hu Hex; [lia|].
  destruct rem as [|c r]; [inversion Hex|]. cbn [length] in Hf.
  destruct (N.lt_ge_cases c 128) as [Hc|Hc]; [|apply loop_high_head; exact Hc].
  assert (Hur : utf8_valid r = true) by (eapply utf8_low_tail; eassumption).
  assert (Hexr : Exists high r) by (inversion Hex as [? ? Hh|]; subst; [unfold high in Hh; lia|assumption]).
  cbn [from_str_loop]. destruct (c =? 92) eqn:E92.
  - (* an escape *)
    destruct r as [|a r1]; [cbn; eauto|]. cbn [parse_escape].
    destruct (is_dec_digit a) eqn:Ea.
    + destruct r1 as [|b1 [|d r3]]; try (cbn; eauto; fail).
      destruct (is_dec_digit b1 && is_dec_digit d) eqn:Ebd; [|cbn; eauto].
      apply andb_true_iff in Ebd. destruct Ebd as [Eb1 Ed].
      destruct (255 <? 100 * (a - 48) + 10 * (b1 - 48) + (d - 48)); [cbn; eauto|]. cbn [bind].
      pose proof (is_digit_low _ Ea) as La. pose proof (is_digit_low _ Eb1) as Lb. pose proof (is_digit_low _ Ed) as Ld.
      assert (Hu3 : utf8_valid r3 = true).
      { apply (utf8_low_tail d); [|exact Ld]. apply (utf8_low_tail b1); [|exact Lb]. apply (utf8_low_tail a); [exact Hur|exact La]. }
      assert (Hex3 : Exists high r3).
      { inversion Hexr as [? ? Hh|? ? H1]; subst; [unfold high in Hh; lia|].
        inversion H1 as [? ? Hh|? ? H2]; subst; [unfold high in Hh; lia|].
        inversion H2 as [? ? Hh|? ? H3]; subst; [unfold high in Hh; lia|exact H3]. }
      destruct (feed1_cases b st (TOct ((100 * (a - 48) + 10 * (b1 - 48) + (d - 48)) mod 256)) Hb Hok)
        as [(b' & st' & E & Hb' & Hok')|(e & E)]; cbn [feed1] in E; rewrite E; cbn [bind]; [|eauto].
      cbn [length Nat.add Nat.ltb Nat.leb skipn].
      apply (IH r3 b' st' Hb' Hok'); [cbn [length] in Hf; lia|exact Hu3|exact Hex3].
    + cbn [bind].
      destruct (feed1_cases b st (TOct a) Hb Hok) as [(b' & st' & E & Hb' & Hok')|(e & E)];
        cbn [feed1] in E; rewrite E; cbn [bind]; [|eauto].
      cbn [length Nat.add Nat.ltb Nat.leb skipn].
      destruct (N.lt_ge_cases a 128) as [La|Ha].
      * apply (IH r1 b' st' Hb' Hok'); [cbn [length] in Hf; lia|eapply utf8_low_tail; eassumption|].
        inversion Hexr as [? ? Hh|]; subst; [unfold high in Hh; lia|assumption].
      * (* the escape swallowed the lead octet of a multi-octet character: its continuation octet is next *)
        destruct (utf8_high_pair a r1 Hur Ha) as (c1 & r' & -> & Hc1).
        destruct f as [|f']; [cbn [length] in Hf; lia|]. apply loop_high_head. exact Hc1.
  - destruct (c =? 46) eqn:E46.
    + destruct (feed1_cases b st TDot Hb Hok) as [(b' & st' & E & Hb' & Hok')|(e & E)];
        cbn [feed1] in E; rewrite E; cbn [bind]; [|eauto].
      apply (IH r b' st' Hb' Hok'); [lia|exact Hur|exact Hexr].
    + assert (E128 : (128 <=? c) = false) by (apply N.leb_gt; exact Hc). rewrite E128.
      destruct (feed1_cases b st (TOct c) Hb Hok) as [(b' & st' & E & Hb' & Hok')|(e & E)];
        cbn [feed1] in E; rewrite E; cbn [bind]; [|eauto].
      apply (IH r b' st' Hb' Hok'); [lia|exact Hur|exact Hexr].
Qed.

(* a Rust &str (valid UTF-8) with a non-ASCII character is never accepted and never panics *)
Theorem name_from_str_rejects_non_ascii s :
  utf8_valid s = true -> ~ is_ascii_text s -> exists e, name_from_str s = Err e.
Proof.
  intros Hu Hna.
  assert (Hex : Exists high s).
  { unfold is_ascii_text in Hna. clear Hu. induction s as [|c r IHr].
    - exfalso. apply Hna. constructor.
    - destruct (N.lt_ge_cases c 128) as [Hc|Hc]; [|left; exact Hc].
      right. apply IHr. intros Hr. apply Hna. constructor; assumption. }
  unfold name_from_str. destruct s as [|c r]; [eauto|].
  destruct ((c =? 46) && is_nil r) eqn:Eroot.
  - exfalso. apply andb_true_iff in Eroot. destruct Eroot as [Ec Er]. apply N.eqb_eq in Ec. subst c.
    destruct r; [|discriminate]. inversion Hex as [? ? Hh|? ? H1]; subst; [unfold high in Hh; lia|inversion H1].
  - destruct builder_new_repr as [Hb0 Hok0].
    apply (loop_rejects_high _ _ builder_new ([], []) Hb0 Hok0); [lia|exact Hu|exact Hex].
Qed.
