(* Node::iter (pre-order walk over the nested tree) against the path view of the tree.
   This is the only place that needs induction over the nested inductive [node]. *)
From QV Require Import Base.Res Base.Octets Base.ListX Model.ZoneTree Spec.ZoneLookupS
  Proofs.ZoneBaseP Proofs.ZoneRrsetP Proofs.ZoneViewP.

(* ---- induction principle for the nested inductive *)
Definition node_ind' (P : node -> Prop)
  (H : forall nm ch d, Forall (fun kc => P (snd kc)) ch -> P (Node nm ch d)) : forall t, P t :=
  fix go (t : node) : P t :=
    match t with
    | Node nm ch d =>
      H nm ch d ((fix gol (ch : list (label * node)) : Forall (fun kc => P (snd kc)) ch :=
                    match ch with
                    | [] => Forall_nil _
                    | kc :: ch' => Forall_cons kc (go (snd kc)) (gol ch')
                    end) ch)
    end.

(* ---- unfolding node_iter *)
Definition iter_children (ch : list (label * node)) : list (name * rrset_list) :=
  flat_map (fun kc => node_iter (snd kc)) ch.

Lemma node_iter_unfold nm ch d : node_iter (Node nm ch d) = (nm, d) :: iter_children ch.
Proof.
  simpl. f_equal. unfold iter_children.
  induction ch as [|[k c] ch IH]; simpl; auto. rewrite IH. reflexivity.
Qed.

(* ---- the same walk, remembering the key path to every node *)
Definition pathed := (list label * (name * rrset_list))%type.

Fixpoint all_paths (t : node) : list pathed :=
  match t with
  | Node nm ch d =>
    ([], (nm, d)) :: (fix go (ch : list (label * node)) : list pathed :=
                        match ch with
                        | [] => []
                        | (k, c) :: ch' => map (fun px => (k :: fst px, snd px)) (all_paths c) ++ go ch'
                        end) ch
  end.

Definition child_paths (kc : label * node) : list pathed :=
  map (fun px => (fst kc :: fst px, snd px)) (all_paths (snd kc)).
Definition paths_children (ch : list (label * node)) : list pathed := flat_map child_paths ch.

Lemma all_paths_unfold nm ch d : all_paths (Node nm ch d) = ([], (nm, d)) :: paths_children ch.
Proof.
  simpl. f_equal. unfold paths_children.
  induction ch as [|[k c] ch IH]; simpl; auto. rewrite IH. reflexivity.
Qed.

Lemma all_paths_iter t : map snd (all_paths t) = node_iter t.
Proof.
  induction t as [nm ch d IH] using node_ind'.
  rewrite all_paths_unfold, node_iter_unfold. simpl. f_equal.
  unfold paths_children, iter_children.
  induction ch as [|[k c] ch IHc]; simpl; auto.
  inversion IH as [|? ? Hc Hch]; subst. rewrite map_app. f_equal; [|apply IHc; exact Hch].
  unfold child_paths. simpl. rewrite map_map. simpl. exact Hc.
Qed.

(* ---- well-formedness: no two keys of a children map are equal (HashMap), recursively *)
Fixpoint keys_nodup (ch : list (label * node)) : Prop :=
  match ch with
  | [] => True
  | (k, _) :: ch' => find_child k ch' = None /\ keys_nodup ch'
  end.

Fixpoint wf (t : node) : Prop :=
  match t with
  | Node _ ch _ =>
    keys_nodup ch /\ (fix all (ch : list (label * node)) : Prop :=
                        match ch with
                        | [] => True
                        | (_, c) :: ch' => wf c /\ all ch'
                        end) ch
  end.

Definition all_wf (ch : list (label * node)) : Prop := Forall (fun kc => wf (snd kc)) ch.

Lemma wf_unfold nm ch d : wf (Node nm ch d) <-> keys_nodup ch /\ all_wf ch.
Proof.
  simpl. unfold all_wf. split; intros [H1 H2]; split; auto.
  - induction ch as [|[k c] ch IH]; constructor; simpl in *; tauto.
  - induction ch as [|[k c] ch IH]; simpl; auto. inversion H2; subst. simpl in *. tauto.
Qed.

Lemma find_child_none_in l ch k c : find_child l ch = None -> In (k, c) ch -> label_eqb k l = false.
Proof.
  induction ch as [|[k0 c0] ch IH]; simpl; [tauto|].
  destruct (label_eqb k0 l) eqn:E; [discriminate|]. intros H [Hin|Hin]; auto. inversion Hin; subst. exact E.
Qed.

Lemma find_child_some_in l ch c : find_child l ch = Some c -> exists k, In (k, c) ch /\ label_eqb k l = true.
Proof.
  induction ch as [|[k0 c0] ch IH]; simpl; [discriminate|].
  destruct (label_eqb k0 l) eqn:E.
  - intros H; inversion H; subst. exists k0. auto.
  - intros H. destruct (IH H) as (k & Hin & Hk). exists k. auto.
Qed.

Lemma find_child_in k c ch : keys_nodup ch -> In (k, c) ch -> find_child k ch = Some c.
Proof.
  induction ch as [|[k0 c0] ch IH]; simpl; [tauto|]. intros [Hn Hk] [Hin|Hin].
  - inversion Hin; subst. rewrite label_eqb_refl. reflexivity.
  - pose proof (find_child_none_in _ _ _ _ Hn Hin) as E. rewrite label_eqb_sym in E. rewrite E. auto.
Qed.

(* ---- paths reach what the view reaches *)
Lemma in_paths_children ch p x : In (p, x) (paths_children ch) <->
  exists k c p', In (k, c) ch /\ p = k :: p' /\ In (p', x) (all_paths c).
Proof.
  unfold paths_children. rewrite in_flat_map. split.
  - intros ([k c] & Hin & Hp). unfold child_paths in Hp. apply in_map_iff in Hp.
    destruct Hp as ([p' x'] & E & Hp). simpl in E. inversion E; subst. eauto 8.
  - intros (k & c & p' & Hin & -> & Hp). exists (k, c). split; auto.
    unfold child_paths. apply in_map_iff. exists (p', x). auto.
Qed.

Lemma paths_sound t : wf t -> forall p x, In (p, x) (all_paths t) -> view p t = Some x.
Proof.
  induction t as [nm ch d IH] using node_ind'. intros W p x Hin.
  apply wf_unfold in W. destruct W as [Wk Wc].
  rewrite all_paths_unfold in Hin. destruct Hin as [Hin|Hin].
  - inversion Hin; subst. reflexivity.
  - apply in_paths_children in Hin. destruct Hin as (k & c & p' & Hkc & -> & Hp).
    cbn [view node_children]. rewrite (find_child_in k c ch Wk Hkc).
    rewrite Forall_forall in IH. apply (IH (k, c) Hkc); auto.
    unfold all_wf in Wc. rewrite Forall_forall in Wc. apply (Wc (k, c) Hkc).
Qed.

Lemma paths_complete p : forall t x, view p t = Some x ->
  exists p', lc p' = lc p /\ In (p', x) (all_paths t).
Proof.
  induction p as [|l p IH]; intros [nm ch d] x V.
  - simpl in V. inversion V; subst. exists []. split; auto. rewrite all_paths_unfold. left. reflexivity.
  - cbn [view node_children] in V. destruct (find_child l ch) as [c|] eqn:F; [|discriminate].
    destruct (find_child_some_in _ _ _ F) as (k & Hin & Hk).
    destruct (IH c x V) as (p' & Hp' & Hin').
    exists (k :: p'). split.
    + rewrite !lc_cons. apply label_eqb_iff in Hk. congruence.
    + rewrite all_paths_unfold. right. apply in_paths_children. eauto 8.
Qed.

(* ---- every key path occurs once (up to case) *)
Lemma NoDup_app_disjoint {A} (l1 l2 : list A) : NoDup l1 -> NoDup l2 ->
  (forall x, In x l1 -> In x l2 -> False) -> NoDup (l1 ++ l2).
Proof.
  induction l1 as [|x l1 IH]; simpl; auto. intros H1 H2 D. inversion H1; subst.
  constructor.
  - rewrite in_app_iff. intros [H|H]; auto. apply (D x); auto.
  - apply IH; auto. intros y Hy1 Hy2. apply (D y); auto.
Qed.

Lemma NoDup_map_inj {A B} (f : A -> B) l : (forall x y, In x l -> In y l -> f x = f y -> x = y) ->
  NoDup l -> NoDup (map f l).
Proof.
  induction l as [|x l IH]; simpl; intros Hinj H; [constructor|]. inversion H; subst. constructor.
  - intros Hin. apply in_map_iff in Hin. destruct Hin as (y & E & Hy).
    assert (y = x) by (apply Hinj; auto). subst. contradiction.
  - apply IH; auto.
Qed.

Definition lcpath (px : pathed) : name := lc (fst px).

Lemma paths_nodup t : wf t -> NoDup (map lcpath (all_paths t)).
Proof.
  induction t as [nm ch d IH] using node_ind'. intros W.
  apply wf_unfold in W. destruct W as [Wk Wc].
  rewrite all_paths_unfold. simpl. constructor.
  - intros Hin. apply in_map_iff in Hin. destruct Hin as ([p x] & E & Hin).
    apply in_paths_children in Hin. destruct Hin as (k & c & p' & _ & -> & _).
    unfold lcpath in E. simpl in E. rewrite lc_cons in E. discriminate.
  - unfold paths_children.
    induction ch as [|[k c] ch IHc]; simpl; [constructor|].
    inversion IH as [|? ? Hc Hch]; subst. inversion Wc as [|? ? Wc1 Wc2]; subst.
    simpl in Wk. destruct Wk as [Wk1 Wk2].
    rewrite map_app. apply NoDup_app_disjoint.
    + unfold child_paths. simpl. rewrite map_map.
      assert (E : map (fun x => lcpath (k :: fst x, snd x)) (all_paths c) =
                  map (fun n => map lower k :: n) (map lcpath (all_paths c))).
      { rewrite map_map. apply map_ext. intros [p x]. unfold lcpath. simpl. rewrite lc_cons. reflexivity. }
      rewrite E. apply NoDup_map_inj; [intros a b _ _ Hab; inversion Hab; auto|]. apply Hc. exact Wc1.
    + apply IHc; auto.
    + intros n H1 H2. apply in_map_iff in H1. destruct H1 as ([p1 x1] & E1 & H1).
      apply in_map_iff in H2. destruct H2 as ([p2 x2] & E2 & H2).
      unfold child_paths in H1. apply in_map_iff in H1. destruct H1 as ([p1' x1'] & E1' & _).
      simpl in E1'. inversion E1'; subst.
      fold (paths_children ch) in H2. apply in_paths_children in H2.
      destruct H2 as (k2 & c2 & p2' & Hin2 & -> & _).
      unfold lcpath in E2. simpl in E2. rewrite !lc_cons in E2. injection E2 as Ek _.
      pose proof (find_child_none_in _ _ _ _ Wk1 Hin2) as Hne.
      assert (label_eqb k2 k = true) by (apply label_eqb_iff; exact Ek). congruence.
Qed.

(* ---- node_update preserves well-formedness *)
Lemma find_child_set_keys l lab c' ch : find_child l (set_child lab c' ch) = None <-> find_child l ch = None.
Proof.
  induction ch as [|[k c] ch IH]; simpl; [tauto|].
  destruct (label_eqb k lab); simpl; destruct (label_eqb k l); try tauto; split; discriminate.
Qed.

Lemma keys_nodup_set lab c' ch : keys_nodup ch -> keys_nodup (set_child lab c' ch).
Proof.
  induction ch as [|[k c] ch IH]; simpl; auto. intros [H1 H2].
  destruct (label_eqb k lab); simpl; auto. split; auto. apply find_child_set_keys. exact H1.
Qed.

Lemma all_wf_set lab c' ch : all_wf ch -> wf c' -> all_wf (set_child lab c' ch).
Proof.
  unfold all_wf. induction ch as [|[k c] ch IH]; simpl; auto. intros H W. inversion H; subst.
  destruct (label_eqb k lab); constructor; auto.
Qed.

Lemma keys_nodup_app lab c' ch : keys_nodup ch -> find_child lab ch = None -> keys_nodup (ch ++ [(lab, c')]).
Proof.
  induction ch as [|[k c] ch IH]; simpl; auto. intros [H1 H2] F.
  destruct (label_eqb k lab) eqn:E; [discriminate|]. split; auto.
  rewrite (find_child_app_none _ _ _ _ H1). rewrite label_eqb_sym, E. reflexivity.
Qed.

Lemma wf_child l ch c : all_wf ch -> find_child l ch = Some c -> wf c.
Proof.
  intros W F. destruct (find_child_some_in _ _ _ F) as (k & Hin & _).
  unfold all_wf in W. rewrite Forall_forall in W. apply (W (k, c) Hin).
Qed.

Lemma node_update_wf f level : forall nm t t' e, node_update level nm f t = Ok (t', e) -> wf t -> wf t'.
Proof.
  induction level as [|l IH]; intros nm [n0 ch d] t' e H W.
  - simpl in H. destruct (f d); inversion H; subst; auto.
  - cbn [node_update node_children node_name node_data] in H.
    destruct (name_index nm l) as [lab| |]; cbn [bind] in H; try discriminate.
    apply wf_unfold in W. destruct W as [Wk Wc].
    destruct (find_child lab ch) as [c|] eqn:F.
    + destruct (node_update l nm f c) as [[c' e']| |] eqn:U; cbn [bind] in H; try discriminate.
      inversion H; subst. apply wf_unfold. split.
      * apply keys_nodup_set. exact Wk.
      * apply all_wf_set; auto. eapply IH; eauto. eapply wf_child; eauto.
    + destruct (superdomain nm l) as [sup|]; [|discriminate].
      destruct (node_update l nm f (node_new sup)) as [[c' e']| |] eqn:U; cbn [bind] in H; try discriminate.
      inversion H; subst. apply wf_unfold. split.
      * apply keys_nodup_app; auto.
      * unfold all_wf. apply Forall_app. split; auto. constructor; auto. simpl.
        eapply IH; eauto. simpl. auto.
Qed.
