(* Specification of the name-writing functions of the writer model: what is emitted, that the
   emitted octets decode (below the new cursor) to the given name, that the returned
   PriorName is usable, that nothing below the old cursor changes, that nothing panics. *)
From QV Require Import Base.ListX Model.MsgWriter Proofs.NameWireP Proofs.MsgWriterP Proofs.MsgWriterScanP.

Local Open Scope nat_scope.

(* ---------------------------------------------------------------- the pointer word *)

Lemma land_c000 x : (x < 16384)%N -> N.land 49152 x = 0%N.
Proof.
  intros H. apply N.bits_inj_0. intros n. rewrite N.land_spec.
  destruct (N.lt_ge_cases n 14) as [Hn|Hn].
  - change 49152%N with (N.shiftl 3 14). rewrite N.shiftl_spec_low by exact Hn. reflexivity.
  - destruct (N.eq_dec x 0) as [->|Hx]; [rewrite N.bits_0; apply andb_false_r|].
    rewrite (N.bits_above_log2 x n); [apply andb_false_r|].
    assert (N.log2 x < 14)%N by (apply N.log2_lt_pow2; [lia|exact H]). lia.
Qed.

Lemma lor_c000 x : (x < 16384)%N -> N.lor 49152 x = (49152 + x)%N.
Proof.
  intros H. rewrite <- N.lxor_lor by (apply land_c000; exact H).
  symmetry. apply N.add_nocarry_lxor. apply land_c000; exact H.
Qed.

Lemma c000_divmod x : (x < 16384)%N ->
  (((49152 + x) / 256) mod 256 = 192 + x / 256 /\ (49152 + x) mod 256 = x mod 256 /\ x / 256 < 64)%N.
Proof.
  intros H.
  pose proof (N.div_mod x 256 ltac:(lia)) as D.
  pose proof (N.mod_lt x 256 ltac:(lia)) as R.
  set (q := (x / 256)%N) in *. set (r := (x mod 256)%N) in *.
  assert (Q : (q < 64)%N) by lia.
  assert (E1 : ((49152 + x) / 256 = 192 + q)%N) by (symmetry; apply (N.div_unique _ _ _ r); lia).
  assert (E2 : ((49152 + x) mod 256 = r)%N) by (symmetry; apply (N.mod_unique _ _ (192 + q)%N); lia).
  rewrite E1, E2. split; [apply N.mod_small; lia|]. split; [reflexivity|exact Q].
Qed.

Lemma land63 h : (h < 64)%N -> N.land (192 + h) 63 = h.
Proof.
  intros H. change 63%N with (N.ones 6). rewrite N.land_ones. change (2 ^ 6)%N with 64%N.
  symmetry. apply (N.mod_unique _ _ 3%N); lia.
Qed.

Lemma ptr_word_bytes p : p <= pointer_max ->
  exists hi lo, be16 (ptr_word p) = [hi; lo] /\ is_pointer_octet hi = true /\ ptr_target hi lo = p.
Proof.
  intros H. unfold ptr_word, be16.
  assert (Hx : (N.of_nat p < 16384)%N).
  { pose proof pointer_max_val. lia. }
  rewrite (lor_c000 _ Hx).
  destruct (c000_divmod _ Hx) as [E1 [E2 Q]]. rewrite E1, E2.
  eexists. eexists. split; [reflexivity|]. split.
  - generalize dependent (N.of_nat p / 256)%N. intros q _ Q.
    rewrite is_pointer_octet_spec by lia. apply N.leb_le. lia.
  - unfold ptr_target. rewrite (land63 _ Q).
    rewrite N.mul_comm. rewrite <- N.div_mod by lia. apply Nat2N.id.
Qed.

Lemma be16_length v : length (be16 v) = 2.
Proof. reflexivity. Qed.

(* ---------------------------------------------------------------- frames *)

Record ext (c0 : nat) (w w' : writer) : Prop := mkExt {
  x_len : length (w_buf w') = length (w_buf w);
  x_lim : w_limit w' = w_limit w;
  x_av : w_avail w' = w_avail w;
  x_rs : w_rr_start w' = w_rr_start w;
  x_qd : w_qd w' = w_qd w; x_an : w_an w' = w_an w; x_ns : w_ns w' = w_ns w; x_ar : w_ar w' = w_ar w;
  x_mode : w_mode w' = w_mode w; x_edns : w_edns w' = w_edns w; x_tsig : w_tsig w' = w_tsig w;
  x_cur : w_cursor w <= w_cursor w';
  x_cav : w_cursor w' <= w_avail w';
  x_agree : agree c0 (w_buf w) (w_buf w') }.

Definition side_eq (w w' : writer) : Prop :=
  w_qname w' = w_qname w /\ w_mro w' = w_mro w /\ w_mrn w' = w_mrn w /\ w_section w' = w_section w.

Definition nb (w : writer) : Prop := w_cursor w <= w_avail w /\ w_avail w <= length (w_buf w).

Lemma ext_refl c0 w : w_cursor w <= w_avail w -> ext c0 w w.
Proof. intros H. constructor; auto. apply agree_refl. Qed.

Lemma ext_trans c0 w1 w2 w3 : ext c0 w1 w2 -> ext c0 w2 w3 -> ext c0 w1 w3.
Proof.
  intros [] []. constructor; try congruence; try lia.
Qed.

Lemma side_eq_refl w : side_eq w w.
Proof. repeat split. Qed.
Lemma side_eq_trans w1 w2 w3 : side_eq w1 w2 -> side_eq w2 w3 -> side_eq w1 w3.
Proof. intros [? [? [? ?]]] [? [? [? ?]]]. repeat split; congruence. Qed.

Lemma ext_nb c0 w w' : ext c0 w w' -> nb w -> nb w'.
Proof. intros [] [H1 H2]. split; auto. rewrite x_av0, x_len0. exact H2. Qed.

Lemma try_push_ext c0 data w u w' : try_push data w = Ok (u, w') -> c0 <= w_cursor w ->
  ext c0 w w' /\ side_eq w w' /\ w_cursor w' = w_cursor w + length data
  /\ slice (w_buf w') (w_cursor w) (w_cursor w') = data
  /\ agree (w_cursor w) (w_buf w) (w_buf w').
Proof.
  intros H Hc. apply try_push_ok in H as [b' [Hb [-> Hfit]]]. simpl.
  split; [|split; [repeat split|split; [reflexivity|split]]].
  - constructor; simpl; auto; try lia.
    + eapply buf_write_length; eauto.
    + eapply buf_write_agree; eauto.
  - eapply buf_write_data; eauto.
  - eapply buf_write_agree; eauto.
Qed.

(* ---------------------------------------------------------------- labels in a buffer *)

Definition wf_label (l : bytes) : Prop := 1 <= length l /\ length l <= 63.
Definition wf_name (n : wname) : Prop := Forall wf_label n /\ length n <= 127.

Lemma app_eq_len {A} (a1 a2 b1 b2 : list A) : a1 ++ a2 = b1 ++ b2 -> length a1 = length b1 ->
  a1 = b1 /\ a2 = b2.
Proof.
  revert b1; induction a1 as [|x a1 IH]; intros [|y b1] H Hl; simpl in *; try discriminate; auto.
  inversion H; subst. destruct (IH b1 H2 ltac:(lia)) as [-> ->]. auto.
Qed.

Lemma slice_head (B : bytes) i e x t : slice B i e = x :: t -> nth_error B i = Some x /\ slice B (S i) e = t /\ i < e.
Proof.
  intros H. assert (Hie : i < e).
  { destruct (Nat.lt_ge_cases i e); auto. unfold slice in H. replace (e - i) with 0 in H by lia. discriminate. }
  destruct (nth_error B i) as [y|] eqn:E.
  - rewrite (slice_cons B i y e E Hie) in H. inversion H; subst. auto.
  - apply nth_error_None in E. unfold slice in H. rewrite skipn_all2 in H by lia.
    rewrite firstn_nil in H. discriminate.
Qed.

Lemma nm_lwire_cons l r : nm_lwire (l :: r) = N.of_nat (length l) :: l ++ nm_lwire r.
Proof. reflexivity. Qed.

Lemma nm_lwire_app a c : nm_lwire (a ++ c) = nm_lwire a ++ nm_lwire c.
Proof. unfold nm_lwire. apply flat_map_app. Qed.

Lemma name_at_labels B c : forall ls i rest, Forall wf_label ls ->
  slice B i (i + length (nm_lwire ls)) = nm_lwire ls ->
  i + length (nm_lwire ls) <= length B -> i + length (nm_lwire ls) <= c ->
  name_at B c (i + length (nm_lwire ls)) rest -> name_at B c i (ls ++ rest).
Proof.
  induction ls as [|l r IH]; intros i rest Hwf Hs Hlen Hc Hn.
  - simpl in *. rewrite Nat.add_0_r in Hn. exact Hn.
  - inversion Hwf as [|? ? [Hl1 Hl63] Hwf']; subst.
    rewrite nm_lwire_cons in *. simpl length in *. rewrite app_length in *.
    apply slice_head in Hs as [Hnth [Hs _]].
    rewrite (slice_app B (S i) (S i + length l)) in Hs by lia.
    apply app_eq_len in Hs as [Hs1 Hs2]; [|rewrite slice_length; lia].
    replace (i + S (length l + length (nm_lwire r))) with (S i + length l + length (nm_lwire r)) in * by lia.
    simpl app.
    assert (Hto : N.to_nat (N.of_nat (length l)) = length l) by apply Nat2N.id.
    replace (S i) with (i + 1) in * by lia.
    pose proof (na_label B c i (N.of_nat (length l)) (r ++ rest) Hnth ltac:(lia) ltac:(lia)) as K.
    rewrite Hto in K. rewrite Hs1 in K. apply K; [lia|]. apply IH; auto; lia.
Qed.

(* ---------------------------------------------------------------- what a name write emits *)

Definition named (cp : bool) (n : wname) (b : bytes) (c i : nat) : Prop :=
  exists n', name_at b c i n' /\ name_eq cp n n'.

(* C13: either the plain wire form, or k leading labels followed by ONE pointer that leads
   strictly before the start of this name, to a label (not a pointer), where the remaining
   labels of the name (all labels after the k-th) are decodable from octets written before. *)
Inductive emitted (cp : bool) (n : wname) (b' : bytes) (c c' : nat) : Prop :=
| em_plain : slice b' c c' = nm_wire n -> c' = c + length (nm_wire n) -> emitted cp n b' c c'
| em_ptr : forall k pp, k <= length n ->
    slice b' c c' = nm_lwire (firstn k n) ++ be16 (ptr_word pp) ->
    c' = c + length (nm_lwire (firstn k n)) + 2 ->
    0 < pp -> pp <= pointer_max -> pp < c -> real_at b' pp ->
    named cp (skipn k n) b' c pp ->
    emitted cp n b' c c'.

Lemma wf_name_firstn n k : wf_name n -> Forall wf_label (firstn k n).
Proof. intros [H _]. rewrite Forall_forall in *. intros x Hx. apply H. eapply In_firstn; eauto. Qed.

Lemma slice_app_l (B : bytes) i m e a z : slice B i e = a ++ z -> m = i + length a -> i <= e -> e <= length B ->
  slice B i m = a /\ slice B m e = z.
Proof.
  intros H -> Hie He.
  assert (Hl : length (slice B i e) = e - i) by (apply slice_length; lia).
  rewrite H, app_length in Hl.
  rewrite (slice_app B i (i + length a) e) in H by lia.
  apply app_eq_len in H; [exact H|]. rewrite slice_length; lia.
Qed.

Lemma emitted_named cp n b' c c' : wf_name n -> c' <= length b' -> emitted cp n b' c c' ->
  named cp n b' c' c.
Proof.
  intros Hwf Hlen [Hs Hc'|k pp Hk Hs Hc' Hp0 Hpm Hpc Hr [m [Hm Hme]]].
  - exists n. split; [|apply name_eq_refl].
    unfold nm_wire in *. rewrite app_length in Hc'. simpl in Hc'.
    destruct (slice_app_l b' c (c + length (nm_lwire n)) c' _ _ Hs eq_refl ltac:(lia) Hlen) as [S1 S2].
    rewrite <- (app_nil_r n).
    apply name_at_labels; try lia; [apply Hwf|exact S1|].
    apply slice_head in S2 as [Hz _]. apply na_root; [lia|exact Hz].
  - exists (firstn k n ++ m). split.
    + destruct (slice_app_l b' c (c + length (nm_lwire (firstn k n))) c' _ _ Hs eq_refl ltac:(lia) Hlen) as [S1 S2].
      apply name_at_labels; try lia; [apply wf_name_firstn; exact Hwf|exact S1|].
      destruct (ptr_word_bytes pp Hpm) as [hi [lo [Eb [Ehi Et]]]].
      rewrite Eb in S2. apply slice_head in S2 as [Z1 [S3 _]]. apply slice_head in S3 as [Z2 _].
      eapply na_ptr; eauto.
      * replace (c + length (nm_lwire (firstn k n)) + 1) with (S (c + length (nm_lwire (firstn k n)))) by lia.
        exact Z2.
      * lia.
      * rewrite Et. lia.
      * rewrite Et. exact Hr.
      * rewrite Et. eapply name_at_stable; [exact Hm|apply agree_refl|lia].
    + rewrite <- (firstn_skipn k n) at 1. apply Forall2_app; [apply name_eq_refl|exact Hme].
Qed.

Lemma emitted_weaken cp n b' c c' : emitted true n b' c c' -> emitted cp n b' c c'.
Proof.
  intros [H1 H2|k pp Hk Hs Hc' Hp0 Hpm Hpc Hr [m [Hm Hme]]].
  - apply em_plain; auto.
  - eapply em_ptr; eauto. exists m. split; auto. apply name_eq_weaken; auto.
Qed.

(* ---------------------------------------------------------------- post-conditions *)

Definition wrote (cp : bool) (c0 : nat) (n : wname) (w w' : writer) (pr : option prior) : Prop :=
  ext c0 w w' /\ side_eq w w' /\
  emitted cp n (w_buf w') (w_cursor w) (w_cursor w') /\
  forall p, pr = Some p ->
    prior_ok (w_buf w') (w_cursor w') p /\ p_len p = nm_len n /\
    named cp n (w_buf w') (w_cursor w') (p_ptr p).

Definition name_post (cp : bool) (c0 : nat) (n : wname) (w : writer) (r : M (option prior)) : Prop :=
  match r with
  | Ok (pr, w') => wrote cp c0 n w w' pr
  | Err (e, w') => e = Truncation /\ ext c0 w w' /\ side_eq w w'
  | Panic => False
  end.

Definition priors_ok (w : writer) : Prop :=
  oprior_ok (w_buf w) (w_cursor w) (w_qname w) /\
  oprior_ok (w_buf w) (w_cursor w) (w_mro w) /\
  oprior_ok (w_buf w) (w_cursor w) (w_mrn w).

Lemma nm_len_small n : wf_name n -> nm_len n mod 256 = nm_len n.
Proof. intros [_ H]. unfold nm_len. apply Nat.mod_small. lia. Qed.

Lemma first_octet_real n b c : wf_name n -> slice b c (c + length (nm_wire n)) = nm_wire n ->
  real_at b c.
Proof.
  intros [Hwf _] Hs. unfold nm_wire in Hs.
  destruct n as [|l r].
  - simpl in Hs. apply slice_head in Hs as [H _]. exists 0%N. split; [exact H|apply is_pointer_octet_0].
  - rewrite nm_lwire_cons in Hs. simpl in Hs. apply slice_head in Hs as [H _].
    inversion Hwf as [|? ? [H1 H63] _]; subst.
    exists (N.of_nat (length l)). split; [exact H|apply small_not_pointer; lia].
Qed.

(* prior returned for a name written at the old cursor *)
Lemma prior_at_cursor cp n b' c c' p : wf_name n -> c' <= length b' ->
  emitted cp n b' c c' -> real_at b' c -> hp_new c = Some p ->
  prior_ok b' c' (prior_new p n) /\ p_len (prior_new p n) = nm_len n /\ named cp n b' c' (p_ptr (prior_new p n)).
Proof.
  intros Hwf Hlen Hem Hr Hp. apply hp_new_some in Hp as [-> [H0 Hm]].
  destruct (emitted_named cp n b' c c' Hwf Hlen Hem) as [m [Hn He]].
  unfold prior_new, prior_ok. cbn [p_ptr p_len]. rewrite (nm_len_small n Hwf).
  split; [|split; [reflexivity|exists m; auto]].
  split; [exact H0|]. split; [exact Hm|]. split; [exact Hr|]. exists m. split; [exact Hn|].
  unfold nm_len. rewrite (name_eq_length _ _ _ He). reflexivity.
Qed.

Lemma write_uncompressed_spec c0 n w : nb w -> c0 <= w_cursor w -> wf_name n ->
  name_post true c0 n w (write_uncompressed_name n w).
Proof.
  intros Hnb Hc Hwf. unfold write_uncompressed_name.
  destruct (try_push (nm_wire n) w) as [[u w1]|[e w1]|] eqn:E; simpl.
  - destruct (try_push_ext c0 _ _ _ _ E Hc) as [X [Sd [Hcur [Hsl Hag]]]].
    assert (Hem : emitted true n (w_buf w1) (w_cursor w) (w_cursor w1)) by (apply em_plain; auto).
    split; [exact X|]. split; [exact Sd|]. split; [exact Hem|].
    intros p Hp. destruct (hp_new (w_cursor w)) as [q|] eqn:Eh; simpl in Hp; [|discriminate].
    inversion Hp; subst p.
    destruct (ext_nb _ _ _ X Hnb) as [N1 N2].
    apply (prior_at_cursor true n (w_buf w1) (w_cursor w) (w_cursor w1) q); auto; try lia.
    apply (first_octet_real n); auto. rewrite <- Hcur. exact Hsl.
  - apply try_push_err in E as [-> ->]. split; auto. split; [apply ext_refl; apply Hnb|apply side_eq_refl].
  - exfalso. destruct Hnb. eapply try_push_no_panic; eauto.
Qed.

(* the hint contract: the pointer the hint resolves to leads to the given name (modulo case) *)
Definition hinted (n : wname) (w : writer) (pr : prior) : Prop :=
  prior_ok (w_buf w) (w_cursor w) pr /\ p_len pr = nm_len n /\
  named false n (w_buf w) (w_cursor w) (p_ptr pr).

Lemma push_prior_ptr_spec c0 n w pr : nb w -> c0 <= w_cursor w -> hinted n w pr ->
  name_post false c0 n w (push_prior_ptr pr w).
Proof.
  intros Hnb Hc [Hok [Hlen [m [Hm Hme]]]]. unfold push_prior_ptr, try_push_u16.
  destruct (try_push (be16 (ptr_word (p_ptr pr))) w) as [[u w1]|[e w1]|] eqn:E; simpl.
  - destruct (try_push_ext c0 _ _ _ _ E Hc) as [X [Sd [Hcur [Hsl Hag]]]].
    destruct Hok as [H0 [Hmx [Hr Hls]]]. rewrite be16_length in Hcur.
    destruct (name_at_lt _ _ _ _ Hm) as [Hlt _].
    assert (Hr' : real_at (w_buf w1) (p_ptr pr)) by (eapply real_at_stable; eauto).
    assert (Hm' : name_at (w_buf w1) (w_cursor w) (p_ptr pr) m)
      by (eapply name_at_stable; [exact Hm|exact Hag|lia]).
    split; [exact X|]. split; [exact Sd|]. split.
    + eapply em_ptr with (k := 0) (pp := p_ptr pr); simpl; auto; try lia.
      exists m. auto.
    + intros p Hp. inversion Hp; subst p. split; [|split; [exact Hlen|]].
      * repeat split; auto. destruct Hls as [ls [L1 L2]]. exists ls. split; auto.
        eapply name_at_stable; [exact L1|exact Hag|]. destruct X; lia.
      * exists m. split; auto. eapply name_at_stable; [exact Hm'|apply agree_refl|]. destruct X; lia.
  - apply try_push_err in E as [-> ->]. split; auto. split; [apply ext_refl; apply Hnb|apply side_eq_refl].
  - exfalso. destruct Hnb. eapply try_push_no_panic; eauto.
Qed.

Definition cpflag (m : cmode) : bool := match m with CasePreserving => true | _ => false end.

Lemma or_else_ok b c a o : oprior_ok b c a -> oprior_ok b c o -> oprior_ok b c (or_else a o).
Proof. destruct a; simpl; auto. Qed.

Lemma name_post_weaken cp c0 n w r : name_post true c0 n w r -> name_post cp c0 n w r.
Proof.
  destruct r as [[pr w']|[e w']|]; simpl; auto.
  intros [X [S [Hem Hp]]]. split; auto. split; auto. split; [apply emitted_weaken; auto|].
  intros p E. destruct (Hp p E) as [A [B [m [C D]]]]. split; auto. split; auto.
  exists m. split; auto. apply name_eq_weaken; auto.
Qed.

(* what write_compressed_unhinted_name does once the search is over *)
Definition compressed_tail (n : wname) (w : writer) (cs : option pctx * option pctx) : M (option prior) :=
  match longest_match cs with
  | Some (start_column, pp) =>
    if start_column =? 0 then
      let* (_, w1) := try_push_u16 (ptr_word pp) w in
      Ok (Some (prior_new pp n), w1)
    else
      let pointer := hp_new (w_cursor w) in
      match nm_wire_to n start_column with
      | None => Panic
      | Some pre =>
        let* (_, w1) := try_push pre w in
        let* (_, w2) := try_push_u16 (ptr_word pp) w1 in
        Ok (option_map (fun p => prior_new p n) pointer, w2)
      end
  | None => write_uncompressed_name n w
  end.

Lemma err_post c0 w : nb w -> Truncation = Truncation /\ ext c0 w w /\ side_eq w w.
Proof. intros [H _]. split; auto. split; [apply ext_refl; exact H|apply side_eq_refl]. Qed.

Lemma compressed_tail_spec cp c0 n w cs : nb w -> c0 <= w_cursor w -> wf_name n ->
  (forall m, longest_match cs = Some m -> match_ok (w_buf w) (w_cursor w) cp n m) ->
  name_post cp c0 n w (compressed_tail n w cs).
Proof.
  intros Hnb Hc Hwf Hm. unfold compressed_tail.
  assert (Hunc : name_post cp c0 n w (write_uncompressed_name n w))
    by (apply name_post_weaken, write_uncompressed_spec; auto).
  destruct (longest_match cs) as [[sc pp]|] eqn:El; [|exact Hunc].
  destruct (Hm _ eq_refl) as [M1 [M2 [M3 [M4 [pre [M5 M6]]]]]]. simpl in M1, M2, M3, M4, M5, M6.
  destruct (name_at_lt _ _ _ _ M5) as [Mlt _].
  destruct (sc =? 0) eqn:Esc.
  - apply Nat.eqb_eq in Esc. subst sc. simpl in M6.
    unfold try_push_u16.
    destruct (try_push (be16 (ptr_word pp)) w) as [[u w1]|[e w1]|] eqn:E; simpl.
    + destruct (try_push_ext c0 _ _ _ _ E Hc) as [X [Sd [Hcur [Hsl Hag]]]].
      rewrite be16_length in Hcur.
      assert (Hr' : real_at (w_buf w1) pp) by (eapply real_at_stable; eauto).
      assert (Hm' : name_at (w_buf w1) (w_cursor w) pp pre)
        by (eapply name_at_stable; [exact M5|exact Hag|lia]).
      assert (Hm2 : name_at (w_buf w1) (w_cursor w1) pp pre)
        by (eapply name_at_stable; [exact Hm'|apply agree_refl|lia]).
      split; [exact X|]. split; [exact Sd|]. split.
      * eapply em_ptr with (k := 0) (pp := pp); simpl; auto; try lia. exists pre; auto.
      * intros p Hp. inversion Hp; subst p. unfold prior_new, prior_ok. cbn [p_ptr p_len].
        rewrite (nm_len_small n Hwf).
        split; [|split; [reflexivity|exists pre; auto]].
        split; [exact M2|]. split; [exact M3|]. split; [exact Hr'|]. exists pre. split; [exact Hm2|].
        unfold nm_len. rewrite (name_eq_length _ _ _ M6). reflexivity.
    + apply try_push_err in E as [-> ->]. apply err_post; auto.
    + exfalso. destruct Hnb. eapply try_push_no_panic; eauto.
  - apply Nat.eqb_neq in Esc. unfold nm_wire_to, nm_len.
    destruct (sc =? S (length n)) eqn:Ea; [apply Nat.eqb_eq in Ea; lia|].
    destruct (S (length n) <? sc) eqn:Eb; [apply Nat.ltb_lt in Eb; lia|].
    destruct (try_push (nm_lwire (firstn sc n)) w) as [[u w1]|[e w1]|] eqn:E; simpl;
      [|apply try_push_err in E as [-> ->]; apply err_post; auto
       |exfalso; destruct Hnb; eapply try_push_no_panic; eauto].
    destruct (try_push_ext c0 _ _ _ _ E Hc) as [X [Sd [Hcur [Hsl Hag]]]].
    pose proof (ext_nb _ _ _ X Hnb) as Hnb1.
    assert (Hc1 : c0 <= w_cursor w1) by (destruct X; lia).
    unfold try_push_u16.
    destruct (try_push (be16 (ptr_word pp)) w1) as [[u2 w2]|[e w2]|] eqn:E'; simpl;
      [|apply try_push_err in E' as [-> ->]; split; auto
       |exfalso; destruct Hnb1; eapply try_push_no_panic; eauto].
    destruct (try_push_ext c0 _ _ _ _ E' Hc1) as [X2 [Sd2 [Hcur2 [Hsl2 Hag2]]]].
    rewrite be16_length in Hcur2.
    pose proof (ext_trans _ _ _ _ X X2) as X12.
    pose proof (side_eq_trans _ _ _ Sd Sd2) as S12.
    assert (Hagw : agree (w_cursor w) (w_buf w) (w_buf w2)).
    { eapply agree_trans; [exact Hag|]. eapply agree_le; [exact Hag2|lia]. }
    assert (Hem : emitted cp n (w_buf w2) (w_cursor w) (w_cursor w2)).
    { eapply em_ptr with (k := sc) (pp := pp); auto; try lia.
      - rewrite (slice_app _ (w_cursor w) (w_cursor w1)) by lia.
        rewrite Hsl2. f_equal.
        rewrite (agree_slice (w_cursor w1) (w_buf w1) (w_buf w2) _ _ Hag2) by lia. exact Hsl.
      - eapply real_at_stable; eauto.
      - exists pre. split; [eapply name_at_stable; [exact M5|exact Hagw|lia]|exact M6]. }
    split; [exact X12|]. split; [exact S12|]. split; [exact Hem|].
    intros p Hp. destruct (hp_new (w_cursor w)) as [q|] eqn:Eh; simpl in Hp; [|discriminate].
    inversion Hp; subst p.
    pose proof (ext_nb _ _ _ X12 Hnb) as [N1 N2].
    apply (prior_at_cursor cp n (w_buf w2) (w_cursor w) (w_cursor w2) q); auto; try lia.
    assert (Hne : firstn sc n <> []) by (destruct n; destruct sc; simpl in *; try lia; discriminate).
    destruct (firstn sc n) as [|l r] eqn:Ef; [congruence|].
    pose proof (wf_name_firstn n sc Hwf) as Hwl. rewrite Ef in Hwl.
    inversion Hwl as [|? ? [L1 L63] _]; subst.
    exists (N.of_nat (length l)). split; [|apply small_not_pointer; lia].
    rewrite nm_lwire_cons in Hsl, Hcur. simpl in Hcur.
    rewrite (agree_nth (w_cursor w1) (w_buf w1) (w_buf w2) _ Hag2) by lia.
    apply slice_head in Hsl as [Hz _]. exact Hz.
Qed.

Lemma write_compressed_unfold n w :
  write_compressed_unhinted_name n w =
  match or_else (w_mro w) (w_qname w), w_mrn w with
  | None, None => write_uncompressed_name n w
  | _, _ =>
    let* (cs, _) := lift (let* c0 := opt_build (w_buf w) (nm_len n) (or_else (w_mro w) (w_qname w)) in
                          let* c1 := opt_build (w_buf w) (nm_len n) (w_mrn w) in
                          scan (w_buf w) (cpflag (w_mode w)) 0 n (c0, c1)) w in
    compressed_tail n w cs
  end.
Proof. reflexivity. Qed.

Lemma write_compressed_spec c0 n w : nb w -> c0 <= w_cursor w -> wf_name n -> priors_ok w ->
  name_post (cpflag (w_mode w)) c0 n w (write_compressed_unhinted_name n w).
Proof.
  intros Hnb Hc Hwf [Pq [Po Pr]]. rewrite write_compressed_unfold.
  assert (Hunc : name_post (cpflag (w_mode w)) c0 n w (write_uncompressed_name n w))
    by (apply name_post_weaken, write_uncompressed_spec; auto).
  assert (Hoq : oprior_ok (w_buf w) (w_cursor w) (or_else (w_mro w) (w_qname w)))
    by (apply or_else_ok; auto).
  destruct (search_ok (w_buf w) (w_cursor w) (cpflag (w_mode w)) n _ _ Hoq Pr) as [cs [Es Hm]].
  assert (Hgo : name_post (cpflag (w_mode w)) c0 n w
                  (let* (cs, _) := lift (let* c0 := opt_build (w_buf w) (nm_len n) (or_else (w_mro w) (w_qname w)) in
                                         let* c1 := opt_build (w_buf w) (nm_len n) (w_mrn w) in
                                         scan (w_buf w) (cpflag (w_mode w)) 0 n (c0, c1)) w in
                   compressed_tail n w cs)).
  { rewrite Es. simpl. apply compressed_tail_spec; auto. }
  destruct (or_else (w_mro w) (w_qname w)); [exact Hgo|].
  destruct (w_mrn w); [exact Hgo|exact Hunc].
Qed.

(* ---------------------------------------------------------------- unhinted / hinted names *)

Definition exactf (m : cmode) : bool := match m with Standard => false | _ => true end.

Lemma write_unhinted_spec c0 n w : nb w -> c0 <= w_cursor w -> wf_name n -> priors_ok w ->
  name_post (exactf (w_mode w)) c0 n w (write_unhinted_name n w).
Proof.
  intros Hnb Hc Hwf Hp. unfold write_unhinted_name.
  pose proof (write_uncompressed_spec c0 n w Hnb Hc Hwf) as U.
  pose proof (write_compressed_spec c0 n w Hnb Hc Hwf Hp) as C.
  destruct (w_mode w) eqn:Em; simpl in *.
  - destruct (2 <? length (nm_wire n)); [exact C|apply name_post_weaken; exact U].
  - destruct (2 <? length (nm_wire n)); [exact C|exact U].
  - exact U.
Qed.

(* the API contract of hints: the prior occurrence a hint resolves to is the given name *)
Definition hint_contract (h : hint) (n : wname) (w : writer) : Prop :=
  match h with
  | HQname => forall pr, w_qname w = Some pr -> hinted n w pr
  | HOwner => forall pr, w_mro w = Some pr -> hinted n w pr
  | HRdata => forall pr, w_mrn w = Some pr -> hinted n w pr
  | HExplicit p => p < w_cursor w -> hinted n w (prior_new p n)
  | HNone => True
  end.

Lemma write_hinted_spec c0 h n w : nb w -> c0 <= w_cursor w -> wf_name n -> priors_ok w ->
  hint_contract h n w ->
  name_post (exactf (w_mode w)) c0 n w (write_hinted_name h n w).
Proof.
  intros Hnb Hc Hwf Hp Hh. unfold write_hinted_name.
  pose proof (write_uncompressed_spec c0 n w Hnb Hc Hwf) as U.
  pose proof (write_compressed_spec c0 n w Hnb Hc Hwf Hp) as C.
  destruct (w_mode w) eqn:Em; simpl in *.
  - destruct (length (nm_wire n) <=? 2); [apply name_post_weaken; exact U|].
    destruct h; simpl in Hh.
    + destruct (w_qname w) as [pr|]; [|exact C]. apply push_prior_ptr_spec; auto.
    + destruct (w_mro w) as [pr|]; [|exact C]. apply push_prior_ptr_spec; auto.
    + destruct (w_mrn w) as [pr|]; [|exact C]. apply push_prior_ptr_spec; auto.
    + destruct (p <? w_cursor w) eqn:El; [|exact C]. apply Nat.ltb_lt in El.
      apply push_prior_ptr_spec; auto.
    + exact C.
  - destruct (length (nm_wire n) <=? 2); [exact U|exact C].
  - exact U.
Qed.

(* C13, compression disabled: whatever the hint, the plain wire form is written *)
Lemma disabled_plain_hinted h n w pr w' : w_mode w = Disabled ->
  write_hinted_name h n w = Ok (pr, w') ->
  slice (w_buf w') (w_cursor w) (w_cursor w') = nm_wire n /\ w_cursor w' = w_cursor w + length (nm_wire n).
Proof.
  intros Em. unfold write_hinted_name. rewrite Em. unfold write_uncompressed_name.
  destruct (try_push (nm_wire n) w) as [[u w1]|[e w1]|] eqn:E; simpl; try discriminate.
  intros H; inversion H; subst.
  destruct (try_push_ext 0 _ _ _ _ E ltac:(lia)) as [_ [_ [Hcur [Hsl _]]]]. auto.
Qed.

Lemma disabled_plain_unhinted n w pr w' : w_mode w = Disabled ->
  write_unhinted_name n w = Ok (pr, w') ->
  slice (w_buf w') (w_cursor w) (w_cursor w') = nm_wire n /\ w_cursor w' = w_cursor w + length (nm_wire n).
Proof.
  intros Em. unfold write_unhinted_name. rewrite Em. unfold write_uncompressed_name.
  destruct (try_push (nm_wire n) w) as [[u w1]|[e w1]|] eqn:E; simpl; try discriminate.
  intros H; inversion H; subst.
  destruct (try_push_ext 0 _ _ _ _ E ltac:(lia)) as [_ [_ [Hcur [Hsl _]]]]. auto.
Qed.

(* names in RDATA that must not be compressed (SRV, Chaosnet A): always the plain wire form *)
Lemma uncompressed_plain n w pr w' : write_uncompressed_name n w = Ok (pr, w') ->
  slice (w_buf w') (w_cursor w) (w_cursor w') = nm_wire n /\ w_cursor w' = w_cursor w + length (nm_wire n).
Proof.
  unfold write_uncompressed_name.
  destruct (try_push (nm_wire n) w) as [[u w1]|[e w1]|] eqn:E; simpl; try discriminate.
  intros H; inversion H; subst.
  destruct (try_push_ext 0 _ _ _ _ E ltac:(lia)) as [_ [_ [Hcur [Hsl _]]]]. auto.
Qed.
