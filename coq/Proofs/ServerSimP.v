(* The abstract Writer of the server model (Model/Server.v: cursor / limit / available / ARCOUNT with
   the Writer's arithmetic) AGREES with the Writer model of C12 (Model/MsgWriter.v) at the moment query
   answering starts: for a request that passes the pre-processing as a clean QUERY with its question and
   without TSIG, [QueryW.prepare_w] — run with the id, RD, question, EDNS size and limit the server model
   computed, on a buffer of the configured size — succeeds and yields a writer with exactly the server
   model's cursor, limit, available space and ARCOUNT.  This is the glue the server-level runner relies
   on when it hands [w_limit] / the EDNS size to [respond_w] (SERVER.md: "sizes exact because only the
   uncompressed question has been written"), now a theorem. *)
From QV Require Import Base.ListX Model.NameWire Model.Reader Model.RdataLite Model.Server
  Spec.NameWireS Spec.NameRepr Spec.ReaderS Spec.RdataFormatS Proofs.NameWireP Proofs.ReaderP Proofs.RdNameP Proofs.ServerP Proofs.ServerNumP.
From QV Require Import Gen.Consts Model.MsgWriter Proofs.MsgWriterP Proofs.MsgWriterNameP Proofs.MsgWriterInvP
  Model.ZoneTree Model.Query Proofs.QueryNameP Model.QueryW Proofs.QueryWP Proofs.ServerEchoWP.
Local Open Scope nat_scope.

Lemma w_write_ok w pos d : pos + length d <= length (w_buf w) ->
  exists b', w_write w pos d = Ok (set_buf w b') /\ length b' = length (w_buf w).
Proof.
  intros H. unfold w_write. destruct (buf_write_some (w_buf w) pos d H) as [b' E]. rewrite E.
  exists b'. split; [reflexivity|]. eapply buf_write_length; eauto.
Qed.

Lemma w_modify_ok w i f : N.to_nat i < length (w_buf w) ->
  exists b', w_modify w i f = Ok (set_buf w b') /\ length b' = length (w_buf w).
Proof.
  intros H. unfold w_modify. destruct (nth_error (w_buf w) (N.to_nat i)) eqn:E; [|apply nth_error_None in E; lia].
  apply w_write_ok. simpl. lia.
Qed.

(* the first question on a fresh writer: success and the numbers *)
Lemma fresh_add_question_ok buf0 lim qname qtype qclass b4 :
  let w4 := set_buf (mkW buf0 header_size lim lim header_size SecQuestion 0 0 0 0 None None None Standard None None) b4 in
  lim <= length b4 -> 12 + length (nm_wire qname) + 4 <= lim ->
  exists w5, add_question qname qtype qclass w4 = Ok (tt, w5) /\
    w_cursor w5 = 12 + length (nm_wire qname) + 4 /\ w_limit w5 = lim /\ w_avail w5 = lim /\
    w_ar w5 = 0%N /\ w_edns w5 = None /\ length (w_buf w5) = length b4.
Proof.
  intros w4 Hb Hfit. unfold add_question. cbn [w_section w4 set_buf w_qd].
  change (checked_add16 0 1) with (Some 1%N). cbv iota. unfold with_rollback.
  assert (Hname : write_unhinted_name qname w4 = write_uncompressed_name qname w4).
  { unfold write_unhinted_name. cbn [w_mode w4 set_buf]. destruct (2 <? length (nm_wire qname)); reflexivity. }
  rewrite Hname. unfold write_uncompressed_name. change header_size with 12 in *.
  destruct (try_push_fits (nm_wire qname) w4) as [wa Pa]; [cbn [w_cursor w_avail w4 set_buf]; lia|cbn [w_avail w_buf w4 set_buf]; lia|].
  rewrite Pa. cbn [bind]. destruct (try_push_ok _ _ _ _ Pa) as (ba & Ba & -> & _).
  pose proof (buf_write_length _ _ _ _ Ba) as La. cbn [w_buf w4 set_buf w_cursor] in Ba, La.
  cbn [w_qd set_cursor set_buf w4]. change (0 =? 0)%N with true. cbv iota. unfold try_push_u16.
  match goal with |- context [try_push (be16 qtype) ?x] => set (wb0 := x) end.
  assert (L16 : forall v, length (be16 v) = 2) by reflexivity.
  destruct (try_push_fits (be16 qtype) wb0) as [wb Pb];
    [cbn [w_cursor w_avail wb0 set_qname set_cursor set_buf w4]; rewrite L16; lia
    |cbn [w_avail w_buf wb0 set_qname set_cursor set_buf w4]; lia|].
  rewrite Pb. cbn [bind]. destruct (try_push_ok _ _ _ _ Pb) as (bb & Bb & -> & _).
  pose proof (buf_write_length _ _ _ _ Bb) as Lb. cbn [w_buf wb0 set_qname set_cursor set_buf w4 w_cursor] in Bb, Lb.
  match goal with |- context [try_push (be16 qclass) ?x] => set (wc0 := x) end.
  destruct (try_push_fits (be16 qclass) wc0) as [wc Pc];
    [cbn [w_cursor w_avail wc0 wb0 set_qname set_cursor set_buf w4]; rewrite !L16; lia
    |cbn [w_avail w_buf wc0 wb0 set_qname set_cursor set_buf w4]; lia|].
  rewrite Pc. cbn [bind]. destruct (try_push_ok _ _ _ _ Pc) as (bc & Bc & -> & _).
  pose proof (buf_write_length _ _ _ _ Bc) as Lc. cbn [w_buf wc0 wb0 set_qname set_cursor set_buf w4 w_cursor] in Bc, Lc.
  eexists. split; [reflexivity|].
  cbn [w_cursor w_limit w_avail w_ar w_edns w_buf set_rr_start set_counts set_cursor set_buf set_qname wc0 wb0 w4].
  rewrite !L16. repeat split; try lia; try congruence.
Qed.

(* prepare_w: success and the numbers *)
Lemma prepare_w_numbers (buf : bytes) (tcp : bool) id rd qname qtype qclass (edns : option N) limit :
  let L0 := Nat.min (if tcp then tcp_limit_w else udp_limit_w) (length buf) in
  let n := length (nm_wire qname) in
  12 + n + 4 + (match edns with Some _ => 11 | None => 0 end) <= L0 ->
  (forall sz, edns = Some sz -> tcp = false -> L0 <= limit /\ limit <= length buf) ->
  exists w, prepare_w buf tcp id rd qname qtype qclass edns limit = Some w /\
    w_cursor w = 12 + n + 4 /\
    match edns with
    | None => w_limit w = L0 /\ w_avail w = L0 /\ w_ar w = 0%N
    | Some _ => w_limit w = (if tcp then L0 else limit) /\ w_avail w = (if tcp then L0 else limit) - 11 /\ w_ar w = 1%N
    end.
Proof.
  intros L0 n Hfit Hlim. unfold prepare_w.
  assert (H12 : 12 <= L0) by lia. assert (Hb12 : 12 <= length buf) by (unfold L0 in H12; lia).
  unfold writer_new. fold L0. change header_size with 12.
  destruct (L0 <? 12) eqn:X1; [apply Nat.ltb_lt in X1; lia|].
  destruct (length buf <? 12) eqn:X2; [apply Nat.ltb_lt in X2; lia|].
  set (buf0 := repeat 0%N 12 ++ skipn 12 buf).
  assert (Lb0 : length buf0 = length buf) by (unfold buf0; rewrite app_length, repeat_length, skipn_length; lia).
  set (W0 := mkW buf0 12 L0 L0 12 SecQuestion 0 0 0 0 None None None Standard None None).
  destruct (w_write_ok W0 (N.to_nat ID_START) (be16 id)) as (b1 & E1 & L1); [cbn; lia|].
  unfold set_id. rewrite E1. cbn [bind].
  destruct (w_modify_ok (set_buf W0 b1) QR_BYTE (set_bit QR_MASK true)) as (b2 & E2 & L2); [cbn [w_buf set_buf]; change (N.to_nat QR_BYTE) with 2; cbn in L1; lia|].
  unfold set_qr, w_set_flag. rewrite E2. cbn [bind]. rewrite set_buf_idem.
  destruct (w_modify_ok (set_buf W0 b2) OPCODE_BYTE (fun x => N.lor (N.land x (255 - OPCODE_MASK)) ((0 * 2 ^ OPCODE_SHIFT) mod 256)))
    as (b3 & E3 & L3); [cbn [w_buf set_buf] in *; change (N.to_nat OPCODE_BYTE) with 2; cbn in L1; lia|].
  unfold set_opcode. rewrite E3. cbn [bind]. rewrite set_buf_idem.
  destruct (w_modify_ok (set_buf W0 b3) RD_BYTE (set_bit RD_MASK rd)) as (b4 & E4 & L4); [cbn [w_buf set_buf] in *; change (N.to_nat RD_BYTE) with 2; cbn in L1; lia|].
  unfold set_rd, w_set_flag. rewrite E4. rewrite set_buf_idem.
  cbn [w_buf set_buf W0] in L1, L2, L3, L4.
  assert (Lb4 : length b4 = length buf) by congruence.
  destruct (fresh_add_question_ok buf0 L0 qname qtype qclass b4) as (w5 & E5 & C5 & Li5 & A5 & R5 & Ed5 & Lb5);
    [unfold L0; lia|fold n; lia|].
  change header_size with 12 in E5. fold W0 in E5. rewrite E5.
  destruct edns as [size|].
  - unfold set_edns. rewrite Ed5. change opt_record_size with 11.
    destruct (w_avail w5 <? w_cursor w5 + 11) eqn:Y; [apply Nat.ltb_lt in Y; fold n in C5; lia|].
    rewrite R5. change (checked_add16 0 1) with (Some 1%N). cbv iota.
    match goal with |- context [set_edns_f ?a ?b] => set (w6 := set_edns_f a b) end.
    destruct tcp.
    + exists w6. split; [reflexivity|]. unfold w6.
      cbn [w_cursor w_limit w_avail w_ar set_edns_f set_avail set_limit_avail set_counts].
      rewrite C5, Li5, A5. repeat split.
    + destruct (Hlim size eq_refl eq_refl) as [Hl1 Hl2].
      unfold MsgWriter.set_limit.
      assert (F6 : w_limit w6 = L0 /\ w_avail w6 = L0 - 11 /\ w_cursor w6 = 12 + n + 4 /\ length (w_buf w6) = length buf /\ w_ar w6 = 1%N).
      { unfold w6. cbn [w_cursor w_limit w_avail w_ar w_buf set_edns_f set_avail set_limit_avail set_counts].
        rewrite C5, Li5, A5. repeat split. congruence. }
      destruct F6 as (F1 & F2 & F3 & F4 & F5). rewrite F1, F4.
      destruct (L0 <=? limit) eqn:Z; [|apply Nat.leb_gt in Z; lia].
      destruct (Nat.min limit (length buf) <? L0) eqn:Z2; [apply Nat.ltb_lt in Z2; lia|].
      eexists. split; [reflexivity|]. cbn [w_cursor w_limit w_avail w_ar set_limit_avail].
      rewrite F2, F3, F5. repeat split; try lia.
  - exists w5. split; [reflexivity|]. fold n in C5. repeat split; assumption.
Qed.

(* ---------- the agreement ---------- *)
Theorem prepare_w_agrees verify cfg req w0 q buf : wf_cfg cfg -> wf_bytes req ->
  prescan verify cfg req = Ok (PClean OPCODE_QUERY w0) -> Server.w_tsig w0 = None -> Server.w_question w0 = Some q ->
  length buf = c_buflen cfg ->
  exists w, prepare_w buf (match c_transport cfg with Tcp => true | Udp => false end)
                      (Server.w_id w0) (Server.w_rd w0) (labels_of (Reader.q_name q)) (Reader.q_type q) (Reader.q_class q)
                      (option_map fst (Server.w_edns w0)) (Server.w_limit w0) = Some w /\
    MsgWriter.w_cursor w = Server.w_cursor w0 /\ MsgWriter.w_limit w = Server.w_limit w0 /\
    MsgWriter.w_avail w = Server.w_avail w0 /\ MsgWriter.w_ar w = Server.w_arcount w0.
Proof.
  intros Hcfg Hwf H Hts Hq Hbuf. pose proof Hcfg as (H512 & H64k & Hbl).
  destruct (clean_query_numbers verify cfg req _ w0 q Hcfg Hwf H Hts Hq) as ((seen & I) & Hc & Hb & Hwire & HL).
  cbv zeta in HL. destruct HL as [HLn HLt].
  destruct I as (A & B & C & D & E & F & G & Har & J).
  (* the question's name *)
  destruct (prescan_facts verify cfg req Hcfg Hwf) as (p & Ep & Fp). rewrite H in Ep. inv Ep.
  destruct Fp as ((H12 & _ & _ & QE & _) & _). unfold question_echo in QE. rewrite Hq in QE.
  destruct QE as [QE|(_ & r1 & q' & RQ & QE)]; [discriminate|]. inv QE.
  pose proof (read_question_facts (r0_of req) (r0_inv req Hwf H12)) as (_ & _ & _ & Fq).
  rewrite RQ in Fq. cbn [fst snd] in Fq. destruct (Fq q' eq_refl) as (ls & Dq & Nm & _).
  assert (Hv : Forall RdataFormatS.valid_label ls).
  { inversion Dq as [ls' l qt qc DN _ _]; subst. destruct DN as (e & De & _). eapply RdNameP.decodes_labels_valid; eauto. }
  rewrite Nm in *. rewrite (QueryNameP.labels_of_name_of ls Hv).
  change (n_wire (NameRepr.name_of ls)) with (nm_wire ls) in *.
  set (tcp := match c_transport cfg with Tcp => true | Udp => false end).
  assert (HL0 : Nat.min (if tcp then tcp_limit_w else udp_limit_w) (length buf) =
                Nat.min (match c_transport cfg with Tcp => tcp_limit | Udp => udp_limit end) (c_buflen cfg)).
  { rewrite Hbuf. unfold tcp. destruct (c_transport cfg); reflexivity. }
  assert (H512' : 512 <= Nat.min (if tcp then tcp_limit_w else udp_limit_w) (length buf)).
  { rewrite HL0. unfold tcp_limit, udp_limit in *. destruct (c_transport cfg); lia. }
  destruct (prepare_w_numbers buf tcp (Server.w_id w0) (Server.w_rd w0) ls (Reader.q_type q') (Reader.q_class q')
              (option_map fst (Server.w_edns w0)) (Server.w_limit w0)) as (w & Ew & Cw & Nw).
  { destruct (option_map fst (Server.w_edns w0)); lia. }
  { intros sz Hs Ht. unfold tcp in Ht. destruct (c_transport cfg) eqn:Tr; [discriminate|].
    rewrite HL0. unfold udp_limit. rewrite Hbuf, <- Hb. lia. }
  exists w. split; [exact Ew|]. split; [rewrite Cw, Hc; reflexivity|].
  unfold reserved in G. destruct (Server.w_edns w0) as [[sz up]|] eqn:Ed; cbn [option_map fst] in Nw.
  - destruct Nw as (N1 & N2 & N3). rewrite N1, N2, N3, Har.
    assert (X : (if tcp then Nat.min (if tcp then tcp_limit_w else udp_limit_w) (length buf) else Server.w_limit w0) = Server.w_limit w0).
    { unfold tcp in *. destruct (c_transport cfg) eqn:Tr; [|reflexivity]. rewrite HL0. symmetry. apply HLt. reflexivity. }
    rewrite X. repeat split; lia.
  - destruct Nw as (N1 & N2 & N3). pose proof (HLn eq_refl) as HLn'. rewrite N1, N2, N3, Har, HL0. repeat split; lia.
Qed.
