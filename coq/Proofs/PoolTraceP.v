(* Soundness of the trace validator: a trace accepted by [validate] from an initial
   state is the image of a genuine run of the LTS, so its end state is reachable and
   everything proved about reachable states applies to it. *)
From Coq Require Import Lia.
From QV Require Import Model.Pool Model.PoolTrace Spec.PoolS Proofs.PoolP.

Lemma run_app fx ls1 : forall s ls2, run fx s (ls1 ++ ls2) =
  match run fx s ls1 with Some s1 => run fx s1 ls2 | None => None end.
Proof.
  induction ls1 as [|l r IH]; intros s ls2; simpl; [reflexivity|].
  destruct (step fx s l); [apply IH | reflexivity].
Qed.

Lemma accept_event_run fx s e s' : accept_event fx s e = Some s' -> exists ls, run fx s ls = Some s'.
Proof.
  unfold accept_event. destruct (negb (note_ok s e)); [discriminate|].
  destruct (event_labels fx s e) as [[ls pool]|]; [|discriminate].
  destruct (run fx s ls) as [s1|] eqn:E; [|discriminate].
  destruct ((if pool then pool_counters s1 e else group_counters s1 e) && negb (crashed s1)); [|discriminate].
  intros H; inversion H; subst. exists ls; exact E.
Qed.

Lemma validate_run fx evs : forall s k s', validate fx s evs k = (s', None) -> exists ls, run fx s ls = Some s'.
Proof.
  induction evs as [|e r IH]; simpl; intros s k s' H.
  - inversion H; subst. exists []; reflexivity.
  - destruct (accept_event fx s e) as [s1|] eqn:E; [|discriminate].
    destruct (accept_event_run _ _ _ _ E) as (l1 & H1).
    destruct (IH _ _ _ H) as (l2 & H2).
    exists (l1 ++ l2). rewrite run_app, H1. exact H2.
Qed.

Theorem validate_reachable fx s0 evs s : initial s0 -> validate fx s0 evs 0 = (s, None) -> reachable fx s.
Proof.
  intros H0 H. destruct (validate_run _ _ _ _ _ H) as (ls & Hr). exists s0, ls; split; assumption.
Qed.

(* the counters the hooks logged are the model's counters after each accepted event *)
Lemma accept_event_counters fx s e s' : accept_event fx s e = Some s' ->
  crashed s' = false /\ (pool_counters s' e = true \/ group_counters s' e = true).
Proof.
  unfold accept_event. destruct (negb (note_ok s e)); [discriminate|].
  destruct (event_labels fx s e) as [[ls pool]|]; [|discriminate].
  destruct (run fx s ls) as [s1|]; [|discriminate].
  destruct ((if pool then pool_counters s1 e else group_counters s1 e) && negb (crashed s1)) eqn:E; [|discriminate].
  intros H; inversion H; subst. apply andb_true_iff in E. destruct E as [E1 E2].
  split; [destruct (crashed s'); [discriminate | reflexivity]|].
  destruct pool; [left | right]; exact E1.
Qed.

(* what an accepted trace of the repaired code inherits from the proofs *)
Theorem validated_trace_safe s0 evs s : initial s0 -> validate true s0 evs 0 = (s, None) ->
  exactly_one_place s /\ never_twice s /\ await_ok s /\ crashed s = false.
Proof.
  intros H0 H. pose proof (validate_reachable _ _ _ _ H0 H) as R.
  destruct (exactly_once_reachable s R) as [A B].
  split; [exact A | split; [exact B | split; [apply await_reachable; exact R | apply no_crash_reachable; exact R]]].
Qed.
