(* C30 — the TCP connection loop serves the framed requests of the byte stream, for every
   way the stream is cut into reads. *)
From QV Require Import Base.Res Base.Octets Base.ListX Model.Framing Spec.FramingS Proofs.FramingSP.

Definition cr (e : end_reason) : close_reason :=
  match e with
  | EndEof => ClEof | EndTimeout => ClTimeout | EndIoError => ClIoError
  | EndBlocked => ClBlocked | EndNoResponse => ClNoResponse
  end.

(* how the connection ends when the data is followed by the events tl *)
Definition tail_end (tl : list rd_event) : end_reason :=
  match tl with
  | [] => EndBlocked
  | RdEof :: _ => EndEof
  | RdTimeout :: _ => EndTimeout
  | RdErr :: _ => EndIoError
  | RdIntr _ :: _ => EndTimeout
  | RdData _ _ :: _ => EndBlocked
  end.
Definition stop_tail (tl : list rd_event) : Prop :=
  match tl with [] => True | e :: _ => is_stop e = true end.
Definition data (s : bytes) : rd_event := RdData s false.

(* ---------------------------------------------------------------- buffer operations *)

Lemma nth_error_firstn_lt {A} (l : list A) n i : i < n -> nth_error (firstn n l) i = nth_error l i.
Proof.
  revert n i. induction l as [|x l IH]; intros n i H.
  - rewrite firstn_nil. reflexivity.
  - destruct n; [lia|]. destruct i; [reflexivity|]. simpl. apply IH. lia.
Qed.

Lemma buf_write_length (buf : bytes) off d :
  off + length d <= length buf -> length (buf_write buf off d) = length buf.
Proof.
  intros H. unfold buf_write. rewrite !app_length, firstn_length, skipn_length. lia.
Qed.

Lemma firstn_buf_write (buf : bytes) off d :
  off <= length buf -> firstn (off + length d) (buf_write buf off d) = firstn off buf ++ d.
Proof.
  intros H. unfold buf_write. rewrite app_assoc.
  rewrite firstn_app.
  assert (E : length (firstn off buf ++ d) = off + length d).
  { rewrite app_length, firstn_length. lia. }
  rewrite E, Nat.sub_diag. simpl. rewrite app_nil_r.
  rewrite <- E. apply firstn_all.
Qed.

Lemma nth_error_buf_write_lt (buf : bytes) off d i :
  i < off -> off <= length buf -> nth_error (buf_write buf off d) i = nth_error buf i.
Proof.
  intros Hi Hoff. unfold buf_write. rewrite nth_error_app1 by (rewrite firstn_length; lia).
  apply nth_error_firstn_lt. exact Hi.
Qed.

Lemma copy_within0_length (buf : bytes) a b :
  a <= b -> b <= length buf -> length (copy_within0 buf a b) = length buf.
Proof.
  intros H1 H2. unfold copy_within0. rewrite app_length, slice_length, skipn_length by lia. lia.
Qed.

Lemma firstn_copy_within0 (buf : bytes) a b :
  a <= b -> b <= length buf -> firstn (b - a) (copy_within0 buf a b) = slice buf a b.
Proof.
  intros H1 H2. unfold copy_within0.
  rewrite firstn_app, slice_length, Nat.sub_diag by lia. simpl. rewrite app_nil_r.
  rewrite <- (slice_length buf a b) at 1 by lia. apply firstn_all.
Qed.

Lemma firstn_split_frame (buf : bytes) n h l L :
  nth_error buf 0 = Some h -> nth_error buf 1 = Some l -> L + 2 <= n ->
  firstn n buf = h :: l :: slice buf 2 (L + 2) ++ slice buf (L + 2) n.
Proof.
  intros H0 H1 Hn. rewrite <- slice_0.
  rewrite (slice_cons buf 0 h n H0) by lia.
  rewrite (slice_cons buf 1 l n H1) by lia.
  rewrite (slice_app buf 2 (L + 2) n) by lia. reflexivity.
Qed.

Lemma to_be16_frame (r : bytes) : (N.of_nat (length r) < 65536)%N -> to_be16 (length r) ++ r = frame r.
Proof.
  intros H. unfold to_be16, frame. rewrite N.mod_small by exact H. cbn [app].
  assert (E1 : (N.of_nat (length r) / 256)%N = N.of_nat (length r / 256)).
  { change 256%N with (N.of_nat 256). rewrite <- Nat2N.inj_div. reflexivity. }
  assert (E2 : (N.of_nat (length r) mod 256)%N = N.of_nat (length r mod 256)).
  { change 256%N with (N.of_nat 256). rewrite <- Nat2N.inj_mod. reflexivity. }
  rewrite E1, E2. reflexivity.
Qed.

Lemma drain_close_val evs : drain_close evs = ClNoResponse.
Proof.
  induction evs as [|e evs IH]; [reflexivity|].
  destruct e as [s ex| | |ex|]; try reflexivity.
  - destruct s; [reflexivity|]. destruct ex; [reflexivity|exact IH].
  - destruct ex; [reflexivity|exact IH].
Qed.

Lemma be16_bound h l : is_octet h -> is_octet l -> be16 h l + 2 <= N.to_nat 65537.
Proof. unfold is_octet, be16. lia. Qed.

(* ---------------------------------------------------------------- the loop *)

Section Loop.
  Variable handler : bytes -> option bytes.
  Variable cap rcap : nat.
  Hypothesis Hcap : (65537 <= N.of_nat cap)%N.
  Hypothesis Hrcap : (65537 <= N.of_nat rcap)%N.
  Hypothesis Hbound : forall m r, handler m = Some r -> (N.of_nat (length r) < 65536)%N.

  Let nosd : nat -> bool := fun _ => false.
  Let loop := conn_loop handler cap rcap nosd.

  (* the service of Spec/FramingS.v in the shape the loop produces it *)
  Fixpoint serve (ms : list bytes) (e : end_reason) : list bytes * close_reason :=
    match ms with
    | [] => ([], cr e)
    | m :: ms' =>
        match handler m with
        | None => ([], ClNoResponse)
        | Some r => let '(ws, c) := serve ms' e in (frame r :: ws, c)
        end
    end.

  Lemma serve_service ms e :
    serve ms e = (fst (service handler ms e), cr (snd (service handler ms e))).
  Proof.
    induction ms as [|m ms IH]; [reflexivity|]. cbn [serve].
    destruct (handler m) as [r|] eqn:Hm.
    - rewrite (service_cons_some handler m ms e r Hm), IH. reflexivity.
    - rewrite (service_cons_none handler m ms e Hm). reflexivity.
  Qed.

  (* state invariant at the head of the inner loop *)
  Definition inv (buf : bytes) (n : nat) (lo : option nat) : Prop :=
    length buf = cap /\ n <= cap /\
    match lo with
    | None => True
    | Some L => 2 <= n /\ exists h l, nth_error buf 0 = Some h /\ nth_error buf 1 = Some l /\ L = be16 h l
    end.

  (* the buffered octets do not yet hold a complete frame *)
  Definition need_more (buf : bytes) (n : nat) : Prop :=
    n < 2 \/ exists h l, nth_error buf 0 = Some h /\ nth_error buf 1 = Some l /\ n < be16 h l + 2.

  Lemma need_more_deframe buf n : length buf = cap -> n <= cap -> need_more buf n ->
    deframe (firstn n buf) = [].
  Proof.
    intros Hlen Hn [H|(h & l & H0 & H1 & H)].
    - apply deframe_short. rewrite firstn_length. lia.
    - destruct (Nat.lt_ge_cases n 2) as [Hlt|Hge].
      + apply deframe_short. rewrite firstn_length. lia.
      + rewrite <- slice_0, (slice_cons buf 0 h n H0), (slice_cons buf 1 l n H1) by lia.
        rewrite deframe_cons.
        assert (E : (N.to_nat (h * 256 + l) <=? length (slice buf 2 n)) = false).
        { apply Nat.leb_gt. rewrite slice_length by lia. unfold be16 in H. lia. }
        rewrite E. reflexivity.
  Qed.

  Lemma need_more_room buf n segs : length buf = cap -> n <= cap -> need_more buf n ->
    wf_bytes (firstn n buf ++ concat segs) -> n < cap.
  Proof.
    intros Hlen Hn [H|(h & l & H0 & H1 & H)] Hwf; [lia|].
    destruct (Nat.lt_ge_cases n 2) as [Hlt|Hge]; [lia|].
    assert (Hh : is_octet h).
    { unfold wf_bytes in Hwf. apply Forall_app in Hwf. destruct Hwf as [Hwf _].
      apply (nth_error_Forall _ (firstn n buf) 0 h Hwf). rewrite nth_error_firstn_lt by lia. exact H0. }
    assert (Hl : is_octet l).
    { unfold wf_bytes in Hwf. apply Forall_app in Hwf. destruct Hwf as [Hwf _].
      apply (nth_error_Forall _ (firstn n buf) 1 l Hwf). rewrite nth_error_firstn_lt by lia. exact H1. }
    pose proof (be16_bound h l Hh Hl). lia.
  Qed.

  Definition measure (n : nat) (segs : list bytes) : nat := 2 * length (concat segs) + n + length segs.

  (* the statement proved by induction on the fuel *)
  Definition loop_ok (f : nat) : Prop :=
    forall buf n lo k segs tl,
      inv buf n lo -> Forall (fun s => s <> []) segs -> stop_tail tl ->
      wf_bytes (firstn n buf ++ concat segs) ->
      measure n segs < f ->
      loop f buf n lo k (map data segs ++ tl) =
      Ok (serve (deframe (firstn n buf ++ concat segs)) (tail_end tl)).

  Lemma do_read_ok f buf n lo k segs tl :
    loop_ok f ->
    inv buf n lo -> need_more buf n ->
    Forall (fun s => s <> []) segs -> stop_tail tl ->
    wf_bytes (firstn n buf ++ concat segs) ->
    measure n segs < S f ->
    do_read cap (loop f) buf n lo k (map data segs ++ tl) =
    Ok (serve (deframe (firstn n buf ++ concat segs)) (tail_end tl)).
  Proof.
    intros IH Hinv Hneed Hsegs Htl Hwf Hm.
    destruct Hinv as (Hlen & Hn & Hlo).
    pose proof (need_more_room buf n segs Hlen Hn Hneed Hwf) as Hroom.
    unfold do_read.
    assert (E0 : (cap <? n) = false) by (apply Nat.ltb_ge; lia). rewrite E0.
    destruct segs as [|s segs].
    - cbn [map app concat]. rewrite app_nil_r.
      rewrite (need_more_deframe buf n Hlen Hn Hneed). cbn [serve].
      destruct tl as [|e tl]; [reflexivity|].
      destruct e as [s0 ex| | |ex|]; simpl in Htl; try discriminate; try reflexivity.
      destruct ex; [reflexivity|discriminate].
    - cbn [map app]. unfold data at 1.
      inversion Hsegs as [|? ? Hs Hsegs']; subst.
      set (n' := Nat.min (length s) (cap - n)).
      assert (Hn'1 : 1 <= n').
      { unfold n'. destruct s; [congruence|]. simpl length. lia. }
      assert (Hn'2 : n' <= length s) by (unfold n'; lia).
      assert (Hn'3 : n + n' <= cap) by (unfold n'; lia).
      assert (E1 : (n' =? 0) = false) by (apply Nat.eqb_neq; lia). rewrite E1.
      assert (Hfl : length (firstn n' s) = n') by (rewrite firstn_length; lia).
      set (buf' := buf_write buf n (firstn n' s)).
      assert (Hlen' : length buf' = cap).
      { unfold buf'. rewrite buf_write_length; rewrite ?Hfl; lia. }
      assert (Hfirst : firstn (n + n') buf' = firstn n buf ++ firstn n' s).
      { unfold buf'. rewrite <- Hfl at 1. apply firstn_buf_write. lia. }
      assert (Hinv' : inv buf' (n + n') lo).
      { split; [exact Hlen'|]. split; [exact Hn'3|].
        destruct lo as [L|]; [|exact I].
        destruct Hlo as (H2 & h & l & H0 & H1 & HL).
        split; [lia|]. exists h, l. unfold buf'.
        rewrite !nth_error_buf_write_lt by lia. auto. }
      destruct (n' <? length s) eqn:E2.
      + apply Nat.ltb_lt in E2.
        change (RdData (skipn n' s) false :: map data segs ++ tl)
          with (map data (skipn n' s :: segs) ++ tl).
        rewrite IH; try assumption.
        * f_equal. f_equal. f_equal. rewrite Hfirst. cbn [concat].
          rewrite <- app_assoc. f_equal. rewrite app_assoc, firstn_skipn. reflexivity.
        * constructor; [|assumption]. intros Hnil.
          assert (length (skipn n' s) = 0) by (rewrite Hnil; reflexivity).
          rewrite skipn_length in H. lia.
        * rewrite Hfirst. cbn [concat]. rewrite <- app_assoc, (app_assoc (firstn n' s)), firstn_skipn.
          exact Hwf.
        * unfold measure in *. cbn [concat length] in *. rewrite app_length in *.
          rewrite skipn_length. lia.
      + apply Nat.ltb_ge in E2. assert (Hn's : n' = length s) by lia.
        rewrite IH; try assumption.
        * f_equal. f_equal. f_equal. rewrite Hfirst, Hn's, firstn_all. cbn [concat].
          rewrite <- app_assoc. reflexivity.
        * rewrite Hfirst, Hn's, firstn_all. cbn [concat] in Hwf. rewrite <- app_assoc. exact Hwf.
        * unfold measure in *. cbn [concat length] in *. rewrite app_length in *. lia.
  Qed.

  Lemma process_ok f buf n h l k segs tl :
    loop_ok f ->
    length buf = cap -> n <= cap ->
    nth_error buf 0 = Some h -> nth_error buf 1 = Some l -> be16 h l + 2 <= n ->
    Forall (fun s => s <> []) segs -> stop_tail tl ->
    wf_bytes (firstn n buf ++ concat segs) ->
    measure n segs < S f ->
    process handler cap rcap nosd (loop f) buf n (be16 h l) k (map data segs ++ tl) =
    Ok (serve (deframe (firstn n buf ++ concat segs)) (tail_end tl)).
  Proof.
    intros IH Hlen Hn H0 H1 HL Hsegs Htl Hwf Hm.
    set (L := be16 h l) in *.
    rewrite (firstn_split_frame buf n h l L H0 H1 HL) in *.
    set (m := slice buf 2 (L + 2)) in *.
    set (x := slice buf (L + 2) n) in *.
    assert (Hml : length m = L) by (unfold m; rewrite slice_length; lia).
    assert (Hxl : length x = n - (L + 2)) by (unfold x; rewrite slice_length; lia).
    assert (Hdf : deframe ((h :: l :: m ++ x) ++ concat segs) = m :: deframe (x ++ concat segs)).
    { cbn [app]. rewrite deframe_cons. fold (be16 h l). fold L.
      rewrite <- app_assoc.
      assert (E : (L <=? length (m ++ x ++ concat segs)) = true).
      { apply Nat.leb_le. rewrite app_length. lia. }
      rewrite E. f_equal.
      - rewrite firstn_app, Hml, Nat.sub_diag. simpl. rewrite app_nil_r.
        rewrite <- Hml. apply firstn_all.
      - rewrite skipn_app, Hml, Nat.sub_diag. simpl. rewrite <- Hml, skipn_all. reflexivity. }
    rewrite Hdf. cbn [serve].
    unfold process.
    assert (E1 : (cap <? L + 2) = false) by (apply Nat.ltb_ge; lia). rewrite E1.
    assert (E2 : (rcap <? 2) = false) by (apply Nat.ltb_ge; lia). rewrite E2.
    assert (E3 : (N.of_nat (rcap - 2) <? 65535)%N = false) by (apply N.ltb_ge; lia). rewrite E3.
    fold m.
    destruct (handler m) as [r|] eqn:Hr; [|rewrite drain_close_val; reflexivity].
    pose proof (Hbound m r Hr) as Hrb.
    assert (E4 : (rcap <? 2 + length r) = false) by (apply Nat.ltb_ge; lia). rewrite E4.
    rewrite (to_be16_frame r Hrb). unfold nosd at 1. cbv beta.
    assert (Hwf' : wf_bytes (x ++ concat segs)).
    { unfold wf_bytes in *. cbn [app] in Hwf. inversion Hwf as [|? ? _ Hw1]; subst.
      inversion Hw1 as [|? ? _ Hw2]; subst. rewrite <- app_assoc in Hw2.
      apply Forall_app in Hw2. tauto. }
    destruct (L + 2 <? n) eqn:E5.
    - apply Nat.ltb_lt in E5.
      assert (Hinv' : inv (copy_within0 buf (L + 2) n) (n - (L + 2)) None).
      { split; [rewrite copy_within0_length; lia|]. split; [lia|exact I]. }
      assert (Hf' : firstn (n - (L + 2)) (copy_within0 buf (L + 2) n) = x).
      { unfold x. apply firstn_copy_within0; lia. }
      rewrite IH; try assumption.
      + rewrite Hf'. cbn [map_ok]. destruct (serve (deframe (x ++ concat segs)) (tail_end tl)). reflexivity.
      + rewrite Hf'. exact Hwf'.
      + unfold measure in *. lia.
    - apply Nat.ltb_ge in E5. assert (Hx : x = []).
      { apply length_zero_iff_nil. lia. }
      assert (Hinv' : inv buf 0 None).
      { split; [exact Hlen|]. split; [lia|exact I]. }
      rewrite IH; try assumption.
      + cbn [firstn]. rewrite Hx. cbn [map_ok]. cbn [app].
        destruct (serve (deframe (concat segs)) (tail_end tl)). reflexivity.
      + cbn [firstn app]. rewrite Hx in Hwf'. exact Hwf'.
      + unfold measure in *. lia.
  Qed.

  Lemma loop_ok_all : forall f, loop_ok f.
  Proof.
    induction f as [|f IH]; intros buf n lo k segs tl Hinv Hsegs Htl Hwf Hm; [lia|].
    unfold loop. cbn [conn_loop]. fold loop. unfold conn_step.
    pose proof Hinv as (Hlen & Hn & Hlo).
    destruct lo as [L|].
    - destruct Hlo as (H2 & h & l & H0 & H1 & HL). subst L.
      destruct (be16 h l + 2 <=? n) eqn:E.
      + apply Nat.leb_le in E. apply process_ok; assumption.
      + apply Nat.leb_gt in E. apply do_read_ok; try assumption.
        right. exists h, l. auto.
    - destruct (2 <=? n) eqn:E2.
      + apply Nat.leb_le in E2.
        destruct (nth_error buf 0) as [h|] eqn:H0.
        2:{ apply nth_error_None in H0. lia. }
        destruct (nth_error buf 1) as [l|] eqn:H1.
        2:{ apply nth_error_None in H1. lia. }
        destruct (be16 h l + 2 <=? n) eqn:E.
        * apply Nat.leb_le in E. apply process_ok; assumption.
        * apply Nat.leb_gt in E. apply do_read_ok; try assumption.
          -- split; [exact Hlen|]. split; [exact Hn|]. split; [exact E2|]. exists h, l. auto.
          -- right. exists h, l. auto.
      + apply Nat.leb_gt in E2. apply do_read_ok; try assumption. left. exact E2.
  Qed.

  Lemma evs_bytes_app a b : evs_bytes (a ++ b) = evs_bytes a + evs_bytes b.
  Proof. induction a as [|e a IH]; simpl; [reflexivity|]. rewrite IH. lia. Qed.

  Lemma evs_bytes_data segs : evs_bytes (map data segs) = length (concat segs).
  Proof.
    induction segs as [|s segs IH]; [reflexivity|]. simpl. rewrite IH, app_length. reflexivity.
  Qed.

  (* Every segmentation of every stream: the loop serves exactly the framed messages. *)
  Lemma run_tcp_stream segs tl ms t :
    Forall (fun s => s <> []) segs -> stop_tail tl -> wf_bytes (concat segs) ->
    framed ms t (concat segs) ->
    run_tcp handler cap rcap nosd (map data segs ++ tl) =
    Ok (fst (service handler ms (tail_end tl)), cr (snd (service handler ms (tail_end tl)))).
  Proof.
    intros Hsegs Htl Hwf Hfr. unfold run_tcp.
    pose proof (loop_ok_all (tcp_fuel (map data segs ++ tl)) (repeat 0%N cap) 0 None 0 segs tl) as H.
    unfold loop in H. rewrite H; try assumption.
    - cbn [firstn app]. rewrite (framed_deframe ms t _ Hfr). rewrite serve_service. reflexivity.
    - split; [apply repeat_length|]. split; [lia|exact I].
    - unfold measure, tcp_fuel. rewrite evs_bytes_app, evs_bytes_data, app_length, map_length. lia.
  Qed.

  (* The property's TCP statement. *)
  Lemma run_tcp_segmentation reqs segs tl :
    Forall wf_bytes reqs -> Forall (fun m => (N.of_nat (length m) < 65536)%N) reqs ->
    Forall (fun s => s <> []) segs -> stop_tail tl ->
    concat segs = frame_all reqs ->
    run_tcp handler cap rcap nosd (map data segs ++ tl) =
    Ok (fst (service handler reqs (tail_end tl)), cr (snd (service handler reqs (tail_end tl)))).
  Proof.
    intros Hwf Hlen Hsegs Htl Hcat.
    apply (run_tcp_stream segs tl reqs []); try assumption.
    - rewrite Hcat. apply wf_frame_all; assumption.
    - rewrite Hcat. apply framed_frame_all. exact Hlen.
  Qed.
End Loop.

(* ---------------------------------------------------------------- totality *)

(* For EVERY event list (any octet values, timeouts, errors, interrupts, oversized reads) and
   every shutdown schedule the loop neither panics nor runs out of the model's fuel. *)
Section Total.
  Variable handler : bytes -> option bytes.
  Variable cap rcap : nat.
  Variable sd : nat -> bool.
  Hypothesis Hcap : (65537 <= N.of_nat cap)%N.
  Hypothesis Hrcap : (65537 <= N.of_nat rcap)%N.
  Hypothesis Hbound : forall m r, handler m = Some r -> (N.of_nat (length r) < 65536)%N.

  Let loop := conn_loop handler cap rcap sd.

  Definition is_okr (r : R) : Prop := exists ws c, r = Ok (ws, c).

  Definition total_at (f : nat) : Prop :=
    forall buf n lo k evs, length buf = cap -> n <= cap ->
      2 * evs_bytes evs + n + length evs < f -> is_okr (loop f buf n lo k evs).

  Lemma do_read_total f buf n lo k evs :
    total_at f -> length buf = cap -> n <= cap ->
    2 * evs_bytes evs + n + length evs < S f ->
    is_okr (do_read cap (loop f) buf n lo k evs).
  Proof.
    intros IH Hlen Hn Hm. unfold do_read.
    assert (E0 : (cap <? n) = false) by (apply Nat.ltb_ge; lia). rewrite E0.
    destruct evs as [|e evs]; [eexists _, _; reflexivity|].
    destruct e as [s ex| | |ex|]; try (eexists _, _; reflexivity).
    - set (n' := Nat.min (length s) (cap - n)).
      destruct (n' =? 0) eqn:E1; [eexists _, _; reflexivity|].
      apply Nat.eqb_neq in E1.
      destruct ex; [eexists _, _; reflexivity|].
      assert (Hfl : length (firstn n' s) = n') by (rewrite firstn_length; unfold n'; lia).
      apply IH.
      + rewrite buf_write_length; rewrite ?Hfl; unfold n'; lia.
      + unfold n'. lia.
      + cbn [evs_bytes fold_right ev_bytes length] in Hm. fold (evs_bytes evs) in Hm.
        destruct (n' <? length s) eqn:E2.
        * apply Nat.ltb_lt in E2. cbn [evs_bytes fold_right ev_bytes length]. fold (evs_bytes evs).
          rewrite skipn_length. lia.
        * apply Nat.ltb_ge in E2. assert (n' <= length s) by (unfold n'; lia). lia.
    - destruct ex; [eexists _, _; reflexivity|].
      apply IH; try assumption.
      cbn [evs_bytes fold_right ev_bytes length] in Hm. fold (evs_bytes evs) in Hm. lia.
  Qed.

  Lemma process_total f buf n L k evs :
    total_at f -> length buf = cap -> n <= cap -> L + 2 <= n ->
    2 * evs_bytes evs + n + length evs < S f ->
    is_okr (process handler cap rcap sd (loop f) buf n L k evs).
  Proof.
    intros IH Hlen Hn HL Hm. unfold process.
    assert (E1 : (cap <? L + 2) = false) by (apply Nat.ltb_ge; lia). rewrite E1.
    assert (E2 : (rcap <? 2) = false) by (apply Nat.ltb_ge; lia). rewrite E2.
    assert (E3 : (N.of_nat (rcap - 2) <? 65535)%N = false) by (apply N.ltb_ge; lia). rewrite E3.
    destruct (handler (slice buf 2 (L + 2))) as [r|] eqn:Hr; [|eexists _, _; reflexivity].
    pose proof (Hbound _ r Hr) as Hrb.
    assert (E4 : (rcap <? 2 + length r) = false) by (apply Nat.ltb_ge; lia). rewrite E4.
    destruct (sd k); [eexists _, _; reflexivity|].
    destruct (L + 2 <? n) eqn:E5.
    - apply Nat.ltb_lt in E5.
      destruct (IH (copy_within0 buf (L + 2) n) (n - (L + 2)) None (S k) evs) as (ws & c & Hr').
      + rewrite copy_within0_length; lia.
      + lia.
      + lia.
      + rewrite Hr'. eexists _, _; reflexivity.
    - destruct (IH buf 0 None (S k) evs) as (ws & c & Hr'); try assumption; try lia.
      rewrite Hr'. eexists _, _; reflexivity.
  Qed.

  Lemma total_all : forall f, total_at f.
  Proof.
    induction f as [|f IH]; intros buf n lo k evs Hlen Hn Hm; [lia|].
    unfold loop. cbn [conn_loop]. fold loop. unfold conn_step.
    destruct lo as [L|].
    - destruct (L + 2 <=? n) eqn:E.
      + apply Nat.leb_le in E. apply process_total; assumption.
      + apply do_read_total; assumption.
    - destruct (2 <=? n) eqn:E2; [|apply do_read_total; assumption].
      apply Nat.leb_le in E2.
      destruct (nth_error buf 0) as [h|] eqn:H0.
      2:{ apply nth_error_None in H0. lia. }
      destruct (nth_error buf 1) as [l|] eqn:H1.
      2:{ apply nth_error_None in H1. lia. }
      destruct (be16 h l + 2 <=? n) eqn:E.
      + apply Nat.leb_le in E. apply process_total; assumption.
      + apply do_read_total; assumption.
  Qed.

  Lemma run_tcp_total evs : is_okr (run_tcp handler cap rcap sd evs).
  Proof.
    unfold run_tcp. apply total_all; [apply repeat_length|lia|unfold tcp_fuel; lia].
  Qed.
End Total.

(* ---------------------------------------------------------------- UDP *)

Section UdpP.
  Variable handler : bytes -> option bytes.
  Variable psize : nat.

  (* the sends the specification allows for one datagram *)
  Definition udp_spec_one (d : dgram) : list usend :=
    match udp_answer handler psize (dg_payload d) with
    | Some r => [{| us_payload := r; us_to := dg_src d; us_from := dg_dst d |}]
    | None => []
    end.

  Lemma udp_one_spec d out : udp_one handler psize d = Ok out ->
    out = udp_spec_one d /\ length out <= 1 /\
    forall s, In s out -> us_to s = dg_src d /\ us_from s = dg_dst d /\ length (us_payload s) <= psize.
  Proof.
    unfold udp_one, udp_spec_one, udp_answer.
    destruct (handler (firstn psize (dg_payload d))) as [r|].
    - destruct (psize <? length r) eqn:E; [discriminate|]. apply Nat.ltb_ge in E.
      intros H; inversion H; subst. split; [reflexivity|]. split; [simpl; lia|].
      intros s [<-|[]]. simpl. auto.
    - intros H; inversion H; subst. split; [reflexivity|]. split; [simpl; lia|]. intros s [].
  Qed.

  Lemma udp_one_total d : (forall m r, handler m = Some r -> length r <= psize) ->
    exists out, udp_one handler psize d = Ok out.
  Proof.
    intros Hb. unfold udp_one.
    destruct (handler (firstn psize (dg_payload d))) as [r|] eqn:Hr; [|eauto].
    apply Hb in Hr. assert (E : (psize <? length r) = false) by (apply Nat.ltb_ge; lia).
    rewrite E. eauto.
  Qed.

  (* datagrams received by the worker before it stops *)
  Fixpoint udp_received (sd : nat -> bool) (i : nat) (evs : list ud_event) : list dgram :=
    match evs with
    | [] => []
    | e :: evs' =>
        if sd i then []
        else match e with
        | UdRecv d => d :: udp_received sd (S i) evs'
        | UdErr => []
        | _ => udp_received sd (S i) evs'
        end
    end.

  Lemma udp_blocking_spec sd : forall evs i out,
    udp_blocking handler psize sd i evs = Ok out ->
    out = flat_map udp_spec_one (udp_received sd i evs).
  Proof.
    induction evs as [|e evs IH]; intros i out H; simpl in H.
    - inversion H. reflexivity.
    - simpl. destruct (sd i); [inversion H; reflexivity|].
      destruct e as [d| | |].
      + destruct (udp_one handler psize d) as [o| |] eqn:Ho; simpl in H; try discriminate.
        destruct (udp_blocking handler psize sd (S i) evs) as [rest| |] eqn:Hr; simpl in H; try discriminate.
        inversion H; subst. simpl. apply udp_one_spec in Ho. destruct Ho as [-> _].
        f_equal. apply IH. exact Hr.
      + apply IH. exact H.
      + apply IH. exact H.
      + inversion H. reflexivity.
  Qed.

  Lemma udp_blocking_total sd : (forall m r, handler m = Some r -> length r <= psize) ->
    forall evs i, exists out, udp_blocking handler psize sd i evs = Ok out.
  Proof.
    intros Hb. induction evs as [|e evs IH]; intros i; simpl; [eauto|].
    destruct (sd i); [eauto|]. destruct e as [d| | |]; eauto.
    destruct (udp_one_total d Hb) as [o Ho]. destruct (IH (S i)) as [rest Hr].
    rewrite Ho, Hr. simpl. eauto.
  Qed.

  (* every send is the answer to one received datagram: to its source, from the address it
     was sent to, at most psize octets, and each datagram accounts for at most one send *)
  Lemma udp_sends_bounded sd : forall evs i out,
    udp_blocking handler psize sd i evs = Ok out ->
    Forall (fun s => length (us_payload s) <= psize) out.
  Proof.
    induction evs as [|e evs IH]; intros i out H; simpl in H.
    - inversion H. constructor.
    - destruct (sd i); [inversion H; constructor|].
      destruct e as [d| | |]; eauto; [|inversion H; constructor].
      destruct (udp_one handler psize d) as [o| |] eqn:Ho; simpl in H; try discriminate.
      destruct (udp_blocking handler psize sd (S i) evs) as [rest| |] eqn:Hr; simpl in H; try discriminate.
      inversion H; subst. apply Forall_app. split; [|eapply IH; eauto].
      apply udp_one_spec in Ho. destruct Ho as (_ & _ & Hs).
      apply Forall_forall. intros s Hin. apply Hs in Hin. tauto.
  Qed.

  Lemma udp_spec_at_most_one ds : length (flat_map udp_spec_one ds) <= length ds.
  Proof.
    induction ds as [|d ds IH]; simpl; [lia|].
    rewrite app_length. unfold udp_spec_one at 1.
    destruct (udp_answer handler psize (dg_payload d)); simpl; lia.
  Qed.

  (* the Tokio receiver: the task spawned for each datagram computes the same answer *)
  Lemma udp_tokio_spec : forall evs,
    Forall2 (fun r d => forall out, r = Ok out -> out = udp_spec_one d)
            (udp_tokio handler psize evs)
            (udp_received (fun _ => false) 0 evs).
  Proof.
    intros evs. generalize 0. induction evs as [|e evs IH]; intros i; simpl; [constructor|].
    destruct e as [d| | |]; simpl; auto.
    constructor; [|apply IH]. intros out Ho. apply udp_one_spec in Ho. tauto.
  Qed.
End UdpP.
