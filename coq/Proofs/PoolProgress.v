(* No deadlock after shutdown was requested, and a measure that every non-environment
   step decreases once both shutdown flags are set (repaired loop). *)
From Coq Require Import Lia Permutation Wellfounded.
From QV Require Import Model.Pool Spec.PoolS Proofs.PoolLemmas Proofs.PoolInv Proofs.PoolP.

(* ---- every thread that is neither finished nor blocked in a wait can take a step ---- *)

Definition is_waiting (p : pc) : bool := on_task p || on_avail p || on_sd p.
Definition is_active (p : pc) : bool := negb (quiescent_pc p) && negb (is_waiting p).

Lemma existsb_nth (f : pc -> bool) l : existsb f l = true -> exists i p, nth_error l i = Some p /\ f p = true.
Proof.
  induction l as [|h t IH]; simpl; intros H; [discriminate|].
  destruct (f h) eqn:E.
  - exists 0, h; split; [reflexivity | exact E].
  - destruct (IH H) as (i & p & Hn & Hf). exists (S i), p; split; assumption.
Qed.

Lemma existsb_false_all (f : pc -> bool) l : existsb f l = false -> forall p, In p l -> f p = false.
Proof.
  induction l as [|h t IH]; simpl; intros H p Hp; [contradiction|].
  apply orb_false_iff in H; destruct H as [H1 H2].
  destruct Hp as [->|Hp]; [exact H1 | apply IH; assumption].
Qed.

Lemma active_can_move s i p : glock s = false -> nth_error (thr s) i = Some p -> is_active p = true ->
  can_move true s.
Proof.
  intros Hg E Ha. unfold can_move.
  destruct p as [[|[] r]|r|r|r|k|k|k to|k t|k| | | | | | | | | | | | |]; try discriminate.
  - (* SIdle (OSubmit :: r) *)
    destruct (psd s) eqn:Ep.
    + exists (LSubmit i SReject None); eexists; split; [reflexivity|].
      simpl; unfold sub_enter, submit_section; rewrite E, Ep; reflexivity.
    + destruct (length (queue s) <? avail s) eqn:El.
      * destruct (notify_one_enabled on_task (thr s)) as (c & l' & Hn).
        exists (LSubmit i SPush c); eexists; split; [reflexivity|].
        simpl; unfold sub_enter, submit_section; rewrite E, Ep, El, Hn; reflexivity.
      * exists (LSubmit i SWaitO None); eexists; split; [reflexivity|].
        simpl; unfold sub_enter, submit_section; rewrite E, Ep, El; reflexivity.
  - (* SIdle (OSpawn :: r) *)
    destruct (psd s) eqn:Ep.
    + exists (LSos i SReject None); eexists; split; [reflexivity|].
      simpl; unfold sos_enter, submit_section; rewrite E, Ep; reflexivity.
    + destruct (length (queue s) <? avail s) eqn:El.
      * destruct (notify_one_enabled on_task (thr s)) as (c & l' & Hn).
        exists (LSos i SPush c); eexists; split; [reflexivity|].
        simpl; unfold sos_enter, submit_section; rewrite E, Ep, El, Hn; reflexivity.
      * exists (LSos i SNeed None); eexists; split; [reflexivity|].
        simpl; unfold sos_enter, submit_section; rewrite E, Ep, El; reflexivity.
  - (* SWoken r *)
    destruct (psd s) eqn:Ep.
    + exists (LSubmit i SReject None); eexists; split; [reflexivity|].
      simpl; unfold sub_enter, submit_section; rewrite E, Ep; reflexivity.
    + destruct (length (queue s) <? avail s) eqn:El.
      * destruct (notify_one_enabled on_task (thr s)) as (c & l' & Hn).
        exists (LSubmit i SPush c); eexists; split; [reflexivity|].
        simpl; unfold sub_enter, submit_section; rewrite E, Ep, El, Hn; reflexivity.
      * exists (LSubmit i SWaitO None); eexists; split; [reflexivity|].
        simpl; unfold sub_enter, submit_section; rewrite E, Ep, El; reflexivity.
  - (* SSpawn r *)
    destruct (gsd s) eqn:Eg.
    + exists (LSpawn i PReject); eexists; split; [reflexivity|]. simpl; rewrite Hg, E, Eg; reflexivity.
    + exists (LSpawn i POk); eexists; split; [reflexivity|]. simpl; rewrite Hg, E, Eg; reflexivity.
  - (* WIdle k *)
    destruct (notify_one_enabled on_avail (thr s)) as (c & l' & Hn).
    destruct (queue s) as [|t q] eqn:Eq.
    + destruct (psd s) eqn:Ep.
      * exists (LWork i false WExitSd c); eexists; split; [reflexivity|].
        simpl; rewrite E, Hn; unfold work_loop; simpl; rewrite Eq, Ep; reflexivity.
      * exists (LWork i false WWaitO c); eexists; split; [reflexivity|].
        simpl; rewrite E, Hn; unfold work_loop; simpl; rewrite Eq, Ep, andb_false_r; reflexivity.
    + exists (LWork i false WTake c); eexists; split; [reflexivity|].
      simpl; rewrite E, Hn; unfold work_loop; simpl; rewrite Eq; reflexivity.
  - (* WWoken k to *)
    destruct (queue s) as [|t q] eqn:Eq.
    + destruct (is_aux k && to) eqn:Et.
      * exists (LWork i false WExitTo None); eexists; split; [reflexivity|].
        simpl; rewrite E; unfold work_wake; rewrite Eq, Et; reflexivity.
      * destruct (psd s) eqn:Ep.
        -- exists (LWork i false WExitSd None); eexists; split; [reflexivity|].
           simpl; rewrite E; unfold work_wake, work_loop; rewrite Eq, Et, Ep; reflexivity.
        -- exists (LWork i false WWaitO None); eexists; split; [reflexivity|].
           simpl; rewrite E; unfold work_wake, work_loop; rewrite Eq, Et, Ep, andb_false_r; reflexivity.
    + exists (LWork i false WTake None); eexists; split; [reflexivity|].
      simpl; rewrite E; unfold work_wake, work_loop; rewrite Eq; simpl; rewrite andb_false_r; reflexivity.
  - (* WRun *)
    exists (LTaskDone i false); eexists; split; [reflexivity|]. simpl; rewrite E; reflexivity.
  - (* WDrop k *)
    destruct k.
    + destruct (gsd s) eqn:Eg.
      * exists (LDrop i DEnd); eexists; split; [reflexivity|].
        simpl; unfold drop_enter; rewrite Hg, E, Eg; reflexivity.
      * exists (LDrop i DRespawn); eexists; split; [reflexivity|].
        simpl; unfold drop_enter; rewrite Hg, E, Eg; reflexivity.
    + exists (LDrop i DEnd); eexists; split; [reflexivity|].
      simpl; unfold drop_enter; rewrite Hg, E; reflexivity.
  - (* RWoken *)
    destruct (gsd s) eqn:Eg.
    + exists (LDrop i DEnd); eexists; split; [reflexivity|].
      simpl; unfold drop_enter; rewrite Hg, E, Eg; reflexivity.
    + exists (LDrop i DRespawn); eexists; split; [reflexivity|].
      simpl; unfold drop_enter; rewrite Hg, E, Eg; reflexivity.
  - (* GIdle *)
    destruct (reg s) eqn:Er; exists (LSdG i); eexists; (split; [reflexivity|]); simpl; rewrite Hg, E, Er; reflexivity.
  - (* GHold *)
    exists (LSdP i); eexists; split; [reflexivity|]. simpl; rewrite E; reflexivity.
  - (* QIdle *)
    exists (LPsd1 i); eexists; split; [reflexivity|]. simpl; rewrite Hg, E; reflexivity.
  - (* QMid *)
    exists (LPsd2 i); eexists; split; [reflexivity|]. simpl; rewrite E; reflexivity.
  - (* AwIdle *)
    destruct (gsd s && (tcount s =? 0)) eqn:Eg.
    + exists (LAwait i ARet); eexists; split; [reflexivity|]. simpl; rewrite Hg, E, Eg; reflexivity.
    + exists (LAwait i AWaitO); eexists; split; [reflexivity|]. simpl; rewrite Hg, E, Eg; reflexivity.
  - (* AwWoken *)
    destruct (gsd s && (tcount s =? 0)) eqn:Eg.
    + exists (LAwait i ARet); eexists; split; [reflexivity|]. simpl; rewrite Hg, E, Eg; reflexivity.
    + exists (LAwait i AWaitO); eexists; split; [reflexivity|]. simpl; rewrite Hg, E, Eg; reflexivity.
Qed.

Lemma cnt_pos_nth f l : 1 <= cnt f l -> exists i p, nth_error l i = Some p /\ f p = true.
Proof.
  intros H. apply existsb_nth. destruct (existsb f l) eqn:E; [reflexivity|].
  apply existsb_false_cnt in E. lia.
Qed.

Theorem no_deadlock_inv s : Inv s -> no_deadlock true s.
Proof.
  intros I Hgsd.
  destruct (glock s) eqn:Hgl.
  { (* the shutdown caller holds the group lock and can finish *)
    right. pose proof (i_glock s I) as Hc. rewrite Hgl in Hc; simpl in Hc.
    destruct (cnt_pos_nth is_ghold (thr s)) as (i & p & E & Hp); [lia|].
    destruct p; try discriminate.
    - exists (LSdP i); eexists; split; [reflexivity|]. simpl; rewrite E; reflexivity.
    - exists (LPsd2 i); eexists; split; [reflexivity|]. simpl; rewrite E; reflexivity. }
  destruct (existsb is_active (thr s)) eqn:Eact.
  { right. destruct (existsb_nth _ _ Eact) as (i & p & E & Hp). eapply active_can_move; eassumption. }
  left. pose proof (existsb_false_all _ _ Eact) as Hna.
  (* the group lock is free, so the pool flag is set *)
  assert (Hpsd : psd s = true).
  { destruct (i_reg s I (i_gsd_reg s I Hgsd)) as [H|H]; [exact H | congruence]. }
  destruct (i_psd_w s I Hpsd) as [Ht Ha].
  assert (Hgh : cnt is_gh (thr s) = 0).
  { pose proof (i_glock s I) as Hc. rewrite Hgl in Hc; simpl in Hc.
    pose proof (sumf_le (fun p => b2n (is_gh p)) (fun p => b2n (is_ghold p)) (thr s)) as Hle.
    cbn beta in Hle. assert (forall p, b2n (is_gh p) <= b2n (is_ghold p)) as Hpt by (intros []; simpl; lia).
    specialize (Hle Hpt). lia. }
  destruct (i_gsd_w s I Hgsd Hgh) as [Hr Haw].
  pose proof (cnt_zero_all _ _ Ht) as Ht'. pose proof (cnt_zero_all _ _ Ha) as Ha'.
  pose proof (cnt_zero_all _ _ Hr) as Hr'.
  assert (Hlive : cnt is_live (thr s) = 0).
  { apply sumf_all_zero. intros p Hp.
    specialize (Hna p Hp); specialize (Ht' p Hp); specialize (Hr' p Hp).
    destruct p; try discriminate; reflexivity. }
  pose proof (i_live s I) as Hl. rewrite Hlive in Hl.
  pose proof (cnt_zero_all _ _ (Haw Hl)) as Haw'.
  intros p Hp.
  specialize (Hna p Hp); specialize (Ht' p Hp); specialize (Ha' p Hp); specialize (Hr' p Hp);
    specialize (Haw' p Hp).
  destruct p as [[|]| | | | | | | | | | | | | | | | | | | | |]; try discriminate; reflexivity.
Qed.

Theorem no_deadlock_reachable s : reachable true s -> no_deadlock true s.
Proof. intros R. apply no_deadlock_inv, inv_reachable, R. Qed.

(* ---- the lexicographic order is well founded ---------------------------------------- *)

Lemma lex_lt_wf : well_founded lex_lt.
Proof.
  intros [a b]. revert b.
  induction a as [a IHa] using (well_founded_induction lt_wf).
  induction b as [b IHb] using (well_founded_induction lt_wf).
  constructor. intros [a' b'] [H|[H1 H2]]; simpl in *.
  - apply IHa; exact H.
  - subst a'. apply IHb; exact H2.
Qed.
