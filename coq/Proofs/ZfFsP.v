(* C25 — the include stack machine computes the structural expansion. *)
From QV Require Import Base.Res Base.Octets Model.ZfFs Spec.ZfFsS.

Section FsP.
  Variables Origin Own Ttl Cls Rec SErr L : Type.
  Notation ctx := (ctx Origin Own Ttl Cls).
  Notation lres := (lres Origin Own Ttl Cls Rec SErr).
  Notation entry := (entry Origin Own Ttl Cls L).
  Notation item := (item Rec).
  Variable pline : ctx -> L -> lres.
  Variable fs : path -> option (list (nat * L)).
  Variable max_depth : nat.

  Notation nstep := (next_step Origin Own Ttl Cls Rec SErr L pline fs max_depth).
  Notation run := (run_stack Origin Own Ttl Cls Rec SErr L pline fs max_depth).
  Notation expand := (expand Origin Own Ttl Cls Rec SErr L pline fs).
  Notation outcome := (outcome Origin Own Ttl Cls SErr).
  Notation mchain := (make_chain Origin Own Ttl Cls L).

  Lemma start_ctx_eq (c : ctx) (o : option Origin) : ctx_for_include _ _ _ _ c o = start_ctx _ _ _ _ c o.
  Proof. destruct o; reflexivity. Qed.
  Lemma resume_ctx_eq (c e : ctx) : ctx_after_include _ _ _ _ c e = resume_ctx _ _ _ _ c e.
  Proof. reflexivity. Qed.

  (* complete executions of the machine: what the iterator yields until it returns None *)
  Inductive final := FDone | FBad (p : path) (e : fs_err SErr) | FPanic.
  Inductive steps : list entry -> list item -> final -> Prop :=
  | st_done : forall st, nstep st = SDone _ _ _ _ _ _ _ -> steps st [] FDone
  | st_fail : forall st p e, nstep st = SFail _ _ _ _ _ _ _ p e -> steps st [] (FBad p e)
  | st_panic : forall st, nstep st = SPanic _ _ _ _ _ _ _ -> steps st [] FPanic
  | st_emit : forall st it st' l f, nstep st = SEmit _ _ _ _ _ _ _ it st' -> steps st' l f -> steps st (it :: l) f
  | st_silent : forall st st' l f, nstep st = SSilent _ _ _ _ _ _ _ st' -> steps st' l f -> steps st l f.

  Definition final_of (o : outcome) : final :=
    match o with OCtx _ _ _ _ _ _ => FDone | OBad _ _ _ _ _ p e => FBad p e | OPanic _ _ _ _ _ => FPanic end.

  (* the file on top of the stack, run by the machine, behaves like its expansion; K is what
     happens once the file has been read to its end *)
  Lemma file_steps : forall d p fl rest t c,
    length rest + d = max_depth ->
    match expand d (mchain rest fl) p c t with
    | (it, OCtx _ _ _ _ _ cend) =>
        forall l f, steps ((p, fl, cend, []) :: rest) l f -> steps ((p, fl, c, t) :: rest) (it ++ l) f
    | (it, o) => steps ((p, fl, c, t) :: rest) it (final_of o)
    end.
  Proof.
    induction d as [|d IHd]; intros p fl rest t; induction t as [|[n l] t IHt]; intros c Hd.
    - simpl. intros l f H. exact H.
    - cbn [ZfFsS.expand]. destruct (pline c l) as [c'|e|r c'|ip o c'] eqn:Hp.
      + specialize (IHt c' Hd). cbn [ZfFsS.expand] in IHt.
        destruct (expand 0 (mchain rest fl) p c' t) as [it [cend|bp be|]] eqn:E; cbn [ZfFsS.expand] in E; rewrite E in IHt |- *.
        * intros l0 f H. eapply st_silent; [simpl; rewrite Hp; reflexivity|]. apply IHt. exact H.
        * eapply st_silent; [simpl; rewrite Hp; reflexivity|]. exact IHt.
        * eapply st_silent; [simpl; rewrite Hp; reflexivity|]. exact IHt.
      + simpl. apply st_fail. simpl. rewrite Hp. reflexivity.
      + specialize (IHt c' Hd). cbn [ZfFsS.expand] in IHt.
        destruct (expand 0 (mchain rest fl) p c' t) as [it [cend|bp be|]] eqn:E; cbn [ZfFsS.expand] in E; rewrite E in IHt |- *.
        * intros l0 f H. simpl. eapply st_emit; [simpl; rewrite Hp; reflexivity|]. apply IHt. exact H.
        * simpl. eapply st_emit; [simpl; rewrite Hp; reflexivity|]. exact IHt.
        * simpl. eapply st_emit; [simpl; rewrite Hp; reflexivity|]. exact IHt.
      + simpl. apply st_fail. simpl. rewrite Hp.
        assert (E : (max_depth <=? length rest) = true) by (apply Nat.leb_le; lia). rewrite E. reflexivity.
    - simpl. intros l f H. exact H.
    - cbn [ZfFsS.expand]. destruct (pline c l) as [c'|e|r c'|ip o c'] eqn:Hp.
      + specialize (IHt c' Hd). cbn [ZfFsS.expand] in IHt.
        destruct (expand (S d) (mchain rest fl) p c' t) as [it [cend|bp be|]] eqn:E; cbn [ZfFsS.expand] in E; rewrite E in IHt |- *.
        * intros l0 f H. eapply st_silent; [simpl; rewrite Hp; reflexivity|]. apply IHt. exact H.
        * eapply st_silent; [simpl; rewrite Hp; reflexivity|]. exact IHt.
        * eapply st_silent; [simpl; rewrite Hp; reflexivity|]. exact IHt.
      + simpl. apply st_fail. simpl. rewrite Hp. reflexivity.
      + specialize (IHt c' Hd). cbn [ZfFsS.expand] in IHt.
        destruct (expand (S d) (mchain rest fl) p c' t) as [it [cend|bp be|]] eqn:E; cbn [ZfFsS.expand] in E; rewrite E in IHt |- *.
        * intros l0 f H. simpl. eapply st_emit; [simpl; rewrite Hp; reflexivity|]. apply IHt. exact H.
        * simpl. eapply st_emit; [simpl; rewrite Hp; reflexivity|]. exact IHt.
        * simpl. eapply st_emit; [simpl; rewrite Hp; reflexivity|]. exact IHt.
      + assert (E : (max_depth <=? length rest) = false) by (apply Nat.leb_gt; lia).
        destruct (compute_path p ip) as [newp|] eqn:Hc.
        2:{ simpl. apply st_panic. simpl. rewrite Hp, E, Hc. reflexivity. }
        destruct (fs newp) as [t2|] eqn:Hf.
        2:{ simpl. apply st_fail. simpl. rewrite Hp, E, Hc, Hf. reflexivity. }
        (* the included file runs on top of the includer's entry *)
        pose proof (IHd newp n ((p, fl, c', t) :: rest) t2 (ctx_for_include _ _ _ _ c' o)) as Hinc.
        assert (Hd' : length ((p, fl, c', t) :: rest) + d = max_depth) by (cbn [length]; unfold ZfFs.entry in *; lia).
        specialize (Hinc Hd'). cbn [make_chain] in Hinc. rewrite start_ctx_eq in Hinc.
        destruct (expand d (mchain rest fl ++ [(p, n)]) newp (start_ctx _ _ _ _ c' o) t2) as [it [cend|bp be|]] eqn:Ei.
        * specialize (IHt (resume_ctx _ _ _ _ c' cend) Hd). cbn [ZfFsS.expand] in IHt.
          destruct (expand (S d) (mchain rest fl) p (resume_ctx _ _ _ _ c' cend) t) as [it' [cend'|bp be|]] eqn:E2;
            cbn [ZfFsS.expand] in E2; rewrite E2 in IHt |- *.
          -- intros l0 f H. eapply st_silent; [simpl; rewrite Hp, E, Hc, Hf; reflexivity|].
             rewrite <- app_assoc, ?start_ctx_eq. apply Hinc.
             eapply st_silent; [simpl; reflexivity|]. rewrite resume_ctx_eq. apply IHt. exact H.
          -- eapply st_silent; [simpl; rewrite Hp, E, Hc, Hf; reflexivity|].
             rewrite ?start_ctx_eq. apply Hinc. eapply st_silent; [simpl; reflexivity|]. rewrite resume_ctx_eq. exact IHt.
          -- eapply st_silent; [simpl; rewrite Hp, E, Hc, Hf; reflexivity|].
             rewrite ?start_ctx_eq. apply Hinc. eapply st_silent; [simpl; reflexivity|]. rewrite resume_ctx_eq. exact IHt.
        * eapply st_silent; [simpl; rewrite Hp, E, Hc, Hf; reflexivity|]. rewrite ?start_ctx_eq. exact Hinc.
        * eapply st_silent; [simpl; rewrite Hp, E, Hc, Hf; reflexivity|]. rewrite ?start_ctx_eq. exact Hinc.
  Qed.

  Definition result_of (l : list item) (f : final) : res fs_fuel_err (list item * option (path * fs_err SErr)) :=
    match f with
    | FDone => Ok (l, None)
    | FBad p e => Ok (l, Some (p, e))
    | FPanic => Panic
    end.

  Lemma result_of_cons it l f :
    map_ok (fun '(l, o) => (it :: l, o)) (result_of l f) = result_of (it :: l) f.
  Proof. destruct f; reflexivity. Qed.

  (* a complete execution is what run_stack computes once the fuel covers its length *)
  Lemma steps_run st l f : steps st l f -> exists f0, forall fuel, f0 <= fuel -> run fuel st = result_of l f.
  Proof.
    induction 1 as [st H|st p e H|st H|st it st' l f H _ IH|st st' l f H _ IH].
    - exists 1. intros [|fuel] Hf; [lia|]. simpl. rewrite H. reflexivity.
    - exists 1. intros [|fuel] Hf; [lia|]. simpl. rewrite H. reflexivity.
    - exists 1. intros [|fuel] Hf; [lia|]. simpl. rewrite H. reflexivity.
    - destruct IH as [f0 IH]. exists (S f0). intros [|fuel] Hf; [lia|]. cbn [run_stack]. rewrite H.
      rewrite IH by lia. apply result_of_cons.
    - destruct IH as [f0 IH]. exists (S f0). intros [|fuel] Hf; [lia|]. cbn [run_stack]. rewrite H.
      apply IH. lia.
  Qed.

  Lemma top_steps p0 c0 t0 :
    let '(it, o) := expand max_depth [] p0 c0 t0 in steps [(p0, 0, c0, t0)] it (final_of o).
  Proof.
    pose proof (file_steps max_depth p0 0 [] t0 c0 eq_refl) as H. cbn [make_chain] in H.
    destruct (expand max_depth [] p0 c0 t0) as [it [cend|bp be|]]; try exact H.
    rewrite <- (app_nil_r it). apply H. apply st_done. reflexivity.
  Qed.

  Lemma run_eq_expand p0 c0 t0 :
    exists f0, forall fuel, f0 <= fuel ->
      run fuel [(p0, 0, c0, t0)] =
      result_of (fst (expand max_depth [] p0 c0 t0)) (final_of (snd (expand max_depth [] p0 c0 t0))).
  Proof.
    pose proof (top_steps p0 c0 t0) as H.
    destruct (expand max_depth [] p0 c0 t0) as [it o]. simpl. apply steps_run. exact H.
  Qed.

  (* an $INCLUDE at the nesting limit is an IncludesTooDeep error at that line, with the chain *)
  Lemma expand_too_deep chain p c n l t ip o c' :
    pline c l = LInc _ _ _ _ _ _ ip o c' ->
    expand 0 chain p c ((n, l) :: t) = ([], OBad _ _ _ _ _ p (ETooDeep _ n (chain ++ [(p, n)]))).
  Proof. intros H. simpl. rewrite H. reflexivity. Qed.

  Lemma resume_origin (c e : ctx) : c_origin _ _ _ _ (resume_ctx _ _ _ _ c e) = c_origin _ _ _ _ c.
  Proof. reflexivity. Qed.
End FsP.
