(* The component classification (regenerated from the Rust source) places no compressible
   name in SRV, Chaosnet A or any type outside RFC 1035's name-carrying types. *)
From QV Require Import Base.ListX Model.MsgWriter.

Definition rfc1035_name_types : list N := [2; 3; 4; 5; 7; 8; 9; 12; 6; 14; 15]%N.

Lemma lookup_nc tab class ty :
  (forall t g cts, In (t, g, cts) tab -> t = ty -> Forall (fun c => c <> CtCompressible) cts) ->
  Forall (fun c => c <> CtCompressible) (lookup_ctypes tab class ty).
Proof.
  induction tab as [|[[t g] cts] rest IH]; intros H; simpl; [constructor|].
  destruct ((t =? ty)%N && match g with None => true | Some c => (c =? class)%N end) eqn:E.
  - apply andb_true_iff in E as [E _]. apply N.eqb_eq in E. apply (H t g cts); [left; reflexivity|exact E].
  - apply IH. intros t' g' cts' Hin. apply (H t' g' cts'). right. exact Hin.
Qed.

Lemma no_compressible_outside_1035 class ty : ~ In ty rfc1035_name_types ->
  Forall (fun c => c <> CtCompressible) (component_types class ty).
Proof.
  intros Hn. unfold component_types. apply lookup_nc.
  intros t g cts Hin Ht. unfold COMPONENT_TABLE in Hin. simpl in Hin.
  repeat (destruct Hin as [Hin|Hin];
          [inversion Hin; subst;
           first [exfalso; apply Hn; unfold rfc1035_name_types; simpl; tauto
                 |repeat constructor; discriminate]|]).
  contradiction.
Qed.

Lemma srv_components : component_types CLASS_IN TYPE_SRV = [CtFixed 6; CtUncompressible].
Proof. reflexivity. Qed.
Lemma ch_a_components : component_types CLASS_CH TYPE_A = [CtUncompressible].
Proof. reflexivity. Qed.
