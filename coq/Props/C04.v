(* C04 — responses respect the transport size limit and truncate correctly.
   Statements only (proofs are [exact <lemma>] or a few lines of unpacking).

   What is proved, for ALL zones, questions, buffers and sizes, about the OCTET-LEVEL model
   (Model/QueryW.v: the query model of C05 driving the Writer model of C12, prepared as
   Server::handle_message prepares the response of a clean QUERY):
     c04_response_within_limit   |response| <= limit in effect (TCP 65535; UDP 512 without OPT; UDP with
                                 OPT: the negotiated limit handed over by the server model)
     c04_tc_shape                the TC bit is set only in the Truncation arm, only over UDP, after
                                 clear_rrs: no answer/authority record and only the reserved pseudo-records
                                 counted; over TCP TC stays clear; the limit never changes while answering
     c04_limit_value             (server model, Model/Server.v) the limit of every response handle_message
                                 yields: 65535 / 512 (capped by the buffer), or over UDP the CLASS of a
                                 processed OPT clamped to [512, server size]
     c04_udp_response_size       the two sides composed for UDP
     c04_udp_identical_when_fits_partial   clause (iii) for answers that end Ok: if the finished TCP message
                                 fits the UDP space, the UDP response is octet-identical (through
                                 c04_writer_limit_monotone and a relational lifting over the query model)
     c04_tc_on_the_octets        (third wave, composition with C12's round trip) clause (ii) on the FINISHED OCTETS,
                                 for every zone built by adds: the RFC 1035 decoder finds TC set only over UDP, and
                                 then no answer / authority record and nothing but the OPT in the additional section
     c04_glue_complete_partial   (third wave) the glue half of clause (iv), unary: a direct referral whose answering
                                 logic succeeded (so: neither TC nor an error SERVFAIL) carries, on the finished octets,
                                 the NS RRset and — first in the additional section — EVERY address record the zone
                                 holds for the name servers at/below the delegated zone
     c04_only_optional_omitted_partial   (third wave) clause (iv) for EVERY question (CNAME chains, ANY, negative answers
                                 included), per response against the idealised answer: whenever the answering logic
                                 succeeds on the octet-level Writer, the decoded answer and authority sections are those of
                                 the idealised (never-truncating) run of the same logic — which is C05's resolve — and the
                                 decoded additional section is the idealised one minus some records of its optional tail
   What is NOT proved and is decided per case by the extracted oracle [pair_check] (Spec/RespS.v) on
   the real server's two responses to every generated request: clause (iii) for answers that end in
   SERVFAIL (false there: finding C04-1), clause (iv) "otherwise a TC-clear UDP response differs only
   by omitted optional additional records, never by in-bailiwick glue", and the size/TC clauses on
   the finished octets.  c04_oracle_* say what a verdict PairOk means. *)
From QV Require Import Base.Res Base.Octets Model.MsgWriter Model.ZoneTree Model.Query Model.QueryW
  Proofs.MsgWriterInvP Proofs.QueryWP Proofs.ServerLimitP Proofs.WriterMonoP Proofs.QueryMonoP Spec.MsgWriterS Spec.RespS.
From QV Require Model.Server Spec.NameRepr.
From QV Require Import Spec.ZoneLookupS Spec.MsgWriterAbsS Proofs.MsgWriterDecP Proofs.ComposeTraceP Proofs.ComposeTcP Proofs.ComposeGlueP Proofs.ComposeAbsP Proofs.ComposeEndP.
From QV Require Spec.ResolveS Spec.ResolveRepr.
From QV Require Import Spec.RespSigS Proofs.RespSigP.

Theorem c04_response_within_limit : forall negttl buf tcp id rd qname qtype qclass edns limit z len b,
  respond_w negttl buf tcp id rd qname qtype qclass edns limit z = Some (len, b) ->
  (tcp = true -> len <= N.to_nat 65535) /\
  (tcp = false -> edns = None -> len <= N.to_nat 512) /\
  (tcp = false -> edns <> None -> N.to_nat 512 <= limit -> len <= limit).
Proof. exact respond_w_limit. Qed.

Theorem c04_tc_shape : forall negttl buf tcp id rd qname qtype qclass edns limit z w w',
  prepare_w buf tcp id rd qname qtype qclass edns limit = Some w ->
  handle_non_axfr_query w_iface negttl z qname qtype tcp w = Some w' ->
  w_limit w' = w_limit w /\
  (tcp = true -> tc_clear w') /\
  (tc_clear w' \/ (tcp = false /\ tc_set w' /\ no_records w')).
Proof.
  intros negttl buf tcp id rd qname qtype qclass edns limit z w w' Hp Hh.
  destruct (prepare_PW _ _ _ _ _ _ _ _ _ _ Hp) as (L & HP & _).
  destruct (handle_PW L _ _ _ _ _ _ _ HP Hh) as (_ & Hl & A & B).
  destruct HP as (_ & Hl0 & _). split; [congruence|]. auto.
Qed.

(* The server side (Model/Server.v, every path of handle_message that yields a response): the limit in
   effect is 65535 over TCP and 512 over UDP (capped by the buffer) unless — over UDP — an OPT record of
   the request was processed, in which case it is that OPT's CLASS field (the requestor's payload
   size) clamped to [512, the server's configured size]. *)
Theorem c04_limit_value : forall answer verify cfg req w,
  Server.handle_message answer verify cfg req = Ok (Some w) ->
  Server.w_buflen w = Server.c_buflen cfg /\
  (Server.w_limit w = Nat.min (match Server.c_transport cfg with Server.Tcp => Server.tcp_limit | Server.Udp => Server.udp_limit end)
                              (Server.c_buflen cfg) \/
   (Server.c_transport cfg = Server.Udp /\ Server.w_edns w <> None /\
    exists their, opt_class req their /\
      Server.w_limit w = Nat.min (N.to_nat (N.max 512 (N.min their (Server.c_edns_size cfg)))) (Server.c_buflen cfg))).
Proof. exact handle_message_limit. Qed.

(* Composition of the two sides for UDP: the response the octet-level model produces under the limit and
   EDNS state that the server model hands over is at most 512 octets long, or at most the requestor's
   advertised size clamped to [512, server size] for an OPT of the request. *)
Theorem c04_udp_response_size : forall answer verify cfg req w negttl buf id rd qn qt qc z len b,
  Server.handle_message answer verify cfg req = Ok (Some w) ->
  Server.c_transport cfg = Server.Udp -> N.to_nat 512 <= Server.c_buflen cfg ->
  respond_w negttl buf false id rd qn qt qc (option_map fst (Server.w_edns w)) (Server.w_limit w) z = Some (len, b) ->
  len <= N.to_nat 512 \/
  exists their, opt_class req their /\ len <= N.to_nat (N.max 512 (N.min their (Server.c_edns_size cfg))).
Proof.
  intros answer verify cfg req w negttl buf id rd qn qt qc z len b Hm Tr Hbuf Hr.
  destruct (handle_message_limit _ _ _ _ _ Hm) as (_ & L).
  destruct (respond_w_limit _ _ _ _ _ _ _ _ _ _ _ _ _ Hr) as (_ & B2 & B3).
  destruct L as [L|(_ & Ed & their & O & L)].
  - left. unfold L0 in L. rewrite Tr in L. change Server.udp_limit with (N.to_nat 512) in L.
    rewrite Nat.min_l in L by exact Hbuf.
    destruct (Server.w_edns w) as [[sz up]|] eqn:E; cbn [option_map] in *.
    + rewrite <- L. apply B3; auto; [discriminate|lia].
    + apply B2; auto.
  - right. exists their. split; [exact O|]. unfold negotiated in L.
    destruct (Server.w_edns w) as [[sz up]|] eqn:E; [|congruence]. cbn [option_map] in *.
    assert (H512 : N.to_nat 512 <= Server.w_limit w) by (rewrite L; apply Nat.min_glb; lia).
    specialize (B3 eq_refl ltac:(discriminate) H512). rewrite L in B3. etransitivity; [exact B3|apply Nat.le_min_l].
Qed.

(* Clause (iii), PARTIAL: for answers that END Ok with every Writer operation succeeding on the TCP side
   ([w_strict]: the octet-level interface with failures turned into panics, so that an Ok run is a run
   without any failed operation): if the finished message fits the space the UDP writer has, the UDP
   response is the TCP response, octet for octet.  Not covered: answers that end in SERVFAIL after
   partial writes (there the statement is false: finding C04-1) and clause (iv). *)
Theorem c04_udp_identical_when_fits_partial : forall negttl buf id rd qname qtype qclass edns limit z wt wu wt' len b,
  prepare_w buf true id rd qname qtype qclass edns limit = Some wt ->
  prepare_w buf false id rd qname qtype qclass edns limit = Some wu ->
  (if (qtype =? QTYPE_ANY)%N then answer_any w_strict negttl z qname wt else answer w_strict negttl z qname qtype wt) = Ok (tt, wt') ->
  finish wt' = Ok (len, b) -> w_tsig wt' = None -> w_cursor wt' <= w_avail wt' ->
  w_cursor wt' <= w_avail wu -> len <= w_avail wu + (if w_edns wt' then opt_record_size else 0) ->
  respond_w negttl buf true id rd qname qtype qclass edns limit z = Some (len, b) /\
  respond_w negttl buf false id rd qname qtype qclass edns limit z = Some (len, b).
Proof. exact respond_udp_identical. Qed.

(* its Writer-level core: an add_*_rr / add_*_rrset that succeeds with final cursor c succeeds identically
   (same result, same octets, same compression decisions) under any limit / available space a >= c *)
Theorem c04_writer_limit_monotone : forall l a s h owner ty cl ttl,
  (forall rd v, mono l a (add_section_rr s h owner ty cl ttl rd v)) /\
  (forall rds v, mono l a (add_section_rrset s h owner ty cl ttl rds v)).
Proof. intros. split; intros; [apply mono_section_rr|apply mono_section_rrset]. Qed.

(* what the oracle's verdict means *)
Lemma label_eqb_eq : forall a b, label_eqb a b = true -> a = b.
Proof.
  induction a as [|x a IH]; destruct b as [|y b]; simpl; try discriminate; auto.
  intros H. apply andb_true_iff in H. destruct H as [H1 H2]. apply N.eqb_eq in H1. f_equal; auto.
Qed.

Theorem c04_oracle_tc_shape : forall their server u t mu mt,
  decode_msg u = Some mu -> decode_msg t = Some mt ->
  pair_check their server u t = PairOk -> tc_bit mu = true ->
  m_an mu = [] /\ m_ns mu = [] /\ forallb is_pseudo (m_ar mu) = true /\ tc_bit mt = false.
Proof.
  intros their server u t mu mt Hu Ht. unfold pair_check. rewrite Hu, Ht.
  destruct (_ || _); [discriminate|]. destruct (tc_bit mt) eqn:Tt; [discriminate|].
  intros H Htc. destruct (length t <=? udp_limit_of mu their server) eqn:F.
  { destruct (label_eqb u t) eqn:E; [|discriminate]. apply label_eqb_eq in E. subst t.
    rewrite Hu in Ht. inversion Ht; subst. rewrite Htc in *. discriminate. }
  rewrite Htc in H.
  destruct (length (m_an mu) =? 0) eqn:A; [|discriminate]. destruct (length (m_ns mu) =? 0) eqn:B; [|discriminate].
  destruct (forallb is_pseudo (m_ar mu)) eqn:C; [|discriminate].
  apply Nat.eqb_eq in A. apply Nat.eqb_eq in B.
  destruct (m_an mu); [|discriminate]. destruct (m_ns mu); [|discriminate]. auto.
Qed.

Theorem c04_oracle_sizes_and_identity : forall their server u t mu mt,
  decode_msg u = Some mu -> decode_msg t = Some mt ->
  pair_check their server u t = PairOk ->
  length u <= udp_limit_of mu their server /\ length t <= N.to_nat 65535 /\ tc_bit mt = false /\
  (length t <= udp_limit_of mu their server -> u = t).
Proof.
  intros their server u t mu mt Hu Ht. unfold pair_check. rewrite Hu, Ht.
  destruct (udp_limit_of mu their server <? length u) eqn:A; [discriminate|].
  destruct (N.to_nat 65535 <? length t) eqn:B; [discriminate|]. cbn [orb].
  apply Nat.ltb_ge in A. apply Nat.ltb_ge in B.
  destruct (tc_bit mt); [discriminate|]. intros H. repeat split; auto.
  intros Hfit. apply Nat.leb_le in Hfit. rewrite Hfit in H.
  destruct (label_eqb u t) eqn:E; [|discriminate]. apply label_eqb_eq. exact E.
Qed.

(* Non-vacuity: zone "a." with a TXT RRset of 3 x 201 octets at b.a.; the question b.a. TXT without EDNS.
   Over TCP the model writes the complete 660-octet response (3 answers); over UDP (limit 512) the second
   record does not fit: 21 octets, TC set (flags octet 0x86), no records.  The oracle accepts the pair and
   both responses are well formed. *)
Example c04_example :
  let a := [97%N] in let big := [98%N] in
  let soa := [0; 0; 0;0;0;1; 0;0;0;2; 0;0;0;3; 0;0;0;4; 0;0;0;60]%N in
  let txt := fun c : N => (200 :: repeat c 200)%N in
  let recs := [mk_record [a] 6 1 3600 soa; mk_record [big; a] 16 1 300 (txt 120%N);
               mk_record [big; a] 16 1 300 (txt 121%N); mk_record [big; a] 16 1 300 (txt 122%N)] in
  exists z ru rt lu lt,
    zone_build req_simple (zone_new [a] 1 false) recs = Some z /\
    respond_w neg_ttl (repeat 0%N 1000) false 7 false [big; a] 16 1 None 512 z = Some (lu, ru) /\
    respond_w neg_ttl (repeat 0%N 1000) true 7 false [big; a] 16 1 None 512 z = Some (lt, rt) /\
    lu = 21 /\ lt = 660 /\ nth_error ru 2 = Some 134%N /\ nth_error rt 2 = Some 132%N /\
    pair_check 0 1232 (firstn lu ru) (firstn lt rt) = PairOk /\
    wf_response (firstn lu ru) = true /\ wf_response (firstn lt rt) = true.
Proof.
  cbv zeta. eexists. eexists. eexists. eexists. eexists.
  split; [vm_compute; reflexivity|]. split; [vm_compute; reflexivity|]. split; [vm_compute; reflexivity|].
  vm_compute. repeat split.
Qed.

(* Non-vacuity of c04_udp_identical_when_fits_partial: the zone of c04_example, question b.a. TXT with an OPT
   (server size 1232, negotiated limit 1232): every hypothesis holds, the response is 671 octets on both transports. *)
Example c04_identical_example :
  let a := [97%N] in let big := [98%N] in
  let soa := [0; 0; 0;0;0;1; 0;0;0;2; 0;0;0;3; 0;0;0;4; 0;0;0;60]%N in
  let txt := fun c : N => (200 :: repeat c 200)%N in
  let recs := [mk_record [a] 6 1 3600 soa; mk_record [big; a] 16 1 300 (txt 120%N);
               mk_record [big; a] 16 1 300 (txt 121%N); mk_record [big; a] 16 1 300 (txt 122%N)] in
  let buf := repeat 0%N 1300 in
  exists z wt wu wt' len b,
    zone_build req_simple (zone_new [a] 1 false) recs = Some z /\
    prepare_w buf true 7 false [big; a] 16 1 (Some 1232%N) 1232 = Some wt /\
    prepare_w buf false 7 false [big; a] 16 1 (Some 1232%N) 1232 = Some wu /\
    answer w_strict neg_ttl z [big; a] 16 wt = Ok (tt, wt') /\ finish wt' = Ok (len, b) /\
    w_tsig wt' = None /\ w_cursor wt' <= w_avail wt' /\ w_cursor wt' <= w_avail wu /\
    len <= w_avail wu + (if w_edns wt' then opt_record_size else 0) /\ len = 671.
Proof.
  cbv zeta. do 6 eexists.
  split; [vm_compute; reflexivity|]. split; [vm_compute; reflexivity|]. split; [vm_compute; reflexivity|].
  split; [vm_compute; reflexivity|]. split; [vm_compute; reflexivity|]. split; [reflexivity|].
  vm_compute. repeat split; repeat constructor.
Qed.

(* Clause (ii) on the octets.  c04_tc_shape above speaks about the Writer's counters and header octet; this one about
   what an independent RFC 1035 decoder reads from the finished message: for every zone built by adds (any records with
   RDATA <= 65535 octets < 256 and 16-bit types), every question at/below the apex, both transports, with or without
   EDNS, any buffer of at least 512 octets: respond_w returns a message that decodes; over TCP its TC bit is clear; if
   its TC bit is set, the answer and authority sections are empty and the additional section holds only pseudo-records
   (the OPT).  From c12_roundtrip + the key lemma of Proofs/ComposeKeyP.v: the only operation of the whole run that
   touches TC is the set_tc(true) right after clear_rrs in the Truncation arm over UDP. *)
Theorem c04_tc_on_the_octets : forall reqf apex cls wide recs z negttl buf tcp id rd qname qtype qclass edns limit,
  (forall c t a b d, reqf c t a b = true -> reqf c t b d = true -> reqf c t a d = true) ->
  zone_build reqf (zone_new apex cls wide) recs = Some z ->
  Forall (fun r => good_rd (r_rdata r) /\ (r_type r < 65536)%N) recs -> good_name apex -> (cls < 65536)%N ->
  512 <= length buf -> good_name qname -> in_zone apex qname = true ->
  (id < 65536)%N -> (qtype < 65536)%N -> (qclass < 65536)%N -> (forall s, edns = Some s -> (s < 65536)%N) ->
  exists len b m, respond_w negttl buf tcp id rd qname qtype qclass edns limit z = Some (len, b) /\
    decode_msg (firstn len b) = Some m /\
    (tcp = true -> tc_bit m = false) /\
    (tc_bit m = true -> m_an m = [] /\ m_ns m = [] /\ forallb is_pseudo (m_ar m) = true).
Proof. exact respond_w_tc_build. Qed.

(* The glue half of clause (iv) ("never by in-bailiwick referral glue"), in unary form.  For every zone built by adds and
   every question (QTYPE other than ANY) that the zone answers with a referral (the lookup reports LReferral child ns):
   respond_w returns a message that decodes, and IF the answering logic (do_referral on the prepared writer) succeeded —
   then the response is TC-clear and not an error SERVFAIL (c04_tc_shape, handle_non_axfr_query) — the decoded authority
   section is the NS RRset of the delegation and the decoded additional section BEGINS WITH every address record
   ([glue_rrs]: for each NS target at/below the child, in RDATA order, the A RRset and, in class IN, the AAAA RRset that
   Zone::lookup_addrs reports with search_below_cuts) — whatever the transport, the limit and the EDNS settings; after
   them come records related to an order-preserving SUB-SELECTION X ([Sub]) of the candidate list [opt_rrs] (the address
   records of the other name servers, added under execute_allowing_truncation), then only pseudo-records (the OPT).
   Since glue_rrs and opt_rrs are functions of the zone and the question alone, any two successful responses to the same
   referral — over UDP and over TCP, under any limits — have the same authority section, the same glue, and differ only in
   WHICH of the optional candidates are present: the complete response has them all (X = opt_rrs), a UDP response that
   lacks room omits some.  This is clause (iv) for direct referrals, stated per response against the canonical lists
   instead of by comparing two runs.  PARTIAL: direct referrals only (not those reached through a CNAME chain or by QTYPE
   ANY, nor the additional-section processing of positive answers: same argument, not done). *)
Theorem c04_glue_complete_partial : forall reqf apex cls wide recs z negttl buf tcp id rd qname qtype qclass edns limit child ns,
  (forall c t a b d, reqf c t a b = true -> reqf c t b d = true -> reqf c t a d = true) ->
  zone_build reqf (zone_new apex cls wide) recs = Some z ->
  Forall (fun r => good_rd (r_rdata r) /\ (r_type r < 65536)%N) recs -> good_name apex -> (cls < 65536)%N ->
  512 <= length buf -> good_name qname -> in_zone apex qname = true ->
  (id < 65536)%N -> (qtype < 65536)%N -> (qclass < 65536)%N -> (forall s, edns = Some s -> (s < 65536)%N) ->
  (qtype =? QTYPE_ANY)%N = false ->
  zone_lookup z qname qtype true false = Ok (LReferral child ns) ->
  exists w len b m,
    prepare_w buf tcp id rd qname qtype qclass edns limit = Some w /\
    respond_w negttl buf tcp id rd qname qtype qclass edns limit z = Some (len, b) /\
    decode_msg (firstn len b) = Some m /\
    match do_referral w_iface z child ns w with
    | Ok _ =>
      exists ds_ns ds_glue X ds_opt ds_pseudo,
        m_ns m = ds_ns /\
        Forall2 (rr_rel xparts) (map (mkAR child Standard Gen.ZoneConsts.TYPE_NS (z_class z) (ttl_rfc (fst ns))) (snd ns)) ds_ns /\
        m_ar m = ds_glue ++ ds_opt ++ ds_pseudo /\
        Forall2 (rr_rel xparts) (glue_rrs z child (snd ns)) ds_glue /\
        Forall2 (rr_rel xparts) X ds_opt /\ Sub X (opt_rrs z child (snd ns)) /\
        forallb is_pseudo ds_pseudo = true
    | _ => True
    end.
Proof. exact respond_referral_glue_build. Qed.

(* Clause (iv) for direct positive answers, in the same unary form.  For every zone built by adds and every question
   (QTYPE other than ANY) answered by an RRset at the query name (the lookup reports LFound rs): respond_w decodes, and if the
   answering logic (set_aa, the answer RRset, additional-section processing) succeeded, the decoded answer section is that
   RRset, the authority section is empty, and the additional section is records related to an order-preserving
   sub-selection X of the candidate list [addl_rrs] (for NS/MD/MF/MB/MX/SRV answers in classes IN/CH: the A / AAAA RRsets
   of the names in the RDATA, in order) followed only by pseudo-records.  Any two successful responses to the same question
   — UDP or TCP, any limit — therefore differ only in which of those optional candidates are present. *)
Theorem c04_optional_only_partial : forall reqf apex cls wide recs z negttl buf tcp id rd qname qtype qclass edns limit rs sos,
  (forall c t a b d, reqf c t a b = true -> reqf c t b d = true -> reqf c t a d = true) ->
  zone_build reqf (zone_new apex cls wide) recs = Some z ->
  Forall (fun r => good_rd (r_rdata r) /\ (r_type r < 65536)%N) recs -> good_name apex -> (cls < 65536)%N ->
  512 <= length buf -> good_name qname -> in_zone apex qname = true ->
  (id < 65536)%N -> (qtype < 65536)%N -> (qclass < 65536)%N -> (forall s, edns = Some s -> (s < 65536)%N) ->
  (qtype =? QTYPE_ANY)%N = false ->
  zone_lookup z qname qtype true false = Ok (LFound rs sos) ->
  exists w len b m,
    prepare_w buf tcp id rd qname qtype qclass edns limit = Some w /\
    respond_w negttl buf tcp id rd qname qtype qclass edns limit z = Some (len, b) /\
    decode_msg (firstn len b) = Some m /\
    match set_aa_then w_iface (add_found w_iface z QhQname qname qtype rs) w with
    | Ok _ =>
      exists X ds_opt ds_pseudo,
        Forall2 (rr_rel xparts) (map (mkAR qname Standard qtype (z_class z) (ttl_rfc (fst rs))) (snd rs)) (m_an m) /\
        m_ns m = [] /\
        m_ar m = ds_opt ++ ds_pseudo /\
        Forall2 (rr_rel xparts) X ds_opt /\ Sub X (addl_rrs z qtype (snd rs)) /\
        forallb is_pseudo ds_pseudo = true
    | _ => True
    end.
Proof. exact respond_found_optional_build. Qed.

(* CLAUSE (iv) IN GENERAL, per response against the idealised answer — and the bridge from the octets to C05.
   For every zone built by adds, every question at/below the apex (any QTYPE: direct answers, CNAME chains, referrals,
   ANY, negative answers), both transports, any limits: respond_w decodes, and if the answering logic (answer / answer_any
   of query.rs driving the octet-level Writer) succeeded, then with r the response of the SAME logic on the idealised
   never-truncating Writer (answer_rec, the object of C05; = the RFC resolution algorithm [resolve] by c05_answer_refines):
     - the decoded answer section is r's answer section and the decoded authority section is r's authority section
       (record by record: owner and RDATA names modulo ASCII case, type, class, TTL, RDATA — C12's rr_rel);
     - r's additional section splits as M ++ O and the decoded additional section is M' ++ X' ++ P with M' the records
       of M, X' the records of an order-preserving sub-selection X of O, and P only pseudo-records (the OPT).
   Hence any two successful responses to the same question — over UDP and over TCP, under any limits — have the same
   answer and authority sections and differ only by omitted records of the additional section; a complete response
   omits nothing.  PARTIAL with respect to the literal clause (iv): (a) the condition is the model-level "answering
   succeeded" (by c04_tc_shape / c04_tc_on_the_octets the other endings are exactly the TC and SERVFAIL responses);
   (b) that the mandatory part M contains every in-bailiwick glue record is stated only for direct referrals
   (c04_glue_complete_partial); here M is whatever was written before the first optional record. *)
Theorem c04_only_optional_omitted_partial : forall reqf apex cls wide recs z buf tcp id rd qname qtype qclass edns limit,
  (forall c t a b d, reqf c t a b = true -> reqf c t b d = true -> reqf c t a d = true) ->
  zone_build reqf (zone_new apex cls wide) recs = Some z ->
  Forall (fun r => good_rd (r_rdata r) /\ (r_type r < 65536)%N) recs -> good_name apex -> (cls < 65536)%N ->
  512 <= length buf -> good_name qname -> in_zone apex qname = true ->
  (id < 65536)%N -> (qtype < 65536)%N -> (qclass < 65536)%N -> (forall s, edns = Some s -> (s < 65536)%N) ->
  exists w len b m,
    prepare_w buf tcp id rd qname qtype qclass edns limit = Some w /\
    respond_w neg_ttl buf tcp id rd qname qtype qclass edns limit z = Some (len, b) /\
    decode_msg (firstn len b) = Some m /\
    match answering z neg_ttl w_iface qname qtype w with
    | Ok _ =>
      exists r, (forall tcp', answer_rec z qname qtype tcp' = Some r) /\
        ResolveRepr.norm_rec r = ResolveS.resolve reqf apex cls (accepted apex cls recs) qname qtype /\
        Forall2 (rr_rel xparts) (map q2a (rc_an r)) (m_an m) /\
        Forall2 (rr_rel xparts) (map q2a (rc_ns r)) (m_ns m) /\
        exists M X Oq dsM dsX dsP,
          map q2a (rc_ar r) = M ++ map q2a Oq /\ Sub X (map q2a Oq) /\
          Forall (fun q => ~ in_bailiwick (rc_ns r) q) Oq /\
          m_ar m = dsM ++ dsX ++ dsP /\ Forall2 (rr_rel xparts) M dsM /\ Forall2 (rr_rel xparts) X dsX /\
          forallb is_pseudo dsP = true
    | _ => True
    end.
Proof. exact respond_w_vs_resolve. Qed.

(* The endings of handle_non_axfr_query read off the octets: the answering logic succeeded exactly when the decoded
   response has TC clear and an RCODE other than SERVFAIL (the answering logic itself only ever sets NXDOMAIN and never TC;
   the error arms end with set_rcode(SERVFAIL) or, over UDP after a Truncation, set_tc(true)). *)
Theorem c04_endings_on_the_octets : forall reqf apex cls R z negttl buf tcp id rd qname qtype qclass edns limit,
  Proofs.ZoneInvP.Inv reqf apex cls z R -> good_name apex -> (cls < 65536)%N ->
  Forall (fun r => Proofs.ComposeKeyP.Pz (fun _ _ => True) (r_type r) (r_rdata r)) R ->
  512 <= length buf -> good_name qname -> in_zone apex qname = true ->
  (id < 65536)%N -> (qtype < 65536)%N -> (qclass < 65536)%N -> (forall s, edns = Some s -> (s < 65536)%N) ->
  exists w len b m,
    prepare_w buf tcp id rd qname qtype qclass edns limit = Some w /\
    respond_w negttl buf tcp id rd qname qtype qclass edns limit z = Some (len, b) /\
    decode_msg (firstn len b) = Some m /\
    match answering z negttl w_iface qname qtype w with
    | Ok _ => tc_bit m = false /\ rcode_of_msg m <> 2%N
    | Err _ => tc_bit m = true \/ rcode_of_msg m = 2%N
    | Panic => False
    end.
Proof. intros. eapply respond_w_endings; eauto. Qed.

(* CLAUSE (iv), premise and conclusion both on the octets: for every zone built by adds, every question, transport and
   limit, the response decodes, and IF ITS TC BIT IS CLEAR AND ITS RCODE IS NOT SERVFAIL then its answer and authority
   sections are those of the idealised complete answer r (= resolve, C05) and its additional section is r's minus some
   records of the optional tail (plus the OPT).  A UDP response with TC clear therefore differs from the complete response
   to the same question only by omitted additional records, none of which is in-bailiwick (owner at/below the owner of
   an authority record): referral glue is never omitted, however the referral is reached. *)
Theorem c04_clause_iv : forall reqf apex cls wide recs z buf tcp id rd qname qtype qclass edns limit,
  (forall c t a b d, reqf c t a b = true -> reqf c t b d = true -> reqf c t a d = true) ->
  zone_build reqf (zone_new apex cls wide) recs = Some z ->
  Forall (fun r => good_rd (r_rdata r) /\ (r_type r < 65536)%N) recs -> good_name apex -> (cls < 65536)%N ->
  512 <= length buf -> good_name qname -> in_zone apex qname = true ->
  (id < 65536)%N -> (qtype < 65536)%N -> (qclass < 65536)%N -> (forall s, edns = Some s -> (s < 65536)%N) ->
  exists len b m,
    respond_w neg_ttl buf tcp id rd qname qtype qclass edns limit z = Some (len, b) /\
    decode_msg (firstn len b) = Some m /\
    (tc_bit m = false -> rcode_of_msg m <> 2%N ->
     exists r, (forall tcp', answer_rec z qname qtype tcp' = Some r) /\
       ResolveRepr.norm_rec r = ResolveS.resolve reqf apex cls (accepted apex cls recs) qname qtype /\
       Forall2 (rr_rel xparts) (map q2a (rc_an r)) (m_an m) /\
       Forall2 (rr_rel xparts) (map q2a (rc_ns r)) (m_ns m) /\
       exists M X Oq dsM dsX dsP,
         map q2a (rc_ar r) = M ++ map q2a Oq /\ Sub X (map q2a Oq) /\
         Forall (fun q => ~ in_bailiwick (rc_ns r) q) Oq /\
         m_ar m = dsM ++ dsX ++ dsP /\ Forall2 (rr_rel xparts) M dsM /\ Forall2 (rr_rel xparts) X dsX /\
         forallb is_pseudo dsP = true).
Proof. exact respond_w_clause_iv. Qed.

(* CLAUSE (iv) AS A COMPARISON OF TWO RUNS.  `differs_only_by_omissions r m`: the decoded message m has the answer and
   authority sections of the complete answer r, and its additional section is r's without some records of an optional
   tail none of which is in-bailiwick (so never referral glue), followed only by pseudo-records (the OPT). *)
Definition differs_only_by_omissions (r : recorder) (m : MsgWriterS.dmsg) : Prop :=
  Forall2 (rr_rel xparts) (map q2a (rc_an r)) (m_an m) /\
  Forall2 (rr_rel xparts) (map q2a (rc_ns r)) (m_ns m) /\
  exists M X Oq dsM dsX dsP,
    map q2a (rc_ar r) = M ++ map q2a Oq /\ Sub X (map q2a Oq) /\
    Forall (fun q => ~ in_bailiwick (rc_ns r) q) Oq /\
    m_ar m = dsM ++ dsX ++ dsP /\ Forall2 (rr_rel xparts) M dsM /\ Forall2 (rr_rel xparts) X dsX /\
    forallb is_pseudo dsP = true.

(* The same question asked over UDP and over TCP (any buffers >= 512, ids, RD bits, EDNS states and limits on either
   side): both responses decode; the TCP one never has TC set; and if the UDP response has TC clear and neither is
   SERVFAIL, there is ONE complete answer r (the RFC resolution algorithm's, C05) from which BOTH differ only by omitted
   not-in-bailiwick additional records: equal answer sections, equal authority sections, all glue present in both. *)
Theorem c04_clause_iv_two_runs : forall reqf apex cls wide recs z qname qtype qclass
    bufU idU rdU ednsU limitU bufT idT rdT ednsT limitT,
  (forall c t a b d, reqf c t a b = true -> reqf c t b d = true -> reqf c t a d = true) ->
  zone_build reqf (zone_new apex cls wide) recs = Some z ->
  Forall (fun r => good_rd (r_rdata r) /\ (r_type r < 65536)%N) recs -> good_name apex -> (cls < 65536)%N ->
  good_name qname -> in_zone apex qname = true -> (qtype < 65536)%N -> (qclass < 65536)%N ->
  512 <= length bufU -> (idU < 65536)%N -> (forall s, ednsU = Some s -> (s < 65536)%N) ->
  512 <= length bufT -> (idT < 65536)%N -> (forall s, ednsT = Some s -> (s < 65536)%N) ->
  exists lenU bU mU lenT bT mT,
    respond_w neg_ttl bufU false idU rdU qname qtype qclass ednsU limitU z = Some (lenU, bU) /\
    decode_msg (firstn lenU bU) = Some mU /\
    respond_w neg_ttl bufT true idT rdT qname qtype qclass ednsT limitT z = Some (lenT, bT) /\
    decode_msg (firstn lenT bT) = Some mT /\
    tc_bit mT = false /\
    (tc_bit mU = false -> rcode_of_msg mU <> 2%N -> rcode_of_msg mT <> 2%N ->
     exists r, (forall tcp, answer_rec z qname qtype tcp = Some r) /\
       ResolveRepr.norm_rec r = ResolveS.resolve reqf apex cls (accepted apex cls recs) qname qtype /\
       differs_only_by_omissions r mU /\ differs_only_by_omissions r mT).
Proof.
  intros reqf apex cls wide recs z qname qtype qclass bufU idU rdU ednsU limitU bufT idT rdT ednsT limitT
         Ht Hb Hrecs Ga Hc Gq Hz Hqt Hqc HbU HidU HeU HbT HidT HeT.
  destruct (c04_clause_iv reqf apex cls wide recs z bufU false idU rdU qname qtype qclass ednsU limitU
              Ht Hb Hrecs Ga Hc HbU Gq Hz HidU Hqt Hqc HeU) as (lenU & bU & mU & EU & DU & HU).
  destruct (c04_clause_iv reqf apex cls wide recs z bufT true idT rdT qname qtype qclass ednsT limitT
              Ht Hb Hrecs Ga Hc HbT Gq Hz HidT Hqt Hqc HeT) as (lenT & bT & mT & ET & DT & HT).
  destruct (c04_tc_on_the_octets reqf apex cls wide recs z neg_ttl bufT true idT rdT qname qtype qclass ednsT limitT
              Ht Hb Hrecs Ga Hc HbT Gq Hz HidT Hqt Hqc HeT) as (lenT' & bT' & mT' & ET' & DT' & Htc & _).
  rewrite ET in ET'. inversion ET'; subst lenT' bT'. rewrite DT in DT'. inversion DT'; subst mT'.
  exists lenU, bU, mU, lenT, bT, mT. split; [exact EU|]. split; [exact DU|]. split; [exact ET|]. split; [exact DT|].
  split; [exact (Htc eq_refl)|]. intros TU RU RT.
  destruct (HU TU RU) as (r & Hr & Hres & HanU & HnsU & HarU).
  destruct (HT (Htc eq_refl) RT) as (r' & Hr' & _ & HanT & HnsT & HarT).
  assert (r' = r) by (pose proof (Hr true) as A; rewrite (Hr' true) in A; inversion A; reflexivity). subst r'.
  exists r. split; [exact Hr|]. split; [exact Hres|]. split; [exact (conj HanU (conj HnsU HarU))|exact (conj HanT (conj HnsT HarT))].
Qed.

(* Non-vacuity: zone a. with the delegation sub.a. NS ns.sub.a. / NS ns.other. and the glue ns.sub.a. A 5.6.7.8:
   the lookup of x.sub.a. is a referral, its glue list is that one A record, and do_referral succeeds in 512 octets. *)
Definition ex_recs4 : list record :=
  [mk_record [[115;117;98];[97]]%N 2 1 60 [2;110;115;3;115;117;98;1;97;0]%N;
   mk_record [[115;117;98];[97]]%N 2 1 60 [2;110;115;5;111;116;104;101;114;0]%N;
   mk_record [[110;115];[115;117;98];[97]]%N 1 1 60 [5;6;7;8]%N].
Example c04_glue_example :
  match zone_build req_simple (zone_new [[97]]%N 1 false) ex_recs4 with
  | Some z =>
    match zone_lookup z [[120];[115;117;98];[97]]%N 1 true false with
    | Ok (LReferral child ns) =>
      glue_rrs z child (snd ns) = [mkAR [[110;115];[115;117;98];[97]]%N Standard 1 1 60 [5;6;7;8]%N] /\
      match prepare_w (repeat 0%N 512) false 7 false [[120];[115;117;98];[97]]%N 1 1 None 512 with
      | Some w => match do_referral w_iface z child ns w with Ok _ => True | _ => False end
      | None => False
      end
    | _ => False
    end
  | None => False
  end.
Proof. vm_compute. split; [reflexivity|exact I]. Qed.

(* ---------------------------------------------------------------- responses that carry a TSIG (suite `signed`)
   There is no model of TSIG-bearing response octets: for correctly signed requests all clauses are decided by the
   extracted relation [pair_check_signed] (Spec/RespSigS.v) on the real server's two responses.  It is [pair_check]
   with the trailing TSIG record of each additional section set aside in the omission clause; the theorems below
   say that it is not a second, unrelated specification (it IS pair_check on responses without a TSIG record) and
   what its verdict means. *)
Theorem c04_signed_oracle_conservative : forall their server u t,
  no_tsig u -> no_tsig t ->
  pair_check_signed their server u t = SPair (pair_check their server u t).
Proof. exact pair_check_signed_plain. Qed.

Theorem c04_signed_oracle_sizes_and_identity : forall their server u t mu mt,
  decode_msg u = Some mu -> decode_msg t = Some mt ->
  pair_check_signed their server u t = SPair PairOk ->
  length u <= udp_limit_of mu their server /\ length t <= N.to_nat 65535 /\ tc_bit mt = false /\
  (length t <= udp_limit_of mu their server -> u = t).
Proof. exact signed_sizes_and_identity. Qed.

Theorem c04_signed_oracle_tc_shape : forall their server u t mu mt,
  decode_msg u = Some mu -> decode_msg t = Some mt ->
  pair_check_signed their server u t = SPair PairOk -> tc_bit mu = true ->
  m_an mu = [] /\ m_ns mu = [] /\ forallb is_pseudo (m_ar mu) = true /\ tc_bit mt = false /\
  udp_limit_of mu their server < length t.
Proof. exact signed_tc_shape. Qed.

Theorem c04_signed_oracle_omission : forall their server u t mu mt,
  decode_msg u = Some mu -> decode_msg t = Some mt ->
  pair_check_signed their server u t = SPair PairOk ->
  udp_limit_of mu their server < length t -> tc_bit mu = false ->
  m_id mu = m_id mt /\ m_flags2 mu = m_flags2 mt /\ m_flags3 mu = m_flags3 mt /\
  rrs_eq (m_an mu) (m_an mt) = true /\ rrs_eq (m_ns mu) (m_ns mt) = true /\
  exists au su at_ st left_out,
    split_tsig (m_ar mu) = (au, su) /\ split_tsig (m_ar mt) = (at_, st) /\
    tsig_eq_mod_rdata su st = true /\
    omitted au at_ = Some left_out /\
    forallb (fun r => negb (is_pseudo r) && negb (is_glue_for (m_ns mt) r)) left_out = true.
Proof. exact signed_omission. Qed.

(* tie to C02's oracle: in a response accepted by wf_response (at most one TSIG record, and only as the last record) the
   additional-section body that remains after setting the trailing TSIG record aside contains no TSIG record: for a pair
   of well-formed responses the omission clause compares exactly the non-TSIG records *)
Theorem c04_signed_oracle_tsig_set_aside : forall b m body ts,
  wf_response b = true -> decode_msg b = Some m -> split_tsig (m_ar m) = (body, ts) ->
  forallb (fun r => negb (is_tsig r)) body = true.
Proof.
  intros b m body ts Hwf Hd. unfold wf_response in Hwf. rewrite Hd in Hwf. exact (split_tsig_complete m body ts Hwf).
Qed.

(* Non-vacuity, on hand-written octets.  Question b.a. ; key k. (hmac-sha256, 32-octet MAC [m]). *)
Definition sx_hdr (f2 an ar : N) : list N := [0;7;f2;0; 0;1; 0;an; 0;0; 0;ar]%N.
Definition sx_q (ty : N) : list N := [1;98;1;97;0; 0;ty; 0;1]%N.
Definition sx_txt (c : N) : list N := ([192;12; 0;16; 0;1; 0;0;1;44; 0;201] ++ (200 :: repeat c 200))%N.
Definition sx_tsig (m : N) : list N :=
  ([1;107;0; 0;250; 0;255; 0;0;0;0; 0;61] ++ [11;104;109;97;99;45;115;104;97;50;53;54;0] ++
   [0;0;100;0;0;0; 1;44; 0;32] ++ repeat m 32 ++ [0;7; 0;0; 0;0])%N.
Definition sx_mx : list N := [192;12; 0;15; 0;1; 0;0;1;44; 0;6; 0;10; 1;109; 192;14]%N.
Definition sx_a (i : N) : list N := [192;35; 0;1; 0;1; 0;0;0;60; 0;4; 10;0;0;i]%N.

(* (a) the complete signed answer (3 x 201 octets of TXT + TSIG = 734 octets) does not fit 512: over UDP TC, no records,
       the TSIG RR (another MAC) kept; both accepted by wf_response *)
Example c04_signed_tc_example :
  let u := sx_hdr 134 0 1 ++ sx_q 16 ++ sx_tsig 1 in
  let t := sx_hdr 132 3 1 ++ sx_q 16 ++ sx_txt 120 ++ sx_txt 121 ++ sx_txt 122 ++ sx_tsig 2 in
  length u = 95 /\ length t = 734 /\
  pair_check_signed 0 1232 u t = SPair PairOk /\ wf_response u = true /\ wf_response t = true /\
  (* ... and with answer records next to TC (seeded defect C04-B) it is rejected *)
  pair_check_signed 0 1232 (sx_hdr 134 1 0 ++ sx_q 16 ++ sx_txt 120) t = SPair PTcWithRecords.
Proof. vm_compute. repeat split. Qed.

(* (b) MX answer with 32 address records of the target + TSIG (625 octets): over UDP only 10 of them, TC clear, TSIG with
       another MAC.  The signed relation accepts (only optional additional records are missing); the plain relation
       cannot (it would count the TSIG RDATA as a difference): this is why the variant exists.  A response that also
       drops the TSIG record is rejected. *)
Example c04_signed_omission_example :
  let addrs := fun n => flat_map sx_a (map N.of_nat (seq 0 n)) in
  let u := sx_hdr 132 1 11 ++ sx_q 15 ++ sx_mx ++ addrs 10 ++ sx_tsig 1 in
  let t := sx_hdr 132 1 33 ++ sx_q 15 ++ sx_mx ++ addrs 32 ++ sx_tsig 2 in
  length t = 625 /\
  pair_check_signed 0 1232 u t = SPair PairOk /\ pair_check 0 1232 u t = PNotOmission /\
  wf_response u = true /\ wf_response t = true /\
  pair_check_signed 0 1232 (sx_hdr 132 1 10 ++ sx_q 15 ++ sx_mx ++ addrs 10) t = STsigMismatch.
Proof. vm_compute. repeat split. Qed.

(* (c) the hypothesis of c04_signed_oracle_conservative holds for the unsigned pair of (a) *)
Example c04_signed_conservative_example :
  no_tsig (sx_hdr 134 0 0 ++ sx_q 16) /\ no_tsig (sx_hdr 132 3 0 ++ sx_q 16 ++ sx_txt 120 ++ sx_txt 121 ++ sx_txt 122).
Proof. vm_compute. split; reflexivity. Qed.

Print Assumptions c04_clause_iv.
Print Assumptions c04_clause_iv_two_runs.
Print Assumptions c04_endings_on_the_octets.
Print Assumptions c04_only_optional_omitted_partial.
Print Assumptions c04_glue_complete_partial.
Print Assumptions c04_optional_only_partial.
Print Assumptions c04_tc_on_the_octets.
Print Assumptions c04_response_within_limit.
Print Assumptions c04_tc_shape.
Print Assumptions c04_limit_value.
Print Assumptions c04_udp_response_size.
Print Assumptions c04_udp_identical_when_fits_partial.
Print Assumptions c04_writer_limit_monotone.
Print Assumptions c04_oracle_tc_shape.
Print Assumptions c04_oracle_sizes_and_identity.

(* ---- TSIG-bearing responses and the limit (Model/ServerWT.v) ----
   c04_tsig_within_limit_partial: whenever the response of the abstract server model carries TSIG settings, the
   octets the extended composed model returns for it - header, question, OPT, TSIG record, written by the byte-level
   Writer model - are no longer than the response's limit, and that limit is the one c04_limit_value describes
   (65535 / 512, or the requestor's payload size clamped to [512, server size]).
   c04_tsig_or_tc: what the code does when OPT + TSIG do not fit (set_tsig_or_truncate, on the model of
   Model/Server.v): the TSIG settings are installed only if cursor + TSIG length <= available (= limit - 11 with an
   OPT), otherwise the response keeps its RCODE and OPT, gets TC, and carries no TSIG - never a panic; such a
   response has no TSIG settings and is produced in octets by ServerW.serialize_resp (c01_no_panic, c02_wellformed).
   PARTIAL: [unverified] verifiers only (BADKEY / BADSIG / FORMERR classes). *)
From QV Require Import Model.Server Model.ServerW Model.ServerWT Proofs.ServerP Proofs.ServerLimitP Proofs.ComposeTsigTopP.

Theorem c04_tsig_within_limit_partial : forall hmac zones negttl answer verify cfg buf req wa t,
  ServerP.wf_cfg cfg -> length buf = Server.c_buflen cfg -> (Server.c_now cfg < 281474976710656)%N -> unverified verify -> wf_bytes req ->
  Server.handle_message answer verify cfg req = Ok (Some wa) -> Server.w_tsig wa = Some t ->
  exists len b,
    handle_message_wt hmac zones negttl answer verify cfg buf req = Ok (Some (ROctets len b)) /\
    len <= Server.w_limit wa /\ ServerLimitP.lim_ok cfg req wa.
Proof.
  intros hmac zones negttl answer verify cfg buf req wa t Hcfg Hbuf Hnow Hunv Hwf HA Et.
  destruct (tsig_response_octets hmac zones negttl answer verify cfg buf Hcfg Hbuf Hnow Hunv req wa t Hwf HA Et)
    as (len & b & f & E & Hl & L & _).
  exists len, b. auto.
Qed.

Theorem c04_tsig_or_tc : forall w t,
  Server.w_tsig w = None ->
  (Server.w_avail w < Server.w_cursor w + Server.t_reserved t ->
     Server.set_tsig_or_truncate w t = (Server.set_tc w, false)) /\
  (Server.w_cursor w + Server.t_reserved t <= Server.w_avail w -> (Server.w_arcount w < 65535)%N ->
     snd (Server.set_tsig_or_truncate w t) = true /\
     Server.w_tsig (fst (Server.set_tsig_or_truncate w t)) = Some t /\
     Server.w_tc (fst (Server.set_tsig_or_truncate w t)) = Server.w_tc w /\
     Server.w_avail (fst (Server.set_tsig_or_truncate w t)) = Server.w_avail w - Server.t_reserved t).
Proof.
  intros w t Hn. unfold Server.set_tsig_or_truncate, Server.set_tsig. rewrite Hn. split.
  - intros H. apply Nat.ltb_lt in H. rewrite H. reflexivity.
  - intros H Ha. apply Nat.ltb_ge in H. rewrite H.
    destruct (65535 <=? Server.w_arcount w)%N eqn:X; [apply N.leb_le in X; lia|]. cbn. auto.
Qed.

Print Assumptions c04_tsig_within_limit_partial.
Print Assumptions c04_tsig_or_tc.
Print Assumptions c04_signed_oracle_conservative.
Print Assumptions c04_signed_oracle_sizes_and_identity.
Print Assumptions c04_signed_oracle_tc_shape.
Print Assumptions c04_signed_oracle_omission.
Print Assumptions c04_signed_oracle_tsig_set_aside.

(* ---- the SIGNED TSIG record and the limit (pkg-sproof; Proofs/SignFinishP.v, SignSerP.v, SignTopP.v) ----
   c04_tsig_within_limit: c04_tsig_within_limit_partial WITHOUT [unverified]: for every verifier and every hmac whose
   output has the algorithm's output size (the only fact about HMAC used; Proofs/SignShapeP.v, SignLenP.v): whenever the response of the abstract server model
   carries TSIG settings - unsigned (BADKEY / BADSIG / FORMERR) or SIGNING (BADTIME with 6 octets of other data;
   verified and answered NOTIMP / REFUSED / SERVFAIL / FORMERR) - the extended composed model returns octets no
   longer than the response's limit; the one remaining class (a verified request answered out of a Loaded zone) is
   still the abstract response [RAbs wa] (Model/ServerWT.v: handle_query_t).  The record written is never larger
   than the reservation signed_len = key name + algorithm name + 26 + output size (+ 6 for BADTIME) the pre-scan
   subtracted from the available space, so no spurious TC and no overflow of the limit. *)
From QV Require Import Proofs.SignTopP Proofs.SignLenP.
From QV Require Model.TsigMsg.

Theorem c04_tsig_within_limit : forall hmac zones negttl answer verify cfg buf req wa t,
  (forall a k d, length (hmac a k d) = TsigMsg.output_size a) ->
  ServerP.wf_cfg cfg -> length buf = Server.c_buflen cfg -> (Server.c_now cfg < 281474976710656)%N -> wf_bytes req ->
  Server.handle_message answer verify cfg req = Ok (Some wa) -> Server.w_tsig wa = Some t ->
  handle_message_wt hmac zones negttl answer verify cfg buf req = Ok (Some (RAbs wa)) \/
  exists len b,
    handle_message_wt hmac zones negttl answer verify cfg buf req = Ok (Some (ROctets len b)) /\
    len <= Server.w_limit wa /\ ServerLimitP.lim_ok cfg req wa.
Proof.
  intros hmac zones negttl answer verify cfg buf req wa t Hl Hcfg Hbuf Hnow Hwf HA Et.
  exact (tsig_response_limit_len hmac Hl zones negttl answer verify cfg buf Hcfg Hbuf Hnow req wa t Hwf HA Et).
Qed.

Print Assumptions c04_tsig_within_limit.

(* Regression for the arithmetic finish_signed_ok2 / signed_steps pin down (the seeded defect "signed_len counts the
   MAC size field twice", + 2): HMAC-SHA256, root key name, no question, BADTIME, limit 90 = 12 + 78: the real
   reservation (output size 32 -> 78) lets the record in and the finished message is exactly 90 octets long; a
   reservation 2 octets larger is refused - Truncation, i.e. a spurious TC for a response that fits. *)
Example c04_signed_len_plus_two_refuted :
  let hm := fun (a : TsigMsg.alg) (k d : bytes) => repeat 90%N (TsigMsg.output_size a) in
  let alg : MsgWriter.wname := [[104;109;97;99;45;115;104;97;50;53;54]%N] in
  let tm : bytes := [0;0;101;83;241;0]%N in
  match MsgWriter.writer_new (repeat 0%N 90) 90 with
  | Ok w =>
    match set_tsig_signed 32 alg [] tm 300 7 18 tm w with
    | Ok (_, w2) => match finish_signed hm TsigMsg.HmacSha256 [] [] w2 with Ok (len, _) => len = 90 | _ => False end
    | _ => False
    end /\
    match set_tsig_signed 34 alg [] tm 300 7 18 tm w with
    | Err (MsgWriter.Truncation, _) => True
    | _ => False
    end
  | _ => False
  end.
Proof. vm_compute. auto. Qed.
