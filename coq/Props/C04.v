(* C04 — responses respect the transport size limit and truncate correctly (work in progress). *)
From QV Require Import Base.Res Base.Octets Spec.MsgWriterS Spec.RespS.
From QV Require Model.QueryW Model.Server Spec.NameRepr.

(* what a verdict PairOk of the oracle means for a truncated UDP response *)
Theorem c04_oracle_tc_shape : forall their server u t mu mt,
  decode_msg u = Some mu -> decode_msg t = Some mt ->
  pair_check their server u t = PairOk -> tc_bit mu = true ->
  m_an mu = [] /\ m_ns mu = [] /\ forallb is_pseudo (m_ar mu) = true /\ tc_bit mt = false.
Proof.
  intros their server u t mu mt Hu Ht. unfold pair_check. rewrite Hu, Ht.
  destruct (_ || _); [discriminate|]. destruct (tc_bit mt); [discriminate|].
  intros H Htc. rewrite Htc in H.
  destruct (length (m_an mu) =? 0) eqn:A; [|discriminate]. destruct (length (m_ns mu) =? 0) eqn:B; [|discriminate].
  destruct (forallb is_pseudo (m_ar mu)) eqn:C; [|discriminate].
  apply Nat.eqb_eq in A. apply Nat.eqb_eq in B.
  destruct (m_an mu); [|discriminate]. destruct (m_ns mu); [|discriminate]. auto.
Qed.
Print Assumptions c04_oracle_tc_shape.
