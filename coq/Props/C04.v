(* C04 — responses respect the transport size limit and truncate correctly.
   Statements only (proofs are [exact <lemma>] or a few lines of unpacking).

   What is proved, for ALL zones, questions, buffers and sizes, about the OCTET-LEVEL model
   (Model/QueryW.v: the query model of C05 driving the Writer model of C12, prepared as
   Server::handle_message prepares the response of a clean QUERY):
     c04_response_within_limit   |response| <= limit in effect (TCP 65535; UDP 512 without OPT; UDP with
                                 OPT: the negotiated limit handed over by the server model)
     c04_tc_shape                the TC bit is set only in the Truncation arm, only over UDP, after
                                 clear_rrs: no answer/authority record and only the reserved pseudo-records
                                 counted; over TCP TC stays clear; the limit never changes while answering
     c04_server_limit_steps_partial   the two places of the server model that fix the limit: the initial
                                 limit (512 / 65535, capped by the buffer) and set_limit at the OPT
                                 (PARTIAL: that no other step of the pre-scan touches the limit is part of
                                 the srv correspondence, not of a theorem)
   What is NOT proved and is decided per case by the extracted oracle [pair_check] (Spec/RespS.v) on
   the real server's two responses to every generated request: clauses (iii) "whenever the TCP
   response fits in the UDP limit the UDP response is identical" and (iv) "otherwise a TC-clear UDP
   response differs only by omitted optional additional records, never by in-bailiwick glue"
   (they need a limit-monotonicity theorem of the Writer, which C12 does not have), and the size/TC
   clauses on the finished octets.  c04_oracle_* say what a verdict PairOk means. *)
From QV Require Import Base.Res Base.Octets Model.MsgWriter Model.ZoneTree Model.Query Model.QueryW
  Proofs.MsgWriterInvP Proofs.QueryWP Spec.MsgWriterS Spec.RespS.
From QV Require Model.Server Spec.NameRepr.

Theorem c04_response_within_limit : forall negttl buf tcp id rd qname qtype qclass edns limit z len b,
  respond_w negttl buf tcp id rd qname qtype qclass edns limit z = Some (len, b) ->
  (tcp = true -> len <= N.to_nat 65535) /\
  (tcp = false -> edns = None -> len <= N.to_nat 512) /\
  (tcp = false -> edns <> None -> N.to_nat 512 <= limit -> len <= limit).
Proof. exact respond_w_limit. Qed.

Theorem c04_tc_shape : forall negttl buf tcp id rd qname qtype qclass edns limit z w w',
  prepare_w buf tcp id rd qname qtype qclass edns limit = Some w ->
  handle_non_axfr_query w_iface negttl z qname qtype tcp w = Some w' ->
  w_limit w' = w_limit w /\
  (tcp = true -> tc_clear w') /\
  (tc_clear w' \/ (tcp = false /\ tc_set w' /\ no_records w')).
Proof.
  intros negttl buf tcp id rd qname qtype qclass edns limit z w w' Hp Hh.
  destruct (prepare_PW _ _ _ _ _ _ _ _ _ _ Hp) as (L & HP & _).
  destruct (handle_PW L _ _ _ _ _ _ _ HP Hh) as (_ & Hl & A & B).
  destruct HP as (_ & Hl0 & _). split; [congruence|]. auto.
Qed.

Theorem c04_server_limit_steps_partial :
  (forall cfg id opc rd w, Server.initial_resp cfg id opc rd = Ok w ->
     Server.w_limit w = Nat.min (match Server.c_transport cfg with Server.Tcp => Server.tcp_limit | Server.Udp => Server.udp_limit end)
                                (Server.c_buflen cfg)) /\
  (forall w n w', Server.set_limit w n = Ok w' -> Server.w_limit w <= n ->
     Server.w_limit w' = Nat.min n (Server.w_buflen w)).
Proof.
  split.
  - intros cfg id opc rd w. unfold Server.initial_resp. destruct (_ <? _); [discriminate|].
    intros H; inversion H; subst. reflexivity.
  - intros w n w'. unfold Server.set_limit. destruct (Server.w_limit w <=? n) eqn:E.
    + destruct (_ <? _); [discriminate|]. intros H _; inversion H; subst. reflexivity.
    + apply Nat.leb_gt in E. intros _ H. lia.
Qed.

(* what the oracle's verdict means *)
Lemma label_eqb_eq : forall a b, label_eqb a b = true -> a = b.
Proof.
  induction a as [|x a IH]; destruct b as [|y b]; simpl; try discriminate; auto.
  intros H. apply andb_true_iff in H. destruct H as [H1 H2]. apply N.eqb_eq in H1. f_equal; auto.
Qed.

Theorem c04_oracle_tc_shape : forall their server u t mu mt,
  decode_msg u = Some mu -> decode_msg t = Some mt ->
  pair_check their server u t = PairOk -> tc_bit mu = true ->
  m_an mu = [] /\ m_ns mu = [] /\ forallb is_pseudo (m_ar mu) = true /\ tc_bit mt = false.
Proof.
  intros their server u t mu mt Hu Ht. unfold pair_check. rewrite Hu, Ht.
  destruct (_ || _); [discriminate|]. destruct (tc_bit mt) eqn:Tt; [discriminate|].
  intros H Htc. destruct (length t <=? udp_limit_of mu their server) eqn:F.
  { destruct (label_eqb u t) eqn:E; [|discriminate]. apply label_eqb_eq in E. subst t.
    rewrite Hu in Ht. inversion Ht; subst. rewrite Htc in *. discriminate. }
  rewrite Htc in H.
  destruct (length (m_an mu) =? 0) eqn:A; [|discriminate]. destruct (length (m_ns mu) =? 0) eqn:B; [|discriminate].
  destruct (forallb is_pseudo (m_ar mu)) eqn:C; [|discriminate].
  apply Nat.eqb_eq in A. apply Nat.eqb_eq in B.
  destruct (m_an mu); [|discriminate]. destruct (m_ns mu); [|discriminate]. auto.
Qed.

Theorem c04_oracle_sizes_and_identity : forall their server u t mu mt,
  decode_msg u = Some mu -> decode_msg t = Some mt ->
  pair_check their server u t = PairOk ->
  length u <= udp_limit_of mu their server /\ length t <= N.to_nat 65535 /\ tc_bit mt = false /\
  (length t <= udp_limit_of mu their server -> u = t).
Proof.
  intros their server u t mu mt Hu Ht. unfold pair_check. rewrite Hu, Ht.
  destruct (udp_limit_of mu their server <? length u) eqn:A; [discriminate|].
  destruct (N.to_nat 65535 <? length t) eqn:B; [discriminate|]. cbn [orb].
  apply Nat.ltb_ge in A. apply Nat.ltb_ge in B.
  destruct (tc_bit mt); [discriminate|]. intros H. repeat split; auto.
  intros Hfit. apply Nat.leb_le in Hfit. rewrite Hfit in H.
  destruct (label_eqb u t) eqn:E; [|discriminate]. apply label_eqb_eq. exact E.
Qed.

(* Non-vacuity: zone "a." with a TXT RRset of 3 x 201 octets at b.a.; the question b.a. TXT without EDNS.
   Over TCP the model writes the complete 660-octet response (3 answers); over UDP (limit 512) the second
   record does not fit: 21 octets, TC set (flags octet 0x86), no records.  The oracle accepts the pair and
   both responses are well formed. *)
Example c04_example :
  let a := [97%N] in let big := [98%N] in
  let soa := [0; 0; 0;0;0;1; 0;0;0;2; 0;0;0;3; 0;0;0;4; 0;0;0;60]%N in
  let txt := fun c : N => (200 :: repeat c 200)%N in
  let recs := [mk_record [a] 6 1 3600 soa; mk_record [big; a] 16 1 300 (txt 120%N);
               mk_record [big; a] 16 1 300 (txt 121%N); mk_record [big; a] 16 1 300 (txt 122%N)] in
  exists z ru rt lu lt,
    zone_build req_simple (zone_new [a] 1 false) recs = Some z /\
    respond_w neg_ttl (repeat 0%N 1000) false 7 false [big; a] 16 1 None 512 z = Some (lu, ru) /\
    respond_w neg_ttl (repeat 0%N 1000) true 7 false [big; a] 16 1 None 512 z = Some (lt, rt) /\
    lu = 21 /\ lt = 660 /\ nth_error ru 2 = Some 134%N /\ nth_error rt 2 = Some 132%N /\
    pair_check 0 1232 (firstn lu ru) (firstn lt rt) = PairOk /\
    wf_response (firstn lu ru) = true /\ wf_response (firstn lt rt) = true.
Proof.
  cbv zeta. eexists. eexists. eexists. eexists. eexists.
  split; [vm_compute; reflexivity|]. split; [vm_compute; reflexivity|]. split; [vm_compute; reflexivity|].
  vm_compute. repeat split.
Qed.

Print Assumptions c04_response_within_limit.
Print Assumptions c04_tc_shape.
Print Assumptions c04_server_limit_steps_partial.
Print Assumptions c04_oracle_tc_shape.
Print Assumptions c04_oracle_sizes_and_identity.
