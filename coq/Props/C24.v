(* C24 — the zone-file parser is total and only yields valid records.
   Statements only; every proof is [exact <lemma from Proofs/ZfRecordP.v>].
   [parse_all] drives the model of <zone_file::Parser as Iterator>::next until it returns None. *)
From QV Require Import Base.ListX Model.NameWire Model.ZfReader Model.ZfParser Model.ZfRecOnly Spec.ZfValidS
  Proofs.ZfReaderP Proofs.ZfNameP Proofs.ZfParserP Proofs.ZfRecordP Proofs.ZfRecOnlyP.

(* For ANY input octets the iteration ends with a list of items: it never panics (no indexing,
   unwrap, ArrayVec::push or overflow check of the modelled code can fire) and the model's fuel
   (length of the input + 2 for every loop) is never exhausted. *)
Theorem c24_total : forall input, exists items p, parse_all input = Ok (items, p).
Proof. exact parse_all_total. Qed.

(* After an error item every further call of next yields None and leaves the parser unchanged;
   in a complete run an error can only be the last item, and the exhausted iterator stays exhausted. *)
Theorem c24_stops : forall p e p', parser_next p = Ok (Some (inr e), p') ->
  forall n, Forall (fun x => x = Ok (None, p')) (next_n n p').
Proof. exact stops_after_error. Qed.

Theorem c24_stops_run : forall input items p, parse_all input = Ok (items, p) ->
  parser_next p = Ok (None, p) /\
  forall i e, nth_error items i = Some (inr e) -> S i = length items.
Proof. exact errors_only_last. Qed.

(* Every yielded record has a valid absolute owner, a type other than NULL/OPT/TSIG and RDATA that
   the model of Rdata::validate accepts for its class and type (whether written in the type's own
   syntax or in the RFC 3597 \# form). *)
Theorem c24_valid : forall input items p n rr, parse_all input = Ok (items, p) ->
  In (inl (mkLine n (CRecord rr))) items ->
  good_name (rr_owner rr) /\ ~ In (rr_type rr) forbidden_types /\
  rdata_validate (rr_class rr) (rr_type rr) (rr_rdata rr) = Ok true.
Proof. exact records_valid. Qed.

(* ... and a good name is absolute: it passes the model of Name::validate_uncompressed_all,
   ends in the root label and has at most 255 octets. *)
Theorem c24_owner_absolute : forall nm, good_name nm ->
  validate_uncompressed_name (n_wire nm) true = Ok (length (n_wire nm)) /\
  last (n_wire nm) 1%N = 0%N /\ length (n_wire nm) <= 255.
Proof. exact good_name_absolute. Qed.

(* the origin carried by a yielded $INCLUDE is a valid absolute name too *)
Theorem c24_include_origin : forall input items p n path o, parse_all input = Ok (items, p) ->
  In (inl (mkLine n (CInclude path (Some o)))) items -> good_name o.
Proof. exact includes_valid. Qed.

(* The records-only iterator (Parser::records_only(), what the zone loader uses): it is total as well, an
   $INCLUDE line becomes an "include not supported" error, and after ANY error item -- the parser's own or
   that one -- every further call yields None and leaves the state unchanged; in a complete run an error is
   the last item and the exhausted iterator stays exhausted. *)
Theorem c24_records_only_total : forall input, exists items p, ro_all input = Ok (items, p).
Proof. exact ro_all_total. Qed.

Theorem c24_records_only_stops : forall p e p', ro_next p = Ok (Some (inr e), p') ->
  forall n, Forall (fun x => x = Ok (None, p')) (ro_next_n n p').
Proof. exact ro_stops_after_error. Qed.

Theorem c24_records_only_stops_run : forall input items p, ro_all input = Ok (items, p) ->
  ro_next p = Ok (None, p) /\
  forall i e, nth_error items i = Some (inr e) -> S i = length items.
Proof. exact ro_errors_only_last. Qed.

Theorem c24_records_only_include : forall p n path o p',
  parser_next p = Ok (Some (inl (mkLine n (CInclude path o))), p') ->
  exists p'', ro_next p = Ok (Some (inr (mkPos n 1, IncludeNotSupported)), p'') /\ ps_error p'' = true.
Proof. exact ro_include_is_error. Qed.

(* Non-vacuity: a record, an $INCLUDE line and another record: the iterator yields the record, the error
   at line 2 column 1, and then nothing (c24_records_only_stops_run). *)
Definition ex_ro_file : bytes :=
  (* "a. 1 IN A 1.2.3.4\n$INCLUDE f\nb. 1 IN A 1.2.3.5\n" *)
  [97;46;32;49;32;73;78;32;65;32;49;46;50;46;51;46;52;10; 36;73;78;67;76;85;68;69;32;102;10;
   98;46;32;49;32;73;78;32;65;32;49;46;50;46;51;46;53;10]%N.

Example c24_records_only_example :
  exists r1 p, ro_all ex_ro_file = Ok ([inl (mkRoLine 1 r1); inr (mkPos 2 1, IncludeNotSupported)], p) /\
    rr_rdata r1 = [1; 2; 3; 4]%N.
Proof. vm_compute. do 2 eexists. split; reflexivity. Qed.

(* Non-vacuity: a file with a directive, a relative owner, an omitted owner, parentheses, a \# record
   and a final syntax error is parsed to three valid records followed by the error. *)
Definition ex_file : bytes :=
  (* "$ORIGIN e.\na 5 IN MX 1 (\n b )\n TXT \"x\"\nc A \\# 4 01020304\nd 1 IN A 1.2.3\n" *)
  [36;79;82;73;71;73;78;32;101;46;10; 97;32;53;32;73;78;32;77;88;32;49;32;40;10;32;98;32;41;10;
   32;84;88;84;32;34;120;34;10; 99;32;65;32;92;35;32;52;32;48;49;48;50;48;51;48;52;10;
   100;32;49;32;73;78;32;65;32;49;46;50;46;51;10]%N.

Example c24_example :
  exists r1 r2 r3 e p,
    parse_all ex_file = Ok ([inl (mkLine 2 (CRecord r1)); inl (mkLine 4 (CRecord r2));
                             inl (mkLine 5 (CRecord r3)); inr e], p) /\
    rr_rdata r1 = [0; 1; 1; 98; 1; 101; 0]%N /\ rr_owner r2 = rr_owner r1 /\
    rr_rdata r3 = [1; 2; 3; 4]%N /\ snd e = InvalidIpv4.
Proof. vm_compute. do 5 eexists. split; [reflexivity|]. repeat split. Qed.

Print Assumptions c24_total.
Print Assumptions c24_stops.
Print Assumptions c24_stops_run.
Print Assumptions c24_valid.
Print Assumptions c24_owner_absolute.
Print Assumptions c24_include_origin.
Print Assumptions c24_records_only_total.
Print Assumptions c24_records_only_stops.
Print Assumptions c24_records_only_stops_run.
Print Assumptions c24_records_only_include.
