(* C09 — EDNS(0) handling. *)
From QV Require Import Model.ZoneTree Model.Query Model.MsgWriter Model.QueryW Proofs.ServerOptP.
From QV Require Import Base.ListX Model.NameWire Model.Reader Model.RdataLite Model.Server Proofs.ReaderP Proofs.ServerP
  Spec.NameWireS Spec.ReaderS Spec.MsgWalkS Proofs.MsgWalkP Proofs.MsgWalkRecP Proofs.MsgWalkTopP.

(* The response is an EDNS response (one OPT, emitted by Writer::finish) if and only if processing
   reached an OPT record in the request's additional section ([opt_reached]: the question is in
   order, the answer/authority records are delimitable and contain no OPT/TSIG, and scanning the
   additional section over delimitable ordinary records meets a record of type OPT); its CLASS is
   the server's configured payload size. *)
Theorem c09_opt_iff : forall answer verify cfg req w, wf_cfg cfg -> wf_bytes req ->
  handle_message answer verify cfg req = Ok (Some w) ->
  (w_edns w <> None <-> opt_reached req = true) /\
  match w_edns w with Some (sz, _) => sz = c_edns_size cfg | None => True end.
Proof.
  intros answer verify cfg req w Hc Hw H.
  destruct (handle_message_response answer verify cfg req w Hc Hw H) as (_ & _ & A & B). split; assumption.
Qed.

(* OPT validation: a non-root owner is FORMERR, a version other than 0 — bits 23..16 of the RAW
   TTL field — is BADVERS (extended RCODE 16). *)
Theorem c09_validate_opt : forall owner raw,
  validate_opt owner raw =
    if negb (length (n_offsets owner) =? 1) then Some RC_FORMERR
    else if negb ((N.shiftr raw 16 mod 256) =? 0)%N then Some XRC_BADVERSBADSIG else None.
Proof. exact validate_opt_spec. Qed.

(* Regression witness: the pre-fix code read the version from the clamped Ttl and missed it when
   the top bit of the field was set. *)
Theorem c09_badvers_refuted_prefix :
  let root := mkName [0%N] [0%N] in
  validate_opt_prefix root 2147549184 = None /\ validate_opt root 2147549184 = Some XRC_BADVERSBADSIG.
Proof. exact validate_opt_prefix_refuted. Qed.

(* end to end on the model: version 1 with the top bit set => BADVERS, no data *)
Example c09_badvers_example :
  let req := [18;52; 1;0; 0;1; 0;0; 0;0; 0;1; 0; 0;1; 0;1;  0; 0;41; 16;0; 128;1;0;0; 0;0]%N in
  let cfg := mkConfig Udp 1232 1232 [] [] 0 in
  exists w, handle_message (fun _ _ _ _ => empty_body) (fun _ _ _ _ _ _ => VOk) cfg req = Ok (Some w) /\
            w_rcode w = 0%N /\ w_edns w = Some (1232%N, 1%N) /\ w_body w = empty_body.
Proof. cbv zeta. eexists. split; [vm_compute; reflexivity|]. repeat split. Qed.

(* ---- the spec-level twin of "processing reached an OPT" -----------------------------------------------
   [s_opt_reached] (Spec/MsgWalkS.v) reads the request with the SPEC decoders only: the question (if any)
   decodes, the answer/authority records are delimitable (first label sequence + 10 fixed octets +
   RDLENGTH in bounds) and none is OPT/TSIG, and the additional records, in order over delimitable
   ordinary records, present a record of type 41 before an undelimitable record, a TSIG or the end. *)
Theorem c09_opt_reached_is_spec : forall req, wf_bytes req -> opt_reached req = s_opt_reached req.
Proof. exact opt_reached_spec. Qed.

Theorem c09_opt_iff_spec : forall answer verify cfg req w, wf_cfg cfg -> wf_bytes req ->
  handle_message answer verify cfg req = Ok (Some w) ->
  (w_edns w <> None <-> s_opt_reached req = true).
Proof. exact opt_iff_spec. Qed.

(* BADVERS exactly as the classifier says: a well-formed OPT (root owner, options tiling the RDATA) whose
   VERSION octet (bits 23..16 of the TTL field) is not 0, met before any problem => extended RCODE 16,
   no data; a malformed OPT (e.g. owner not the root) is FORMERR (c08_formerr_response, OptMalformed). *)
Theorem c09_badvers_response : forall answer verify cfg req i w, wf_cfg cfg -> wf_bytes req ->
  first_problem req = VBadVers i -> handle_message answer verify cfg req = Ok (Some w) ->
  badvers_resp w /\ no_data w.
Proof. exact badvers_response. Qed.

(* ---- the OPT record at the byte level ---------------------------------------------------------------------
   [respond_w] / [respond_plain] (Model/QueryW.v): the byte-level composition of Server::handle_message for a
   clean QUERY on the Writer model of C12, run with [Some size] exactly when the server model's response is an
   EDNS response ([size] = the server's payload size, c09_opt_iff).  Every such response ENDS with the 11
   octets of the OPT pseudo-record: owner root (0), TYPE 41, CLASS = size, TTL field 0 (extended-RCODE bits 0,
   VERSION 0, flags 0), RDLENGTH 0 — whatever query answering (C05) wrote before it: the EDNS setting survives
   every Writer-interface operation, clear_rrs and the header setters (invariant EK), and finish emits the
   record at the cursor (finish_opt / add_rr_opt). *)
Theorem c09_answered_response_ends_with_opt : forall negttl buf tcp id rd qname qtype qclass size limit z len b,
  respond_w negttl buf tcp id rd qname qtype qclass (Some size) limit z = Some (len, b) ->
  11 <= len /\ slice b (len - 11) len = [0%N] ++ be16 41 ++ be16 size ++ be32 0 ++ be16 0.
Proof. exact respond_w_opt_tail. Qed.

Theorem c09_plain_response_ends_with_opt : forall buf tcp id rd qname qtype qclass size limit rcode len b,
  respond_plain buf tcp id rd qname qtype qclass (Some size) limit rcode = Some (len, b) ->
  11 <= len /\ slice b (len - 11) len = [0%N] ++ be16 41 ++ be16 size ++ be32 0 ++ be16 0.
Proof. exact respond_plain_opt_tail. Qed.

Example c09_spec_examples :
  let hdr ar := [18;52; 1;0; 0;1; 0;0; 0;0; 0;N.of_nat ar]%N in
  let q := [0; 0;1; 0;1]%N in
  let opt := [0; 0;41; 4;208; 0;0;0;0; 0;0]%N in
  let a := [0; 0;1; 0;1; 0;0;0;60; 0;4; 1;2;3;4]%N in
  s_opt_reached (hdr 2 ++ q ++ a ++ opt) = true /\ s_opt_reached (hdr 1 ++ q ++ a) = false /\
  s_opt_reached (hdr 2 ++ q ++ [0; 0;1; 0;1; 0;0;0;60; 0;99]%N ++ opt) = false.
Proof. cbv zeta. repeat split; vm_compute; reflexivity. Qed.

Print Assumptions c09_opt_iff.
Print Assumptions c09_validate_opt.
Print Assumptions c09_badvers_refuted_prefix.
Print Assumptions c09_opt_reached_is_spec.
Print Assumptions c09_opt_iff_spec.
Print Assumptions c09_badvers_response.
Print Assumptions c09_answered_response_ends_with_opt.
Print Assumptions c09_plain_response_ends_with_opt.
