(* C32 — concurrent catalog and key swaps never mix snapshots.
   Statements only; proofs are in Proofs/SnapshotP.v. *)
From Coq Require Import List Arith Bool NArith.
Import ListNotations.
From QV Require Import Gen.SnapConsts Model.Snapshot Spec.SnapshotS Proofs.SnapshotP.

(* For every set of handler and swapper threads, every initial catalog/key set and EVERY
   schedule (interleaving of their atomic steps): each response in the trace was computed by
   the pure function [handle] from the thread's request, ONE catalog value and (if the TSIG
   point is reached) ONE key set, each being the content of its cell — replayed from the
   write events alone — at an instant strictly inside the handler's interval; and if a
   set_catalog returned before the handler started, the catalog used is that replacement's
   value or a later one (version order). *)
Theorem c32_single_snapshot :
  forall (Req C K Resp : Type) (needs_keys : Req -> bool) (handle : Req -> C -> option K -> Resp)
         (ths : list (thread Req C K)) (c0 : C) (k0 : K) (sched : list nat) tr fin,
  forallb fresh ths = true ->
  exec Req C K Resp needs_keys handle sched (init ths c0 k0) = (tr, fin) ->
  single_snapshot Req C K Resp needs_keys handle (req_of Req C K ths) c0 k0 tr.
Proof.
  intros Req C K Resp needs_keys handle ths c0 k0 sched tr fin Hf.
  exact (exec_single_snapshot Req C K Resp needs_keys handle ths c0 k0 Hf sched tr fin).
Qed.

(* The "after a replacement returns" half on its own. *)
Theorem c32_after_swap :
  forall (Req C K Resp : Type) (needs_keys : Req -> bool) (handle : Req -> C -> option K -> Resp)
         (ths : list (thread Req C K)) (c0 : C) (k0 : K) (sched : list nat) tr fin e t r,
  forallb fresh ths = true ->
  exec Req C K Resp needs_keys handle sched (init ths c0 k0) = (tr, fin) ->
  nth_error tr e = Some (ERespond t r) ->
  exists s i, nth_error tr s = Some (EStart t) /\ s < i /\ i < e /\
    forall q u v, nth_error tr q = Some (ERetCat u v) -> q < s -> v <= fst (cat_at c0 tr i).
Proof.
  intros Req C K Resp needs_keys handle ths c0 k0 sched tr fin e t r Hf He Hn.
  destruct (c32_single_snapshot Req C K Resp needs_keys handle ths c0 k0 sched tr fin Hf He e t r Hn)
    as (req & s & i & _ & H2 & H3 & H4 & _ & H6).
  exists s, i. auto.
Qed.

(* Versions are the number of catalog writes so far: "later" is the order of the writes. *)
Theorem c32_versions_grow :
  forall (Req C K Resp : Type) (needs_keys : Req -> bool) (handle : Req -> C -> option K -> Resp)
         (ths : list (thread Req C K)) (c0 : C) (k0 : K) (sched : list nat) tr fin i d,
  forallb fresh ths = true ->
  exec Req C K Resp needs_keys handle sched (init ths c0 k0) = (tr, fin) ->
  i + d <= length tr -> fst (cat_at c0 tr i) <= fst (cat_at c0 tr (i + d)).
Proof.
  intros Req C K Resp needs_keys handle ths c0 k0 sched tr fin i d Hf He.
  eapply (cat_version_mono Req C K Resp needs_keys handle ths c0 k0 tr fin).
  apply reach_inv; [exact Hf|]. change tr with ([] ++ tr).
  eapply exec_reach; [apply reach_init|exact He].
Qed.

(* Source tie: the real handle_message acquires each cell once per message (re-extracted from
   src/server/*.rs on every run by tools/gen/snapconsts.py), which is what the model's handler
   program (one ReadCat, at most one ReadKeys) assumes. *)
Theorem c32_one_acquisition_per_cell :
  CAT_LOCK_READS = 1%N /\ CAT_SNAPSHOTS_PER_MESSAGE = 1%N /\ CAT_SNAPSHOTS_IN_HANDLE_MESSAGE = 1%N /\
  KEYS_LOCK_READS = 1%N /\ KEYS_SNAPSHOTS_PER_MESSAGE = 1%N /\
  KEYS_SNAPSHOTS_IN_HANDLE_MESSAGE_WITH_CONTEXT = 1%N /\
  CAT_LOCK_WRITES = 1%N /\ KEYS_LOCK_WRITES = 1%N /\ DIRECT_CELL_USES = 0%N.
Proof. repeat split; reflexivity. Qed.

(* Non-vacuity: a handler overlapping a catalog swap, and one started after the swap returned. *)
Example c32_example :
  let ths := [Handler (C:=nat) (K:=nat) 10 HNew; Swapper [SetCat 1; SetKeys 7] None; Handler 20 HNew] in
  let handle := fun (req c : nat) (k : option nat) => (req, c, k) in
  let needs := fun req => Nat.eqb req 20 in
  forallb fresh ths = true /\
  fst (exec nat nat nat _ needs handle [0; 0; 1; 0; 1; 2; 2; 1; 2; 1; 2] (init ths 0 0)) =
  [EStart 0; EReadCat 0 0 0; EWriteCat 1 1 1; ERespond 0 (10, 0, None); ERetCat 1 1; EStart 2;
   EReadCat 2 1 1; EWriteKeys 1 1 7; EReadKeys 2 1 7; ERetKeys 1 1; ERespond 2 (20, 1, Some 7)].
Proof. split; reflexivity. Qed.

Print Assumptions c32_single_snapshot.
Print Assumptions c32_after_swap.
Print Assumptions c32_versions_grow.
Print Assumptions c32_one_acquisition_per_cell.
