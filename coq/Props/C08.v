(* C08 — malformed requests are answered with FORMERR; the first problem wins. *)
From QV Require Import Base.ListX Model.NameWire Model.Reader Model.RdataLite Model.Server Proofs.ReaderP Proofs.ServerP.

(* Whatever the pre-processing decides is final: nothing later replaces its RCODE, and the
   response carries no answer/authority/additional data and has AA clear. *)
Theorem c08_early_is_final : forall answer verify cfg req w, wf_cfg cfg -> wf_bytes req ->
  prescan verify cfg req = Ok (PEarly w) ->
  handle_message answer verify cfg req = Ok (Some w) /\ no_data w.
Proof. exact early_is_final. Qed.

(* The individual causes, each ending the scan on the spot with FORMERR: *)
Theorem c08_undelimitable_additional : forall verify cfg r w seen last e,
  peek_core r = Err e ->
  process_additional verify cfg r w seen last = Ok (r, Return (set_rcode w RC_FORMERR), seen).
Proof. exact undelimitable_additional_formerr. Qed.

Theorem c08_second_opt : forall verify cfg r w last p,
  peek_core r = Ok p -> @be16_at reader_err (r_octets r) (p_owner_end p) = Ok TYPE_OPT ->
  process_additional verify cfg r w true last = Ok (r, Return (set_rcode w RC_FORMERR), true).
Proof. exact second_opt_formerr. Qed.

Theorem c08_tsig_not_last : forall verify cfg r w seen p,
  peek_core r = Ok p -> @be16_at reader_err (r_octets r) (p_owner_end p) = Ok TYPE_TSIG ->
  process_additional verify cfg r w seen false = Ok (r, Return (set_rcode w RC_FORMERR), seen).
Proof. exact tsig_not_last_formerr. Qed.

(* OPT/TSIG (or an undelimitable record) in the answer or authority section *)
Theorem c08_an_ns : forall n r w r' s, scan_an_ns n r w = Ok (r', s) ->
  (s = Continue w /\ an_ns_reader n r = Some r') \/
  (s = Return (set_rcode w RC_FORMERR) /\ an_ns_reader n r = None).
Proof. exact scan_an_ns_reader. Qed.

(* a QUERY without a question *)
Theorem c08_query_without_question : forall answer cfg w, no_data w -> w_question w = None ->
  handle_query answer cfg w = set_rcode w RC_FORMERR.
Proof. intros answer cfg w N Q. pose proof (handle_query_table answer cfg w N) as T. rewrite Q in T. exact T. Qed.

(* data only ever accompanies a request that passed every check (contrapositive of "FORMERR and
   no answer or authority data") *)
Theorem c08_data_only_if_clean : forall answer verify cfg req w, wf_cfg cfg -> wf_bytes req ->
  handle_message answer verify cfg req = Ok (Some w) -> ~ no_data w ->
  exists w0, prescan verify cfg req = Ok (PClean OPCODE_QUERY w0).
Proof.
  intros answer verify cfg req w Hc Hw H N.
  destruct (data_only_from_loaded_zone answer verify cfg req w Hc Hw H N) as (w0 & _ & _ & _ & E & _). eauto.
Qed.

(* Regression witness for the defect "FORMERR for trailing octets was overwritten": in the model of
   the fixed code a request with one extra octet is PEarly FORMERR. *)
Example c08_trailing_octet :
  let req := [18;52; 1;0; 0;1; 0;0; 0;0; 0;0; 0; 0;1; 0;1; 0]%N in
  let cfg := mkConfig Udp 1232 1232 [] [] 0 in
  exists w, prescan (fun _ _ _ _ _ _ => VOk) cfg req = Ok (PEarly w) /\ w_rcode w = RC_FORMERR.
Proof. cbv zeta. eexists. split; [vm_compute; reflexivity|reflexivity]. Qed.

Print Assumptions c08_early_is_final.
Print Assumptions c08_undelimitable_additional.
Print Assumptions c08_second_opt.
Print Assumptions c08_tsig_not_last.
Print Assumptions c08_an_ns.
Print Assumptions c08_query_without_question.
Print Assumptions c08_data_only_if_clean.
