(* C08 — malformed requests are answered with FORMERR; the first problem wins. *)
From QV Require Import Base.ListX Model.NameWire Model.Reader Model.RdataLite Model.Server Proofs.ReaderP Proofs.ServerP
  Spec.NameWireS Spec.ReaderS Spec.MsgWalkS Proofs.MsgWalkP Proofs.MsgWalkRecP Proofs.MsgWalkTopP.

(* Whatever the pre-processing decides is final: nothing later replaces its RCODE, and the
   response carries no answer/authority/additional data and has AA clear. *)
Theorem c08_early_is_final : forall answer verify cfg req w, wf_cfg cfg -> wf_bytes req ->
  prescan verify cfg req = Ok (PEarly w) ->
  handle_message answer verify cfg req = Ok (Some w) /\ no_data w.
Proof. exact early_is_final. Qed.

(* The individual causes, each ending the scan on the spot with FORMERR: *)
Theorem c08_undelimitable_additional : forall verify cfg r w seen last e,
  peek_core r = Err e ->
  process_additional verify cfg r w seen last = Ok (r, Return (set_rcode w RC_FORMERR), seen).
Proof. exact undelimitable_additional_formerr. Qed.

Theorem c08_second_opt : forall verify cfg r w last p,
  peek_core r = Ok p -> @be16_at reader_err (r_octets r) (p_owner_end p) = Ok TYPE_OPT ->
  process_additional verify cfg r w true last = Ok (r, Return (set_rcode w RC_FORMERR), true).
Proof. exact second_opt_formerr. Qed.

Theorem c08_tsig_not_last : forall verify cfg r w seen p,
  peek_core r = Ok p -> @be16_at reader_err (r_octets r) (p_owner_end p) = Ok TYPE_TSIG ->
  process_additional verify cfg r w seen false = Ok (r, Return (set_rcode w RC_FORMERR), seen).
Proof. exact tsig_not_last_formerr. Qed.

(* OPT/TSIG (or an undelimitable record) in the answer or authority section *)
Theorem c08_an_ns : forall n r w r' s, scan_an_ns n r w = Ok (r', s) ->
  (s = Continue w /\ an_ns_reader n r = Some r') \/
  (s = Return (set_rcode w RC_FORMERR) /\ an_ns_reader n r = None).
Proof. exact scan_an_ns_reader. Qed.

(* a QUERY without a question *)
Theorem c08_query_without_question : forall answer cfg w, no_data w -> w_question w = None ->
  handle_query answer cfg w = set_rcode w RC_FORMERR.
Proof. intros answer cfg w N Q. pose proof (handle_query_table answer cfg w N) as T. rewrite Q in T. exact T. Qed.

(* data only ever accompanies a request that passed every check (contrapositive of "FORMERR and
   no answer or authority data") *)
Theorem c08_data_only_if_clean : forall answer verify cfg req w, wf_cfg cfg -> wf_bytes req ->
  handle_message answer verify cfg req = Ok (Some w) -> ~ no_data w ->
  exists w0, prescan verify cfg req = Ok (PClean OPCODE_QUERY w0).
Proof.
  intros answer verify cfg req w Hc Hw H N.
  destruct (data_only_from_loaded_zone answer verify cfg req w Hc Hw H N) as (w0 & _ & _ & _ & E & _). eauto.
Qed.

(* Regression witness for the defect "FORMERR for trailing octets was overwritten": in the model of
   the fixed code a request with one extra octet is PEarly FORMERR. *)
Example c08_trailing_octet :
  let req := [18;52; 1;0; 0;1; 0;0; 0;0; 0;0; 0; 0;1; 0;1; 0]%N in
  let cfg := mkConfig Udp 1232 1232 [] [] 0 in
  exists w, prescan (fun _ _ _ _ _ _ => VOk) cfg req = Ok (PEarly w) /\ w_rcode w = RC_FORMERR.
Proof. cbv zeta. eexists. split; [vm_compute; reflexivity|reflexivity]. Qed.

(* ---- the spec-level classifier ---------------------------------------------------------------------
   [first_problem : bytes -> verdict] (Spec/MsgWalkS.v) is an independent reading of the request in
   message order, built only on the SPEC decoders (spec_decode_name, sbe16/sbe32, "delimit a record" =
   first label sequence + 10 fixed octets + RDLENGTH in bounds, RFC 6891 option tiling, RFC 8945 TSIG
   RDATA layout): VSilent | VFormerr problem | VBadVers i | VTsig i then_ | VClean, the problem being
   QuestionUnparseable, RecordUndelimitable i, PseudoOutsideAdditional i, SecondOpt i, OptMalformed i,
   TsigNotLast i, TsigMalformed i (incl. wrong class / TTL), QueryWithoutQuestion or TrailingOctets.
   [formerr_resp w]: RCODE 1, no extended-RCODE bits, no TSIG.  [badvers_resp w]: RCODE 0 with upper
   bits 1 (extended RCODE 16) in an EDNS response.  [tsig_resp w]: carries a TSIG (or TC because the
   TSIG did not fit): key lookup and HMAC verification, parameters here, decided (C10/C11). *)

(* The pre-processing of the model decides EXACTLY what the classifier says, for every request. *)
Theorem c08_first_problem : forall verify cfg req p, wf_cfg cfg -> wf_bytes req ->
  prescan verify cfg req = Ok p ->
  match first_problem req with
  | VSilent => p = PNone
  | VFormerr QueryWithoutQuestion =>
    exists w, p = PClean OPCODE_QUERY w /\ w_question w = None /\ w_rcode w = 0%N /\ w_tsig w = None
  | VFormerr _ => exists w, p = PEarly w /\ formerr_resp w
  | VBadVers _ => exists w, p = PEarly w /\ badvers_resp w
  | VTsig _ t =>
    (exists w, p = PEarly w /\ tsig_resp w) \/
    match t with
    | Some TrailingOctets => False
    | Some _ => exists w, p = PClean OPCODE_QUERY w /\ w_question w = None /\ w_tsig w <> None
    | None => exists o w, p = PClean o w /\ w_tsig w <> None /\ w_rcode w = 0%N /\ (o = OPCODE_QUERY -> w_question w <> None)
    end
  | VClean => exists o w, p = PClean o w /\ w_rcode w = 0%N /\ w_tsig w = None /\ (o = OPCODE_QUERY -> w_question w <> None)
  end.
Proof. exact prescan_first_problem. Qed.

(* FORMERR iff: unless a well-formed last TSIG record is reached before any problem (then key lookup and
   HMAC verification decide), the pre-processing ends in FORMERR — an early FORMERR response, or a QUERY
   handed to handle_query without a question — exactly when the first problem in message order is a
   FORMERR-class one; in particular an EDNS version error found earlier (VBadVers) is reported instead,
   and a request without any problem (VClean) is never FORMERR here. *)
Theorem c08_formerr_iff_first_problem : forall verify cfg req p, wf_cfg cfg -> wf_bytes req ->
  prescan verify cfg req = Ok p -> (forall i t, first_problem req <> VTsig i t) ->
  (prescan_formerr p <-> exists pr, first_problem req = VFormerr pr).
Proof. exact formerr_iff_first_problem. Qed.

(* what is sent: FORMERR with no data, whatever query answering would have said *)
Theorem c08_formerr_response : forall answer verify cfg req pr w, wf_cfg cfg -> wf_bytes req ->
  first_problem req = VFormerr pr -> handle_message answer verify cfg req = Ok (Some w) ->
  w_rcode w = RC_FORMERR /\ no_data w /\ w_tsig w = None /\ upper0 w.
Proof. exact formerr_response. Qed.

Theorem c08_badvers_response : forall answer verify cfg req i w, wf_cfg cfg -> wf_bytes req ->
  first_problem req = VBadVers i -> handle_message answer verify cfg req = Ok (Some w) ->
  badvers_resp w /\ no_data w.
Proof. exact badvers_response. Qed.

Theorem c08_clean_reaches_dispatch : forall verify cfg req, wf_cfg cfg -> wf_bytes req -> first_problem req = VClean ->
  exists o w, prescan verify cfg req = Ok (PClean o w) /\ w_rcode w = 0%N /\ w_tsig w = None /\
              (o = OPCODE_QUERY -> w_question w <> None).
Proof. exact clean_reaches_dispatch. Qed.

Theorem c08_silent_iff_first_problem : forall answer verify cfg req, wf_cfg cfg -> wf_bytes req ->
  (handle_message answer verify cfg req = Ok None <-> first_problem req = VSilent).
Proof. exact silent_iff_first_problem. Qed.

(* Non-vacuity of the classifier: every verdict and every problem is produced by a concrete request.
   Header: id 1234, flags 0100, counts; question = root IN A. *)
Example c08_classifier_examples :
  let hdr qd an ns ar := [18;52; 1;0; 0;N.of_nat qd; 0;N.of_nat an; 0;N.of_nat ns; 0;N.of_nat ar]%N in
  let q := [0; 0;1; 0;1]%N in
  let opt ver := [0; 0;41; 4;208; 0;N.of_nat ver;0;0; 0;0]%N in
  let a := [0; 0;1; 0;1; 0;0;0;60; 0;4; 1;2;3;4]%N in
  let tsig cl := [1;107;0; 0;250; 0;N.of_nat cl; 0;0;0;0; 0;29;
                  11;104;109;97;99;45;115;104;97;50;53;54;0; 0;0;0;0;0;0; 1;44; 0;0; 18;52; 0;0; 0;0]%N in
  first_problem (hdr 1 0 0 0 ++ q) = VClean /\
  first_problem (hdr 1 0 0 0 ++ [3;97]%N) = VFormerr QuestionUnparseable /\
  first_problem (hdr 1 1 0 0 ++ q ++ [0; 0;1; 0;1; 0;0;0;60; 0;9; 1]%N) = VFormerr (RecordUndelimitable 0) /\
  first_problem (hdr 1 0 1 0 ++ q ++ opt 0) = VFormerr (PseudoOutsideAdditional 0) /\
  first_problem (hdr 1 0 0 3 ++ q ++ a ++ opt 0 ++ opt 0) = VFormerr (SecondOpt 2) /\
  first_problem (hdr 1 0 0 1 ++ q ++ [1;120;0; 0;41; 4;208; 0;0;0;0; 0;0]%N) = VFormerr (OptMalformed 0) /\
  first_problem (hdr 1 0 0 2 ++ q ++ a ++ opt 1) = VBadVers 1 /\
  first_problem (hdr 1 0 0 2 ++ q ++ tsig 255 ++ a) = VFormerr (TsigNotLast 0) /\
  first_problem (hdr 1 0 0 1 ++ q ++ tsig 1) = VFormerr (TsigMalformed 0) /\
  first_problem (hdr 1 0 0 2 ++ q ++ opt 0 ++ tsig 255) = VTsig 1 None /\
  first_problem (hdr 0 0 0 0) = VFormerr QueryWithoutQuestion /\
  first_problem (hdr 1 0 0 0 ++ q ++ [0]%N) = VFormerr TrailingOctets /\
  first_problem (hdr 2 0 0 0 ++ q ++ q) = VSilent.
Proof. cbv zeta. repeat split; vm_compute; reflexivity. Qed.

Print Assumptions c08_early_is_final.
Print Assumptions c08_undelimitable_additional.
Print Assumptions c08_second_opt.
Print Assumptions c08_tsig_not_last.
Print Assumptions c08_an_ns.
Print Assumptions c08_query_without_question.
Print Assumptions c08_data_only_if_clean.
Print Assumptions c08_first_problem.
Print Assumptions c08_formerr_iff_first_problem.
Print Assumptions c08_formerr_response.
Print Assumptions c08_badvers_response.
Print Assumptions c08_clean_reaches_dispatch.
Print Assumptions c08_silent_iff_first_problem.
